(* Proofs/PsetV2.v — round-trip theorems for the PSET v2 codec model (Model/PsetV2.v).
   A. key-pair framing; B. the deserialize loop on a framed stream is a fold;
   C. the generic field-table lemma (proved once for an arbitrary table);
   D. packets; E. determinism, kinds, refutations; F. ties to the regenerated constants. *)
From GE Require Import Lib.Bytes Lib.Varint Model.Tx Model.PsetV2 Proofs.TxCodec.
From GE Require Import Gen.PsetV2Consts Gen.PsetV2GlobalConsts Gen.PsetV2InputConsts Gen.PsetV2OutputConsts.
From Coq Require Import ZifyBool ZifyN ZifyNat Permutation.
Open Scope N_scope.

(* ---------- small helpers ---------- *)
Lemma maxKeyLen_val : maxKeyLen = 10000. Proof. reflexivity. Qed.
Lemma PsetProprietary_val : PsetProprietary = 252. Proof. reflexivity. Qed.
Lemma magic_len : lenN pset_magic = 4. Proof. reflexivity. Qed.
Lemma sep_is_empty_key : [pset_sep] = var_slice []. Proof. reflexivity. Qed.

Lemma bytes_eqb_refl a : bytes_eqb a a = true.
Proof. apply bytes_eqb_eq. reflexivity. Qed.

Lemma cbind_ok {A B} (x : cres A) (f : A -> cres B) b :
  cbind x f = ROk b -> exists a, x = ROk a /\ f a = ROk b.
Proof. destruct x as [a| |]; cbn; intro H; try discriminate. exists a. split; [reflexivity | exact H]. Qed.

Lemma lenN_cons (b : byte) (l : bytes) : lenN (b :: l) = 1 + lenN l.
Proof. unfold lenN. cbn [length]. lia. Qed.

(* ================= A. key-pair framing ================= *)
Lemma frame_ok_parts k : frame_ok k = true ->
  k_type k < 256 /\ 1 + lenN (k_data k) <= maxKeyLen /\ lenN (k_val k) < two64.
Proof.
  unfold frame_ok. rewrite !andb_true_iff. intros [[H1 H2] H3].
  apply N.ltb_lt in H1. apply N.leb_le in H2. apply N.ltb_lt in H3. auto.
Qed.

Lemma read_kp_app k rest : frame_ok k = true -> read_kp (ser_kp k ++ rest) = KGot k rest.
Proof.
  intro F. apply frame_ok_parts in F as (Ht & Hk & Hv). rewrite maxKeyLen_val in Hk.
  unfold read_kp, ser_kp. rewrite <- app_assoc.
  rewrite p_var_slice_app by (rewrite lenN_cons; unfold two64; lia).
  rewrite lenN_cons, maxKeyLen_val.
  destruct (N.ltb_spec 10000 (1 + lenN (k_data k))) as [L|L]; [lia|].
  rewrite p_var_slice_app by exact Hv.
  rewrite n8_b8, N.mod_small by exact Ht. destruct k; reflexivity.
Qed.

Lemma read_kp_sep rest : read_kp (pset_sep :: rest) = KEnd rest.
Proof.
  change (pset_sep :: rest) with ([pset_sep] ++ rest). rewrite sep_is_empty_key.
  unfold read_kp. rewrite p_var_slice_app by (cbn; unfold two64; lia). reflexivity.
Qed.

Lemma read_kp_got bs k r : read_kp bs = KGot k r -> bs = ser_kp k ++ r /\ frame_ok k = true.
Proof.
  unfold read_kp. destruct (p_var_slice bs) as [[key r1]|] eqn:P1; [|discriminate].
  destruct key as [|t kd]; [discriminate|].
  destruct (N.ltb_spec maxKeyLen (lenN (t :: kd))) as [L|L]; [discriminate|].
  destruct (p_var_slice r1) as [[v r2]|] eqn:P2; [|discriminate].
  intro H; inversion H; subst; clear H.
  apply p_var_slice_inv in P1 as [-> H1]. apply p_var_slice_inv in P2 as [-> H2].
  unfold ser_kp. cbn [k_type k_data k_val]. rewrite b8_n8, <- app_assoc. split; [reflexivity|].
  unfold frame_ok. cbn [k_type k_data k_val]. rewrite lenN_cons in L.
  pose proof (n8_lt t).
  destruct (N.ltb_spec (n8 t) 256); [|lia].
  destruct (N.leb_spec (1 + lenN kd) maxKeyLen); [|lia].
  destruct (N.ltb_spec (lenN v) two64); [|lia]. reflexivity.
Qed.

Lemma read_kp_end bs r : read_kp bs = KEnd r -> bs = pset_sep :: r.
Proof.
  unfold read_kp. destruct (p_var_slice bs) as [[key r1]|] eqn:P1; [|discriminate].
  destruct key as [|t kd].
  - intro H; inversion H; subst. apply p_var_slice_inv in P1 as [-> _]. reflexivity.
  - destruct (maxKeyLen <? lenN (t :: kd)); [discriminate|].
    destruct (p_var_slice r1) as [[v r2]|]; discriminate.
Qed.

Lemma ser_kp_nonempty k : ser_kp k <> [].
Proof.
  unfold ser_kp. pose proof (var_slice_nonempty (b8 (k_type k) :: k_data k)) as H.
  destruct (var_slice (b8 (k_type k) :: k_data k)); [congruence | discriminate].
Qed.

Lemma enc_kps_length l : (length l <= length (enc_kps l))%nat.
Proof.
  induction l as [|k l IH]; [cbn; lia|]. unfold enc_kps in *. cbn [map concat]. rewrite app_length.
  pose proof (ser_kp_nonempty k). destruct (ser_kp k); [congruence|]. cbn [length]. lia.
Qed.

Section Codec.
Variable pk_ok der_ok xonly_ok : bytes -> bool.
Variable msgtx_canon : bytes -> option bytes.

Notation sec_step := (sec_step pk_ok der_ok xonly_ok msgtx_canon).
Notation parse_kps := (parse_kps pk_ok der_ok xonly_ok msgtx_canon).
Notation parse_section := (parse_section pk_ok der_ok xonly_ok msgtx_canon).
Notation parse_secs := (parse_secs pk_ok der_ok xonly_ok msgtx_canon).
Notation parse_pset := (parse_pset pk_ok der_ok xonly_ok msgtx_canon).
Notation apply_slot := (apply_slot pk_ok der_ok xonly_ok msgtx_canon).
Notation s_dec := (s_dec pk_ok msgtx_canon).
Notation m_step := (m_step pk_ok der_ok xonly_ok).
Notation m_replay := (m_replay pk_ok der_ok xonly_ok).
Notation m_wf := (m_wf pk_ok der_ok xonly_ok).
Notation s_wf := (s_wf pk_ok msgtx_canon).
Notation slot_wf := (slot_wf pk_ok der_ok xonly_ok msgtx_canon).
Notation slots_wf := (slots_wf pk_ok der_ok xonly_ok msgtx_canon).
Notation wf_sec := (wf_sec pk_ok der_ok xonly_ok msgtx_canon).
Notation wf_pset := (wf_pset pk_ok der_ok xonly_ok msgtx_canon).

(* ================= B. the deserialize loop as a fold ================= *)
Fixpoint fold_step (tbl : list slot) (s : sec) (kps : list kpair) : cres sec :=
  match kps with
  | [] => ROk s
  | k :: r => cbind (sec_step tbl s k) (fun s' => fold_step tbl s' r)
  end.

Lemma fold_step_app tbl a b s :
  fold_step tbl s (a ++ b) = cbind (fold_step tbl s a) (fun s' => fold_step tbl s' b).
Proof.
  revert s; induction a as [|k a IH]; intro s; [reflexivity|].
  cbn [app fold_step]. destruct (sec_step tbl s k) as [s'| |]; cbn [cbind]; [apply IH | reflexivity | reflexivity].
Qed.

Lemma parse_kps_app tbl kps : forall fuel s rest,
  Forall (fun k => frame_ok k = true) kps -> (length kps < fuel)%nat ->
  parse_kps tbl fuel s (enc_kps kps ++ pset_sep :: rest) =
  cbind (fold_step tbl s kps) (fun s' => ROk (s', rest)).
Proof.
  induction kps as [|k kps IH]; intros fuel s rest F L.
  - destruct fuel as [|f]; [cbn in L; lia|]. cbn [enc_kps map concat app PsetV2.parse_kps].
    rewrite read_kp_sep. reflexivity.
  - destruct fuel as [|f]; [cbn in L; lia|]. inversion F as [|? ? Fk Fr]; subst.
    unfold enc_kps. cbn [map concat PsetV2.parse_kps]. rewrite <- app_assoc.
    rewrite read_kp_app by exact Fk. cbn [fold_step].
    destruct (sec_step tbl s k) as [s'| |]; cbn [cbind]; [|reflexivity|reflexivity].
    apply IH; [exact Fr | cbn [length] in L; lia].
Qed.

Lemma parse_kps_inv tbl : forall fuel s bs s' rest,
  parse_kps tbl fuel s bs = ROk (s', rest) ->
  exists kps, bs = enc_kps kps ++ pset_sep :: rest /\
              Forall (fun k => frame_ok k = true) kps /\ fold_step tbl s kps = ROk s'.
Proof.
  induction fuel as [|f IH]; intros s bs s' rest H; [discriminate|].
  cbn [PsetV2.parse_kps] in H. destruct (read_kp bs) as [r|k r|] eqn:R; [| |discriminate].
  - inversion H; subst. apply read_kp_end in R. exists []. cbn. auto.
  - apply cbind_ok in H as (s1 & H1 & H2). apply IH in H2 as (kps & -> & F & Fo).
    apply read_kp_got in R as [-> Fk]. exists (k :: kps). unfold enc_kps. cbn [map concat].
    rewrite <- app_assoc. split; [reflexivity|]. split; [constructor; assumption|].
    cbn [fold_step]. rewrite H1. exact Fo.
Qed.


(* ================= C. the generic field-table lemma ================= *)
Definition key_small (k : keyid) : bool :=
  match k with
  | KStd t => (t <? 256) && negb (t =? PsetProprietary)
  | KProp sub => sub <? 256
  end.
Fixpoint nodup_keys (l : list keyid) : bool :=
  match l with
  | [] => true
  | k :: r => negb (existsb (keyid_eqb k) r) && nodup_keys r
  end.
(* what the generic lemma needs from a table: decode labels pairwise distinct, all keys one byte,
   no standard key equal to the proprietary marker *)
Definition tbl_ok (tbl : list slot) : bool :=
  nodup_keys (map sl_dkey tbl) &&
  forallb (fun sl => key_small (sl_dkey sl) && key_small (sl_ekey sl)) tbl.

Lemma keyid_eqb_eq a b : keyid_eqb a b = true <-> a = b.
Proof.
  destruct a as [x|x], b as [y|y]; cbn; split; intro H; try discriminate; try congruence.
  - apply N.eqb_eq in H. congruence.
  - inversion H. apply N.eqb_refl.
  - apply N.eqb_eq in H. congruence.
  - inversion H. apply N.eqb_refl.
Qed.
Lemma keyid_eqb_refl a : keyid_eqb a a = true.
Proof. apply keyid_eqb_eq. reflexivity. Qed.

Lemma find_slot_mid pre sl suf : forall j,
  nodup_keys (map sl_dkey (pre ++ sl :: suf)) = true ->
  find_slot_from j (sl_dkey sl) (pre ++ sl :: suf) = Some ((j + length pre)%nat, sl).
Proof.
  induction pre as [|x pre IH]; intros j ND.
  - cbn [app find_slot_from]. rewrite keyid_eqb_refl. f_equal. f_equal. cbn. lia.
  - cbn [app map nodup_keys] in ND. apply andb_true_iff in ND as [N1 N2].
    cbn [app find_slot_from].
    destruct (keyid_eqb (sl_dkey x) (sl_dkey sl)) eqn:E.
    + exfalso. apply negb_true_iff in N1.
      assert (X : existsb (keyid_eqb (sl_dkey x)) (map sl_dkey (pre ++ sl :: suf)) = true).
      { apply existsb_exists. exists (sl_dkey sl). split; [|exact E].
        apply in_map. apply in_or_app. right. left. reflexivity. }
      congruence.
    + rewrite IH by exact N2. f_equal. f_equal. cbn [length]. lia.
Qed.

Lemma prop_key_len sub kd : lenN (prop_key sub kd) = 6 + lenN kd.
Proof.
  unfold prop_key, prop_key_id. rewrite !lenN_app. change (lenN (var_slice pset_magic)) with 5.
  change (lenN [b8 sub]) with 1. lia.
Qed.

Lemma parse_prop_key_id id sub kd v : sub < 256 -> id <> [] -> lenN id < two64 ->
  parse_prop (mk_kpair PsetProprietary (prop_key_id id sub kd) v) = Some (mk_pd id sub kd v).
Proof.
  intros Hs Hne Hl. unfold parse_prop, prop_key_id, var_slice. cbn [k_data k_val]. rewrite <- !app_assoc.
  rewrite p_varint_app by exact Hl.
  destruct (N.eqb_spec (lenN id) 0) as [Z|_]; [destruct id; [congruence | unfold lenN in Z; cbn [length] in Z; lia]|].
  unfold lenN. rewrite takeN_app.
  cbn [app]. rewrite n8_b8, N.mod_small by exact Hs. reflexivity.
Qed.
Lemma parse_prop_key sub kd v : sub < 256 ->
  parse_prop (mk_kpair PsetProprietary (prop_key sub kd) v) = Some (mk_pd pset_magic sub kd v).
Proof.
  intro Hs. apply parse_prop_key_id; [exact Hs | discriminate | rewrite magic_len; unfold two64; lia].
Qed.

Lemma tbl_ok_parts tbl : tbl_ok tbl = true ->
  nodup_keys (map sl_dkey tbl) = true /\
  forall sl, In sl tbl -> key_small (sl_dkey sl) = true /\ key_small (sl_ekey sl) = true.
Proof.
  unfold tbl_ok. rewrite andb_true_iff. intros [H1 H2]. split; [exact H1|].
  intros sl Hin. rewrite forallb_forall in H2. apply H2 in Hin. apply andb_true_iff in Hin. exact Hin.
Qed.

(* a key pair written by the emitter of slot `sl` is dispatched to the decode arm of `sl` *)
Lemma sec_step_emitted pre sl suf kd v s :
  tbl_ok (pre ++ sl :: suf) = true -> sl_ekey sl = sl_dkey sl ->
  sec_step (pre ++ sl :: suf) s (mk_kp_id (sl_ekey sl) kd v) = apply_slot (length pre) sl kd v s.
Proof.
  intros T E. apply tbl_ok_parts in T as [ND KS].
  destruct (KS sl) as [K1 _]; [apply in_or_app; right; left; reflexivity|].
  pose proof (find_slot_mid pre sl suf 0 ND) as F. cbn [Nat.add] in F.
  unfold PsetV2.sec_step. rewrite E. destruct (sl_dkey sl) as [t|sub] eqn:D; cbn [mk_kp_id k_type k_data k_val].
  - cbn [key_small] in K1. apply andb_true_iff in K1 as [_ K1]. apply negb_true_iff in K1. rewrite K1.
    unfold find_slot. rewrite F. reflexivity.
  - cbn [key_small] in K1. apply N.ltb_lt in K1. rewrite N.eqb_refl.
    rewrite parse_prop_key by exact K1. cbn [pd_id pd_sub pd_kd]. rewrite bytes_eqb_refl.
    unfold find_slot. rewrite F. reflexivity.
Qed.

Lemma nth_mid {A} (a : list A) x r d i : length a = i -> nth i (a ++ x :: r) d = x.
Proof. intros <-. rewrite app_nth2 by lia. rewrite Nat.sub_diag. reflexivity. Qed.
Lemma lset_mid {A} (a : list A) x y r i : length a = i -> lset i x (a ++ y :: r) = a ++ x :: r.
Proof. intros <-. induction a as [|z a IH]; [reflexivity|]. cbn [length app lset]. rewrite IH. reflexivity. Qed.

Lemma entries_eqb_eq a b : entries_eqb a b = true -> a = b.
Proof.
  revert b; induction a as [|[k v] a IH]; intros [|[k' v'] b]; cbn; intro H; try discriminate; [reflexivity|].
  apply andb_true_iff in H as [H1 H2]. unfold entry_eqb in H1. cbn in H1. apply andb_true_iff in H1 as [Hk Hv].
  apply bytes_eqb_eq in Hk. apply bytes_eqb_eq in Hv. subst. f_equal. apply IH. exact H2.
Qed.

(* multi-valued slot: decoding the emitted entries replays them through the decode arm *)
Lemma ms_fold pre sl suf m V lpre R P U :
  tbl_ok (pre ++ sl :: suf) = true -> sl_ekey sl = sl_dkey sl -> sl_k sl = MS m ->
  length lpre = length pre ->
  forall todo acc res, m_replay m acc todo = ROk res ->
  fold_step (pre ++ sl :: suf) (mk_sec V (lpre ++ acc :: R) P U)
            (map (fun e => mk_kp_id (sl_ekey sl) (fst e) (snd e)) todo)
  = ROk (mk_sec V (lpre ++ res :: R) P U).
Proof.
  intros T E K Ll. induction todo as [|e todo IH]; intros acc res H.
  - cbn in H. inversion H; subst. reflexivity.
  - cbn [PsetV2.m_replay] in H. apply cbind_ok in H as (acc' & H1 & H2).
    cbn [map fold_step]. rewrite sec_step_emitted by assumption.
    unfold PsetV2.apply_slot. rewrite K. unfold list_at. cbn [s_lists].
    rewrite (nth_mid lpre acc R [] (length pre) Ll). rewrite H1. cbn [cbind].
    unfold set_list. cbn [s_vals s_lists s_props s_unks]. rewrite (lset_mid lpre acc' acc R (length pre) Ll).
    apply IH. exact H2.
Qed.

Lemma repeat_S {A} (x : A) n : repeat x (S n) = x :: repeat x n. Proof. reflexivity. Qed.

Lemma emit_fold tbl (t : sec) : tbl_ok tbl = true ->
  forall suf pre vpre lpre tvp tlp vsuf lsuf P U kps,
  tbl = pre ++ suf ->
  length vpre = length pre -> length lpre = length pre ->
  length tvp = length pre -> length tlp = length pre ->
  s_vals t = tvp ++ vsuf -> s_lists t = tlp ++ lsuf ->
  length vsuf = length suf -> length lsuf = length suf ->
  slots_wf (length pre) suf t = true ->
  emit_slots (length pre) suf t = ROk kps ->
  fold_step tbl (mk_sec (vpre ++ repeat [] (length suf)) (lpre ++ repeat [] (length suf)) P U) kps
  = ROk (mk_sec (vpre ++ norm_vals suf vsuf) (lpre ++ norm_lists suf lsuf) P U).
Proof.
  intro T. induction suf as [|sl suf IH]; intros pre vpre lpre tvp tlp vsuf lsuf P U kps Et L1 L2 L3 L4 Ev El Lv Ll W Em.
  - destruct vsuf; [|discriminate]. destruct lsuf; [|discriminate]. cbn in Em. inversion Em; subst. reflexivity.
  - destruct vsuf as [|b vsuf]; [discriminate|]. destruct lsuf as [|l lsuf]; [discriminate|].
    cbn [length] in Lv, Ll. injection Lv as Lv. injection Ll as Ll.
    cbn [PsetV2.slots_wf] in W. apply andb_true_iff in W as [W1 W2].
    cbn [emit_slots] in Em. apply cbind_ok in Em as (a & Ea & Em). apply cbind_ok in Em as (kb & Eb & Em).
    inversion Em; subst kps; clear Em.
    assert (Vt : val_at (length pre) t = b) by (unfold val_at; rewrite Ev; apply nth_mid; exact L3).
    assert (Lt : list_at (length pre) t = l) by (unfold list_at; rewrite El; apply nth_mid; exact L4).
    rewrite fold_step_app. cbn [length]. rewrite !repeat_S.
    assert (T' : tbl_ok (pre ++ sl :: suf) = true) by (rewrite <- Et; exact T).
    (* the state reached after the key pairs of this slot *)
    assert (Step : fold_step tbl (mk_sec (vpre ++ [] :: repeat [] (length suf)) (lpre ++ [] :: repeat [] (length suf)) P U) a
                   = ROk (mk_sec ((vpre ++ [match sl_k sl with SS k al => if s_emits k al b then b else [] | MS _ => b end])
                                   ++ repeat [] (length suf))
                                 ((lpre ++ [match sl_k sl with MS m => m_emit m l | SS _ _ => l end]) ++ repeat [] (length suf)) P U)).
    { rewrite <- !app_assoc. cbn [app].
      unfold PsetV2.slot_wf in W1. unfold emit_slot in Ea. rewrite Vt, Lt in *.
      destruct (sl_k sl) as [k al|m] eqn:K.
      - apply andb_true_iff in W1 as [W1 Wk]. apply andb_true_iff in W1 as [Ws Wl].
        destruct l; [|discriminate]. unfold PsetV2.s_wf in Ws.
        destruct (s_emits k al b) eqn:Emits.
        + inversion Ea; subst a; clear Ea.
          rewrite orb_false_r in Wk. apply keyid_eqb_eq in Wk.
          apply andb_true_iff in Ws as [Ws _]. unfold cres_bytes_eqb in Ws.
          destruct (s_dec k (s_emit k b)) as [b0| |] eqn:D; try discriminate. apply bytes_eqb_eq in Ws. subst b0.
          cbn [fold_step]. rewrite Et. rewrite sec_step_emitted by assumption.
          unfold PsetV2.apply_slot. rewrite K. unfold val_at. cbn [s_vals].
          rewrite (nth_mid vpre [] _ [] (length pre) L1). cbn [nonemptyb]. rewrite D. cbn [cbind].
          unfold set_val. cbn [s_vals s_lists s_props s_unks]. rewrite (lset_mid vpre b [] _ (length pre) L1). reflexivity.
        + inversion Ea; subst a. reflexivity.
      - apply andb_true_iff in W1 as [W1 _]. apply andb_true_iff in W1 as [W1 Wk].
        apply andb_true_iff in W1 as [Wb Wm]. destruct b; [|discriminate]. apply keyid_eqb_eq in Wk.
        inversion Ea; subst a; clear Ea. unfold PsetV2.m_wf in Wm.
        destruct (m_replay m [] (m_emit m l)) as [l'| |] eqn:Rp; try discriminate. apply entries_eqb_eq in Wm. subst l'.
        rewrite Et. apply (ms_fold pre sl suf m _ lpre _ P U T' Wk K L2 (m_emit m l) [] (m_emit m l) Rp). }
    rewrite Step. cbn [cbind].
    replace (S (length pre)) with (length (pre ++ [sl])) in W2, Eb by (rewrite app_length; cbn; lia).
    rewrite (IH (pre ++ [sl]) _ _ (tvp ++ [b]) (tlp ++ [l]) vsuf lsuf P U kb); try assumption.
    + cbn [norm_vals norm_lists]. rewrite <- !app_assoc. reflexivity.
    + rewrite <- app_assoc. exact Et.
    + rewrite !app_length. cbn. lia.
    + rewrite !app_length. cbn. lia.
    + rewrite !app_length. cbn. lia.
    + rewrite !app_length. cbn. lia.
    + rewrite <- app_assoc. exact Ev.
    + rewrite <- app_assoc. exact El.
Qed.

(* emission succeeds on a well-formed store and every emitted key pair fits the framing limits *)
Lemma emit_slots_ok (t : sec) : forall suf i,
  (forall sl, In sl suf -> key_small (sl_ekey sl) = true) ->
  slots_wf i suf t = true ->
  exists kps, emit_slots i suf t = ROk kps /\ Forall (fun k => frame_ok k = true) kps.
Proof.
  induction suf as [|sl suf IH]; intros i KS W.
  - exists []. split; [reflexivity | constructor].
  - cbn [PsetV2.slots_wf] in W. apply andb_true_iff in W as [W1 W2].
    destruct (IH (S i)) as (kb & Eb & Fb); [intros; apply KS; right; assumption | exact W2 |].
    assert (K1 : key_small (sl_ekey sl) = true) by (apply KS; left; reflexivity).
    assert (A : exists a, emit_slot i sl t = ROk a /\ Forall (fun k => frame_ok k = true) a).
    { unfold PsetV2.slot_wf in W1. unfold emit_slot. destruct (sl_k sl) as [k al|m].
      - apply andb_true_iff in W1 as [W1 _]. apply andb_true_iff in W1 as [Ws _]. unfold PsetV2.s_wf in Ws.
        destruct (s_emits k al (val_at i t)); [|exists []; split; [reflexivity|constructor]].
        apply andb_true_iff in Ws as [_ Wl]. eexists. split; [reflexivity|]. constructor; [|constructor].
        unfold frame_ok. destruct (sl_ekey sl) as [x|x]; cbn [mk_kp_id k_type k_data k_val key_small] in *.
        + apply andb_true_iff in K1 as [K1 _]. rewrite K1, Wl. rewrite maxKeyLen_val. reflexivity.
        + rewrite prop_key_len, Wl, maxKeyLen_val, PsetProprietary_val. reflexivity.
      - apply andb_true_iff in W1 as [_ Wf]. eexists. split; [reflexivity|].
        rewrite Forall_forall. intros k Hk. apply in_map_iff in Hk as (e & <- & He).
        rewrite forallb_forall in Wf. apply Wf. exact He. }
    destruct A as (a & Ea & Fa). exists (a ++ kb). cbn [emit_slots]. rewrite Ea, Eb. cbn [cbind].
    split; [reflexivity | apply Forall_app; split; assumption].
Qed.

Lemma eff_id_nonempty id : eff_id id <> [].
Proof. destruct id; discriminate. Qed.

Lemma props_fold tbl V L U : forall ps P,
  forallb (prop_wf tbl) ps = true ->
  fold_step tbl (mk_sec V L P U) (map prop_kp ps) = ROk (mk_sec V L (P ++ map norm_pd ps) U).
Proof.
  induction ps as [|p ps IH]; intros P W; [cbn; rewrite app_nil_r; reflexivity|].
  cbn [forallb] in W. apply andb_true_iff in W as [Wp W]. unfold prop_wf in Wp.
  apply andb_true_iff in Wp as [Wp Wfr]. apply andb_true_iff in Wp as [Ws Wf]. apply N.ltb_lt in Ws.
  assert (Hl : lenN (eff_id (pd_id p)) < two64).
  { apply frame_ok_parts in Wfr as (_ & Hk & _). unfold prop_kp in Hk. cbn [k_data] in Hk.
    unfold prop_key_id, var_slice in Hk. rewrite !lenN_app, maxKeyLen_val in Hk. unfold two64. lia. }
  cbn [map fold_step]. unfold PsetV2.sec_step, prop_kp. cbn [k_type k_data k_val]. rewrite N.eqb_refl.
  rewrite parse_prop_key_id by (try exact Ws; try exact Hl; apply eff_id_nonempty). cbn [pd_id pd_sub pd_kd].
  assert (Add : ROk (add_prop (mk_pd (eff_id (pd_id p)) (pd_sub p) (pd_kd p) (pd_val p)) (mk_sec V L P U))
                = ROk (mk_sec V L (P ++ [norm_pd p]) U)) by reflexivity.
  destruct (bytes_eqb (eff_id (pd_id p)) pset_magic).
  - destruct (find_slot (KProp (pd_sub p)) tbl); [discriminate|]. rewrite Add. cbn [cbind].
    rewrite IH by exact W. rewrite <- app_assoc. reflexivity.
  - rewrite Add. cbn [cbind]. rewrite IH by exact W. rewrite <- app_assoc. reflexivity.
Qed.

Lemma unks_fold tbl V L P : forall us U,
  forallb (unk_wf tbl) us = true ->
  fold_step tbl (mk_sec V L P U) us = ROk (mk_sec V L P (U ++ us)).
Proof.
  induction us as [|k us IH]; intros U W; [cbn; rewrite app_nil_r; reflexivity|].
  cbn [forallb] in W. apply andb_true_iff in W as [Wk W]. unfold unk_wf in Wk.
  apply andb_true_iff in Wk as [Wk _]. apply andb_true_iff in Wk as [Wt Wf]. apply negb_true_iff in Wt.
  cbn [fold_step]. unfold PsetV2.sec_step. rewrite Wt.
  destruct (find_slot (KStd (k_type k)) tbl); [discriminate|]. cbn [cbind].
  unfold add_unk. cbn [s_vals s_lists s_props s_unks]. rewrite IH by exact W. rewrite <- app_assoc. reflexivity.
Qed.

Lemma nat_eqb_eq a b : (a =? b)%nat = true -> a = b.
Proof. apply Nat.eqb_eq. Qed.

(* THE field-table theorem: for any table whose decode labels are distinct one-byte keys, a
   well-formed store serializes, and its serialization followed by anything parses back to the
   normal form of the store, consuming exactly what was written *)
Theorem section_roundtrip tbl sanity s :
  tbl_ok tbl = true -> wf_sec tbl sanity s = true ->
  exists bs, ser_section tbl s = ROk bs /\ bs <> [] /\
    forall rest, parse_section tbl sanity (bs ++ rest) = ROk (norm_sec tbl s, rest).
Proof.
  intros T W. unfold PsetV2.wf_sec in W. rewrite !andb_true_iff in W.
  destruct W as [[[[[Lv Ll] Ws] Wp] Wu] Wsan]. apply nat_eqb_eq in Lv. apply nat_eqb_eq in Ll.
  destruct (tbl_ok_parts tbl T) as [_ KS].
  destruct (emit_slots_ok s tbl 0) as (kps & Ek & Fk); [intros sl Hin; apply KS; exact Hin | exact Ws |].
  unfold ser_section, kps_of. rewrite Ek. cbn [cbind]. eexists. split; [reflexivity|].
  split; [destruct (enc_kps (kps ++ map prop_kp (s_props s) ++ s_unks s)); discriminate|].
  intro rest. unfold PsetV2.parse_section. rewrite <- app_assoc. cbn [app].
  rewrite parse_kps_app.
  - rewrite !fold_step_app. unfold empty_sec.
    pose proof (emit_fold tbl s T tbl [] [] [] [] [] (s_vals s) (s_lists s) [] [] kps) as F.
    cbn [app length] in F. rewrite F; try reflexivity; try assumption. cbn [cbind]. rewrite fold_step_app.
    rewrite props_fold by exact Wp. cbn [cbind app]. rewrite unks_fold by exact Wu. cbn [cbind app fst].
    unfold norm_sec in Wsan. rewrite Wsan. destruct s; reflexivity.
  - apply Forall_app. split; [exact Fk|]. apply Forall_app. split.
    + rewrite Forall_forall. intros k Hk. apply in_map_iff in Hk as (p & <- & Hp).
      rewrite forallb_forall in Wp. apply Wp in Hp. unfold prop_wf in Hp. apply andb_true_iff in Hp as [_ Hp]. exact Hp.
    + rewrite Forall_forall. intros k Hk. rewrite forallb_forall in Wu. apply Wu in Hk.
      unfold unk_wf in Hk. apply andb_true_iff in Hk as [_ Hk]. exact Hk.
  - pose proof (enc_kps_length (kps ++ map prop_kp (s_props s) ++ s_unks s)) as E.
    rewrite (app_length (enc_kps (kps ++ map prop_kp (s_props s) ++ s_unks s))). lia.
Qed.


(* ================= D. packets ================= *)
Lemma global_tbl_ok : tbl_ok global_tbl = true. Proof. vm_compute. reflexivity. Qed.
Lemma input_tbl_ok : tbl_ok input_tbl = true. Proof. vm_compute. reflexivity. Qed.
Lemma output_tbl_ok : tbl_ok output_tbl = true. Proof. vm_compute. reflexivity. Qed.

Lemma secs_roundtrip tbl sanity : tbl_ok tbl = true ->
  forall l, forallb (wf_sec tbl sanity) l = true ->
  exists bs, ser_secs tbl l = ROk bs /\ (length l <= length bs)%nat /\
    forall fuel rest, (length l <= fuel)%nat ->
      parse_secs tbl sanity fuel (lenL l) (bs ++ rest) = ROk (map (norm_sec tbl) l, rest).
Proof.
  intro T. induction l as [|s l IH]; intro W.
  - exists []. split; [reflexivity|]. split; [cbn; lia|]. intros fuel rest _. destruct fuel; reflexivity.
  - cbn [forallb] in W. apply andb_true_iff in W as [W1 W2].
    destruct (section_roundtrip tbl sanity s T W1) as (b1 & S1 & N1 & P1).
    destruct (IH W2) as (b2 & S2 & L2 & P2).
    exists (b1 ++ b2). cbn [ser_secs]. rewrite S1, S2. cbn [cbind]. split; [reflexivity|].
    split; [rewrite app_length; cbn [length]; destruct b1; [congruence | cbn [length]; lia]|].
    intros fuel rest Lf. destruct fuel as [|f]; [cbn [length] in Lf; lia|].
    cbn [PsetV2.parse_secs].
    destruct (N.eqb_spec (lenL (s :: l)) 0) as [Z|_]; [unfold lenL in Z; cbn [length] in Z; lia|].
    rewrite <- app_assoc. rewrite P1. cbn [cbind fst snd].
    replace (N.pred (lenL (s :: l))) with (lenL l) by (unfold lenL; cbn [length]; lia).
    rewrite P2 by (cbn [length] in Lf; lia). reflexivity.
Qed.

Lemma num_norm_incount g : num_val gInputCount (norm_sec global_tbl g) = num_val gInputCount g.
Proof.
  unfold num_val, val_at, norm_sec. cbn [s_vals].
  destruct (s_vals g) as [|v0 [|v1 [|v2 [|v3 r]]]]; reflexivity.
Qed.
Lemma num_norm_outcount g : num_val gOutputCount (norm_sec global_tbl g) = num_val gOutputCount g.
Proof.
  unfold num_val, val_at, norm_sec. cbn [s_vals].
  destruct (s_vals g) as [|v0 [|v1 [|v2 [|v3 [|v4 r]]]]]; reflexivity.
Qed.

(* every well-formed packet serializes, and the bytes (followed by anything) parse back to its normal form *)
Theorem pset_parse_ser p : wf_pset p = true ->
  exists bs, ser_pset p = ROk bs /\ forall rest, parse_pset (bs ++ rest) = ROk (norm_pset p).
Proof.
  intro W. unfold PsetV2.wf_pset in W. rewrite !andb_true_iff in W.
  destruct W as [[[[[Wg Wi] Wo] Ci] Co] San]. apply N.eqb_eq in Ci. apply N.eqb_eq in Co.
  destruct (section_roundtrip global_tbl global_sanity (p_global p) global_tbl_ok Wg) as (bg & Sg & _ & Pg).
  destruct (secs_roundtrip input_tbl input_sanity input_tbl_ok (p_ins p) Wi) as (bi & Si & Li & Pi).
  destruct (secs_roundtrip output_tbl output_sanity output_tbl_ok (p_outs p) Wo) as (bo & So & Lo & Po).
  exists (magic_sep ++ bg ++ bi ++ bo). unfold ser_pset. rewrite Sg, Si, So. cbn [cbind]. split; [reflexivity|].
  intro rest. unfold PsetV2.parse_pset. rewrite <- !app_assoc.
  rewrite (take_app_n 5 magic_sep) by reflexivity. rewrite bytes_eqb_refl.
  rewrite Pg. cbn [cbind fst snd]. rewrite num_norm_incount, num_norm_outcount, Ci, Co.
  rewrite Pi by (rewrite app_length; lia). cbn [cbind fst snd].
  rewrite Po by (rewrite app_length; lia). cbn [cbind fst snd].
  unfold norm_pset in San. rewrite San. reflexivity.
Qed.

End Codec.

