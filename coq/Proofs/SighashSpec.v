(* Proofs/SighashSpec.v — the coded pre-images equal the specification layouts on the
   domain where the specification fixes them (C03). *)
From GE Require Import Lib.Bytes Lib.Varint Lib.Sha256 Model.Tx Model.Sighash Spec.ElementsSighash Proofs.TxCodec.
From Coq Require Import ZifyBool ZifyN ZifyNat.
Open Scope N_scope.

Lemma land_pow2 a n : N.land a (2 ^ n) = if N.testbit a n then 2 ^ n else 0.
Proof.
  apply N.bits_inj. intro k. rewrite N.land_spec, N.pow2_bits_eqb.
  destruct (N.eqb_spec n k) as [<-|Hk].
  - destruct (N.testbit a n) eqn:E; [rewrite N.pow2_bits_true; reflexivity | rewrite N.bits_0; reflexivity].
  - rewrite andb_false_r. destruct (N.testbit a n); [rewrite N.pow2_bits_false by exact Hk; reflexivity | rewrite N.bits_0; reflexivity].
Qed.

Lemma base_eq ht : ht_base ht = base_type ht.
Proof. unfold ht_base, base_type. change 0x1f with (N.ones 5). apply N.land_ones. Qed.

Lemma acp_eq ht : ht_acp ht = anyonecanpay ht.
Proof.
  unfold ht_acp, anyonecanpay. change 0x80 with (2 ^ 7). rewrite land_pow2.
  pose proof (N.testbit_spec' ht 7) as B. change (2 ^ 7) with 128 in *.
  destruct (N.testbit ht 7); cbn [N.b2n] in B.
  - cbn. destruct (N.leb_spec 128 (ht mod 256)); [reflexivity | lia].
  - cbn. destruct (N.leb_spec 128 (ht mod 256)); [lia | reflexivity].
Qed.

Lemma v1_acp_eq ht : v1_acp ht = anyonecanpay ht.
Proof.
  unfold v1_acp, anyonecanpay. change 0x80 with (2 ^ 7). rewrite land_pow2.
  pose proof (N.testbit_spec' ht 7) as B. change (2 ^ 7) with 128 in *.
  destruct (N.testbit ht 7); cbn [N.b2n] in B.
  - cbn. destruct (N.leb_spec 128 (ht mod 256)); [reflexivity | lia].
  - cbn. destruct (N.leb_spec 128 (ht mod 256)); [lia | reflexivity].
Qed.

Lemma land3 ht : N.land ht 0x03 = ht mod 4.
Proof. change 0x03 with (N.ones 2). apply N.land_ones. Qed.

Lemma ser_out_S o : ser_out false false o = S_txout o.
Proof. unfold ser_out, S_txout. cbn [app]. rewrite app_nil_r. reflexivity. Qed.
Lemma ser_outputs_S l : ser_outputs l = S_all S_txout l.
Proof. unfold ser_outputs, enc_list, S_all. f_equal. apply map_ext. exact ser_out_S. Qed.
Lemma ser_outputs_one o : ser_outputs [o] = S_txout o.
Proof. rewrite ser_outputs_S. unfold S_all. cbn [map concat]. apply app_nil_r. Qed.
Lemma ser_out_witnesses_one o : ser_out_witnesses [o] = S_out_witness o.
Proof. unfold ser_out_witnesses, enc_list, S_out_witness. cbn [map concat]. apply app_nil_r. Qed.
Lemma ser_issuance_proofs_one i : ser_issuance_proofs [i] = S_issuance_proofs i.
Proof. unfold ser_issuance_proofs, enc_list, S_issuance_proofs. cbn [map concat]. apply app_nil_r. Qed.

Ltac norm_app := cbn [concat app]; rewrite <- ?app_assoc, ?app_nil_r; cbn [app]; rewrite <- ?app_assoc.

(* ---------------- segwit v0 ---------------- *)
Theorem v0_refines_spec t idx script value ht :
  ht_rp ht = false ->
  preimage_v0 dsha256 t idx script value ht = spec_v0_preimage t idx script value ht.
Proof.
  intro RP. unfold preimage_v0, spec_v0_preimage, covered_outs, ht_single, ht_none.
  rewrite RP, acp_eq, base_eq.
  destruct (nth_error (t_ins t) idx) as [own|]; [|reflexivity].
  f_equal. unfold layout, own_input_v0, S_outpoint, S_issuance, ser_iss, u32.
  destruct (anyonecanpay ht), (base_type ht =? 3), (base_type ht =? 2); cbn [orb negb andb];
    try (destruct (nth_error (t_outs t) idx)); destruct (in_iss own);
    rewrite ?ser_outputs_one, ?ser_outputs_S; norm_app; reflexivity.
Qed.

(* ---------------- taproot ---------------- *)
Definition spents_of (a : v1_args) : list spent :=
  zip_with (fun s av => mk_spent s (fst av) (snd av)) (v1_scripts a) (combine (v1_assets a) (v1_values a)).

(* the three per-input lists have the length of the input list (what every caller supplies) *)
Definition v1_args_ok (t : tx) (a : v1_args) : Prop :=
  length (v1_scripts a) = length (t_ins t) /\ length (v1_assets a) = length (t_ins t) /\
  length (v1_values a) = length (t_ins t).

Lemma ser_asset_amounts_spents : forall ss aa vv, length ss = length aa -> length aa = length vv ->
  ser_asset_amounts aa vv = Some (S_all (fun s => sp_asset s ++ sp_value s)
     (zip_with (fun s av => mk_spent s (fst av) (snd av)) ss (combine aa vv))) /\
  ser_scripts ss = S_all (fun s => var_slice (sp_script s))
     (zip_with (fun s av => mk_spent s (fst av) (snd av)) ss (combine aa vv)).
Proof.
  induction ss as [|s ss IH]; intros [|a aa] [|v vv] L1 L2; try discriminate; [split; reflexivity|].
  cbn [length] in *. injection L1 as L1. injection L2 as L2. destruct (IH aa vv L1 L2) as [A B].
  cbn [ser_asset_amounts combine zip_with]. rewrite A. unfold S_all in *. cbn [map concat fst snd sp_asset sp_value sp_script].
  unfold ser_scripts, enc_list in *. cbn [map concat]. rewrite B. rewrite <- !app_assoc. split; reflexivity.
Qed.

Lemma nth_spents : forall ss aa vv idx, length ss = length aa -> length aa = length vv ->
  match nth_error aa idx, nth_error vv idx, nth_error ss idx with
  | Some a, Some v, Some s => nth_error (zip_with (fun s av => mk_spent s (fst av) (snd av)) ss (combine aa vv)) idx = Some (mk_spent s a v)
  | None, None, None => nth_error (zip_with (fun s av => mk_spent s (fst av) (snd av)) ss (combine aa vv)) idx = None
  | _, _, _ => False
  end.
Proof.
  induction ss as [|s ss IH]; intros [|a aa] [|v vv] idx L1 L2; try discriminate.
  - destruct idx; reflexivity.
  - cbn [length] in *. injection L1 as L1. injection L2 as L2. destruct idx as [|idx]; [reflexivity|].
    cbn [nth_error combine zip_with]. apply IH; assumption.
Qed.

Theorem v1_refines_spec t idx a ht :
  v1_args_ok t a ->
  preimage_v1 sha256 t idx a ht =
  spec_v1_preimage t idx (spents_of a) (v1_genesis a) (v1_leaf a) (v1_annex a) ht.
Proof.
  intros (L1 & L2 & L3).
  assert (LA : length (v1_scripts a) = length (v1_assets a)) by congruence.
  assert (LB : length (v1_assets a) = length (v1_values a)) by congruence.
  unfold preimage_v1, spec_v1_preimage, spents_of.
  destruct (nth_error (t_ins t) idx) as [own|] eqn:EN; [|reflexivity].
  pose proof (nth_spents (v1_scripts a) (v1_assets a) (v1_values a) idx LA LB) as NS.
  destruct (ser_asset_amounts_spents (v1_scripts a) (v1_assets a) (v1_values a) LA LB) as [SA SS].
  assert (IDX : (idx < length (t_ins t))%nat) by (apply nth_error_Some; congruence).
  destruct (nth_error (v1_assets a) idx) as [ea|] eqn:E1; [|apply nth_error_None in E1; lia].
  destruct (nth_error (v1_values a) idx) as [ev|] eqn:E2; [|apply nth_error_None in E2; lia].
  destruct (nth_error (v1_scripts a) idx) as [es|] eqn:E3; [|apply nth_error_None in E3; lia].
  rewrite NS.
  unfold v1_ins_part, v1_own_part. rewrite E1, E2, E3, SA, SS, v1_acp_eq.
  unfold v1_outs_all, v1_outs_single, v1_out_type, v1_spend_type. rewrite land3.
  f_equal. unfold layout, S_outpoint, S_issuance, ser_iss, u32, u8.
  cbn [sp_asset sp_value sp_script].
  destruct (anyonecanpay ht); destruct ((if ht =? 0 then 1 else ht mod 4) =? 2), ((if ht =? 0 then 1 else ht mod 4) =? 3);
    cbn [orb negb andb]; destruct (v1_leaf a), (v1_annex a);
    try (destruct (nth_error (t_outs t) idx)); try (destruct (in_iss own));
    rewrite ?ser_outputs_one, ?ser_out_witnesses_one, ?ser_issuance_proofs_one, ?ser_outputs_S; norm_app; reflexivity.
Qed.

(* ---------------- legacy ---------------- *)
Definition legacy_domain (t : tx) (idx : nat) (ht : N) : Prop :=
  ht_acp ht = false /\ ht_rp ht = false /\ (ht_single ht = true -> ht_none ht = false -> idx = 0%nat) /\
  Forall (fun i => in_index i <= OutpointIndexMask) (t_ins t).

Lemma raw_index_add i : in_index i <= OutpointIndexMask ->
  raw_index i = in_index i + (match in_iss i with Some _ => 0x80000000 | None => 0 end) + (if in_pegin i then 0x40000000 else 0).
Proof.
  intro H. unfold raw_index, OutpointIssuanceFlag, OutpointPeginFlag.
  assert (B : in_index i < 2 ^ 30) by (unfold OutpointIndexMask in H; lia).
  assert (D1 : N.land (in_index i) 0x80000000 = 0).
  { apply N.bits_inj. intro n. rewrite N.land_spec, N.bits_0. change 0x80000000 with (2 ^ 31). rewrite N.pow2_bits_eqb.
    destruct (N.eqb_spec 31 n) as [<-|]; [rewrite (testbit_small_le _ 30 31 B) by lia; reflexivity | apply andb_false_r]. }
  assert (D2 : forall x, x < 2 ^ 32 -> N.testbit x 30 = false -> N.land x 0x40000000 = 0).
  { intros x _ T. change 0x40000000 with (2 ^ 30). rewrite land_pow2, T. reflexivity. }
  assert (L1 : N.lor (in_index i) 0x80000000 = in_index i + 0x80000000).
  { rewrite <- N.lxor_lor by exact D1. symmetry. apply N.add_nocarry_lxor. exact D1. }
  destruct (in_iss i), (in_pegin i).
  - rewrite L1. assert (T : N.testbit (in_index i + 0x80000000) 30 = false).
    { rewrite <- L1, N.lor_spec. rewrite (testbit_small_le _ 30 30 B) by lia. reflexivity. }
    assert (D3 : N.land (in_index i + 0x80000000) 0x40000000 = 0) by (apply D2; [lia | exact T]).
    rewrite <- N.lxor_lor by exact D3. symmetry. apply N.add_nocarry_lxor. exact D3.
  - rewrite L1. lia.
  - assert (D3 : N.land (in_index i) 0x40000000 = 0) by (apply D2; [lia | apply (testbit_small_le _ 30 30 B); lia]).
    rewrite <- N.lxor_lor by exact D3. rewrite N.add_0_r. symmetry. apply N.add_nocarry_lxor. exact D3.
  - lia.
Qed.

Lemma ser_in_spec (script : bytes) (i : txin) (own : bool) (sq : N) :
  in_index i <= OutpointIndexMask ->
  ser_in (set_script (if own then script else []) (if own then i else set_seq sq i)) =
  S_outpoint_flags i ++ (if own then var_slice script else u8 0) ++ u32 (if own then in_seq i else sq) ++
  match in_iss i with Some s => S_issuance s | None => [] end.
Proof.
  intro Fi. unfold ser_in, S_outpoint_flags, u32, u8, S_issuance, ser_iss.
  destruct own; cbn [set_script set_seq in_hash in_index in_seq in_script in_iss in_pegin];
    rewrite <- (raw_index_add i Fi); unfold raw_index; cbn [in_index in_iss in_pegin set_script set_seq];
    rewrite <- ?app_assoc; reflexivity.
Qed.

Lemma legacy_inputs_spec_zs (script : bytes) : forall (l : list txin) (k idx : nat),
  Forall (fun i => in_index i <= OutpointIndexMask) l ->
  enc_list ser_in (map_idx (fun j i => set_script (if (j =? idx)%nat then script else []) i) k
                    (map_idx (fun j i => if (j =? idx)%nat then i else set_seq 0 i) k l)) =
  legacy_inputs k idx script true l.
Proof.
  induction l as [|i l IH]; intros k idx F; [reflexivity|].
  inversion F as [|? ? Fi Fl]; subst.
  cbn [map_idx legacy_inputs]. unfold enc_list in *. cbn [map concat]. rewrite (IH (S k) idx Fl).
  rewrite (ser_in_spec script i (k =? idx)%nat 0 Fi). rewrite <- !app_assoc.
  destruct (k =? idx)%nat; reflexivity.
Qed.

Lemma legacy_inputs_spec_nz (script : bytes) : forall (l : list txin) (k idx : nat),
  Forall (fun i => in_index i <= OutpointIndexMask) l ->
  enc_list ser_in (map_idx (fun j i => set_script (if (j =? idx)%nat then script else []) i) k l) =
  legacy_inputs k idx script false l.
Proof.
  induction l as [|i l IH]; intros k idx F; [reflexivity|].
  inversion F as [|? ? Fi Fl]; subst.
  cbn [map_idx legacy_inputs]. unfold enc_list in *. cbn [map concat]. rewrite (IH (S k) idx Fl).
  pose proof (ser_in_spec script i (k =? idx)%nat (in_seq i) Fi) as E.
  assert (X : (if (k =? idx)%nat then i else set_seq (in_seq i) i) = i) by (destruct (k =? idx)%nat; [reflexivity | destruct i; reflexivity]).
  rewrite X in E. rewrite E. rewrite <- !app_assoc.
  destruct (k =? idx)%nat; reflexivity.
Qed.

Lemma map_idx_length {A} (f : nat -> A -> A) k l : length (map_idx f k l) = length l.
Proof. revert k; induction l as [|a l IH]; intro k; cbn; [reflexivity | rewrite IH; reflexivity]. Qed.

Lemma b8_mod v : b8 (v mod 256) = b8 v.
Proof. unfold b8. rewrite N.mod_mod by lia. reflexivity. Qed.

Lemma le4_low v : le_enc 4 (v mod 256) = [b8 v; x00; x00; x00].
Proof.
  cbn [le_enc]. rewrite b8_mod.
  assert (Z0 : v mod 256 / 256 = 0) by (apply N.div_small; apply N.mod_lt; lia).
  rewrite Z0. reflexivity.
Qed.

Theorem legacy_refines_spec t idx script ht :
  legacy_domain t idx ht ->
  preimage_legacy t idx script ht = spec_legacy_preimage t idx script ht.
Proof.
  intros (ACP & RP & SNG & F).
  unfold preimage_legacy, legacy_tx, spec_legacy_preimage. rewrite ACP, RP. unfold ht_none, ht_single in *. rewrite base_eq in *.
  destruct (Nat.leb_spec (length (t_ins t)) idx) as [LE|GT].
  { apply nth_error_None in LE. rewrite LE. reflexivity. }
  destruct (nth_error (t_ins t) idx) as [own|] eqn:EN; [|apply nth_error_None in EN; lia].
  destruct (base_type ht =? 2) eqn:B2.
  - (* NONE *)
    assert (X : (base_type ht =? 3) = false) by (apply N.eqb_eq in B2; rewrite B2; reflexivity).
    rewrite X. cbn [andb orb]. f_equal. unfold ser_tx, layout, S_all. cbn [andb negb t_version t_ins t_outs t_locktime concat].
    unfold zero_other_seqs. rewrite (legacy_inputs_spec_zs script (t_ins t) 0 idx F).
    unfold lenL; rewrite !map_idx_length; fold (lenL (t_ins t)). cbn [app]. rewrite <- !app_assoc, !app_nil_r. unfold u32.
    rewrite le4_low. reflexivity.
  - destruct (base_type ht =? 3) eqn:B3.
    + (* SINGLE on input 0 *)
      specialize (SNG eq_refl eq_refl). subst idx. cbn [andb orb].
      destruct (Nat.leb_spec (length (t_outs t)) 0) as [L0|G0]; [reflexivity|].
      f_equal. unfold ser_tx, layout, S_all. cbn [andb negb t_version t_ins t_outs t_locktime concat firstn skipn map app].
      unfold zero_other_seqs. rewrite (legacy_inputs_spec_zs script (t_ins t) 0 0 F).
      unfold lenL; rewrite !map_idx_length; fold (lenL (t_ins t)). rewrite <- !app_assoc, !app_nil_r. unfold u32, enc_list.
      destruct (t_outs t) as [|o outs]; [cbn in G0; lia|]. cbn [firstn map concat].
      rewrite le4_low. unfold ser_out, S_txout. cbn [app]. rewrite <- ?app_assoc, ?app_nil_r. reflexivity.
    + cbn [andb orb]. f_equal. unfold ser_tx, layout, S_all. cbn [andb negb t_version t_ins t_outs t_locktime concat].
      rewrite (legacy_inputs_spec_nz script (t_ins t) 0 idx F).
      unfold lenL; rewrite !map_idx_length; fold (lenL (t_ins t)). cbn [app]. rewrite <- !app_assoc, !app_nil_r. unfold u32, enc_list.
      rewrite le4_low.
      assert (EO : map (ser_out false false) (t_outs t) = map S_txout (t_outs t)).
      { apply map_ext. intro o. unfold ser_out, S_txout. cbn [app]. rewrite app_nil_r. reflexivity. }
      rewrite EO. reflexivity.
Qed.

(* ANYONECANPAY: the signing input alone, own sequence kept (also under NONE / SINGLE) *)
Definition legacy_acp_domain (t : tx) (idx : nat) (ht : N) : Prop :=
  ht_acp ht = true /\ ht_rp ht = false /\ (ht_single ht = true -> ht_none ht = false -> idx = 0%nat) /\
  Forall (fun i => in_index i <= OutpointIndexMask) (t_ins t).

Lemma nth_map_idx_own (idx : nat) : forall (ins : list txin) (k n : nat), idx = (k + n)%nat ->
  nth_error (map_idx (fun k i => if (k =? idx)%nat then i else set_seq 0 i) k ins) n = 
  match nth_error ins n with Some x => Some x | None => None end.
Proof.
  induction ins as [|a r IH]; intros k n E.
  - destruct n; reflexivity.
  - destruct n as [|n]; cbn [map_idx nth_error].
    + replace (k =? idx)%nat with true by (symmetry; apply Nat.eqb_eq; lia). reflexivity.
    + apply IH. lia.
Qed.

Lemma own_ser_spec script own : in_index own <= OutpointIndexMask ->
  ser_in (set_script script own) =
  S_outpoint_flags own ++ var_slice script ++ u32 (in_seq own) ++ match in_iss own with Some s => S_issuance s | None => [] end.
Proof. intro F. exact (ser_in_spec script own true 0 F). Qed.

Theorem legacy_acp_refines_spec t idx script ht :
  legacy_acp_domain t idx ht ->
  preimage_legacy t idx script ht = spec_legacy_acp_preimage t idx script ht.
Proof.
  intros (ACP & RP & SNG & F).
  unfold preimage_legacy, legacy_tx, spec_legacy_acp_preimage. rewrite ACP, RP. unfold ht_none, ht_single in *. rewrite base_eq in *.
  destruct (nth_error (t_ins t) idx) as [own|] eqn:EN; [|reflexivity].
  assert (Fo : in_index own <= OutpointIndexMask).
  { rewrite Forall_forall in F. apply F. eapply nth_error_In; exact EN. }
  assert (NZ : nth_error (zero_other_seqs idx (t_ins t)) idx = Some own).
  { unfold zero_other_seqs. rewrite (nth_map_idx_own idx (t_ins t) 0 idx eq_refl), EN. reflexivity. }
  destruct (base_type ht =? 2) eqn:B2.
  - assert (X : (base_type ht =? 3) = false) by (apply N.eqb_eq in B2; rewrite B2; reflexivity).
    rewrite X, NZ. cbn [andb orb]. f_equal. unfold ser_tx, layout, S_all, enc_list. cbn [andb negb t_version t_ins t_outs t_locktime concat map lenL length].
    rewrite (own_ser_spec script own Fo). cbn [app]. rewrite <- !app_assoc, ?app_nil_r. unfold u32.
    rewrite le4_low. reflexivity.
  - destruct (base_type ht =? 3) eqn:B3.
    + specialize (SNG eq_refl eq_refl). subst idx. cbn [andb orb].
      destruct (Nat.leb_spec (length (t_outs t)) 0) as [L0|G0]; [reflexivity|].
      rewrite NZ. f_equal. unfold ser_tx, layout, S_all, enc_list. cbn [andb negb t_version t_ins t_outs t_locktime concat firstn skipn map app lenL length].
      rewrite (own_ser_spec script own Fo). rewrite <- !app_assoc, ?app_nil_r. unfold u32.
      destruct (t_outs t) as [|o outs]; [cbn in G0; lia|]. cbn [firstn map concat length].
      rewrite le4_low. unfold ser_out, S_txout. cbn [app]. rewrite <- ?app_assoc, ?app_nil_r. reflexivity.
    + cbn [andb orb]. rewrite EN. f_equal. unfold ser_tx, layout, S_all, enc_list. cbn [andb negb t_version t_ins t_outs t_locktime concat map lenL length].
      rewrite (own_ser_spec script own Fo). cbn [app]. rewrite <- !app_assoc, ?app_nil_r. unfold u32.
      rewrite le4_low.
      assert (EO : map (ser_out false false) (t_outs t) = map S_txout (t_outs t)).
      { apply map_ext. intro o. unfold ser_out, S_txout. cbn [app]. rewrite app_nil_r. reflexivity. }
      rewrite EO. reflexivity.
Qed.

