(* Proofs/PsetV0Dec.v — decoder-level facts for the PSET v0 parser model (C12):
   (a) acceptance is stable under extension of the input (the section loop's fuel, which is
       the input length + 1, is shown monotone: more fuel and more input never change a success);
   (b) hence no strict prefix of a valid encoding is accepted, although the whole-input decoder
       (NewPsetFromHex / NewPsetFromBase64 -> deserialize(bytes.NewReader)) never looks at the
       bytes that follow the last output section;
   (c) every length field (key length, value length) is compared with its cap (MaxPsbtKeyLength,
       MaxPsbtValueLength) and with the bytes that remain before anything is taken, and what is
       accepted was consumed from the front of the input. *)
From GE Require Import Lib.Bytes Lib.Varint Model.Tx Model.Block Proofs.TxCodec Proofs.BlockCodec Proofs.Decoders
  Model.PsetV0 Proofs.PsetV0.
From Coq Require Import ZifyBool ZifyN ZifyNat.
Open Scope N_scope.

Lemma stable_pfail {A} : stable (@pfail A).
Proof. intros bs a r s H. discriminate. Qed.

(* ---------- (a) extension stability ---------- *)
Lemma stable_v0_p_key : stable v0_p_key.
Proof.
  unfold v0_p_key. apply stable_bind; [apply stable_p_varint | intro n].
  destruct (n =? 0); [apply stable_ret|]. destruct (v0_MaxKeyLen <? n); [apply stable_pfail|].
  apply stable_bind; [apply stable_takeN | intro; apply stable_ret].
Qed.

Lemma stable_v0_p_val : stable v0_p_val.
Proof.
  unfold v0_p_val. apply stable_bind; [apply stable_p_varint | intro n].
  destruct (v0_MaxValLen <? n); [apply stable_pfail | apply stable_takeN].
Qed.

(* the section loop: a success with some fuel is a success with any larger fuel on any extension *)
Lemma stable_v0_p_section {St} (step : St -> bytes -> bytes -> option St) :
  forall fuel fuel' st bs st' r s, (fuel <= fuel')%nat ->
  v0_p_section step fuel st bs = Some (st', r) ->
  v0_p_section step fuel' st (bs ++ s) = Some (st', r ++ s).
Proof.
  induction fuel as [|f IH]; intros fuel' st bs st' r s Hf H; cbn [v0_p_section] in H; [discriminate|].
  destruct fuel' as [|f']; [lia|]. cbn [v0_p_section].
  destruct (v0_p_key bs) as [[[k|] r1]|] eqn:K; [| |discriminate].
  - rewrite (stable_v0_p_key _ _ _ s K).
    destruct (v0_p_val r1) as [[v r2]|] eqn:V; [|discriminate]. rewrite (stable_v0_p_val _ _ _ s V).
    destruct (step st k v) as [st1|]; [|discriminate]. apply (IH f' st1 r2 st' r s); [lia | exact H].
  - rewrite (stable_v0_p_key _ _ _ s K). inversion H; subst. reflexivity.
Qed.

Lemma stable_v0_section {St} (step : St -> bytes -> bytes -> option St) st : stable (v0_section step st).
Proof.
  intros bs a r s H. unfold v0_section in *.
  apply (stable_v0_p_section step (S (length bs))); [rewrite app_length; lia | exact H].
Qed.

Lemma stable_v0_sections {St X} (p : parser St) (xs : list X) : stable p -> stable (v0_sections p xs).
Proof.
  intro Hp. induction xs as [|x xs IH]; cbn [v0_sections]; [apply stable_ret|].
  apply stable_bind; [exact Hp | intro a]. apply stable_bind; [exact IH | intro b; apply stable_ret].
Qed.

Section Dec.
Variable valid_pk valid_sig : bytes -> bool.
Notation parse_rest := (v0_parse_rest valid_pk valid_sig).
Notation parse := (v0_parse valid_pk valid_sig).

Theorem stable_v0_parse_rest : stable parse_rest.
Proof.
  unfold v0_parse_rest. apply stable_bind; [apply stable_take | intro m].
  destruct (negb (bytes_eqb m v0_magic)); [apply stable_pfail|].
  apply stable_bind; [apply stable_v0_p_key | intro k0].
  destruct k0 as [[|tb [|? ?]]|]; try apply stable_pfail.
  destruct (negb (n8 tb =? v0_T_UnsignedTx)); [apply stable_pfail|].
  apply stable_bind; [apply stable_v0_p_val | intro v].
  destruct (v0_parse_tx_value v) as [t|]; [|apply stable_pfail].
  destruct (negb (v0_unsigned_ok t)); [apply stable_pfail|].
  apply stable_bind; [apply stable_v0_section | intro unk].
  apply stable_bind; [apply stable_v0_sections, stable_v0_section | intro ins].
  apply stable_bind; [apply stable_v0_sections, stable_v0_section | intro outs].
  destruct (forallb v0_sane ins); [apply stable_ret | apply stable_pfail].
Qed.

(* the statement asked for: the packet and the unread bytes, on any extension of the input *)
Theorem psetv0_decoder_stable bs p rest ext :
  parse_rest bs = Some (p, rest) -> parse_rest (bs ++ ext) = Some (p, rest ++ ext).
Proof. apply stable_v0_parse_rest. Qed.

(* the whole-input decoder ignores what follows the packet: appending bytes never changes its answer *)
Theorem psetv0_whole_input_ignores_tail bs p ext : parse bs = Some p -> parse (bs ++ ext) = Some p.
Proof.
  unfold v0_parse. destruct (parse_rest bs) as [[q r]|] eqn:E; [|discriminate]. intro HH; inversion HH; subst.
  rewrite (stable_v0_parse_rest _ _ _ ext E). reflexivity.
Qed.

(* ---------- (b) strict prefixes ---------- *)
(* an input the stream decoder consumes entirely has no accepted strict prefix at all: neither the
   stream decoder (with any remainder) nor the whole-input decoder accepts one *)
Theorem psetv0_no_strict_prefix_of_complete bs p pre suf :
  parse_rest bs = Some (p, []) -> bs = pre ++ suf -> suf <> [] -> parse_rest pre = None /\ parse pre = None.
Proof.
  intros H -> Hs. assert (N : parse_rest pre = None).
  { destruct (parse_rest pre) as [[q r]|] eqn:P; [|reflexivity]. exfalso.
    pose proof (stable_v0_parse_rest _ _ _ suf P) as E. rewrite H in E. inversion E as [[A B]].
    symmetry in B. apply app_eq_nil in B as [_ B]. exact (Hs B). }
  split; [exact N|]. unfold v0_parse. rewrite N. reflexivity.
Qed.

(* no strict prefix of what ToHex / ToBase64 write for a packet in the wire domain is accepted,
   by the whole-input decoder exactly as the Go code treats trailing bytes (it ignores them) *)
Theorem psetv0_strict_prefix_rejected p bs pre suf :
  v0_wf valid_pk valid_sig p = true -> v0_ser p = Some bs -> bs = pre ++ suf -> suf <> [] -> parse pre = None.
Proof.
  intros W S E Hs. destruct (v0_parse_rest_ser valid_pk valid_sig p [] W) as [bs' [S' R]].
  rewrite S in S'. inversion S'; subst bs'. rewrite app_nil_r in R.
  exact (proj2 (psetv0_no_strict_prefix_of_complete bs (v0_norm p) pre suf R E Hs)).
Qed.

(* the serialization itself is consumed exactly: nothing is left unread *)
Theorem psetv0_valid_encoding_consumed p bs :
  v0_wf valid_pk valid_sig p = true -> v0_ser p = Some bs -> parse_rest bs = Some (v0_norm p, []).
Proof.
  intros W S. destruct (v0_parse_rest_ser valid_pk valid_sig p [] W) as [bs' [S' R]].
  rewrite S in S'. inversion S'; subst bs'. rewrite app_nil_r in R. exact R.
Qed.

End Dec.

(* ---------- (c) bounded slices ---------- *)
(* a key is handed out only after its declared length was compared with MaxPsbtKeyLength and with
   the bytes that remain; the key is strictly shorter than the input it was cut from *)
Theorem psetv0_key_bounded bs k r : v0_p_key bs = Some (Some k, r) ->
  1 <= lenN k /\ lenN k <= v0_MaxKeyLen /\ lenN k < lenN bs /\
  exists n r0, p_varint bs = Some (n, r0) /\ n = lenN k /\ n <= lenN r0.
Proof.
  intro H. pose proof (v0_p_key_inv _ _ _ H) as [E [K1 K2]]. subst bs.
  repeat split; try assumption.
  - unfold var_slice. rewrite !lenN_app. pose proof (varint_length (lenN k)) as VL.
    assert (1 <= varint_size (lenN k)).
    { unfold varint_size. destruct (lenN k <? 0xfd); [lia|]. destruct (lenN k <=? 0xffff); [lia|].
      destruct (lenN k <=? 0xffffffff); lia. }
    lia.
  - exists (lenN k), (k ++ r). unfold var_slice. rewrite <- app_assoc.
    rewrite p_varint_app by (unfold v0_MaxKeyLen, two64 in *; lia).
    repeat split. rewrite lenN_app. lia.
Qed.

Theorem psetv0_value_bounded bs v r : v0_p_val bs = Some (v, r) ->
  lenN v <= v0_MaxValLen /\ lenN v < lenN bs /\
  exists n r0, p_varint bs = Some (n, r0) /\ n = lenN v /\ n <= lenN r0.
Proof.
  intro H. pose proof (v0_p_val_inv _ _ _ H) as [E V1]. subst bs.
  repeat split; try assumption.
  - unfold var_slice. rewrite !lenN_app. pose proof (varint_length (lenN v)) as VL.
    assert (1 <= varint_size (lenN v)).
    { unfold varint_size. destruct (lenN v <? 0xfd); [lia|]. destruct (lenN v <=? 0xffff); [lia|].
      destruct (lenN v <=? 0xffffffff); lia. }
    lia.
  - exists (lenN v), (v ++ r). unfold var_slice. rewrite <- app_assoc.
    rewrite p_varint_app by (unfold v0_MaxValLen, two64 in *; lia).
    repeat split. rewrite lenN_app. lia.
Qed.

(* conversely a declared length above the cap, or above what remains, is refused whatever follows:
   no bytes are taken (and none allocated in the model) for it *)
Theorem psetv0_key_length_checked n r : n < two64 ->
  v0_MaxKeyLen < n \/ lenN r < n -> v0_p_key (varint n ++ r) = None.
Proof.
  intros Hn H. unfold v0_p_key, bind. rewrite p_varint_app by exact Hn.
  destruct (N.eqb_spec n 0) as [->|]; [unfold v0_MaxKeyLen in H; lia|].
  destruct (N.ltb_spec v0_MaxKeyLen n); [reflexivity|].
  destruct H as [H|H]; [lia|]. unfold takeN. destruct (N.leb_spec n (N.of_nat (length r))); [unfold lenN in H; lia | reflexivity].
Qed.

Theorem psetv0_value_length_checked n r : n < two64 ->
  v0_MaxValLen < n \/ lenN r < n -> v0_p_val (varint n ++ r) = None.
Proof.
  intros Hn H. unfold v0_p_val, bind. rewrite p_varint_app by exact Hn.
  destruct (N.ltb_spec v0_MaxValLen n); [reflexivity|].
  destruct H as [H|H]; [lia|]. unfold takeN. destruct (N.leb_spec n (N.of_nat (length r))); [unfold lenN in H; lia | reflexivity].
Qed.

(* every pair of every accepted section respects both caps, and the section was cut from the front *)
Theorem psetv0_section_bounded {St} (step : St -> bytes -> bytes -> option St) st bs st' rest :
  v0_section step st bs = Some (st', rest) ->
  exists l, Forall v0_wf_kvp l /\ bs = v0_ser_section l ++ rest /\ v0_fold step st l = Some st'.
Proof.
  unfold v0_section. intro H. apply v0_p_section_inv in H as [l [F [W E]]]. exists l. repeat split; assumption.
Qed.

(* what the stream decoder accepts was consumed from the front of the input: the unread bytes are
   a suffix, so the accepted packet never accounts for more bytes than were supplied *)
Lemma v0_sections_suffix {St X} (p : parser St) (xs : list X) :
  (forall bs a r, p bs = Some (a, r) -> exists u, bs = u ++ r) ->
  forall bs l r, v0_sections p xs bs = Some (l, r) -> exists u, bs = u ++ r.
Proof.
  intro Hp. induction xs as [|x xs IH]; intros bs l r; cbn [v0_sections]; unfold bind, ret.
  - intro HH; inversion HH; subst. exists []. reflexivity.
  - destruct (p bs) as [[a r1]|] eqn:P; [|discriminate].
    destruct (v0_sections p xs r1) as [[b r2]|] eqn:E; [|discriminate]. intro HH; inversion HH; subst.
    apply Hp in P as [u1 ->]. apply IH in E as [u2 ->]. exists (u1 ++ u2). rewrite app_assoc. reflexivity.
Qed.

Lemma v0_section_suffix {St} (step : St -> bytes -> bytes -> option St) st bs a r :
  v0_section step st bs = Some (a, r) -> exists u, bs = u ++ r.
Proof. intro H. apply psetv0_section_bounded in H as [l [_ [E _]]]. exists (v0_ser_section l). exact E. Qed.

Theorem psetv0_consumed_prefix valid_pk valid_sig bs p rest :
  v0_parse_rest valid_pk valid_sig bs = Some (p, rest) -> exists used, bs = used ++ rest /\ lenN rest < lenN bs.
Proof.
  unfold v0_parse_rest, bind.
  destruct (take 5 bs) as [[m r0]|] eqn:T; [|discriminate].
  destruct (negb (bytes_eqb m v0_magic)); [discriminate|].
  destruct (v0_p_key r0) as [[[[|tb [|? ?]]|] r1]|] eqn:K; try discriminate.
  destruct (negb (n8 tb =? v0_T_UnsignedTx)); [discriminate|].
  destruct (v0_p_val r1) as [[v r2]|] eqn:PV; [|discriminate].
  destruct (v0_parse_tx_value v) as [t|]; [|discriminate].
  destruct (negb (v0_unsigned_ok t)); [discriminate|].
  destruct (v0_section v0_gunk_step [] r2) as [[unk r3]|] eqn:SG; [|discriminate].
  destruct (v0_sections (v0_section (v0_in_step valid_pk valid_sig) v0_in_empty) (t_ins t) r3) as [[ins r4]|] eqn:SI; [|discriminate].
  destruct (v0_sections (v0_section (v0_out_step valid_pk) v0_out_empty) (t_outs t) r4) as [[outs r5]|] eqn:SO; [|discriminate].
  destruct (forallb v0_sane ins); [|discriminate]. unfold ret. intro HH; inversion HH; subst.
  apply take_inv in T as [-> L5]. apply v0_p_key_inv in K as [-> _]. apply v0_p_val_inv in PV as [-> _].
  apply v0_section_suffix in SG as [u3 ->].
  apply (v0_sections_suffix _ _ (fun bs a r => v0_section_suffix _ _ bs a r)) in SI as [u4 ->].
  apply (v0_sections_suffix _ _ (fun bs a r => v0_section_suffix _ _ bs a r)) in SO as [u5 ->].
  exists (m ++ var_slice [tb] ++ var_slice v ++ u3 ++ u4 ++ u5). split.
  - rewrite <- !app_assoc. reflexivity.
  - assert (L : lenN m = 5) by (unfold lenN; rewrite L5; reflexivity). rewrite !lenN_app. lia.
Qed.

(* hypotheses are satisfiable: the example packet of Proofs/PsetV0.v, cut anywhere, is rejected *)
Example ex_psetv0_prefixes_rejected :
  exists bs, v0_ser ex_p_full = Some bs /\ (length bs = 222)%nat /\
    forallb (fun n => match v0_parse ex_yes ex_yes (firstn n bs) with None => true | Some _ => false end)
            (seq 0 (length bs)) = true.
Proof. eexists. split; [vm_compute; reflexivity|]. split; vm_compute; reflexivity. Qed.
