(* Proofs/Spend.v — C09: sign, finalize, extract yields a transaction that satisfies its inputs.
   Lemmas about the script builder / tokenizer / recognisers, the multisig ordering, the
   final scripts per template, the evaluator, the extractor, and the refusal theorems. *)
From Coq Require Import ZifyBool ZifyN ZifyNat Sorting.Sorted.
From GE Require Import Lib.Bytes Lib.Varint Lib.Sha256 Model.Ripemd160 Model.Tx Model.TxHash Model.Spend.
Open Scope N_scope.

(* ------------------------------------------------------------------ *)
(* small facts                                                         *)
(* ------------------------------------------------------------------ *)
Lemma sp_round_length st kw : length st = 8%nat -> length (round st kw) = 8%nat.
Proof. intro H. do 9 (destruct st as [|? st]; try discriminate H). reflexivity. Qed.
Lemma sp_fold_round_length l : forall st, length st = 8%nat -> length (fold_left round l st) = 8%nat.
Proof. induction l as [|kw l IH]; intros st H; cbn; auto. apply IH. apply sp_round_length. exact H. Qed.
Lemma sp_compress_length st block : length st = 8%nat -> length (compress st block) = 8%nat.
Proof.
  intro H. unfold compress. rewrite map_length, combine_length, sp_fold_round_length by exact H. rewrite H. reflexivity.
Qed.
Lemma sp_blocks_length fuel : forall st bs, length st = 8%nat -> length (blocks fuel st bs) = 8%nat.
Proof.
  induction fuel as [|f IH]; intros st bs H; cbn [blocks]; auto.
  destruct bs; auto. apply IH. apply sp_compress_length. exact H.
Qed.
Lemma sha256_len32 msg : length (sha256 msg) = 32%nat.
Proof. unfold sha256. apply digest_of_length. apply sp_blocks_length. reflexivity. Qed.

Lemma bytes_eqb_refl a : bytes_eqb a a = true.
Proof. apply bytes_eqb_eq. reflexivity. Qed.

Lemma lenN_cons (b : byte) (s : bytes) : lenN (b :: s) = 1 + lenN s.
Proof. unfold lenN. cbn [length]. lia. Qed.
Lemma lenN_nil : lenN [] = 0.
Proof. reflexivity. Qed.
Lemma lenL_length {A} (l : list A) : lenL l = N.of_nat (length l).
Proof. reflexivity. Qed.

Lemma n8_b8_small v : v < 256 -> n8 (b8 v) = v.
Proof. intro H. rewrite n8_b8. apply N.mod_small. exact H. Qed.

(* ------------------------------------------------------------------ *)
(* tokenizer                                                           *)
(* ------------------------------------------------------------------ *)
Lemma takeN_shorter n s x r : takeN n s = Some (x, r) -> (length r <= length s)%nat.
Proof. intro H. apply takeN_inv in H as [-> _]. rewrite app_length. lia. Qed.

Lemma p_le_shorter n s v r : p_le n s = Some (v, r) -> (length r <= length s)%nat.
Proof. intro H. apply p_le_inv in H as [-> _]. rewrite app_length. lia. Qed.

(* enough fuel is enough *)
Lemma tokenize_f_fuel : forall f f' s, (length s < f)%nat -> (length s < f')%nat ->
  tokenize_f f s = tokenize_f f' s.
Proof.
  induction f as [|f IH]; intros f' s Hf Hf'; [lia|].
  destruct f' as [|f']; [lia|].
  destruct s as [|op r]; [reflexivity|].
  cbn [tokenize_f]. cbn [length] in Hf, Hf'.
  set (pushed := if (1 <=? n8 op) && (n8 op <=? 75) then takeN (n8 op) r
       else if n8 op =? 76 then match p_le 1 r with Some (n, r1) => takeN n r1 | None => None end
       else if n8 op =? 77 then match p_le 2 r with Some (n, r1) => takeN n r1 | None => None end
       else if n8 op =? 78 then match p_le 4 r with Some (n, r1) => takeN n r1 | None => None end
       else Some ([], r)).
  assert (Hsh : forall d r', pushed = Some (d, r') -> (length r' <= length r)%nat).
  { intros d r' E. unfold pushed in E.
    destruct ((1 <=? n8 op) && (n8 op <=? 75)); [eapply takeN_shorter; eauto|].
    destruct (n8 op =? 76).
    { destruct (p_le 1 r) as [[n r1]|] eqn:E1; [|discriminate].
      apply p_le_shorter in E1. apply takeN_shorter in E. lia. }
    destruct (n8 op =? 77).
    { destruct (p_le 2 r) as [[n r1]|] eqn:E1; [|discriminate].
      apply p_le_shorter in E1. apply takeN_shorter in E. lia. }
    destruct (n8 op =? 78).
    { destruct (p_le 4 r) as [[n r1]|] eqn:E1; [|discriminate].
      apply p_le_shorter in E1. apply takeN_shorter in E. lia. }
    inversion E; subst. lia. }
  destruct pushed as [[d r']|] eqn:E; [|reflexivity].
  specialize (Hsh d r' eq_refl).
  rewrite (IH f' r') by lia. reflexivity.
Qed.

Definition tok_pushed (op : byte) (r : bytes) : option (bytes * bytes) :=
  if (1 <=? n8 op) && (n8 op <=? 75) then takeN (n8 op) r
  else if n8 op =? 76 then match p_le 1 r with Some (n, r1) => takeN n r1 | None => None end
  else if n8 op =? 77 then match p_le 2 r with Some (n, r1) => takeN n r1 | None => None end
  else if n8 op =? 78 then match p_le 4 r with Some (n, r1) => takeN n r1 | None => None end
  else Some ([], r).

Lemma tokenize_f_step f op r :
  tokenize_f (S f) (op :: r) =
  match tok_pushed op r with
  | None => None
  | Some (d, r') => match tokenize_f f r' with Some l => Some ((op, d) :: l) | None => None end
  end.
Proof. reflexivity. Qed.

(* tokenizing one op in front of `rest`, when the op's operand parser is known *)
Lemma tokenize_cons op r d rest :
  tok_pushed op r = Some (d, rest) -> (length rest <= length r)%nat ->
  tokenize (op :: r) = match tokenize rest with Some l => Some ((op, d) :: l) | None => None end.
Proof.
  intros E Hl. unfold tokenize. cbn [length]. rewrite tokenize_f_step, E.
  rewrite (tokenize_f_fuel (S (length r)) (S (length rest)) rest) by lia. reflexivity.
Qed.

(* an opcode that pushes nothing *)
Lemma tokenize_op op rest : n8 op = 0 \/ 79 <= n8 op ->
  tokenize (op :: rest) = match tokenize rest with Some l => Some ((op, []) :: l) | None => None end.
Proof.
  intro H. apply tokenize_cons; [|lia]. unfold tok_pushed.
  replace ((1 <=? n8 op) && (n8 op <=? 75)) with false by lia.
  replace (n8 op =? 76) with false by lia. replace (n8 op =? 77) with false by lia.
  replace (n8 op =? 78) with false by lia. reflexivity.
Qed.

(* a direct push of 1..75 bytes *)
Lemma tokenize_direct d rest : 1 <= lenN d -> lenN d <= 75 ->
  tokenize (b8 (lenN d) :: d ++ rest) =
  match tokenize rest with Some l => Some ((b8 (lenN d), d) :: l) | None => None end.
Proof.
  intros H1 H2. apply tokenize_cons; [|rewrite app_length; lia]. unfold tok_pushed.
  rewrite n8_b8_small by lia.
  replace ((1 <=? lenN d) && (lenN d <=? 75)) with true by lia.
  unfold lenN. apply takeN_app.
Qed.

(* OP_PUSHDATA1 *)
Lemma tokenize_pd1 d rest : lenN d <= 255 ->
  tokenize (x4c :: b8 (lenN d) :: d ++ rest) =
  match tokenize rest with Some l => Some ((x4c, d) :: l) | None => None end.
Proof.
  intros H2. apply tokenize_cons; [|cbn [length]; rewrite app_length; lia]. unfold tok_pushed.
  change (n8 x4c) with 76. cbn [N.leb N.eqb andb Pos.eqb N.compare Pos.compare Pos.compare_cont].
  change (b8 (lenN d) :: d ++ rest) with (le_enc 1 (lenN d) ++ d ++ rest).
  rewrite p_le_app by (cbn; lia).
  unfold lenN. apply takeN_app.
Qed.

(* OP_PUSHDATA2 *)
Lemma tokenize_pd2 d rest : lenN d <= 65535 ->
  tokenize (x4d :: le_enc 2 (lenN d) ++ d ++ rest) =
  match tokenize rest with Some l => Some ((x4d, d) :: l) | None => None end.
Proof.
  intros H2. apply tokenize_cons; [|rewrite !app_length; lia]. unfold tok_pushed.
  change (n8 x4d) with 77. cbn [N.leb N.eqb andb Pos.eqb N.compare Pos.compare Pos.compare_cont].
  rewrite p_le_app by (cbn; lia).
  unfold lenN. apply takeN_app.
Qed.

(* ------------------------------------------------------------------ *)
(* ScriptBuilder pushes and their re-parsing                           *)
(* ------------------------------------------------------------------ *)
Definition push_op (d : bytes) : byte :=
  if lenN d <? 76 then b8 (lenN d) else if lenN d <=? 255 then x4c else x4d.

(* an item the builder pushes with a data-push opcode: 2..520 bytes *)
Definition pushable (d : bytes) : Prop := 2 <= lenN d /\ lenN d <= 520.

Lemma add_data_raw_long d : 2 <= lenN d -> lenN d <= 65535 ->
  add_data_raw d =
  if lenN d <? 76 then b8 (lenN d) :: d
  else if lenN d <=? 255 then x4c :: b8 (lenN d) :: d
  else x4d :: le_enc 2 (lenN d) ++ d.
Proof.
  intros H1 H2. destruct d as [|a [|b r]]; [cbn in H1; lia | cbn in H1; lia |].
  unfold add_data_raw. fold (lenN (a :: b :: r)).
  unfold SOP_PUSHDATA1, SOP_PUSHDATA2.
  destruct (lenN (a :: b :: r) <? 76); [reflexivity|].
  destruct (lenN (a :: b :: r) <=? 255); [reflexivity|].
  replace (lenN (a :: b :: r) <=? 65535) with true by lia. reflexivity.
Qed.

Lemma add_data_raw_len d : pushable d -> lenN (add_data_raw d) <= lenN d + 3.
Proof.
  intros [H1 H2]. rewrite add_data_raw_long by lia.
  destruct (lenN d <? 76); [rewrite lenN_cons; lia|].
  destruct (lenN d <=? 255); [rewrite !lenN_cons; lia|].
  rewrite lenN_cons, lenN_app, lenN_le_enc. lia.
Qed.

Lemma push_op_range d : pushable d -> 1 <= n8 (push_op d) /\ n8 (push_op d) <= 78.
Proof.
  intros [H1 H2]. unfold push_op.
  destruct (N.ltb_spec (lenN d) 76); [rewrite n8_b8_small by lia; lia|].
  destruct (lenN d <=? 255); [change (n8 x4c) with 76 | change (n8 x4d) with 77]; lia.
Qed.

Lemma tokenize_push d rest : pushable d ->
  tokenize (add_data_raw d ++ rest) =
  match tokenize rest with Some l => Some ((push_op d, d) :: l) | None => None end.
Proof.
  intros [H1 H2]. rewrite add_data_raw_long by lia. unfold push_op.
  destruct (N.ltb_spec (lenN d) 76).
  - cbn [app]. apply tokenize_direct; lia.
  - destruct (N.leb_spec (lenN d) 255).
    + cbn [app]. apply tokenize_pd1; lia.
    + cbn [app]. rewrite <- app_assoc. apply tokenize_pd2; lia.
Qed.

Lemma pushes_of_push op d l : 1 <= n8 op -> n8 op <= 78 ->
  pushes_of ((op, d) :: l) = match pushes_of l with Some xs => Some (d :: xs) | None => None end.
Proof.
  intros H1 H2. cbn [pushes_of].
  replace (n8 op =? 0) with false by lia. replace (n8 op <=? 78) with true by lia. reflexivity.
Qed.

Lemma parse_pushes_nil : parse_pushes [] = Some [].
Proof. reflexivity. Qed.

Lemma parse_pushes_push d rest : pushable d ->
  parse_pushes (add_data_raw d ++ rest) =
  match parse_pushes rest with Some xs => Some (d :: xs) | None => None end.
Proof.
  intro H. unfold parse_pushes. rewrite tokenize_push by exact H.
  destruct (tokenize rest) as [l|]; [|reflexivity].
  destruct (push_op_range d H). apply pushes_of_push; assumption.
Qed.

Lemma parse_pushes_op0 rest :
  parse_pushes (x00 :: rest) = match parse_pushes rest with Some xs => Some ([] :: xs) | None => None end.
Proof.
  unfold parse_pushes. rewrite tokenize_op by (left; reflexivity).
  destruct (tokenize rest) as [l|]; reflexivity.
Qed.

Lemma parse_pushes_concat items rest : Forall pushable items ->
  parse_pushes (concat (map add_data_raw items) ++ rest) =
  match parse_pushes rest with Some xs => Some (items ++ xs) | None => None end.
Proof.
  induction 1 as [|d items Hd Hr IH]; cbn [map concat app].
  - destruct (parse_pushes rest); reflexivity.
  - rewrite <- app_assoc, parse_pushes_push by exact Hd. rewrite IH.
    destruct (parse_pushes rest); reflexivity.
Qed.

(* builder results *)
Lemma sb_data_ok s d : lenN s + lenN (add_data_raw d) <= 10000 -> lenN d <= 520 ->
  sb_data (Some s) d = Some (s ++ add_data_raw d).
Proof.
  intros H1 H2. unfold sb_data, MaxScriptSize, MaxScriptElementSize.
  replace (lenN s + lenN (add_data_raw d) <=? 10000) with true by lia.
  replace (lenN d <=? 520) with true by lia. reflexivity.
Qed.

Definition total_push_len (items : list bytes) : N := fold_right (fun d acc => lenN d + 3 + acc) 0 items.

Lemma lenN_concat_pushes items : Forall pushable items ->
  lenN (concat (map add_data_raw items)) <= total_push_len items.
Proof.
  induction 1 as [|d items Hd Hr IH]; cbn [map concat total_push_len fold_right]; [cbn; lia|].
  rewrite lenN_app. pose proof (add_data_raw_len d Hd). fold (total_push_len items). lia.
Qed.

Lemma fold_sb_data items : forall s, Forall pushable items ->
  lenN s + total_push_len items <= 10000 ->
  fold_left sb_data items (Some s) = Some (s ++ concat (map add_data_raw items)).
Proof.
  induction items as [|d items IH]; intros s Hf Hl; cbn [fold_left map concat].
  - rewrite app_nil_r. reflexivity.
  - inversion Hf as [|? ? Hd Hr]; subst.
    cbn [total_push_len fold_right] in Hl. fold (total_push_len items) in Hl.
    pose proof (add_data_raw_len d Hd) as Hlen. destruct Hd as [Hd1 Hd2].
    rewrite sb_data_ok by lia.
    rewrite IH; [rewrite <- app_assoc; reflexivity | exact Hr |].
    rewrite lenN_app. lia.
Qed.

(* ------------------------------------------------------------------ *)
(* the multisig template is recognised, with its keys in script order  *)
(* ------------------------------------------------------------------ *)
Definition wf_key (k : bytes) : Prop := lenN k = 33 \/ lenN k = 65.

Lemma small_int_is_op n : n <= 16 -> small_int_op (small_int n) = true /\ as_small_int (small_int n) = n /\
  (n8 (small_int n) = 0 \/ 79 <= n8 (small_int n)).
Proof.
  intro H. unfold small_int, small_int_op, as_small_int, SOP_0.
  destruct (N.eqb_spec n 0) as [->|Hn]; [cbn; repeat split; lia|].
  rewrite n8_b8_small by lia.
  replace (80 + n =? 0) with false by lia. repeat split; lia.
Qed.

Definition key_tok (k : bytes) : byte * bytes := (b8 (lenN k), k).

Lemma tokenize_keys keys rest : Forall wf_key keys ->
  tokenize (concat (map push_key keys) ++ rest) =
  match tokenize rest with Some l => Some (map key_tok keys ++ l) | None => None end.
Proof.
  induction 1 as [|k keys Hk Hr IH]; cbn [map concat app].
  - destruct (tokenize rest); reflexivity.
  - unfold push_key at 1. cbn [app]. rewrite <- app_assoc.
    rewrite tokenize_direct by (destruct Hk as [-> | ->]; lia). rewrite IH.
    destruct (tokenize rest); reflexivity.
Qed.

Lemma tokenize_multisig m keys : m <= 16 -> lenL keys <= 16 -> Forall wf_key keys ->
  tokenize (multisig_script m keys) =
  Some ((small_int m, []) :: map key_tok keys ++ [(small_int (lenL keys), []); (SOP_CHECKMULTISIG, [])]).
Proof.
  intros Hm Hn Hk. unfold multisig_script.
  destruct (small_int_is_op m Hm) as (_ & _ & Hop).
  rewrite tokenize_op by exact Hop.
  rewrite tokenize_keys by exact Hk.
  destruct (small_int_is_op (lenL keys) Hn) as (_ & _ & Hop2).
  rewrite tokenize_op by exact Hop2.
  rewrite tokenize_op by (right; unfold SOP_CHECKMULTISIG; cbn; lia).
  reflexivity.
Qed.

Lemma key_tok_not_small k : wf_key k -> small_int_op (fst (key_tok k)) = false.
Proof.
  intros [H | H]; unfold key_tok, small_int_op; cbn [fst]; rewrite H; reflexivity.
Qed.

Lemma ms_count_keys keys op rest : Forall wf_key keys -> small_int_op op = true -> forall acc,
  ms_count (map key_tok keys ++ (op, []) :: rest) acc = Some (acc + lenL keys, op, rest).
Proof.
  intros Hk Hop. induction Hk as [|k keys Hk1 Hr IH]; intro acc; cbn [map app ms_count].
  - rewrite Hop. f_equal. f_equal. f_equal. unfold lenL. cbn. lia.
  - pose proof (key_tok_not_small k Hk1) as E. unfold key_tok in *. cbn [fst] in E. rewrite E.
    rewrite IH. f_equal. f_equal. f_equal. unfold lenL. cbn [length]. lia.
Qed.

Lemma ms_keys_keys keys op rest : Forall wf_key keys -> small_int_op op = true ->
  ms_keys (map key_tok keys ++ (op, []) :: rest) = keys.
Proof.
  intros Hk Hop. induction Hk as [|k keys Hk1 Hr IH]; cbn [map app ms_keys].
  - rewrite Hop. reflexivity.
  - pose proof (key_tok_not_small k Hk1) as E. unfold key_tok in *. cbn [fst] in E. rewrite E.
    rewrite IH. reflexivity.
Qed.

Lemma ms_stats_multisig m keys : m <= 16 -> lenL keys <= 16 -> Forall wf_key keys ->
  ms_stats (multisig_script m keys) = Some (lenL keys, m).
Proof.
  intros Hm Hn Hk. unfold ms_stats. rewrite tokenize_multisig by assumption.
  destruct (small_int_is_op m Hm) as (Hop & Has & _). rewrite Hop.
  destruct (small_int_is_op (lenL keys) Hn) as (Hop2 & Has2 & _).
  rewrite ms_count_keys by assumption. rewrite Has2, Has. cbn [N.add].
  rewrite N.eqb_refl. cbn [andb]. rewrite N.eqb_refl. reflexivity.
Qed.

Lemma ms_parse_multisig m keys : m <= 16 -> lenL keys <= 16 -> Forall wf_key keys ->
  ms_parse (multisig_script m keys) = Some (m, keys).
Proof.
  intros Hm Hn Hk. unfold ms_parse. rewrite ms_stats_multisig by assumption.
  rewrite tokenize_multisig by assumption.
  destruct (small_int_is_op (lenL keys) Hn) as (Hop2 & _ & _).
  rewrite ms_keys_keys by assumption. reflexivity.
Qed.

Lemma lenN_push_keys keys : lenN (concat (map push_key keys)) =
  fold_right (fun k acc => 1 + lenN k + acc) 0 keys.
Proof.
  induction keys as [|k keys IH]; cbn [map concat fold_right]; [reflexivity|].
  rewrite lenN_app. unfold push_key at 1. rewrite lenN_cons, IH. lia.
Qed.

(* a multisig script is never mistaken for a witness program *)
Lemma multisig_not_witness_program m keys : Forall wf_key keys -> keys <> [] ->
  is_witness_program (multisig_script m keys) = false.
Proof.
  intros Hk Hne. destruct keys as [|k keys]; [congruence|].
  inversion Hk as [|? ? Hk1 Hr]; subst.
  unfold multisig_script. cbn [map concat]. unfold push_key at 1. cbn [app].
  unfold is_witness_program.
  match goal with |- context [lenN (?a :: ?b :: ?r)] => set (prog := r) end.
  assert (Hp : lenN prog >= lenN k + 2).
  { unfold prog. rewrite !lenN_app. cbn. lia. }
  rewrite !lenN_cons. rewrite n8_b8_small by (destruct Hk1 as [-> | ->]; lia).
  destruct Hk1 as [E | E]; rewrite E in *; lia.
Qed.

(* ------------------------------------------------------------------ *)
(* multisig ordering: any signing order yields the script's key order  *)
(* ------------------------------------------------------------------ *)
Definition memb (pks : list bytes) (k : bytes) : bool := existsb (bytes_eqb k) pks.

Lemma memb_In pks k : memb pks k = true <-> In k pks.
Proof.
  unfold memb. rewrite existsb_exists. split.
  - intros (x & Hx & E). apply bytes_eqb_eq in E. subst. exact Hx.
  - intro H. exists k. split; [exact H | apply bytes_eqb_refl].
Qed.
Lemma memb_false pks k : ~ In k pks -> memb pks k = false.
Proof. intro H. destruct (memb pks k) eqn:E; [apply memb_In in E; contradiction | reflexivity]. Qed.

Lemma memb_cons x S k : memb (x :: S) k = bytes_eqb k x || memb S k.
Proof. reflexivity. Qed.

Section Order.
  Variable script : bytes.
  Variable pos : bytes -> N.
  Variable sg : bytes -> bytes.
  Let f (k : bytes) : N * bytes := (pos k, sg k).
  Let pair (k : bytes) : bytes * bytes := (k, sg k).

  Lemma positions_eq pks : (forall k, In k pks -> key_position script k = Some (pos k)) ->
    positions script (map pair pks) = Some (map f pks).
  Proof.
    induction pks as [|k pks IH]; intro H; cbn [map positions]; [reflexivity|].
    unfold pair at 1. rewrite (H k (or_introl eq_refl)).
    rewrite IH by (intros k' Hk'; apply H; right; exact Hk'). reflexivity.
  Qed.

  Lemma sorted_pos_notin k r : StronglySorted N.lt (map pos (k :: r)) -> ~ In k r.
  Proof.
    intros Hs Hin. cbn [map] in Hs. apply StronglySorted_inv in Hs as [_ Hall].
    rewrite Forall_forall in Hall. specialize (Hall (pos k) (in_map pos r k Hin)). lia.
  Qed.

  Lemma insert_into_sorted x S : forall ks,
    StronglySorted N.lt (map pos ks) -> In x ks -> ~ In x S ->
    insert_pos (f x) (map f (filter (memb S) ks)) = map f (filter (memb (x :: S)) ks).
  Proof.
    induction ks as [|k r IH]; intros Hs Hin Hns; [destruct Hin|].
    pose proof (sorted_pos_notin k r Hs) as Hkr.
    cbn [map] in Hs. apply StronglySorted_inv in Hs as [Hsr Hall]. rewrite Forall_forall in Hall.
    cbn [filter]. rewrite (memb_cons x S k).
    destruct (bytes_eqb k x) eqn:Ekx.
    - apply bytes_eqb_eq in Ekx. subst k. cbn [orb].
      rewrite (memb_false S x Hns). cbn [map].
      assert (Efil : filter (memb (x :: S)) r = filter (memb S) r).
      { apply filter_ext_in. intros y Hy. rewrite memb_cons.
        destruct (bytes_eqb y x) eqn:E; [|reflexivity].
        apply bytes_eqb_eq in E. subst y. contradiction. }
      rewrite Efil.
      destruct (filter (memb S) r) as [|y r'] eqn:Ef; [reflexivity|].
      cbn [map insert_pos]. change (fst (f y)) with (pos y). change (fst (f x)) with (pos x).
      assert (Hy : In y r). { assert (In y (filter (memb S) r)) by (rewrite Ef; left; reflexivity).
                              apply filter_In in H as [H _]. exact H. }
      specialize (Hall (pos y) (in_map pos r y Hy)).
      replace (pos y <=? pos x) with false by lia. reflexivity.
    - cbn [orb]. destruct Hin as [->|Hin]; [rewrite bytes_eqb_refl in Ekx; discriminate|].
      specialize (Hall (pos x) (in_map pos r x Hin)).
      destruct (memb S k) eqn:Em.
      + cbn [map insert_pos]. change (fst (f k)) with (pos k). change (fst (f x)) with (pos x).
        replace (pos k <=? pos x) with true by lia.
        f_equal. apply IH; assumption.
      + apply IH; assumption.
  Qed.

  Lemma sort_positions keys : StronglySorted N.lt (map pos keys) -> forall pks,
    NoDup pks -> incl pks keys ->
    sort_pos (map f pks) = map f (filter (memb pks) keys).
  Proof.
    intros Hs. induction pks as [|x pks IH]; intros Hnd Hincl.
    - cbn [map sort_pos]. replace (filter (memb []) keys) with (@nil bytes); [reflexivity|].
      symmetry. clear. induction keys as [|k r IH]; [reflexivity | cbn; exact IH].
    - cbn [map sort_pos]. inversion Hnd as [|? ? Hx Hnd']; subst.
      rewrite IH by (try assumption; intros y Hy; apply Hincl; right; exact Hy).
      apply insert_into_sorted; [exact Hs | apply Hincl; left; reflexivity | exact Hx].
  Qed.

  (* extractKeyOrderFromScript returns the signatures in the order of the keys in the script,
     whatever the order of the partial signatures *)
  Lemma extract_key_order_sorted keys n m pks :
    ms_stats script = Some (n, m) -> m = lenL pks ->
    (forall k, In k keys -> key_position script k = Some (pos k)) ->
    StronglySorted N.lt (map pos keys) -> NoDup pks -> incl pks keys ->
    extract_key_order script (map pair pks) = Some (map sg (filter (memb pks) keys)).
  Proof.
    intros Hms Hm Hpos Hs Hnd Hincl. unfold extract_key_order. rewrite Hms.
    unfold lenL. rewrite map_length. fold (lenL pks). rewrite <- Hm, N.eqb_refl.
    rewrite positions_eq by (intros k Hk; apply Hpos, Hincl, Hk).
    rewrite (sort_positions keys Hs pks Hnd Hincl). rewrite map_map. reflexivity.
  Qed.
End Order.

(* OP_CHECKMULTISIG accepts signatures that follow the key order, each valid for its own key
   and for no other key of the script *)
Lemma cms_loop_accepts (chk : bytes -> bytes -> bool) (sg : bytes -> bytes) (S : bytes -> bool) :
  forall ks, NoDup ks ->
  (forall k, In k ks -> S k = true -> chk k (sg k) = true) ->
  (forall k k', In k ks -> In k' ks -> chk k (sg k') = true -> k = k') ->
  cms_loop chk ks (map sg (filter S ks)) = true.
Proof.
  induction ks as [|k r IH]; intros Hnd Hv Hex; [reflexivity|].
  inversion Hnd as [|? ? Hk Hnd']; subst.
  assert (IH' : cms_loop chk r (map sg (filter S r)) = true).
  { apply IH; [exact Hnd' | intros; apply Hv; [right|]; assumption
               | intros a b Ha Hb; apply Hex; right; assumption]. }
  cbn [filter]. destruct (S k) eqn:ES.
  - cbn [map cms_loop]. rewrite (Hv k (or_introl eq_refl) ES). exact IH'.
  - destruct (filter S r) as [|y r'] eqn:Ef; [reflexivity|].
    cbn [map cms_loop]. cbn [map] in IH'.
    destruct (chk k (sg y)) eqn:Ec; [|exact IH'].
    assert (Hy : In y r). { assert (In y (filter S r)) by (rewrite Ef; left; reflexivity).
                            apply filter_In in H as [H _]. exact H. }
    assert (k = y) by (apply Hex; [left; reflexivity | right; exact Hy | exact Ec]).
    subst y. contradiction.
Qed.

Lemma filter_rev {A} (p : A -> bool) (l : list A) : filter p (rev l) = rev (filter p l).
Proof.
  induction l as [|x l IH]; [reflexivity|]. cbn [rev filter].
  rewrite filter_app, IH. cbn [filter]. destruct (p x); [reflexivity | rewrite app_nil_r; reflexivity].
Qed.

Lemma filter_length_le {A} (p : A -> bool) (l : list A) : (length (filter p l) <= length l)%nat.
Proof. induction l as [|x l IH]; cbn; [lia | destruct (p x); cbn; lia]. Qed.

Lemma checkmultisig_accepts chk sg keys pks m :
  NoDup keys -> NoDup pks -> incl pks keys -> m = lenL pks ->
  (forall k, In k pks -> chk k (sg k) = true) ->
  (forall k k', In k keys -> In k' keys -> chk k (sg k') = true -> k = k') ->
  checkmultisig chk m keys ([] :: map sg (filter (memb pks) keys)) = true.
Proof.
  intros Hndk Hnd Hincl Hm Hv Hex. unfold checkmultisig. cbn [nonempty negb andb].
  assert (Hlen : length (filter (memb pks) keys) = length pks).
  { (* the keys that were signed, in key order, are a permutation of pks *)
    apply Nat.le_antisymm.
    - apply NoDup_incl_length; [apply NoDup_filter; exact Hndk|].
      intros k Hk. apply filter_In in Hk as [_ Hk]. apply memb_In in Hk. exact Hk.
    - apply NoDup_incl_length; [exact Hnd|].
      intros k Hk. apply filter_In. split; [apply Hincl; exact Hk | apply memb_In; exact Hk]. }
  unfold lenL. rewrite map_length, Hlen. fold (lenL pks). rewrite <- Hm, N.eqb_refl. cbn [andb].
  assert (Hmn : m <= lenL keys).
  { subst m. unfold lenL. pose proof (NoDup_incl_length Hnd Hincl). lia. }
  assert (E : (m <=? N.of_nat (length keys)) = true) by (unfold lenL in Hmn; lia).
  rewrite E. cbn [andb].
  rewrite <- map_rev, <- filter_rev.
  apply cms_loop_accepts.
  - apply NoDup_rev. exact Hndk.
  - intros k Hk HS. apply Hv. apply memb_In. exact HS.
  - intros k k' Hk Hk'. apply Hex; apply in_rev; assumption.
Qed.

(* ------------------------------------------------------------------ *)
(* template scripts are classified as themselves                       *)
(* ------------------------------------------------------------------ *)
Tactic Notation "explode" ident(h) hyp(H) integer(n) :=
  do n (destruct h as [|? h]; [cbn in H; discriminate H|]);
  destruct h; [|cbn in H; discriminate H].

Lemma class_p2pkh h : length h = 20%nat ->
  is_p2wpkh (p2pkh_script h) = false /\ is_p2wsh (p2pkh_script h) = false /\
  is_p2tr (p2pkh_script h) = false /\ is_p2sh (p2pkh_script h) = false /\
  is_p2pkh (p2pkh_script h) = true /\ firstn 20 (skipn 3 (p2pkh_script h)) = h.
Proof. intro H. explode h H 20. repeat split; vm_compute; reflexivity. Qed.

Lemma class_p2sh h : length h = 20%nat ->
  is_p2wpkh (p2sh_script h) = false /\ is_p2wsh (p2sh_script h) = false /\
  is_p2tr (p2sh_script h) = false /\ is_p2sh (p2sh_script h) = true /\
  firstn 20 (skipn 2 (p2sh_script h)) = h.
Proof. intro H. explode h H 20. repeat split; vm_compute; reflexivity. Qed.

Lemma class_p2wpkh h : length h = 20%nat ->
  is_p2wpkh (p2wpkh_script h) = true /\ is_witness_program (p2wpkh_script h) = true /\
  skipn 2 (p2wpkh_script h) = h.
Proof.
  intro H. explode h H 20. repeat split; try (vm_compute; reflexivity).
Qed.

Lemma class_p2wsh h : length h = 32%nat ->
  is_p2wpkh (p2wsh_script h) = false /\ is_p2wsh (p2wsh_script h) = true /\
  is_witness_program (p2wsh_script h) = true /\ skipn 2 (p2wsh_script h) = h.
Proof.
  intro H. explode h H 32. repeat split; try (vm_compute; reflexivity).
Qed.

Lemma class_p2tr q : length q = 32%nat ->
  is_p2wpkh (p2tr_script q) = false /\ is_p2wsh (p2tr_script q) = false /\
  is_p2tr (p2tr_script q) = true /\ skipn 2 (p2tr_script q) = q.
Proof.
  intro H. explode q H 32. repeat split; try (vm_compute; reflexivity).
Qed.

(* ------------------------------------------------------------------ *)
(* final scripts per template, and that they satisfy the spent script  *)
(* ------------------------------------------------------------------ *)
Definition sig_typed (e : N) (sg : bytes) : Prop := exists b, last_byte sg = Some b /\ n8 b = e.

Lemma check_sigs_ok e sigs : (forall pk sg, In (pk, sg) sigs -> sig_typed e sg) ->
  check_sigs_sht e sigs = OcOk tt.
Proof.
  induction sigs as [|[pk sg] r IH]; intro H; [reflexivity|].
  cbn [check_sigs_sht]. destruct (H pk sg (or_introl eq_refl)) as (b & -> & Hb).
  rewrite Hb, N.eqb_refl. apply IH. intros pk' sg' Hin. apply (H pk' sg'). right. exact Hin.
Qed.

Lemma wf_key_pushable k : wf_key k -> pushable k.
Proof. intros [H | H]; unfold pushable; rewrite H; lia. Qed.

(* the unsnoc of a list built with a last element *)
Lemma unsnoc_app {A} (l : list A) (x : A) : unsnoc (l ++ [x]) = Some (l, x).
Proof.
  induction l as [|a l IH]; [reflexivity|]. cbn [app unsnoc]. rewrite IH.
  destruct (l ++ [x]) eqn:E; [destruct l; discriminate | reflexivity].
Qed.

(* key positions (offsets of the pushes) are strictly increasing along the keys of the script *)
Definition unambiguous (script : bytes) (keys : list bytes) : Prop :=
  exists pos : bytes -> N,
    (forall k, In k keys -> key_position script k = Some (pos k)) /\ StronglySorted N.lt (map pos keys).

(* offset of the push of k among the pushes of keys, the first of which starts at off *)
Fixpoint key_off (keys : list bytes) (k : bytes) (off : N) : N :=
  match keys with
  | [] => off
  | x :: r => if bytes_eqb x k then off else key_off r k (off + 1 + lenN x)
  end.

Lemma key_tok_push x : wf_key x -> is_push_op (fst (key_tok x)) = true /\ tok_size (key_tok x) = 1 + lenN x.
Proof.
  intros [H | H]; unfold key_tok, is_push_op, tok_size; cbn [fst snd]; rewrite H; split; reflexivity.
Qed.

Lemma push_index_keys k rest : forall keys off, Forall wf_key keys -> In k keys ->
  push_index k (map key_tok keys ++ rest) off = Some (key_off keys k off).
Proof.
  induction keys as [|x r IH]; intros off Hk Hin; [destruct Hin|].
  inversion Hk as [|? ? Hx Hr]; subst.
  destruct (key_tok_push x Hx) as [Hp Hs].
  cbn [map app push_index key_off]. unfold key_tok at 1. unfold key_tok in Hp. cbn [fst] in Hp. rewrite Hp. cbn [andb].
  destruct (bytes_eqb x k) eqn:E; [reflexivity|].
  destruct Hin as [->|Hin]; [rewrite bytes_eqb_refl in E; discriminate|].
  fold (key_tok x). rewrite Hs. rewrite IH by assumption. f_equal. f_equal. lia.
Qed.

Lemma key_off_ge keys k : forall off, off <= key_off keys k off.
Proof.
  induction keys as [|x r IH]; intro off; cbn [key_off]; [lia|].
  destruct (bytes_eqb x k); [lia|]. specialize (IH (off + 1 + lenN x)). lia.
Qed.

Lemma key_off_sorted : forall keys off, NoDup keys ->
  StronglySorted N.lt (map (fun k => key_off keys k off) keys).
Proof.
  induction keys as [|x r IH]; intros off Hnd; [constructor|].
  inversion Hnd as [|? ? Hx Hr]; subst. cbn [map].
  assert (E : map (fun k => key_off (x :: r) k off) r = map (fun k => key_off r k (off + 1 + lenN x)) r).
  { apply map_ext_in. intros k Hk. cbn [key_off].
    destruct (bytes_eqb x k) eqn:Ex; [|reflexivity]. apply bytes_eqb_eq in Ex. subst k. contradiction. }
  rewrite E. constructor; [apply IH; exact Hr|].
  apply Forall_forall. intros y Hy. apply in_map_iff in Hy as (k & <- & Hk).
  cbn [key_off]. rewrite bytes_eqb_refl. pose proof (key_off_ge r k (off + 1 + lenN x)). lia.
Qed.

(* since fix a3dd5d3 every duplicate-free key set is ordered correctly *)
Lemma multisig_unambiguous m keys : m <= 16 -> lenL keys <= 16 -> Forall wf_key keys -> NoDup keys ->
  unambiguous (multisig_script m keys) keys.
Proof.
  intros Hm Hn Hk Hnd. exists (fun k => key_off keys k 1). split; [|apply key_off_sorted; exact Hnd].
  intros k Hin. unfold key_position. rewrite tokenize_multisig by assumption.
  destruct (small_int_is_op m Hm) as (_ & _ & Hop).
  cbn [push_index]. unfold is_push_op.
  replace ((1 <=? n8 (small_int m)) && (n8 (small_int m) <=? 78)) with false by lia. cbn [andb].
  assert (Hts : tok_size (small_int m, []) = 1).
  { unfold tok_size. cbv zeta. cbn [fst snd]. rewrite lenN_nil.
    replace ((1 <=? n8 (small_int m)) && (n8 (small_int m) <=? 75)) with false by lia.
    replace (n8 (small_int m) =? 76) with false by lia. replace (n8 (small_int m) =? 77) with false by lia.
    replace (n8 (small_int m) =? 78) with false by lia. reflexivity. }
  rewrite push_index_keys by assumption. f_equal. f_equal.
  rewrite N.add_0_l. exact Hts.
Qed.

Record ms_ok (m : N) (keys pks : list bytes) (sgf : bytes -> bytes) : Prop := {
  mo_m : 1 <= m /\ m <= 16;
  mo_n : lenL keys <= 16;
  mo_keys : Forall wf_key keys;
  mo_nodupk : NoDup keys;
  mo_nodup : NoDup pks;
  mo_incl : incl pks keys;
  mo_count : m = lenL pks;
  mo_sigs : forall k, In k pks -> pushable (sgf k)
}.

Definition ms_pairs (sgf : bytes -> bytes) (pks : list bytes) : list (bytes * bytes) :=
  map (fun k => (k, sgf k)) pks.
Definition ms_ordered (sgf : bytes -> bytes) (keys pks : list bytes) : list bytes :=
  map sgf (filter (memb pks) keys).

Lemma ms_order m keys pks sgf : ms_ok m keys pks sgf ->
  extract_key_order (multisig_script m keys) (ms_pairs sgf pks) = Some (ms_ordered sgf keys pks).
Proof.
  intros [Hm Hn Hk Hndk Hnd Hincl Hc _].
  destruct (multisig_unambiguous m keys (proj2 Hm) Hn Hk Hndk) as (pos & Hpos & Hs).
  eapply extract_key_order_sorted with (pos := pos) (n := lenL keys); try eassumption.
  apply ms_stats_multisig; [lia | exact Hn | exact Hk].
Qed.

Lemma ms_ordered_pushable m keys pks sgf : ms_ok m keys pks sgf -> Forall pushable (ms_ordered sgf keys pks).
Proof.
  intro H. unfold ms_ordered. apply Forall_forall. intros x Hx. apply in_map_iff in Hx as (k & <- & Hk).
  apply filter_In in Hk as [_ Hk]. apply memb_In in Hk. apply (mo_sigs _ _ _ _ H). exact Hk.
Qed.

Lemma ms_ordered_length m keys pks sgf : ms_ok m keys pks sgf -> length (ms_ordered sgf keys pks) = length pks.
Proof.
  intro H. unfold ms_ordered. rewrite map_length.
  pose proof (mo_nodupk _ _ _ _ H) as Hndk.
  apply Nat.le_antisymm.
  - apply NoDup_incl_length; [apply NoDup_filter; exact Hndk|].
    intros k Hk. apply filter_In in Hk as [_ Hk]. apply memb_In in Hk. exact Hk.
  - apply NoDup_incl_length; [exact (mo_nodup _ _ _ _ H)|].
    intros k Hk. apply filter_In. split; [apply (mo_incl _ _ _ _ H); exact Hk | apply memb_In; exact Hk].
Qed.

Lemma multisig_script_len m keys : Forall wf_key keys -> lenL keys <= 16 ->
  lenN (multisig_script m keys) <= 3 + 66 * lenL keys.
Proof.
  intros Hk _. unfold multisig_script. rewrite lenN_cons, lenN_app, lenN_push_keys.
  assert (fold_right (fun k acc => 1 + lenN k + acc) 0 keys <= 66 * lenL keys).
  { induction Hk as [|k r Hk1 Hr IH]; [cbn; lia|]. cbn [fold_right]. unfold lenL in *. cbn [length].
    destruct Hk1 as [E | E]; rewrite E; lia. }
  change (lenN [small_int (lenL keys); SOP_CHECKMULTISIG]) with 2. lia.
Qed.

Section Templates.
  Variable chk : salgo -> bytes -> bytes -> bytes -> bool.
  Variable commit : bytes -> bytes -> bytes -> bool.
  Variable v2 : bool.

  Lemma eval_multisig_ok a m keys pks sgf : ms_ok m keys pks sgf ->
    (forall k, In k pks -> chk a (multisig_script m keys) k (sgf k) = true) ->
    (forall k k', In k keys -> In k' keys -> chk a (multisig_script m keys) k (sgf k') = true -> k = k') ->
    eval_multisig chk a (multisig_script m keys) ([] :: ms_ordered sgf keys pks) = true.
  Proof.
    intros H Hv Hex. unfold eval_multisig.
    destruct H as [Hm Hn Hk Hun Hnd Hincl Hc Hs].
    rewrite ms_parse_multisig by (try assumption; lia).
    apply checkmultisig_accepts; assumption.
  Qed.

  (* ---- P2PKH ---- *)
  Lemma p2pkh_final i pk sg :
    pi_sigs i = [(pk, sg)] -> has_f v2 (pi_redeem i) = false ->
    sig_typed (expected_sht i) sg -> wf_key pk -> pushable sg ->
    chk ALegacy (p2pkh_script (hash160 pk)) pk sg = true ->
    exists ss, legacy_sigscript v2 i = OcOk ss /\
               satisfies chk commit (p2pkh_script (hash160 pk)) ss [] = true.
  Proof.
    intros Hs Hr Ht Hk Hp Hc. exists (add_data_raw sg ++ add_data_raw pk).
    pose proof (wf_key_pushable pk Hk) as Hpk.
    pose proof (add_data_raw_len sg Hp). pose proof (add_data_raw_len pk Hpk).
    destruct Hp as [Hp1 Hp2]. destruct Hpk as [Hk1 Hk2].
    split.
    - unfold legacy_sigscript. rewrite Hs.
      rewrite check_sigs_ok by (intros pk' sg' [E|[]]; inversion E; subst; exact Ht).
      cbn [obind]. rewrite Hr. cbn [negb]. unfold sb_new.
      rewrite sb_data_ok by (rewrite ?lenN_nil; lia). cbn [app].
      rewrite sb_data_ok by lia. reflexivity.
    - unfold satisfies.
      destruct (class_p2pkh (hash160 pk) (hash160_length pk)) as (E1 & E2 & E3 & E4 & E5 & E6).
      rewrite E1, E2, E3, E4, E5, E6. cbn [orb nonempty negb andb].
      rewrite parse_pushes_push by (split; lia).
      rewrite <- (app_nil_r (add_data_raw pk)), parse_pushes_push by (split; lia).
      rewrite parse_pushes_nil. rewrite bytes_eqb_refl, Hc. reflexivity.
  Qed.

  (* ---- P2WPKH and P2SH-P2WPKH ---- *)
  Lemma eval_wpkh_ok pk sg :
    chk AWitV0 (p2pkh_script (hash160 pk)) pk sg = true ->
    eval_witness_program chk (p2wpkh_script (hash160 pk)) [sg; pk] = true.
  Proof.
    intro Hc. unfold eval_witness_program.
    destruct (class_p2wpkh (hash160 pk) (hash160_length pk)) as (E1 & _ & E3).
    rewrite E1, E3. unfold eval_wpkh. rewrite bytes_eqb_refl, Hc. reflexivity.
  Qed.

  Lemma wf_vector_small w : Forall (fun x => lenN x <= 10000) w -> lenL w <= 10000 -> wf_vector w.
  Proof.
    intros H1 H2. split; [unfold two64; lia|].
    eapply Forall_impl; [|exact H1]. intros x Hx. cbn beta in Hx. unfold two64. lia.
  Qed.

  Lemma read_witness_ser w : Forall (fun x => lenN x <= 10000) w -> lenL w <= 10000 ->
    read_witness (ser_witness w) = Some w.
  Proof.
    intros H1 H2. unfold read_witness, ser_witness.
    rewrite <- (app_nil_r (vector w)), p_vector_app by (apply wf_vector_small; assumption).
    replace (forallb (fun x => lenN x <=? MaxScriptSize) w) with true; [reflexivity|].
    symmetry. apply forallb_forall. intros x Hx. rewrite Forall_forall in H1.
    specialize (H1 x Hx). unfold MaxScriptSize. lia.
  Qed.

  Lemma p2wpkh_final i pk sg :
    pi_sigs i = [(pk, sg)] -> has_f v2 (pi_redeem i) = false -> has_f v2 (pi_wscript i) = false ->
    sig_typed (expected_sht i) sg -> wf_key pk -> pushable sg ->
    chk AWitV0 (p2pkh_script (hash160 pk)) pk sg = true ->
    witness_final v2 i = OcOk ([], ser_witness [sg; pk]) /\
    read_witness (ser_witness [sg; pk]) = Some [sg; pk] /\
    satisfies chk commit (p2wpkh_script (hash160 pk)) [] [sg; pk] = true.
  Proof.
    intros Hs Hr Hw Ht Hk Hp Hc. pose proof (wf_key_pushable pk Hk) as [Hk1 Hk2]. destruct Hp as [Hp1 Hp2].
    split; [|split].
    - unfold witness_final. rewrite Hs.
      rewrite check_sigs_ok by (intros pk' sg' [E|[]]; inversion E; subst; exact Ht).
      cbn [obind]. rewrite Hr, Hw. reflexivity.
    - apply read_witness_ser; [repeat constructor; lia | cbn; lia].
    - unfold satisfies. destruct (class_p2wpkh (hash160 pk) (hash160_length pk)) as (E1 & _ & _).
      rewrite E1. cbn [orb nonempty negb andb]. apply eval_wpkh_ok. exact Hc.
  Qed.

  Lemma p2sh_p2wpkh_final i pk sg :
    pi_sigs i = [(pk, sg)] -> pi_redeem i = Some (p2wpkh_script (hash160 pk)) ->
    has_f v2 (pi_wscript i) = false ->
    sig_typed (expected_sht i) sg -> wf_key pk -> pushable sg ->
    chk AWitV0 (p2pkh_script (hash160 pk)) pk sg = true ->
    exists ss, witness_final v2 i = OcOk (ss, ser_witness [sg; pk]) /\ nonempty ss = true /\
    read_witness (ser_witness [sg; pk]) = Some [sg; pk] /\
    satisfies chk commit (p2sh_script (hash160 (p2wpkh_script (hash160 pk)))) ss [sg; pk] = true.
  Proof.
    intros Hs Hr Hw Ht Hk Hp Hc. pose proof (wf_key_pushable pk Hk) as [Hk1 Hk2]. destruct Hp as [Hp1 Hp2].
    set (rs := p2wpkh_script (hash160 pk)) in *.
    assert (Hlen : lenN rs = 22).
    { unfold rs, p2wpkh_script. rewrite lenN_app. unfold lenN at 2. rewrite hash160_length. reflexivity. }
    assert (Hprs : pushable rs) by (split; lia).
    pose proof (add_data_raw_len rs Hprs).
    exists (add_data_raw rs). split; [|split; [|split]].
    - unfold witness_final. rewrite Hs.
      rewrite check_sigs_ok by (intros pk' sg' [E|[]]; inversion E; subst; exact Ht).
      cbn [obind]. rewrite Hr, Hw. cbn [obytes].
      replace (has_f v2 (Some rs)) with true.
      2:{ unfold has_f. destruct v2; [|reflexivity]. unfold rs, p2wpkh_script. reflexivity. }
      cbn [negb]. unfold sb_new. rewrite sb_data_ok by (rewrite ?lenN_nil; lia). cbn [app of_builder obind].
      reflexivity.
    - rewrite add_data_raw_long by lia. replace (lenN rs <? 76) with true by lia. reflexivity.
    - apply read_witness_ser; [repeat constructor; lia | cbn; lia].
    - unfold satisfies.
      destruct (class_p2sh (hash160 rs) (hash160_length rs)) as (E1 & E2 & E3 & E4 & E5).
      rewrite E1, E2, E3, E4, E5. cbn [orb].
      rewrite <- (app_nil_r (add_data_raw rs)), parse_pushes_push by exact Hprs.
      rewrite parse_pushes_nil. cbn [unsnoc]. rewrite bytes_eqb_refl. cbn [andb].
      destruct (class_p2wpkh (hash160 pk) (hash160_length pk)) as (_ & F2 & _).
      fold rs in F2. rewrite F2. cbn [nonempty negb andb]. apply eval_wpkh_ok. exact Hc.
  Qed.
End Templates.

Lemma total_push_len_bound items : Forall pushable items -> total_push_len items <= 523 * lenL items.
Proof.
  induction 1 as [|d r [_ Hd] Hr IH]; [cbn; lia|].
  cbn [total_push_len fold_right]. fold (total_push_len r). unfold lenL in *. cbn [length]. lia.
Qed.

Section TemplatesMS.
  Variable chk : salgo -> bytes -> bytes -> bytes -> bool.
  Variable commit : bytes -> bytes -> bytes -> bool.
  Variable v2 : bool.

  Lemma ms_pks_nonempty m keys pks sgf : ms_ok m keys pks sgf -> pks <> [] /\ keys <> [].
  Proof.
    intros H. destruct (mo_m _ _ _ _ H) as [Hm _]. pose proof (mo_count _ _ _ _ H) as Hc.
    assert (pks <> []) by (intro E; subst pks; cbn in Hc; lia).
    split; [assumption|]. intro E. subst keys. destruct pks as [|k r]; [congruence|].
    apply (mo_incl _ _ _ _ H k). left. reflexivity.
  Qed.

  Lemma multisig_script_nonempty m keys : nonempty (multisig_script m keys) = true.
  Proof. reflexivity. Qed.

  Lemma has_f_some_nonempty s : nonempty s = true -> has_f v2 (Some s) = true.
  Proof. intro H. unfold has_f. destruct v2; [exact H | reflexivity]. Qed.

  (* ---- P2SH multisig ---- *)
  Lemma p2sh_ms_final i m keys pks sgf :
    ms_ok m keys pks sgf -> pi_sigs i = ms_pairs sgf pks ->
    pi_redeem i = Some (multisig_script m keys) -> lenN (multisig_script m keys) <= 520 ->
    (forall k, In k pks -> sig_typed (expected_sht i) (sgf k)) ->
    (forall k, In k pks -> chk ALegacy (multisig_script m keys) k (sgf k) = true) ->
    (forall k k', In k keys -> In k' keys -> chk ALegacy (multisig_script m keys) k (sgf k') = true -> k = k') ->
    exists ss, legacy_sigscript v2 i = OcOk ss /\
               satisfies chk commit (p2sh_script (hash160 (multisig_script m keys))) ss [] = true.
  Proof.
    intros Hok Hs Hr Hlen Ht Hv Hex. set (rs := multisig_script m keys) in *.
    set (os := ms_ordered sgf keys pks).
    pose proof (ms_ordered_pushable _ _ _ _ Hok) as Hpos. fold os in Hpos.
    pose proof (ms_ordered_length _ _ _ _ Hok) as Hol. fold os in Hol.
    pose proof (total_push_len_bound os Hpos) as Htl.
    pose proof (lenN_concat_pushes os Hpos) as Hcl.
    destruct (ms_pks_nonempty _ _ _ _ Hok) as [Hne Hkne].
    assert (Hm16 : lenL os <= 16).
    { unfold lenL. rewrite Hol. pose proof (mo_count _ _ _ _ Hok). destruct (mo_m _ _ _ _ Hok). unfold lenL in *. lia. }
    assert (Hrs2 : 2 <= lenN rs).
    { unfold rs, multisig_script. rewrite lenN_cons, lenN_app. change (lenN [small_int (lenL keys); SOP_CHECKMULTISIG]) with 2. lia. }
    assert (Hprs : pushable rs) by (split; lia).
    pose proof (add_data_raw_len rs Hprs) as Hrl.
    exists ([SOP_0] ++ concat (map add_data_raw os) ++ add_data_raw rs). split.
    - unfold legacy_sigscript. rewrite Hs.
      rewrite check_sigs_ok.
      2:{ intros pk sg Hin. unfold ms_pairs in Hin. apply in_map_iff in Hin as (k & E & Hk). inversion E; subst. apply Ht, Hk. }
      cbn [obind]. destruct pks as [|k0 pks']; [congruence|]. cbn [ms_pairs map].
      rewrite Hr. replace (has_f v2 (Some rs)) with true by (symmetry; apply has_f_some_nonempty; reflexivity). cbn [negb obytes].
      change ((k0, sgf k0) :: map (fun k => (k, sgf k)) pks') with (ms_pairs sgf (k0 :: pks')).
      unfold rs at 1. rewrite (ms_order _ _ _ _ Hok). fold os.
      unfold sb_new, sb_op, MaxScriptSize. cbn [lenN length N.of_nat N.add N.leb N.compare Pos.compare Pos.compare_cont app].
      rewrite fold_sb_data by (try exact Hpos; change (lenN [SOP_0]) with 1; lia).
      rewrite sb_data_ok.
      + cbn [of_builder]. rewrite <- app_assoc. reflexivity.
      + rewrite lenN_app. change (lenN [SOP_0]) with 1. lia.
      + exact Hlen.
    - unfold satisfies.
      destruct (class_p2sh (hash160 rs) (hash160_length rs)) as (E1 & E2 & E3 & E4 & E5).
      rewrite E1, E2, E3, E4, E5. cbn [orb app].
      unfold SOP_0. rewrite parse_pushes_op0. rewrite parse_pushes_concat by exact Hpos.
      rewrite <- (app_nil_r (add_data_raw rs)), parse_pushes_push by exact Hprs.
      rewrite parse_pushes_nil.
      change ([] :: os ++ [rs]) with (([] :: os) ++ [rs]). rewrite unsnoc_app.
      rewrite bytes_eqb_refl. cbn [andb].
      unfold rs at 1. rewrite multisig_not_witness_program by (try exact Hkne; exact (mo_keys _ _ _ _ Hok)).
      cbn [nonempty negb andb]. apply eval_multisig_ok; assumption.
  Qed.

  Lemma eval_wsh_ok m keys pks sgf :
    ms_ok m keys pks sgf ->
    (forall k, In k pks -> chk AWitV0 (multisig_script m keys) k (sgf k) = true) ->
    (forall k k', In k keys -> In k' keys -> chk AWitV0 (multisig_script m keys) k (sgf k') = true -> k = k') ->
    eval_witness_program chk (p2wsh_script (sha256 (multisig_script m keys)))
      ([] :: ms_ordered sgf keys pks ++ [multisig_script m keys]) = true.
  Proof.
    intros Hok Hv Hex. unfold eval_witness_program.
    destruct (class_p2wsh _ (sha256_len32 (multisig_script m keys))) as (E1 & E2 & _ & E4).
    rewrite E1, E2, E4. unfold eval_wsh.
    change ([] :: ms_ordered sgf keys pks ++ [multisig_script m keys])
      with (([] :: ms_ordered sgf keys pks) ++ [multisig_script m keys]).
    rewrite unsnoc_app, bytes_eqb_refl. cbn [andb]. apply eval_multisig_ok; assumption.
  Qed.

  Lemma ms_witness_ok m keys pks sgf : ms_ok m keys pks sgf ->
    multisig_witness (multisig_script m keys) (ms_pairs sgf pks) =
      Some (ser_witness ([] :: ms_ordered sgf keys pks ++ [multisig_script m keys])) /\
    read_witness (ser_witness ([] :: ms_ordered sgf keys pks ++ [multisig_script m keys])) =
      Some ([] :: ms_ordered sgf keys pks ++ [multisig_script m keys]).
  Proof.
    intro Hok. split.
    - unfold multisig_witness. rewrite (ms_order _ _ _ _ Hok). reflexivity.
    - pose proof (ms_ordered_pushable _ _ _ _ Hok) as Hpos.
      pose proof (ms_ordered_length _ _ _ _ Hok) as Hol.
      pose proof (multisig_script_len m keys (mo_keys _ _ _ _ Hok) (mo_n _ _ _ _ Hok)) as Hl.
      pose proof (mo_n _ _ _ _ Hok) as Hn.
      apply (read_witness_ser chk commit).
      + constructor; [rewrite lenN_nil; lia|]. apply Forall_app. split.
        * eapply Forall_impl; [|exact Hpos]. intros x [_ Hx]. lia.
        * constructor; [lia | constructor].
      + unfold lenL. cbn [length]. rewrite app_length, Hol. cbn [length].
        pose proof (mo_count _ _ _ _ Hok). destruct (mo_m _ _ _ _ Hok). unfold lenL in *. lia.
  Qed.

  (* ---- P2WSH multisig ---- *)
  Lemma p2wsh_ms_final i m keys pks sgf :
    ms_ok m keys pks sgf -> pi_sigs i = ms_pairs sgf pks ->
    has_f v2 (pi_redeem i) = false -> pi_wscript i = Some (multisig_script m keys) ->
    (forall k, In k pks -> sig_typed (expected_sht i) (sgf k)) ->
    (forall k, In k pks -> chk AWitV0 (multisig_script m keys) k (sgf k) = true) ->
    (forall k k', In k keys -> In k' keys -> chk AWitV0 (multisig_script m keys) k (sgf k') = true -> k = k') ->
    let w := [] :: ms_ordered sgf keys pks ++ [multisig_script m keys] in
    witness_final v2 i = OcOk ([], ser_witness w) /\ read_witness (ser_witness w) = Some w /\
    satisfies chk commit (p2wsh_script (sha256 (multisig_script m keys))) [] w = true.
  Proof.
    intros Hok Hs Hr Hw Ht Hv Hex w. destruct (ms_witness_ok _ _ _ _ Hok) as [Hmw Hrw].
    destruct (ms_pks_nonempty _ _ _ _ Hok) as [Hne _].
    split; [|split; [exact Hrw|]].
    - unfold witness_final. rewrite Hs.
      rewrite check_sigs_ok.
      2:{ intros pk sg Hin. unfold ms_pairs in Hin. apply in_map_iff in Hin as (k & E & Hk). inversion E; subst. apply Ht, Hk. }
      cbn [obind]. rewrite Hr, Hw. replace (has_f v2 (Some (multisig_script m keys))) with true by (symmetry; apply has_f_some_nonempty; reflexivity).
      cbn [negb obytes]. rewrite Hmw.
      destruct pks as [|k0 [|k1 r]]; [congruence | reflexivity | reflexivity].
    - unfold satisfies.
      destruct (class_p2wsh _ (sha256_len32 (multisig_script m keys))) as (E1 & E2 & _ & _).
      rewrite E1, E2. cbn [orb nonempty negb andb]. apply eval_wsh_ok; assumption.
  Qed.

  (* ---- P2SH-P2WSH multisig ---- *)
  Lemma p2sh_p2wsh_ms_final i m keys pks sgf :
    ms_ok m keys pks sgf -> pi_sigs i = ms_pairs sgf pks ->
    pi_redeem i = Some (p2wsh_script (sha256 (multisig_script m keys))) ->
    pi_wscript i = Some (multisig_script m keys) ->
    (forall k, In k pks -> sig_typed (expected_sht i) (sgf k)) ->
    (forall k, In k pks -> chk AWitV0 (multisig_script m keys) k (sgf k) = true) ->
    (forall k k', In k keys -> In k' keys -> chk AWitV0 (multisig_script m keys) k (sgf k') = true -> k = k') ->
    let w := [] :: ms_ordered sgf keys pks ++ [multisig_script m keys] in
    exists ss, witness_final v2 i = OcOk (ss, ser_witness w) /\ nonempty ss = true /\
      read_witness (ser_witness w) = Some w /\
      satisfies chk commit (p2sh_script (hash160 (p2wsh_script (sha256 (multisig_script m keys))))) ss w = true.
  Proof.
    intros Hok Hs Hr Hw Ht Hv Hex w. destruct (ms_witness_ok _ _ _ _ Hok) as [Hmw Hrw].
    destruct (ms_pks_nonempty _ _ _ _ Hok) as [Hne _].
    set (rs := p2wsh_script (sha256 (multisig_script m keys))) in *.
    assert (Hlen : lenN rs = 34).
    { unfold rs, p2wsh_script. rewrite lenN_app. unfold lenN at 2. rewrite sha256_len32. reflexivity. }
    assert (Hprs : pushable rs) by (split; lia).
    pose proof (add_data_raw_len rs Hprs).
    exists (add_data_raw rs). split; [|split; [|split; [exact Hrw|]]].
    - unfold witness_final. rewrite Hs.
      rewrite check_sigs_ok.
      2:{ intros pk sg Hin. unfold ms_pairs in Hin. apply in_map_iff in Hin as (k & E & Hk). inversion E; subst. apply Ht, Hk. }
      cbn [obind]. rewrite Hr, Hw. replace (has_f v2 (Some (multisig_script m keys))) with true by (symmetry; apply has_f_some_nonempty; reflexivity).
      replace (has_f v2 (Some rs)) with true by (symmetry; apply has_f_some_nonempty; reflexivity).
      cbn [negb obytes]. unfold sb_new. rewrite sb_data_ok by (rewrite ?lenN_nil; lia).
      cbn [app of_builder obind]. rewrite Hmw.
      destruct pks as [|k0 r]; [congruence | reflexivity].
    - rewrite add_data_raw_long by lia. replace (lenN rs <? 76) with true by lia. reflexivity.
    - unfold satisfies.
      destruct (class_p2sh (hash160 rs) (hash160_length rs)) as (E1 & E2 & E3 & E4 & E5).
      rewrite E1, E2, E3, E4, E5. cbn [orb].
      rewrite <- (app_nil_r (add_data_raw rs)), parse_pushes_push by exact Hprs.
      rewrite parse_pushes_nil. cbn [unsnoc]. rewrite bytes_eqb_refl. cbn [andb].
      destruct (class_p2wsh _ (sha256_len32 (multisig_script m keys))) as (_ & _ & F3 & _).
      fold rs in F3. rewrite F3. cbn [nonempty negb andb]. apply eval_wsh_ok; assumption.
  Qed.
End TemplatesMS.

(* ------------------------------------------------------------------ *)
(* taproot (psetv2): key path and single-leaf script path              *)
(* ------------------------------------------------------------------ *)
Lemma last_byte_snoc l x : last_byte (l ++ [x]) = Some x.
Proof.
  induction l as [|a r IH]; [reflexivity|]. cbn [app last_byte]. rewrite IH.
  destruct (r ++ [x]) eqn:E; [destruct r; discriminate | reflexivity].
Qed.

Section TemplatesTap.
  Variable chk : salgo -> bytes -> bytes -> bytes -> bool.
  Variable commit : bytes -> bytes -> bytes -> bool.

  Lemma tap_key_final (i : pin2) q :
    is_final2 i = false -> nonempty (q_tapkeysig i) = true -> lenN (q_tapkeysig i) <= 65 ->
    tap_sig_ok (pi_sht (q_base i)) (q_tapkeysig i) = true ->
    length q = 32%nat -> chk ATapKey [] q (q_tapkeysig i) = true ->
    taproot_final i = OcOk (vector [q_tapkeysig i]) /\
    read_witness (vector [q_tapkeysig i]) = Some [q_tapkeysig i] /\
    satisfies chk commit (p2tr_script q) [] [q_tapkeysig i] = true.
  Proof.
    intros Hf Hne Hl Hty Hq Hc. split; [|split].
    - unfold taproot_final. cbv zeta. rewrite Hf, Hne, Hty. reflexivity.
    - apply (read_witness_ser chk commit); [repeat constructor; lia | cbn; lia].
    - unfold satisfies. destruct (class_p2tr q Hq) as (E1 & E2 & E3 & E4).
      rewrite E1, E2, E3, E4. cbn [orb nonempty negb andb eval_taproot]. exact Hc.
  Qed.

  Lemma tap_leaf_final (i : pin2) q l pk sg :
    is_final2 i = false -> q_tapkeysig i = [] ->
    q_tapleafs i = [l] -> tl_script l = tapleaf_checksig_script pk -> length pk = 32%nat ->
    q_tapsigs i = [mk_tsig pk sg (tapleaf_hash l)] ->
    tap_sig_ok (pi_sht (q_base i)) sg = true ->
    lenN sg <= 65 -> lenN (tl_cb l) <= 10000 -> length q = 32%nat ->
    commit (tl_cb l) (tl_script l) q = true -> chk ATapLeaf (tl_script l) pk sg = true ->
    let w := [sg; tl_script l; tl_cb l] in
    taproot_final i = OcOk (vector w) /\ read_witness (vector w) = Some w /\
    satisfies chk commit (p2tr_script q) [] w = true.
  Proof.
    intros Hf Hk Hl Hs Hpk Hts Hty Hsg Hcb Hq Hcm Hc w.
    assert (Hsl : lenN (tl_script l) = 34).
    { rewrite Hs. unfold tapleaf_checksig_script. rewrite lenN_cons, lenN_app. unfold lenN at 1. rewrite Hpk. reflexivity. }
    split; [|split].
    - unfold taproot_final. cbv zeta. rewrite Hf, Hk, Hts, Hl. cbn [nonempty filter ts_leaf].
      rewrite bytes_eqb_refl. cbn [forallb ts_sig map]. rewrite Hty. reflexivity.
    - apply (read_witness_ser chk commit); [repeat constructor; lia | cbn; lia].
    - unfold satisfies. destruct (class_p2tr q Hq) as (E1 & E2 & E3 & E4).
      rewrite E1, E2, E3, E4. cbn [orb nonempty negb andb]. unfold w, eval_taproot. rewrite Hcm.
      cbn [andb]. rewrite Hs in *. unfold tapleaf_checksig_script in *.
      change (n8 x20 =? 32) with true. cbn [andb].
      replace (lenN (pk ++ [SOP_CHECKSIG]) =? 33) with true
        by (rewrite lenN_app; unfold lenN at 1; rewrite Hpk; reflexivity).
      replace (last_byte (pk ++ [SOP_CHECKSIG])) with (Some SOP_CHECKSIG).
      2:{ symmetry. apply last_byte_snoc. }
      rewrite N.eqb_refl. cbn [andb].
      rewrite firstn_app, <- Hpk, firstn_all, Nat.sub_diag. cbn [firstn]. rewrite app_nil_r. exact Hc.
  Qed.
End TemplatesTap.

(* ------------------------------------------------------------------ *)
(* finalization refuses: too few signatures, contradictory hash type   *)
(* ------------------------------------------------------------------ *)
Definition ms_exact (script : bytes) (sigs : list (bytes * bytes)) : Prop :=
  exists n m, ms_stats script = Some (n, m) /\ lenL sigs = m.

Lemma extract_key_order_exact script sigs os : extract_key_order script sigs = Some os -> ms_exact script sigs.
Proof.
  unfold extract_key_order, ms_exact. destruct (ms_stats script) as [[n m]|]; [|discriminate].
  destruct (N.eqb_spec m (lenL sigs)); [|discriminate]. intros _. exists n, m. split; [reflexivity | congruence].
Qed.

Lemma check_sigs_typed e sigs : check_sigs_sht e sigs = OcOk tt -> forall pk sg, In (pk, sg) sigs -> sig_typed e sg.
Proof.
  induction sigs as [|[pk0 sg0] r IH]; intros H pk sg Hin; [destruct Hin|].
  cbn [check_sigs_sht] in H. destruct (last_byte sg0) as [b|] eqn:El; [|discriminate].
  destruct (N.eqb_spec e (n8 b)); [|discriminate].
  destruct Hin as [E|Hin]; [inversion E; subst; exists b; split; [exact El | congruence] | apply (IH H pk sg Hin)].
Qed.

(* what a successful legacy / witness finalization implies about the partial signatures *)
Definition enough_sigs (script : option bytes) (v2 : bool) (sigs : list (bytes * bytes)) : Prop :=
  if has_f v2 script then ms_exact (obytes script) sigs else length sigs = 1%nat.

Lemma legacy_sigscript_inv v2 i ss : legacy_sigscript v2 i = OcOk ss ->
  enough_sigs (pi_redeem i) v2 (pi_sigs i) /\
  forall pk sg, In (pk, sg) (pi_sigs i) -> sig_typed (expected_sht i) sg.
Proof.
  unfold legacy_sigscript, enough_sigs. destruct (check_sigs_sht (expected_sht i) (pi_sigs i)) as [[]| |] eqn:Ec; try discriminate.
  cbn [obind]. intro H. split; [|apply check_sigs_typed; exact Ec].
  destruct (pi_sigs i) as [|[pk sg] r] eqn:Es; [discriminate|].
  destruct (has_f v2 (pi_redeem i)); cbn [negb] in H.
  - destruct (extract_key_order _ _) eqn:Ee; [|discriminate]. eapply extract_key_order_exact; eauto.
  - destruct r; [reflexivity | discriminate].
Qed.

Lemma multisig_witness_exact ws sigs w : multisig_witness ws sigs = Some w -> ms_exact ws sigs.
Proof.
  unfold multisig_witness. destruct (extract_key_order ws sigs) eqn:E; [|discriminate].
  intros _. eapply extract_key_order_exact; eauto.
Qed.

Lemma witness_final_inv v2 i sw : witness_final v2 i = OcOk sw ->
  enough_sigs (pi_wscript i) v2 (pi_sigs i) /\
  forall pk sg, In (pk, sg) (pi_sigs i) -> sig_typed (expected_sht i) sg.
Proof.
  unfold witness_final, enough_sigs. destruct (check_sigs_sht (expected_sht i) (pi_sigs i)) as [[]| |] eqn:Ec; try discriminate.
  cbn [obind]. intro H. split; [|apply check_sigs_typed; exact Ec].
  destruct (pi_sigs i) as [|[pk sg] r] eqn:Es; [discriminate|].
  destruct (has_f v2 (pi_redeem i)); cbn [negb] in H.
  - destruct (of_builder _) as [ss| |]; cbn [obind] in H; try discriminate.
    destruct (has_f v2 (pi_wscript i)); cbn [negb] in H.
    + destruct (multisig_witness _ _) eqn:Em; [|discriminate]. eapply multisig_witness_exact; eauto.
    + destruct r; [reflexivity | discriminate].
  - destruct (has_f v2 (pi_wscript i)) eqn:Ew.
    + destruct r; cbn [negb] in H;
        (destruct (multisig_witness _ _) eqn:Em; [|discriminate]; eapply multisig_witness_exact; eauto).
    + destruct r; [reflexivity | cbn [negb] in H; discriminate].
Qed.

(* the script whose signature count decides: witness script for witness inputs, redeem script otherwise *)
Definition deciding_script (i : pin) : option bytes := if osome (pi_wu i) then pi_wscript i else pi_redeem i.

Lemma nth_error_lupd {A} (l : list A) k f : forall x, nth_error l k = Some x -> nth_error (lupd l k f) k = Some (f x).
Proof.
  revert k. induction l as [|a l IH]; intros [|k] x H; cbn in *; try discriminate.
  - inversion H; reflexivity.
  - apply IH. exact H.
Qed.

Theorem finalize0_refuses p k p' i : finalize0 p k = (p', StOk) -> nth_error (p0_ins p) k = Some i ->
  enough_sigs (deciding_script i) false (pi_sigs i) /\
  forall pk sg, In (pk, sg) (pi_sigs i) -> sig_typed (expected_sht i) sg.
Proof.
  unfold finalize0, deciding_script. intros H Hi. rewrite Hi in H.
  destruct (osome (pi_wu i)) eqn:Ew.
  - destruct (is_final0 i); [discriminate|].
    destruct (witness_final false i) as [sw| |] eqn:E; cbn [obind] in H; try discriminate.
    eapply witness_final_inv; eauto.
  - destruct (osome (pi_nwu i)); [|discriminate].
    destruct (is_final0 i); [discriminate|].
    destruct (legacy_sigscript false i) as [ss| |] eqn:E; cbn [obind] in H; try discriminate.
    eapply legacy_sigscript_inv; eauto.
Qed.

Theorem finalize2_refuses p k p' i : finalize2 p k = (p', StOk) -> nth_error (q_ins p) k = Some i ->
  osome (pi_wu (q_base i)) && is_taproot i = false ->
  enough_sigs (deciding_script (q_base i)) true (pi_sigs (q_base i)) /\
  forall pk sg, In (pk, sg) (pi_sigs (q_base i)) -> sig_typed (expected_sht (q_base i)) sg.
Proof.
  unfold finalize2, deciding_script. intros H Hi Ht. rewrite Hi, Ht in H.
  destruct (osome (pi_wu (q_base i))) eqn:Ew.
  - destruct (is_final2 i); [discriminate|].
    destruct (witness_final true (q_base i)) as [sw| |] eqn:E; cbn [obind] in H; try discriminate.
    eapply witness_final_inv; eauto.
  - destruct (osome (pi_nwu (q_base i))); [|discriminate].
    destruct (is_final2 i); [discriminate|].
    destruct (legacy_sigscript true (q_base i)) as [ss| |] eqn:E; cbn [obind] in H; try discriminate.
    eapply legacy_sigscript_inv; eauto.
Qed.

(* contrapositive forms, as the property states them *)
Corollary too_few_sigs_never_finalize0 p k i n m :
  nth_error (p0_ins p) k = Some i -> has_f false (deciding_script i) = true ->
  ms_stats (obytes (deciding_script i)) = Some (n, m) -> lenL (pi_sigs i) < m ->
  snd (finalize0 p k) <> StOk.
Proof.
  intros Hi Hh Hms Hlt Hf. destruct (finalize0 p k) as [p' s] eqn:E. cbn in Hf. subst s.
  destruct (finalize0_refuses p k p' i E Hi) as [He _]. unfold enough_sigs in He. rewrite Hh in He.
  destruct He as (n' & m' & E1 & E2). rewrite Hms in E1. inversion E1; subst. lia.
Qed.

Corollary no_sigs_never_finalize0 p k i :
  nth_error (p0_ins p) k = Some i -> pi_sigs i = [] -> has_f false (deciding_script i) = false ->
  snd (finalize0 p k) <> StOk.
Proof.
  intros Hi Hs Hh Hf. destruct (finalize0 p k) as [p' s] eqn:E. cbn in Hf. subst s.
  destruct (finalize0_refuses p k p' i E Hi) as [He _]. unfold enough_sigs in He. rewrite Hh, Hs in He. discriminate He.
Qed.

Corollary sighash_mismatch_never_finalizes0 p k i pk sg b :
  nth_error (p0_ins p) k = Some i -> In (pk, sg) (pi_sigs i) -> last_byte sg = Some b ->
  n8 b <> expected_sht i -> snd (finalize0 p k) <> StOk.
Proof.
  intros Hi Hin Hl Hne Hf. destruct (finalize0 p k) as [p' s] eqn:E. cbn in Hf. subst s.
  destruct (finalize0_refuses p k p' i E Hi) as [_ Ht]. destruct (Ht pk sg Hin) as (b' & Hl' & Hb).
  rewrite Hl in Hl'. inversion Hl'; subst. contradiction.
Qed.

Corollary too_few_sigs_never_finalize2 p k i n m :
  nth_error (q_ins p) k = Some i -> osome (pi_wu (q_base i)) && is_taproot i = false ->
  has_f true (deciding_script (q_base i)) = true ->
  ms_stats (obytes (deciding_script (q_base i))) = Some (n, m) -> lenL (pi_sigs (q_base i)) < m ->
  snd (finalize2 p k) <> StOk.
Proof.
  intros Hi Htp Hh Hms Hlt Hf. destruct (finalize2 p k) as [p' s] eqn:E. cbn in Hf. subst s.
  destruct (finalize2_refuses p k p' i E Hi Htp) as [He _]. unfold enough_sigs in He. rewrite Hh in He.
  destruct He as (n' & m' & E1 & E2). rewrite Hms in E1. inversion E1; subst. lia.
Qed.

Corollary sighash_mismatch_never_finalizes2 p k i pk sg b :
  nth_error (q_ins p) k = Some i -> osome (pi_wu (q_base i)) && is_taproot i = false ->
  In (pk, sg) (pi_sigs (q_base i)) -> last_byte sg = Some b ->
  n8 b <> expected_sht (q_base i) -> snd (finalize2 p k) <> StOk.
Proof.
  intros Hi Htp Hin Hl Hne Hf. destruct (finalize2 p k) as [p' s] eqn:E. cbn in Hf. subst s.
  destruct (finalize2_refuses p k p' i E Hi Htp) as [_ Ht]. destruct (Ht pk sg Hin) as (b' & Hl' & Hb).
  rewrite Hl in Hl'. inversion Hl'; subst. contradiction.
Qed.

(* ------------------------------------------------------------------ *)
(* the extractors                                                      *)
(* ------------------------------------------------------------------ *)
Lemma set_in_final_strip ti i ti' : set_in_final ti i = Some ti' -> strip_in ti' = strip_in ti.
Proof.
  unfold set_in_final. destruct (pi_fwit i) as [fw|].
  - destruct (read_witness fw); [|discriminate]. intro H; inversion H; reflexivity.
  - intro H; inversion H; reflexivity.
Qed.

Lemma extract_ins_strip : forall tis pis r, extract_ins tis pis = OcOk r -> map strip_in r = map strip_in tis.
Proof.
  induction tis as [|ti tr IH]; intros pis r H; cbn [extract_ins] in H.
  - inversion H; reflexivity.
  - destruct pis as [|i pr]; [discriminate|].
    destruct (set_in_final ti i) as [ti'|] eqn:E; [|discriminate].
    destruct (extract_ins tr pr) as [r'| |] eqn:E2; cbn [obind] in H; try discriminate.
    inversion H; subst. cbn [map]. rewrite (set_in_final_strip _ _ _ E), (IH _ _ E2). reflexivity.
Qed.

Lemma copy_tx_id t : copy_tx t = t.
Proof. destruct t. unfold copy_tx. cbn. f_equal. unfold copy_in. apply map_id. Qed.

(* v0: the extracted transaction is the unsigned transaction in every field other than input
   scripts and witnesses; no hypothesis *)
Theorem extract0_eq_unsigned p t : extract0 p = OcOk t -> strip_tx t = strip_tx (p0_tx p).
Proof.
  unfold extract0. destruct (all_final0 _ _) as [c| |]; cbn [obind]; try discriminate.
  destruct c; cbn [negb]; [|discriminate]. rewrite copy_tx_id.
  destruct (extract_ins _ _) as [ins| |] eqn:E; cbn [obind]; try discriminate.
  intro H; inversion H; subst. unfold strip_tx. cbn [t_version t_flag t_locktime t_ins t_outs].
  rewrite (extract_ins_strip _ _ _ E). reflexivity.
Qed.

(* ... and input k carries exactly the final script and the decoded final witness of section k *)
Lemma extract_ins_nth : forall tis pis r k ti i, extract_ins tis pis = OcOk r ->
  nth_error tis k = Some ti -> nth_error pis k = Some i ->
  exists ti', nth_error r k = Some ti' /\ set_in_final ti i = Some ti'.
Proof.
  induction tis as [|t0 tr IH]; intros pis r k ti i H Ht Hi; [destruct k; discriminate|].
  cbn [extract_ins] in H. destruct pis as [|i0 pr]; [discriminate|].
  destruct (set_in_final t0 i0) as [t0'|] eqn:E; [|discriminate].
  destruct (extract_ins tr pr) as [r'| |] eqn:E2; cbn [obind] in H; try discriminate.
  inversion H; subst. destruct k as [|k]; cbn [nth_error] in *.
  - inversion Ht; inversion Hi; subst. exists t0'. split; [reflexivity | exact E].
  - eapply IH; eauto.
Qed.

Theorem extract0_input p t k ti i : extract0 p = OcOk t ->
  nth_error (t_ins (p0_tx p)) k = Some ti -> nth_error (p0_ins p) k = Some i ->
  exists ti', nth_error (t_ins t) k = Some ti' /\ set_in_final ti i = Some ti'.
Proof.
  unfold extract0. destruct (all_final0 _ _) as [c| |]; cbn [obind]; try discriminate.
  destruct c; cbn [negb]; [|discriminate]. rewrite copy_tx_id.
  destruct (extract_ins _ _) as [ins| |] eqn:E; cbn [obind]; try discriminate.
  intros H Ht Hi; inversion H; subst. cbn [t_ins]. eapply extract_ins_nth; eauto.
Qed.

(* v2: Extract and UnsignedTx are two routines; since fix 0eaca09 they apply the same sequence
   default, issuance test, null amount and peg-in flag.  The only remaining difference is
   that UnsignedTx goes through NewTxInput, which masks the outpoint index with
   OutpointIndexMask unless it is 0xffffffff, while Extract copies it: the two agree on every
   index an Elements outpoint can carry (the same range as wf_in of Model/Tx.v). *)
Definition outpoint_index_ok (i : pin2) : Prop :=
  q_index i = MinusOne \/ q_index i <= OutpointIndexMask.

Lemma land_index_mask x : x <= OutpointIndexMask -> N.land x OutpointIndexMask = x.
Proof.
  intro H. change OutpointIndexMask with (N.ones 30) in *. rewrite N.land_ones.
  apply N.mod_small. change (N.ones 30) with 1073741823 in H. change (2 ^ 30) with 1073741824. lia.
Qed.

Lemma extract_in2_strip i x : outpoint_index_ok i -> extract_in2 i = Some x -> strip_in x = unsigned_in2 i.
Proof.
  intros Hx H. unfold extract_in2 in H.
  destruct (match pi_fwit (q_base i) with Some fw => match read_witness fw with Some w => Some w | None => None end | None => Some [] end) as [w|]; [|discriminate].
  inversion H; subst. unfold strip_in, unsigned_in2. cbn [in_hash in_index in_seq in_pegin in_iss].
  f_equal. destruct Hx as [E|E]; [rewrite E; reflexivity|].
  destruct (q_index i =? MinusOne); [reflexivity|]. symmetry. apply land_index_mask. exact E.
Qed.

Lemma extract_ins2_strip : forall l r, Forall outpoint_index_ok l -> extract_ins2 l = Some r ->
  map strip_in r = map unsigned_in2 l.
Proof.
  induction l as [|i l IH]; intros r Hf H; cbn [extract_ins2] in H.
  - inversion H; reflexivity.
  - inversion Hf as [|? ? Hi Hl]; subst.
    destruct (extract_in2 i) as [x|] eqn:E; [|discriminate].
    destruct (extract_ins2 l) as [xs|] eqn:E2; [|discriminate].
    inversion H; subst. cbn [map]. rewrite (extract_in2_strip i x Hi E), (IH xs Hl eq_refl). reflexivity.
Qed.

Theorem extract2_eq_unsigned p t : Forall outpoint_index_ok (q_ins p) ->
  extract2 p = OcOk t -> strip_tx t = strip_tx (unsigned_tx2 p).
Proof.
  intros Hf. unfold extract2. destruct (sanity2 p); cbn [negb]; [|discriminate].
  destruct (forallb is_final2 (q_ins p)); cbn [negb]; [|discriminate].
  destruct (extract_ins2 (q_ins p)) as [ins|] eqn:E; [|discriminate].
  intro H; inversion H; subst. unfold strip_tx, unsigned_tx2. cbn [t_version t_flag t_locktime t_ins t_outs].
  rewrite (extract_ins2_strip _ _ Hf E). rewrite map_map. reflexivity.
Qed.

(* the packets that witnessed the three disagreements before fix 0eaca09 (sequence 0, amount
   without entropy, peg-in witness) now extract to the signed-over transaction *)
Definition rf_wu : txout := mk_out (x01 :: repeat x07 32) (x01 :: repeat x00 7 ++ [x09]) (x51 :: x20 :: repeat x05 32) [x00] [] [].
Definition rf_base : pin := mk_pin None (Some rf_wu) [] 0 None None None (Some [x01; x01; x2a]).
Definition rf_in (seq : N) (issv : N) (ent : option bytes) (peg : option (list bytes)) : pin2 :=
  mk_pin2 rf_base [x0b] 0 seq 0 0 issv None None None 0 None None ent [] [] peg [] [] [] [] [].
Definition rf_pset (i : pin2) : pset2 := mk_pset2 2 None 0 [i] [].

Example extract2_sequence_agrees :
  exists t, extract2 (rf_pset (rf_in 0 0 None None)) = OcOk t /\
            strip_tx t = strip_tx (unsigned_tx2 (rf_pset (rf_in 0 0 None None))) /\ map in_seq (t_ins t) = [u32max].
Proof. eexists. split; [vm_compute; reflexivity | split; vm_compute; reflexivity]. Qed.

Example extract2_issuance_agrees :
  exists t, extract2 (rf_pset (rf_in 5 7 None None)) = OcOk t /\
            strip_tx t = strip_tx (unsigned_tx2 (rf_pset (rf_in 5 7 None None))) /\
            map (fun i => osome (in_iss i)) (t_ins t) = [false].
Proof. eexists. split; [vm_compute; reflexivity | split; vm_compute; reflexivity]. Qed.

Example extract2_token_only_issuance_agrees :
  exists t, extract2 (rf_pset (rf_in 5 0 (Some (repeat x06 32)) None)) = OcOk t /\
            strip_tx t = strip_tx (unsigned_tx2 (rf_pset (rf_in 5 0 (Some (repeat x06 32)) None))) /\
            map (fun i => match in_iss i with Some s => Tx.iss_amount s | None => [] end) (t_ins t) = [[x00]].
Proof. eexists. split; [vm_compute; reflexivity | split; vm_compute; reflexivity]. Qed.

Example extract2_pegin_agrees :
  exists t, extract2 (rf_pset (rf_in 5 0 None (Some [[x01]]))) = OcOk t /\
            strip_tx t = strip_tx (unsigned_tx2 (rf_pset (rf_in 5 0 None (Some [[x01]])))) /\
            map in_pegin (t_ins t) = [true].
Proof. eexists. split; [vm_compute; reflexivity | split; vm_compute; reflexivity]. Qed.

(* the index hypothesis is about values outside the outpoint range only *)
Example extract2_index_flag_bits :
  let i := mk_pin2 rf_base [x0b] 0x80000005 5 0 0 0 None None None 0 None None None [] [] None [] [] [] [] [] in
  exists t, extract2 (rf_pset i) = OcOk t /\ map in_index (t_ins t) = [0x80000005] /\
            map in_index (t_ins (unsigned_tx2 (rf_pset i))) = [5].
Proof. eexists. split; [vm_compute; reflexivity | split; vm_compute; reflexivity]. Qed.

(* taproot finalization (after fix 509b4c2) requires a signature for the leaf it finalizes
   and the declared hash type on every signature it uses *)
Definition taproot_requires (i : pin2) : Prop :=
  let sht := pi_sht (q_base i) in
  if nonempty (q_tapkeysig i) then tap_sig_ok sht (q_tapkeysig i) = true
  else exists l r, q_tapleafs i = l :: r /\
         let ms := filter (fun s => bytes_eqb (ts_leaf s) (tapleaf_hash l)) (q_tapsigs i) in
         ms <> [] /\ forall s, In s ms -> tap_sig_ok sht (ts_sig s) = true.

Lemma taproot_final_inv i w : taproot_final i = OcOk w -> taproot_requires i.
Proof.
  unfold taproot_final, taproot_requires. cbv zeta. destruct (is_final2 i); [discriminate|].
  destruct (nonempty (q_tapkeysig i)).
  - destruct (tap_sig_ok _ _); [reflexivity | discriminate].
  - destruct (nonempty (q_tapsigs i)); [|discriminate].
    destruct (q_tapleafs i) as [|l r]; [discriminate|].
    destruct (forallb _ _) eqn:Ef; cbn [negb]; [|discriminate].
    destruct (filter _ (q_tapsigs i)) as [|s0 ms] eqn:Em; [discriminate|].
    intros _. exists l, r. split; [reflexivity|]. rewrite Em. split; [discriminate|].
    intros s Hs. rewrite forallb_forall in Ef. apply Ef. exact Hs.
Qed.

Theorem finalize2_taproot_requires p k p' i : finalize2 p k = (p', StOk) -> nth_error (q_ins p) k = Some i ->
  osome (pi_wu (q_base i)) && is_taproot i = true -> taproot_requires i.
Proof.
  unfold finalize2. intros H Hi Ht. rewrite Hi, Ht in H.
  destruct (taproot_final i) as [w| |] eqn:E; try discriminate. eapply taproot_final_inv; eauto.
Qed.

(* the packets that witnessed the two taproot defects before the fix are now refused *)
Definition rf_leaf : tleaf := mk_tleaf (tapleaf_checksig_script (repeat x03 32)) 0xc4 (xc4 :: repeat x02 32).
Definition rf_tap_in (sht : N) (keysig : bytes) (sigs : list tsig) (leafs : list tleaf) : pin2 :=
  mk_pin2 (mk_pin None (Some rf_wu) [] sht None None None None)
          [x0b] 0 5 0 0 0 None None None 0 None None None [] [] None keysig sigs leafs [] [].

Example taproot_other_leaf_refused :
  snd (finalize2 (rf_pset (rf_tap_in 0 [] [mk_tsig (repeat x03 32) (repeat x04 64) (repeat x09 32)] [rf_leaf])) 0) = StErr.
Proof. vm_compute. reflexivity. Qed.

Example taproot_wrong_hash_type_refused :
  snd (finalize2 (rf_pset (rf_tap_in 3 (repeat x04 64 ++ [x81]) [] [])) 0) = StErr.
Proof. vm_compute. reflexivity. Qed.

Example taproot_default_counts_as_all :
  snd (finalize2 (rf_pset (rf_tap_in 1 (repeat x04 64) [] [])) 0) = StOk.
Proof. vm_compute. reflexivity. Qed.

(* ------------------------------------------------------------------ *)
(* any signing order, and the serialize/parse hop, give the same final scripts *)
(* ------------------------------------------------------------------ *)
From Coq Require Import Sorting.Permutation.

Lemma memb_perm pks pks' k : Permutation pks pks' -> memb pks k = memb pks' k.
Proof.
  intro H. destruct (memb pks k) eqn:E.
  - symmetry. apply memb_In. apply memb_In in E. eapply Permutation_in; eauto.
  - symmetry. destruct (memb pks' k) eqn:E'; [|reflexivity].
    apply memb_In in E'. apply Permutation_sym in H. pose proof (Permutation_in k H E') as Hin.
    apply memb_In in Hin. congruence.
Qed.

Theorem signing_order_irrelevant sgf keys pks pks' : Permutation pks pks' ->
  ms_ordered sgf keys pks = ms_ordered sgf keys pks'.
Proof.
  intro H. unfold ms_ordered. f_equal. apply filter_ext. intro k. apply memb_perm. exact H.
Qed.

Lemma ms_ok_perm m keys pks pks' sgf : Permutation pks pks' -> ms_ok m keys pks sgf -> ms_ok m keys pks' sgf.
Proof.
  intros Hp [H1 H2 H3 H4 H5 H6 H7 H8]. constructor; try assumption.
  - eapply Permutation_NoDup; eauto.
  - intros k Hk. apply H6. eapply Permutation_in; [apply Permutation_sym|]; eauto.
  - rewrite H7. unfold lenL. rewrite (Permutation_length Hp). reflexivity.
  - intros k Hk. apply H8. eapply Permutation_in; [apply Permutation_sym|]; eauto.
Qed.

(* the order extractKeyOrderFromScript produces does not depend on the order of the partial
   signatures: signer order, or the pubkey order a serialize/parse hop imposes *)
Theorem extract_key_order_perm m keys pks pks' sgf : Permutation pks pks' -> ms_ok m keys pks sgf ->
  extract_key_order (multisig_script m keys) (ms_pairs sgf pks') =
  extract_key_order (multisig_script m keys) (ms_pairs sgf pks).
Proof.
  intros Hp Hok. rewrite (ms_order _ _ _ _ Hok), (ms_order _ _ _ _ (ms_ok_perm _ _ _ _ _ Hp Hok)).
  f_equal. symmetry. apply signing_order_irrelevant. exact Hp.
Qed.

Lemma insert_pk_perm x l : Permutation (insert_pk x l) (x :: l).
Proof.
  induction l as [|y r IH]; [apply Permutation_refl|]. cbn [insert_pk].
  destruct (bytes_leb (fst y) (fst x)); [|apply Permutation_refl].
  eapply Permutation_trans; [apply perm_skip; exact IH | apply perm_swap].
Qed.
Theorem hop_sorts_a_permutation l : Permutation (sort_pk l) l.
Proof.
  induction l as [|x r IH]; [constructor|]. cbn [sort_pk].
  eapply Permutation_trans; [apply insert_pk_perm | apply perm_skip; exact IH].
Qed.

(* ------------------------------------------------------------------ *)
(* the digest link: signatures made over the unsigned transaction are   *)
(* signatures over the extracted one                                    *)
(* ------------------------------------------------------------------ *)
Section Digest.
  (* abstract signature scheme and signature-hash function (the digest itself is C02/C03) *)
  Variable verify : bytes -> bytes -> bytes -> bool.             (* pubkey, message, signature *)
  Variable digest : tx -> salgo -> N -> nat -> bytes -> bytes -> bytes.  (* tx, algorithm, hash type, input, script code, amount *)
  (* no signature hash covers input scripts or witness data of the transaction being signed *)
  Hypothesis digest_frame : forall t t', strip_tx t = strip_tx t' -> digest t = digest t'.

  Definition chk_dig (t : tx) (k : nat) (amount : bytes) : salgo -> bytes -> bytes -> bytes -> bool :=
    fun a sc pk sg =>
      match unsnoc sg with
      | Some (body, ht) => verify pk (digest t a (n8 ht) k sc amount) body
      | None => false
      end.

  Theorem extracted_checks_as_signed0 p t k amount : extract0 p = OcOk t ->
    chk_dig t k amount = chk_dig (p0_tx p) k amount.
  Proof.
    intro H. unfold chk_dig. rewrite (digest_frame t (p0_tx p) (extract0_eq_unsigned p t H)). reflexivity.
  Qed.

  Theorem extracted_checks_as_signed2 p t k amount : Forall outpoint_index_ok (q_ins p) ->
    extract2 p = OcOk t -> chk_dig t k amount = chk_dig (unsigned_tx2 p) k amount.
  Proof.
    intros Ha H. unfold chk_dig.
    rewrite (digest_frame t (unsigned_tx2 p) (extract2_eq_unsigned p t Ha H)). reflexivity.
  Qed.
End Digest.

(* ------------------------------------------------------------------ *)
(* the key set that first-occurrence ordering (before fix a3dd5d3) misordered: *)
(* key 3's bytes also occur inside <key 1> <push opcode of key 2>            *)
(* ------------------------------------------------------------------ *)
Definition amb_k3 : bytes := x03 :: repeat x07 31 ++ [x21].
Definition amb_k1 : bytes := x02 :: firstn 32 amb_k3.
Definition amb_k2 : bytes := x02 :: repeat x09 32.
Definition amb_keys : list bytes := [amb_k1; amb_k2; amb_k3].
Definition amb_sgf (k : bytes) : bytes := k ++ [x01].
Definition amb_chk : salgo -> bytes -> bytes -> bytes -> bool := fun _ _ pk sg => bytes_eqb sg (amb_sgf pk).
Definition amb_in : pin :=
  mk_pin None None (ms_pairs amb_sgf [amb_k2; amb_k3]) 1 (Some (multisig_script 2 amb_keys)) None None None.

Example overlapping_keys_satisfied :
  exists ss, legacy_sigscript false amb_in = OcOk ss /\
    satisfies amb_chk (fun _ _ _ => true) (p2sh_script (hash160 (multisig_script 2 amb_keys))) ss [] = true.
Proof. eexists. split; [vm_compute; reflexivity|]. vm_compute. reflexivity. Qed.

(* ------------------------------------------------------------------ *)
(* non-vacuity: the hypotheses of the template theorems are satisfiable *)
(* ------------------------------------------------------------------ *)
Definition ex_k1 : bytes := x02 :: repeat x11 32.
Definition ex_k2 : bytes := x03 :: repeat x22 32.
Definition ex_k3 : bytes := x02 :: repeat x33 32.
Definition ex_keys : list bytes := [ex_k1; ex_k2; ex_k3].

Example ex_ms_ok : ms_ok 2 ex_keys [ex_k3; ex_k1] amb_sgf.
Proof.
  constructor.
  - lia.
  - vm_compute. discriminate.
  - repeat constructor; left; reflexivity.
  - constructor; [cbn; intros [H|[H|[]]]; discriminate H|].
    constructor; [cbn; intros [H|[]]; discriminate H | constructor; [intros [] | constructor]].
  - constructor; [cbn; intros [H|[]]; discriminate H | constructor; [intros [] | constructor]].
  - intros k [<-|[<-|[]]]; cbn; tauto.
  - reflexivity.
  - intros k [<-|[<-|[]]]; split; vm_compute; discriminate.
Qed.

Example ex_final_satisfies :
  exists ss, legacy_sigscript false
               (mk_pin None None (ms_pairs amb_sgf [ex_k3; ex_k1]) 0 (Some (multisig_script 2 ex_keys)) None None None) = OcOk ss /\
             satisfies amb_chk (fun _ _ _ => true) (p2sh_script (hash160 (multisig_script 2 ex_keys))) ss [] = true.
Proof.
  apply (p2sh_ms_final amb_chk (fun _ _ _ => true) false _ 2 ex_keys [ex_k3; ex_k1] amb_sgf ex_ms_ok).
  - reflexivity.
  - reflexivity.
  - vm_compute. discriminate.
  - intros k [<-|[<-|[]]]; exists x01; split; vm_compute; reflexivity.
  - intros k [<-|[<-|[]]]; vm_compute; reflexivity.
  - intros k k' Hk Hk' H. unfold amb_chk in H. apply bytes_eqb_eq in H. unfold amb_sgf in H.
    apply app_inj_tail in H as [H _]. congruence.
Qed.

(* ------------------------------------------------------------------ *)
(* signature admission: any sequence of distinct signers is admitted   *)
(* and the packet then holds the signatures in signing order           *)
(* ------------------------------------------------------------------ *)
Fixpoint add_sigs0 (p : pset0) (k : nat) (ops : list (bytes * bytes)) : pset0 * rstat :=
  match ops with
  | [] => (p, StOk)
  | (pk, sg) :: r => match add_partial_sig0 p k sg pk true with
                     | (p', StOk) => add_sigs0 p' k r
                     | bad => bad
                     end
  end.

Lemma lupd_lupd {A} (l : list A) k f g : lupd (lupd l k f) k g = lupd l k (fun x => g (f x)).
Proof.
  revert k. induction l as [|a l IH]; intros [|k]; cbn [lupd]; try reflexivity. rewrite IH. reflexivity.
Qed.

Lemma lupd_ext_at {A} (l : list A) k f g x : nth_error l k = Some x -> f x = g x -> lupd l k f = lupd l k g.
Proof.
  revert k. induction l as [|a l IH]; intros [|k] H E; cbn in *; try discriminate.
  - inversion H; subst. rewrite E. reflexivity.
  - f_equal. apply IH; assumption.
Qed.

Lemma lupd_id_at {A} (l : list A) k f x : nth_error l k = Some x -> f x = x -> lupd l k f = l.
Proof.
  revert k. induction l as [|a l IH]; intros [|k] H E; cbn in *; try discriminate; try reflexivity.
  - inversion H; subst. rewrite E. reflexivity.
  - f_equal. apply IH; assumption.
Qed.

Lemma forallb_lupd {A} (P : A -> bool) (l : list A) k f :
  forallb P l = true -> (forall x, P x = true -> P (f x) = true) -> forallb P (lupd l k f) = true.
Proof.
  revert k. induction l as [|a l IH]; intros [|k] H Hf; cbn [lupd forallb] in *; try reflexivity;
    apply andb_true_iff in H as [H1 H2]; apply andb_true_iff; split; auto.
Qed.

Lemma sane_in0_set_sigs v i : sane_in0 (set_sigs v i) = sane_in0 i.
Proof. destruct i as [a1 a2 a3 a4 a5 a6 a7 a8]; reflexivity. Qed.
Lemma admit_checks_set_sigs v i pk b h n : admit_checks (set_sigs v i) pk b h n = admit_checks i pk b h n.
Proof. destruct i as [a1 a2 a3 a4 a5 a6 a7 a8]; reflexivity. Qed.

Lemma has_sig_for_app i pk x : has_sig_for (set_sigs (pi_sigs i ++ [x]) i) pk = has_sig_for i pk || bytes_eqb (fst x) pk.
Proof.
  unfold has_sig_for. destruct i as [a1 a2 a3 a4 a5 a6 a7 a8]; cbn [pi_sigs set_sigs]. rewrite existsb_app. cbn [existsb]. rewrite orb_false_r. reflexivity.
Qed.

Theorem signing_admitted0 : forall ops p k i,
  nth_error (p0_ins p) k = Some i -> sanity0 p = true ->
  NoDup (map fst ops) ->
  (forall pk, In pk (map fst ops) -> has_sig_for i pk = false) ->
  (forall pk sg, In (pk, sg) ops ->
     admit_checks i pk (osome (nth_error (t_ins (p0_tx p)) k))
       (match nth_error (t_ins (p0_tx p)) k with Some x => in_hash x | None => [] end)
       (match nth_error (t_ins (p0_tx p)) k with Some x => in_index x | None => 0 end) = OcOk tt) ->
  add_sigs0 p k ops = (with_in0 p k (fun i => set_sigs (pi_sigs i ++ ops) i), StOk).
Proof.
  induction ops as [|[pk sg] r IH]; intros p k i Hi Hsan Hnd Hnew Hadm.
  - cbn [add_sigs0]. f_equal. unfold with_in0. destruct p as [t ins]. cbn [p0_tx p0_ins] in *. f_equal.
    symmetry. apply (lupd_id_at ins k _ i Hi). rewrite app_nil_r. destruct i as [a1 a2 a3 a4 a5 a6 a7 a8]; reflexivity.
  - cbn [add_sigs0]. unfold add_partial_sig0. cbn [negb]. rewrite Hi.
    rewrite (Hnew pk) by (left; reflexivity).
    rewrite (Hadm pk sg) by (left; reflexivity).
    set (p' := with_in0 p k (fun i0 => set_sigs (pi_sigs i0 ++ [(pk, sg)]) i0)).
    assert (Hsan' : sanity0 p' = true).
    { unfold sanity0, p', with_in0 in *. cbn [p0_tx p0_ins]. apply andb_true_iff in Hsan as [H1 H2].
      rewrite H1. cbn [andb]. apply forallb_lupd; [exact H2|]. intros x Hx. rewrite sane_in0_set_sigs. exact Hx. }
    rewrite Hsan'.
    set (i' := set_sigs (pi_sigs i ++ [(pk, sg)]) i).
    assert (Hi' : nth_error (p0_ins p') k = Some i').
    { unfold p', with_in0, i'. cbn [p0_ins].
      exact (nth_error_lupd _ _ (fun i0 => set_sigs (pi_sigs i0 ++ [(pk, sg)]) i0) i Hi). }
    inversion Hnd as [|? ? Hpk Hnd']; subst.
    rewrite (IH p' k i' Hi' Hsan' Hnd').
    + f_equal. unfold p', with_in0. cbn [p0_tx p0_ins]. f_equal. rewrite lupd_lupd.
      apply (lupd_ext_at _ _ _ _ i Hi). destruct i as [a1 a2 a3 a4 a5 a6 a7 a8]; cbn [set_sigs pi_sigs]. rewrite <- app_assoc. reflexivity.
    + intros pk' Hin. unfold i'. rewrite has_sig_for_app. cbn [fst].
      rewrite (Hnew pk') by (right; exact Hin). cbn [orb].
      destruct (bytes_eqb pk pk') eqn:E; [|reflexivity]. apply bytes_eqb_eq in E. subst pk'. contradiction.
    + intros pk' sg' Hin. unfold i'. rewrite admit_checks_set_sigs. unfold p', with_in0. cbn [p0_tx].
      apply (Hadm pk' sg'). right. exact Hin.
Qed.
