(* Proofs/TxSize.v — reported sizes equal the lengths of the serializations (C19). *)
From GE Require Import Lib.Bytes Lib.Varint Model.Tx.
From Coq Require Import ZifyBool ZifyN ZifyNat.
Open Scope N_scope.

(* the widths the size formulas hard-code *)
Definition fixed_in (i : txin) : bool :=
  (length (in_hash i) =? 32)%nat &&
  match in_iss i with
  | Some s => (length (iss_nonce s) =? 32)%nat && (length (iss_entropy s) =? 32)%nat
  | None => true end.
Definition fixed_widths (t : tx) : bool := forallb fixed_in (t_ins t).

Lemma lenN_nil : lenN [] = 0. Proof. reflexivity. Qed.
Lemma lenN_cons b (x : bytes) : lenN (b :: x) = 1 + lenN x.
Proof. unfold lenN. cbn [length]. lia. Qed.

Lemma sumN_enc {A} (e : A -> bytes) (sz : A -> N) (l : list A) :
  (forall a, In a l -> lenN (e a) = sz a) -> lenN (enc_list e l) = sumN sz l.
Proof. intro H. unfold sumN. apply enc_list_length. exact H. Qed.

Lemma size_in_ok i : fixed_in i = true -> lenN (ser_in i) = size_in i.
Proof.
  unfold fixed_in, ser_in, size_in. intro H. apply andb_true_iff in H as [H1 H2].
  apply Nat.eqb_eq in H1. rewrite !lenN_app, !lenN_le_enc, var_slice_length.
  unfold lenN at 1. rewrite H1.
  destruct (in_iss i) as [s|].
  - apply andb_true_iff in H2 as [H2 H3]. apply Nat.eqb_eq in H2, H3.
    unfold ser_iss. rewrite !lenN_app. unfold lenN at 1 2. rewrite H2, H3. lia.
  - rewrite lenN_nil. lia.
Qed.

Lemma size_out_ok o : lenN (ser_out false false o) = size_out o.
Proof.
  unfold ser_out, size_out. rewrite !lenN_app, var_slice_length, !lenN_nil. lia.
Qed.

Lemma size_in_wit_ok i : lenN (ser_in_wit i) = size_in_wit i.
Proof. unfold ser_in_wit, size_in_wit. rewrite !lenN_app, !var_slice_length, !vector_length. lia. Qed.

Lemma size_out_wit_ok o : lenN (ser_out_wit o) = size_out_wit o.
Proof. unfold ser_out_wit, size_out_wit. rewrite !lenN_app, !var_slice_length. lia. Qed.

(* SerializeSize(allowWitness, false) = len(serialize(allowWitness, zeroFlag, false, false)) *)
Theorem size_eq_length aw zf t :
  fixed_widths t = true -> size_tx aw false t = lenN (ser_tx aw zf false false t).
Proof.
  intro F. unfold fixed_widths in F. rewrite forallb_forall in F.
  unfold size_tx, base_size, ser_tx. cbn [andb negb].
  rewrite !lenN_app, !varint_length, !lenN_le_enc.
  rewrite (sumN_enc ser_in size_in) by (intros; apply size_in_ok; apply F; assumption).
  rewrite (sumN_enc (ser_out false false) size_out) by (intros; apply size_out_ok).
  destruct (aw && has_witness t).
  - rewrite !lenN_app.
    rewrite (sumN_enc ser_in_wit size_in_wit) by (intros; apply size_in_wit_ok).
    rewrite (sumN_enc ser_out_wit size_out_wit) by (intros; apply size_out_wit_ok).
    rewrite lenN_cons, lenN_nil. lia.
  - rewrite lenN_cons, !lenN_nil. lia.
Qed.

(* SerializeSize(false, true): the signature form without the flag byte *)
Theorem size_eq_length_sig zf wrp t :
  fixed_widths t = true -> wrp = false -> size_tx false true t = lenN (ser_tx false zf true wrp t).
Proof.
  intros F ->. unfold fixed_widths in F. rewrite forallb_forall in F.
  unfold size_tx, base_size, ser_tx. cbn [andb negb].
  rewrite !lenN_app, !varint_length, !lenN_le_enc.
  rewrite (sumN_enc ser_in size_in) by (intros; apply size_in_ok; apply F; assumption).
  rewrite (sumN_enc (ser_out false false) size_out) by (intros; apply size_out_ok).
  rewrite !lenN_nil. lia.
Qed.

(* Weight and VirtualSize *)
Theorem weight_def t : weight t = 3 * size_tx false false t + size_tx true false t.
Proof. unfold weight, WitnessScaleFactor. lia. Qed.

Theorem vsize_ceil t : 4 * vsize t >= weight t /\ 4 * vsize t < weight t + 4.
Proof. unfold vsize, WitnessScaleFactor. split; lia. Qed.

Theorem weight_as_lengths t : fixed_widths t = true ->
  weight t = 3 * lenN (ser_tx false false false false t) + lenN (ser_full t).
Proof.
  intro F. rewrite weight_def, (size_eq_length false false t F), (size_eq_length true false t F). reflexivity.
Qed.

(* ---------- discount ---------- *)
Lemma var_slice_size_pos x : 1 <= var_slice_size x.
Proof. unfold var_slice_size, varint_size. destruct (_ <? _); [lia|]. destruct (_ <=? _); [lia|]. destruct (_ <=? _); lia. Qed.

Lemma discount_out_nonneg o : (0 <= discount_out o)%Z.
Proof. unfold discount_out. destruct (is_conf_out o); [|lia]. destruct (_ <? _)%Z; lia. Qed.

Theorem discount_le t : (discount_weight t <= Z.of_N (weight t))%Z.
Proof.
  unfold discount_weight.
  assert (0 <= fold_right (fun o acc => discount_out o + acc) 0 (t_outs t))%Z.
  { induction (t_outs t) as [|o l IH]; cbn [fold_right]; [lia|]. pose proof (discount_out_nonneg o). lia. }
  lia.
Qed.

Theorem discount_eq_when_no_confidential t :
  forallb (fun o => negb (is_conf_out o)) (t_outs t) = true -> discount_weight t = Z.of_N (weight t).
Proof.
  intro H. unfold discount_weight.
  assert (fold_right (fun o acc => discount_out o + acc) 0 (t_outs t) = 0)%Z.
  { induction (t_outs t) as [|o l IH]; cbn [fold_right forallb] in *; [reflexivity|].
    apply andb_true_iff in H as [H1 H2]. rewrite (IH H2). unfold discount_out.
    apply negb_true_iff in H1. rewrite H1. reflexivity. }
  lia.
Qed.

Theorem discount_vsize_le t : (discount_vsize t <= Z.of_N (vsize t))%Z.
Proof.
  unfold discount_vsize, vsize, WitnessScaleFactor. pose proof (discount_le t).
  rewrite N2Z.inj_div, N2Z.inj_sub by lia. rewrite N2Z.inj_add.
  apply Z.div_le_mono; lia.
Qed.

(* the discount rule: each confidential output is charged like an explicit one *)
Definition explicit_out (o : txout) : txout :=
  if is_conf_out o
  then mk_out (o_asset o) (b8 1 :: repeat x00 8) (o_script o) [x00] [] []
  else o.
Definition explicitise (t : tx) : tx :=
  mk_tx (t_version t) (t_flag t) (t_locktime t) (t_ins t) (map explicit_out (t_outs t)).

(* confidential outputs have the 33-byte value and nonce the constants (33-9), (33-1) assume *)
Definition conf_shape (o : txout) : bool :=
  negb (is_conf_out o) || ((length (o_value o) =? 33)%nat && (length (o_nonce o) =? 33)%nat).

Lemma sumN_map {A B} (f : B -> N) (g : A -> B) l : sumN f (map g l) = sumN (fun a => f (g a)) l.
Proof. induction l as [|a l IH]; cbn; [reflexivity | unfold sumN in *; cbn; rewrite IH; reflexivity]. Qed.

Lemma explicit_out_not_conf o : is_conf_out (explicit_out o) = false.
Proof. unfold explicit_out. destruct (is_conf_out o) eqn:E; [reflexivity | exact E]. Qed.

Lemma size_out_explicit o : conf_shape o = true ->
  Z.of_N (size_out o) = (Z.of_N (size_out (explicit_out o)) + (if is_conf_out o then 24 + 32 else 0))%Z.
Proof.
  unfold conf_shape, explicit_out, size_out. destruct (is_conf_out o) eqn:E; cbn [negb orb].
  - intro H. apply andb_true_iff in H as [H1 H2]. apply Nat.eqb_eq in H1, H2.
    cbn [o_asset o_value o_nonce o_script]. unfold lenN. rewrite H1, H2. cbn [length repeat]. lia.
  - intros _. lia.
Qed.

Lemma size_out_wit_explicit o :
  Z.of_N (size_out_wit o) = (Z.of_N (size_out_wit (explicit_out o)) +
     (if is_conf_out o then Z.of_N (var_slice_size (o_rp o)) + Z.of_N (var_slice_size (o_sp o)) - 2 else 0))%Z.
Proof.
  unfold explicit_out, size_out_wit. destruct (is_conf_out o); cbn [o_rp o_sp]; [|lia].
  change (var_slice_size []) with 1. lia.
Qed.

Lemma discount_out_explicit o : conf_shape o = true ->
  (Z.of_N (size_out o) * 4 + Z.of_N (size_out_wit o) - discount_out o =
   Z.of_N (size_out (explicit_out o)) * 4 + Z.of_N (size_out_wit (explicit_out o)))%Z.
Proof.
  intro F1.
  pose proof (size_out_explicit o F1) as A. pose proof (size_out_wit_explicit o) as B.
  pose proof (var_slice_size_pos (o_rp o)). pose proof (var_slice_size_pos (o_sp o)).
  unfold discount_out. destruct (is_conf_out o).
  - destruct (Z.ltb_spec 0 (-2 + Z.of_N (var_slice_size (o_rp o)) + Z.of_N (var_slice_size (o_sp o)))); lia.
  - lia.
Qed.

Theorem discount_rule t :
  forallb conf_shape (t_outs t) = true ->
  has_witness t = true -> has_witness (explicitise t) = true ->
  discount_weight t = Z.of_N (weight (explicitise t)).
Proof.
  intros Hs HW HW'. unfold discount_weight, weight, size_tx, base_size, WitnessScaleFactor.
  rewrite HW, HW'. unfold explicitise. cbn [andb t_ins t_outs].
  unfold lenL. rewrite map_length.
  set (ni := varint_size (N.of_nat (length (t_ins t)))). set (no := varint_size (N.of_nat (length (t_outs t)))).
  set (si := sumN size_in (t_ins t)). set (swi := sumN size_in_wit (t_ins t)).
  assert (G : forall l, forallb conf_shape l = true ->
     (Z.of_N (sumN size_out l) * 4 + Z.of_N (sumN size_out_wit l) - fold_right (fun o acc => discount_out o + acc) 0 l =
      Z.of_N (sumN size_out (map explicit_out l)) * 4 + Z.of_N (sumN size_out_wit (map explicit_out l)))%Z).
  { induction l as [|o l IH]; intro F; [reflexivity|].
    cbn [forallb] in F. apply andb_true_iff in F as [F1 F2]. specialize (IH F2).
    unfold sumN in *. cbn [map fold_right].
    pose proof (discount_out_explicit o F1). lia. }
  specialize (G (t_outs t) Hs). lia.
Qed.

(* non-vacuity: a transaction with a confidential output meets the hypotheses *)
Example discount_rule_applies :
  let o := mk_out (b8 10 :: repeat x00 32) (b8 9 :: repeat x00 32) [] (b8 2 :: repeat x00 32) [x01; x02] [x03] in
  let t := mk_tx 2 1 0 [] [o] in
  forallb conf_shape (t_outs t) = true /\ has_witness t = true /\ has_witness (explicitise t) = true /\
  discount_weight t = Z.of_N (weight (explicitise t)).
Proof. vm_compute. repeat split. Qed.

(* ---------- discounted virtual size ---------- *)
Theorem discount_vsize_ceil t :
  (4 * discount_vsize t >= discount_weight t /\ 4 * discount_vsize t < discount_weight t + 4)%Z.
Proof. unfold discount_vsize. lia. Qed.

Lemma vsize_Z t : Z.of_N (vsize t) = ((Z.of_N (weight t) + 4 - 1) / 4)%Z.
Proof.
  unfold vsize, WitnessScaleFactor. rewrite N2Z.inj_div, N2Z.inj_sub by lia. rewrite N2Z.inj_add. reflexivity.
Qed.

Theorem discount_vsize_eq_when_no_confidential t :
  forallb (fun o => negb (is_conf_out o)) (t_outs t) = true -> discount_vsize t = Z.of_N (vsize t).
Proof.
  intro H. unfold discount_vsize. rewrite (discount_eq_when_no_confidential t H), vsize_Z. reflexivity.
Qed.

Theorem discount_vsize_rule t :
  forallb conf_shape (t_outs t) = true ->
  has_witness t = true -> has_witness (explicitise t) = true ->
  discount_vsize t = Z.of_N (vsize (explicitise t)).
Proof.
  intros Hs HW HW'. unfold discount_vsize. rewrite (discount_rule t Hs HW HW'), vsize_Z. reflexivity.
Qed.

(* Go divides with truncation towards zero; that is the rounding-up quotient whenever the
   discounted weight is not below -3, in particular on every transaction the discount rule speaks about *)
Theorem discount_vsize_go_eq t : (-3 <= discount_weight t)%Z -> discount_vsize_go t = discount_vsize t.
Proof.
  intro H. unfold discount_vsize_go, discount_vsize. apply Z.quot_div_nonneg; lia.
Qed.

Theorem discount_vsize_go_rule t :
  forallb conf_shape (t_outs t) = true ->
  has_witness t = true -> has_witness (explicitise t) = true ->
  discount_vsize_go t = Z.of_N (vsize (explicitise t)).
Proof.
  intros Hs HW HW'. rewrite discount_vsize_go_eq; [apply discount_vsize_rule; assumption|].
  rewrite (discount_rule t Hs HW HW'). lia.
Qed.
