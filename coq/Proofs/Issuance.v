(* Proofs/Issuance.v — issuance ids follow the Elements derivation; updaters use them consistently (C13). *)
From GE Require Import Lib.Bytes Lib.Varint Lib.Sha256 Model.Tx Model.Issuance Spec.Issuance.
From Coq Require Import ZifyBool ZifyN ZifyNat.
Open Scope N_scope.

(* ---------- SHA-256 digests and mid-states are 32 bytes ---------- *)
Lemma iss_round_length st kw : length st = 8%nat -> length (round st kw) = 8%nat.
Proof. intro H. do 9 (destruct st as [|? st]; try discriminate H). reflexivity. Qed.
Lemma iss_fold_round_length l : forall st, length st = 8%nat -> length (fold_left round l st) = 8%nat.
Proof. induction l as [|kw l IH]; intros st H; cbn [fold_left]; auto. apply IH. apply iss_round_length. exact H. Qed.
Lemma iss_compress_length st block : length st = 8%nat -> length (compress st block) = 8%nat.
Proof.
  intro H. unfold compress. rewrite map_length, combine_length, iss_fold_round_length by exact H. rewrite H. reflexivity.
Qed.
Lemma iss_blocks_length fuel : forall st bs, length st = 8%nat -> length (blocks fuel st bs) = 8%nat.
Proof.
  induction fuel as [|f IH]; intros st bs H; cbn [blocks]; auto.
  destruct bs; auto. apply IH. apply iss_compress_length. exact H.
Qed.
Lemma iss_sha256_length msg : length (sha256 msg) = 32%nat.
Proof. unfold sha256. apply digest_of_length. apply iss_blocks_length. reflexivity. Qed.
Lemma sha256_midstate_length b : length (sha256_midstate b) = 32%nat.
Proof. unfold sha256_midstate. apply digest_of_length. apply iss_compress_length. reflexivity. Qed.
Lemma midstate256_length b : length (midstate256 b) = 32%nat.
Proof.
  unfold midstate256. destruct (length b <? 64)%nat; apply digest_of_length; [reflexivity|].
  apply iss_compress_length. reflexivity.
Qed.

(* fastsha256.MidState256 on exactly one block is the compression of that block *)
Lemma midstate256_block b : length b = 64%nat -> midstate256 b = sha256_midstate b.
Proof.
  intro H. unfold midstate256, sha256_midstate. rewrite H. cbn [Nat.ltb Nat.leb].
  rewrite <- H, firstn_all. reflexivity.
Qed.

(* ---------- the model refines the Elements derivation ---------- *)
Theorem compute_entropy_refines hash n chash :
  length hash = 32%nat -> length chash = 32%nat ->
  compute_entropy hash n chash = Some (spec_entropy hash n chash).
Proof.
  intros Hh Hc. unfold compute_entropy. rewrite Hh, Hc. cbn [Nat.eqb negb].
  rewrite midstate256_block.
  - unfold spec_entropy, entropy_of, fast_merkle_root2, ser_outpoint, dsha256. reflexivity.
  - rewrite app_length, Hc. unfold dsha256. rewrite iss_sha256_length. reflexivity.
Qed.

Theorem compute_asset_refines e : length e = 32%nat -> compute_asset e = Some (spec_asset e).
Proof.
  intro H. unfold compute_asset. rewrite H. cbn [Nat.eqb negb].
  rewrite midstate256_block by (rewrite app_length, H, repeat_length; reflexivity).
  unfold spec_asset, asset_of, fast_merkle_root2. reflexivity.
Qed.

Theorem compute_token_refines e (confidential : bool) :
  length e = 32%nat -> compute_token e (iss_flag_of confidential) = Some (spec_token e confidential).
Proof.
  intro H. unfold compute_token. rewrite H. cbn [Nat.eqb negb].
  destruct confidential; cbn [iss_flag_of N.eqb orb negb];
    (rewrite midstate256_block by (rewrite app_length, H; reflexivity));
    unfold spec_token, token_of, fast_merkle_root2; reflexivity.
Qed.

Theorem ids_refine_spec hash n chash e confidential :
  length hash = 32%nat -> length chash = 32%nat -> length e = 32%nat ->
  compute_entropy hash n chash = Some (spec_entropy hash n chash) /\
  compute_asset e = Some (spec_asset e) /\
  compute_token e (iss_flag_of confidential) = Some (spec_token e confidential).
Proof.
  intros. repeat split; [apply compute_entropy_refines | apply compute_asset_refines | apply compute_token_refines]; assumption.
Qed.

(* the guards: exactly which inputs are refused *)
Lemma compute_entropy_error_iff hash n chash :
  compute_entropy hash n chash = None <-> length hash <> 32%nat \/ length chash <> 32%nat.
Proof.
  unfold compute_entropy.
  destruct (Nat.eqb_spec (length hash) 32) as [E|E]; cbn [negb].
  - destruct (Nat.eqb_spec (length chash) 32) as [F|F]; cbn [negb]; split; intro H;
      try discriminate H; try reflexivity; [destruct H; contradiction | right; exact F].
  - split; [intros _; left; exact E | reflexivity].
Qed.
Lemma compute_asset_error_iff e : compute_asset e = None <-> length e <> 32%nat.
Proof.
  unfold compute_asset. destruct (Nat.eqb_spec (length e) 32) as [E|E]; cbn [negb]; split; intro H; congruence.
Qed.
Lemma compute_token_error_iff e flag :
  compute_token e flag = None <-> length e <> 32%nat \/ (flag <> 0 /\ flag <> 1).
Proof.
  unfold compute_token. destruct (Nat.eqb_spec (length e) 32) as [E|E]; cbn [negb].
  - destruct (N.eqb_spec flag 0) as [F0|F0]; destruct (N.eqb_spec flag 1) as [F1|F1]; cbn [orb negb];
      split; intro H; try discriminate H; try reflexivity; try (right; split; assumption);
      destruct H as [H|[H1 H2]]; congruence.
  - split; [intros _; left; exact E | reflexivity].
Qed.
Lemma ids_are_32_bytes hash n chash e flag x :
  (compute_entropy hash n chash = Some x \/ compute_asset e = Some x \/ compute_token e flag = Some x) ->
  length x = 32%nat.
Proof.
  unfold compute_entropy, compute_asset, compute_token.
  intros [H|[H|H]];
    repeat match type of H with (if ?c then _ else _) = _ => destruct c; try discriminate H end;
    inversion H; apply midstate256_length.
Qed.

(* a contract hash that is not a uint256 is refused (before the repair 09b8e78 a short one made
   the mid-state helper return the SHA-256 initial state for every outpoint) *)
Definition h32 (k : N) : bytes := repeat (b8 k) 32.
Theorem compute_entropy_rejects_bad_contract_hash hash n chash :
  length chash <> 32%nat -> compute_entropy hash n chash = None.
Proof. intro H. apply compute_entropy_error_iff. right. exact H. Qed.
Theorem compute_entropy_total hash n chash :
  length hash = 32%nat -> length chash = 32%nat ->
  exists e, compute_entropy hash n chash = Some e /\ length e = 32%nat /\ e = spec_entropy hash n chash.
Proof.
  intros Hh Hc. rewrite compute_entropy_refines by assumption. eexists. split; [reflexivity|]. split; [|reflexivity].
  apply sha256_midstate_length.
Qed.

(* ---------- the recorded vectors of transaction/data/issuance.json ---------- *)
Definition vec1_hash : bytes := map b8 [195;22;80;183;238;51;80;8;101;6;193;142;221;6;190;133;42;75;79;135;100;51;86;233;194;240;226;151;248;60;69;57].
Example issuance_json_vector_1 :
  compute_entropy vec1_hash 68 zero32b = Some (map b8 [61;185;216;180;169;218;8;123;66;242;159;52;67;20;18;170;162;77;99;117;11;179;27;154;46;38;55;151;36;129;53;224]) /\
  compute_asset (map b8 [61;185;216;180;169;218;8;123;66;242;159;52;67;20;18;170;162;77;99;117;11;179;27;154;46;38;55;151;36;129;53;224]) = Some (map b8 [147;168;147;0;41;8;131;3;103;25;157;190;178;174;24;123;168;80;8;57;173;169;248;111;44;181;232;116;95;121;223;222]) /\
  compute_token (map b8 [61;185;216;180;169;218;8;123;66;242;159;52;67;20;18;170;162;77;99;117;11;179;27;154;46;38;55;151;36;129;53;224]) 0 = Some (map b8 [77;129;248;8;116;143;141;255;189;178;127;229;159;252;42;106;194;37;81;101;24;3;109;29;207;152;181;96;219;116;16;250]).
Proof. repeat split; vm_compute; reflexivity. Qed.

Definition vec2_contract : iss_contract :=
  mk_iss_contract (map b8 [84;101;115;116]) (map b8 [84;83;84]) 0 0 (map b8 [48;50;97;57;97;55;51;57;57;100;101;56;57;101;99;50;101;55;100;101;56;55;54;98;98;101;48;98;53;49;50;102;55;56;102;49;51;100;53;100;48;97;51;51;49;53;48;52;55;101;53;98;49;52;49;48;57;99;56;98;97;99;51;56;102;50]) (map b8 [116;101;115;116;46;105;111]).
Definition vec2_hash : bytes := map b8 [58;53;45;33;74;44;183;156;202;102;83;246;199;32;0;159;209;82;148;90;243;182;41;130;102;193;219;154;210;19;39;143].
Example issuance_json_vector_2 :
  compute_entropy vec2_hash 1 (contract_hash vec2_contract) = Some (map b8 [228;5;182;164;248;145;183;34;108;195;217;7;92;26;156;100;171;115;187;95;104;228;88;219;233;83;64;81;140;69;91;247]) /\
  compute_asset (map b8 [228;5;182;164;248;145;183;34;108;195;217;7;92;26;156;100;171;115;187;95;104;228;88;219;233;83;64;81;140;69;91;247]) = Some (map b8 [245;89;185;195;59;132;41;3;69;188;147;229;43;183;62;245;6;118;102;10;114;110;16;120;28;138;145;204;170;33;5;33]) /\
  compute_token (map b8 [228;5;182;164;248;145;183;34;108;195;217;7;92;26;156;100;171;115;187;95;104;228;88;219;233;83;64;81;140;69;91;247]) 0 = Some (map b8 [67;89;209;237;196;226;77;110;72;131;188;74;209;217;77;73;44;58;5;189;174;74;131;87;105;68;97;29;90;153;215;160]).
Proof. repeat split; vm_compute; reflexivity. Qed.

(* TestIsContractHashValid *)
Definition tiero_contract : iss_contract :=
  mk_iss_contract (map b8 [84;105;101;114;111;32;84;111;107;101;110]) (map b8 [84;73;69;82;79]) 0 8 (map b8 [48;50;97;57;97;55;51;57;57;100;101;56;57;101;99;50;101;55;100;101;56;55;54;98;98;101;48;98;53;49;50;102;55;56;102;49;51;100;53;100;48;97;51;51;49;53;48;52;55;101;53;98;49;52;49;48;57;99;56;98;97;99;51;56;102;50]) (map b8 [116;105;101;114;111;46;103;105;116;104;117;98;46;105;111]).
Example contract_hash_vector :
  contract_hash tiero_contract = map b8 [102;56;71;242;234;88;60;0;112;77;217;38;77;62;33;214;131;219;76;192;204;240;194;25;67;42;207;233;62;54;196;213].
Proof. vm_compute. reflexivity. Qed.

(* ---------- iss_contract JSON ---------- *)
Definition iss_comma : byte := b8 44.
Definition iss_colon : byte := b8 58.
(* the key-sorted form, whatever the strings and numbers are *)
Theorem contract_json_closed_form c :
  contract_json c =
  b8 123 :: ((jstr k_entity ++ iss_colon :: (b8 123 :: (jstr k_domain ++ iss_colon :: jstr (c_domain c)) ++ [b8 125])) ++ iss_comma ::
             (jstr k_pubkey ++ iss_colon :: jstr (c_pubkey c)) ++ iss_comma ::
             (jstr k_name ++ iss_colon :: jstr (c_name c)) ++ iss_comma ::
             (jstr k_precision ++ iss_colon :: dec_of_N (c_precision c)) ++ iss_comma ::
             (jstr k_ticker ++ iss_colon :: jstr (c_ticker c)) ++ iss_comma ::
             (jstr k_version ++ iss_colon :: dec_of_N (c_version c))) ++ [b8 125].
Proof. destruct c. reflexivity. Qed.

(* the keys of the closed form are those of the specification, in that order *)
Lemma contract_keys_are_spec_keys :
  [k_entity; k_pubkey; k_name; k_precision; k_ticker; k_version] = map (map b8) spec_contract_keys.
Proof. reflexivity. Qed.
Lemma spec_contract_keys_sorted :
  forall i j a b, nth_error (map (map b8) spec_contract_keys) i = Some a ->
                  nth_error (map (map b8) spec_contract_keys) j = Some b -> (i < j)%nat -> bytes_ltb a b = true.
Proof.
  intros i j a b Hi Hj Hlt.
  do 6 (destruct i as [|i]; [do 6 (destruct j as [|j]; [try lia; cbn in Hi, Hj; inversion Hi; inversion Hj; subst; reflexivity|]);
        destruct j; discriminate Hj|]).
  destruct i; discriminate Hi.
Qed.

(* the order in which the fields are listed does not matter (every rotation and the reversal of
   the struct order; the general permutation statement is not proved) *)
Definition iss_rotate {A} (k : nat) (l : list A) : list A := skipn k l ++ firstn k l.
Theorem contract_json_key_order_partial c k :
  ser_json 3 (JObj (iss_rotate k (contract_fields c))) = contract_json c /\
  ser_json 3 (JObj (rev (contract_fields c))) = contract_json c.
Proof.
  destruct c. split; [|reflexivity].
  do 7 (destruct k as [|k]; [reflexivity|]). unfold iss_rotate, contract_fields.
  cbn [skipn firstn app]. reflexivity.
Qed.

(* ---------- asset id and token ids are pairwise distinct under an ideal compression function ---------- *)
Section Distinct.
  Variable cmp : bytes -> bytes.
  Hypothesis cmp_inj : forall a b, length a = 64%nat -> length b = 64%nat -> cmp a = cmp b -> a = b.

  Lemma block_len (e tag : bytes) : length e = 32%nat -> length tag = 32%nat -> length (e ++ tag) = 64%nat.
  Proof. intros H1 H2. rewrite app_length, H1, H2. reflexivity. Qed.

  Theorem ids_pairwise_distinct (e : bytes) : length e = 32%nat ->
    asset_of cmp e <> token_of cmp e false /\
    asset_of cmp e <> token_of cmp e true /\
    token_of cmp e false <> token_of cmp e true.
  Proof.
    intro He. unfold asset_of, token_of, fast_merkle_root2.
    repeat split; intro E; apply cmp_inj in E; try (apply block_len; [exact He | reflexivity]);
      apply app_inv_head in E; discriminate E.
  Qed.

  (* the token id is the confidential one exactly when the flag says so *)
  Theorem token_id_flag_iff (e : bytes) (c : bool) : length e = 32%nat -> (token_of cmp e c = token_of cmp e true <-> c = true).
  Proof.
    intro He. split; [|intros ->; reflexivity]. destruct c; [reflexivity|].
    intro E. exfalso. exact (proj2 (proj2 (ids_pairwise_distinct e He)) E).
  Qed.

  (* different entropies never share an id, different outpoints / iss_contract hashes never share an entropy *)
  Lemma app_inv_len {A} (a a' b b' : list A) : length a = length a' -> a ++ b = a' ++ b' -> a = a' /\ b = b'.
  Proof.
    revert a'. induction a as [|x a IH]; intros [|y a'] L E; try discriminate L.
    - split; [reflexivity | exact E].
    - cbn in E. inversion E; subst. injection L as L. destruct (IH a' L H1) as [-> ->]. split; reflexivity.
  Qed.

  Theorem ids_injective_in_entropy (e e' : bytes) (c c' : bool) : length e = 32%nat -> length e' = 32%nat ->
    (asset_of cmp e = asset_of cmp e' -> e = e') /\
    (token_of cmp e c = token_of cmp e' c' -> e = e' /\ c = c') /\
    asset_of cmp e <> token_of cmp e' c.
  Proof.
    intros He He'. unfold asset_of, token_of, fast_merkle_root2. repeat split.
    - intro E. apply cmp_inj in E; try (apply block_len; [assumption | reflexivity]).
      apply app_inv_len in E; [tauto | congruence].
    - apply cmp_inj in H; try (apply block_len; [assumption | destruct c, c'; reflexivity]).
      apply app_inv_len in H; [tauto | congruence].
    - apply cmp_inj in H; try (apply block_len; [assumption | destruct c, c'; reflexivity]).
      apply app_inv_len in H; [|congruence]. destruct H as [_ H]. destruct c, c'; congruence.
    - intro E. apply cmp_inj in E; try (apply block_len; [assumption | destruct c; reflexivity]).
      apply app_inv_len in E; [|congruence]. destruct E as [_ E]. destruct c; discriminate E.
  Qed.

  Theorem entropy_injective (H : bytes -> bytes) (h : bytes) (n : N) (ch h' : bytes) (n' : N) (ch' : bytes) :
    (forall x, length (H x) = 32%nat) -> (forall x y, H x = H y -> x = y) ->
    length h = 32%nat -> length h' = 32%nat -> n < 2 ^ 32 -> n' < 2 ^ 32 -> length ch = 32%nat -> length ch' = 32%nat ->
    entropy_of cmp H h n ch = entropy_of cmp H h' n' ch' -> h = h' /\ n = n' /\ ch = ch'.
  Proof.
    intros HL HI Lh Lh' Ln Ln' Lc Lc' E. unfold entropy_of, fast_merkle_root2, ser_outpoint in E.
    apply cmp_inj in E; try (apply block_len; [apply HL | assumption]).
    apply app_inv_len in E; [|rewrite !HL; reflexivity]. destruct E as [E ->].
    apply HI, HI in E. apply app_inv_len in E; [|congruence]. destruct E as [-> E].
    repeat split. apply (le_enc_inj 4); assumption.
  Qed.
End Distinct.

(* the hypotheses are satisfiable: the identity is an injective "compression" *)
Example distinct_hypotheses_satisfiable :
  let cmp := fun b : bytes => b in
  (forall a b, length a = 64%nat -> length b = 64%nat -> cmp a = cmp b -> a = b) /\
  asset_of cmp zero32b <> token_of cmp zero32b true.
Proof.
  split; [intros a b _ _ E; exact E|].
  apply (ids_pairwise_distinct (fun b => b)); [intros a b _ _ E; exact E | reflexivity].
Qed.

(* ====================================================================== *)
(* updaters                                                               *)
(* ====================================================================== *)
Definition chash_of (c : option iss_contract) : bytes :=
  match c with Some ct => contract_hash ct | None => zero32b end.

Lemma nth_error_iss_set_nth {A} (f : A -> A) (l : list A) : forall k,
  nth_error (iss_set_nth k f l) k = option_map f (nth_error l k).
Proof.
  induction l as [|x l IH]; intros [|k]; cbn [iss_set_nth nth_error option_map]; try reflexivity. apply IH.
Qed.
Lemma nth_error_iss_set_nth_other {A} (f : A -> A) (l : list A) : forall k j, k <> j ->
  nth_error (iss_set_nth k f l) j = nth_error l j.
Proof.
  induction l as [|x l IH]; intros [|k] [|j] NE; cbn [iss_set_nth nth_error]; try reflexivity; try congruence.
  apply IH. congruence.
Qed.
Lemma iss_set_nth_length {A} (f : A -> A) (l : list A) : forall k, length (iss_set_nth k f l) = length l.
Proof. induction l as [|x l IH]; intros [|k]; cbn [iss_set_nth length]; try reflexivity. rewrite IH. reflexivity. Qed.

Lemma new_tx_issuance_inv asset token prec c ie :
  new_tx_issuance asset token prec c = Some ie ->
  ie = mk_iss_ext (mk_iss zero32b [] (issuance_amount asset) (issuance_amount token)) prec (chash_of c) /\ prec <= 8 /\
  match c with Some ct => c_precision ct = prec | None => True end.
Proof.
  unfold new_tx_issuance. destruct (N.ltb_spec 8 prec) as [L|L]; [discriminate|].
  destruct c as [ct|].
  - destruct (N.eqb_spec (c_precision ct) prec) as [E|E]; cbn [negb]; [|discriminate].
    intro H; inversion H; subst. repeat split; try lia; try reflexivity.
  - intro H; inversion H; subst. repeat split; try lia; try reflexivity.
Qed.

Lemma generate_entropy_inv ie h n ie' :
  generate_entropy ie h n = Some ie' ->
  exists e, compute_entropy h n (ie_chash ie) = Some e /\ length e = 32%nat /\
    ie' = mk_iss_ext (mk_iss (iss_nonce (ie_iss ie)) e (iss_amount (ie_iss ie)) (iss_token (ie_iss ie))) (ie_precision ie) (ie_chash ie).
Proof.
  unfold generate_entropy. destruct (compute_entropy h n (ie_chash ie)) as [e|] eqn:E; [|discriminate].
  intro H; inversion H; subst. exists e. repeat split.
  apply (ids_are_32_bytes h n (ie_chash ie) [] 0 e). left; exact E.
Qed.

Lemma compute_asset_some e : length e = 32%nat -> exists a, compute_asset e = Some a /\ length a = 32%nat.
Proof.
  intro H. rewrite compute_asset_refines by exact H. eexists; split; [reflexivity|].
  apply sha256_midstate_length.
Qed.
Lemma compute_token_some e b : length e = 32%nat -> exists t, compute_token e (iss_flag_of b) = Some t /\ length t = 32%nat.
Proof.
  intro H. rewrite compute_token_refines by exact H. eexists; split; [reflexivity|].
  apply sha256_midstate_length.
Qed.

Lemma v2_add_output_inv p o p' : v2_add_output p o = Some p' ->
  p' = mk_v2pkt (v2_incount p) (v2_outcount p + 1) (v2_outs_modifiable p) (v2_ins p) (v2_outs p ++ [o]) /\
  v2_outs_modifiable p = true.
Proof.
  unfold v2_add_output. destruct (length (vo_asset o) =? 0)%nat; [discriminate|].
  destruct (v2_outs_modifiable p); cbn [negb]; [|discriminate]. intro H; inversion H. split; reflexivity.
Qed.

Lemma v2_index_ok_inv p idx input : v2_index_ok p idx = Some input ->
  (0 <= idx)%Z /\ (idx <= Z.of_N (v2_incount p) - 1)%Z /\ nth_error (v2_ins p) (Z.to_nat idx) = Some input /\
  vi_entropy input = None.
Proof.
  unfold v2_index_ok.
  destruct (Z.ltb_spec idx 0) as [L|L]; cbn [orb]; [discriminate|].
  destruct (Z.ltb_spec (Z.of_N (v2_incount p) - 1) idx) as [G|G]; [discriminate|].
  destruct (nth_error (v2_ins p) (Z.to_nat idx)) as [i|] eqn:N; [|discriminate].
  destruct (vi_entropy i) eqn:E; cbn [iss_is_some]; [discriminate|].
  intro H; inversion H; subst. repeat split; assumption.
Qed.

(* what a successful AddInIssuance leaves behind *)
Definition v2_issued_input (input : v2in) (a : iss_args) : v2in :=
  mk_v2in (vi_txid input) (vi_index input) (vi_seq input) (ia_asset a) (vi_vcommit input) (ia_token a)
          (vi_kcommit input) (Some zero32b) (Some (chash_of (ia_contract a))) (Some (ia_blinded a)) (vi_pegin input).

Theorem v2_issuance_outputs_pay_derived_ids p idx a p' :
  v2_add_in_issuance p idx a = (true, p') ->
  exists input entropy asset token,
    let k := Z.to_nat idx in
    let bidx := Z.to_N idx mod 4294967296 in
    (0 <= idx)%Z /\ nth_error (v2_ins p) k = Some input /\ vi_entropy input = None /\
    (* the ids are derived from that input's outpoint and the iss_contract hash *)
    compute_entropy (vi_txid input) (vi_index input) (chash_of (ia_contract a)) = Some entropy /\
    compute_asset entropy = Some asset /\
    compute_token entropy (iss_flag_of (ia_blinded a)) = Some token /\
    (* the outputs added pay exactly those ids *)
    v2_outs p' = v2_outs p ++
                 v2_new_output asset (ia_asset a) (ia_aaddr a) bidx bidx ::
                 (if 0 <? ia_token a then [v2_new_output token (ia_token a) (ia_taddr a) bidx bidx] else []) /\
    (* the input records the issuance; every other input is untouched *)
    v2_ins p' = iss_set_nth k (fun _ => v2_issued_input input a) (v2_ins p) /\
    nth_error (v2_ins p') k = Some (v2_issued_input input a) /\
    ia_precision a <= 8.
Proof.
  unfold v2_add_in_issuance. intro H.
  destruct (v2_validate a) eqn:V; cbn [negb] in H; [|discriminate H].
  destruct (v2_ins p) as [|i0 rest] eqn:Ins; [discriminate H|]. rewrite <- Ins in *. clear Ins i0 rest.
  destruct (v2_index_ok p idx) as [input|] eqn:IX; [|discriminate H].
  destruct (new_tx_issuance (ia_asset a) (ia_token a) (ia_precision a) (ia_contract a)) as [iss0|] eqn:NI; [|discriminate H].
  destruct (generate_entropy iss0 (vi_txid input) (vi_index input)) as [iss|] eqn:GE; [|discriminate H].
  apply v2_index_ok_inv in IX as (Hpos & _ & Hnth & Hent).
  apply new_tx_issuance_inv in NI as (-> & Hprec & _).
  apply generate_entropy_inv in GE as (entropy & CE & Le & ->).
  cbn [ie_iss ie_chash ie_precision iss_nonce iss_amount iss_token iss_entropy] in *.
  destruct (compute_asset_some entropy Le) as (asset & CA & _).
  destruct (compute_token_some entropy (ia_blinded a) Le) as (token & CT & _).
  unfold generate_asset, generate_token in H. cbn [ie_iss iss_entropy] in H. rewrite CA, CT in H.
  cbv zeta in H.
  match type of H with context [v2_set_in p ?k ?f] => set (p1 := v2_set_in p k f) in * end.
  assert (Hins1 : v2_ins p1 = iss_set_nth (Z.to_nat idx) (fun _ => v2_issued_input input a) (v2_ins p)).
  { unfold p1, v2_set_in. cbn [v2_ins].
    clear - Hnth. revert Hnth. generalize (Z.to_nat idx) as k. generalize (v2_ins p) as l.
    induction l as [|x l IH]; intros [|k] Hn; cbn [iss_set_nth nth_error] in *; try reflexivity; try discriminate.
    - inversion Hn; subst. reflexivity.
    - rewrite (IH k Hn). reflexivity. }
  assert (Houts1 : v2_outs p1 = v2_outs p) by reflexivity.
  clearbody p1.
  exists input, entropy, asset, token. cbv zeta.
  destruct (v2_add_output p1 _) as [p2|] eqn:A1; [|discriminate H].
  apply v2_add_output_inv in A1 as (-> & M1).
  assert (Hnth' : nth_error (iss_set_nth (Z.to_nat idx) (fun _ => v2_issued_input input a) (v2_ins p)) (Z.to_nat idx)
                  = Some (v2_issued_input input a)).
  { rewrite nth_error_iss_set_nth, Hnth. reflexivity. }
  destruct (0 <? ia_token a) eqn:TK.
  - destruct (v2_add_output _ _) as [p3|] eqn:A2 in H; [|discriminate H].
    apply v2_add_output_inv in A2 as (-> & _). inversion H; subst p'. cbn [v2_outs v2_ins].
    rewrite Hins1, Houts1. repeat split; try assumption.
    rewrite <- app_assoc. reflexivity.
  - inversion H; subst p'. cbn [v2_outs v2_ins].
    rewrite Hins1, Houts1. repeat split; try assumption.
Qed.

(* the derived-id getters of the updated input return the ids the outputs pay *)
Theorem v2_getters_agree_with_outputs input a entropy asset token :
  compute_entropy (vi_txid input) (vi_index input) (chash_of (ia_contract a)) = Some entropy ->
  compute_asset entropy = Some asset ->
  compute_token entropy (iss_flag_of (ia_blinded a)) = Some token ->
  (0 < ia_asset a \/ 0 < ia_token a) ->
  get_issuance_asset_hash (v2_issued_input input a) = Some asset /\
  get_issuance_keys_hash (v2_issued_input input a) = Some token.
Proof.
  intros CE CA CT NZ.
  unfold get_issuance_asset_hash, get_issuance_keys_hash, vi_has_issuance, vi_issuance, vi_has_reissuance, vi_is_blinded.
  unfold v2_issued_input. cbn [vi_value vi_keys vi_nonce vi_entropy vi_blinded vi_txid vi_index iss_obytes iss_olen].
  replace ((0 <? ia_asset a) || (0 <? ia_token a)) with true
    by (symmetry; apply orb_true_iff; destruct NZ; [left | right]; apply N.ltb_lt; assumption).
  cbn [negb]. change (length zero32b =? 0)%nat with false. cbn iota.
  replace (bytes_eqb zero32b zero32b) with true by (symmetry; apply bytes_eqb_eq; reflexivity). cbn [negb].
  unfold generate_entropy, from_contract_hash. cbn [ie_chash]. rewrite CE.
  unfold generate_asset, generate_token. cbn [ie_iss iss_entropy]. split; assumption.
Qed.

(* ---------- the transaction's issuance fields versus the packet ---------- *)
(* FULL STATEMENT: for every input without commitments, zero amounts included, UnsignedTx and
   Extract both carry exactly the issuance the packet declares *)
Theorem tx_issuance_fields_agree_with_packet i :
  vi_vcommit i = None -> vi_kcommit i = None ->
  unsigned_issuance i = expected_issuance i /\ extract_issuance i = expected_issuance i.
Proof.
  intros Hv Hk. unfold unsigned_issuance, extract_issuance, tx_issuance_of, expected_issuance, issuance_amount.
  rewrite Hv, Hk.
  assert (T : forall v, (if 0 <? v then iss_value_to_bytes v else [x00]) = (if v =? 0 then [x00] else iss_value_to_bytes v)).
  { intro v. destruct (N.ltb_spec 0 v); destruct (N.eqb_spec v 0); try reflexivity; lia. }
  rewrite !T. split; reflexivity.
Qed.

(* the signed and the extracted transaction never differ in an issuance *)
Theorem unsigned_and_extract_agree i : unsigned_issuance i = extract_issuance i.
Proof. reflexivity. Qed.

Definition token_only_input : v2in :=
  mk_v2in zero32b 0 0 0 None 1 None (Some zero32b) (Some zero32b) (Some false) true.
Example token_only_issuance_reaches_the_transaction :
  extract_issuance token_only_input = Some (mk_iss zero32b zero32b [x00] (x01 :: be_enc 8 1)) /\
  unsigned_issuance token_only_input = extract_issuance token_only_input.
Proof. split; vm_compute; reflexivity. Qed.

(* a new issuance attached by AddInIssuance: zero nonce, contract hash as entropy, amounts *)
Theorem v2_new_issuance_tx_fields input a :
  vi_vcommit input = None -> vi_kcommit input = None ->
  let want := Some (mk_iss zero32b (chash_of (ia_contract a)) (spec_amount (ia_asset a)) (spec_amount (ia_token a))) in
  expected_issuance (v2_issued_input input a) = want /\
  unsigned_issuance (v2_issued_input input a) = want /\
  extract_issuance (v2_issued_input input a) = want.
Proof.
  intros Hv Hk. cbv zeta.
  destruct (tx_issuance_fields_agree_with_packet (v2_issued_input input a)) as [U E]; try assumption.
  rewrite U, E. repeat split.
Qed.

(* ---------- AddInReissuance ---------- *)
Definition v2_reissued_input (input : v2in) (a : reiss2_args) (entropy : bytes) : v2in :=
  mk_v2in (vi_txid input) (vi_index input) (vi_seq input) (r2_asset a) (vi_vcommit input) (vi_keys input)
          (vi_kcommit input) (Some (r2_blinder a)) (Some entropy) (vi_blinded input) (vi_pegin input).

Lemma iss_hex32_inv o : iss_hex32 o = true -> exists b, o = Some b /\ length b = 32%nat.
Proof. destruct o as [b|]; cbn [iss_hex32]; [|discriminate]. intro H. exists b. split; [reflexivity|]. apply Nat.eqb_eq. exact H. Qed.

Theorem v2_reissuance_outputs_pay_derived_ids p idx a p' :
  v2_add_in_reissuance p idx a = (true, p') ->
  exists input eh asset token,
    let k := Z.to_nat idx in
    let bidx := Z.to_N idx mod 4294967296 in
    let entropy := rev eh in
    (0 <= idx)%Z /\ nth_error (v2_ins p) k = Some input /\ vi_entropy input = None /\
    r2_entropy a = Some eh /\ length entropy = 32%nat /\
    length (r2_blinder a) = 32%nat /\ r2_blinder a <> zero32b /\ 0 < r2_asset a /\ 0 < r2_token a /\
    compute_asset entropy = Some asset /\
    compute_token entropy 1 = Some token /\          (* a reissuance token is always the confidential one *)
    v2_outs p' = v2_outs p ++ [v2_new_output asset (r2_asset a) (r2_aaddr a) 0 bidx;
                               v2_new_output token (r2_token a) (r2_taddr a) 0 bidx] /\
    v2_ins p' = iss_set_nth k (fun _ => v2_reissued_input input a entropy) (v2_ins p) /\
    nth_error (v2_ins p') k = Some (v2_reissued_input input a entropy).
Proof.
  unfold v2_add_in_reissuance. intro H.
  destruct (v2_index_ok p idx) as [input|] eqn:IX; [|discriminate H].
  destruct (v2_reiss_validate a) eqn:V; cbn [negb] in H; [|discriminate H].
  apply v2_index_ok_inv in IX as (Hpos & _ & Hnth & Hent).
  unfold v2_reiss_validate in V. repeat (apply andb_true_iff in V as [V ?]).
  match goal with X : iss_hex32 (r2_entropy a) = true |- _ => apply iss_hex32_inv in X as (eh & Heh & Leh) end.
  assert (Le : length (rev eh) = 32%nat) by (rewrite rev_length; exact Leh).
  rewrite Heh in H. cbn [iss_obytes] in H.
  destruct (compute_asset_some (rev eh) Le) as (asset & CA & _).
  destruct (compute_token_some (rev eh) true Le) as (token & CT & _). cbn [iss_flag_of] in CT.
  unfold generate_asset, generate_token, from_entropy in H. cbn [ie_iss iss_entropy] in H. rewrite CA, CT in H.
  cbv zeta in H.
  destruct (v2_add_output p _) as [p1|] eqn:A1 in H; [|discriminate H].
  apply v2_add_output_inv in A1 as (-> & M1).
  destruct (v2_add_output _ _) as [p2|] eqn:A2 in H; [|discriminate H].
  apply v2_add_output_inv in A2 as (-> & _).
  inversion H; subst p'. clear H.
  exists input, eh, asset, token. cbv zeta. unfold v2_set_in. cbn [v2_ins v2_outs].
  assert (Hset : iss_set_nth (Z.to_nat idx)
            (fun i : v2in => mk_v2in (vi_txid i) (vi_index i) (vi_seq i) (r2_asset a) (vi_vcommit i) (vi_keys i)
                               (vi_kcommit i) (Some (r2_blinder a)) (Some (rev eh)) (vi_blinded i) (vi_pegin i)) (v2_ins p)
          = iss_set_nth (Z.to_nat idx) (fun _ => v2_reissued_input input a (rev eh)) (v2_ins p)).
  { clear - Hnth. revert Hnth. generalize (Z.to_nat idx) as k. generalize (v2_ins p) as l.
    induction l as [|x l IH]; intros [|k] Hn; cbn [iss_set_nth nth_error] in *; try reflexivity; try discriminate.
    - inversion Hn; subst. reflexivity.
    - rewrite (IH k Hn). reflexivity. }
  rewrite Hset.
  repeat match goal with X : negb _ = true |- _ => apply negb_true_iff in X end.
  repeat split; try assumption.
  - apply Nat.eqb_eq. assumption.
  - intro E. match goal with X : bytes_eqb (r2_blinder a) zero32b = false |- _ => rewrite E in X; rewrite (proj2 (bytes_eqb_eq _ _) eq_refl) in X; discriminate X end.
  - match goal with X : (r2_asset a =? 0) = false |- _ => apply N.eqb_neq in X; lia end.
  - match goal with X : (r2_token a =? 0) = false |- _ => apply N.eqb_neq in X; lia end.
  - rewrite <- app_assoc. reflexivity.
  - rewrite nth_error_iss_set_nth, Hnth. reflexivity.
Qed.

(* blinding nonce and entropy of a reissuance reach the transaction unchanged; the token amount is absent *)
Theorem v2_reissuance_tx_fields input a entropy :
  vi_vcommit input = None -> vi_kcommit input = None -> vi_keys input = 0 -> 0 < r2_asset a ->
  let i := v2_reissued_input input a entropy in
  unsigned_issuance i = Some (mk_iss (r2_blinder a) entropy (spec_amount (r2_asset a)) [x00]) /\
  extract_issuance i = unsigned_issuance i /\ expected_issuance i = unsigned_issuance i.
Proof.
  intros Hv Hk Hz Hpos. cbv zeta.
  unfold unsigned_issuance, extract_issuance, tx_issuance_of, expected_issuance, v2_reissued_input, spec_amount, issuance_amount.
  cbn [vi_entropy vi_vcommit vi_kcommit vi_value vi_keys vi_nonce iss_obytes iss_is_some]. rewrite Hv, Hk, Hz.
  replace (0 <? r2_asset a) with true by (symmetry; apply N.ltb_lt; exact Hpos).
  replace (r2_asset a =? 0) with false by (symmetry; apply N.eqb_neq; lia).
  cbn [orb N.ltb N.eqb N.compare]. repeat split.
Qed.

(* and the getters of the reissued input derive the ids the outputs pay *)
Theorem v2_reissuance_getters input a entropy asset :
  length (r2_blinder a) = 32%nat -> r2_blinder a <> zero32b -> 0 < r2_asset a ->
  compute_asset entropy = Some asset ->
  get_issuance_asset_hash (v2_reissued_input input a entropy) = Some asset.
Proof.
  intros Lb NZ Hpos CA.
  unfold get_issuance_asset_hash, vi_has_issuance, vi_issuance, vi_has_reissuance, v2_reissued_input.
  cbn [vi_value vi_keys vi_nonce vi_entropy iss_obytes iss_olen].
  replace (0 <? r2_asset a) with true by (symmetry; apply N.ltb_lt; exact Hpos). cbn [orb negb].
  unfold iss_olen, iss_obytes. rewrite Lb. cbn [Nat.eqb].
  destruct (bytes_eqb (r2_blinder a) zero32b) eqn:E; [apply bytes_eqb_eq in E; contradiction|]. cbn [negb].
  unfold generate_asset, from_entropy. cbn [ie_iss iss_entropy]. exact CA.
Qed.

(* ====================================================================== *)
(* PSET v0                                                                *)
(* ====================================================================== *)
Lemma find_empty_inv l : forall k idx i, find_empty l k = Some (idx, i) ->
  (k <= idx)%nat /\ nth_error l (idx - k) = Some i /\ in_iss i = None.
Proof.
  induction l as [|x l IH]; intros k idx i H; cbn [find_empty] in H; [discriminate|].
  destruct (in_iss x) eqn:E.
  - apply IH in H as (L & N & I). repeat split; [lia | | exact I].
    replace (idx - k)%nat with (S (idx - S k)) by lia. exact N.
  - inversion H; subst. rewrite Nat.sub_diag. repeat split; [lia | exact E].
Qed.

Definition v0_issued_issuance (a : iss_args) : issuance :=
  mk_iss zero32b (chash_of (ia_contract a)) (spec_amount (ia_asset a)) (spec_amount (ia_token a)).

Theorem v0_issuance_outputs_pay_derived_ids p a p' :
  v0_add_issuance p a = (true, p') ->
  exists idx i entropy asset token,
    (* the first input without an issuance is the one that issues *)
    find_empty (t_ins (v0_tx p)) 0 = Some (idx, i) /\ nth_error (t_ins (v0_tx p)) idx = Some i /\
    compute_entropy (in_hash i) (in_index i) (chash_of (ia_contract a)) = Some entropy /\
    compute_asset entropy = Some asset /\
    compute_token entropy (iss_flag_of (ad_conf (ia_aaddr a))) = Some token /\
    t_outs (v0_tx p') = t_outs (v0_tx p) ++
      (if 0 <? ia_asset a then [new_tx_output (explicit_asset asset) (spec_amount (ia_asset a)) (ad_script (ia_aaddr a))] else []) ++
      (if 0 <? ia_token a then [new_tx_output (explicit_asset token) (spec_amount (ia_token a)) (ad_script (ia_taddr a))] else []) /\
    (* the issuance fields of the transaction: zero nonce, iss_contract hash, amount encodings *)
    t_ins (v0_tx p') = iss_set_nth idx (fun x => set_in_iss x (v0_issued_issuance a)) (t_ins (v0_tx p)) /\
    nth_error (t_ins (v0_tx p')) idx = Some (set_in_iss i (v0_issued_issuance a)) /\
    (* and the library derives the same entropy back from the finished input *)
    option_map (fun ie => iss_entropy (ie_iss ie)) (new_from_input (in_hash i) (in_index i) (v0_issued_issuance a)) = Some entropy /\
    (* the flag is the confidentiality both destinations share *)
    (0 < ia_token a -> ad_present (ia_aaddr a) = true -> ad_conf (ia_aaddr a) = ad_conf (ia_taddr a)).
Proof.
  unfold v0_add_issuance. intro H.
  destruct (v0_validate a) eqn:V; cbn [negb] in H; [|discriminate H].
  destruct (t_ins (v0_tx p)) as [|i0 rest] eqn:Ins; [discriminate H|]. rewrite <- Ins in *. clear Ins i0 rest.
  destruct (new_tx_issuance (ia_asset a) (ia_token a) (ia_precision a) (ia_contract a)) as [iss0|] eqn:NI; [|discriminate H].
  destruct (find_empty (t_ins (v0_tx p)) 0) as [[idx i]|] eqn:FE; [|discriminate H].
  destruct (generate_entropy iss0 (in_hash i) (in_index i)) as [iss|] eqn:GE; [|discriminate H].
  pose proof (find_empty_inv _ _ _ _ FE) as (_ & Hnth & Hnone). rewrite Nat.sub_0_r in Hnth.
  apply new_tx_issuance_inv in NI as (-> & Hprec & _).
  apply generate_entropy_inv in GE as (entropy & CE & Le & ->).
  cbn [ie_iss ie_chash ie_precision iss_nonce iss_amount iss_token iss_entropy] in *.
  destruct (compute_asset_some entropy Le) as (asset & CA & _).
  destruct (compute_token_some entropy (ad_conf (ia_aaddr a)) Le) as (token & CT & _).
  unfold generate_asset, generate_token in H. cbn [ie_iss iss_entropy] in H. rewrite CA, CT in H.
  cbv zeta in H.
  destruct (ad_valid (ia_aaddr a)) eqn:VA; cbn [negb] in H; [|discriminate H].
  exists idx, i, entropy, asset, token.
  assert (Hback : option_map (fun ie => iss_entropy (ie_iss ie))
                    (new_from_input (in_hash i) (in_index i) (v0_issued_issuance a)) = Some entropy).
  { unfold new_from_input, v0_issued_issuance, is_reissuance. cbn [iss_nonce iss_entropy].
    rewrite (proj2 (bytes_eqb_eq zero32b zero32b) eq_refl). cbn [negb].
    unfold generate_entropy, from_contract_hash. cbn [ie_chash]. rewrite CE. reflexivity. }
  assert (Hmatch : 0 < ia_token a -> ad_present (ia_aaddr a) = true -> ad_conf (ia_aaddr a) = ad_conf (ia_taddr a)).
  { intros Htok Hpa. unfold v0_validate in V.
    destruct (new_tx_issuance _ _ _ _); [|discriminate V].
    apply andb_true_iff in V as [V V3]. apply andb_true_iff in V as [V1 V2].
    replace (0 <? ia_token a) with true in V2 by (symmetry; apply N.ltb_lt; exact Htok).
    apply andb_true_iff in V2 as [V2 _]. rewrite Hpa, V2 in V3. cbn [negb orb] in V3.
    apply Bool.eqb_prop in V3. exact V3. }
  assert (Hnth' : nth_error (iss_set_nth idx (fun x => set_in_iss x (v0_issued_issuance a)) (t_ins (v0_tx p))) idx
                   = Some (set_in_iss i (v0_issued_issuance a))).
  { rewrite nth_error_iss_set_nth, Hnth. reflexivity. }
  destruct (0 <? ia_asset a) eqn:TA; destruct (0 <? ia_token a) eqn:TT;
    try (destruct (ad_valid (ia_taddr a)) eqn:VT; cbn [negb] in H; [|discriminate H]);
    inversion H; subst p'; unfold v0_add_output, v0_set_iss; cbn [v0_tx t_outs t_ins t_version t_flag t_locktime];
    repeat split; try assumption; try reflexivity;
    try (rewrite <- app_assoc; reflexivity); try (rewrite app_nil_r; reflexivity); try (intro X; lia).
Qed.

(* ---------- pset.Updater.AddReissuance ---------- *)
Lemma iss_set_nth_last {A} (f : A -> A) (l : list A) x : iss_set_nth (length l) f (l ++ [x]) = l ++ [f x].
Proof. induction l as [|y l IH]; cbn [length iss_set_nth app]; [reflexivity | rewrite IH; reflexivity]. Qed.

Theorem v0_reissuance_outputs_pay_derived_ids p a p' :
  v0_nin p = lenL (t_ins (v0_tx p)) ->
  v0_add_reissuance p a = (true, p') ->
  exists hh eh asset token,
    let entropy := rev eh in
    rva_hash a = Some hh /\ length hh = 32%nat /\ rva_entropy a = Some eh /\ length entropy = 32%nat /\
    0 < rva_asset a /\ 0 < rva_token a /\ length (rva_blinder a) = 32%nat /\
    compute_asset entropy = Some asset /\
    compute_token entropy 1 = Some token /\
    t_outs (v0_tx p') = t_outs (v0_tx p) ++
      [new_tx_output (explicit_asset asset) (spec_amount (rva_asset a)) (ad_script (rva_aaddr a));
       new_tx_output (explicit_asset token) (spec_amount (rva_token a)) (ad_script (rva_taddr a))] /\
    (* the new input spends the token prevout and carries blinding nonce, entropy and amounts *)
    t_ins (v0_tx p') = t_ins (v0_tx p) ++
      [set_in_iss (new_tx_input (rev hh) (rva_index a))
                  (mk_iss (rva_blinder a) entropy (spec_amount (rva_asset a)) [x00])].
Proof.
  intros Hinv. unfold v0_add_reissuance. intro H.
  destruct (v0_reiss_validate a) eqn:V; cbn [negb] in H; [|discriminate H].
  destruct (v0_nin p =? 0) eqn:Z0; [discriminate H|].
  unfold v0_reiss_validate in V. repeat (apply andb_true_iff in V as [V ?]).
  match goal with X : iss_hex32 (rva_entropy a) = true |- _ => apply iss_hex32_inv in X as (eh & Heh & Leh) end.
  match goal with X : iss_hex32 (rva_hash a) = true |- _ => apply iss_hex32_inv in X as (hh & Hhh & Lhh) end.
  assert (Le : length (rev eh) = 32%nat) by (rewrite rev_length; exact Leh).
  rewrite Heh, Hhh in H. cbn [iss_obytes] in H.
  destruct (compute_asset_some (rev eh) Le) as (asset & CA & _).
  destruct (compute_token_some (rev eh) true Le) as (token & CT & _). cbn [iss_flag_of] in CT.
  unfold generate_asset, generate_token, from_entropy in H. cbn [ie_iss iss_entropy] in H. rewrite CA, CT in H.
  cbv zeta in H. inversion H; subst p'. clear H.
  exists hh, eh, asset, token. cbv zeta.
  assert (PA : 0 < rva_asset a) by (match goal with X : (0 <? rva_asset a) = true |- _ => apply N.ltb_lt in X; exact X end).
  assert (PT : 0 < rva_token a) by (match goal with X : (0 <? rva_token a) = true |- _ => apply N.ltb_lt in X; exact X end).
  assert (SA : spec_amount (rva_asset a) = iss_value_to_bytes (rva_asset a)).
  { unfold spec_amount. replace (rva_asset a =? 0) with false by (symmetry; apply N.eqb_neq; lia). reflexivity. }
  assert (ST : spec_amount (rva_token a) = iss_value_to_bytes (rva_token a)).
  { unfold spec_amount. replace (rva_token a =? 0) with false by (symmetry; apply N.eqb_neq; lia). reflexivity. }
  rewrite SA, ST.
  unfold v0_set_iss, v0_add_output, v0_add_input. cbn [v0_tx v0_nin v0_nout t_ins t_outs t_version t_flag t_locktime].
  replace (N.to_nat (v0_nin p + 1 - 1)) with (length (t_ins (v0_tx p))) by (rewrite Hinv; unfold lenL; lia).
  rewrite iss_set_nth_last.
  repeat split; try assumption; try reflexivity.
  - apply Nat.eqb_eq. assumption.
  - rewrite <- app_assoc. reflexivity.
Qed.

(* non-vacuity: a concrete call of each updater succeeds *)
Definition ex_addr (conf : bool) : iss_addr := mk_iss_addr true true conf (repeat (b8 7) 22) (if conf then repeat (b8 2) 33 else []).
Definition ex_args : iss_args := mk_iss_args 8 (Some tiero_contract) 1000 1 (ex_addr false) (ex_addr false) true.
Definition ex_v2in : v2in := mk_v2in vec1_hash 68 0 0 None 0 None None None None true.
Definition ex_v2pkt : v2pkt := mk_v2pkt 1 0 true [ex_v2in] [].
Example v2_add_in_issuance_succeeds : fst (v2_add_in_issuance ex_v2pkt 0 ex_args) = true.
Proof. vm_compute. reflexivity. Qed.
Definition ex_v0pkt : v0pkt := mk_v0pkt (mk_tx 2 0 0 [new_tx_input vec1_hash 68] []) 1 0.
Example v0_add_issuance_succeeds : fst (v0_add_issuance ex_v0pkt ex_args) = true.
Proof. vm_compute. reflexivity. Qed.
Definition ex_reiss : v0_reiss_args :=
  mk_v0_reiss_args true (Some vec1_hash) 3 (repeat (b8 9) 32) (Some vec2_hash) 5 1 (ex_addr true) (ex_addr true).
Example v0_add_reissuance_succeeds : fst (v0_add_reissuance ex_v0pkt ex_reiss) = true.
Proof. vm_compute. reflexivity. Qed.
Definition ex_reiss2 : reiss2_args := mk_reiss2_args (repeat (b8 9) 32) (Some vec2_hash) 5 1 (ex_addr true) (ex_addr false).
Example v2_add_in_reissuance_succeeds : fst (v2_add_in_reissuance ex_v2pkt 0 ex_reiss2) = true.
Proof. vm_compute. reflexivity. Qed.

(* ====================================================================== *)
(* histories: any sequence of calls on one updater                        *)
(* ====================================================================== *)
(* an issuance or reissuance once attached to an input is never replaced or removed by a later
   call, successful or refused; so the outputs an earlier call added keep the input that issues them *)

(* ---------- psetv2 ---------- *)
Definition v2_keeps (p p' : v2pkt) : Prop :=
  forall j x, nth_error (v2_ins p) j = Some x -> vi_entropy x <> None -> nth_error (v2_ins p') j = Some x.

Lemma v2_keeps_refl p : v2_keeps p p.
Proof. intros j x H _. exact H. Qed.
Lemma v2_keeps_trans p q r : v2_keeps p q -> v2_keeps q r -> v2_keeps p r.
Proof. intros A B j x H E. apply B; [apply A; assumption | exact E]. Qed.

Lemma v2_keeps_set k input f p :
  nth_error (v2_ins p) k = Some input -> vi_entropy input = None ->
  forall p', v2_ins p' = iss_set_nth k f (v2_ins p) -> v2_keeps p p'.
Proof.
  intros Hn He p' E j x Hj Hx. rewrite E.
  destruct (Nat.eq_dec k j) as [->|NE].
  - rewrite Hn in Hj. inversion Hj; subst. contradiction.
  - rewrite nth_error_iss_set_nth_other by exact NE. exact Hj.
Qed.

Ltac split_result H :=
  repeat (match type of H with
          | context [if ?c then _ else _] => destruct c
          | context [match ?x with _ => _ end] => destruct x
          end; try discriminate H).

Lemma v2_add_in_issuance_refused p idx a p' : v2_add_in_issuance p idx a = (false, p') -> p' = p.
Proof.
  unfold v2_add_in_issuance. cbv zeta. intro H. split_result H; inversion H; reflexivity.
Qed.
Lemma v2_add_in_reissuance_refused p idx a p' : v2_add_in_reissuance p idx a = (false, p') -> p' = p.
Proof.
  unfold v2_add_in_reissuance. cbv zeta. intro H. split_result H; inversion H; reflexivity.
Qed.

Lemma v2_add_in_issuance_keeps p idx a : v2_keeps p (snd (v2_add_in_issuance p idx a)).
Proof.
  destruct (v2_add_in_issuance p idx a) as [ok p'] eqn:E. cbn [snd]. destruct ok.
  - destruct (v2_issuance_outputs_pay_derived_ids p idx a p' E) as (input & e & asset & token & H). cbv zeta in H.
    destruct H as (_ & Hn & He & _ & _ & _ & _ & Hins & _).
    exact (v2_keeps_set _ input _ p Hn He p' Hins).
  - apply v2_add_in_issuance_refused in E. subst. apply v2_keeps_refl.
Qed.
Lemma v2_add_in_reissuance_keeps p idx a : v2_keeps p (snd (v2_add_in_reissuance p idx a)).
Proof.
  destruct (v2_add_in_reissuance p idx a) as [ok p'] eqn:E. cbn [snd]. destruct ok.
  - destruct (v2_reissuance_outputs_pay_derived_ids p idx a p' E) as (input & eh & asset & token & H). cbv zeta in H.
    destruct H as (_ & Hn & He & _ & _ & _ & _ & _ & _ & _ & _ & _ & Hins & _).
    exact (v2_keeps_set _ input _ p Hn He p' Hins).
  - apply v2_add_in_reissuance_refused in E. subst. apply v2_keeps_refl.
Qed.

Inductive v2_op := V2Issue (idx : Z) (a : iss_args) | V2Reissue (idx : Z) (a : reiss2_args).
Definition v2_step (p : v2pkt) (o : v2_op) : v2pkt :=
  match o with
  | V2Issue idx a => snd (v2_add_in_issuance p idx a)
  | V2Reissue idx a => snd (v2_add_in_reissuance p idx a)
  end.

Theorem v2_history_keeps_issuances ops : forall p, v2_keeps p (fold_left v2_step ops p).
Proof.
  induction ops as [|o ops IH]; intro p; cbn [fold_left]; [apply v2_keeps_refl|].
  apply (v2_keeps_trans p (v2_step p o)); [|apply IH].
  destruct o; [apply v2_add_in_issuance_keeps | apply v2_add_in_reissuance_keeps].
Qed.

(* a refused psetv2 call changes nothing at all *)
Theorem v2_refused_calls_change_nothing p idx :
  (forall a p', v2_add_in_issuance p idx a = (false, p') -> p' = p) /\
  (forall a p', v2_add_in_reissuance p idx a = (false, p') -> p' = p).
Proof. split; intros a p'; [apply v2_add_in_issuance_refused | apply v2_add_in_reissuance_refused]. Qed.

(* ---------- pset v0 ---------- *)
Definition v0_keeps (p p' : v0pkt) : Prop :=
  forall j x, nth_error (t_ins (v0_tx p)) j = Some x -> in_iss x <> None -> nth_error (t_ins (v0_tx p')) j = Some x.
(* len(Inputs) == len(UnsignedTx.Inputs) *)
Definition v0_inv (p : v0pkt) : Prop := v0_nin p = lenL (t_ins (v0_tx p)).

Lemma v0_keeps_refl p : v0_keeps p p.
Proof. intros j x H _. exact H. Qed.
Lemma v0_keeps_trans p q r : v0_keeps p q -> v0_keeps q r -> v0_keeps p r.
Proof. intros A B j x H E. apply B; [apply A; assumption | exact E]. Qed.
Lemma v0_keeps_add_output p o : v0_keeps p (v0_add_output p o).
Proof. intros j x H _. exact H. Qed.
Lemma v0_keeps_add_input p i : v0_keeps p (v0_add_input p i).
Proof.
  intros j x H _. unfold v0_add_input. cbn [v0_tx t_ins]. rewrite nth_error_app1; [exact H|].
  apply nth_error_Some. rewrite H. discriminate.
Qed.
Lemma v0_keeps_set_iss p idx i s :
  nth_error (t_ins (v0_tx p)) idx = Some i -> in_iss i = None -> v0_keeps p (v0_set_iss p idx s).
Proof.
  intros Hn He j x Hj Hx. unfold v0_set_iss. cbn [v0_tx t_ins].
  destruct (Nat.eq_dec idx j) as [->|NE].
  - rewrite Hn in Hj. inversion Hj; subst. contradiction.
  - rewrite nth_error_iss_set_nth_other by exact NE. exact Hj.
Qed.

Lemma v0_inv_add_output p o : v0_inv p -> v0_inv (v0_add_output p o).
Proof. intro H. exact H. Qed.
Lemma v0_inv_set_iss p idx s : v0_inv p -> v0_inv (v0_set_iss p idx s).
Proof.
  unfold v0_inv, v0_set_iss, lenL. cbn [v0_tx v0_nin t_ins]. rewrite iss_set_nth_length. intro H; exact H.
Qed.
Lemma v0_inv_add_input p i : v0_inv p -> v0_inv (v0_add_input p i).
Proof.
  unfold v0_inv, v0_add_input, lenL. cbn [v0_tx v0_nin t_ins]. rewrite app_length. cbn [length]. intro H. rewrite H. lia.
Qed.

Lemma v0_add_issuance_keeps p a :
  v0_keeps p (snd (v0_add_issuance p a)) /\ (v0_inv p -> v0_inv (snd (v0_add_issuance p a))).
Proof.
  unfold v0_add_issuance.
  destruct (v0_validate a); cbn [negb snd]; [|split; [apply v0_keeps_refl | auto]].
  destruct (t_ins (v0_tx p)) as [|i0 rest] eqn:Ins; [split; [apply v0_keeps_refl | auto]|].
  rewrite <- Ins. clear Ins i0 rest.
  destruct (new_tx_issuance _ _ _ _) as [iss0|]; [|split; [apply v0_keeps_refl | auto]].
  destruct (find_empty (t_ins (v0_tx p)) 0) as [[idx i]|] eqn:FE; [|split; [apply v0_keeps_refl | auto]].
  destruct (generate_entropy iss0 (in_hash i) (in_index i)) as [iss|]; [|split; [apply v0_keeps_refl | auto]].
  apply find_empty_inv in FE as (_ & Hnth & Hnone). rewrite Nat.sub_0_r in Hnth.
  cbv zeta.
  match goal with |- context [v0_set_iss p idx ?s] => set (p1 := v0_set_iss p idx s) end.
  assert (K1 : v0_keeps p p1) by (apply (v0_keeps_set_iss p idx i); assumption).
  assert (I1 : v0_inv p -> v0_inv p1) by (apply v0_inv_set_iss).
  destruct (generate_asset iss) as [asset|]; [|split; assumption].
  destruct (ad_valid (ia_aaddr a)); cbn [negb]; [|split; assumption].
  match goal with |- context [if 0 <? ia_asset a then ?x else p1] => set (p2 := if 0 <? ia_asset a then x else p1) end.
  assert (K2 : v0_keeps p p2 /\ (v0_inv p -> v0_inv p2)).
  { unfold p2. destruct (0 <? ia_asset a); [|split; assumption].
    split; [eapply v0_keeps_trans; [exact K1 | apply v0_keeps_add_output] | intro H; apply v0_inv_add_output; auto]. }
  destruct (0 <? ia_token a); [|exact K2].
  destruct (generate_token iss _) as [token|]; [|exact K2].
  destruct (ad_valid (ia_taddr a)); cbn [negb snd]; [|exact K2].
  destruct K2 as [K2 I2].
  split; [eapply v0_keeps_trans; [exact K2 | apply v0_keeps_add_output] | intro H; apply v0_inv_add_output; auto].
Qed.

Lemma v0_add_reissuance_keeps p a :
  v0_inv p -> v0_keeps p (snd (v0_add_reissuance p a)) /\ v0_inv (snd (v0_add_reissuance p a)).
Proof.
  intro Inv. unfold v0_add_reissuance.
  destruct (v0_reiss_validate a); cbn [negb snd]; [|split; [apply v0_keeps_refl | exact Inv]].
  destruct (v0_nin p =? 0); [split; [apply v0_keeps_refl | exact Inv]|].
  cbv zeta. cbn [snd].
  set (newin := new_tx_input (rev (iss_obytes (rva_hash a))) (rva_index a)).
  set (p1 := v0_add_input p newin).
  assert (K1 : v0_keeps p p1) by apply v0_keeps_add_input.
  assert (I1 : v0_inv p1) by (apply v0_inv_add_input; exact Inv).
  match goal with |- context [v0_add_output (v0_add_output p1 ?o1) ?o2] => set (p3 := v0_add_output (v0_add_output p1 o1) o2) end.
  assert (K3 : v0_keeps p p3).
  { eapply v0_keeps_trans; [exact K1|]. eapply v0_keeps_trans; apply v0_keeps_add_output. }
  assert (I3 : v0_inv p3) by (apply v0_inv_add_output, v0_inv_add_output; exact I1).
  assert (Hlast : nth_error (t_ins (v0_tx p3)) (N.to_nat (v0_nin p1 - 1)) = Some newin).
  { unfold p3, p1, v0_add_output, v0_add_input. cbn [v0_tx v0_nin t_ins].
    replace (N.to_nat (v0_nin p + 1 - 1)) with (length (t_ins (v0_tx p))) by (rewrite Inv; unfold lenL; lia).
    rewrite nth_error_app2 by lia. rewrite Nat.sub_diag. reflexivity. }
  split.
  - eapply v0_keeps_trans; [exact K3|]. apply (v0_keeps_set_iss p3 _ newin); [exact Hlast | reflexivity].
  - apply v0_inv_set_iss. exact I3.
Qed.

Inductive v0_op := V0Issue (a : iss_args) | V0Reissue (a : v0_reiss_args).
Definition v0_step (p : v0pkt) (o : v0_op) : v0pkt :=
  match o with
  | V0Issue a => snd (v0_add_issuance p a)
  | V0Reissue a => snd (v0_add_reissuance p a)
  end.

Theorem v0_history_keeps_issuances ops : forall p, v0_inv p ->
  v0_keeps p (fold_left v0_step ops p) /\ v0_inv (fold_left v0_step ops p).
Proof.
  induction ops as [|o ops IH]; intros p Inv; cbn [fold_left]; [split; [apply v0_keeps_refl | exact Inv]|].
  assert (S : v0_keeps p (v0_step p o) /\ v0_inv (v0_step p o)).
  { destruct o as [a|a]; cbn [v0_step].
    - destruct (v0_add_issuance_keeps p a) as [K I]. split; [exact K | apply I; exact Inv].
    - apply v0_add_reissuance_keeps. exact Inv. }
  destruct S as [K I]. destruct (IH (v0_step p o) I) as [K' I'].
  split; [eapply v0_keeps_trans; [exact K | exact K'] | exact I'].
Qed.

(* in particular: once every input issues, AddIssuance is refused and changes nothing *)
Theorem v0_add_issuance_needs_a_free_input p a :
  (forall x, In x (t_ins (v0_tx p)) -> in_iss x <> None) -> v0_add_issuance p a = (false, p).
Proof.
  intro All. unfold v0_add_issuance.
  destruct (v0_validate a); cbn [negb]; [|reflexivity].
  destruct (t_ins (v0_tx p)) as [|i0 rest] eqn:Ins; [reflexivity|]. rewrite <- Ins. 
  destruct (new_tx_issuance _ _ _ _); [|reflexivity].
  destruct (find_empty (t_ins (v0_tx p)) 0) as [[idx fi]|] eqn:FE; [|reflexivity].
  exfalso. apply find_empty_inv in FE as (_ & Hn & He). apply nth_error_In in Hn. rewrite Ins in Hn. exact (All fi Hn He).
Qed.

(* an input that is also a peg-in claim keeps its issuance in both transaction views, and the
   peg-in flag of both views is the packet's, whatever the issuance fields are *)
Theorem pegin_input_keeps_its_issuance i :
  vi_vcommit i = None -> vi_kcommit i = None ->
  unsigned_pegin i = vi_pegin i /\ extract_pegin i = vi_pegin i /\
  unsigned_issuance i = expected_issuance i /\ extract_issuance i = expected_issuance i.
Proof.
  intros Hv Hk. destruct (tx_issuance_fields_agree_with_packet i Hv Hk) as [U E].
  repeat split; assumption.
Qed.
