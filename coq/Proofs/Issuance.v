(* Proofs/Issuance.v — issuance ids follow the Elements derivation; updaters use them consistently (C13). *)
From GE Require Import Lib.Bytes Lib.Varint Lib.Sha256 Model.Tx Model.Issuance Spec.Issuance.
From Coq Require Import ZifyBool ZifyN ZifyNat.
Open Scope N_scope.

(* ---------- SHA-256 digests and mid-states are 32 bytes ---------- *)
Lemma iss_round_length st kw : length st = 8%nat -> length (round st kw) = 8%nat.
Proof. intro H. do 9 (destruct st as [|? st]; try discriminate H). reflexivity. Qed.
Lemma iss_fold_round_length l : forall st, length st = 8%nat -> length (fold_left round l st) = 8%nat.
Proof. induction l as [|kw l IH]; intros st H; cbn [fold_left]; auto. apply IH. apply iss_round_length. exact H. Qed.
Lemma iss_compress_length st block : length st = 8%nat -> length (compress st block) = 8%nat.
Proof.
  intro H. unfold compress. rewrite map_length, combine_length, iss_fold_round_length by exact H. rewrite H. reflexivity.
Qed.
Lemma iss_blocks_length fuel : forall st bs, length st = 8%nat -> length (blocks fuel st bs) = 8%nat.
Proof.
  induction fuel as [|f IH]; intros st bs H; cbn [blocks]; auto.
  destruct bs; auto. apply IH. apply iss_compress_length. exact H.
Qed.
Lemma iss_sha256_length msg : length (sha256 msg) = 32%nat.
Proof. unfold sha256. apply digest_of_length. apply iss_blocks_length. reflexivity. Qed.
Lemma sha256_midstate_length b : length (sha256_midstate b) = 32%nat.
Proof. unfold sha256_midstate. apply digest_of_length. apply iss_compress_length. reflexivity. Qed.
Lemma midstate256_length b : length (midstate256 b) = 32%nat.
Proof.
  unfold midstate256. destruct (length b <? 64)%nat; apply digest_of_length; [reflexivity|].
  apply iss_compress_length. reflexivity.
Qed.

(* fastsha256.MidState256 on exactly one block is the compression of that block *)
Lemma midstate256_block b : length b = 64%nat -> midstate256 b = sha256_midstate b.
Proof.
  intro H. unfold midstate256, sha256_midstate. rewrite H. cbn [Nat.ltb Nat.leb].
  rewrite <- H, firstn_all. reflexivity.
Qed.

(* ---------- the model refines the Elements derivation ---------- *)
Theorem compute_entropy_refines hash n chash :
  length hash = 32%nat -> length chash = 32%nat ->
  compute_entropy hash n chash = Some (spec_entropy hash n chash).
Proof.
  intros Hh Hc. unfold compute_entropy. rewrite Hh. cbn [Nat.eqb negb].
  rewrite midstate256_block.
  - reflexivity.
  - rewrite app_length, Hc. unfold dsha256. rewrite iss_sha256_length. reflexivity.
Qed.

Theorem compute_asset_refines e : length e = 32%nat -> compute_asset e = Some (spec_asset e).
Proof.
  intro H. unfold compute_asset. rewrite H. cbn [Nat.eqb negb].
  rewrite midstate256_block by (rewrite app_length, H, repeat_length; reflexivity). reflexivity.
Qed.

Theorem compute_token_refines e (confidential : bool) :
  length e = 32%nat -> compute_token e (flag_of confidential) = Some (spec_token e confidential).
Proof.
  intro H. unfold compute_token. rewrite H. cbn [Nat.eqb negb].
  destruct confidential; cbn [flag_of N.eqb orb negb];
    (rewrite midstate256_block by (rewrite app_length, H; reflexivity)); reflexivity.
Qed.

Theorem ids_refine_spec hash n chash e confidential :
  length hash = 32%nat -> length chash = 32%nat -> length e = 32%nat ->
  compute_entropy hash n chash = Some (spec_entropy hash n chash) /\
  compute_asset e = Some (spec_asset e) /\
  compute_token e (flag_of confidential) = Some (spec_token e confidential).
Proof.
  intros. repeat split; [apply compute_entropy_refines | apply compute_asset_refines | apply compute_token_refines]; assumption.
Qed.

(* the guards: exactly which inputs are refused *)
Lemma compute_entropy_error_iff hash n chash : compute_entropy hash n chash = None <-> length hash <> 32%nat.
Proof.
  unfold compute_entropy. destruct (Nat.eqb_spec (length hash) 32) as [E|E]; cbn [negb]; split; intro H; congruence.
Qed.
Lemma compute_asset_error_iff e : compute_asset e = None <-> length e <> 32%nat.
Proof.
  unfold compute_asset. destruct (Nat.eqb_spec (length e) 32) as [E|E]; cbn [negb]; split; intro H; congruence.
Qed.
Lemma compute_token_error_iff e flag :
  compute_token e flag = None <-> length e <> 32%nat \/ (flag <> 0 /\ flag <> 1).
Proof.
  unfold compute_token. destruct (Nat.eqb_spec (length e) 32) as [E|E]; cbn [negb].
  - destruct (N.eqb_spec flag 0) as [F0|F0]; destruct (N.eqb_spec flag 1) as [F1|F1]; cbn [orb negb];
      split; intro H; try discriminate H; try reflexivity; try (right; split; assumption);
      destruct H as [H|[H1 H2]]; congruence.
  - split; [intros _; left; exact E | reflexivity].
Qed.
Lemma ids_are_32_bytes hash n chash e flag x :
  (compute_entropy hash n chash = Some x \/ compute_asset e = Some x \/ compute_token e flag = Some x) ->
  length x = 32%nat.
Proof.
  unfold compute_entropy, compute_asset, compute_token.
  intros [H|[H|H]];
    repeat match type of H with (if ?c then _ else _) = _ => destruct c; try discriminate H end;
    inversion H; apply midstate256_length.
Qed.

(* FULL STATEMENT for contract hashes of any length (false of the code):
     forall hash n chash, length hash = 32 -> compute_entropy hash n chash is either an error or an
     injective-looking function of the outpoint.
   With a contract hash shorter than 32 bytes the mid-state helper sees fewer than 64 bytes and
   returns the SHA-256 initial state: every outpoint gets the same entropy. *)
Definition h32 (k : N) : bytes := repeat (b8 k) 32.
Theorem compute_entropy_short_contract_hash_refuted :
  exists h h' n chash, h <> h' /\ length h = 32%nat /\ length h' = 32%nat /\ (length chash < 32)%nat /\
    compute_entropy h n chash = compute_entropy h' n chash /\ compute_entropy h n chash = Some (digest_of IV256).
Proof.
  exists (h32 1), (h32 2), 0, (repeat x00 31).
  split; [intro E; apply (f_equal (fun l => hd x00 l)) in E; discriminate E|].
  repeat split; vm_compute; try reflexivity; lia.
Qed.

(* ---------- the recorded vectors of transaction/data/issuance.json ---------- *)
Definition vec1_hash : bytes := map b8 [195;22;80;183;238;51;80;8;101;6;193;142;221;6;190;133;42;75;79;135;100;51;86;233;194;240;226;151;248;60;69;57].
Example issuance_json_vector_1 :
  compute_entropy vec1_hash 68 zero32b = Some (map b8 [61;185;216;180;169;218;8;123;66;242;159;52;67;20;18;170;162;77;99;117;11;179;27;154;46;38;55;151;36;129;53;224]) /\
  compute_asset (map b8 [61;185;216;180;169;218;8;123;66;242;159;52;67;20;18;170;162;77;99;117;11;179;27;154;46;38;55;151;36;129;53;224]) = Some (map b8 [147;168;147;0;41;8;131;3;103;25;157;190;178;174;24;123;168;80;8;57;173;169;248;111;44;181;232;116;95;121;223;222]) /\
  compute_token (map b8 [61;185;216;180;169;218;8;123;66;242;159;52;67;20;18;170;162;77;99;117;11;179;27;154;46;38;55;151;36;129;53;224]) 0 = Some (map b8 [77;129;248;8;116;143;141;255;189;178;127;229;159;252;42;106;194;37;81;101;24;3;109;29;207;152;181;96;219;116;16;250]).
Proof. repeat split; vm_compute; reflexivity. Qed.

Definition vec2_contract : contract :=
  mk_contract (map b8 [84;101;115;116]) (map b8 [84;83;84]) 0 0 (map b8 [48;50;97;57;97;55;51;57;57;100;101;56;57;101;99;50;101;55;100;101;56;55;54;98;98;101;48;98;53;49;50;102;55;56;102;49;51;100;53;100;48;97;51;51;49;53;48;52;55;101;53;98;49;52;49;48;57;99;56;98;97;99;51;56;102;50]) (map b8 [116;101;115;116;46;105;111]).
Definition vec2_hash : bytes := map b8 [58;53;45;33;74;44;183;156;202;102;83;246;199;32;0;159;209;82;148;90;243;182;41;130;102;193;219;154;210;19;39;143].
Example issuance_json_vector_2 :
  compute_entropy vec2_hash 1 (contract_hash vec2_contract) = Some (map b8 [228;5;182;164;248;145;183;34;108;195;217;7;92;26;156;100;171;115;187;95;104;228;88;219;233;83;64;81;140;69;91;247]) /\
  compute_asset (map b8 [228;5;182;164;248;145;183;34;108;195;217;7;92;26;156;100;171;115;187;95;104;228;88;219;233;83;64;81;140;69;91;247]) = Some (map b8 [245;89;185;195;59;132;41;3;69;188;147;229;43;183;62;245;6;118;102;10;114;110;16;120;28;138;145;204;170;33;5;33]) /\
  compute_token (map b8 [228;5;182;164;248;145;183;34;108;195;217;7;92;26;156;100;171;115;187;95;104;228;88;219;233;83;64;81;140;69;91;247]) 0 = Some (map b8 [67;89;209;237;196;226;77;110;72;131;188;74;209;217;77;73;44;58;5;189;174;74;131;87;105;68;97;29;90;153;215;160]).
Proof. repeat split; vm_compute; reflexivity. Qed.

(* TestIsContractHashValid *)
Definition tiero_contract : contract :=
  mk_contract (map b8 [84;105;101;114;111;32;84;111;107;101;110]) (map b8 [84;73;69;82;79]) 0 8 (map b8 [48;50;97;57;97;55;51;57;57;100;101;56;57;101;99;50;101;55;100;101;56;55;54;98;98;101;48;98;53;49;50;102;55;56;102;49;51;100;53;100;48;97;51;51;49;53;48;52;55;101;53;98;49;52;49;48;57;99;56;98;97;99;51;56;102;50]) (map b8 [116;105;101;114;111;46;103;105;116;104;117;98;46;105;111]).
Example contract_hash_vector :
  contract_hash tiero_contract = map b8 [102;56;71;242;234;88;60;0;112;77;217;38;77;62;33;214;131;219;76;192;204;240;194;25;67;42;207;233;62;54;196;213].
Proof. vm_compute. reflexivity. Qed.
