(* Proofs/SigValidate.v — C10: what a "valid" verdict of the partial-signature
   validator (Model/SigValidate.v, following /repo after fixes a910e27 and 9415d49)
   guarantees, what it still does not, and when it panics. *)
From GE Require Import Lib.Bytes Lib.Varint Lib.Sha256 Model.Tx Model.TxHash Model.SigValidate.
From Coq Require Import ZifyBool ZifyN ZifyNat.
Open Scope N_scope.

(* ---------- small facts ---------- *)
Lemma vbind_ok {A B} (x : vres A) (f : A -> vres B) b :
  vbind x f = VOk b -> exists a, x = VOk a /\ f a = VOk b.
Proof. destruct x as [a| |s]; cbn; intro H; try discriminate. exists a. split; [reflexivity|exact H]. Qed.

Lemma vs_compare_refl a : vs_compare a a = Eq.
Proof. induction a as [|x a IH]; cbn; [reflexivity|]. rewrite N.compare_refl. exact IH. Qed.

Lemma vs_compare_eq a b : vs_compare a b = Eq -> a = b.
Proof.
  revert b; induction a as [|x a IH]; intros [|y b]; cbn; intro H; try discriminate; [reflexivity|].
  destruct (N.compare (n8 x) (n8 y)) eqn:E; try discriminate.
  apply N.compare_eq in E. apply n8_inj in E. f_equal; [exact E | apply IH; exact H].
Qed.

(* ---------- specification side ---------- *)
Section Spec.
  Variable digest : valgo -> tx -> nat -> bytes -> bytes -> N -> bytes.
  Variable parse_pk : bytes -> option bytes.
  Variable der_ok : bytes -> bool.
  Variable verify : bytes -> bytes -> bytes -> bool.
  Variable hash160 : bytes -> bytes.

  Notation VI := (vs_validate_input digest parse_pk der_ok verify hash160).
  Notation VSig := (vs_validate_sig digest parse_pk der_ok verify hash160).
  Notation VSigs := (vs_validate_sigs digest parse_pk der_ok verify hash160).
  Notation HS := (vs_hash_and_script digest hash160).

  (* the outpoint of input i *)
  Definition outpoint_of (v : vver) (p : vpacket) (i : nat) (inp : vinput) : option (bytes * N) :=
    match v with
    | VsV2 => Some (svi_prev_txid inp, svi_prev_index inp)
    | VsV0 => match nth_error (t_ins (svp_tx p)) i with
              | Some ti => Some (in_hash ti, in_index ti)
              | None => None
              end
    end.

  (* the output the input actually spends: the outpoint's output of the supplied previous
     transaction, else the witness-utxo record *)
  Definition spent_output (v : vver) (p : vpacket) (i : nat) (inp : vinput) : option txout :=
    match svi_nonwit inp with
    | Some prev =>
        match outpoint_of v p i inp with
        | Some (_, idx) => if idx <? lenL (t_outs prev) then nth_error (t_outs prev) (N.to_nat idx) else None
        | None => None
        end
    | None => svi_wit inp
    end.

  (* strict script forms *)
  Definition p2wpkh_prog (s : bytes) : option bytes :=
    match s with
    | a :: b :: r => if (n8 a =? 0) && (n8 b =? 0x14) && (length r =? 20)%nat then Some r else None
    | _ => None
    end.
  Notation p2wsh_prog := vs_p2wsh_prog.
  Notation p2sh_prog := vs_p2sh_prog.

  (* what must be hashed for a spent output (algorithm, script code, amount) and the script
     in which the key must occur; None = the packet does not show how the output is spent
     (redeem / witness script missing or not committed to) *)
  Definition witness_sel (inp : vinput) (amount script : bytes) : option (option (valgo * bytes * bytes * bytes)) :=
    match p2wpkh_prog script with
    | Some h => Some (Some (VSegwitV0, vs_p2pkh_code h, amount, script))
    | None =>
        match p2wsh_prog script with
        | Some prog =>
            let w := vs_opt (svi_witscript inp) in       (* a nil witness script is the empty script *)
            if bytes_eqb (sha256 w) prog then Some (Some (VSegwitV0, w, amount, w)) else Some None
        | None => None   (* not a witness program *)
        end
    end.

  Definition spec_select (inp : vinput) (o : txout) : option (valgo * bytes * bytes * bytes) :=
    let spk := o_script o in
    match witness_sel inp (o_value o) spk with
    | Some r => r
    | None =>
        match p2sh_prog spk with
        | Some prog =>
            match svi_redeem inp with
            | Some r =>
                if bytes_eqb (hash160 r) prog then
                  match witness_sel inp (o_value o) r with
                  | Some x => x
                  | None => Some (VLegacy, r, [], r)
                  end
                else None
            | None => Some (VLegacy, spk, [], spk)   (* no redeem script supplied: the output's own script *)
            end
        | None => Some (VLegacy, spk, [], spk)
        end
    end.

  (* digest computed from the script and amount of the output actually spent, and the script being satisfied *)
  Definition digest_of_spent (v : vver) (p : vpacket) (i : nat) (inp : vinput) (ht : N) : option (bytes * bytes) :=
    match spent_output v p i inp with
    | Some o =>
        match spec_select inp o with
        | Some (a, code, am, sat) => Some (digest a (svp_tx p) i code am ht, sat)
        | None => None
        end
    | None => None
    end.

  (* a partial signature that is genuinely valid for input i *)
  Definition sig_genuine (v : vver) (p : vpacket) (i : nat) (inp : vinput) (s : option vsig) : Prop :=
    exists pub sg ck last rder d sat asm,
      s = Some (mk_vsig (Some pub) sg) /\ parse_pk pub = Some ck /\ rev sg = last :: rder /\
      digest_of_spent v p i inp (n8 last) = Some (d, sat) /\
      der_ok (rev rder) = true /\ verify ck d (rev rder) = true /\
      vs_disasm sat = Some asm /\ vs_key_in_asm hash160 ck pub asm = true.

  (* a supplied previous transaction hashes to the outpoint txid *)
  Definition prev_tx_matches (v : vver) (p : vpacket) (i : nat) (inp : vinput) : Prop :=
    forall prev, svi_nonwit inp = Some prev ->
      exists h idx, outpoint_of v p i inp = Some (h, idx) /\ txid prev = h.

  (* FULL STATEMENT (valid_only_if).  Proved below under one residual hypothesis
     (valid_only_if_partial: scripts starting with OP_0 are well-formed witness programs);
     without it the abstract statement is refuted (valid_only_if_refuted). *)
  Definition valid_only_if_statement : Prop :=
    forall v p i, VI v p i = VOk true ->
      exists inp, nth_error (svp_ins p) i = Some inp /\ svi_sigs inp <> [] /\
        (forall s, In s (svi_sigs inp) -> sig_genuine v p i inp s) /\
        prev_tx_matches v p i inp.

  (* ---------- what the code does check ---------- *)
  Definition sig_checked (v : vver) (p : vpacket) (i : nat) (inp : vinput) (s : option vsig) : Prop :=
    exists pub sg ck last rder d scr asm,
      s = Some (mk_vsig (Some pub) sg) /\ parse_pk pub = Some ck /\ rev sg = last :: rder /\
      HS v p i inp (n8 last) = VOk (d, scr) /\
      der_ok (rev rder) = true /\ verify ck d (rev rder) = true /\
      vs_disasm scr = Some asm /\ vs_key_in_asm hash160 ck pub asm = true.

  Lemma validate_sig_true v p i inp s :
    VSig v p i inp s = VOk true -> sig_checked v p i inp s.
  Proof.
    unfold vs_validate_sig, sig_checked. destruct s as [s|]; [|discriminate].
    destruct (vs_pub_missing v s) eqn:Em; [discriminate|].
    destruct s as [opub sg]. cbn [svg_pub svg_sig] in *.
    destruct opub as [pub|]; [|cbn in Em; discriminate]. cbn [vs_opt].
    destruct (rev sg) as [|last rder] eqn:Er; [discriminate|].
    intro H. apply vbind_ok in H as [[d scr] [Hhs H]]. cbn [fst snd] in H.
    apply vbind_ok in H as [ins [Hv H]].
    unfold vs_verify_script in Hv.
    destruct (parse_pk pub) as [ck|] eqn:Epk; [|discriminate].
    destruct (vs_disasm scr) as [asm|] eqn:Ed; [|discriminate].
    injection Hv as Hv. subst ins.
    destruct (vs_key_in_asm hash160 ck pub asm) eqn:Ek; cbn [negb] in H; [|discriminate].
    destruct (der_ok (rev rder)) eqn:Eder; cbn [negb] in H; [|discriminate].
    injection H as H.
    exists pub, sg, ck, last, rder, d, scr, asm. repeat split; auto.
  Qed.

  Lemma validate_sigs_true v p i inp sigs :
    VSigs v p i inp sigs = VOk true -> forall s, In s sigs -> VSig v p i inp s = VOk true.
  Proof.
    induction sigs as [|s0 r IH]; cbn [vs_validate_sigs]; intros H s Hin; [destruct Hin|].
    destruct (VSig v p i inp s0) as [[|]| |] eqn:E0; try discriminate.
    destruct Hin as [<-|Hin]; [exact E0 | apply IH; assumption].
  Qed.

  Lemma validate_input_true v p i :
    VI v p i = VOk true ->
    exists inp, nth_error (svp_ins p) i = Some inp /\ svi_sigs inp <> [] /\
                VSigs v p i inp (svi_sigs inp) = VOk true.
  Proof.
    unfold vs_validate_input. destruct (nth_error (svp_ins p) i) as [inp|]; [|discriminate].
    destruct (svi_sigs inp) as [|s0 r] eqn:Es; [discriminate|].
    intro H. exists inp. rewrite Es. repeat split; [discriminate | exact H].
  Qed.

  Lemma outpoint_spec v p i inp op :
    vs_outpoint v p i inp = VOk op -> outpoint_of v p i inp = Some op.
  Proof.
    unfold vs_outpoint, outpoint_of. destruct v.
    - destruct (nth_error (t_ins (svp_tx p)) i); [|discriminate]. intro H; injection H as <-. reflexivity.
    - intro H; injection H as <-. reflexivity.
  Qed.

  Lemma hash_and_script_prev v p i inp ht r :
    HS v p i inp ht = VOk r -> prev_tx_matches v p i inp.
  Proof.
    unfold vs_hash_and_script, prev_tx_matches. intros H prev Hp. rewrite Hp in H.
    apply vbind_ok in H as [[h idx] [Ho H]]. cbn [fst snd] in H.
    destruct (vs_prev_id_ok h (txid prev)) eqn:Eok; cbn [negb] in H; [|discriminate].
    exists h, idx. split; [apply outpoint_spec; exact Ho|].
    unfold vs_prev_id_ok in Eok. apply bytes_eqb_eq in Eok. symmetry. exact Eok.
  Qed.

  (* valid_only_if_checked: what a valid verdict guarantees for every packet, with no
     hypothesis: every partial signature verifies, under the stated key, the digest the
     validator selected (vs_hash_and_script), the key's hex occurs in the disassembly of the
     script returned with that digest, and a supplied previous transaction hashes to the
     outpoint txid (v0 and v2: this conjunct of the full statement holds outright). *)
  Theorem valid_only_if_checked v p i :
    VI v p i = VOk true ->
    exists inp, nth_error (svp_ins p) i = Some inp /\ svi_sigs inp <> [] /\
      (forall s, In s (svi_sigs inp) -> sig_checked v p i inp s) /\
      prev_tx_matches v p i inp.
  Proof.
    intro H. apply validate_input_true in H as [inp [Hn [Hne Hs]]].
    exists inp. split; [exact Hn|]. split; [exact Hne|]. split.
    - intros s Hin. apply validate_sig_true. eapply validate_sigs_true; eassumption.
    - destruct (svi_sigs inp) as [|s0 r] eqn:Es; [congruence|].
      assert (Hc : sig_checked v p i inp s0).
      { apply validate_sig_true. eapply validate_sigs_true; [exact Hs | left; reflexivity]. }
      destruct Hc as (pub & sg & ck & last & rder & d & scr & asm & _ & _ & _ & Hhs & _).
      eapply hash_and_script_prev; exact Hhs.
  Qed.

  (* the previous-transaction conjunct of the full statement *)
  Theorem prev_tx_matches_always v p i :
    VI v p i = VOk true ->
    exists inp, nth_error (svp_ins p) i = Some inp /\ prev_tx_matches v p i inp.
  Proof.
    intro H. apply valid_only_if_checked in H as [inp [Hn [_ [_ Hp]]]].
    exists inp. split; assumption.
  Qed.

  (* ---------- the full statement, up to well-formed witness programs ---------- *)
  (* the script the validator classifies *)
  Definition used_script (inp : vinput) (o : txout) : bytes :=
    match svi_redeem inp with Some r => r | None => o_script o end.

  (* a script starting with OP_0 is a well-formed v0 witness program.  address.GetScriptType
     looks at script[0] and len(script[2:]) only, so OP_0 <any byte> <20 bytes> is treated as
     P2WPKH; this is the one fact about the packet the validator still does not check *)
  Definition wf_program (s : bytes) : Prop :=
    match s with
    | a :: _ => n8 a = 0 -> p2wpkh_prog s <> None \/ p2wsh_prog s <> None
    | [] => True
    end.

  Lemma bytes_eqb_refl a : bytes_eqb a a = true.
  Proof. apply bytes_eqb_eq. reflexivity. Qed.

  Lemma p2sh_not_witness inp am s prog : p2sh_prog s = Some prog -> witness_sel inp am s = None.
  Proof.
    unfold vs_p2sh_prog, witness_sel, p2wpkh_prog, vs_p2wsh_prog.
    destruct s as [|a [|b r]]; try discriminate.
    destruct (n8 a =? 0xa9) eqn:Ea; cbn [andb]; [|discriminate].
    assert (E0 : (n8 a =? 0) = false) by lia. rewrite E0. cbn [andb]. reflexivity.
  Qed.

  (* once the validator has picked its script (redeem script checked against the spent
     script), the specification selects from that same script *)
  Lemma spec_select_picked inp o script :
    vs_pick_script hash160 inp (o_script o) = VOk script ->
    script = used_script inp o /\
    spec_select inp o =
    match witness_sel inp (o_value o) script with
    | Some x => x
    | None => Some (VLegacy, script, [], script)
    end.
  Proof.
    unfold vs_pick_script, spec_select, used_script, vs_is_redeem_of.
    destruct (svi_redeem inp) as [r|].
    - destruct (p2sh_prog (o_script o)) as [prog|] eqn:Ep; [|discriminate].
      destruct (bytes_eqb (hash160 r) prog) eqn:Eh; [|discriminate].
      intro H; injection H as <-. split; [reflexivity|].
      rewrite (p2sh_not_witness inp (o_value o) _ _ Ep). reflexivity.
    - intro H; injection H as <-. split; [reflexivity|].
      destruct (witness_sel inp (o_value o) (o_script o)); [reflexivity|].
      destruct (p2sh_prog (o_script o)); reflexivity.
  Qed.

  Lemma type_cases script ty :
    vs_script_type script = VOk ty -> wf_program script ->
    (ty = StP2WPKH /\ p2wpkh_prog script = Some (skipn 2 script)) \/
    (ty = StP2WSH /\ p2wpkh_prog script = None) \/
    (ty <> StP2WPKH /\ ty <> StP2WSH /\ p2wpkh_prog script = None /\ p2wsh_prog script = None).
  Proof.
    unfold vs_script_type, wf_program. destruct script as [|a r]; [discriminate|].
    destruct (n8 a =? 0) eqn:Ea.
    - destruct r as [|b r2]; [discriminate|].
      intros H Hwf. assert (Ha : n8 a = 0) by lia. specialize (Hwf Ha).
      unfold p2wpkh_prog, vs_p2wsh_prog in *. rewrite Ea in *. cbn [andb] in *.
      destruct (length r2 =? 20)%nat eqn:E20.
      + injection H as <-. left. split; [reflexivity|].
        destruct (n8 b =? 0x14) eqn:Eb; cbn [andb] in *; [reflexivity|].
        exfalso. destruct Hwf as [Hw|Hw]; [congruence|].
        assert (E32 : (length r2 =? 32)%nat = false) by lia. rewrite E32, andb_false_r in Hw. congruence.
      + injection H as <-. right; left. split; [reflexivity|].
        rewrite andb_false_r. reflexivity.
    - intros H _. right; right.
      assert (Hp : p2wpkh_prog (a :: r) = None /\ p2wsh_prog (a :: r) = None).
      { unfold p2wpkh_prog, vs_p2wsh_prog. destruct r as [|b r2]; [split; reflexivity|]. rewrite Ea. cbn [andb]. split; reflexivity. }
      destruct Hp as [Hp1 Hp2].
      destruct (n8 a =? 0x51); [injection H as <-; repeat split; try discriminate; assumption|].
      destruct (n8 a =? 0xa9); [injection H as <-; repeat split; try discriminate; assumption|].
      destruct (n8 a =? 0x76); injection H as <-; repeat split; try discriminate; assumption.
  Qed.

  Lemma is_witness_of_spec ws script :
    vs_is_witness_of ws script = true -> exists prog, p2wsh_prog script = Some prog /\ bytes_eqb (sha256 ws) prog = true.
  Proof.
    unfold vs_is_witness_of. destruct (p2wsh_prog script) as [prog|]; [|discriminate].
    intro H. exists prog. split; [reflexivity|exact H].
  Qed.

  Lemma digest_v0_ok p i script amount ht d :
    vs_digest_v0 digest p i script amount ht = VOk d -> d = digest VSegwitV0 (svp_tx p) i script amount ht.
  Proof.
    unfold vs_digest_v0. destruct (i <? length (t_ins (svp_tx p)))%nat; [|discriminate].
    intro H; injection H as <-. reflexivity.
  Qed.

  (* the digest and script the validator selects are those of the output actually spent *)
  Lemma select_agrees v p i inp ht d scr :
    (forall o, spent_output v p i inp = Some o -> wf_program (used_script inp o)) ->
    HS v p i inp ht = VOk (d, scr) ->
    digest_of_spent v p i inp ht = Some (d, scr).
  Proof.
    intros Hwf H. unfold digest_of_spent. unfold vs_hash_and_script in H.
    unfold spent_output in *.
    destruct (svi_nonwit inp) as [prev|] eqn:Enw.
    - apply vbind_ok in H as [[h idx] [Ho H]]. cbn [fst snd] in H.
      apply outpoint_spec in Ho. rewrite Ho in *.
      destruct (negb (vs_prev_id_ok h (txid prev))); [discriminate|].
      destruct (lenL (t_outs prev) <=? idx) eqn:El; [discriminate|].
      assert (El2 : (idx <? lenL (t_outs prev)) = true) by lia. rewrite El2 in *.
      destruct (nth_error (t_outs prev) (N.to_nat idx)) as [o|]; [|discriminate].
      specialize (Hwf o eq_refl).
      apply vbind_ok in H as [script [Hpick H]].
      destruct (spec_select_picked inp o script Hpick) as [Hus ->]. rewrite <- Hus in Hwf.
      apply vbind_ok in H as [ty [Hty H]].
      destruct (type_cases _ _ Hty Hwf) as [[-> Hp]|[[-> Hp1]|[Hn1 [Hn2 [Hp1 Hp2]]]]].
      + apply vbind_ok in H as [d0 [Hd H]]. injection H as <- <-.
        apply digest_v0_ok in Hd. subst d0. unfold witness_sel. rewrite Hp. reflexivity.
      + destruct (svi_witscript inp) as [ws|] eqn:Ews; [|discriminate].
        destruct (vs_is_witness_of ws script) eqn:Eis; cbn [negb] in H; [|discriminate].
        destruct (is_witness_of_spec _ _ Eis) as (prog & Hp2 & Hsha).
        apply vbind_ok in H as [d0 [Hd H]]. injection H as <- <-.
        apply digest_v0_ok in Hd. subst d0.
        unfold witness_sel. rewrite Hp1, Hp2, Ews. cbn [vs_opt]. rewrite Hsha. reflexivity.
      + unfold witness_sel. rewrite Hp1, Hp2.
        destruct ty; try congruence; injection H as <- <-; reflexivity.
    - destruct (svi_wit inp) as [o|]; [|discriminate].
      specialize (Hwf o eq_refl).
      apply vbind_ok in H as [script [Hpick H]].
      destruct (spec_select_picked inp o script Hpick) as [Hus ->]. rewrite <- Hus in Hwf.
      apply vbind_ok in H as [ty [Hty H]].
      destruct (type_cases _ _ Hty Hwf) as [[-> Hp]|[[-> Hp1]|[Hn1 [Hn2 [Hp1 Hp2]]]]].
      + apply vbind_ok in H as [d0 [Hd H]]. injection H as <- <-.
        apply digest_v0_ok in Hd. subst d0. unfold witness_sel. rewrite Hp. reflexivity.
      + destruct (vs_is_witness_of (vs_opt (svi_witscript inp)) script) eqn:Eis; cbn [negb] in H; [|discriminate].
        destruct (is_witness_of_spec _ _ Eis) as (prog & Hp2 & Hsha).
        apply vbind_ok in H as [d0 [Hd H]]. injection H as <- <-.
        apply digest_v0_ok in Hd. subst d0.
        unfold witness_sel. rewrite Hp1, Hp2, Hsha. reflexivity.
      + destruct ty; try congruence; discriminate.
  Qed.

  (* PARTIAL (valid_only_if_partial): the full statement for every packet in which the script
     classified for input i (the redeem script if present, else the spent script) is not a
     malformed witness program.  Everything else the statement asks for is now enforced by
     the validator: previous transaction hashing to the outpoint txid (v0 and v2), amount of
     the output actually spent, redeem script committed to by a P2SH spent script, witness
     script committed to by the P2WSH program, signature verification under the stated key,
     key (hex) in the disassembly of the script being satisfied. *)
  Theorem valid_only_if_partial v p i :
    VI v p i = VOk true ->
    exists inp, nth_error (svp_ins p) i = Some inp /\ svi_sigs inp <> [] /\
      prev_tx_matches v p i inp /\
      ((forall o, spent_output v p i inp = Some o -> wf_program (used_script inp o)) ->
       forall s, In s (svi_sigs inp) -> sig_genuine v p i inp s).
  Proof.
    intro H. apply valid_only_if_checked in H as [inp [Hn [Hne [Hs Hp]]]].
    exists inp. split; [exact Hn|]. split; [exact Hne|]. split; [exact Hp|].
    intros Hwf s Hin.
    destruct (Hs s Hin) as (pub & sg & ck & last & rder & d & scr & asm & E1 & E2 & E3 & E4 & E5 & E6 & E7 & E8).
    exists pub, sg, ck, last, rder, d, scr, asm. repeat split; try assumption.
    apply select_agrees; assumption.
  Qed.

  (* ---------- ideal signatures: corruptions are rejected ---------- *)
  Section Ideal.
    (* signed k m s : s was produced by the holder of key k for message m *)
    Variable signed : bytes -> bytes -> bytes -> Prop.
    Hypothesis ideal_sig : forall k m s, verify k m s = true -> signed k m s.

    Theorem valid_implies_signed v p i :
      VI v p i = VOk true ->
      exists inp, nth_error (svp_ins p) i = Some inp /\
        forall s, In s (svi_sigs inp) ->
          exists pub sg ck last rder d scr,
            s = Some (mk_vsig (Some pub) sg) /\ parse_pk pub = Some ck /\ rev sg = last :: rder /\
            HS v p i inp (n8 last) = VOk (d, scr) /\ signed ck d (rev rder).
    Proof.
      intro H. apply valid_only_if_checked in H as [inp [Hn [_ [Hs _]]]].
      exists inp. split; [exact Hn|]. intros s Hin.
      destruct (Hs s Hin) as (pub & sg & ck & last & rder & d & scr & asm & E1 & E2 & E3 & E4 & E5 & E6 & _).
      exists pub, sg, ck, last, rder, d, scr. repeat split; try assumption. apply ideal_sig; exact E6.
    Qed.

    (* corruption_rejected: a partial signature that its key holder produced for the digest d0
       only makes the input invalid (or an error, or a panic: never valid) as soon as the
       validator selects any other digest for it - whatever was changed: a covered
       transaction field, the script, the amount, the hash-type byte. *)
    Theorem corruption_rejected v p i inp pub sg ck last rder d0 :
      nth_error (svp_ins p) i = Some inp ->
      In (Some (mk_vsig (Some pub) sg)) (svi_sigs inp) ->
      parse_pk pub = Some ck -> rev sg = last :: rder ->
      (forall m, signed ck m (rev rder) -> m = d0) ->
      (forall d scr, HS v p i inp (n8 last) = VOk (d, scr) -> d <> d0) ->
      VI v p i <> VOk true.
    Proof.
      intros Hn Hin Hpk Hrev Honly Hdiff H.
      apply valid_only_if_checked in H as [inp' [Hn' [_ [Hs _]]]].
      rewrite Hn in Hn'. injection Hn' as <-.
      destruct (Hs _ Hin) as (pub' & sg' & ck' & last' & rder' & d & scr & asm & E1 & E2 & E3 & E4 & E5 & E6 & _).
      injection E1 as <- <-. rewrite Hpk in E2. injection E2 as <-.
      rewrite Hrev in E3. injection E3 as <- <-.
      apply (Hdiff d scr E4). apply Honly. apply ideal_sig. exact E6.
    Qed.
  End Ideal.

  (* a substituted previous transaction with any other id (lower or higher) is rejected, v0 and v2 *)
  Theorem substituted_prev_rejected v p i inp prev h idx :
    nth_error (svp_ins p) i = Some inp -> svi_nonwit inp = Some prev ->
    outpoint_of v p i inp = Some (h, idx) -> txid prev <> h -> VI v p i <> VOk true.
  Proof.
    intros Hn Hp Ho Hne H. apply valid_only_if_checked in H as [inp' [Hn' [_ [_ Hc]]]].
    rewrite Hn in Hn'. injection Hn' as <-.
    destruct (Hc prev Hp) as (h' & idx' & Ho' & Ht). rewrite Ho in Ho'. injection Ho' as <- <-.
    contradiction.
  Qed.

  (* ---------- panics ---------- *)
  (* what the PSET parsers guarantee about the fields read here: one packet input per
     transaction input, partial signatures that are present and carry a parsable key *)
  Definition accepted (p : vpacket) : Prop :=
    length (t_ins (svp_tx p)) = length (svp_ins p) /\
    forall inp, In inp (svp_ins p) -> forall s, In s (svi_sigs inp) ->
      exists pub sg, s = Some (mk_vsig (Some pub) sg) /\ parse_pk pub <> None.

  (* FULL STATEMENT (no_panic_on_accepted_packets); refuted below *)
  Definition no_panic_statement : Prop :=
    forall v p i, accepted p -> (i < length (svp_ins p))%nat -> forall site, VI v p i <> VPanic site.

  Definition script_ok (s : bytes) : Prop := s <> [] /\ (forall a, s = [a] -> n8 a <> 0).

  (* the remaining unchecked expressions are in address.GetScriptType: the classified script
     (redeem script if present, else the spent script) must be non-empty and not the single
     byte OP_0 *)
  Definition panic_guards (v : vver) (p : vpacket) (i : nat) (inp : vinput) : Prop :=
    forall o, spent_output v p i inp = Some o -> script_ok (used_script inp o).

  Lemma script_type_total s : script_ok s -> exists ty, vs_script_type s = VOk ty.
  Proof.
    intros [Hne H1]. unfold vs_script_type. destruct s as [|a r]; [congruence|].
    destruct (n8 a =? 0) eqn:Ea.
    - destruct r as [|b r2].
      + exfalso. apply (H1 a eq_refl). lia.
      + destruct (length r2 =? 20)%nat; eexists; reflexivity.
    - destruct (n8 a =? 0x51); [eexists; reflexivity|].
      destruct (n8 a =? 0xa9); [eexists; reflexivity|].
      destruct (n8 a =? 0x76); eexists; reflexivity.
  Qed.

  Lemma digest_v0_total p i script amount ht :
    (i < length (t_ins (svp_tx p)))%nat -> exists d, vs_digest_v0 digest p i script amount ht = VOk d.
  Proof.
    intro H. unfold vs_digest_v0. destruct (Nat.ltb_spec i (length (t_ins (svp_tx p)))); [eexists; reflexivity|lia].
  Qed.

  Lemma pick_script_used inp o script :
    vs_pick_script hash160 inp (o_script o) = VOk script -> script = used_script inp o.
  Proof. intro H. exact (proj1 (spec_select_picked inp o script H)). Qed.

  Lemma hash_and_script_no_panic v p i inp ht :
    (i < length (t_ins (svp_tx p)))%nat -> panic_guards v p i inp ->
    forall site, HS v p i inp ht <> VPanic site.
  Proof.
    intros Hi Hg site. unfold vs_hash_and_script, panic_guards, spent_output in *.
    destruct (svi_nonwit inp) as [prev|].
    - assert (Ho : exists h idx, vs_outpoint v p i inp = VOk (h, idx) /\ outpoint_of v p i inp = Some (h, idx)).
      { unfold vs_outpoint, outpoint_of. destruct v.
        - destruct (nth_error (t_ins (svp_tx p)) i) as [ti|] eqn:E.
          + exists (in_hash ti), (in_index ti). split; reflexivity.
          + apply nth_error_None in E. lia.
        - eexists; eexists; split; reflexivity. }
      destruct Ho as (h & idx & Ho1 & Ho2). rewrite Ho1, Ho2 in *. cbn [vbind fst snd].
      destruct (negb (vs_prev_id_ok h (txid prev))); [discriminate|].
      destruct (N.leb_spec (lenL (t_outs prev)) idx) as [Hle|Hlt]; [discriminate|].
      assert (El2 : (idx <? lenL (t_outs prev)) = true) by lia. rewrite El2 in Hg.
      destruct (nth_error (t_outs prev) (N.to_nat idx)) as [o|]; [|discriminate].
      specialize (Hg o eq_refl).
      destruct (vs_pick_script hash160 inp (o_script o)) as [script| |st] eqn:Epick; cbn [vbind]; try discriminate.
      2:{ unfold vs_pick_script in Epick. destruct (svi_redeem inp); [destruct (vs_is_redeem_of _ _ _)|]; discriminate. }
      rewrite <- (pick_script_used _ _ _ Epick) in Hg.
      destruct (script_type_total _ Hg) as [ty Hty]. rewrite Hty. cbn [vbind].
      destruct ty; try discriminate.
      + destruct (digest_v0_total p i (vs_p2pkh_code (skipn 2 script)) (o_value o) ht Hi) as [d Hd].
        rewrite Hd. discriminate.
      + destruct (svi_witscript inp) as [ws|]; [|discriminate].
        destruct (negb _); [discriminate|].
        destruct (digest_v0_total p i ws (o_value o) ht Hi) as [d Hd]. rewrite Hd. discriminate.
    - destruct (svi_wit inp) as [w|]; [|discriminate].
      specialize (Hg w eq_refl).
      destruct (vs_pick_script hash160 inp (o_script w)) as [script| |st] eqn:Epick; cbn [vbind]; try discriminate.
      2:{ unfold vs_pick_script in Epick. destruct (svi_redeem inp); [destruct (vs_is_redeem_of _ _ _)|]; discriminate. }
      rewrite <- (pick_script_used _ _ _ Epick) in Hg.
      destruct (script_type_total _ Hg) as [ty Hty]. rewrite Hty. cbn [vbind].
      destruct ty; try discriminate.
      + destruct (digest_v0_total p i (vs_p2pkh_code (skipn 2 script)) (o_value w) ht Hi) as [d Hd].
        rewrite Hd. discriminate.
      + destruct (negb _); [discriminate|].
        destruct (digest_v0_total p i (vs_opt (svi_witscript inp)) (o_value w) ht Hi) as [d Hd].
        rewrite Hd. discriminate.
  Qed.

  Lemma validate_sig_no_panic v p i inp s :
    (i < length (t_ins (svp_tx p)))%nat -> panic_guards v p i inp ->
    (exists pub sg, s = Some (mk_vsig (Some pub) sg) /\ parse_pk pub <> None) ->
    forall site, VSig v p i inp s <> VPanic site.
  Proof.
    intros Hi Hg (pub & sg & -> & Hpk) site. unfold vs_validate_sig. cbn [svg_pub svg_sig vs_opt].
    destruct (vs_pub_missing v _); [discriminate|].
    destruct (rev sg) as [|last rder] eqn:Er; [discriminate|].
    destruct (HS v p i inp (n8 last)) as [[d scr]| |st] eqn:Eh; cbn [vbind]; try discriminate.
    - cbn [fst snd]. unfold vs_verify_script. destruct (parse_pk pub) as [ck|]; [|congruence].
      destruct (vs_disasm scr); cbn [vbind]; [|discriminate].
      destruct (negb _); [discriminate|]. destruct (negb _); discriminate.
    - exfalso. exact (hash_and_script_no_panic v p i inp (n8 last) Hi Hg st Eh).
  Qed.

  Lemma validate_sigs_no_panic v p i inp sigs :
    (forall s, In s sigs -> forall site, VSig v p i inp s <> VPanic site) ->
    forall site, VSigs v p i inp sigs <> VPanic site.
  Proof.
    induction sigs as [|s0 r IH]; intros H site; cbn [vs_validate_sigs]; [discriminate|].
    destruct (VSig v p i inp s0) as [[|]| |st] eqn:E; try discriminate.
    - apply IH. intros s Hin. apply H. right; exact Hin.
    - exfalso. exact (H s0 (or_introl eq_refl) st E).
  Qed.

  (* PARTIAL (no_panic_partial): accepted packets whose input i satisfies panic_guards never panic *)
  Theorem no_panic_partial v p i :
    accepted p -> (i < length (svp_ins p))%nat ->
    (forall inp, nth_error (svp_ins p) i = Some inp -> panic_guards v p i inp) ->
    forall site, VI v p i <> VPanic site.
  Proof.
    intros [Hlen Hsig] Hi Hg site. unfold vs_validate_input.
    destruct (nth_error (svp_ins p) i) as [inp|] eqn:En.
    - destruct (svi_sigs inp) as [|s0 r] eqn:Es; [discriminate|]. rewrite <- Es.
      apply validate_sigs_no_panic. intros s Hin.
      apply validate_sig_no_panic; [lia | apply Hg; reflexivity |].
      apply (Hsig inp); [eapply nth_error_In; exact En | exact Hin].
    - apply nth_error_None in En. lia.
  Qed.
End Spec.


(* ---------- a toy instantiation: hypotheses are satisfiable, refutation witnesses ---------- *)
Definition toy_digest (a : valgo) (t : tx) (i : nat) (code amount : bytes) (ht : N) : bytes :=
  (match a with VLegacy => x00 | VSegwitV0 => x01 end) :: code ++ amount ++ [b8 ht].
Definition toy_parse_pk (pub : bytes) : option bytes := Some pub.
Definition toy_der_ok (_ : bytes) : bool := true.
(* a "signature" by key k on message m is k ++ m *)
Definition toy_verify (k m s : bytes) : bool := bytes_eqb s (k ++ m).
Definition toy_signed (k m s : bytes) : Prop := s = k ++ m.
Definition toy_hash160 (b : bytes) : bytes := b.

Notation TVI := (vs_validate_input toy_digest toy_parse_pk toy_der_ok toy_verify toy_hash160).

Example toy_ideal_sig : forall k m s, toy_verify k m s = true -> toy_signed k m s.
Proof. intros k m s H. apply bytes_eqb_eq in H. exact H. Qed.

Definition toy_sig (k : bytes) (d : bytes) (ht : N) : bytes := k ++ d ++ [b8 ht].

Definition out_of (script value : bytes) : txout := mk_out [] value script [] [] [].
Definition tx_of (ins : list txin) (outs : list txout) : tx := mk_tx 2 0 0 ins outs.
Definition in_of (h : bytes) (idx : N) : txin := mk_in h idx 0xffffffff [] [] false [] None [] [].

Definition kA : bytes := [x02].                                (* toy key; its toy HASH160 is itself *)
Definition scrA : bytes := [x76; x01; x02].                    (* OP_DUP <02> : mentions kA *)
Definition scrB : bytes := [x76; x01; x03].                    (* somebody else's script *)
Definition kW : bytes := repeat x11 20.                         (* toy key whose HASH160 is a 20-byte program *)
Definition spkW : bytes := [x00; x14] ++ kW.                    (* P2WPKH-shaped *)

(* ---- the four packets that refuted the full statement before the fixes a910e27 / 9415d49
        are now rejected ---- *)
(* 1. v0: a previous transaction whose id is not the outpoint txid (it compares above it) *)
Definition prevA : tx := Eval vm_compute in tx_of [in_of [] 0] [out_of scrA [x01]].
Definition pkt1 : vpacket := Eval vm_compute in
  mk_vpacket (tx_of [in_of [] 0] [out_of [] [x01]])
    [mk_vinput (Some prevA) None None None
       [Some (mk_vsig (Some kA) (toy_sig kA (toy_digest VLegacy (tx_of [] []) 0 scrA [] 1) 1))] [] 0].

(* 2. both utxo records present, amounts disagree, signature over the witness-utxo amount *)
Definition prevW : tx := Eval vm_compute in tx_of [in_of [] 0] [out_of spkW [x01; x05]].
Definition idW : bytes := Eval vm_compute in txid prevW.
Lemma idW_ok : txid prevW = idW.
Proof. vm_compute. reflexivity. Qed.
Definition pkt2 : vpacket := Eval vm_compute in
  mk_vpacket (tx_of [in_of idW 0] [out_of [] [x01]])
    [mk_vinput (Some prevW) (Some (out_of spkW [x01; x09])) None None
       [Some (mk_vsig (Some kW) (toy_sig kW (toy_digest VSegwitV0 (tx_of [] []) 0 (vs_p2pkh_code kW) [x01; x09] 1) 1))]
       idW 0].

(* 3. a redeem script that the spent script does not commit to *)
Definition prevB : tx := Eval vm_compute in tx_of [in_of [] 0] [out_of scrB [x01]].
Definition idB : bytes := Eval vm_compute in txid prevB.
Lemma idB_ok : txid prevB = idB.
Proof. vm_compute. reflexivity. Qed.
Definition pkt3 : vpacket := Eval vm_compute in
  mk_vpacket (tx_of [in_of idB 0] [out_of [] [x01]])
    [mk_vinput (Some prevB) None (Some scrA) None
       [Some (mk_vsig (Some kA) (toy_sig kA (toy_digest VLegacy (tx_of [] []) 0 scrA [] 1) 1))]
       idB 0].

(* 4. a witness script that is not the pre-image of the P2WSH program *)
Definition wsA : bytes := [x51; x01; x02].                     (* OP_1 <02> *)
Definition pkt4 : vpacket := Eval vm_compute in
  mk_vpacket (tx_of [in_of (repeat x07 32) 0] [out_of [] [x01]])
    [mk_vinput None (Some (out_of ([x00; x20] ++ repeat x00 32) [x01; x05])) None (Some wsA)
       [Some (mk_vsig (Some kA) (toy_sig kA (toy_digest VSegwitV0 (tx_of [] []) 0 wsA [x01; x05] 1) 1))]
       (repeat x07 32) 0].

Example former_witnesses_rejected :
  TVI VsV0 pkt1 0 = VErr /\                               (* previous transaction with another id *)
  TVI VsV0 pkt2 0 = VOk false /\ TVI VsV2 pkt2 0 = VOk false /\   (* signature over the wrong amount *)
  TVI VsV0 pkt3 0 = VErr /\ TVI VsV2 pkt3 0 = VErr /\     (* uncommitted redeem script *)
  TVI VsV0 pkt4 0 = VErr /\ TVI VsV2 pkt4 0 = VErr.       (* uncommitted witness script *)
Proof. vm_compute. repeat split. Qed.

(* ---- what is still refutable in the abstract model ---- *)
Ltac refute_sig_genuine :=
  let H := fresh "H" in
  intros (pub & sg & ck & last & rder & d & sat & asm & E1 & E2 & E3 & E4 & E5 & E6 & E7);
  injection E1 as <- <-; vm_compute in E2; injection E2 as <-;
  vm_compute in E3; injection E3 as <- <-;
  vm_compute in E4; try discriminate E4; injection E4 as <- <-;
  vm_compute in E6; discriminate E6.

(* a malformed witness program OP_0 <01> <02> <19 bytes>: GetScriptType calls it P2WPKH (first
   byte 0, 20 bytes after the second), so the digest is the segwit one over a P2PKH code made
   of script[2:], not a digest of the output's script.  The witness needs a key whose hex is
   shorter than a 20-byte push (here the 1-byte toy key 02); with real keys (33-byte
   compressed key, 20-byte HASH160) no such script passes the key test, and the S oracle
   finds none on the implementation. *)
Definition spkM : bytes := [x00; x01; x02] ++ repeat x51 19.
Definition pktM : vpacket := Eval vm_compute in
  mk_vpacket (tx_of [in_of (repeat x07 32) 0] [out_of [] [x01]])
    [mk_vinput None (Some (out_of spkM [x01; x05])) None None
       [Some (mk_vsig (Some kA) (toy_sig kA (toy_digest VSegwitV0 (tx_of [] []) 0 (vs_p2pkh_code (skipn 2 spkM)) [x01; x05] 1) 1))]
       (repeat x07 32) 0].

Theorem valid_only_if_refuted_malformed_program :
  TVI VsV0 pktM 0 = VOk true /\ TVI VsV2 pktM 0 = VOk true /\
  exists inp s, nth_error (svp_ins pktM) 0 = Some inp /\ In s (svi_sigs inp) /\
    ~ sig_genuine toy_digest toy_parse_pk toy_der_ok toy_verify toy_hash160 VsV2 pktM 0 inp s.
Proof.
  split; [vm_compute; reflexivity|]. split; [vm_compute; reflexivity|].
  eexists; eexists. split; [reflexivity|]. split; [left; reflexivity|].
  refute_sig_genuine.
Qed.

Theorem valid_only_if_refuted :
  ~ valid_only_if_statement toy_digest toy_parse_pk toy_der_ok toy_verify toy_hash160.
Proof.
  intro H. destruct valid_only_if_refuted_malformed_program as (_ & Hv & inp & s & Hn & Hin & Hng).
  destruct (H VsV2 pktM 0%nat Hv) as (inp' & Hn' & _ & Hg & _).
  rewrite Hn in Hn'. injection Hn' as <-. exact (Hng (Hg s Hin)).
Qed.

(* the key test is a substring test on the hex disassembly: a match at an odd hex offset
   is accepted although the key bytes occur nowhere in the script *)
Theorem key_hex_match_not_bytewise :
  exists script asm ck, vs_disasm script = Some asm /\
    vs_is_infix (to_hex ck) asm = true /\ vs_is_infix ck script = false.
Proof. exists [x02; x10; x12], (to_hex [x10; x12]), [x01]. vm_compute. repeat split. Qed.

(* the hypotheses of valid_only_if_partial are satisfiable: an honest P2WPKH input with
   both utxo records (valid, well-formed program), and a P2SH-wrapped multisig-like input *)
Definition pkt0 : vpacket := Eval vm_compute in
  mk_vpacket (tx_of [in_of idW 0] [out_of [] [x01]])
    [mk_vinput (Some prevW) (Some (out_of spkW [x01; x05])) None None
       [Some (mk_vsig (Some kW) (toy_sig kW (toy_digest VSegwitV0 (tx_of [] []) 0 (vs_p2pkh_code kW) [x01; x05] 1) 1))]
       idW 0].

Example valid_packet_wf_program :
  TVI VsV2 pkt0 0 = VOk true /\ TVI VsV0 pkt0 0 = VOk true /\
  exists inp, nth_error (svp_ins pkt0) 0 = Some inp /\
    forall o, spent_output VsV2 pkt0 0 inp = Some o -> wf_program (used_script inp o).
Proof.
  split; [vm_compute; reflexivity|]. split; [vm_compute; reflexivity|].
  eexists. split; [reflexivity|].
  intros o Ho. vm_compute in Ho. injection Ho as <-. intros _. left. vm_compute. discriminate.
Qed.

(* a committed redeem script is accepted (toy HASH160 is the identity: the program is the script) *)
Definition rsA : bytes := repeat x51 17 ++ [x76; x01; x02].    (* 20 bytes, mentions kA *)
Definition prevS : tx := Eval vm_compute in tx_of [in_of [] 0] [out_of ([xa9; x14] ++ rsA ++ [x87]) [x01]].
Definition idS : bytes := Eval vm_compute in txid prevS.
Definition pktS : vpacket := Eval vm_compute in
  mk_vpacket (tx_of [in_of idS 0] [out_of [] [x01]])
    [mk_vinput (Some prevS) None (Some rsA) None
       [Some (mk_vsig (Some kA) (toy_sig kA (toy_digest VLegacy (tx_of [] []) 0 rsA [] 1) 1))]
       idS 0].
Example committed_redeem_script_valid : TVI VsV0 pktS 0 = VOk true /\ TVI VsV2 pktS 0 = VOk true.
Proof. vm_compute. split; reflexivity. Qed.

(* the hypotheses of corruption_rejected are satisfiable (toy signatures are produced for one message) *)
Example toy_signed_only : forall k m m' s, toy_signed k m s -> toy_signed k m' s -> m = m'.
Proof. unfold toy_signed. intros k m m' s -> H. apply app_inv_head in H. exact H. Qed.

(* ---------- panics on accepted packets ---------- *)
(* an empty script / the one-byte script OP_0 in the witness-utxo record *)
Definition pkt7 (s : bytes) : vpacket :=
  mk_vpacket (tx_of [in_of [] 0] [])
    [mk_vinput None (Some (out_of s [x01])) None None [Some (mk_vsig (Some kA) [x01])] [] 0].

Lemma toy_accepted_single t inp pub sg :
  svi_sigs inp = [Some (mk_vsig (Some pub) sg)] -> length (t_ins t) = 1%nat ->
  accepted toy_parse_pk (mk_vpacket t [inp]).
Proof.
  intros Hs Hl. split; [exact Hl|]. intros inp' [<-|[]] s Hin. rewrite Hs in Hin.
  destruct Hin as [<-|[]]. exists pub, sg. split; [reflexivity | discriminate].
Qed.

Theorem no_panic_refuted :
  (accepted toy_parse_pk (pkt7 []) /\ TVI VsV0 (pkt7 []) 0 = VPanic VPScriptEmpty /\ TVI VsV2 (pkt7 []) 0 = VPanic VPScriptEmpty) /\
  (accepted toy_parse_pk (pkt7 [x00]) /\ TVI VsV0 (pkt7 [x00]) 0 = VPanic VPScriptShort /\ TVI VsV2 (pkt7 [x00]) 0 = VPanic VPScriptShort).
Proof.
  repeat split; try (vm_compute; reflexivity);
    (eapply toy_accepted_single; [reflexivity | reflexivity]).
Qed.

Theorem no_panic_statement_refuted :
  ~ no_panic_statement toy_digest toy_parse_pk toy_der_ok toy_verify toy_hash160.
Proof.
  intro H. destruct no_panic_refuted as [[Ha [Hp _]] _].
  apply (H VsV0 (pkt7 []) 0%nat Ha) with (site := VPScriptEmpty); [vm_compute; lia | exact Hp].
Qed.

(* the panics repaired by a910e27 are errors now *)
Definition pkt5 : vpacket := Eval vm_compute in
  mk_vpacket (tx_of [in_of idB 1] [])
    [mk_vinput (Some prevB) None None None [Some (mk_vsig (Some kA) [x01])] idB 1].
Definition pkt6 : vpacket := Eval vm_compute in
  mk_vpacket (tx_of [in_of idW 0] [])
    [mk_vinput (Some prevW) None None None [Some (mk_vsig (Some kW) [x01])] idW 0].
Example former_panics_are_errors :
  TVI VsV0 pkt5 0 = VErr /\ TVI VsV2 pkt5 0 = VErr /\                  (* outpoint index past the outputs *)
  TVI VsV0 pkt6 0 = VOk false /\ TVI VsV2 pkt6 0 = VOk false /\        (* P2WPKH described by the previous transaction only *)
  TVI VsV2 (mk_vpacket (tx_of [in_of [] 0] []) [mk_vinput None None None None [Some (mk_vsig (Some kA) [])] [] 0]) 0
    = VErr.                                                            (* empty signature *)
Proof. vm_compute. repeat split. Qed.

(* outside the parsers' guarantees: a nil signature element, an index past the inputs (hand-built packets only) *)
Example panic_on_unparsed :
  TVI VsV0 (mk_vpacket (tx_of [in_of [] 0] []) [mk_vinput None None None None [None] [] 0]) 0 = VPanic VPSigNil /\
  TVI VsV0 (mk_vpacket (tx_of [] []) []) 0 = VPanic VPInputIndex.
Proof. vm_compute. repeat split. Qed.

(* the guards of no_panic_partial are satisfiable *)
Example no_panic_guards_hold :
  accepted toy_parse_pk pkt0 /\ forall inp, nth_error (svp_ins pkt0) 0 = Some inp -> panic_guards VsV2 pkt0 0 inp.
Proof.
  split.
  - eapply toy_accepted_single; [reflexivity | reflexivity].
  - intros inp Hn. vm_compute in Hn. injection Hn as <-. intros o Ho. vm_compute in Ho. injection Ho as <-.
    split; [vm_compute; discriminate|]. intros a Ha. vm_compute in Ha. discriminate.
Qed.

(* ---------- ValidateAllSignatures ---------- *)
Section All.
  Variable digest : valgo -> tx -> nat -> bytes -> bytes -> N -> bytes.
  Variable parse_pk : bytes -> option bytes.
  Variable der_ok : bytes -> bool.
  Variable verify : bytes -> bytes -> bytes -> bool.
  Variable hash160 : bytes -> bytes.
  Notation VI := (vs_validate_input digest parse_pk der_ok verify hash160).

  Lemma validate_from_true v p n : forall k,
    vs_validate_from digest parse_pk der_ok verify hash160 v p k n = VOk true ->
    forall j, (k <= j < k + n)%nat -> VI v p j = VOk true.
  Proof.
    induction n as [|n IH]; intros k H j Hj; [lia|].
    cbn [vs_validate_from] in H.
    destruct (VI v p k) as [[|]| |st] eqn:E; try discriminate.
    destruct (Nat.eq_dec j k) as [->|Hne]; [exact E|].
    apply (IH (S k) H). lia.
  Qed.

  (* a valid verdict for the packet is a valid verdict for every input (in particular every
     input carries at least one partial signature) *)
  Theorem validate_all_only_if v p :
    vs_validate_all digest parse_pk der_ok verify hash160 v p = VOk true ->
    forall j, (j < length (svp_ins p))%nat -> VI v p j = VOk true.
  Proof.
    unfold vs_validate_all. intros H j Hj. apply (validate_from_true v p _ 0%nat H). lia.
  Qed.
End All.

(* ---------- corruption_rejected, field by field ---------- *)
Section Fields.
  Variable digest : valgo -> tx -> nat -> bytes -> bytes -> N -> bytes.
  Variable parse_pk : bytes -> option bytes.
  Variable der_ok : bytes -> bool.
  Variable verify : bytes -> bytes -> bytes -> bool.
  Variable hash160 : bytes -> bytes.
  Notation VI := (vs_validate_input digest parse_pk der_ok verify hash160).
  Notation HS := (vs_hash_and_script digest hash160).

  (* whatever the validator returns is a digest of this transaction and input *)
  Lemma hash_and_script_is_digest v p i inp ht d scr :
    HS v p i inp ht = VOk (d, scr) ->
    exists a c am, d = digest a (svp_tx p) i c am ht.
  Proof.
    unfold vs_hash_and_script. intro H.
    destruct (svi_nonwit inp) as [prev|].
    - apply vbind_ok in H as [[h idx] [_ H]]. cbn [fst snd] in H.
      destruct (negb _); [discriminate|]. destruct (_ <=? _); [discriminate|].
      destruct (nth_error _ _) as [o|]; [|discriminate].
      apply vbind_ok in H as [script [_ H]].
      apply vbind_ok in H as [ty [_ H]].
      destruct ty.
      + apply vbind_ok in H as [d0 [Hd H]]. injection H as <- <-.
        apply (digest_v0_ok digest) in Hd. eexists; eexists; eexists; exact Hd.
      + destruct (svi_witscript inp) as [ws|]; [|discriminate].
        destruct (negb _); [discriminate|].
        apply vbind_ok in H as [d0 [Hd H]]. injection H as <- <-.
        apply (digest_v0_ok digest) in Hd. eexists; eexists; eexists; exact Hd.
      + injection H as <- <-. eexists; eexists; eexists; reflexivity.
      + injection H as <- <-. eexists; eexists; eexists; reflexivity.
      + injection H as <- <-. eexists; eexists; eexists; reflexivity.
      + injection H as <- <-. eexists; eexists; eexists; reflexivity.
    - destruct (svi_wit inp) as [w|]; [|discriminate].
      apply vbind_ok in H as [script [_ H]].
      apply vbind_ok in H as [ty [_ H]].
      destruct ty; try discriminate.
      + apply vbind_ok in H as [d0 [Hd H]]. injection H as <- <-.
        apply (digest_v0_ok digest) in Hd. eexists; eexists; eexists; exact Hd.
      + destruct (negb _); [discriminate|].
        apply vbind_ok in H as [d0 [Hd H]]. injection H as <- <-.
        apply (digest_v0_ok digest) in Hd. eexists; eexists; eexists; exact Hd.
  Qed.

  Variable signed : bytes -> bytes -> bytes -> Prop.
  Hypothesis ideal_sig : forall k m s, verify k m s = true -> signed k m s.
  (* C02's sensitivity, as a hypothesis: equal digests force equal algorithm, input index,
     script code, amount, hash type and equal covered transaction fields *)
  Variable same_covered : valgo -> N -> nat -> tx -> tx -> Prop.
  Hypothesis digest_sensitive : forall a t i c am ht a' t' i' c' am' ht',
    digest a t i c am ht = digest a' t' i' c' am' ht' ->
    a = a' /\ i = i' /\ c = c' /\ am = am' /\ ht = ht' /\ same_covered a ht i t t'.

  (* A signature that its key holder produced only for
     digest a0 t0 i0 c0 am0 ht0 is accepted in a packet only if the validator, on that packet,
     hashes the same algorithm, input index, script code, amount and hash type, over a
     transaction equal to t0 in every covered field: changing any of them (a covered field,
     the script or amount that end up hashed, the hash-type byte) gives invalid or an error. *)
  Theorem corruption_rejected_fields v p i inp pub sg ck last rder a0 t0 i0 c0 am0 ht0 :
    nth_error (svp_ins p) i = Some inp ->
    In (Some (mk_vsig (Some pub) sg)) (svi_sigs inp) ->
    parse_pk pub = Some ck -> rev sg = last :: rder ->
    (forall m, signed ck m (rev rder) -> m = digest a0 t0 i0 c0 am0 ht0) ->
    VI v p i = VOk true ->
    exists scr, HS v p i inp (n8 last) = VOk (digest a0 t0 i0 c0 am0 ht0, scr) /\
      i = i0 /\ n8 last = ht0 /\ same_covered a0 ht0 i0 t0 (svp_tx p) /\
      digest a0 t0 i0 c0 am0 ht0 = digest a0 (svp_tx p) i c0 am0 (n8 last).
  Proof.
    intros Hn Hin Hpk Hrev Honly H.
    apply (valid_only_if_checked digest parse_pk der_ok verify hash160) in H as [inp' [Hn' [_ [Hs _]]]].
    rewrite Hn in Hn'. injection Hn' as <-.
    destruct (Hs _ Hin) as (pub' & sg' & ck' & last' & rder' & d & scr & asm & E1 & E2 & E3 & E4 & E5 & E6 & _).
    injection E1 as <- <-. rewrite Hpk in E2. injection E2 as <-.
    rewrite Hrev in E3. injection E3 as <- <-.
    apply ideal_sig in E6. apply Honly in E6. subst d.
    destruct (hash_and_script_is_digest _ _ _ _ _ _ _ E4) as (a & c & am & Hd).
    destruct (digest_sensitive _ _ _ _ _ _ _ _ _ _ _ _ Hd) as (Ea & Ei & Ec & Eam & Eht & Hcov).
    subst a i0 c am. exists scr.
    split; [exact E4|]. split; [reflexivity|]. split; [symmetry; exact Eht|]. split; [exact Hcov|].
    exact Hd.
  Qed.
End Fields.

(* the hypotheses of corruption_rejected_fields are satisfiable: an injective toy digest that
   covers the whole transaction *)
Example toy_digest_sensitive_instance :
  exists (dg : valgo -> tx -> nat -> bytes -> bytes -> N -> valgo * tx * nat * bytes * bytes * N),
    forall a t i c am ht a' t' i' c' am' ht',
      dg a t i c am ht = dg a' t' i' c' am' ht' ->
      a = a' /\ i = i' /\ c = c' /\ am = am' /\ ht = ht' /\ t = t'.
Proof.
  exists (fun a t i c am ht => (a, t, i, c, am, ht)).
  intros a t i c am ht a' t' i' c' am' ht' H. injection H as -> -> -> -> -> ->. repeat split.
Qed.
