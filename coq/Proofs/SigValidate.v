(* Proofs/SigValidate.v — C10: what a "valid" verdict of the partial-signature
   validator (Model/SigValidate.v, following /repo after fixes a910e27 and 9415d49)
   guarantees, what it still does not, and when it panics. *)
From GE Require Import Lib.Bytes Lib.Varint Lib.Sha256 Model.Tx Model.TxHash Model.SigValidate.
From Coq Require Import ZifyBool ZifyN ZifyNat.
Open Scope N_scope.

(* ---------- small facts ---------- *)
Lemma vbind_ok {A B} (x : vres A) (f : A -> vres B) b :
  vbind x f = VOk b -> exists a, x = VOk a /\ f a = VOk b.
Proof. destruct x as [a| |s]; cbn; intro H; try discriminate. exists a. split; [reflexivity|exact H]. Qed.

(* ---------- the key test is byte-exact on data pushes ---------- *)
Lemma push_case f lenlen r op0 ts :
  match p_le lenlen r with
  | None => None
  | Some (n, r1) =>
      if 0x80000000 <=? n then None
      else match takeN n r1 with
           | None => None
           | Some (d, r2) => match vs_tokenize f r2 with Some ts => Some ((op0, Some d) :: ts) | None => None end
           end
  end = Some ts ->
  exists lenb d1 r2 ts', r = lenb ++ d1 ++ r2 /\ vs_tokenize f r2 = Some ts' /\
                         ts = (op0, Some d1) :: ts' /\ length lenb = lenlen.
Proof.
  destruct (p_le lenlen r) as [[n r1]|] eqn:Ep; [|discriminate].
  destruct (0x80000000 <=? n); [discriminate|].
  destruct (takeN n r1) as [[d1 r2]|] eqn:Et; [|discriminate].
  destruct (vs_tokenize f r2) as [ts'|] eqn:Er; [|discriminate].
  intro H; injection H as <-.
  apply p_le_inv in Ep as [-> _]. apply takeN_inv in Et as [-> _].
  exists (le_enc lenlen n), d1, r2, ts'. repeat split; try assumption. apply le_enc_length.
Qed.

(* every data push of a tokenized script is a contiguous part of the script, after at least its opcode byte *)
Lemma push_in_script fuel : forall s ts op d,
  vs_tokenize fuel s = Some ts -> In (op, Some d) ts ->
  exists pre post, s = pre ++ d ++ post /\ pre <> [].
Proof.
  induction fuel as [|f IH]; intros s ts op d H Hin; [discriminate|].
  cbn [vs_tokenize] in H. destruct s as [|b r]; [injection H as <-; destruct Hin|].
  cbv zeta in H.
  destruct ((1 <=? n8 b) && (n8 b <=? 75)) eqn:E1.
  - destruct (takeN (n8 b) r) as [[d1 r2]|] eqn:Et; [|discriminate].
    destruct (vs_tokenize f r2) as [ts'|] eqn:Er; [|discriminate]. injection H as <-.
    apply takeN_inv in Et as [-> _].
    destruct Hin as [Hq|Hin].
    + injection Hq as _ <-. exists [b], r2. split; [reflexivity|discriminate].
    + destruct (IH _ _ _ _ Er Hin) as (pre & post & -> & _). exists (b :: d1 ++ pre), post.
      split; [|discriminate]. cbn. rewrite <- app_assoc. reflexivity.
  - assert (Hpush : forall lenlen,
      match p_le lenlen r with
      | None => None
      | Some (n, r1) =>
          if 0x80000000 <=? n then None
          else match takeN n r1 with
               | None => None
               | Some (d, r2) => match vs_tokenize f r2 with Some ts => Some ((n8 b, Some d) :: ts) | None => None end
               end
      end = Some ts -> exists pre post, b :: r = pre ++ d ++ post /\ pre <> []).
    { intros lenlen Hp. apply push_case in Hp as (lenb & d1 & r2 & ts' & -> & Er & -> & _).
      destruct Hin as [Hq|Hin].
      - injection Hq as _ <-. exists (b :: lenb), r2. split; [reflexivity|discriminate].
      - destruct (IH _ _ _ _ Er Hin) as (pre & post & -> & _). exists (b :: lenb ++ d1 ++ pre), post.
        split; [|discriminate]. cbn. rewrite <- !app_assoc. reflexivity. }
    destruct (n8 b =? 76); [exact (Hpush _ H)|].
    destruct (n8 b =? 77); [exact (Hpush _ H)|].
    destruct (n8 b =? 78); [exact (Hpush _ H)|].
    destruct (vs_tokenize f r) as [ts'|] eqn:Er; [|discriminate]. injection H as <-.
    destruct Hin as [Hq|Hin]; [discriminate|].
    destruct (IH _ _ _ _ Er Hin) as (pre & post & -> & _). exists (b :: pre), post. split; [reflexivity|discriminate].
Qed.

Lemma push_shorter fuel s ts op d :
  vs_tokenize fuel s = Some ts -> In (op, Some d) ts -> (length d < length s)%nat.
Proof.
  intros H Hin. destruct (push_in_script _ _ _ _ _ H Hin) as (pre & post & -> & Hne).
  rewrite !app_length. destruct pre; [congruence|]. cbn. lia.
Qed.

Lemma tokenize_op0 f b r ts :
  n8 b = 0 -> vs_tokenize (S f) (b :: r) = Some ts ->
  exists ts', vs_tokenize f r = Some ts' /\ ts = (n8 b, None) :: ts'.
Proof.
  intros Hb H. cbn [vs_tokenize] in H. cbv zeta in H. rewrite Hb in H.
  change ((1 <=? 0) && (0 <=? 75)) with false in H.
  change (0 =? 76) with false in H. change (0 =? 77) with false in H. change (0 =? 78) with false in H.
  cbv iota in H. destruct (vs_tokenize f r) as [ts'|]; [|discriminate].
  injection H as <-. exists ts'. rewrite Hb. split; reflexivity.
Qed.

(* the first token is the only one that can carry a push as long as the rest of the script *)
Lemma tokenize_step_bound f b r ts op d :
  vs_tokenize (S f) (b :: r) = Some ts -> In (op, Some d) ts ->
  (length d = length r /\ n8 b = N.of_nat (length d) /\ (1 <=? n8 b) && (n8 b <=? 75) = true) \/
  (length d < length r)%nat.
Proof.
  intros H Hin. cbn [vs_tokenize] in H. cbv zeta in H.
  destruct ((1 <=? n8 b) && (n8 b <=? 75)) eqn:E1.
  - destruct (takeN (n8 b) r) as [[d1 r3]|] eqn:Et; [|discriminate].
    destruct (vs_tokenize f r3) as [ts'|] eqn:Er; [|discriminate]. injection H as <-.
    apply takeN_inv in Et as [-> Hn]. rewrite app_length.
    destruct Hin as [Hq|Hin].
    + injection Hq as _ <-. destruct r3 as [|x r3]; [left; cbn; split; [lia|split; [lia|reflexivity]] | right; cbn; lia].
    + pose proof (push_shorter _ _ _ _ _ Er Hin). right. lia.
  - right.
    assert (Hpush : forall lenlen, lenlen <> 0%nat ->
      match p_le lenlen r with
      | None => None
      | Some (n, r1) =>
          if 0x80000000 <=? n then None
          else match takeN n r1 with
               | None => None
               | Some (d, r2) => match vs_tokenize f r2 with Some ts => Some ((n8 b, Some d) :: ts) | None => None end
               end
      end = Some ts -> (length d < length r)%nat).
    { intros lenlen Hll Hp. apply push_case in Hp as (lenb & d1 & r3 & ts' & -> & Er & -> & Hlb).
      rewrite !app_length. destruct Hin as [Hq|Hin].
      - injection Hq as _ <-. lia.
      - pose proof (push_shorter _ _ _ _ _ Er Hin). lia. }
    destruct (n8 b =? 76); [apply (Hpush 1%nat); [lia|exact H]|].
    destruct (n8 b =? 77); [apply (Hpush 2%nat); [lia|exact H]|].
    destruct (n8 b =? 78); [apply (Hpush 4%nat); [lia|exact H]|].
    destruct (vs_tokenize f r) as [ts'|] eqn:Er; [|discriminate]. injection H as <-.
    destruct Hin as [Hq|Hin]; [discriminate|].
    exact (push_shorter _ _ _ _ _ Er Hin).
Qed.

Section KeyTest.
  Variable hash160 : bytes -> bytes.

  (* the key test holds iff some data push IS the compressed key or the HASH160 of the key bytes *)
  Theorem key_test_exact ck pub ts :
    vs_key_in_pushes hash160 ck pub ts = true <->
    exists op d, In (op, Some d) ts /\ (d = ck \/ d = hash160 pub).
  Proof.
    unfold vs_key_in_pushes. rewrite existsb_exists. split.
    - intros [[op od] [Hin Ht]]. cbn [snd] in Ht. destruct od as [d|]; [|discriminate].
      exists op, d. split; [exact Hin|].
      apply orb_true_iff in Ht as [Ht|Ht]; apply bytes_eqb_eq in Ht; [left|right]; exact Ht.
    - intros (op & d & Hin & Hd). exists (op, Some d). split; [exact Hin|]. cbn [snd].
      apply orb_true_iff. destruct Hd as [->| ->]; [left|right]; apply bytes_eqb_eq; reflexivity.
  Qed.

  (* hence the key (or its hash) occurs byte for byte in the script being satisfied *)
  Theorem key_test_bytewise script ts ck pub :
    vs_script_tokens script = Some ts -> vs_key_in_pushes hash160 ck pub ts = true ->
    exists k pre post, (k = ck \/ k = hash160 pub) /\ script = pre ++ k ++ post.
  Proof.
    intros Ht Hk. apply key_test_exact in Hk as (op & d & Hin & Hd).
    destruct (push_in_script _ _ _ _ _ Ht Hin) as (pre & post & Hs & _).
    exists d, pre, post. split; assumption.
  Qed.

  (* a 22-byte OP_0 script with a push of 20 or more bytes is OP_0 OP_DATA_20 <20 bytes> *)
  Lemma wpkh_second_byte a b r2 ts op d :
    n8 a = 0 -> length r2 = 20%nat -> vs_script_tokens (a :: b :: r2) = Some ts ->
    In (op, Some d) ts -> (20 <= length d)%nat -> n8 b = 0x14.
  Proof.
    intros Ha Hl Ht Hin Hd. unfold vs_script_tokens in Ht. cbn [length] in Ht.
    apply tokenize_op0 in Ht as (ts0 & Ht0 & ->); [|exact Ha].
    destruct Hin as [Hq|Hin]; [discriminate|].
    destruct (tokenize_step_bound _ _ _ _ _ _ Ht0 Hin) as [(H1 & H2 & _)|H1]; lia.
  Qed.
End KeyTest.

(* ---------- specification side ---------- *)
Section Spec.
  Variable digest : valgo -> tx -> nat -> bytes -> bytes -> N -> bytes.
  Variable parse_pk : bytes -> option bytes.
  Variable der_ok : bytes -> bool.
  Variable verify : bytes -> bytes -> bytes -> bool.
  Variable hash160 : bytes -> bytes.

  Notation VI := (vs_validate_input digest parse_pk der_ok verify hash160).
  Notation VSig := (vs_validate_sig digest parse_pk der_ok verify hash160).
  Notation VSigs := (vs_validate_sigs digest parse_pk der_ok verify hash160).
  Notation HS := (vs_hash_and_script digest hash160).

  (* the outpoint of input i *)
  Definition outpoint_of (v : vver) (p : vpacket) (i : nat) (inp : vinput) : option (bytes * N) :=
    match v with
    | VsV2 => Some (svi_prev_txid inp, svi_prev_index inp)
    | VsV0 => match nth_error (t_ins (svp_tx p)) i with
              | Some ti => Some (in_hash ti, in_index ti)
              | None => None
              end
    end.

  (* the output the input actually spends: the outpoint's output of the supplied previous
     transaction, else the witness-utxo record *)
  Definition spent_output (v : vver) (p : vpacket) (i : nat) (inp : vinput) : option txout :=
    match svi_nonwit inp with
    | Some prev =>
        match outpoint_of v p i inp with
        | Some (_, idx) => if idx <? lenL (t_outs prev) then nth_error (t_outs prev) (N.to_nat idx) else None
        | None => None
        end
    | None => svi_wit inp
    end.

  (* strict script forms *)
  Definition p2wpkh_prog (s : bytes) : option bytes :=
    match s with
    | a :: b :: r => if (n8 a =? 0) && (n8 b =? 0x14) && (length r =? 20)%nat then Some r else None
    | _ => None
    end.
  Notation p2wsh_prog := vs_p2wsh_prog.
  Notation p2sh_prog := vs_p2sh_prog.

  (* what must be hashed for a spent output (algorithm, script code, amount) and the script
     in which the key must occur; None = the packet does not show how the output is spent
     (redeem / witness script missing or not committed to) *)
  Definition witness_sel (inp : vinput) (amount script : bytes) : option (option (valgo * bytes * bytes * bytes)) :=
    match p2wpkh_prog script with
    | Some h => Some (Some (VSegwitV0, vs_p2pkh_code h, amount, script))
    | None =>
        match p2wsh_prog script with
        | Some prog =>
            let w := vs_opt (svi_witscript inp) in       (* a nil witness script is the empty script *)
            if bytes_eqb (sha256 w) prog then Some (Some (VSegwitV0, w, amount, w)) else Some None
        | None => None   (* not a witness program *)
        end
    end.

  Definition spec_select (inp : vinput) (o : txout) : option (valgo * bytes * bytes * bytes) :=
    let spk := o_script o in
    match witness_sel inp (o_value o) spk with
    | Some r => r
    | None =>
        match p2sh_prog spk with
        | Some prog =>
            match svi_redeem inp with
            | Some r =>
                if bytes_eqb (hash160 r) prog then
                  match witness_sel inp (o_value o) r with
                  | Some x => x
                  | None => Some (VLegacy, r, [], r)
                  end
                else None
            | None => Some (VLegacy, spk, [], spk)   (* no redeem script supplied: the output's own script *)
            end
        | None => Some (VLegacy, spk, [], spk)
        end
    end.

  (* digest computed from the script and amount of the output actually spent, and the script being satisfied *)
  Definition digest_of_spent (v : vver) (p : vpacket) (i : nat) (inp : vinput) (ht : N) : option (bytes * bytes) :=
    match spent_output v p i inp with
    | Some o =>
        match spec_select inp o with
        | Some (a, code, am, sat) => Some (digest a (svp_tx p) i code am ht, sat)
        | None => None
        end
    | None => None
    end.

  (* a partial signature that is genuinely valid for input i *)
  Definition sig_genuine (v : vver) (p : vpacket) (i : nat) (inp : vinput) (s : option vsig) : Prop :=
    exists pub sg ck last rder d sat asm,
      s = Some (mk_vsig (Some pub) sg) /\ parse_pk pub = Some ck /\ rev sg = last :: rder /\
      digest_of_spent v p i inp (n8 last) = Some (d, sat) /\
      der_ok (rev rder) = true /\ verify ck d (rev rder) = true /\
      vs_script_tokens sat = Some asm /\ vs_key_in_pushes hash160 ck pub asm = true.

  (* a supplied previous transaction hashes to the outpoint txid *)
  Definition prev_tx_matches (v : vver) (p : vpacket) (i : nat) (inp : vinput) : Prop :=
    forall prev, svi_nonwit inp = Some prev ->
      exists h idx, outpoint_of v p i inp = Some (h, idx) /\ txid prev = h.

  (* FULL STATEMENT (valid_only_if).  Proved below under one residual hypothesis
     (valid_only_if_partial: scripts starting with OP_0 are well-formed witness programs);
     without it the abstract statement is refuted (valid_only_if_refuted). *)
  Definition valid_only_if_statement : Prop :=
    forall v p i, VI v p i = VOk true ->
      exists inp, nth_error (svp_ins p) i = Some inp /\ svi_sigs inp <> [] /\
        (forall s, In s (svi_sigs inp) -> sig_genuine v p i inp s) /\
        prev_tx_matches v p i inp.

  (* ---------- what the code does check ---------- *)
  Definition sig_checked (v : vver) (p : vpacket) (i : nat) (inp : vinput) (s : option vsig) : Prop :=
    exists pub sg ck last rder d scr asm,
      s = Some (mk_vsig (Some pub) sg) /\ parse_pk pub = Some ck /\ rev sg = last :: rder /\
      HS v p i inp (n8 last) = VOk (d, scr) /\
      der_ok (rev rder) = true /\ verify ck d (rev rder) = true /\
      vs_script_tokens scr = Some asm /\ vs_key_in_pushes hash160 ck pub asm = true.

  Lemma validate_sig_true v p i inp s :
    VSig v p i inp s = VOk true -> sig_checked v p i inp s.
  Proof.
    unfold vs_validate_sig, sig_checked. destruct s as [s|]; [|discriminate].
    destruct (vs_pub_missing v s) eqn:Em; [discriminate|].
    destruct s as [opub sg]. cbn [svg_pub svg_sig] in *.
    destruct opub as [pub|]; [|cbn in Em; discriminate]. cbn [vs_opt].
    destruct (rev sg) as [|last rder] eqn:Er; [discriminate|].
    intro H. apply vbind_ok in H as [[d scr] [Hhs H]]. cbn [fst snd] in H.
    apply vbind_ok in H as [ins [Hv H]].
    unfold vs_verify_script in Hv.
    destruct (parse_pk pub) as [ck|] eqn:Epk; [|discriminate].
    destruct (vs_script_tokens scr) as [asm|] eqn:Ed; [|discriminate].
    injection Hv as Hv. subst ins.
    destruct (vs_key_in_pushes hash160 ck pub asm) eqn:Ek; cbn [negb] in H; [|discriminate].
    destruct (der_ok (rev rder)) eqn:Eder; cbn [negb] in H; [|discriminate].
    injection H as H.
    exists pub, sg, ck, last, rder, d, scr, asm. repeat split; auto.
  Qed.

  Lemma validate_sigs_true v p i inp sigs :
    VSigs v p i inp sigs = VOk true -> forall s, In s sigs -> VSig v p i inp s = VOk true.
  Proof.
    induction sigs as [|s0 r IH]; cbn [vs_validate_sigs]; intros H s Hin; [destruct Hin|].
    destruct (VSig v p i inp s0) as [[|]| |] eqn:E0; try discriminate.
    destruct Hin as [<-|Hin]; [exact E0 | apply IH; assumption].
  Qed.

  Lemma validate_input_true v p i :
    VI v p i = VOk true ->
    exists inp, nth_error (svp_ins p) i = Some inp /\ svi_sigs inp <> [] /\
                VSigs v p i inp (svi_sigs inp) = VOk true.
  Proof.
    unfold vs_validate_input. destruct (nth_error (svp_ins p) i) as [inp|]; [|discriminate].
    destruct (svi_sigs inp) as [|s0 r] eqn:Es; [discriminate|].
    intro H. exists inp. rewrite Es. repeat split; [discriminate | exact H].
  Qed.

  Lemma outpoint_spec v p i inp op :
    vs_outpoint v p i inp = VOk op -> outpoint_of v p i inp = Some op.
  Proof.
    unfold vs_outpoint, outpoint_of. destruct v.
    - destruct (nth_error (t_ins (svp_tx p)) i); [|discriminate]. intro H; injection H as <-. reflexivity.
    - intro H; injection H as <-. reflexivity.
  Qed.

  Lemma hash_and_script_prev v p i inp ht r :
    HS v p i inp ht = VOk r -> prev_tx_matches v p i inp.
  Proof.
    unfold vs_hash_and_script, prev_tx_matches. intros H prev Hp. rewrite Hp in H.
    apply vbind_ok in H as [[h idx] [Ho H]]. cbn [fst snd] in H.
    destruct (vs_prev_id_ok h (txid prev)) eqn:Eok; cbn [negb] in H; [|discriminate].
    exists h, idx. split; [apply outpoint_spec; exact Ho|].
    unfold vs_prev_id_ok in Eok. apply bytes_eqb_eq in Eok. symmetry. exact Eok.
  Qed.

  (* valid_only_if_checked: what a valid verdict guarantees for every packet, with no
     hypothesis: every partial signature verifies, under the stated key, the digest the
     validator selected (vs_hash_and_script), the key's hex occurs in the disassembly of the
     script returned with that digest, and a supplied previous transaction hashes to the
     outpoint txid (v0 and v2: this conjunct of the full statement holds outright). *)
  Theorem valid_only_if_checked v p i :
    VI v p i = VOk true ->
    exists inp, nth_error (svp_ins p) i = Some inp /\ svi_sigs inp <> [] /\
      (forall s, In s (svi_sigs inp) -> sig_checked v p i inp s) /\
      prev_tx_matches v p i inp.
  Proof.
    intro H. apply validate_input_true in H as [inp [Hn [Hne Hs]]].
    exists inp. split; [exact Hn|]. split; [exact Hne|]. split.
    - intros s Hin. apply validate_sig_true. eapply validate_sigs_true; eassumption.
    - destruct (svi_sigs inp) as [|s0 r] eqn:Es; [congruence|].
      assert (Hc : sig_checked v p i inp s0).
      { apply validate_sig_true. eapply validate_sigs_true; [exact Hs | left; reflexivity]. }
      destruct Hc as (pub & sg & ck & last & rder & d & scr & asm & _ & _ & _ & Hhs & _).
      eapply hash_and_script_prev; exact Hhs.
  Qed.

  (* the previous-transaction conjunct of the full statement *)
  Theorem prev_tx_matches_always v p i :
    VI v p i = VOk true ->
    exists inp, nth_error (svp_ins p) i = Some inp /\ prev_tx_matches v p i inp.
  Proof.
    intro H. apply valid_only_if_checked in H as [inp [Hn [_ [_ Hp]]]].
    exists inp. split; assumption.
  Qed.

  (* ---------- the full statement, up to well-formed witness programs ---------- *)
  (* the script the validator classifies *)
  Definition used_script (inp : vinput) (o : txout) : bytes :=
    match svi_redeem inp with Some r => r | None => o_script o end.

  (* a script starting with OP_0 is a well-formed v0 witness program.  address.GetScriptType
     looks at script[0] and len(script[2:]) only, so OP_0 <any byte> <20 bytes> is treated as
     P2WPKH; this is the one fact about the packet the validator still does not check *)
  Definition wf_program (s : bytes) : Prop :=
    match s with
    | a :: _ => n8 a = 0 -> p2wpkh_prog s <> None \/ p2wsh_prog s <> None
    | [] => True
    end.

  Lemma bytes_eqb_refl a : bytes_eqb a a = true.
  Proof. apply bytes_eqb_eq. reflexivity. Qed.

  Lemma p2sh_not_witness inp am s prog : p2sh_prog s = Some prog -> witness_sel inp am s = None.
  Proof.
    unfold vs_p2sh_prog, witness_sel, p2wpkh_prog, vs_p2wsh_prog.
    destruct s as [|a [|b r]]; try discriminate.
    destruct (n8 a =? 0xa9) eqn:Ea; cbn [andb]; [|discriminate].
    assert (E0 : (n8 a =? 0) = false) by lia. rewrite E0. cbn [andb]. reflexivity.
  Qed.

  (* once the validator has picked its script (redeem script checked against the spent
     script), the specification selects from that same script *)
  Lemma spec_select_picked inp o script :
    vs_pick_script hash160 inp (o_script o) = VOk script ->
    script = used_script inp o /\
    spec_select inp o =
    match witness_sel inp (o_value o) script with
    | Some x => x
    | None => Some (VLegacy, script, [], script)
    end.
  Proof.
    unfold vs_pick_script, spec_select, used_script, vs_is_redeem_of.
    destruct (svi_redeem inp) as [r|].
    - destruct (p2sh_prog (o_script o)) as [prog|] eqn:Ep; [|discriminate].
      destruct (bytes_eqb (hash160 r) prog) eqn:Eh; [|discriminate].
      intro H; injection H as <-. split; [reflexivity|].
      rewrite (p2sh_not_witness inp (o_value o) _ _ Ep). reflexivity.
    - intro H; injection H as <-. split; [reflexivity|].
      destruct (witness_sel inp (o_value o) (o_script o)); [reflexivity|].
      destruct (p2sh_prog (o_script o)); reflexivity.
  Qed.

  Lemma type_cases script :
    wf_program script ->
    (vs_script_type script = StP2WPKH /\ p2wpkh_prog script = Some (skipn 2 script)) \/
    (vs_script_type script = StP2WSH /\ p2wpkh_prog script = None) \/
    (vs_script_type script <> StP2WPKH /\ vs_script_type script <> StP2WSH /\
     p2wpkh_prog script = None /\ p2wsh_prog script = None).
  Proof.
    unfold vs_script_type, wf_program. destruct script as [|a r].
    { intros _. right; right. repeat split; discriminate. }
    destruct (n8 a =? 0) eqn:Ea.
    - intros Hwf. assert (Ha : n8 a = 0) by lia. specialize (Hwf Ha).
      destruct r as [|b r2].
      + right; left. split; reflexivity.
      + unfold p2wpkh_prog, vs_p2wsh_prog in *. rewrite Ea in *. cbn [andb] in *.
        cbn [length]. destruct (Nat.eqb_spec (S (S (length r2))) 22) as [E22|E22].
        * left. split; [reflexivity|].
          assert (E20 : (length r2 =? 20)%nat = true) by lia. rewrite E20 in *.
          destruct (n8 b =? 0x14) eqn:Eb; cbn [andb] in *; [reflexivity|].
          exfalso. destruct Hwf as [Hw|Hw]; [congruence|].
          assert (E32 : (length r2 =? 32)%nat = false) by lia. rewrite E32, andb_false_r in Hw. congruence.
        * right; left. split; [reflexivity|].
          assert (E20 : (length r2 =? 20)%nat = false) by lia. rewrite E20, andb_false_r. reflexivity.
    - intros _. right; right.
      assert (Hp : p2wpkh_prog (a :: r) = None /\ p2wsh_prog (a :: r) = None).
      { unfold p2wpkh_prog, vs_p2wsh_prog. destruct r as [|b r2]; [split; reflexivity|]. rewrite Ea. cbn [andb]. split; reflexivity. }
      destruct Hp as [Hp1 Hp2].
      destruct (n8 a =? 0x51); [repeat split; try discriminate; assumption|].
      destruct (n8 a =? 0xa9); [repeat split; try discriminate; assumption|].
      destruct (n8 a =? 0x76); repeat split; try discriminate; assumption.
  Qed.

  Lemma is_witness_of_spec ws script :
    vs_is_witness_of ws script = true -> exists prog, p2wsh_prog script = Some prog /\ bytes_eqb (sha256 ws) prog = true.
  Proof.
    unfold vs_is_witness_of. destruct (p2wsh_prog script) as [prog|]; [|discriminate].
    intro H. exists prog. split; [reflexivity|exact H].
  Qed.

  Lemma digest_v0_ok p i script amount ht d :
    vs_digest_v0 digest p i script amount ht = VOk d -> d = digest VSegwitV0 (svp_tx p) i script amount ht.
  Proof.
    unfold vs_digest_v0. destruct (i <? length (t_ins (svp_tx p)))%nat; [|discriminate].
    intro H; injection H as <-. reflexivity.
  Qed.

  (* the digest and script the validator selects are those of the output actually spent *)
  Lemma select_agrees v p i inp ht d scr :
    (forall o, spent_output v p i inp = Some o -> wf_program (used_script inp o)) ->
    HS v p i inp ht = VOk (d, scr) ->
    digest_of_spent v p i inp ht = Some (d, scr).
  Proof.
    intros Hwf H. unfold digest_of_spent. unfold vs_hash_and_script in H.
    unfold spent_output in *.
    destruct (svi_nonwit inp) as [prev|] eqn:Enw.
    - apply vbind_ok in H as [[h idx] [Ho H]]. cbn [fst snd] in H.
      apply outpoint_spec in Ho. rewrite Ho in *.
      destruct (negb (vs_prev_id_ok h (txid prev))); [discriminate|].
      destruct (lenL (t_outs prev) <=? idx) eqn:El; [discriminate|].
      assert (El2 : (idx <? lenL (t_outs prev)) = true) by lia. rewrite El2 in *.
      destruct (nth_error (t_outs prev) (N.to_nat idx)) as [o|]; [|discriminate].
      specialize (Hwf o eq_refl).
      apply vbind_ok in H as [script [Hpick H]].
      destruct (spec_select_picked inp o script Hpick) as [Hus ->]. rewrite <- Hus in Hwf.
      destruct (type_cases _ Hwf) as [[Ety Hp]|[[Ety Hp1]|[Hn1 [Hn2 [Hp1 Hp2]]]]]; try rewrite Ety in H.
      + apply vbind_ok in H as [d0 [Hd H]]. injection H as <- <-.
        apply digest_v0_ok in Hd. subst d0. unfold witness_sel. rewrite Hp. reflexivity.
      + destruct (svi_witscript inp) as [ws|] eqn:Ews; [|discriminate].
        destruct (vs_is_witness_of ws script) eqn:Eis; cbn [negb] in H; [|discriminate].
        destruct (is_witness_of_spec _ _ Eis) as (prog & Hp2 & Hsha).
        apply vbind_ok in H as [d0 [Hd H]]. injection H as <- <-.
        apply digest_v0_ok in Hd. subst d0.
        unfold witness_sel. rewrite Hp1, Hp2, Ews. cbn [vs_opt]. rewrite Hsha. reflexivity.
      + unfold witness_sel. rewrite Hp1, Hp2.
        destruct (vs_script_type script); try congruence; injection H as <- <-; reflexivity.
    - destruct (svi_wit inp) as [o|]; [|discriminate].
      specialize (Hwf o eq_refl).
      apply vbind_ok in H as [script [Hpick H]].
      destruct (spec_select_picked inp o script Hpick) as [Hus ->]. rewrite <- Hus in Hwf.
      destruct (type_cases _ Hwf) as [[Ety Hp]|[[Ety Hp1]|[Hn1 [Hn2 [Hp1 Hp2]]]]]; try rewrite Ety in H.
      + apply vbind_ok in H as [d0 [Hd H]]. injection H as <- <-.
        apply digest_v0_ok in Hd. subst d0. unfold witness_sel. rewrite Hp. reflexivity.
      + destruct (vs_is_witness_of (vs_opt (svi_witscript inp)) script) eqn:Eis; cbn [negb] in H; [|discriminate].
        destruct (is_witness_of_spec _ _ Eis) as (prog & Hp2 & Hsha).
        apply vbind_ok in H as [d0 [Hd H]]. injection H as <- <-.
        apply digest_v0_ok in Hd. subst d0.
        unfold witness_sel. rewrite Hp1, Hp2, Hsha. reflexivity.
      + destruct (vs_script_type script); try congruence; discriminate.
  Qed.

  (* PARTIAL (valid_only_if_partial): the full statement for every packet in which the script
     classified for input i (the redeem script if present, else the spent script) is not a
     malformed witness program.  Everything else the statement asks for is now enforced by
     the validator: previous transaction hashing to the outpoint txid (v0 and v2), amount of
     the output actually spent, redeem script committed to by a P2SH spent script, witness
     script committed to by the P2WSH program, signature verification under the stated key,
     key (hex) in the disassembly of the script being satisfied. *)
  Theorem valid_only_if_partial v p i :
    VI v p i = VOk true ->
    exists inp, nth_error (svp_ins p) i = Some inp /\ svi_sigs inp <> [] /\
      prev_tx_matches v p i inp /\
      ((forall o, spent_output v p i inp = Some o -> wf_program (used_script inp o)) ->
       forall s, In s (svi_sigs inp) -> sig_genuine v p i inp s).
  Proof.
    intro H. apply valid_only_if_checked in H as [inp [Hn [Hne [Hs Hp]]]].
    exists inp. split; [exact Hn|]. split; [exact Hne|]. split; [exact Hp|].
    intros Hwf s Hin.
    destruct (Hs s Hin) as (pub & sg & ck & last & rder & d & scr & asm & E1 & E2 & E3 & E4 & E5 & E6 & E7 & E8).
    exists pub, sg, ck, last, rder, d, scr, asm. repeat split; try assumption.
    apply select_agrees; assumption.
  Qed.

  (* ---------- the full statement, from the sizes of keys and hashes ---------- *)
  Lemma hs_inv v p i inp ht d scr :
    HS v p i inp ht = VOk (d, scr) ->
    exists o, spent_output v p i inp = Some o /\
      let script := used_script inp o in
      (vs_script_type script = StP2WPKH /\ scr = script) \/
      (vs_script_type script = StP2WSH /\ vs_is_witness_of scr script = true) \/
      (vs_script_type script <> StP2WPKH /\ vs_script_type script <> StP2WSH).
  Proof.
    unfold vs_hash_and_script, spent_output. intro H.
    destruct (svi_nonwit inp) as [prev|].
    - apply vbind_ok in H as [[h idx] [Ho H]]. cbn [fst snd] in H.
      apply outpoint_spec in Ho. rewrite Ho.
      destruct (negb _); [discriminate|].
      destruct (lenL (t_outs prev) <=? idx) eqn:El; [discriminate|].
      assert (El2 : (idx <? lenL (t_outs prev)) = true) by lia. rewrite El2.
      destruct (nth_error (t_outs prev) (N.to_nat idx)) as [o|]; [|discriminate].
      exists o. split; [reflexivity|]. cbv zeta.
      apply vbind_ok in H as [script [Hpick H]].
      rewrite <- (proj1 (spec_select_picked inp o script Hpick)).
      destruct (vs_script_type script) eqn:Ety.
      + left. apply vbind_ok in H as [d0 [_ H]]. injection H as _ <-. split; reflexivity.
      + right; left. destruct (svi_witscript inp) as [ws|]; [|discriminate].
        destruct (vs_is_witness_of ws script) eqn:Eis; cbn [negb] in H; [|discriminate].
        apply vbind_ok in H as [d0 [_ H]]. injection H as _ <-. split; [reflexivity|exact Eis].
      + right; right. split; discriminate.
      + right; right. split; discriminate.
      + right; right. split; discriminate.
      + right; right. split; discriminate.
    - destruct (svi_wit inp) as [o|]; [|discriminate].
      exists o. split; [reflexivity|]. cbv zeta.
      apply vbind_ok in H as [script [Hpick H]].
      rewrite <- (proj1 (spec_select_picked inp o script Hpick)).
      destruct (vs_script_type script) eqn:Ety; try discriminate.
      + left. apply vbind_ok in H as [d0 [_ H]]. injection H as _ <-. split; reflexivity.
      + right; left.
        destruct (vs_is_witness_of (vs_opt (svi_witscript inp)) script) eqn:Eis; cbn [negb] in H; [|discriminate].
        apply vbind_ok in H as [d0 [_ H]]. injection H as _ <-. split; [reflexivity|exact Eis].
  Qed.

  (* a script that passed the key test with a 33-byte key / 20-byte hash is a well-formed program *)
  Lemma checked_wf v p i inp ht d scr ts ck pub :
    HS v p i inp ht = VOk (d, scr) ->
    vs_script_tokens scr = Some ts -> vs_key_in_pushes hash160 ck pub ts = true ->
    length ck = 33%nat -> length (hash160 pub) = 20%nat ->
    forall o, spent_output v p i inp = Some o -> wf_program (used_script inp o).
  Proof.
    intros H Ht Hk Hck Hh o Ho.
    destruct (hs_inv _ _ _ _ _ _ _ H) as (o' & Ho' & Hc). rewrite Ho in Ho'. injection Ho' as <-.
    cbv zeta in Hc. unfold wf_program.
    destruct (used_script inp o) as [|a r] eqn:Eus; [exact I|]. intro Ha.
    destruct Hc as [[Ety ->]|[[Ety Hw]|[Hn1 Hn2]]].
    - left. unfold vs_script_type in Ety. rewrite Ha in Ety. cbn [N.eqb] in Ety.
      destruct (Nat.eqb_spec (length (a :: r)) 22) as [E22|E22]; [|discriminate].
      destruct r as [|b r2]; [discriminate|]. cbn [length] in E22.
      apply key_test_exact in Hk as (op & d0 & Hin & Hd).
      assert (Hb : n8 b = 0x14).
      { apply (wpkh_second_byte hash160 a b r2 ts op d0 Ha); [lia | exact Ht | exact Hin |].
        destruct Hd as [->| ->]; lia. }
      unfold p2wpkh_prog. rewrite Ha, Hb. cbn [N.eqb Pos.eqb andb].
      assert (E20 : (length r2 =? 20)%nat = true) by lia. rewrite E20. discriminate.
    - right. unfold vs_is_witness_of in Hw. destruct (p2wsh_prog (a :: r)); [discriminate|discriminate].
    - exfalso. unfold vs_script_type in Hn1, Hn2. rewrite Ha in Hn1, Hn2. cbn [N.eqb] in Hn1, Hn2.
      destruct (length (a :: r) =? 22)%nat; congruence.
  Qed.

  (* FULL (valid_only_if): with the sizes of the two byte strings the key test compares
     (33-byte compressed keys, 20-byte HASH160) as the only hypotheses, a valid verdict gives
     every conjunct of the statement, for every packet, v0 and v2. *)
  Theorem valid_only_if :
    (forall pub ck, parse_pk pub = Some ck -> length ck = 33%nat) ->
    (forall b, length (hash160 b) = 20%nat) ->
    valid_only_if_statement.
  Proof.
    intros Hpk Hh v p i H.
    apply valid_only_if_checked in H as [inp [Hn [Hne [Hs Hp]]]].
    exists inp. split; [exact Hn|]. split; [exact Hne|]. split; [|exact Hp].
    intros s Hin.
    destruct (Hs s Hin) as (pub & sg & ck & last & rder & d & scr & ts & E1 & E2 & E3 & E4 & E5 & E6 & E7 & E8).
    exists pub, sg, ck, last, rder, d, scr, ts. repeat split; try assumption.
    apply select_agrees; [|exact E4].
    eapply checked_wf; try eassumption; [eapply Hpk; exact E2 | apply Hh].
  Qed.

  (* ---------- ideal signatures: corruptions are rejected ---------- *)
  Section Ideal.
    (* signed k m s : s was produced by the holder of key k for message m *)
    Variable signed : bytes -> bytes -> bytes -> Prop.
    Hypothesis ideal_sig : forall k m s, verify k m s = true -> signed k m s.

    Theorem valid_implies_signed v p i :
      VI v p i = VOk true ->
      exists inp, nth_error (svp_ins p) i = Some inp /\
        forall s, In s (svi_sigs inp) ->
          exists pub sg ck last rder d scr,
            s = Some (mk_vsig (Some pub) sg) /\ parse_pk pub = Some ck /\ rev sg = last :: rder /\
            HS v p i inp (n8 last) = VOk (d, scr) /\ signed ck d (rev rder).
    Proof.
      intro H. apply valid_only_if_checked in H as [inp [Hn [_ [Hs _]]]].
      exists inp. split; [exact Hn|]. intros s Hin.
      destruct (Hs s Hin) as (pub & sg & ck & last & rder & d & scr & asm & E1 & E2 & E3 & E4 & E5 & E6 & _).
      exists pub, sg, ck, last, rder, d, scr. repeat split; try assumption. apply ideal_sig; exact E6.
    Qed.

    (* corruption_rejected: a partial signature that its key holder produced for the digest d0
       only makes the input invalid (or an error, or a panic: never valid) as soon as the
       validator selects any other digest for it - whatever was changed: a covered
       transaction field, the script, the amount, the hash-type byte. *)
    Theorem corruption_rejected v p i inp pub sg ck last rder d0 :
      nth_error (svp_ins p) i = Some inp ->
      In (Some (mk_vsig (Some pub) sg)) (svi_sigs inp) ->
      parse_pk pub = Some ck -> rev sg = last :: rder ->
      (forall m, signed ck m (rev rder) -> m = d0) ->
      (forall d scr, HS v p i inp (n8 last) = VOk (d, scr) -> d <> d0) ->
      VI v p i <> VOk true.
    Proof.
      intros Hn Hin Hpk Hrev Honly Hdiff H.
      apply valid_only_if_checked in H as [inp' [Hn' [_ [Hs _]]]].
      rewrite Hn in Hn'. injection Hn' as <-.
      destruct (Hs _ Hin) as (pub' & sg' & ck' & last' & rder' & d & scr & asm & E1 & E2 & E3 & E4 & E5 & E6 & _).
      injection E1 as <- <-. rewrite Hpk in E2. injection E2 as <-.
      rewrite Hrev in E3. injection E3 as <- <-.
      apply (Hdiff d scr E4). apply Honly. apply ideal_sig. exact E6.
    Qed.
  End Ideal.

  (* a substituted previous transaction with any other id (lower or higher) is rejected, v0 and v2 *)
  Theorem substituted_prev_rejected v p i inp prev h idx :
    nth_error (svp_ins p) i = Some inp -> svi_nonwit inp = Some prev ->
    outpoint_of v p i inp = Some (h, idx) -> txid prev <> h -> VI v p i <> VOk true.
  Proof.
    intros Hn Hp Ho Hne H. apply valid_only_if_checked in H as [inp' [Hn' [_ [_ Hc]]]].
    rewrite Hn in Hn'. injection Hn' as <-.
    destruct (Hc prev Hp) as (h' & idx' & Ho' & Ht). rewrite Ho in Ho'. injection Ho' as <- <-.
    contradiction.
  Qed.

  (* ---------- panics ---------- *)
  (* what the PSET parsers guarantee about the fields read here: one packet input per
     transaction input (v2 builds its transaction from the inputs), partial signatures that
     are present *)
  Definition accepted (p : vpacket) : Prop :=
    length (t_ins (svp_tx p)) = length (svp_ins p) /\
    forall inp, In inp (svp_ins p) -> forall s, In s (svi_sigs inp) -> s <> None.

  Lemma digest_v0_total p i script amount ht :
    (i < length (t_ins (svp_tx p)))%nat -> exists d, vs_digest_v0 digest p i script amount ht = VOk d.
  Proof.
    intro H. unfold vs_digest_v0. destruct (Nat.ltb_spec i (length (t_ins (svp_tx p)))); [eexists; reflexivity|lia].
  Qed.

  Lemma pick_script_no_panic inp spent st : vs_pick_script hash160 inp spent <> VPanic st.
  Proof. unfold vs_pick_script. destruct (svi_redeem inp); [destruct (vs_is_redeem_of _ _ _)|]; discriminate. Qed.

  Lemma hash_and_script_no_panic v p i inp ht :
    (i < length (t_ins (svp_tx p)))%nat -> forall site, HS v p i inp ht <> VPanic site.
  Proof.
    intros Hi site. unfold vs_hash_and_script.
    destruct (svi_nonwit inp) as [prev|].
    - assert (Ho : exists op, vs_outpoint v p i inp = VOk op).
      { unfold vs_outpoint. destruct v; [|eexists; reflexivity].
        destruct (nth_error (t_ins (svp_tx p)) i) eqn:E; [eexists; reflexivity|].
        apply nth_error_None in E. lia. }
      destruct Ho as [op Ho]. rewrite Ho. cbn [vbind].
      destruct (negb _); [discriminate|]. destruct (_ <=? _); [discriminate|].
      destruct (nth_error _ _) as [o|]; [|discriminate].
      destruct (vs_pick_script hash160 inp (o_script o)) as [script| |st] eqn:Epick; cbn [vbind]; try discriminate.
      2:{ exfalso. exact (pick_script_no_panic _ _ _ Epick). }
      destruct (vs_script_type script); try discriminate.
      + destruct (digest_v0_total p i (vs_p2pkh_code (skipn 2 script)) (o_value o) ht Hi) as [d Hd].
        rewrite Hd. discriminate.
      + destruct (svi_witscript inp) as [ws|]; [|discriminate].
        destruct (negb _); [discriminate|].
        destruct (digest_v0_total p i ws (o_value o) ht Hi) as [d Hd]. rewrite Hd. discriminate.
    - destruct (svi_wit inp) as [w|]; [|discriminate].
      destruct (vs_pick_script hash160 inp (o_script w)) as [script| |st] eqn:Epick; cbn [vbind]; try discriminate.
      2:{ exfalso. exact (pick_script_no_panic _ _ _ Epick). }
      destruct (vs_script_type script); try discriminate.
      + destruct (digest_v0_total p i (vs_p2pkh_code (skipn 2 script)) (o_value w) ht Hi) as [d Hd].
        rewrite Hd. discriminate.
      + destruct (negb _); [discriminate|].
        destruct (digest_v0_total p i (vs_opt (svi_witscript inp)) (o_value w) ht Hi) as [d Hd].
        rewrite Hd. discriminate.
  Qed.

  Lemma validate_sig_no_panic v p i inp s :
    (i < length (t_ins (svp_tx p)))%nat -> s <> None ->
    forall site, VSig v p i inp s <> VPanic site.
  Proof.
    intros Hi Hs site. unfold vs_validate_sig. destruct s as [s|]; [|congruence].
    destruct (vs_pub_missing v s); [discriminate|].
    destruct (rev (svg_sig s)) as [|last rder]; [discriminate|].
    destruct (HS v p i inp (n8 last)) as [[d scr]| |st] eqn:Eh; cbn [vbind]; try discriminate.
    - cbn [fst snd]. unfold vs_verify_script. destruct (parse_pk _) as [ck|]; cbn [vbind]; [|discriminate].
      destruct (vs_script_tokens scr); cbn [vbind]; [|discriminate].
      destruct (negb _); [discriminate|]. destruct (negb _); discriminate.
    - exfalso. exact (hash_and_script_no_panic v p i inp (n8 last) Hi st Eh).
  Qed.

  Lemma validate_sigs_no_panic v p i inp sigs :
    (forall s, In s sigs -> forall site, VSig v p i inp s <> VPanic site) ->
    forall site, VSigs v p i inp sigs <> VPanic site.
  Proof.
    induction sigs as [|s0 r IH]; intros H site; cbn [vs_validate_sigs]; [discriminate|].
    destruct (VSig v p i inp s0) as [[|]| |st] eqn:E; try discriminate.
    - apply IH. intros s Hin. apply H. right; exact Hin.
    - exfalso. exact (H s0 (or_introl eq_refl) st E).
  Qed.

  (* no_panic_on_accepted_packets, in full: after fixes a910e27 and 1acccfe no expression
     reachable from a parser-shaped packet and an input index within range can panic *)
  Theorem no_panic_on_accepted_packets v p i :
    accepted p -> (i < length (svp_ins p))%nat ->
    forall site, VI v p i <> VPanic site.
  Proof.
    intros [Hlen Hsig] Hi site. unfold vs_validate_input.
    destruct (nth_error (svp_ins p) i) as [inp|] eqn:En.
    - destruct (svi_sigs inp) as [|s0 r] eqn:Es; [discriminate|]. rewrite <- Es.
      apply validate_sigs_no_panic. intros s Hin.
      apply validate_sig_no_panic; [lia|].
      apply (Hsig inp); [eapply nth_error_In; exact En | exact Hin].
    - apply nth_error_None in En. lia.
  Qed.
End Spec.


(* ---------- a toy instantiation: hypotheses are satisfiable, refutation witnesses ---------- *)
Definition toy_digest (a : valgo) (t : tx) (i : nat) (code amount : bytes) (ht : N) : bytes :=
  (match a with VLegacy => x00 | VSegwitV0 => x01 end) :: code ++ amount ++ [b8 ht].
Definition toy_parse_pk (pub : bytes) : option bytes := Some pub.
Definition toy_der_ok (_ : bytes) : bool := true.
(* a "signature" by key k on message m is k ++ m *)
Definition toy_verify (k m s : bytes) : bool := bytes_eqb s (k ++ m).
Definition toy_signed (k m s : bytes) : Prop := s = k ++ m.
Definition toy_hash160 (b : bytes) : bytes := b.

Notation TVI := (vs_validate_input toy_digest toy_parse_pk toy_der_ok toy_verify toy_hash160).

Example toy_ideal_sig : forall k m s, toy_verify k m s = true -> toy_signed k m s.
Proof. intros k m s H. apply bytes_eqb_eq in H. exact H. Qed.

Definition toy_sig (k : bytes) (d : bytes) (ht : N) : bytes := k ++ d ++ [b8 ht].

Definition out_of (script value : bytes) : txout := mk_out [] value script [] [] [].
Definition tx_of (ins : list txin) (outs : list txout) : tx := mk_tx 2 0 0 ins outs.
Definition in_of (h : bytes) (idx : N) : txin := mk_in h idx 0xffffffff [] [] false [] None [] [].

Definition kA : bytes := [x02].                                (* toy key; its toy HASH160 is itself *)
Definition scrA : bytes := [x76; x01; x02].                    (* OP_DUP <02> : mentions kA *)
Definition scrB : bytes := [x76; x01; x03].                    (* somebody else's script *)
Definition kW : bytes := repeat x11 20.                         (* toy key whose HASH160 is a 20-byte program *)
Definition spkW : bytes := [x00; x14] ++ kW.                    (* P2WPKH-shaped *)

(* ---- the four packets that refuted the full statement before the fixes a910e27 / 9415d49
        are now rejected ---- *)
(* 1. v0: a previous transaction whose id is not the outpoint txid (it compares above it) *)
Definition prevA : tx := Eval vm_compute in tx_of [in_of [] 0] [out_of scrA [x01]].
Definition pkt1 : vpacket := Eval vm_compute in
  mk_vpacket (tx_of [in_of [] 0] [out_of [] [x01]])
    [mk_vinput (Some prevA) None None None
       [Some (mk_vsig (Some kA) (toy_sig kA (toy_digest VLegacy (tx_of [] []) 0 scrA [] 1) 1))] [] 0].

(* 2. both utxo records present, amounts disagree, signature over the witness-utxo amount *)
Definition prevW : tx := Eval vm_compute in tx_of [in_of [] 0] [out_of spkW [x01; x05]].
Definition idW : bytes := Eval vm_compute in txid prevW.
Lemma idW_ok : txid prevW = idW.
Proof. vm_compute. reflexivity. Qed.
Definition pkt2 : vpacket := Eval vm_compute in
  mk_vpacket (tx_of [in_of idW 0] [out_of [] [x01]])
    [mk_vinput (Some prevW) (Some (out_of spkW [x01; x09])) None None
       [Some (mk_vsig (Some kW) (toy_sig kW (toy_digest VSegwitV0 (tx_of [] []) 0 (vs_p2pkh_code kW) [x01; x09] 1) 1))]
       idW 0].

(* 3. a redeem script that the spent script does not commit to *)
Definition prevB : tx := Eval vm_compute in tx_of [in_of [] 0] [out_of scrB [x01]].
Definition idB : bytes := Eval vm_compute in txid prevB.
Lemma idB_ok : txid prevB = idB.
Proof. vm_compute. reflexivity. Qed.
Definition pkt3 : vpacket := Eval vm_compute in
  mk_vpacket (tx_of [in_of idB 0] [out_of [] [x01]])
    [mk_vinput (Some prevB) None (Some scrA) None
       [Some (mk_vsig (Some kA) (toy_sig kA (toy_digest VLegacy (tx_of [] []) 0 scrA [] 1) 1))]
       idB 0].

(* 4. a witness script that is not the pre-image of the P2WSH program *)
Definition wsA : bytes := [x51; x01; x02].                     (* OP_1 <02> *)
Definition pkt4 : vpacket := Eval vm_compute in
  mk_vpacket (tx_of [in_of (repeat x07 32) 0] [out_of [] [x01]])
    [mk_vinput None (Some (out_of ([x00; x20] ++ repeat x00 32) [x01; x05])) None (Some wsA)
       [Some (mk_vsig (Some kA) (toy_sig kA (toy_digest VSegwitV0 (tx_of [] []) 0 wsA [x01; x05] 1) 1))]
       (repeat x07 32) 0].

Example former_witnesses_rejected :
  TVI VsV0 pkt1 0 = VErr /\                               (* previous transaction with another id *)
  TVI VsV0 pkt2 0 = VOk false /\ TVI VsV2 pkt2 0 = VOk false /\   (* signature over the wrong amount *)
  TVI VsV0 pkt3 0 = VErr /\ TVI VsV2 pkt3 0 = VErr /\     (* uncommitted redeem script *)
  TVI VsV0 pkt4 0 = VErr /\ TVI VsV2 pkt4 0 = VErr.       (* uncommitted witness script *)
Proof. vm_compute. repeat split. Qed.

(* ---- what is still refutable in the abstract model ---- *)
Ltac refute_sig_genuine :=
  let H := fresh "H" in
  intros (pub & sg & ck & last & rder & d & sat & asm & E1 & E2 & E3 & E4 & E5 & E6 & E7);
  injection E1 as <- <-; vm_compute in E2; injection E2 as <-;
  vm_compute in E3; injection E3 as <- <-;
  vm_compute in E4; try discriminate E4; injection E4 as <- <-;
  vm_compute in E6; discriminate E6.

(* a malformed witness program OP_0 <01> <02> <19 bytes>: GetScriptType calls it P2WPKH (first
   byte 0, 20 bytes after the second), so the digest is the segwit one over a P2PKH code made
   of script[2:], not a digest of the output's script.  The witness needs a key whose hex is
   shorter than a 20-byte push (here the 1-byte toy key 02); with real keys (33-byte
   compressed key, 20-byte HASH160) no such script passes the key test, and the S oracle
   finds none on the implementation. *)
Definition spkM : bytes := [x00; x01; x02] ++ repeat x51 19.
Definition pktM : vpacket := Eval vm_compute in
  mk_vpacket (tx_of [in_of (repeat x07 32) 0] [out_of [] [x01]])
    [mk_vinput None (Some (out_of spkM [x01; x05])) None None
       [Some (mk_vsig (Some kA) (toy_sig kA (toy_digest VSegwitV0 (tx_of [] []) 0 (vs_p2pkh_code (skipn 2 spkM)) [x01; x05] 1) 1))]
       (repeat x07 32) 0].

Theorem valid_only_if_refuted_malformed_program :
  TVI VsV0 pktM 0 = VOk true /\ TVI VsV2 pktM 0 = VOk true /\
  exists inp s, nth_error (svp_ins pktM) 0 = Some inp /\ In s (svi_sigs inp) /\
    ~ sig_genuine toy_digest toy_parse_pk toy_der_ok toy_verify toy_hash160 VsV2 pktM 0 inp s.
Proof.
  split; [vm_compute; reflexivity|]. split; [vm_compute; reflexivity|].
  eexists; eexists. split; [reflexivity|]. split; [left; reflexivity|].
  refute_sig_genuine.
Qed.

Theorem valid_only_if_refuted :
  ~ valid_only_if_statement toy_digest toy_parse_pk toy_der_ok toy_verify toy_hash160.
Proof.
  intro H. destruct valid_only_if_refuted_malformed_program as (_ & Hv & inp & s & Hn & Hin & Hng).
  destruct (H VsV2 pktM 0%nat Hv) as (inp' & Hn' & _ & Hg & _).
  rewrite Hn in Hn'. injection Hn' as <-. exact (Hng (Hg s Hin)).
Qed.

(* the hypotheses of valid_only_if_partial are satisfiable: an honest P2WPKH input with
   both utxo records (valid, well-formed program), and a P2SH-wrapped multisig-like input *)
Definition pkt0 : vpacket := Eval vm_compute in
  mk_vpacket (tx_of [in_of idW 0] [out_of [] [x01]])
    [mk_vinput (Some prevW) (Some (out_of spkW [x01; x05])) None None
       [Some (mk_vsig (Some kW) (toy_sig kW (toy_digest VSegwitV0 (tx_of [] []) 0 (vs_p2pkh_code kW) [x01; x05] 1) 1))]
       idW 0].

Example valid_packet_wf_program :
  TVI VsV2 pkt0 0 = VOk true /\ TVI VsV0 pkt0 0 = VOk true /\
  exists inp, nth_error (svp_ins pkt0) 0 = Some inp /\
    forall o, spent_output VsV2 pkt0 0 inp = Some o -> wf_program (used_script inp o).
Proof.
  split; [vm_compute; reflexivity|]. split; [vm_compute; reflexivity|].
  eexists. split; [reflexivity|].
  intros o Ho. vm_compute in Ho. injection Ho as <-. intros _. left. vm_compute. discriminate.
Qed.

(* a committed redeem script is accepted (toy HASH160 is the identity: the program is the script) *)
Definition rsA : bytes := repeat x51 17 ++ [x76; x01; x02].    (* 20 bytes, mentions kA *)
Definition prevS : tx := Eval vm_compute in tx_of [in_of [] 0] [out_of ([xa9; x14] ++ rsA ++ [x87]) [x01]].
Definition idS : bytes := Eval vm_compute in txid prevS.
Definition pktS : vpacket := Eval vm_compute in
  mk_vpacket (tx_of [in_of idS 0] [out_of [] [x01]])
    [mk_vinput (Some prevS) None (Some rsA) None
       [Some (mk_vsig (Some kA) (toy_sig kA (toy_digest VLegacy (tx_of [] []) 0 rsA [] 1) 1))]
       idS 0].
Example committed_redeem_script_valid : TVI VsV0 pktS 0 = VOk true /\ TVI VsV2 pktS 0 = VOk true.
Proof. vm_compute. split; reflexivity. Qed.

(* the hypotheses of corruption_rejected are satisfiable (toy signatures are produced for one message) *)
Example toy_signed_only : forall k m m' s, toy_signed k m s -> toy_signed k m' s -> m = m'.
Proof. unfold toy_signed. intros k m m' s -> H. apply app_inv_head in H. exact H. Qed.

(* the hypotheses of valid_only_if are satisfiable: 33-byte keys, 20-byte hashes, a valid pay-to-pubkey input *)
Definition toy33_parse (pub : bytes) : option bytes := if (length pub =? 33)%nat then Some pub else None.
Definition toy20_hash (_ : bytes) : bytes := repeat x00 20.
Definition kL : bytes := repeat x02 33.
Definition spkL : bytes := [x21] ++ kL ++ [xac].               (* <33-byte key> OP_CHECKSIG *)
Definition prevL : tx := Eval vm_compute in tx_of [in_of [] 0] [out_of spkL [x01]].
Definition idL : bytes := Eval vm_compute in txid prevL.
Definition pktL : vpacket := Eval vm_compute in
  mk_vpacket (tx_of [in_of idL 0] [out_of [] [x01]])
    [mk_vinput (Some prevL) None None None
       [Some (mk_vsig (Some kL) (toy_sig kL (toy_digest VLegacy (tx_of [] []) 0 spkL [] 1) 1))] idL 0].
Example valid_only_if_hypotheses_hold :
  (forall pub ck, toy33_parse pub = Some ck -> length ck = 33%nat) /\
  (forall b, length (toy20_hash b) = 20%nat) /\
  vs_validate_input toy_digest toy33_parse toy_der_ok toy_verify toy20_hash VsV0 pktL 0 = VOk true /\
  vs_validate_input toy_digest toy33_parse toy_der_ok toy_verify toy20_hash VsV2 pktL 0 = VOk true.
Proof.
  split.
  - unfold toy33_parse. intros pub ck H. destruct (Nat.eqb_spec (length pub) 33); [|discriminate].
    injection H as <-. assumption.
  - split; [intro b; reflexivity|]. vm_compute. split; reflexivity.
Qed.

(* ---------- former panics ---------- *)
(* an empty script / the one-byte script OP_0 in the witness-utxo record *)
Definition pkt7 (s : bytes) : vpacket :=
  mk_vpacket (tx_of [in_of [] 0] [])
    [mk_vinput None (Some (out_of s [x01])) None None [Some (mk_vsig (Some kA) [x01])] [] 0].

(* the panics repaired by a910e27 and 1acccfe are errors now *)
Definition pkt5 : vpacket := Eval vm_compute in
  mk_vpacket (tx_of [in_of idB 1] [])
    [mk_vinput (Some prevB) None None None [Some (mk_vsig (Some kA) [x01])] idB 1].
Definition pkt6 : vpacket := Eval vm_compute in
  mk_vpacket (tx_of [in_of idW 0] [])
    [mk_vinput (Some prevW) None None None [Some (mk_vsig (Some kW) [x01])] idW 0].
Example former_panics_are_errors :
  TVI VsV0 pkt5 0 = VErr /\ TVI VsV2 pkt5 0 = VErr /\                  (* outpoint index past the outputs *)
  TVI VsV0 pkt6 0 = VOk false /\ TVI VsV2 pkt6 0 = VOk false /\        (* P2WPKH described by the previous transaction only *)
  TVI VsV2 (mk_vpacket (tx_of [in_of [] 0] []) [mk_vinput None None None None [Some (mk_vsig (Some kA) [])] [] 0]) 0
    = VErr /\                                                          (* empty signature *)
  TVI VsV0 (pkt7 []) 0 = VErr /\ TVI VsV2 (pkt7 []) 0 = VErr /\         (* empty spent script *)
  TVI VsV0 (pkt7 [x00]) 0 = VErr /\ TVI VsV2 (pkt7 [x00]) 0 = VErr.     (* one-byte script OP_0 *)
Proof. vm_compute. repeat split. Qed.

(* outside the parsers' guarantees: a nil signature element, an index past the inputs (hand-built packets only) *)
Example panic_on_unparsed :
  TVI VsV0 (mk_vpacket (tx_of [in_of [] 0] []) [mk_vinput None None None None [None] [] 0]) 0 = VPanic VPSigNil /\
  TVI VsV0 (mk_vpacket (tx_of [] []) []) 0 = VPanic VPInputIndex.
Proof. vm_compute. repeat split. Qed.

(* the hypotheses of no_panic_on_accepted_packets are satisfiable *)
Example accepted_example : accepted pkt0 /\ (0 < length (svp_ins pkt0))%nat.
Proof.
  split; [|vm_compute; lia]. split; [reflexivity|].
  intros inp [<-|[]] s [<-|[]]. discriminate.
Qed.

(* ---------- ValidateAllSignatures ---------- *)
Section All.
  Variable digest : valgo -> tx -> nat -> bytes -> bytes -> N -> bytes.
  Variable parse_pk : bytes -> option bytes.
  Variable der_ok : bytes -> bool.
  Variable verify : bytes -> bytes -> bytes -> bool.
  Variable hash160 : bytes -> bytes.
  Notation VI := (vs_validate_input digest parse_pk der_ok verify hash160).

  Lemma validate_from_true v p n : forall k,
    vs_validate_from digest parse_pk der_ok verify hash160 v p k n = VOk true ->
    forall j, (k <= j < k + n)%nat -> VI v p j = VOk true.
  Proof.
    induction n as [|n IH]; intros k H j Hj; [lia|].
    cbn [vs_validate_from] in H.
    destruct (VI v p k) as [[|]| |st] eqn:E; try discriminate.
    destruct (Nat.eq_dec j k) as [->|Hne]; [exact E|].
    apply (IH (S k) H). lia.
  Qed.

  (* a valid verdict for the packet is a valid verdict for every input (in particular every
     input carries at least one partial signature) *)
  Theorem validate_all_only_if v p :
    vs_validate_all digest parse_pk der_ok verify hash160 v p = VOk true ->
    forall j, (j < length (svp_ins p))%nat -> VI v p j = VOk true.
  Proof.
    unfold vs_validate_all. intros H j Hj. apply (validate_from_true v p _ 0%nat H). lia.
  Qed.
End All.

(* ---------- corruption_rejected, field by field ---------- *)
Section Fields.
  Variable digest : valgo -> tx -> nat -> bytes -> bytes -> N -> bytes.
  Variable parse_pk : bytes -> option bytes.
  Variable der_ok : bytes -> bool.
  Variable verify : bytes -> bytes -> bytes -> bool.
  Variable hash160 : bytes -> bytes.
  Notation VI := (vs_validate_input digest parse_pk der_ok verify hash160).
  Notation HS := (vs_hash_and_script digest hash160).

  (* whatever the validator returns is a digest of this transaction and input *)
  Lemma hash_and_script_is_digest v p i inp ht d scr :
    HS v p i inp ht = VOk (d, scr) ->
    exists a c am, d = digest a (svp_tx p) i c am ht.
  Proof.
    unfold vs_hash_and_script. intro H.
    destruct (svi_nonwit inp) as [prev|].
    - apply vbind_ok in H as [[h idx] [_ H]]. cbn [fst snd] in H.
      destruct (negb _); [discriminate|]. destruct (_ <=? _); [discriminate|].
      destruct (nth_error _ _) as [o|]; [|discriminate].
      apply vbind_ok in H as [script [_ H]].
      destruct (vs_script_type script).
      + apply vbind_ok in H as [d0 [Hd H]]. injection H as <- <-.
        apply (digest_v0_ok digest) in Hd. eexists; eexists; eexists; exact Hd.
      + destruct (svi_witscript inp) as [ws|]; [|discriminate].
        destruct (negb _); [discriminate|].
        apply vbind_ok in H as [d0 [Hd H]]. injection H as <- <-.
        apply (digest_v0_ok digest) in Hd. eexists; eexists; eexists; exact Hd.
      + injection H as <- <-. eexists; eexists; eexists; reflexivity.
      + injection H as <- <-. eexists; eexists; eexists; reflexivity.
      + injection H as <- <-. eexists; eexists; eexists; reflexivity.
      + injection H as <- <-. eexists; eexists; eexists; reflexivity.
    - destruct (svi_wit inp) as [w|]; [|discriminate].
      apply vbind_ok in H as [script [_ H]].
      destruct (vs_script_type script); try discriminate.
      + apply vbind_ok in H as [d0 [Hd H]]. injection H as <- <-.
        apply (digest_v0_ok digest) in Hd. eexists; eexists; eexists; exact Hd.
      + destruct (negb _); [discriminate|].
        apply vbind_ok in H as [d0 [Hd H]]. injection H as <- <-.
        apply (digest_v0_ok digest) in Hd. eexists; eexists; eexists; exact Hd.
  Qed.

  Variable signed : bytes -> bytes -> bytes -> Prop.
  Hypothesis ideal_sig : forall k m s, verify k m s = true -> signed k m s.
  (* C02's sensitivity, as a hypothesis: equal digests force equal algorithm, input index,
     script code, amount, hash type and equal covered transaction fields *)
  Variable same_covered : valgo -> N -> nat -> tx -> tx -> Prop.
  Hypothesis digest_sensitive : forall a t i c am ht a' t' i' c' am' ht',
    digest a t i c am ht = digest a' t' i' c' am' ht' ->
    a = a' /\ i = i' /\ c = c' /\ am = am' /\ ht = ht' /\ same_covered a ht i t t'.

  (* A signature that its key holder produced only for
     digest a0 t0 i0 c0 am0 ht0 is accepted in a packet only if the validator, on that packet,
     hashes the same algorithm, input index, script code, amount and hash type, over a
     transaction equal to t0 in every covered field: changing any of them (a covered field,
     the script or amount that end up hashed, the hash-type byte) gives invalid or an error. *)
  Theorem corruption_rejected_fields v p i inp pub sg ck last rder a0 t0 i0 c0 am0 ht0 :
    nth_error (svp_ins p) i = Some inp ->
    In (Some (mk_vsig (Some pub) sg)) (svi_sigs inp) ->
    parse_pk pub = Some ck -> rev sg = last :: rder ->
    (forall m, signed ck m (rev rder) -> m = digest a0 t0 i0 c0 am0 ht0) ->
    VI v p i = VOk true ->
    exists scr, HS v p i inp (n8 last) = VOk (digest a0 t0 i0 c0 am0 ht0, scr) /\
      i = i0 /\ n8 last = ht0 /\ same_covered a0 ht0 i0 t0 (svp_tx p) /\
      digest a0 t0 i0 c0 am0 ht0 = digest a0 (svp_tx p) i c0 am0 (n8 last).
  Proof.
    intros Hn Hin Hpk Hrev Honly H.
    apply (valid_only_if_checked digest parse_pk der_ok verify hash160) in H as [inp' [Hn' [_ [Hs _]]]].
    rewrite Hn in Hn'. injection Hn' as <-.
    destruct (Hs _ Hin) as (pub' & sg' & ck' & last' & rder' & d & scr & asm & E1 & E2 & E3 & E4 & E5 & E6 & _).
    injection E1 as <- <-. rewrite Hpk in E2. injection E2 as <-.
    rewrite Hrev in E3. injection E3 as <- <-.
    apply ideal_sig in E6. apply Honly in E6. subst d.
    destruct (hash_and_script_is_digest _ _ _ _ _ _ _ E4) as (a & c & am & Hd).
    destruct (digest_sensitive _ _ _ _ _ _ _ _ _ _ _ _ Hd) as (Ea & Ei & Ec & Eam & Eht & Hcov).
    subst a i0 c am. exists scr.
    split; [exact E4|]. split; [reflexivity|]. split; [symmetry; exact Eht|]. split; [exact Hcov|].
    exact Hd.
  Qed.
End Fields.

(* the hypotheses of corruption_rejected_fields are satisfiable: an injective toy digest that
   covers the whole transaction *)
Example toy_digest_sensitive_instance :
  exists (dg : valgo -> tx -> nat -> bytes -> bytes -> N -> valgo * tx * nat * bytes * bytes * N),
    forall a t i c am ht a' t' i' c' am' ht',
      dg a t i c am ht = dg a' t' i' c' am' ht' ->
      a = a' /\ i = i' /\ c = c' /\ am = am' /\ ht = ht' /\ t = t'.
Proof.
  exists (fun a t i c am ht => (a, t, i, c, am, ht)).
  intros a t i c am ht a' t' i' c' am' ht' H. injection H as -> -> -> -> -> ->. repeat split.
Qed.
