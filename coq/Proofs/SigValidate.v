(* Proofs/SigValidate.v — C10: what a "valid" verdict of the partial-signature
   validator (Model/SigValidate.v) guarantees, what it does not, and when it panics. *)
From GE Require Import Lib.Bytes Lib.Varint Lib.Sha256 Model.Tx Model.TxHash Model.SigValidate.
From Coq Require Import ZifyBool ZifyN ZifyNat.
Open Scope N_scope.

(* ---------- small facts ---------- *)
Lemma vbind_ok {A B} (x : vres A) (f : A -> vres B) b :
  vbind x f = VOk b -> exists a, x = VOk a /\ f a = VOk b.
Proof. destruct x as [a| |s]; cbn; intro H; try discriminate. exists a. split; [reflexivity|exact H]. Qed.

Lemma vs_compare_refl a : vs_compare a a = Eq.
Proof. induction a as [|x a IH]; cbn; [reflexivity|]. rewrite N.compare_refl. exact IH. Qed.

Lemma vs_compare_eq a b : vs_compare a b = Eq -> a = b.
Proof.
  revert b; induction a as [|x a IH]; intros [|y b]; cbn; intro H; try discriminate; [reflexivity|].
  destruct (N.compare (n8 x) (n8 y)) eqn:E; try discriminate.
  apply N.compare_eq in E. apply n8_inj in E. f_equal; [exact E | apply IH; exact H].
Qed.

(* ---------- specification side ---------- *)
Section Spec.
  Variable digest : valgo -> tx -> nat -> bytes -> bytes -> N -> bytes.
  Variable parse_pk : bytes -> option bytes.
  Variable der_ok : bytes -> bool.
  Variable verify : bytes -> bytes -> bytes -> bool.
  Variable hash160 : bytes -> bytes.

  Notation VI := (vs_validate_input digest parse_pk der_ok verify hash160).
  Notation VSig := (vs_validate_sig digest parse_pk der_ok verify hash160).
  Notation VSigs := (vs_validate_sigs digest parse_pk der_ok verify hash160).
  Notation HS := (vs_hash_and_script digest).

  (* the outpoint of input i *)
  Definition outpoint_of (v : vver) (p : vpacket) (i : nat) (inp : vinput) : option (bytes * N) :=
    match v with
    | VsV2 => Some (svi_prev_txid inp, svi_prev_index inp)
    | VsV0 => match nth_error (t_ins (svp_tx p)) i with
              | Some ti => Some (in_hash ti, in_index ti)
              | None => None
              end
    end.

  (* the output the input actually spends: the outpoint's output of the supplied previous
     transaction, else the witness-utxo record *)
  Definition spent_output (v : vver) (p : vpacket) (i : nat) (inp : vinput) : option txout :=
    match svi_nonwit inp with
    | Some prev =>
        match outpoint_of v p i inp with
        | Some (_, idx) => if idx <? lenL (t_outs prev) then nth_error (t_outs prev) (N.to_nat idx) else None
        | None => None
        end
    | None => svi_wit inp
    end.

  (* strict script forms *)
  Definition p2wpkh_prog (s : bytes) : option bytes :=
    match s with
    | a :: b :: r => if (n8 a =? 0) && (n8 b =? 0x14) && (length r =? 20)%nat then Some r else None
    | _ => None
    end.
  Definition p2wsh_prog (s : bytes) : option bytes :=
    match s with
    | a :: b :: r => if (n8 a =? 0) && (n8 b =? 0x20) && (length r =? 32)%nat then Some r else None
    | _ => None
    end.
  Definition p2sh_prog (s : bytes) : option bytes :=
    match s with
    | a :: b :: r =>
        if (n8 a =? 0xa9) && (n8 b =? 0x14) && (length r =? 21)%nat && bytes_eqb (skipn 20 r) [x87]
        then Some (firstn 20 r) else None
    | _ => None
    end.

  (* what must be hashed for a spent output (algorithm, script code, amount) and the script
     in which the key must occur; None = the packet does not show how the output is spent
     (redeem / witness script missing or not committed to) *)
  Definition witness_sel (inp : vinput) (amount script : bytes) : option (option (valgo * bytes * bytes * bytes)) :=
    match p2wpkh_prog script with
    | Some h => Some (Some (VSegwitV0, vs_p2pkh_code h, amount, script))
    | None =>
        match p2wsh_prog script with
        | Some prog =>
            match svi_witscript inp with
            | Some w => if bytes_eqb (sha256 w) prog then Some (Some (VSegwitV0, w, amount, w)) else Some None
            | None => Some None
            end
        | None => None   (* not a witness program *)
        end
    end.

  Definition spec_select (inp : vinput) (o : txout) : option (valgo * bytes * bytes * bytes) :=
    let spk := o_script o in
    match witness_sel inp (o_value o) spk with
    | Some r => r
    | None =>
        match p2sh_prog spk with
        | Some prog =>
            match svi_redeem inp with
            | Some r =>
                if bytes_eqb (hash160 r) prog then
                  match witness_sel inp (o_value o) r with
                  | Some x => x
                  | None => Some (VLegacy, r, [], r)
                  end
                else None
            | None => None
            end
        | None => Some (VLegacy, spk, [], spk)
        end
    end.

  (* digest computed from the script and amount of the output actually spent, and the script being satisfied *)
  Definition digest_of_spent (v : vver) (p : vpacket) (i : nat) (inp : vinput) (ht : N) : option (bytes * bytes) :=
    match spent_output v p i inp with
    | Some o =>
        match spec_select inp o with
        | Some (a, code, am, sat) => Some (digest a (svp_tx p) i code am ht, sat)
        | None => None
        end
    | None => None
    end.

  (* a partial signature that is genuinely valid for input i *)
  Definition sig_genuine (v : vver) (p : vpacket) (i : nat) (inp : vinput) (s : option vsig) : Prop :=
    exists pub sg ck last rder d sat asm,
      s = Some (mk_vsig (Some pub) sg) /\ parse_pk pub = Some ck /\ rev sg = last :: rder /\
      digest_of_spent v p i inp (n8 last) = Some (d, sat) /\
      der_ok (rev rder) = true /\ verify ck d (rev rder) = true /\
      vs_disasm sat = Some asm /\ vs_key_in_asm hash160 ck pub asm = true.

  (* a supplied previous transaction hashes to the outpoint txid *)
  Definition prev_tx_matches (v : vver) (p : vpacket) (i : nat) (inp : vinput) : Prop :=
    forall prev, svi_nonwit inp = Some prev ->
      exists h idx, outpoint_of v p i inp = Some (h, idx) /\ txid prev = h.

  (* FULL STATEMENT (valid_only_if).  Refuted for the code as written (see the _refuted
     theorems at the end of this file); proved under `consistent` below. *)
  Definition valid_only_if_statement : Prop :=
    forall v p i, VI v p i = VOk true ->
      exists inp, nth_error (svp_ins p) i = Some inp /\ svi_sigs inp <> [] /\
        (forall s, In s (svi_sigs inp) -> sig_genuine v p i inp s) /\
        prev_tx_matches v p i inp.

  (* ---------- what the code does check ---------- *)
  (* the previous-transaction test as coded *)
  Definition prev_tx_checked (v : vver) (p : vpacket) (i : nat) (inp : vinput) : Prop :=
    forall prev, svi_nonwit inp = Some prev ->
      exists h idx, outpoint_of v p i inp = Some (h, idx) /\
        match v with
        | VsV2 => txid prev = h
        | VsV0 => vs_compare h (txid prev) <> Gt
        end.

  Definition sig_checked (v : vver) (p : vpacket) (i : nat) (inp : vinput) (s : option vsig) : Prop :=
    exists pub sg ck last rder d scr asm,
      s = Some (mk_vsig (Some pub) sg) /\ parse_pk pub = Some ck /\ rev sg = last :: rder /\
      HS v p i inp (n8 last) = VOk (d, scr) /\
      der_ok (rev rder) = true /\ verify ck d (rev rder) = true /\
      vs_disasm scr = Some asm /\ vs_key_in_asm hash160 ck pub asm = true.

  Lemma validate_sig_true v p i inp s :
    VSig v p i inp s = VOk true -> sig_checked v p i inp s.
  Proof.
    unfold vs_validate_sig, sig_checked. destruct s as [s|]; [|discriminate].
    destruct (vs_pub_missing v s) eqn:Em; [discriminate|].
    destruct s as [opub sg]. cbn [svg_pub svg_sig] in *.
    destruct opub as [pub|]; [|cbn in Em; discriminate]. cbn [vs_opt].
    destruct (rev sg) as [|last rder] eqn:Er; [discriminate|].
    intro H. apply vbind_ok in H as [[d scr] [Hhs H]]. cbn [fst snd] in H.
    apply vbind_ok in H as [ins [Hv H]].
    unfold vs_verify_script in Hv.
    destruct (parse_pk pub) as [ck|] eqn:Epk; [|discriminate].
    destruct (vs_disasm scr) as [asm|] eqn:Ed; [|discriminate].
    injection Hv as Hv. subst ins.
    destruct (vs_key_in_asm hash160 ck pub asm) eqn:Ek; cbn [negb] in H; [|discriminate].
    destruct (der_ok (rev rder)) eqn:Eder; cbn [negb] in H; [|discriminate].
    injection H as H.
    exists pub, sg, ck, last, rder, d, scr, asm. repeat split; auto.
  Qed.

  Lemma validate_sigs_true v p i inp sigs :
    VSigs v p i inp sigs = VOk true -> forall s, In s sigs -> VSig v p i inp s = VOk true.
  Proof.
    induction sigs as [|s0 r IH]; cbn [vs_validate_sigs]; intros H s Hin; [destruct Hin|].
    destruct (VSig v p i inp s0) as [[|]| |] eqn:E0; try discriminate.
    destruct Hin as [<-|Hin]; [exact E0 | apply IH; assumption].
  Qed.

  Lemma validate_input_true v p i :
    VI v p i = VOk true ->
    exists inp, nth_error (svp_ins p) i = Some inp /\ svi_sigs inp <> [] /\
                VSigs v p i inp (svi_sigs inp) = VOk true.
  Proof.
    unfold vs_validate_input. destruct (nth_error (svp_ins p) i) as [inp|]; [|discriminate].
    destruct (svi_sigs inp) as [|s0 r] eqn:Es; [discriminate|].
    intro H. exists inp. rewrite Es. repeat split; [discriminate | exact H].
  Qed.

  Lemma outpoint_spec v p i inp op :
    vs_outpoint v p i inp = VOk op -> outpoint_of v p i inp = Some op.
  Proof.
    unfold vs_outpoint, outpoint_of. destruct v.
    - destruct (nth_error (t_ins (svp_tx p)) i); [|discriminate]. intro H; injection H as <-. reflexivity.
    - intro H; injection H as <-. reflexivity.
  Qed.

  Lemma hash_and_script_prev v p i inp ht r :
    HS v p i inp ht = VOk r -> prev_tx_checked v p i inp.
  Proof.
    unfold vs_hash_and_script, prev_tx_checked. intros H prev Hp. rewrite Hp in H.
    apply vbind_ok in H as [[h idx] [Ho H]]. cbn [fst snd] in H.
    destruct (vs_prev_id_ok v h (txid prev)) eqn:Eok; cbn [negb] in H; [|discriminate].
    exists h, idx. split; [apply outpoint_spec; exact Ho|].
    unfold vs_prev_id_ok in Eok. destruct v.
    - intro Hgt. rewrite Hgt in Eok. discriminate.
    - apply bytes_eqb_eq in Eok. symmetry. exact Eok.
  Qed.

  (* PARTIAL (valid_only_if_partial): what a valid verdict does guarantee for every
     packet: every partial signature verifies, under the stated key, the digest the validator
     selected (vs_hash_and_script: script and amount chosen by the first byte / length of the
     redeem script if present, else of the utxo script), the key's hex occurs in the
     disassembly of the script returned with that digest, and a supplied previous
     transaction passed the coded id test (equality in v2, "outpoint not greater" in v0). *)
  Theorem valid_only_if_partial v p i :
    VI v p i = VOk true ->
    exists inp, nth_error (svp_ins p) i = Some inp /\ svi_sigs inp <> [] /\
      (forall s, In s (svi_sigs inp) -> sig_checked v p i inp s) /\
      prev_tx_checked v p i inp.
  Proof.
    intro H. apply validate_input_true in H as [inp [Hn [Hne Hs]]].
    exists inp. split; [exact Hn|]. split; [exact Hne|]. split.
    - intros s Hin. apply validate_sig_true. eapply validate_sigs_true; eassumption.
    - destruct (svi_sigs inp) as [|s0 r] eqn:Es; [congruence|].
      assert (Hc : sig_checked v p i inp s0).
      { apply validate_sig_true. eapply validate_sigs_true; [exact Hs | left; reflexivity]. }
      destruct Hc as (pub & sg & ck & last & rder & d & scr & asm & _ & _ & _ & Hhs & _).
      eapply hash_and_script_prev; exact Hhs.
  Qed.

  (* v2: the previous-transaction conjunct of the full statement holds *)
  Theorem v2_prev_tx_matches p i :
    VI VsV2 p i = VOk true ->
    exists inp, nth_error (svp_ins p) i = Some inp /\ prev_tx_matches VsV2 p i inp.
  Proof.
    intro H. apply valid_only_if_partial in H as [inp [Hn [_ [_ Hp]]]].
    exists inp. split; [exact Hn|]. intros prev Hprev. destruct (Hp prev Hprev) as (h & idx & Ho & Ht).
    exists h, idx. split; assumption.
  Qed.
  (* ---------- consistent packets: the full statement holds ---------- *)
  (* the script the validator classifies *)
  Definition used_script (inp : vinput) (o : txout) : bytes :=
    match svi_redeem inp with Some r => r | None => o_script o end.

  (* a script starting with OP_0 is a well-formed v0 witness program *)
  Definition wf_program (s : bytes) : Prop :=
    match s with
    | a :: _ => n8 a = 0 -> p2wpkh_prog s <> None \/ p2wsh_prog s <> None
    | [] => True
    end.

  (* exactly the facts the validator does not check (or checks wrongly): the previous
     transaction hashes to the outpoint txid; a witness-utxo record next to it carries the
     same amount; a redeem script is present iff the spent script is P2SH, and hashes to its
     program; OP_0 scripts are well-formed programs; a P2WSH program is the hash of the
     witness script *)
  Definition consistent (v : vver) (p : vpacket) (i : nat) (inp : vinput) : Prop :=
    prev_tx_matches v p i inp /\
    exists o, spent_output v p i inp = Some o /\
      (forall w, svi_nonwit inp <> None -> svi_wit inp = Some w -> o_value w = o_value o) /\
      match svi_redeem inp with
      | Some r => exists prog, p2sh_prog (o_script o) = Some prog /\ hash160 r = prog
      | None => p2sh_prog (o_script o) = None
      end /\
      wf_program (used_script inp o) /\
      (forall prog, p2wsh_prog (used_script inp o) = Some prog ->
                    exists w, svi_witscript inp = Some w /\ sha256 w = prog).

  Lemma bytes_eqb_refl a : bytes_eqb a a = true.
  Proof. apply bytes_eqb_eq. reflexivity. Qed.

  Lemma p2sh_not_witness inp am s prog : p2sh_prog s = Some prog -> witness_sel inp am s = None.
  Proof.
    unfold p2sh_prog, witness_sel, p2wpkh_prog, p2wsh_prog.
    destruct s as [|a [|b r]]; try discriminate.
    destruct (n8 a =? 0xa9) eqn:Ea; cbn [andb]; [|discriminate].
    assert (E0 : (n8 a =? 0) = false) by lia. rewrite E0. cbn [andb]. reflexivity.
  Qed.

  Lemma spec_select_used inp o :
    match svi_redeem inp with
    | Some r => exists prog, p2sh_prog (o_script o) = Some prog /\ hash160 r = prog
    | None => p2sh_prog (o_script o) = None
    end ->
    spec_select inp o =
    match witness_sel inp (o_value o) (used_script inp o) with
    | Some x => x
    | None => Some (VLegacy, used_script inp o, [], used_script inp o)
    end.
  Proof.
    unfold spec_select, used_script. destruct (svi_redeem inp) as [r|].
    - intros (prog & Hp & Hh). rewrite (p2sh_not_witness inp (o_value o) _ _ Hp), Hp, Hh, bytes_eqb_refl.
      reflexivity.
    - intro Hp. rewrite Hp. destruct (witness_sel inp (o_value o) (o_script o)); reflexivity.
  Qed.

  Lemma type_cases script ty :
    vs_script_type script = VOk ty -> wf_program script ->
    (ty = StP2WPKH /\ p2wpkh_prog script = Some (skipn 2 script)) \/
    (ty = StP2WSH /\ p2wpkh_prog script = None /\ exists prog, p2wsh_prog script = Some prog) \/
    (ty <> StP2WPKH /\ ty <> StP2WSH /\ p2wpkh_prog script = None /\ p2wsh_prog script = None).
  Proof.
    unfold vs_script_type, wf_program. destruct script as [|a r]; [discriminate|].
    destruct (n8 a =? 0) eqn:Ea.
    - destruct r as [|b r2]; [discriminate|].
      intros H Hwf. assert (Ha : n8 a = 0) by lia. specialize (Hwf Ha).
      unfold p2wpkh_prog, p2wsh_prog in *. rewrite Ea in *. cbn [andb] in *.
      destruct (length r2 =? 20)%nat eqn:E20.
      + injection H as <-. left. split; [reflexivity|].
        destruct (n8 b =? 0x14) eqn:Eb; cbn [andb] in *; [reflexivity|].
        exfalso. destruct Hwf as [Hw|Hw]; [congruence|].
        assert (E32 : (length r2 =? 32)%nat = false) by lia. rewrite E32, andb_false_r in Hw. congruence.
      + injection H as <-. right; left. split; [reflexivity|].
        rewrite andb_false_r in *. split; [reflexivity|].
        destruct ((n8 b =? 0x20) && (length r2 =? 32)%nat) eqn:E; [eexists; reflexivity|].
        exfalso. destruct Hwf as [Hw|Hw]; congruence.
    - intros H _. right; right.
      assert (Hp : p2wpkh_prog (a :: r) = None /\ p2wsh_prog (a :: r) = None).
      { unfold p2wpkh_prog, p2wsh_prog. destruct r as [|b r2]; [split; reflexivity|]. rewrite Ea. cbn [andb]. split; reflexivity. }
      destruct Hp as [Hp1 Hp2].
      destruct (n8 a =? 0x51); [injection H as <-; repeat split; try discriminate; assumption|].
      destruct (n8 a =? 0xa9); [injection H as <-; repeat split; try discriminate; assumption|].
      destruct (n8 a =? 0x76); injection H as <-; repeat split; try discriminate; assumption.
  Qed.

  Lemma digest_v0_ok p i script amount ht d :
    vs_digest_v0 digest p i script amount ht = VOk d -> d = digest VSegwitV0 (svp_tx p) i script amount ht.
  Proof.
    unfold vs_digest_v0. destruct (i <? length (t_ins (svp_tx p)))%nat; [|discriminate].
    intro H; injection H as <-. reflexivity.
  Qed.

  (* on a consistent packet the digest and script the validator selects are those of the spent output *)
  Lemma select_agrees v p i inp ht d scr :
    consistent v p i inp -> HS v p i inp ht = VOk (d, scr) ->
    digest_of_spent v p i inp ht = Some (d, scr).
  Proof.
    intros (Hprev & o & Hspent & Ham & Hred & Hwf & Htie) H.
    unfold digest_of_spent. rewrite Hspent. rewrite (spec_select_used inp o Hred).
    unfold vs_hash_and_script in H. unfold spent_output in Hspent.
    destruct (svi_nonwit inp) as [prev|] eqn:Enw.
    - apply vbind_ok in H as [[h idx] [Ho H]]. cbn [fst snd] in H.
      apply outpoint_spec in Ho. rewrite Ho in Hspent.
      destruct (negb (vs_prev_id_ok v h (txid prev))); [discriminate|].
      destruct (lenL (t_outs prev) <=? idx) eqn:El; [discriminate|].
      assert (El2 : (idx <? lenL (t_outs prev)) = true) by lia. rewrite El2 in Hspent.
      rewrite Hspent in H.
      fold (used_script inp o) in H.
      apply vbind_ok in H as [ty [Hty H]].
      destruct (type_cases _ _ Hty Hwf) as [[-> Hp]|[[-> [Hp1 [prog Hp2]]]|[Hn1 [Hn2 [Hp1 Hp2]]]]].
      + destruct (svi_wit inp) as [w|] eqn:Ew; [|discriminate].
        apply vbind_ok in H as [d0 [Hd H]]. injection H as <- <-.
        apply digest_v0_ok in Hd. subst d0.
        unfold witness_sel. rewrite Hp.
        rewrite (Ham w) by (try discriminate; reflexivity). reflexivity.
      + destruct (Htie prog Hp2) as (w & Hw & Hsha). rewrite Hw in H.
        apply vbind_ok in H as [d0 [Hd H]]. injection H as <- <-.
        apply digest_v0_ok in Hd. subst d0.
        unfold witness_sel. rewrite Hp1, Hp2, Hw, Hsha, bytes_eqb_refl. reflexivity.
      + unfold witness_sel. rewrite Hp1, Hp2.
        destruct ty; try congruence; injection H as <- <-; reflexivity.
    - rewrite Hspent in H.
      fold (used_script inp o) in H.
      apply vbind_ok in H as [ty [Hty H]].
      destruct (type_cases _ _ Hty Hwf) as [[-> Hp]|[[-> [Hp1 [prog Hp2]]]|[Hn1 [Hn2 [Hp1 Hp2]]]]].
      + apply vbind_ok in H as [d0 [Hd H]]. injection H as <- <-.
        apply digest_v0_ok in Hd. subst d0.
        unfold witness_sel. rewrite Hp. reflexivity.
      + destruct (Htie prog Hp2) as (w & Hw & Hsha). rewrite Hw in H. cbn [vs_opt] in H.
        apply vbind_ok in H as [d0 [Hd H]]. injection H as <- <-.
        apply digest_v0_ok in Hd. subst d0.
        unfold witness_sel. rewrite Hp1, Hp2, Hw, Hsha, bytes_eqb_refl. reflexivity.
      + destruct ty; try congruence; discriminate.
  Qed.

  (* valid_only_if, for every packet consistent at input i *)
  Theorem valid_only_if_consistent v p i :
    VI v p i = VOk true ->
    forall inp, nth_error (svp_ins p) i = Some inp -> consistent v p i inp ->
      svi_sigs inp <> [] /\
      (forall s, In s (svi_sigs inp) -> sig_genuine v p i inp s) /\
      prev_tx_matches v p i inp.
  Proof.
    intros H inp Hn Hc. apply valid_only_if_partial in H as [inp' [Hn' [Hne [Hs _]]]].
    rewrite Hn in Hn'. injection Hn' as <-.
    split; [exact Hne|]. split; [|exact (proj1 Hc)].
    intros s Hin. destruct (Hs s Hin) as (pub & sg & ck & last & rder & d & scr & asm & E1 & E2 & E3 & E4 & E5 & E6 & E7 & E8).
    exists pub, sg, ck, last, rder, d, scr, asm. repeat split; try assumption.
    apply select_agrees; assumption.
  Qed.
  (* ---------- ideal signatures: corruptions are rejected ---------- *)
  Section Ideal.
    (* signed k m s : s was produced by the holder of key k for message m *)
    Variable signed : bytes -> bytes -> bytes -> Prop.
    Hypothesis ideal_sig : forall k m s, verify k m s = true -> signed k m s.

    Theorem valid_implies_signed v p i :
      VI v p i = VOk true ->
      exists inp, nth_error (svp_ins p) i = Some inp /\
        forall s, In s (svi_sigs inp) ->
          exists pub sg ck last rder d scr,
            s = Some (mk_vsig (Some pub) sg) /\ parse_pk pub = Some ck /\ rev sg = last :: rder /\
            HS v p i inp (n8 last) = VOk (d, scr) /\ signed ck d (rev rder).
    Proof.
      intro H. apply valid_only_if_partial in H as [inp [Hn [_ [Hs _]]]].
      exists inp. split; [exact Hn|]. intros s Hin.
      destruct (Hs s Hin) as (pub & sg & ck & last & rder & d & scr & asm & E1 & E2 & E3 & E4 & E5 & E6 & _).
      exists pub, sg, ck, last, rder, d, scr. repeat split; try assumption. apply ideal_sig; exact E6.
    Qed.

    (* corruption_rejected: a partial signature that its key holder produced for the digest d0
       only makes the input invalid (or an error, or a panic: never valid) as soon as the
       validator selects any other digest for it - whatever was changed: a covered
       transaction field, the script, the amount, the hash-type byte. *)
    Theorem corruption_rejected v p i inp pub sg ck last rder d0 :
      nth_error (svp_ins p) i = Some inp ->
      In (Some (mk_vsig (Some pub) sg)) (svi_sigs inp) ->
      parse_pk pub = Some ck -> rev sg = last :: rder ->
      (forall m, signed ck m (rev rder) -> m = d0) ->
      (forall d scr, HS v p i inp (n8 last) = VOk (d, scr) -> d <> d0) ->
      VI v p i <> VOk true.
    Proof.
      intros Hn Hin Hpk Hrev Honly Hdiff H.
      apply valid_only_if_partial in H as [inp' [Hn' [_ [Hs _]]]].
      rewrite Hn in Hn'. injection Hn' as <-.
      destruct (Hs _ Hin) as (pub' & sg' & ck' & last' & rder' & d & scr & asm & E1 & E2 & E3 & E4 & E5 & E6 & _).
      injection E1 as <- <-. rewrite Hpk in E2. injection E2 as <-.
      rewrite Hrev in E3. injection E3 as <- <-.
      apply (Hdiff d scr E4). apply Honly. apply ideal_sig. exact E6.
    Qed.
  End Ideal.

  (* substituted previous transaction, v2: any other id is rejected *)
  Theorem v2_substituted_prev_rejected p i inp prev :
    nth_error (svp_ins p) i = Some inp -> svi_nonwit inp = Some prev ->
    txid prev <> svi_prev_txid inp -> VI VsV2 p i <> VOk true.
  Proof.
    intros Hn Hp Hne H. apply valid_only_if_partial in H as [inp' [Hn' [_ [_ Hc]]]].
    rewrite Hn in Hn'. injection Hn' as <-.
    destruct (Hc prev Hp) as (h & idx & Ho & Ht). cbn in Ho. injection Ho as <- <-. contradiction.
  Qed.

  (* substituted previous transaction, v0: rejected when the outpoint txid compares above its id
     (the other direction is valid_only_if_refuted_prev_tx_v0) *)
  Theorem v0_prev_below_outpoint_rejected p i inp prev ti :
    nth_error (svp_ins p) i = Some inp -> svi_nonwit inp = Some prev ->
    nth_error (t_ins (svp_tx p)) i = Some ti -> vs_compare (in_hash ti) (txid prev) = Gt ->
    VI VsV0 p i <> VOk true.
  Proof.
    intros Hn Hp Hti Hgt H. apply valid_only_if_partial in H as [inp' [Hn' [_ [_ Hc]]]].
    rewrite Hn in Hn'. injection Hn' as <-.
    destruct (Hc prev Hp) as (h & idx & Ho & Ht). cbn in Ho. rewrite Hti in Ho. injection Ho as <- <-.
    contradiction.
  Qed.

  (* ---------- panics ---------- *)
  (* what the PSET parsers guarantee about the fields read here: one packet input per
     transaction input, partial signatures with a parsable key and a non-empty signature *)
  Definition accepted (p : vpacket) : Prop :=
    length (t_ins (svp_tx p)) = length (svp_ins p) /\
    forall inp, In inp (svp_ins p) -> forall s, In s (svi_sigs inp) ->
      exists pub sg, s = Some (mk_vsig (Some pub) sg) /\ parse_pk pub <> None /\ sg <> [].

  (* FULL STATEMENT (no_panic_on_accepted_packets); refuted below *)
  Definition no_panic_statement : Prop :=
    forall v p i, accepted p -> (i < length (svp_ins p))%nat -> forall site, VI v p i <> VPanic site.

  Definition script_ok (s : bytes) : Prop := s <> [] /\ (forall a, s = [a] -> n8 a <> 0).

  (* the unchecked expressions: the outpoint index is within the previous transaction, the
     classified script is non-empty and not the single byte OP_0, a P2WPKH script next to a
     previous transaction comes with a witness-utxo record *)
  Definition panic_guards (v : vver) (p : vpacket) (i : nat) (inp : vinput) : Prop :=
    match svi_nonwit inp with
    | Some prev =>
        forall h idx, outpoint_of v p i inp = Some (h, idx) ->
          exists o, idx < lenL (t_outs prev) /\ nth_error (t_outs prev) (N.to_nat idx) = Some o /\
                    script_ok (used_script inp o) /\
                    (vs_script_type (used_script inp o) = VOk StP2WPKH -> svi_wit inp <> None)
    | None => forall w, svi_wit inp = Some w -> script_ok (used_script inp w)
    end.

  Lemma script_type_total s : script_ok s -> exists ty, vs_script_type s = VOk ty.
  Proof.
    intros [Hne H1]. unfold vs_script_type. destruct s as [|a r]; [congruence|].
    destruct (n8 a =? 0) eqn:Ea.
    - destruct r as [|b r2].
      + exfalso. apply (H1 a eq_refl). lia.
      + destruct (length r2 =? 20)%nat; eexists; reflexivity.
    - destruct (n8 a =? 0x51); [eexists; reflexivity|].
      destruct (n8 a =? 0xa9); [eexists; reflexivity|].
      destruct (n8 a =? 0x76); eexists; reflexivity.
  Qed.

  Lemma digest_v0_total p i script amount ht :
    (i < length (t_ins (svp_tx p)))%nat -> exists d, vs_digest_v0 digest p i script amount ht = VOk d.
  Proof.
    intro H. unfold vs_digest_v0. destruct (Nat.ltb_spec i (length (t_ins (svp_tx p)))); [eexists; reflexivity|lia].
  Qed.

  Lemma hash_and_script_no_panic v p i inp ht :
    (i < length (t_ins (svp_tx p)))%nat -> panic_guards v p i inp ->
    forall site, HS v p i inp ht <> VPanic site.
  Proof.
    intros Hi Hg site. unfold vs_hash_and_script, panic_guards in *.
    destruct (svi_nonwit inp) as [prev|].
    - assert (Ho : exists h idx, vs_outpoint v p i inp = VOk (h, idx) /\ outpoint_of v p i inp = Some (h, idx)).
      { unfold vs_outpoint, outpoint_of. destruct v.
        - destruct (nth_error (t_ins (svp_tx p)) i) as [ti|] eqn:E.
          + exists (in_hash ti), (in_index ti). split; reflexivity.
          + apply nth_error_None in E. lia.
        - eexists; eexists; split; reflexivity. }
      destruct Ho as (h & idx & Ho1 & Ho2). rewrite Ho1. cbn [vbind fst snd].
      destruct (negb (vs_prev_id_ok v h (txid prev))); [discriminate|].
      destruct (Hg h idx Ho2) as (o & Hlt & Hnth & Hsok & Hw).
      destruct (N.leb_spec (lenL (t_outs prev)) idx); [lia|].
      rewrite Hnth. fold (used_script inp o).
      destruct (script_type_total _ Hsok) as [ty Hty]. rewrite Hty in *. cbn [vbind].
      destruct ty; try discriminate.
      + destruct (svi_wit inp) as [w|]; [|exfalso; apply Hw; reflexivity].
        destruct (digest_v0_total p i (vs_p2pkh_code (skipn 2 (used_script inp o))) (o_value w) ht Hi) as [d Hd].
        rewrite Hd. discriminate.
      + destruct (svi_witscript inp) as [ws|]; [|discriminate].
        destruct (digest_v0_total p i ws (o_value o) ht Hi) as [d Hd]. rewrite Hd. discriminate.
    - destruct (svi_wit inp) as [w|]; [|discriminate].
      fold (used_script inp w).
      destruct (script_type_total _ (Hg w eq_refl)) as [ty Hty]. rewrite Hty. cbn [vbind].
      destruct ty; try discriminate.
      + destruct (digest_v0_total p i (vs_p2pkh_code (skipn 2 (used_script inp w))) (o_value w) ht Hi) as [d Hd].
        rewrite Hd. discriminate.
      + destruct (digest_v0_total p i (vs_opt (svi_witscript inp)) (o_value w) ht Hi) as [d Hd].
        rewrite Hd. discriminate.
  Qed.

  Lemma validate_sig_no_panic v p i inp s :
    (i < length (t_ins (svp_tx p)))%nat -> panic_guards v p i inp ->
    (exists pub sg, s = Some (mk_vsig (Some pub) sg) /\ parse_pk pub <> None /\ sg <> []) ->
    forall site, VSig v p i inp s <> VPanic site.
  Proof.
    intros Hi Hg (pub & sg & -> & Hpk & Hsg) site. unfold vs_validate_sig. cbn [svg_pub svg_sig vs_opt].
    destruct (vs_pub_missing v _); [discriminate|].
    destruct (rev sg) as [|last rder] eqn:Er.
    { exfalso. apply Hsg. rewrite <- (rev_involutive sg), Er. reflexivity. }
    destruct (HS v p i inp (n8 last)) as [[d scr]| |st] eqn:Eh; cbn [vbind]; try discriminate.
    - cbn [fst snd]. unfold vs_verify_script. destruct (parse_pk pub) as [ck|]; [|congruence].
      destruct (vs_disasm scr); cbn [vbind]; [|discriminate].
      destruct (negb _); [discriminate|]. destruct (negb _); discriminate.
    - exfalso. exact (hash_and_script_no_panic v p i inp (n8 last) Hi Hg st Eh).
  Qed.

  Lemma validate_sigs_no_panic v p i inp sigs :
    (forall s, In s sigs -> forall site, VSig v p i inp s <> VPanic site) ->
    forall site, VSigs v p i inp sigs <> VPanic site.
  Proof.
    induction sigs as [|s0 r IH]; intros H site; cbn [vs_validate_sigs]; [discriminate|].
    destruct (VSig v p i inp s0) as [[|]| |st] eqn:E; try discriminate.
    - apply IH. intros s Hin. apply H. right; exact Hin.
    - exfalso. exact (H s0 (or_introl eq_refl) st E).
  Qed.

  (* PARTIAL (no_panic_partial): accepted packets whose input i satisfies panic_guards never panic *)
  Theorem no_panic_partial v p i :
    accepted p -> (i < length (svp_ins p))%nat ->
    (forall inp, nth_error (svp_ins p) i = Some inp -> panic_guards v p i inp) ->
    forall site, VI v p i <> VPanic site.
  Proof.
    intros [Hlen Hsig] Hi Hg site. unfold vs_validate_input.
    destruct (nth_error (svp_ins p) i) as [inp|] eqn:En.
    - destruct (svi_sigs inp) as [|s0 r] eqn:Es; [discriminate|]. rewrite <- Es.
      apply validate_sigs_no_panic. intros s Hin.
      apply validate_sig_no_panic; [lia | apply Hg; reflexivity |].
      apply (Hsig inp); [eapply nth_error_In; exact En | exact Hin].
    - apply nth_error_None in En. lia.
  Qed.
End Spec.


(* ---------- a toy instantiation: hypotheses are satisfiable, refutation witnesses ---------- *)
Definition toy_digest (a : valgo) (t : tx) (i : nat) (code amount : bytes) (ht : N) : bytes :=
  (match a with VLegacy => x00 | VSegwitV0 => x01 end) :: code ++ amount ++ [b8 ht].
Definition toy_parse_pk (pub : bytes) : option bytes := Some pub.
Definition toy_der_ok (_ : bytes) : bool := true.
(* a "signature" by key k on message m is k ++ m *)
Definition toy_verify (k m s : bytes) : bool := bytes_eqb s (k ++ m).
Definition toy_signed (k m s : bytes) : Prop := s = k ++ m.
Definition toy_hash160 (b : bytes) : bytes := b.

Notation TVI := (vs_validate_input toy_digest toy_parse_pk toy_der_ok toy_verify toy_hash160).

Example toy_ideal_sig : forall k m s, toy_verify k m s = true -> toy_signed k m s.
Proof. intros k m s H. apply bytes_eqb_eq in H. exact H. Qed.

Definition toy_sig (k : bytes) (d : bytes) (ht : N) : bytes := k ++ d ++ [b8 ht].

Definition out_of (script value : bytes) : txout := mk_out [] value script [] [] [].
Definition tx_of (ins : list txin) (outs : list txout) : tx := mk_tx 2 0 0 ins outs.
Definition in_of (h : bytes) (idx : N) : txin := mk_in h idx 0xffffffff [] [] false [] None [] [].

Definition kA : bytes := [x02].                                (* toy key; its toy HASH160 is itself *)
Definition scrA : bytes := [x76; x01; x02].                    (* OP_DUP <02> : mentions kA *)
Definition scrB : bytes := [x76; x01; x03].                    (* somebody else's script *)
Definition kW : bytes := repeat x11 20.                         (* toy key whose HASH160 is a 20-byte program *)
Definition spkW : bytes := [x00; x14] ++ kW.                    (* P2WPKH-shaped *)

(* 1. v0: a previous transaction whose id is not the outpoint txid (it compares above it) *)
Definition prevA : tx := Eval vm_compute in tx_of [in_of [] 0] [out_of scrA [x01]].
Definition pkt1 : vpacket := Eval vm_compute in
  mk_vpacket (tx_of [in_of [] 0] [out_of [] [x01]])
    [mk_vinput (Some prevA) None None None
       [Some (mk_vsig (Some kA) (toy_sig kA (toy_digest VLegacy (tx_of [] []) 0 scrA [] 1) 1))] [] 0].

Theorem valid_only_if_refuted_prev_tx_v0 :
  TVI VsV0 pkt1 0 = VOk true /\
  forall inp, nth_error (svp_ins pkt1) 0 = Some inp -> ~ prev_tx_matches VsV0 pkt1 0 inp.
Proof.
  split; [vm_compute; reflexivity|].
  intros inp Hn H. vm_compute in Hn. injection Hn as <-.
  destruct (H prevA eq_refl) as (h & idx & Ho & Ht). vm_compute in Ho. injection Ho as <- <-.
  vm_compute in Ht. discriminate.
Qed.

(* 2. both utxo records present, amounts disagree: the signature covers the witness-utxo
      amount, not the amount of the output the outpoint designates (v2; same code in v0) *)
Definition prevW : tx := Eval vm_compute in tx_of [in_of [] 0] [out_of spkW [x01; x05]].
Definition idW : bytes := Eval vm_compute in txid prevW.
Lemma idW_ok : txid prevW = idW.
Proof. vm_compute. reflexivity. Qed.
Definition pkt2 : vpacket := Eval vm_compute in
  mk_vpacket (tx_of [in_of idW 0] [out_of [] [x01]])
    [mk_vinput (Some prevW) (Some (out_of spkW [x01; x09])) None None
       [Some (mk_vsig (Some kW) (toy_sig kW (toy_digest VSegwitV0 (tx_of [] []) 0 (vs_p2pkh_code kW) [x01; x09] 1) 1))]
       idW 0].

Ltac refute_sig_genuine :=
  let H := fresh "H" in
  intros (pub & sg & ck & last & rder & d & sat & asm & E1 & E2 & E3 & E4 & E5 & E6 & E7);
  injection E1 as <- <-; vm_compute in E2; injection E2 as <-;
  vm_compute in E3; injection E3 as <- <-;
  vm_compute in E4; try discriminate E4; injection E4 as <- <-;
  vm_compute in E6; discriminate E6.

Theorem valid_only_if_refuted_amount :
  TVI VsV2 pkt2 0 = VOk true /\
  exists inp s, nth_error (svp_ins pkt2) 0 = Some inp /\ In s (svi_sigs inp) /\
    prev_tx_matches VsV2 pkt2 0 inp /\
    ~ sig_genuine toy_digest toy_parse_pk toy_der_ok toy_verify toy_hash160 VsV2 pkt2 0 inp s.
Proof.
  split; [vm_compute; reflexivity|].
  eexists; eexists. split; [reflexivity|]. split; [left; reflexivity|]. split.
  - intros prev Hp. vm_compute in Hp. injection Hp as <-. eexists; eexists. split; [vm_compute; reflexivity | vm_compute; reflexivity].
  - refute_sig_genuine.
Qed.

(* 3. a redeem script that the spent script does not commit to (the spent script is not even P2SH) *)
Definition prevB : tx := Eval vm_compute in tx_of [in_of [] 0] [out_of scrB [x01]].
Definition idB : bytes := Eval vm_compute in txid prevB.
Lemma idB_ok : txid prevB = idB.
Proof. vm_compute. reflexivity. Qed.
Definition pkt3 : vpacket := Eval vm_compute in
  mk_vpacket (tx_of [in_of idB 0] [out_of [] [x01]])
    [mk_vinput (Some prevB) None (Some scrA) None
       [Some (mk_vsig (Some kA) (toy_sig kA (toy_digest VLegacy (tx_of [] []) 0 scrA [] 1) 1))]
       idB 0].

Theorem valid_only_if_refuted_redeem_script :
  TVI VsV2 pkt3 0 = VOk true /\
  exists inp s, nth_error (svp_ins pkt3) 0 = Some inp /\ In s (svi_sigs inp) /\
    prev_tx_matches VsV2 pkt3 0 inp /\
    ~ sig_genuine toy_digest toy_parse_pk toy_der_ok toy_verify toy_hash160 VsV2 pkt3 0 inp s.
Proof.
  split; [vm_compute; reflexivity|].
  eexists; eexists. split; [reflexivity|]. split; [left; reflexivity|]. split.
  - intros prev Hp. vm_compute in Hp. injection Hp as <-. eexists; eexists. split; [vm_compute; reflexivity | vm_compute; reflexivity].
  - refute_sig_genuine.
Qed.

(* 4. a witness script that is not the pre-image of the P2WSH program *)
Definition wsA : bytes := [x51; x01; x02].                     (* OP_1 <02> *)
Definition pkt4 : vpacket := Eval vm_compute in
  mk_vpacket (tx_of [in_of (repeat x07 32) 0] [out_of [] [x01]])
    [mk_vinput None (Some (out_of ([x00; x20] ++ repeat x00 32) [x01; x05])) None (Some wsA)
       [Some (mk_vsig (Some kA) (toy_sig kA (toy_digest VSegwitV0 (tx_of [] []) 0 wsA [x01; x05] 1) 1))]
       (repeat x07 32) 0].

Theorem valid_only_if_refuted_witness_script :
  TVI VsV0 pkt4 0 = VOk true /\ TVI VsV2 pkt4 0 = VOk true /\
  exists inp s, nth_error (svp_ins pkt4) 0 = Some inp /\ In s (svi_sigs inp) /\
    ~ sig_genuine toy_digest toy_parse_pk toy_der_ok toy_verify toy_hash160 VsV2 pkt4 0 inp s.
Proof.
  split; [vm_compute; reflexivity|]. split; [vm_compute; reflexivity|].
  eexists; eexists. split; [reflexivity|]. split; [left; reflexivity|].
  refute_sig_genuine.
Qed.

Theorem valid_only_if_refuted :
  ~ valid_only_if_statement toy_digest toy_parse_pk toy_der_ok toy_verify toy_hash160.
Proof.
  intro H. destruct (H VsV0 pkt1 0%nat (proj1 valid_only_if_refuted_prev_tx_v0)) as (inp & Hn & _ & _ & Hp).
  exact (proj2 valid_only_if_refuted_prev_tx_v0 inp Hn Hp).
Qed.

(* 5. the key test is a substring test on the hex disassembly: a match at an odd hex offset
      is accepted although the key bytes occur nowhere in the script *)
Theorem key_hex_match_not_bytewise :
  exists script asm ck, vs_disasm script = Some asm /\
    vs_is_infix (to_hex ck) asm = true /\ vs_is_infix ck script = false.
Proof. exists [x02; x10; x12], (to_hex [x10; x12]), [x01]. vm_compute. repeat split. Qed.

(* the hypotheses of valid_only_if_consistent are satisfiable: an honest P2WPKH input with
   both utxo records, valid and consistent *)
Definition pkt0 : vpacket := Eval vm_compute in
  mk_vpacket (tx_of [in_of idW 0] [out_of [] [x01]])
    [mk_vinput (Some prevW) (Some (out_of spkW [x01; x05])) None None
       [Some (mk_vsig (Some kW) (toy_sig kW (toy_digest VSegwitV0 (tx_of [] []) 0 (vs_p2pkh_code kW) [x01; x05] 1) 1))]
       idW 0].

Example consistent_valid_packet :
  TVI VsV2 pkt0 0 = VOk true /\
  exists inp, nth_error (svp_ins pkt0) 0 = Some inp /\ consistent toy_hash160 VsV2 pkt0 0 inp.
Proof.
  split; [vm_compute; reflexivity|]. eexists. split; [reflexivity|].
  split.
  - intros prev Hp. vm_compute in Hp. injection Hp as <-. eexists; eexists. split; [vm_compute; reflexivity | vm_compute; reflexivity].
  - exists (out_of spkW [x01; x05]). split; [vm_compute; reflexivity|]. split.
    + intros w _ Hw. vm_compute in Hw. injection Hw as <-. reflexivity.
    + split; [vm_compute; reflexivity|]. split.
      * intros _. left. vm_compute. discriminate.
      * intros prog Hp. vm_compute in Hp. discriminate.
Qed.

(* the hypotheses of corruption_rejected are satisfiable (toy signatures are produced for one message) *)
Example toy_signed_only : forall k m m' s, toy_signed k m s -> toy_signed k m' s -> m = m'.
Proof. unfold toy_signed. intros k m m' s -> H. apply app_inv_head in H. exact H. Qed.

(* ---------- panics on accepted packets ---------- *)
(* the outpoint index is not within the supplied previous transaction *)
Definition pkt5 : vpacket := Eval vm_compute in
  mk_vpacket (tx_of [in_of idB 1] [])
    [mk_vinput (Some prevB) None None None [Some (mk_vsig (Some kA) [x01])] idB 1].
(* a P2WPKH output described by the previous transaction only *)
Definition pkt6 : vpacket := Eval vm_compute in
  mk_vpacket (tx_of [in_of idW 0] [])
    [mk_vinput (Some prevW) None None None [Some (mk_vsig (Some kW) [x01])] idW 0].
(* an empty script / the one-byte script OP_0 in the witness-utxo record *)
Definition pkt7 (s : bytes) : vpacket :=
  mk_vpacket (tx_of [in_of [] 0] [])
    [mk_vinput None (Some (out_of s [x01])) None None [Some (mk_vsig (Some kA) [x01])] [] 0].

Lemma toy_accepted_single t inp pub sg :
  svi_sigs inp = [Some (mk_vsig (Some pub) sg)] -> sg <> [] -> length (t_ins t) = 1%nat ->
  accepted toy_parse_pk (mk_vpacket t [inp]).
Proof.
  intros Hs Hsg Hl. split; [exact Hl|]. intros inp' [<-|[]] s Hin. rewrite Hs in Hin.
  destruct Hin as [<-|[]]. exists pub, sg. repeat split; [discriminate | exact Hsg].
Qed.

Theorem no_panic_refuted :
  (accepted toy_parse_pk pkt5 /\ TVI VsV0 pkt5 0 = VPanic VPPrevOutIndex /\ TVI VsV2 pkt5 0 = VPanic VPPrevOutIndex) /\
  (accepted toy_parse_pk pkt6 /\ TVI VsV0 pkt6 0 = VPanic VPWitUtxoNil /\ TVI VsV2 pkt6 0 = VPanic VPWitUtxoNil) /\
  (accepted toy_parse_pk (pkt7 []) /\ TVI VsV0 (pkt7 []) 0 = VPanic VPScriptEmpty /\ TVI VsV2 (pkt7 []) 0 = VPanic VPScriptEmpty) /\
  (accepted toy_parse_pk (pkt7 [x00]) /\ TVI VsV0 (pkt7 [x00]) 0 = VPanic VPScriptShort /\ TVI VsV2 (pkt7 [x00]) 0 = VPanic VPScriptShort).
Proof.
  repeat split; try (vm_compute; reflexivity);
    (eapply toy_accepted_single; [reflexivity | discriminate | reflexivity]).
Qed.

Theorem no_panic_statement_refuted :
  ~ no_panic_statement toy_digest toy_parse_pk toy_der_ok toy_verify toy_hash160.
Proof.
  intro H. destruct no_panic_refuted as [[Ha [Hp _]] _].
  apply (H VsV0 pkt5 0%nat Ha) with (site := VPPrevOutIndex); [vm_compute; lia | exact Hp].
Qed.

(* outside the parsers' guarantees: an empty signature, a nil signature element, an index
   past the inputs (hand-built packets only) *)
Example panic_on_unparsed :
  TVI VsV2 (mk_vpacket (tx_of [in_of [] 0] []) [mk_vinput None None None None [Some (mk_vsig (Some kA) [])] [] 0]) 0
    = VPanic VPSigEmpty /\
  TVI VsV0 (mk_vpacket (tx_of [in_of [] 0] []) [mk_vinput None None None None [None] [] 0]) 0 = VPanic VPSigNil /\
  TVI VsV0 (mk_vpacket (tx_of [] []) []) 0 = VPanic VPInputIndex.
Proof. vm_compute. repeat split. Qed.

(* the guards of no_panic_partial are satisfiable *)
Example no_panic_guards_hold :
  accepted toy_parse_pk pkt0 /\ forall inp, nth_error (svp_ins pkt0) 0 = Some inp -> panic_guards VsV2 pkt0 0 inp.
Proof.
  split.
  - eapply toy_accepted_single; [reflexivity | vm_compute; discriminate | reflexivity].
  - intros inp Hn. vm_compute in Hn. injection Hn as <-. unfold panic_guards. simpl svi_nonwit.
    intros h idx Ho. vm_compute in Ho. injection Ho as <- <-.
    exists (out_of spkW [x01; x05]). split; [vm_compute; reflexivity|]. split; [reflexivity|]. split.
    + split; [vm_compute; discriminate|]. intros a Ha. vm_compute in Ha. discriminate.
    + intros _. discriminate.
Qed.
