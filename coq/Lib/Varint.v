(* Lib/Varint.v — Bitcoin CompactSize ("varint"), var-slices, vectors and counted
   lists, following internal/bufferutil (writeVarInt / readVarInt / ReadSlice /
   ReadVarSlice / ReadVector) with their round-trip lemmas. *)
From GE Require Export Lib.Bytes.
From Coq Require Import ZifyBool ZifyN ZifyNat.
Open Scope N_scope.

(* writeVarInt *)
Definition varint (v : N) : bytes :=
  if v <? 0xfd then [b8 v]
  else if v <=? 0xffff then b8 0xfd :: le_enc 2 v
  else if v <=? 0xffffffff then b8 0xfe :: le_enc 4 v
  else b8 0xff :: le_enc 8 v.

(* VarIntSerializeSize *)
Definition varint_size (v : N) : N :=
  if v <? 0xfd then 1 else if v <=? 0xffff then 3 else if v <=? 0xffffffff then 5 else 9.

(* readVarInt, with the canonical-encoding checks *)
Definition p_varint : parser N :=
  fun bs =>
    match bs with
    | [] => None
    | d :: r =>
        let dn := n8 d in
        if dn =? 0xff then
          match p_le 8 r with
          | Some (v, r') => if v <? 0x100000000 then None else Some (v, r')
          | None => None end
        else if dn =? 0xfe then
          match p_le 4 r with
          | Some (v, r') => if v <? 0x10000 then None else Some (v, r')
          | None => None end
        else if dn =? 0xfd then
          match p_le 2 r with
          | Some (v, r') => if v <? 0xfd then None else Some (v, r')
          | None => None end
        else Some (dn, r)
    end.

Lemma varint_length v : lenN (varint v) = varint_size v.
Proof.
  unfold varint, varint_size, lenN.
  destruct (v <? 0xfd); [reflexivity|].
  destruct (v <=? 0xffff); [cbn [length]; rewrite le_enc_length; reflexivity|].
  destruct (v <=? 0xffffffff); cbn [length]; rewrite le_enc_length; reflexivity.
Qed.

Lemma varint_nonempty v : varint v <> [].
Proof.
  unfold varint. destruct (v <? 0xfd); [discriminate|].
  destruct (v <=? 0xffff); [discriminate|]. destruct (v <=? 0xffffffff); discriminate.
Qed.

Lemma p_varint_app v r : v < two64 -> p_varint (varint v ++ r) = Some (v, r).
Proof.
  intro Hv. unfold varint, two64 in *.
  destruct (N.ltb_spec v 0xfd) as [H1|H1].
  - cbn [app p_varint]. rewrite n8_b8. rewrite N.mod_small by lia.
    destruct (N.eqb_spec v 0xff); [lia|]. destruct (N.eqb_spec v 0xfe); [lia|].
    destruct (N.eqb_spec v 0xfd); [lia|]. reflexivity.
  - destruct (N.leb_spec v 0xffff) as [H2|H2].
    + cbn [app p_varint]. rewrite n8_b8. change (0xfd mod 256) with 0xfd. cbn [N.eqb Pos.eqb].
      rewrite p_le_app by (cbn; lia).
      destruct (N.ltb_spec v 0xfd); [lia|]. reflexivity.
    + destruct (N.leb_spec v 0xffffffff) as [H3|H3].
      * cbn [app p_varint]. rewrite n8_b8. change (0xfe mod 256) with 0xfe. cbn [N.eqb Pos.eqb].
        rewrite p_le_app by (cbn; lia).
        destruct (N.ltb_spec v 0x10000); [lia|]. reflexivity.
      * cbn [app p_varint]. rewrite n8_b8. change (0xff mod 256) with 0xff. cbn [N.eqb Pos.eqb].
        rewrite p_le_app by (cbn; lia).
        destruct (N.ltb_spec v 0x100000000); [lia|]. reflexivity.
Qed.

(* every accepted varint is the canonical encoding of its value *)
Lemma p_varint_inv bs v r : p_varint bs = Some (v, r) -> bs = varint v ++ r /\ v < two64.
Proof.
  unfold p_varint. destruct bs as [|d bs]; [discriminate|].
  pose proof (n8_lt d) as Hd.
  destruct (N.eqb_spec (n8 d) 0xff) as [E|E].
  { destruct (p_le 8 bs) as [[x r']|] eqn:P; [|discriminate].
    destruct (N.ltb_spec x 0x100000000); [discriminate|]. intro H0; inversion H0; subst.
    apply p_le_inv in P as [-> Hb]. cbn in Hb. unfold varint, two64.
    destruct (N.ltb_spec v 0xfd); [lia|]. destruct (N.leb_spec v 0xffff); [lia|].
    destruct (N.leb_spec v 0xffffffff); [lia|]. cbn [app]. rewrite <- E, b8_n8. split; [reflexivity|lia]. }
  destruct (N.eqb_spec (n8 d) 0xfe) as [E1|E1].
  { destruct (p_le 4 bs) as [[x r']|] eqn:P; [|discriminate].
    destruct (N.ltb_spec x 0x10000); [discriminate|]. intro H0; inversion H0; subst.
    apply p_le_inv in P as [-> Hb]. cbn in Hb. unfold varint, two64.
    destruct (N.ltb_spec v 0xfd); [lia|]. destruct (N.leb_spec v 0xffff); [lia|].
    destruct (N.leb_spec v 0xffffffff); [|lia]. cbn [app]. rewrite <- E1, b8_n8. split; [reflexivity|lia]. }
  destruct (N.eqb_spec (n8 d) 0xfd) as [E2|E2].
  { destruct (p_le 2 bs) as [[x r']|] eqn:P; [|discriminate].
    destruct (N.ltb_spec x 0xfd); [discriminate|]. intro H0; inversion H0; subst.
    apply p_le_inv in P as [-> Hb]. cbn in Hb. unfold varint, two64.
    destruct (N.ltb_spec v 0xfd); [lia|]. destruct (N.leb_spec v 0xffff); [|lia].
    cbn [app]. rewrite <- E2, b8_n8. split; [reflexivity|lia]. }
  intro H0; inversion H0; subst. unfold varint, two64.
  destruct (N.ltb_spec (n8 d) 0xfd); [|lia]. cbn [app]. rewrite b8_n8. split; [reflexivity|lia].
Qed.

Lemma varint_inj u v : u < two64 -> v < two64 -> varint u = varint v -> u = v.
Proof.
  intros Hu Hv E.
  pose proof (p_varint_app u [] Hu) as A. pose proof (p_varint_app v [] Hv) as B.
  rewrite E in A. rewrite A in B. congruence.
Qed.

(* ---------- var slice: WriteVarSlice / ReadVarSlice (bounded ReadSlice) ---------- *)
Definition var_slice (x : bytes) : bytes := varint (lenN x) ++ x.
Definition var_slice_size (x : bytes) : N := varint_size (lenN x) + lenN x.

Definition p_var_slice : parser bytes := n <- p_varint ;; takeN n.

Lemma var_slice_length x : lenN (var_slice x) = var_slice_size x.
Proof. unfold var_slice, var_slice_size. rewrite lenN_app, varint_length. reflexivity. Qed.

Lemma p_var_slice_app x r : lenN x < two64 -> p_var_slice (var_slice x ++ r) = Some (x, r).
Proof.
  intro H. unfold p_var_slice, var_slice, bind. rewrite <- app_assoc.
  rewrite p_varint_app by exact H. apply takeN_app.
Qed.

Lemma p_var_slice_inv bs x r : p_var_slice bs = Some (x, r) -> bs = var_slice x ++ r /\ lenN x < two64.
Proof.
  unfold p_var_slice, bind. destruct (p_varint bs) as [[n r']|] eqn:P; [|discriminate].
  intro T. apply p_varint_inv in P as [-> Hn]. apply takeN_inv in T as [-> <-].
  unfold var_slice, lenN. rewrite <- app_assoc. split; [reflexivity | exact Hn].
Qed.

(* ---------- counted lists: `for i := 0; i < n; i++ { read element }` ----------
   fuel is the number of bytes still unread: every element parser used here consumes
   at least one byte, so a hostile count terminates exactly where the Go loop hits EOF. *)
Fixpoint p_count {A} (p : parser A) (fuel : nat) (n : N) : parser (list A) :=
  fun bs =>
    if n =? 0 then Some ([], bs) else
    match fuel with
    | O => None
    | S f =>
        match p bs with
        | None => None
        | Some (a, r) =>
            match p_count p f (N.pred n) r with
            | None => None
            | Some (l, r') => Some (a :: l, r')
            end
        end
    end.

Definition p_list {A} (p : parser A) (n : N) : parser (list A) :=
  fun bs => p_count p (length bs) n bs.

Definition enc_list {A} (e : A -> bytes) (l : list A) : bytes := concat (map e l).

Lemma p_count_app {A} (e : A -> bytes) (p : parser A) (l : list A) :
  (forall a, In a l -> forall r, p (e a ++ r) = Some (a, r)) ->
  forall fuel r, (length l <= fuel)%nat ->
  p_count p fuel (lenL l) (enc_list e l ++ r) = Some (l, r).
Proof.
  induction l as [|a l IH]; intros Hp fuel r Hf.
  - destruct fuel; reflexivity.
  - cbn [length] in Hf. destruct fuel as [|f]; [lia|].
    unfold lenL; cbn [length p_count]. destruct (N.eqb_spec (N.of_nat (S (length l))) 0); [lia|].
    unfold enc_list; cbn [map concat]. rewrite <- app_assoc. rewrite Hp by (left; reflexivity).
    replace (N.pred (N.of_nat (S (length l)))) with (lenL l) by (unfold lenL; lia).
    fold (enc_list e l). rewrite IH; [reflexivity | intros; apply Hp; right; assumption | lia].
Qed.

Lemma enc_list_length_ge {A} (e : A -> bytes) (l : list A) :
  (forall a, In a l -> e a <> []) -> (length l <= length (enc_list e l))%nat.
Proof.
  induction l as [|a l IH]; intro H; cbn; [lia|].
  unfold enc_list in *; cbn [map concat]. rewrite app_length.
  assert (e a <> []) by (apply H; left; reflexivity).
  destruct (e a); [congruence|]. cbn [length].
  assert (length l <= length (concat (map e l)))%nat by (apply IH; intros; apply H; right; assumption). lia.
Qed.

Lemma p_list_app {A} (e : A -> bytes) (p : parser A) (l : list A) r :
  (forall a, In a l -> forall r, p (e a ++ r) = Some (a, r)) ->
  (forall a, In a l -> e a <> []) ->
  p_list p (lenL l) (enc_list e l ++ r) = Some (l, r).
Proof.
  intros Hp Hne. unfold p_list. apply p_count_app; [exact Hp|].
  rewrite app_length. pose proof (enc_list_length_ge e l Hne). lia.
Qed.

Lemma p_count_inv {A} (e : A -> bytes) (p : parser A) (Q : A -> Prop) :
  (forall bs a r, p bs = Some (a, r) -> bs = e a ++ r /\ Q a) ->
  forall fuel n bs l r, p_count p fuel n bs = Some (l, r) ->
  bs = enc_list e l ++ r /\ lenL l = n /\ Forall Q l.
Proof.
  intros Hp fuel. induction fuel as [|f IH]; intros n bs l r H; cbn [p_count] in H.
  - destruct (N.eqb_spec n 0); [|discriminate]. inversion H; subst. cbn. auto.
  - destruct (N.eqb_spec n 0).
    { inversion H; subst. cbn. auto. }
    destruct (p bs) as [[a r1]|] eqn:P; [|discriminate].
    destruct (p_count p f (N.pred n) r1) as [[l1 r2]|] eqn:C; [|discriminate].
    inversion H; subst. apply Hp in P as [-> Qa]. apply IH in C as [-> [Hl Fl]].
    unfold enc_list; cbn [map concat]. rewrite <- app_assoc.
    split; [reflexivity|]. split; [unfold lenL in *; cbn [length]; lia | constructor; assumption].
Qed.

Lemma p_list_inv {A} (e : A -> bytes) (p : parser A) (Q : A -> Prop) :
  (forall bs a r, p bs = Some (a, r) -> bs = e a ++ r /\ Q a) ->
  forall n bs l r, p_list p n bs = Some (l, r) ->
  bs = enc_list e l ++ r /\ lenL l = n /\ Forall Q l.
Proof. intros Hp n bs l r. unfold p_list. apply (p_count_inv e p Q Hp). Qed.

(* ---------- vector: WriteVector / ReadVector ---------- *)
Definition vector (v : list bytes) : bytes := varint (lenL v) ++ enc_list var_slice v.
Definition vector_size (v : list bytes) : N :=
  varint_size (lenL v) + fold_right (fun x acc => var_slice_size x + acc) 0 v.

Definition p_vector : parser (list bytes) := n <- p_varint ;; p_list p_var_slice n.

Lemma var_slice_nonempty x : var_slice x <> [].
Proof. unfold var_slice. pose proof (varint_nonempty (lenN x)). destruct (varint (lenN x)); [congruence|discriminate]. Qed.

Lemma enc_list_length {A} (e : A -> bytes) (sz : A -> N) (l : list A) :
  (forall a, In a l -> lenN (e a) = sz a) ->
  lenN (enc_list e l) = fold_right (fun x acc => sz x + acc) 0 l.
Proof.
  induction l as [|a l IH]; intro H; [reflexivity|].
  unfold enc_list in *; cbn [map concat fold_right]. rewrite lenN_app, IH, H;
    [reflexivity | left; reflexivity | intros; apply H; right; assumption].
Qed.

Lemma vector_length v : lenN (vector v) = vector_size v.
Proof.
  unfold vector, vector_size. rewrite lenN_app, varint_length. f_equal.
  apply enc_list_length. intros; apply var_slice_length.
Qed.

Definition wf_vector (v : list bytes) : Prop := lenL v < two64 /\ Forall (fun x => lenN x < two64) v.

Lemma p_vector_app v r : wf_vector v -> p_vector (vector v ++ r) = Some (v, r).
Proof.
  intros [Hn Hf]. unfold p_vector, vector, bind. rewrite <- app_assoc.
  rewrite p_varint_app by exact Hn. apply p_list_app.
  - intros a Ha r0. apply p_var_slice_app. rewrite Forall_forall in Hf. apply Hf; exact Ha.
  - intros; apply var_slice_nonempty.
Qed.

Lemma p_vector_inv bs v r : p_vector bs = Some (v, r) -> bs = vector v ++ r /\ wf_vector v.
Proof.
  unfold p_vector, bind. destruct (p_varint bs) as [[n r']|] eqn:P; [|discriminate].
  intro L. apply p_varint_inv in P as [-> Hn].
  apply (p_list_inv var_slice p_var_slice (fun x => lenN x < two64) p_var_slice_inv) in L as [-> [<- F]].
  unfold vector. rewrite <- app_assoc. split; [reflexivity | split; assumption].
Qed.
