(* Lib/Heap.v — exactly enough Go slice semantics for the aliasing statements of C18.

   A heap is a list of byte arrays; an array id is its index.  Arrays are never freed
   and never change length.  A slice is (array id, offset, len, cap) as in the Go
   runtime.  `go_append` writes in place when len + k <= cap and otherwise allocates a
   new array (of any capacity >= len + k: the growth policy is a parameter, every
   theorem holds for all policies), copies and appends.  `go_sub` is s[lo:hi],
   `go_copy` is copy(dst, src) (memmove: the source is read first), `go_make` is
   make([]byte, len, cap), `go_lit` a composite literal / any freshly allocated value,
   `go_set` is s[i] = b.

   The frame relation `ext n h h'` says: h' extends h and every array with id < n is
   unchanged.  With n = length h this is "the call only allocated": everything the
   caller could see before the call (arguments over their whole array, i.e. in front of
   the slice, the slice itself and the spare capacity behind it; package-level values;
   anything else) is unchanged. *)
From GE Require Export Lib.Bytes.
From Coq Require Import ZifyBool ZifyN ZifyNat.
Open Scope nat_scope.

Definition heap := list bytes.
Record slice := mk_slice { s_arr : nat; s_off : nat; s_len : nat; s_cap : nat }.

Definition arr (h : heap) (a : nat) : bytes := nth a h [].

Fixpoint upd (h : heap) (a : nat) (bs : bytes) : heap :=
  match h, a with
  | [], _ => []
  | _ :: t, O => bs :: t
  | x :: t, S a' => x :: upd t a' bs
  end.

Definition alloc (h : heap) (bs : bytes) : heap * nat := (h ++ [bs], length h).
Definition zeros (n : nat) : bytes := repeat "000"%byte n.
Definition window (off n : nat) (bs : bytes) : bytes := firstn n (skipn off bs).

(* overwrite bs[pos .. pos+|d|) with d; the array never changes length (an
   out-of-range write is a Go panic and is excluded by the guards of the operations) *)
Definition splice (bs : bytes) (pos : nat) (d : bytes) : bytes :=
  firstn (length bs) (firstn pos bs ++ d ++ skipn (pos + length d) bs).
Definition wr (h : heap) (a pos : nat) (d : bytes) : heap := upd h a (splice (arr h a) pos d).

(* contents of a slice, and of a slice over its full capacity *)
Definition rd (h : heap) (s : slice) : bytes := window (s_off s) (s_len s) (arr h (s_arr s)).
Definition rd_cap (h : heap) (s : slice) : bytes := window (s_off s) (s_cap s) (arr h (s_arr s)).

Definition nil_slice : slice := mk_slice 0 0 0 0.

Definition policy := nat -> nat -> nat.      (* old capacity -> needed length -> new capacity *)
Definition exact_policy : policy := fun _ n => n.
(* the shape of runtime.growslice (without size-class rounding): double below 256, else 1.25x + 192 *)
Definition go_policy : policy := fun c n =>
  if 2 * c <? n then n else if c <? 256 then 2 * c else c + (c + 768) / 4.

Definition go_append (g : policy) (h : heap) (s : slice) (d : bytes) : heap * slice :=
  let n := s_len s + length d in
  if n <=? s_cap s
  then (wr h (s_arr s) (s_off s + s_len s) d, mk_slice (s_arr s) (s_off s) n (s_cap s))
  else let c := Nat.max n (g (s_cap s) n) in
       let '(h', a) := alloc h (rd h s ++ d ++ zeros (c - n)) in
       (h', mk_slice a 0 n c).

Definition go_make (h : heap) (len cap : nat) : heap * slice :=
  let c := Nat.max len cap in
  let '(h', a) := alloc h (zeros c) in (h', mk_slice a 0 len c).

Definition go_lit (h : heap) (bs : bytes) : heap * slice :=
  let '(h', a) := alloc h bs in (h', mk_slice a 0 (length bs) (length bs)).

Definition go_sub (s : slice) (lo hi : nat) : option slice :=
  if (lo <=? hi) && (hi <=? s_cap s)
  then Some (mk_slice (s_arr s) (s_off s + lo) (hi - lo) (s_cap s - lo)) else None.

Definition go_copy (h : heap) (dst src : slice) : heap * nat :=
  let n := Nat.min (s_len dst) (s_len src) in
  (wr h (s_arr dst) (s_off dst) (firstn n (rd h src)), n).

Definition go_set (h : heap) (s : slice) (i : nat) (b : byte) : option heap :=
  if i <? s_len s then Some (wr h (s_arr s) (s_off s + i) [b]) else None.

Definition go_get (h : heap) (s : slice) (i : nat) : option byte := nth_error (rd h s) i.

Definition wf_slice (h : heap) (s : slice) : Prop :=
  s_arr s < length h /\ s_len s <= s_cap s /\ s_off s + s_cap s <= length (arr h (s_arr s)).
Definition wf_sliceb (h : heap) (s : slice) : bool :=
  (s_arr s <? length h) && (s_len s <=? s_cap s) && (s_off s + s_cap s <=? length (arr h (s_arr s))).

(* frame: h' extends h, arrays below n untouched *)
Definition ext (n : nat) (h h' : heap) : Prop :=
  n <= length h /\ length h <= length h' /\ forall a, a < n -> arr h' a = arr h a.
Definition fresh (n : nat) (s : slice) : Prop := n <= s_arr s.

(* ---------------- basic lemmas ---------------- *)

Lemma length_upd h a bs : length (upd h a bs) = length h.
Proof. revert a; induction h as [|x t IH]; intros [|a]; cbn; auto. Qed.

Lemma arr_upd_same h a bs : a < length h -> arr (upd h a bs) a = bs.
Proof.
  unfold arr. revert a; induction h as [|x t IH]; intros [|a] H; cbn in *; try lia; auto.
  apply IH; lia.
Qed.

Lemma arr_upd_other h a a' bs : a <> a' -> arr (upd h a bs) a' = arr h a'.
Proof.
  unfold arr. revert a a'; induction h as [|x t IH]; intros [|a] [|a'] H; cbn; auto; try lia.
Qed.

Lemma arr_alloc_old h bs a : a < length h -> arr (h ++ [bs]) a = arr h a.
Proof. intros H. unfold arr. apply app_nth1; auto. Qed.

Lemma arr_alloc_new h bs : arr (h ++ [bs]) (length h) = bs.
Proof. unfold arr. rewrite app_nth2 by lia. rewrite Nat.sub_diag. reflexivity. Qed.

Lemma arr_out h a : length h <= a -> arr h a = [].
Proof. intros H. unfold arr. apply nth_overflow; auto. Qed.

Lemma length_zeros n : length (zeros n) = n.
Proof. apply repeat_length. Qed.

Lemma splice_length bs pos d : length (splice bs pos d) = length bs.
Proof.
  unfold splice. rewrite firstn_length, !app_length, firstn_length, skipn_length. lia.
Qed.

Lemma splice_spec bs pos d : pos + length d <= length bs ->
  splice bs pos d = firstn pos bs ++ d ++ skipn (pos + length d) bs.
Proof.
  intros H. unfold splice. apply firstn_all2.
  rewrite !app_length, firstn_length, skipn_length. lia.
Qed.

Lemma splice_nil bs pos : splice bs pos [] = bs.
Proof.
  unfold splice. cbn [app length]. rewrite Nat.add_0_r, firstn_skipn. apply firstn_all.
Qed.

Lemma length_wr h a pos d : length (wr h a pos d) = length h.
Proof. apply length_upd. Qed.

Lemma arr_wr_other h a a' pos d : a <> a' -> arr (wr h a pos d) a' = arr h a'.
Proof. apply arr_upd_other. Qed.

Lemma arr_wr_same h a pos d : a < length h -> arr (wr h a pos d) a = splice (arr h a) pos d.
Proof. apply arr_upd_same. Qed.

Lemma length_arr_wr h a a' pos d : length (arr (wr h a pos d) a') = length (arr h a').
Proof.
  destruct (Nat.eq_dec a a') as [->|Hne].
  - destruct (Nat.lt_ge_cases a' (length h)) as [Hlt|Hge].
    + rewrite arr_wr_same by auto. apply splice_length.
    + rewrite !arr_out; auto. rewrite length_wr; auto.
  - rewrite arr_wr_other; auto.
Qed.

(* ---------------- the frame relation ---------------- *)

Lemma ext_refl n h : n <= length h -> ext n h h.
Proof. intros H. repeat split; auto. Qed.

Lemma ext_trans n h1 h2 h3 : ext n h1 h2 -> ext n h2 h3 -> ext n h1 h3.
Proof.
  intros (A1 & A2 & A3) (B1 & B2 & B3). repeat split; try lia.
  intros a Ha. rewrite B3, A3; auto.
Qed.

Lemma ext_alloc n h bs : n <= length h -> ext n h (h ++ [bs]).
Proof.
  intros H. repeat split; auto. rewrite app_length; cbn; lia.
  intros a Ha. apply arr_alloc_old. lia.
Qed.

Lemma ext_wr n h a pos d : n <= length h -> n <= a -> ext n h (wr h a pos d).
Proof.
  intros H Ha. repeat split; auto. rewrite length_wr; auto.
  intros a' Ha'. apply arr_wr_other. lia.
Qed.

Lemma ext_weaken n m h h' : m <= n -> ext n h h' -> ext m h h'.
Proof. intros H (A & B & C). repeat split; try lia. intros a Ha. apply C. lia. Qed.

(* everything that existed before the call is unchanged *)
Lemma ext_firstn h h' : ext (length h) h h' -> firstn (length h) h' = h.
Proof.
  intros (_ & L & E).
  apply nth_ext with (d := []) (d' := []).
  - rewrite firstn_length. lia.
  - intros a Ha. rewrite firstn_length in Ha.
    assert (Hlt : a < length h) by lia.
    specialize (E a Hlt). unfold arr in E. rewrite <- E.
    rewrite <- (firstn_skipn (length h) h') at 2.
    rewrite app_nth1; auto. rewrite firstn_length. lia.
Qed.

(* ---------------- operations and the frame ---------------- *)

Lemma go_append_fresh g n h s d : n <= length h -> fresh n s ->
  ext n h (fst (go_append g h s d)) /\ fresh n (snd (go_append g h s d)).
Proof.
  intros H F. unfold go_append, alloc.
  destruct (s_len s + length d <=? s_cap s); cbn [fst snd].
  - split; [apply ext_wr; auto | exact F].
  - split; [apply ext_alloc; auto | unfold fresh; cbn; auto].
Qed.

(* append onto ANY slice that has no room re-allocates: nothing old is written *)
Lemma go_append_realloc g n h s d : n <= length h -> s_cap s < s_len s + length d ->
  ext n h (fst (go_append g h s d)) /\ fresh n (snd (go_append g h s d)).
Proof.
  intros H C. unfold go_append, alloc.
  destruct (s_len s + length d <=? s_cap s) eqn:E; [apply Nat.leb_le in E; lia|].
  cbn [fst snd]. split; [apply ext_alloc; auto | unfold fresh; cbn; auto].
Qed.

(* appending nothing writes nothing, whatever the slice *)
Lemma go_append_nil g n h s : n <= length h -> ext n h (fst (go_append g h s [])).
Proof.
  intros H. unfold go_append, alloc. cbn [length]. rewrite Nat.add_0_r.
  destruct (s_len s <=? s_cap s); cbn [fst].
  - repeat split; auto. rewrite length_wr; auto.
    intros a Ha. unfold wr.
    destruct (Nat.eq_dec (s_arr s) a) as [->|Hne]; [|apply arr_upd_other; auto].
    rewrite splice_nil. rewrite arr_upd_same; auto. lia.
  - apply ext_alloc; auto.
Qed.

Lemma go_make_fresh n h len cap : n <= length h ->
  ext n h (fst (go_make h len cap)) /\ fresh n (snd (go_make h len cap)).
Proof. intros H. unfold go_make, alloc. cbn [fst snd]. split; [apply ext_alloc; auto | exact H]. Qed.

Lemma go_lit_fresh n h bs : n <= length h ->
  ext n h (fst (go_lit h bs)) /\ fresh n (snd (go_lit h bs)).
Proof. intros H. unfold go_lit, alloc. cbn [fst snd]. split; [apply ext_alloc; auto | exact H]. Qed.

Lemma go_copy_fresh n h dst src : n <= length h -> fresh n dst -> ext n h (fst (go_copy h dst src)).
Proof. intros H F. unfold go_copy. cbn [fst]. apply ext_wr; auto. Qed.

Lemma go_set_fresh n h s i b h' : n <= length h -> fresh n s -> go_set h s i b = Some h' -> ext n h h'.
Proof.
  intros H F E. unfold go_set in E. destruct (i <? s_len s); inversion E; subst. apply ext_wr; auto.
Qed.

Lemma go_sub_fresh n s lo hi s' : fresh n s -> go_sub s lo hi = Some s' -> fresh n s'.
Proof.
  intros F E. unfold go_sub in E. destruct ((lo <=? hi) && (hi <=? s_cap s)); inversion E; subst. exact F.
Qed.

(* ---------------- reading ---------------- *)

Lemma window_length off n bs : off + n <= length bs -> length (window off n bs) = n.
Proof. intros H. unfold window. rewrite firstn_length, skipn_length. lia. Qed.

Lemma rd_length h s : wf_slice h s -> length (rd h s) = s_len s.
Proof. intros (_ & A & B). apply window_length. lia. Qed.

Lemma rd_ext n h h' s : ext n h h' -> s_arr s < n -> rd h' s = rd h s.
Proof. intros (_ & _ & E) H. unfold rd. rewrite E; auto. Qed.

Lemma rd_cap_ext n h h' s : ext n h h' -> s_arr s < n -> rd_cap h' s = rd_cap h s.
Proof. intros (_ & _ & E) H. unfold rd_cap. rewrite E; auto. Qed.

Lemma wf_slice_ext n h h' s : ext n h h' -> s_arr s < n -> wf_slice h s -> wf_slice h' s.
Proof. intros (A & B & E) H (W1 & W2 & W3). repeat split; try lia. rewrite E; auto. Qed.

Lemma wf_sliceb_ok h s : wf_sliceb h s = true <-> wf_slice h s.
Proof. unfold wf_sliceb, wf_slice. rewrite !andb_true_iff, Nat.ltb_lt, !Nat.leb_le. tauto. Qed.

Lemma window_app_l off n a b : off + n <= length a -> window off n (a ++ b) = window off n a.
Proof.
  intros H. unfold window. rewrite skipn_app, firstn_app, skipn_length.
  replace (n - (length a - off)) with 0 by lia. cbn. apply app_nil_r.
Qed.

Lemma window_0_app n a b : length a = n -> window 0 n (a ++ b) = a.
Proof. intros <-. unfold window. cbn [skipn]. rewrite firstn_app, Nat.sub_diag, firstn_all. cbn. apply app_nil_r. Qed.

(* the in-place branch: reading the longer slice gives old contents ++ d *)
Lemma window_splice off len d bs : off + len + length d <= length bs ->
  window off (len + length d) (splice bs (off + len) d) = window off len bs ++ d.
Proof.
  intros H. rewrite splice_spec by lia. unfold window.
  rewrite skipn_app, firstn_length, Nat.min_l by lia.
  replace (off - (off + len)) with 0 by lia. cbn [skipn].
  rewrite skipn_firstn_comm. replace (off + len - off) with len by lia.
  rewrite firstn_app, firstn_length, skipn_length, Nat.min_l by lia.
  replace (len + length d - len) with (length d) by lia.
  rewrite firstn_app, Nat.sub_diag. cbn [firstn]. rewrite app_nil_r.
  rewrite firstn_all2 by (rewrite firstn_length, skipn_length; lia).
  rewrite firstn_all. reflexivity.
Qed.

Lemma go_append_rd g h s d : wf_slice h s ->
  rd (fst (go_append g h s d)) (snd (go_append g h s d)) = rd h s ++ d.
Proof.
  intros (W1 & W2 & W3). unfold go_append, alloc.
  destruct (s_len s + length d <=? s_cap s) eqn:E; cbn [fst snd].
  - apply Nat.leb_le in E. unfold rd. cbn [s_arr s_off s_len]. rewrite arr_wr_same by auto.
    apply window_splice. lia.
  - unfold rd. cbn [s_arr s_off s_len]. rewrite arr_alloc_new.
    rewrite app_assoc. apply window_0_app. rewrite app_length. fold (rd h s).
    rewrite rd_length; [reflexivity|repeat split; auto].
Qed.

Lemma go_append_wf g h s d : wf_slice h s -> wf_slice (fst (go_append g h s d)) (snd (go_append g h s d)).
Proof.
  intros (W1 & W2 & W3). unfold go_append, alloc.
  destruct (s_len s + length d <=? s_cap s) eqn:E; cbn [fst snd].
  - apply Nat.leb_le in E. repeat split; cbn [s_arr s_off s_len s_cap]; try lia.
    + rewrite length_wr; auto.
    + rewrite length_arr_wr; auto.
  - repeat split; cbn [s_arr s_off s_len s_cap]; try lia.
    + rewrite app_length; cbn; lia.
    + rewrite arr_alloc_new, !app_length, length_zeros. fold (rd h s).
      rewrite rd_length; [lia|repeat split; auto].
Qed.

Lemma go_lit_rd h bs : rd (fst (go_lit h bs)) (snd (go_lit h bs)) = bs.
Proof.
  unfold go_lit, alloc, rd. cbn [fst snd s_arr s_off s_len]. rewrite arr_alloc_new. unfold window. cbn [skipn]. apply firstn_all.
Qed.

Lemma go_lit_wf h bs : wf_slice (fst (go_lit h bs)) (snd (go_lit h bs)).
Proof.
  unfold go_lit, alloc. cbn [fst snd]. repeat split; cbn [s_arr s_off s_len s_cap]; try lia.
  - rewrite app_length; cbn; lia.
  - rewrite arr_alloc_new. lia.
Qed.

Lemma firstn_repeat_le {A} (x : A) n m : n <= m -> firstn n (repeat x m) = repeat x n.
Proof.
  revert m; induction n as [|n IH]; intros [|m] H; cbn; auto; try lia. f_equal. apply IH. lia.
Qed.

Lemma go_make_rd h len cap : rd (fst (go_make h len cap)) (snd (go_make h len cap)) = zeros len.
Proof.
  unfold go_make, alloc, rd. cbn [fst snd s_arr s_off s_len]. rewrite arr_alloc_new. unfold window, zeros. cbn [skipn].
  apply firstn_repeat_le. lia.
Qed.

Lemma go_make_wf h len cap : wf_slice (fst (go_make h len cap)) (snd (go_make h len cap)).
Proof.
  unfold go_make, alloc. cbn [fst snd]. repeat split; cbn [s_arr s_off s_len s_cap]; try lia.
  - rewrite app_length; cbn; lia.
  - rewrite arr_alloc_new, length_zeros. lia.
Qed.

Lemma skipn_skipn_add {A} (x y : nat) (l : list A) : skipn x (skipn y l) = skipn (y + x) l.
Proof.
  revert l; induction y as [|y IH]; intros l; cbn [skipn Nat.add]; auto.
  destruct l as [|a l]; [destruct x; reflexivity | apply IH].
Qed.

Lemma skipn_firstn_app_exact {A} (a b : list A) n : length a = n -> skipn n (a ++ b) = b.
Proof. intros <-. rewrite skipn_app, skipn_all, Nat.sub_diag. reflexivity. Qed.

Lemma window_splice_front off n d bs : length d <= n -> off + n <= length bs ->
  window off n (splice bs off d) = d ++ skipn (length d) (window off n bs).
Proof.
  intros Hd Hb. rewrite splice_spec by lia. unfold window.
  rewrite skipn_firstn_app_exact by (rewrite firstn_length; lia).
  rewrite firstn_app, (firstn_all2 d) by lia. f_equal.
  rewrite skipn_firstn_comm, skipn_skipn_add. reflexivity.
Qed.

(* copy(dst, src) with dst and src in different arrays *)
Lemma go_copy_rd h dst src : wf_slice h dst -> wf_slice h src ->
  rd (fst (go_copy h dst src)) dst =
  firstn (Nat.min (s_len dst) (s_len src)) (rd h src) ++ skipn (Nat.min (s_len dst) (s_len src)) (rd h dst).
Proof.
  intros (D1 & D2 & D3) Ws. unfold go_copy. cbn [fst].
  pose proof (rd_length h src Ws) as Ls.
  set (k := Nat.min (s_len dst) (s_len src)).
  set (d := firstn k (rd h src)).
  assert (Ld : length d = k) by (unfold d; rewrite firstn_length; lia).
  unfold rd at 1. rewrite arr_wr_same by auto.
  rewrite window_splice_front by lia. rewrite Ld. reflexivity.
Qed.

Lemma go_copy_wf h dst src s : wf_slice h s -> wf_slice (fst (go_copy h dst src)) s.
Proof.
  intros (A & B & C). unfold go_copy. cbn [fst]. repeat split; auto.
  - rewrite length_wr; auto.
  - rewrite length_arr_wr; auto.
Qed.

(* a write through one slice is invisible through a slice of another array *)
Lemma rd_wr_other h a pos d s : s_arr s <> a -> rd (wr h a pos d) s = rd h s.
Proof. intros H. unfold rd. rewrite arr_wr_other; auto. Qed.

(* ---------------- what the heap model catches ---------------- *)

(* append onto a slice with spare capacity writes d into the caller's array behind the slice *)
Lemma append_in_place_writes g h s d : wf_slice h s -> s_len s + length d <= s_cap s ->
  arr (fst (go_append g h s d)) (s_arr s) =
  firstn (s_off s + s_len s) (arr h (s_arr s)) ++ d ++ skipn (s_off s + s_len s + length d) (arr h (s_arr s)).
Proof.
  intros (W1 & W2 & W3) C. unfold go_append.
  destruct (s_len s + length d <=? s_cap s) eqn:E; [|apply Nat.leb_gt in E; lia].
  cbn [fst]. rewrite arr_wr_same by auto. apply splice_spec. lia.
Qed.

Example append_onto_arg_with_spare_capacity_writes :
  let h := [[x01; x02; xa5; xa5; xa5]] in
  let s := mk_slice 0 0 2 5 in
  arr (fst (go_append exact_policy h s [x00; x00])) 0 = [x01; x02; x00; x00; xa5] /\
  arr (fst (go_append exact_policy h (mk_slice 0 0 2 2) [x00; x00])) 0 = [x01; x02; xa5; xa5; xa5].
Proof. split; reflexivity. Qed.
