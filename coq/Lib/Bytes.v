(* Lib/Bytes.v — bytes, little-endian integers, stream-parser primitives.
   Stdlib only.  Bytes are Coq.Init.Byte.byte, byte strings are lists. *)
From Coq Require Export List NArith ZArith Lia Bool.
From Coq Require Export Strings.Byte.
From Coq Require Import ZifyBool ZifyN ZifyNat.
Export ListNotations.
Open Scope N_scope.

Ltac Zify.zify_post_hook ::= Z.div_mod_to_equations.

Definition bytes := list byte.

(* byte of the low 8 bits of v *)
Definition b8 (v : N) : byte :=
  match Byte.of_N (v mod 256) with Some b => b | None => x00 end.

Definition n8 (b : byte) : N := Byte.to_N b.

Lemma n8_lt b : n8 b < 256.
Proof. unfold n8. pose proof (Byte.to_N_bounded b). lia. Qed.

Lemma n8_b8 v : n8 (b8 v) = v mod 256.
Proof.
  unfold n8, b8. destruct (Byte.of_N (v mod 256)) eqn:E.
  - apply Byte.to_of_N in E. exact E.
  - apply Byte.of_N_None_iff in E. assert (v mod 256 < 256) by (apply N.mod_lt; lia). lia.
Qed.

Lemma b8_n8 b : b8 (n8 b) = b.
Proof.
  unfold b8, n8. rewrite N.mod_small by (pose proof (Byte.to_N_bounded b); lia).
  rewrite Byte.of_to_N. reflexivity.
Qed.

Lemma n8_inj a b : n8 a = n8 b -> a = b.
Proof. intro H. rewrite <- (b8_n8 a), <- (b8_n8 b), H. reflexivity. Qed.

Lemma b8_small_inj u v : u < 256 -> v < 256 -> b8 u = b8 v -> u = v.
Proof.
  intros Hu Hv H. apply (f_equal n8) in H. rewrite !n8_b8 in H.
  rewrite !N.mod_small in H by assumption. exact H.
Qed.

Definition beqb (a b : byte) : bool := Byte.eqb a b.
Lemma beqb_eq a b : beqb a b = true <-> a = b.
Proof. split; [apply Byte.byte_dec_bl | apply Byte.byte_dec_lb]. Qed.

Fixpoint bytes_eqb (a b : bytes) : bool :=
  match a, b with
  | [], [] => true
  | x :: a', y :: b' => beqb x y && bytes_eqb a' b'
  | _, _ => false
  end.
Lemma bytes_eqb_eq a b : bytes_eqb a b = true <-> a = b.
Proof.
  revert b; induction a as [|x a IH]; intros [|y b]; cbn; split; intro H; try congruence; try discriminate.
  - apply andb_true_iff in H as [H1 H2]. apply beqb_eq in H1. apply IH in H2. congruence.
  - inversion H; subst. apply andb_true_iff; split; [apply beqb_eq; reflexivity | apply IH; reflexivity].
Qed.

(* ---------- little-endian fixed width ---------- *)
Fixpoint le_enc (n : nat) (v : N) : bytes :=
  match n with O => [] | S k => b8 v :: le_enc k (v / 256) end.

Fixpoint le_dec (bs : bytes) : N :=
  match bs with [] => 0 | b :: r => n8 b + 256 * le_dec r end.

Lemma le_enc_length n v : length (le_enc n v) = n.
Proof. revert v; induction n as [|n IH]; intro v; cbn; [reflexivity | rewrite IH; reflexivity]. Qed.

Lemma le_dec_enc n v : v < 256 ^ N.of_nat n -> le_dec (le_enc n v) = v.
Proof.
  revert v; induction n as [|n IH]; intros v Hv.
  - cbn in *. lia.
  - cbn [le_enc le_dec]. rewrite n8_b8. rewrite IH.
    + pose proof (N.div_mod v 256). lia.
    + rewrite Nnat.Nat2N.inj_succ, N.pow_succ_r' in Hv.
      apply N.div_lt_upper_bound; lia.
Qed.

Lemma le_dec_bound bs : le_dec bs < 256 ^ N.of_nat (length bs).
Proof.
  induction bs as [|b r IH].
  - cbn. lia.
  - cbn [length le_dec]. rewrite Nnat.Nat2N.inj_succ, N.pow_succ_r'.
    pose proof (n8_lt b). lia.
Qed.

Lemma le_enc_dec bs : le_enc (length bs) (le_dec bs) = bs.
Proof.
  induction bs as [|b r IH]; cbn [length le_enc le_dec]; [reflexivity|].
  pose proof (n8_lt b) as Hb.
  assert (E1 : (n8 b + 256 * le_dec r) mod 256 = n8 b).
  { lia. }
  assert (E2 : (n8 b + 256 * le_dec r) / 256 = le_dec r).
  { lia. }
  f_equal.
  - unfold b8. rewrite E1. unfold n8. rewrite Byte.of_to_N. reflexivity.
  - rewrite E2. exact IH.
Qed.

Lemma le_enc_inj n u v : u < 256 ^ N.of_nat n -> v < 256 ^ N.of_nat n -> le_enc n u = le_enc n v -> u = v.
Proof. intros Hu Hv H. rewrite <- (le_dec_enc n u Hu), <- (le_dec_enc n v Hv), H. reflexivity. Qed.

(* big-endian (used by SHA-256 and a few PSET fields) *)
Definition be_enc (n : nat) (v : N) : bytes := rev (le_enc n v).
Definition be_dec (bs : bytes) : N := le_dec (rev bs).

Lemma be_dec_enc n v : v < 256 ^ N.of_nat n -> be_dec (be_enc n v) = v.
Proof. intro H. unfold be_dec, be_enc. rewrite rev_involutive. apply le_dec_enc; exact H. Qed.

(* ---------- stream parsers ---------- *)
Definition parser (A : Type) := bytes -> option (A * bytes).

Definition ret {A} (a : A) : parser A := fun bs => Some (a, bs).
Definition bind {A B} (p : parser A) (f : A -> parser B) : parser B :=
  fun bs => match p bs with None => None | Some (a, r) => f a r end.
Definition pfail {A} : parser A := fun _ => None.

Notation "x <- p ;; q" := (bind p (fun x => q)) (at level 61, p at next level, right associativity).

(* exactly n bytes, n a small nat constant *)
Definition take (n : nat) : parser bytes :=
  fun bs => if (n <=? length bs)%nat then Some (firstn n bs, skipn n bs) else None.

(* exactly n bytes, n an untrusted 64-bit quantity: compare before converting *)
Definition takeN (n : N) : parser bytes :=
  fun bs => if n <=? N.of_nat (length bs) then take (N.to_nat n) bs else None.

Definition p_u8 : parser N :=
  fun bs => match bs with [] => None | b :: r => Some (n8 b, r) end.

Definition p_le (n : nat) : parser N :=
  fun bs => match take n bs with None => None | Some (x, r) => Some (le_dec x, r) end.

Lemma take_app x r : take (length x) (x ++ r) = Some (x, r).
Proof.
  unfold take. rewrite app_length.
  destruct (Nat.leb_spec (length x) (length x + length r)); [|lia].
  rewrite firstn_app, Nat.sub_diag, firstn_all. cbn. rewrite app_nil_r.
  rewrite skipn_app, Nat.sub_diag, skipn_all. reflexivity.
Qed.

Lemma take_app_n n x r : length x = n -> take n (x ++ r) = Some (x, r).
Proof. intros <-. apply take_app. Qed.

Lemma take_inv n bs x r : take n bs = Some (x, r) -> bs = x ++ r /\ length x = n.
Proof.
  unfold take. destruct (Nat.leb_spec n (length bs)) as [H|H]; [|discriminate].
  intro E; inversion E; subst. split; [symmetry; apply firstn_skipn | apply firstn_length_le; exact H].
Qed.

Lemma takeN_app x r : takeN (N.of_nat (length x)) (x ++ r) = Some (x, r).
Proof.
  unfold takeN. rewrite app_length.
  destruct (N.leb_spec (N.of_nat (length x)) (N.of_nat (length x + length r))); [|lia].
  rewrite Nnat.Nat2N.id. apply take_app.
Qed.

Lemma takeN_inv n bs x r : takeN n bs = Some (x, r) -> bs = x ++ r /\ N.of_nat (length x) = n.
Proof.
  unfold takeN. destruct (N.leb_spec n (N.of_nat (length bs))) as [H|H]; [|discriminate].
  intro E. apply take_inv in E as [E1 E2]. split; [exact E1 | lia].
Qed.

Lemma p_le_app n v r : v < 256 ^ N.of_nat n -> p_le n (le_enc n v ++ r) = Some (v, r).
Proof.
  intro H. unfold p_le. rewrite (take_app_n n) by apply le_enc_length.
  rewrite le_dec_enc by exact H. reflexivity.
Qed.

Lemma p_le_inv n bs v r : p_le n bs = Some (v, r) -> bs = le_enc n v ++ r /\ v < 256 ^ N.of_nat n.
Proof.
  unfold p_le. destruct (take n bs) as [[x r']|] eqn:E; [|discriminate].
  intro H; inversion H; subst. apply take_inv in E as [-> <-].
  split; [rewrite le_enc_dec; reflexivity | apply le_dec_bound].
Qed.

Lemma p_u8_app v r : v < 256 -> p_u8 (b8 v :: r) = Some (v, r).
Proof. intro H. cbn. rewrite n8_b8, N.mod_small by exact H. reflexivity. Qed.

Lemma p_u8_inv bs v r : p_u8 bs = Some (v, r) -> bs = b8 v :: r /\ v < 256.
Proof.
  destruct bs as [|b bs]; cbn; [discriminate|]. intro H; inversion H; subst.
  split; [rewrite b8_n8; reflexivity | apply n8_lt].
Qed.

(* length helpers *)
Definition lenN (bs : bytes) : N := N.of_nat (length bs).
Definition lenL {A} (l : list A) : N := N.of_nat (length l).

Lemma lenN_app a b : lenN (a ++ b) = lenN a + lenN b.
Proof. unfold lenN. rewrite app_length. lia. Qed.

Lemma lenN_le_enc n v : lenN (le_enc n v) = N.of_nat n.
Proof. unfold lenN. rewrite le_enc_length. reflexivity. Qed.

(* concatenation of a list of byte strings *)
Definition bconcat (l : list bytes) : bytes := concat l.

Definition u32max : N := 0xffffffff.
Definition two32 : N := 0x100000000.
Definition two64 : N := 0x10000000000000000.
