(* Lib/Sha256.v — executable SHA-256 (FIPS 180-4) over byte lists, plus the
   single-block mid-state used by Elements issuance ids.  Checked against the
   standard test vectors at the end of the file (inside the kernel, vm_compute). *)
From GE Require Export Lib.Bytes.
Open Scope N_scope.

Definition m32 : N := 0x100000000.
Definition mask32 : N := 0xffffffff.
Definition add32 (a b : N) : N := N.land (a + b) mask32.
Definition rotr (n x : N) : N := N.lor (N.shiftr x n) (N.land (N.shiftl x (32 - n)) mask32).
Definition shr (n x : N) : N := N.shiftr x n.
Definition not32 (x : N) : N := N.lxor x 0xffffffff.

Definition Ch (x y z : N) := N.lxor (N.land x y) (N.land (not32 x) z).
Definition Maj (x y z : N) := N.lxor (N.lxor (N.land x y) (N.land x z)) (N.land y z).
Definition BS0 x := N.lxor (N.lxor (rotr 2 x) (rotr 13 x)) (rotr 22 x).
Definition BS1 x := N.lxor (N.lxor (rotr 6 x) (rotr 11 x)) (rotr 25 x).
Definition SS0 x := N.lxor (N.lxor (rotr 7 x) (rotr 18 x)) (shr 3 x).
Definition SS1 x := N.lxor (N.lxor (rotr 17 x) (rotr 19 x)) (shr 10 x).

Definition K256 : list N := [
 0x428a2f98;0x71374491;0xb5c0fbcf;0xe9b5dba5;0x3956c25b;0x59f111f1;0x923f82a4;0xab1c5ed5;
 0xd807aa98;0x12835b01;0x243185be;0x550c7dc3;0x72be5d74;0x80deb1fe;0x9bdc06a7;0xc19bf174;
 0xe49b69c1;0xefbe4786;0x0fc19dc6;0x240ca1cc;0x2de92c6f;0x4a7484aa;0x5cb0a9dc;0x76f988da;
 0x983e5152;0xa831c66d;0xb00327c8;0xbf597fc7;0xc6e00bf3;0xd5a79147;0x06ca6351;0x14292967;
 0x27b70a85;0x2e1b2138;0x4d2c6dfc;0x53380d13;0x650a7354;0x766a0abb;0x81c2c92e;0x92722c85;
 0xa2bfe8a1;0xa81a664b;0xc24b8b70;0xc76c51a3;0xd192e819;0xd6990624;0xf40e3585;0x106aa070;
 0x19a4c116;0x1e376c08;0x2748774c;0x34b0bcb5;0x391c0cb3;0x4ed8aa4a;0x5b9cca4f;0x682e6ff3;
 0x748f82ee;0x78a5636f;0x84c87814;0x8cc70208;0x90befffa;0xa4506ceb;0xbef9a3f7;0xc67178f2].

Definition IV256 : list N :=
 [0x6a09e667;0xbb67ae85;0x3c6ef372;0xa54ff53a;0x510e527f;0x9b05688c;0x1f83d9ab;0x5be0cd19].

(* big-endian words of a byte list (length a multiple of 4) *)
Fixpoint words_of (fuel : nat) (bs : bytes) : list N :=
  match fuel with
  | O => []
  | S f => match bs with
           | a :: b :: c :: d :: r => (((n8 a * 256 + n8 b) * 256 + n8 c) * 256 + n8 d) :: words_of f r
           | _ => []
           end
  end.

Definition nthN (l : list N) (i : nat) : N := nth i l 0.

(* message schedule: w holds the words computed so far, newest first *)
Fixpoint expand (n : nat) (w : list N) : list N :=
  match n with
  | O => w
  | S k =>
      let x := add32 (add32 (SS1 (nthN w 1)) (nthN w 6)) (add32 (SS0 (nthN w 14)) (nthN w 15)) in
      expand k (x :: w)
  end.

Definition schedule (block : list N) : list N := rev (expand 48 (rev block)).

Definition round (st : list N) (kw : N * N) : list N :=
  match st with
  | [a; b; c; d; e; f; g; h] =>
      let t1 := add32 (add32 (add32 h (BS1 e)) (add32 (Ch e f g) (fst kw))) (snd kw) in
      let t2 := add32 (BS0 a) (Maj a b c) in
      [add32 t1 t2; a; b; c; add32 d t1; e; f; g]
  | _ => st
  end.

Definition compress (st : list N) (block : bytes) : list N :=
  let w := schedule (words_of 16 block) in
  let st' := fold_left round (combine K256 w) st in
  map (fun p => add32 (fst p) (snd p)) (combine st st').

Fixpoint blocks (fuel : nat) (st : list N) (bs : bytes) : list N :=
  match fuel with
  | O => st
  | S f => match bs with
           | [] => st
           | _ => blocks f (compress st (firstn 64 bs)) (skipn 64 bs)
           end
  end.

Definition pad (msg : bytes) : bytes :=
  let l := length msg in
  let k := ((64 - ((l + 9) mod 64)) mod 64)%nat in
  msg ++ x80 :: repeat x00 k ++ be_enc 8 (8 * N.of_nat l).

Definition digest_of (st : list N) : bytes := concat (map (be_enc 4) st).

Definition sha256 (msg : bytes) : bytes :=
  let p := pad msg in digest_of (blocks (S (length p / 64)) IV256 p).

Definition dsha256 (msg : bytes) : bytes := sha256 (sha256 msg).

(* fastsha256.MidState256 as used by the issuance code: the chaining value after
   compressing the first 64 bytes; the IV itself if fewer than 64 bytes are given *)
Definition midstate256 (msg : bytes) : bytes :=
  if (length msg <? 64)%nat then digest_of IV256 else digest_of (compress IV256 (firstn 64 msg)).

(* BIP-340 tagged hash *)
Definition tagged_hash (tag msg : bytes) : bytes :=
  let t := sha256 tag in sha256 (t ++ t ++ msg).

(* ---------- hex helper for vectors ---------- *)
Definition hexdigit (n : N) : byte :=
  b8 (if n <? 10 then 48 + n else 87 + n).
Fixpoint to_hex (bs : bytes) : bytes :=
  match bs with [] => [] | b :: r => hexdigit (n8 b / 16) :: hexdigit (n8 b mod 16) :: to_hex r end.

Lemma sha256_length_vec_empty :
  to_hex (sha256 []) =
  map b8 [101;51;98;48;99;52;52;50;57;56;102;99;49;99;49;52;57;97;102;98;102;52;99;56;57;57;54;102;98;57;50;52;50;55;97;101;52;49;101;52;54;52;57;98;57;51;52;99;97;52;57;53;57;57;49;98;55;56;53;50;98;56;53;53].
Proof. vm_compute. reflexivity. Qed.

(* "abc" -> ba7816bf 8f01cfea 414140de 5dae2223 b00361a3 96177a9c b410ff61 f20015ad *)
Lemma sha256_vec_abc :
  sha256 (map b8 [97;98;99]) =
  map b8 [0xba;0x78;0x16;0xbf;0x8f;0x01;0xcf;0xea;0x41;0x41;0x40;0xde;0x5d;0xae;0x22;0x23;
          0xb0;0x03;0x61;0xa3;0x96;0x17;0x7a;0x9c;0xb4;0x10;0xff;0x61;0xf2;0x00;0x15;0xad].
Proof. vm_compute. reflexivity. Qed.

(* 56-byte two-block message "abcdbcdecdefdefgefghfghighijhijkijkljklmklmnlmnomnopnopq"
   -> 248d6a61 d20638b8 e5c02693 0c3e6039 a33ce459 64ff2167 f6ecedd4 19db06c1 *)
Lemma sha256_vec_two_blocks :
  sha256 (map b8 [97;98;99;100;98;99;100;101;99;100;101;102;100;101;102;103;101;102;103;104;102;103;104;105;
                  103;104;105;106;104;105;106;107;105;106;107;108;106;107;108;109;107;108;109;110;108;109;110;111;
                  109;110;111;112;110;111;112;113]) =
  map b8 [0x24;0x8d;0x6a;0x61;0xd2;0x06;0x38;0xb8;0xe5;0xc0;0x26;0x93;0x0c;0x3e;0x60;0x39;
          0xa3;0x3c;0xe4;0x59;0x64;0xff;0x21;0x67;0xf6;0xec;0xed;0xd4;0x19;0xdb;0x06;0xc1].
Proof. vm_compute. reflexivity. Qed.

Lemma digest_of_length st : length st = 8%nat -> length (digest_of st) = 32%nat.
Proof.
  intro H. do 9 (destruct st as [|? st]; try discriminate H).
  unfold digest_of. cbn [map concat]. rewrite !app_length. unfold be_enc. rewrite !rev_length, !le_enc_length. reflexivity.
Qed.
