(* Lib/Hex.v — hexadecimal text to bytes, used only by the in-Coq evaluation of sampled correspondence cases
   (bin/check writes build/coqeval/*.v files whose case lists are hexadecimal strings). Definitions only. *)
From Coq Require Import String Ascii NArith List.
From GE Require Import Lib.Bytes.
Import ListNotations.
Open Scope N_scope.

Definition nib (c : ascii) : N :=
  let n := N_of_ascii c in
  if (48 <=? n) && (n <=? 57) then n - 48
  else if (97 <=? n) && (n <=? 102) then n - 87
  else if (65 <=? n) && (n <=? 70) then n - 55 else 0.

Fixpoint of_hex (s : string) : bytes :=
  match s with
  | String a (String b r) => b8 (16 * nib a + nib b) :: of_hex r
  | _ => []
  end.

(* number of cases on which a byte function disagrees with the recorded answer *)
Definition disagreements (f : bytes -> bytes) (cases : list (string * string)) : nat :=
  List.length (List.filter (fun c => negb (bytes_eqb (f (of_hex (fst c))) (of_hex (snd c)))) cases).
