(* Lib/Sched.v — schedules: a schedule is a list of thread ids; each entry lets that
   thread perform its next atomic step.  Every interleaving of the threads' atomic steps
   is a schedule, so a statement proved for all schedules (by induction on the list) holds
   for every goroutine interleaving at that granularity. *)
From Coq Require Import List.
Import ListNotations.

Section Sched.
  Variable St : Type.
  Variable step : St -> nat -> St.

  Definition run (s : St) (sch : list nat) : St := fold_left step sch s.

  Lemma run_nil s : run s [] = s.
  Proof. reflexivity. Qed.

  Lemma run_cons s i sch : run s (i :: sch) = run (step s i) sch.
  Proof. reflexivity. Qed.

  Lemma run_app s a b : run s (a ++ b) = run (run s a) b.
  Proof. unfold run. apply fold_left_app. Qed.

  (* an invariant of every step is an invariant of every schedule *)
  Lemma run_invariant (Inv : St -> Prop) :
    (forall s i, Inv s -> Inv (step s i)) -> forall sch s, Inv s -> Inv (run s sch).
  Proof.
    intros Hstep sch. induction sch as [|i r IH]; intros s H; [exact H|].
    rewrite run_cons. apply IH. apply Hstep. exact H.
  Qed.
End Sched.
Arguments run {St} step s sch.
