(* Extract.v — extraction of the executable models to OCaml.
   ExtrOcamlBasic only (bool, option, unit, list, prod, sumbool, sumor mapped to
   OCaml's own); no Extract Constant; N, Z, positive, nat, byte stay Coq inductives. *)
From Coq Require Extraction.
From Coq Require Import ExtrOcamlBasic.
From GE Require Import Lib.Bytes Lib.Varint Lib.Sha256 Model.Tx Model.TxHash Model.PsetV0 Model.Sighash Spec.ElementsSighash.
From GE Require Import Model.PsetV2.
From GE Require Import Model.Block.
From GE Require Import Model.Scalar.
From GE Require Import Spec.PartialMerkle Model.Merkle Model.Pegin.
From GE Require Import Model.Ripemd160 Model.Spend.
From GE Require Import Model.Blind.
From GE Require Import Model.Taproot.
From GE Require Import Model.SigValidate.
From GE Require Import Model.Roles.
From GE Require Import Model.Unblind.
From GE Require Import Model.Blech32 Model.AddrCodecs Model.Address.
From GE Require Import Model.Issuance.
From GE Require Import Lib.Heap Lib.Sched Model.Alias Model.FreeList.
From GE Require Import Model.MerkleHist.
From GE Require Import Model.Descriptor.
Extraction Language OCaml.
Extraction "model.ml"
  Byte.of_N Byte.to_N N.of_nat N.to_nat Z.of_N
  sha256 dsha256 midstate256 tagged_hash
  varint p_varint
  ser_full ser_tx parse_tx size_tx weight vsize discount_weight discount_vsize_go
  wf_tx norm_tx canonical_flag has_witness txid wtxid copy_tx
  digest_legacy digest_v0 digest_v1 preimage_legacy preimage_v0 preimage_v1
  spec_legacy_digest spec_v0_digest spec_v1_digest
  ser_header ser_block parse_header parse_block wf_block norm_block
  v0_ser v0_parse v0_wf v0_wf_core v0_norm v0_canon v0_finalize_at
  parse_pset ser_pset wf_pset norm_pset global_tbl input_tbl output_tbl
  go_calc_offset go_sub_scalars go_add_offset sout_of sarg_after sreturns_global
  mkl_build mkl_root mkl_run mkl_claim
  ripemd160 hash160
  sign0 finalize0 maybe_finalize0 finalize_all0 maybe_finalize_all0 extract0 hop0_st
  sign2 sign_tap_key2 sign_tap_script2 finalize2 maybe_finalize2 finalize_all2 maybe_finalize_all2
  extract2 unsigned_tx2 hop2_st strip_tx satisfies empty_pin add_input2 add_witness_utxo2 new_pin2
  bl_party_step bl_new_blinder bl_blind bl_unblind_inputs bl_balanced bl_sc bl_enc b0_blind b0_balanced
  assemble_c cb_root_c parse_cb parse_cb_c ser_cb to_cb tapleaf_kv parse_tapleaf_kv_c verify_with_oracle
  tweak_priv tweak_scalar scalar_of_bytes scalar_to_bytes x_on_curve tnode_hash leaf_hash
  vs_validate_input vs_validate_all vs_disasm
  R11.init R11.step R11.rt R11.rt_class R11.locktime
  ub_fit is_conf_out calc_asset_hash calc_token_hash o_nonce_hash o_asset_commitment o_value_commitment
  o_range_proof o_verify_range_proof o_blind_output o_blind_issuance_amount o_unblind_with_key
  o_unblind_with_nonce o_unblind_issuance o_last_value_range_proof o_gen_run
  B32.decode B32.decode_generic B32.encode B32.convert_bits B32.to_upper B32.BLECH32 B32.BLECH32M
  compute_entropy compute_asset compute_token new_from_input new_tx_issuance contract_json wf_contract
  v0_add_issuance v0_add_reissuance v2_add_in_issuance v2_add_in_reissuance
  get_issuance_asset_hash get_issuance_keys_hash unsigned_issuance extract_issuance unsigned_pegin extract_pegin unsigned_output expected_issuance
  XC.check_encode XC.check_decode XC.bech_decode XC.bech_encode
  Addr.liquid Addr.regtest Addr.testnet Addr.n_id Addr.n_pkh Addr.n_sh Addr.n_conf Addr.n_bech32 Addr.n_blech32
  Addr.from_base58 Addr.to_base58 Addr.from_base58_conf Addr.to_base58_conf Addr.from_bech32 Addr.to_bech32
  Addr.from_blech32 Addr.to_blech32 Addr.network_for_address Addr.decode_type Addr.is_confidential
  Addr.to_output_script Addr.from_confidential Addr.to_confidential Addr.pay_address
  Addr.script_p2pkh Addr.script_p2sh Addr.script_segwit
  arr rd rd_cap wr go_policy exact_policy wf_sliceb
  Al.compute_asset Al.compute_token Al.final_vbf_values Al.range_proof_message Al.b32_encode Al.b32_decode
  Al.to_base58_conf Al.to_blech32 Al.tap_script_sigs Al.tap_leaf_scripts Al.get_utxo Al.reverse_bytes
  Al.value_from_bytes Al.asset_hash_from_bytes Al.txid_from_bytes Al.ser_vector Al.copy_all Al.read_all Al.pkg_globals
  FL.run_seq FL.run_sched FL.init FL.flist_cap
  mkl_hist
  Desc.parse Desc.script Desc.is_range.
