(* Extract.v — extraction of the executable models to OCaml.
   ExtrOcamlBasic only (bool, option, unit, list, prod, sumbool, sumor mapped to
   OCaml's own); no Extract Constant; N, Z, positive, nat, byte stay Coq inductives. *)
From Coq Require Extraction.
From Coq Require Import ExtrOcamlBasic.
From GE Require Import Lib.Bytes Lib.Varint Lib.Sha256 Model.Tx Model.TxHash.
Extraction Language OCaml.
Extraction "model.ml"
  Byte.of_N Byte.to_N N.of_nat N.to_nat Z.of_N
  sha256 dsha256 midstate256 tagged_hash
  varint p_varint
  ser_full ser_tx parse_tx size_tx weight vsize discount_weight discount_vsize_go
  wf_tx norm_tx canonical_flag has_witness txid wtxid copy_tx.
