package main

import (
	"bytes"
	"fmt"
	"hash/fnv"
	"strings"

	"github.com/vulpemventures/go-elements/address"
	"github.com/vulpemventures/go-elements/blech32"
)

// Implementation-side oracle (S) for C15: the property stated directly on
// blech32.Decode / Encode.  Used to search for a failing input, never as evidence.

func lineRng(line string) *Rng {
	h := fnv.New64a()
	h.Write([]byte(line))
	return NewRng(h.Sum64())
}

func b32Standard(hrp string, ndata int) bool {
	return (hrp == "lq" || hrp == "tlq" || hrp == "el") && (ndata == 86 || ndata == 105)
}

// accepted reports whether Decode accepts s (a panic is not an acceptance; it is C12's business).
// Every string is presented TWICE in a row: a string rejected the first time must be rejected again
// (a decoder that remembers what it has seen must not change its mind), so "accepted" means accepted
// by either call.
func b32Accepted(s []byte) bool {
	str := string(s)
	a := b32Decode(str).class == "ok"
	b := b32Decode(str).class == "ok"
	return a || b
}

// the address-level decoders built on blech32.Decode, each asked twice as well
func addrLayerAccepts(s []byte) string {
	str := string(s)
	for k := 0; k < 2; k++ {
		if guard(func() string {
			if _, err := address.FromBlech32(str); err == nil {
				return "ok"
			}
			return ""
		}) == "ok" {
			return "FromBlech32"
		}
	}
	if guard(func() string {
		if _, err := address.DecodeType(str); err == nil {
			return "ok"
		}
		return ""
	}) == "ok" {
		return "DecodeType"
	}
	if guard(func() string {
		if _, err := address.ToOutputScript(str); err == nil {
			return "ok"
		}
		return ""
	}) == "ok" {
		return "ToOutputScript"
	}
	if guard(func() string {
		if _, err := address.FromConfidential(str); err == nil {
			return "ok"
		}
		return ""
	}) == "ok" {
		return "FromConfidential"
	}
	return ""
}

// checks shared by b32dec and b32sub2 on a string the implementation accepts
func c15Common(s string, d b32dec, r *Rng) string {
	lower, upper := strings.ToLower(s), strings.ToUpper(s)
	// upper- and lower-case spellings decode to the same data
	for _, v := range []string{lower, upper} {
		dv := b32Decode(v)
		if dv.class != "ok" || dv.hrp != d.hrp || !bytes.Equal(dv.data, d.data) {
			return fail("case-insensitive", "spelling-decodes-differently")
		}
	}
	// the valid string is accepted again, with the same data, however often it is asked
	for k := 0; k < 2; k++ {
		dv := b32Decode(s)
		if dv.class != "ok" || dv.hrp != d.hrp || !bytes.Equal(dv.data, d.data) {
			return fail("repeat-decode", "valid-string-answers-differ")
		}
	}
	// every mixed-case spelling obtained by flipping the case of one letter is rejected,
	// by blech32.Decode and by the address decoders on top of it
	lb, ub := []byte(lower), []byte(upper)
	nletters := 0
	for i := range lb {
		if lb[i] != ub[i] {
			nletters++
		}
	}
	if nletters >= 2 {
		for i := range lb {
			if lb[i] == ub[i] {
				continue
			}
			m := append([]byte{}, lb...)
			m[i] = ub[i]
			if b32Accepted(m) {
				return fail("mixed-case", fmt.Sprintf("one-upper-at=%d", i))
			}
			if f := addrLayerAccepts(m); f != "" {
				return fail("mixed-case-address", fmt.Sprintf("%s/one-upper-at=%d", f, i))
			}
			m = append([]byte{}, ub...)
			m[i] = lb[i]
			if b32Accepted(m) {
				return fail("mixed-case", fmt.Sprintf("one-lower-at=%d", i))
			}
			if f := addrLayerAccepts(m); f != "" {
				return fail("mixed-case-address", fmt.Sprintf("%s/one-lower-at=%d", f, i))
			}
		}
		// upper-case prefix with lower-case data part, and the other way round
		one := strings.LastIndexByte(lower, '1')
		if one > 0 {
			for k, m := range [][]byte{append(append([]byte{}, ub[:one+1]...), lb[one+1:]...),
				append(append([]byte{}, lb[:one+1]...), ub[one+1:]...)} {
				if string(m) == lower || string(m) == upper {
					continue
				}
				if b32Accepted(m) {
					return fail("mixed-case", fmt.Sprintf("block-pattern=%d", k))
				}
				if f := addrLayerAccepts(m); f != "" {
					return fail("mixed-case-address", fmt.Sprintf("%s/block-pattern=%d", f, k))
				}
			}
		}
	}
	// the constant is selected by the witness version
	if len(d.data) == 0 || d.data[0] > 1 {
		return fail("version-constant", fmt.Sprintf("accepted-version=%v", d.data))
	}
	other := blech32.BLECH32M
	if d.data[0] == 1 {
		other = blech32.BLECH32
	}
	if x, ok := b32Encode(d.hrp, d.data, other); ok {
		if b32Accepted([]byte(x)) {
			return fail("version-constant", "other-constant-accepted")
		}
		if f := addrLayerAccepts([]byte(x)); f != "" {
			return fail("version-constant", "other-constant-accepted-by-"+f)
		}
		// and with the version symbol swapped to match that constant it is a different valid address
	}
	return ""
}

func c15Positions(lower string, d b32dec) (first int, last int) {
	one := strings.LastIndexByte(lower, '1')
	first = one + 1
	if b32Standard(d.hrp, len(d.data)) {
		first = 0 // standard shapes: the human-readable part and the separator are covered too
	}
	return first, len(lower)
}

func c15Sub1(lb []byte, first, last int) string {
	for p := first; p < last; p++ {
		orig := lb[p]
		for k := 0; k < 32; k++ {
			c := b32charset[k]
			if c == orig {
				continue
			}
			lb[p] = c
			if b32Accepted(lb) {
				return fail("sub1", fmt.Sprintf("pos=%d/char=%c", p, c))
			}
			if (k+p)%8 == 0 {
				if f := addrLayerAccepts(lb); f != "" {
					return fail("sub1-address", fmt.Sprintf("%s/pos=%d/char=%c", f, p, c))
				}
			}
		}
		lb[p] = orig
	}
	return ""
}

func c15Sub2At(lb []byte, p, q int) string {
	op, oq := lb[p], lb[q]
	for k := 0; k < 32; k++ {
		if b32charset[k] == op {
			continue
		}
		lb[p] = b32charset[k]
		for l := 0; l < 32; l++ {
			if b32charset[l] == oq {
				continue
			}
			lb[q] = b32charset[l]
			if b32Accepted(lb) {
				return fail("sub2", fmt.Sprintf("pos=%d,%d/chars=%c%c", p, q, lb[p], lb[q]))
			}
		}
	}
	lb[p], lb[q] = op, oq
	return ""
}

// C15 on one string: if the implementation accepts it, all 1-position substitutions
// and a sample of 2-position substitutions must be rejected, etc.
func checkC15Dec(t *Toks) string {
	s := string(t.Hex())
	d := b32Decode(s)
	if d.class != "ok" {
		return "OK not-accepted"
	}
	r := lineRng(t.line)
	if f := c15Common(s, d, r); f != "" {
		return f
	}
	lower := strings.ToLower(s)
	lb := []byte(lower)
	first, last := c15Positions(lower, d)
	if f := c15Sub1(lb, first, last); f != "" {
		return f
	}
	// sampled pairs of positions, all 31 x 31 replacements each
	npairs := 6
	for i := 0; i < npairs; i++ {
		p, q := first+r.Intn(last-first), first+r.Intn(last-first)
		if p == q {
			continue
		}
		if f := c15Sub2At(lb, p, q); f != "" {
			return f
		}
	}
	// exploration only (no theorem, not a failure): 3- and 4-position patterns
	missed := 0
	for i := 0; i < 2000; i++ {
		m := append([]byte{}, lb...)
		for j := 3 + r.Intn(2); j > 0; j-- {
			p := first + r.Intn(last-first)
			m[p] = b32OtherChar(r, m[p])
		}
		if !bytes.Equal(m, lb) && b32Accepted(m) {
			missed++
		}
	}
	return fmt.Sprintf("OK accepted sub1-positions=%d undetected-3-4-of-2000=%d", last-first, missed)
}

// exhaustive 2-position substitution of one valid address
func checkC15Sub2(t *Toks) string {
	s := string(t.Hex())
	k, m := t.Int(), t.Int()
	d := b32Decode(s)
	if d.class != "ok" {
		return "SKIP not-accepted"
	}
	if m <= 0 {
		m, k = 1, 0
	}
	lower := strings.ToLower(s)
	lb := []byte(lower)
	first, last := c15Positions(lower, d)
	n := 0
	for p := first; p < last; p++ {
		if p%m != k {
			continue
		}
		for q := p + 1; q < last; q++ {
			if f := c15Sub2At(lb, p, q); f != "" {
				return f
			}
			n++
		}
	}
	return fmt.Sprintf("OK exhaustive-pairs=%d", n)
}

func init() {
	checks["C15/b32dec"] = checkC15Dec
	checks["C15/b32sub2"] = checkC15Sub2
}
