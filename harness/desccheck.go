package main

import (
	"fmt"
	"hash/fnv"
	"strings"

	"github.com/vulpemventures/go-elements/descriptor"
)

// C12 oracle for the output-descriptor parser (family desc): the property stated on the implementation.
//   - descriptor.Parse returns a wallet or an error, never neither and never both, and does not panic;
//   - it requests at most 400 x len(input) + 1 MiB;
//   - every method of an accepted wallet (Type, IsRange, Script with nil / WithIndex / WithRange / zero-value options)
//     returns without panicking;
//   - the answer is the same when the same text is parsed again;
//   - strict prefixes: for an unmodified valid descriptor `name(key)[#checksum]` the only strict prefix that
//     may be accepted is the descriptor without its `#checksum` (the checksum is optional by format); every
//     prefix of every input is parsed without a panic;
//   - the same text with other white space / non-ASCII / invalid UTF-8 inserted is parsed without a panic
//     (these inputs are outside the domain of the model; only the oracle sees them).

// every way a caller can build the options: nil, WithIndex, WithRange (also 0, negative and a few hundred), and the
// zero value of the exported type (commit 84bb833)
func descParseGuarded(s string) (w descriptor.Wallet, err error, pan interface{}) {
	pan = guarded(func() { w, err = descriptor.Parse(s) })
	return
}

func descFollow(w descriptor.Wallet) string {
	if p := guarded(func() { w.Type() }); p != nil {
		return "Type/" + sanitizeDec(p)
	}
	if p := guarded(func() { w.IsRange() }); p != nil {
		return "IsRange/" + sanitizeDec(p)
	}
	for _, c := range descCalls {
		opts := c.opts()
		if p := guarded(func() { w.Script(opts) }); p != nil {
			return "Script(" + c.name + ")/" + sanitizeDec(p)
		}
	}
	if p := guarded(func() { w.Script(descriptor.WithRange(200)) }); p != nil {
		return "Script(s_r200)/" + sanitizeDec(p)
	}
	return ""
}

func descCheckOne(site string, s string) string {
	var w descriptor.Wallet
	var err error
	var pan interface{}
	alloc := allocDuring(func() { w, err, pan = descParseGuarded(s) })
	if pan != nil {
		return fail(site+".decode", "panic/"+sanitizeDec(pan))
	}
	if limit := uint64(len(s))*400 + allocConst("descriptor"); alloc > limit {
		return fail(site+".decode", fmt.Sprintf("allocation/%d-bytes-for-%d-byte-input", alloc, len(s)))
	}
	if w == nil && err == nil {
		return fail(site+".value-xor-error", "neither-a-wallet-nor-an-error")
	}
	if w != nil && err != nil {
		return fail(site+".value-xor-error", "a-wallet-and-an-error")
	}
	if w != nil {
		if d := descFollow(w); d != "" {
			return fail(site+".after-accept", "panic/"+d)
		}
	}
	return ""
}

func checkC12Desc(t *Toks) string {
	mk := t.Int()
	s := string(t.Hex())
	if f := descCheckOne("desc", s); f != "" {
		return f
	}
	w, _, _ := descParseGuarded(s)
	accepted := w != nil
	// the same text again: same answer (a parser that keeps state between calls would show here)
	if a, b := descObserve(s), descObserve(s); a != b {
		return fail("desc.deterministic", "two-answers-for-one-text")
	}
	// prefixes
	body := s
	if i := strings.IndexByte(s, '#'); i >= 0 {
		body = s[:i]
	}
	for _, k := range prefixesToTry(NewRng(uint64(len(s))+29), len(s)) {
		pw, _, pan := descParseGuarded(s[:k])
		if pan != nil {
			return fail("desc.decode", "panic-on-prefix/"+sanitizeDec(pan))
		}
		if mk == 0 && accepted && pw != nil && s[:k] != body {
			return fail("desc.prefix", fmt.Sprintf("strict-prefix-accepted/len=%d-of-%d", k, len(s)))
		}
		if pw != nil {
			if d := descFollow(pw); d != "" {
				return fail("desc.after-accept", "panic-on-prefix/"+d)
			}
		}
	}
	// outside the model's domain: other white space, non-ASCII text, invalid UTF-8, at a few places
	h := fnv.New64a()
	h.Write([]byte(s))
	r := NewRng(h.Sum64())
	ins := []string{"\u0085", "\u00a0", "\u2003", "\u3000", "\u2028", "\xff", "\xc2", "\xe2\x80", "\x00", "\u00e9", "\ufffd"}
	for i := 0; i < 6; i++ {
		p := r.Intn(len(s) + 1)
		v := s[:p] + ins[r.Intn(len(ins))] + s[p:]
		if f := descCheckOne("desc.variant", v); f != "" {
			return f
		}
	}
	if accepted {
		if mk == 0 {
			return "OK accepted+prefixes"
		}
		return "OK accepted"
	}
	return "OK rejected"
}

func init() {
	checks["C12/desc"] = checkC12Desc
}
