//go:build verif

package main

import (
	"bufio"
	"encoding/base64"
	"encoding/hex"
	"fmt"

	"github.com/btcsuite/btcd/btcutil/psbt"
	"github.com/vulpemventures/go-elements/pset"
	"github.com/vulpemventures/go-elements/psetv2"
	"github.com/vulpemventures/go-elements/transaction"
)

// decshape: packets whose first input carries a well-formed partial signature and whose scripts (spent output,
// redeem script, witness script) are every prefix of every standard template, the empty script and a bare opcode
// included. The signature validators classify those scripts and slice them by the lengths the class implies; a
// decoded packet must never make them panic, whatever the scripts look like.

func decShapeScripts() [][]byte {
	h20 := make([]byte, 20)
	h32 := make([]byte, 32)
	for i := range h20 {
		h20[i] = byte(i + 1)
	}
	for i := range h32 {
		h32[i] = byte(i + 1)
	}
	gx, _ := hex.DecodeString("79be667ef9dcbbac55a06295ce870b07029bfcdb2dce28d959f2815b16f81798")
	templates := [][]byte{
		append([]byte{0x00, 0x14}, h20...),                           // p2wpkh
		append([]byte{0x00, 0x20}, h32...),                           // p2wsh
		append([]byte{0x51, 0x20}, h32...),                           // p2tr
		append(append([]byte{0x76, 0xa9, 0x14}, h20...), 0x88, 0xac), // p2pkh
		append(append([]byte{0xa9, 0x14}, h20...), 0x87),             // p2sh
		append(append([]byte{0x21, 0x02}, gx...), 0xac),              // p2pk
		append(append([]byte{0x51, 0x21, 0x02}, gx...), 0x51, 0xae),  // 1-of-1 multisig
		{0x6a}, // op_return
		append([]byte{0x00, 0x28}, make([]byte, 40)...),                    // future witness program, version 0, 40 bytes
		append([]byte{0x60, 0x02}, 1, 2),                                   // version 16, 2 bytes
		{0x4c}, {0x4d, 0xff}, {0x4e, 0xff, 0xff, 0xff, 0x7f}, {0x4b, 0x00}, // push opcodes announcing data that is not there
	}
	seen := map[string]bool{}
	var out [][]byte
	for _, t := range templates {
		for l := 0; l <= len(t); l++ {
			if k := string(t[:l]); !seen[k] {
				seen[k] = true
				out = append(out, append([]byte{}, t[:l]...))
			}
		}
	}
	return out
}

func decShapeSig() (pub, sig []byte) {
	gx, _ := hex.DecodeString("79be667ef9dcbbac55a06295ce870b07029bfcdb2dce28d959f2815b16f81798")
	return append([]byte{0x02}, gx...), []byte{0x30, 0x06, 0x02, 0x01, 0x01, 0x02, 0x01, 0x01, 0x01}
}

func decShapeUtxo(script []byte) *transaction.TxOutput {
	return &transaction.TxOutput{
		Asset:  append([]byte{1}, make([]byte, 32)...),
		Value:  []byte{1, 0, 0, 0, 0, 0, 0x0f, 0x42, 0x40},
		Nonce:  []byte{0},
		Script: script,
	}
}

func genDecShapeCases(w *bufio.Writer) {
	sd := loadSeeds()
	scripts := decShapeScripts()
	pub, sig := decShapeSig()
	smallest := func(b64 []string, hasInput func(string) bool) string {
		best := ""
		for _, s := range b64 {
			if (best == "" || len(s) < len(best)) && hasInput(s) {
				best = s
			}
		}
		return best
	}
	v0HasInput := func(s string) bool {
		p, err := pset.NewPsetFromBase64(s)
		return err == nil && len(p.Inputs) > 0
	}
	v2HasInput := func(s string) bool {
		p, err := psetv2.NewPsetFromBase64(s)
		return err == nil && len(p.Inputs) > 0
	}
	emit := func(kind string, b64 string, err error) {
		if err != nil || b64 == "" {
			return
		}
		if b, e := base64.StdEncoding.DecodeString(b64); e == nil {
			fmt.Fprintf(w, "decsys %s 13 %s\n", kind, hx(b))
		}
	}
	if seed := smallest(sd.psetV0B64, v0HasInput); seed != "" {
		for _, field := range []int{0, 1, 2} {
			for _, sc := range scripts {
				guarded(func() {
					p, err := pset.NewPsetFromBase64(seed)
					if err != nil || len(p.Inputs) == 0 {
						return
					}
					in := &p.Inputs[0]
					in.NonWitnessUtxo = nil
					in.FinalScriptSig, in.FinalScriptWitness = nil, nil
					in.PartialSigs = []*psbt.PartialSig{{PubKey: pub, Signature: sig}}
					p2wpkh := append([]byte{0x00, 0x14}, make([]byte, 20)...)
					switch field {
					case 0:
						in.WitnessUtxo = decShapeUtxo(sc)
					case 1:
						in.WitnessUtxo = decShapeUtxo(append(append([]byte{0xa9, 0x14}, make([]byte, 20)...), 0x87))
						in.RedeemScript = sc
					case 2:
						in.WitnessUtxo = decShapeUtxo(p2wpkh)
						in.WitnessScript = sc
					}
					s, err := p.ToBase64()
					emit("psetv0", s, err)
				})
			}
		}
	}
	if seed := smallest(sd.psetV2B64, v2HasInput); seed != "" {
		for _, field := range []int{0, 1, 2} {
			for _, sc := range scripts {
				guarded(func() {
					p, err := psetv2.NewPsetFromBase64(seed)
					if err != nil || len(p.Inputs) == 0 {
						return
					}
					in := &p.Inputs[0]
					in.NonWitnessUtxo = nil
					in.FinalScriptSig, in.FinalScriptWitness = nil, nil
					in.PartialSigs = []psetv2.PartialSig{{PubKey: pub, Signature: sig}}
					switch field {
					case 0:
						in.WitnessUtxo = decShapeUtxo(sc)
					case 1:
						in.WitnessUtxo = decShapeUtxo(append(append([]byte{0xa9, 0x14}, make([]byte, 20)...), 0x87))
						in.RedeemScript = sc
					case 2:
						in.WitnessUtxo = decShapeUtxo(append([]byte{0x00, 0x14}, make([]byte, 20)...))
						in.WitnessScript = sc
					}
					s, err := p.ToBase64()
					emit("psetv2", s, err)
				})
			}
		}
	}
}
