package main

import (
	"fmt"
	"github.com/btcsuite/btcd/txscript"
	"strconv"
	"strings"
)

// coverage matrix of the three signature-hash algorithms, written from the property
// text (C02): does the digest cover field class `cls` of input/output number k?
// rel: "own"/"other" for inputs, "same"/"other" for outputs.
func shCovers(c *shCase, kind string, k int, cls string) bool {
	ht := c.ht
	acp := ht&0x80 != 0
	rp := ht&0x40 != 0
	var none, single bool
	switch c.algo {
	case "v1":
		ot := ht & 3
		if ht == 0 {
			ot = 1
		}
		none, single = ot == 2, ot == 3
		acp = ht&0x80 == 0x80
	default:
		none, single = ht&0x1f == 2, ht&0x1f == 3
	}
	if kind == "in" {
		own := k == c.idx
		switch cls {
		case "hash", "index", "index-hi30", "index-hi31":
			return own || !acp
		case "pegin":
			if c.algo == "v0" {
				return false
			}
			return own || !acp
		case "sequence":
			if own {
				return true
			}
			if c.algo == "v1" {
				return !acp
			}
			return !acp && !none && !single
		case "issuance-presence", "issuance-nonce", "issuance-entropy", "issuance-amount", "issuance-token":
			return own || !acp
		case "issuance-rangeproof", "inflation-rangeproof":
			if c.algo != "v1" {
				return false
			}
			if !acp {
				return true
			}
			return own && c.tx.Inputs[k].Issuance != nil
		case "script", "witness", "witness-item", "pegin-witness":
			return false
		}
		panic("class " + cls)
	}
	// outputs
	same := k == c.idx
	base := false
	switch {
	case none:
		base = false
	case single:
		base = same
	default:
		base = true
	}
	switch cls {
	case "asset", "value", "nonce", "script":
		return base
	case "rangeproof", "surjectionproof":
		if c.algo == "v1" {
			return base
		}
		return base && rp
	}
	panic("class " + cls)
}

func parsePertName(name string) (kind string, k int, cls string) {
	dot := strings.IndexByte(name, '.')
	if dot < 0 {
		return "tx", 0, name
	}
	head, cls := name[:dot], name[dot+1:]
	if strings.HasPrefix(head, "in") {
		k, _ = strconv.Atoi(head[2:])
		return "in", k, cls
	}
	k, _ = strconv.Atoi(head[3:])
	return "out", k, cls
}

func cloneSh(c *shCase) *shCase {
	d := *c
	d.tx = c.tx.Copy()
	d.tx.Flag = c.tx.Flag
	d.scripts = append([][]byte{}, c.scripts...)
	d.assets = append([][]byte{}, c.assets...)
	d.values = append([][]byte{}, c.values...)
	return &d
}

// C02 on one (transaction, algorithm, index, hash type): the whole perturbation matrix
func checkC02Sh(t *Toks) string {
	c := readSh(t)
	if !wfTxHash(c.tx) {
		return "SKIP not-wf"
	}
	if c.idx >= len(c.tx.Inputs) {
		return "SKIP index-out-of-range"
	}
	single := (c.algo == "v1" && c.ht != 0 && c.ht&3 == 3) || (c.algo != "v1" && c.ht&0x1f == 3)
	if c.algo == "legacy" && single && c.idx >= len(c.tx.Outputs) {
		return "SKIP legacy-single-without-output"
	}
	d0 := c.digest()
	if d0 == "panic" || d0 == "err" {
		return fail(c.algo+".digest", d0)
	}
	// computing a digest is a read-only operation: the legacy digests of every input under SINGLE, NONE and ALL (the
	// ones that work on a modified copy) and the serialization must leave this digest, and the transaction, as they were
	{
		before := dumpTx(c.tx)
		for i := range c.tx.Inputs {
			for _, ht := range []txscript.SigHashType{3, 0x83, 0x43, 2, 1} {
				func() {
					defer func() { _ = recover() }()
					c.tx.HashForSignature(i, c.script, ht)
				}()
			}
		}
		if dumpTx(c.tx) != before {
			return fail(c.algo+".digest", "other-digests-changed-the-transaction")
		}
		if d := c.digest(); d != d0 {
			return fail(c.algo+".digest", "changed-after-other-digests-on-the-same-object")
		}
	}
	n := 0
	expect := func(site, what string, covered bool, d1 string) string {
		n++
		if d1 == "panic" || d1 == "err" {
			return fail(c.algo+".digest", d1+"/"+what)
		}
		if covered && d1 == d0 {
			return fail(c.algo+".sensitive", fmt.Sprintf("ignores/%s/ht=%#x", what, c.ht))
		}
		if !covered && d1 != d0 {
			return fail(c.algo+".frame", fmt.Sprintf("covers/%s/ht=%#x", what, c.ht))
		}
		return ""
	}
	for _, p := range txPerts(c.tx) {
		kind, k, cls := parsePertName(p.name)
		d := cloneSh(c)
		if d.digest() != d0 { // warms whatever the object remembers, before it is edited in place
			return fail(c.algo+".digest", "copy-digests-differently")
		}
		if !p.apply(d.tx) || !wfTxHash(d.tx) {
			continue
		}
		var covered bool
		var what string
		if kind == "tx" {
			covered, what = true, cls
		} else {
			covered = shCovers(c, kind, k, cls)
			rel := "other"
			if k == c.idx {
				rel = "own"
				if kind == "out" {
					rel = "same"
				}
			}
			what = kind + "." + cls + "/" + rel
		}
		if r := expect("", what, covered, d.digest()); r != "" {
			return r
		}
	}
	// hash type byte: a bit no algorithm interprets
	{
		d := cloneSh(c)
		d.ht ^= 0x20
		if c.algo == "v1" && (c.ht == 0 || d.ht == 0) {
			// DEFAULT <-> 0x20 changes the output type too; still must change the digest
		}
		if r := expect("", "hashtype-byte", true, d.digest()); r != "" {
			return r
		}
	}
	if c.algo != "v1" {
		d := cloneSh(c)
		d.script = grow(c.script)
		if r := expect("", "script-code", true, d.digest()); r != "" {
			return r
		}
	}
	if c.algo == "v0" {
		d := cloneSh(c)
		d.value = altValue(c.value)
		if r := expect("", "spent-value", true, d.digest()); r != "" {
			return r
		}
	}
	if c.algo == "v1" {
		acp := c.ht&0x80 == 0x80
		for k := range c.tx.Inputs {
			own := k == c.idx
			rel := "other"
			if own {
				rel = "own"
			}
			d := cloneSh(c)
			d.scripts[k] = grow(c.scripts[k])
			if r := expect("", "spent-script/"+rel, own || !acp, d.digest()); r != "" {
				return r
			}
			d = cloneSh(c)
			d.assets[k] = flipLast(c.assets[k])
			if r := expect("", "spent-asset/"+rel, own || !acp, d.digest()); r != "" {
				return r
			}
			d = cloneSh(c)
			d.values[k] = altValue(c.values[k])
			if r := expect("", "spent-value/"+rel, own || !acp, d.digest()); r != "" {
				return r
			}
		}
		d := cloneSh(c)
		d.genesis = flipLast(c.genesis)
		if r := expect("", "genesis", true, d.digest()); r != "" {
			return r
		}
		d = cloneSh(c)
		if c.hasLeaf {
			d.leaf = flipLast(c.leaf)
		} else {
			d.hasLeaf, d.leaf = true, make([]byte, 32)
		}
		if r := expect("", "leaf", true, d.digest()); r != "" {
			return r
		}
		d = cloneSh(c)
		if c.hasAnx {
			d.annex = grow(c.annex)
		} else {
			d.hasAnx, d.annex = true, []byte{}
		}
		if r := expect("", "annex", true, d.digest()); r != "" {
			return r
		}
	}
	return fmt.Sprintf("OK perturbations=%d", n)
}

func init() {
	checks["C02/sh"] = checkC02Sh
}
