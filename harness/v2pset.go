package main

// PSET v2 family (property C07): abstract packet ("store") text format, reader/dumper,
// generators (packets built through creator/updater, arbitrary packets built field by
// field, mutated byte streams) and the runners printing the implementation's result in the
// same format as ocaml/drv_v2pset.ml. The three field tables of coq/Model/PsetV2.v
// (global_tbl / input_tbl / output_tbl) fix the position of every field.

import (
	"bufio"
	"bytes"
	"encoding/base64"
	"encoding/hex"
	"fmt"
	"sort"
	"strings"

	"github.com/btcsuite/btcd/btcec/v2"
	"github.com/btcsuite/btcd/btcec/v2/ecdsa"
	"github.com/btcsuite/btcd/btcec/v2/schnorr"
	"github.com/btcsuite/btcd/chaincfg/chainhash"
	"github.com/btcsuite/btcd/txscript"
	"github.com/btcsuite/btcd/wire"
	"github.com/vulpemventures/go-elements/psetv2"
	"github.com/vulpemventures/go-elements/taproot"
	"github.com/vulpemventures/go-elements/transaction"
)

// ---------- byte helpers ----------

func v2cp(b []byte) []byte { c := make([]byte, len(b)); copy(c, b); return c }
func v2cat(parts ...[]byte) []byte {
	var o []byte
	for _, p := range parts {
		o = append(o, p...)
	}
	return o
}

// v2le: n-byte little endian; v2opt: the same, absent (nil) when the number is zero.
func v2le(v uint64, n int) []byte {
	b := make([]byte, n)
	for i := range b {
		b[i] = byte(v >> (8 * uint(i)))
	}
	return b
}
func v2opt(v uint64, n int) []byte {
	if v == 0 {
		return nil
	}
	return v2le(v, n)
}
func v2num(b []byte) (v uint64) {
	for i := 0; i < len(b) && i < 8; i++ {
		v |= uint64(b[i]) << (8 * uint(i))
	}
	return
}

// Bitcoin compact size, canonical encodings only (as bufferutil.readVarInt).
func v2cs(n uint64) []byte {
	switch {
	case n < 0xfd:
		return []byte{byte(n)}
	case n <= 0xffff:
		return append([]byte{0xfd}, v2le(n, 2)...)
	case n <= 0xffffffff:
		return append([]byte{0xfe}, v2le(n, 4)...)
	}
	return append([]byte{0xff}, v2le(n, 8)...)
}
func v2rcs(b []byte) (v uint64, n int, ok bool) {
	if len(b) == 0 {
		return 0, 0, false
	}
	w, min := map[byte]int{0xfd: 2, 0xfe: 4, 0xff: 8}[b[0]], map[byte]uint64{0xfd: 0xfd, 0xfe: 0x10000, 0xff: 0x100000000}[b[0]]
	if w == 0 {
		return uint64(b[0]), 1, true
	}
	if len(b) < 1+w {
		return 0, 0, false
	}
	return v2num(b[1 : 1+w]), 1 + w, v2num(b[1:1+w]) >= min
}
func v2vs(b []byte) []byte { return append(v2cs(uint64(len(b))), b...) }
func v2rvs(b []byte) (x []byte, n int, ok bool) {
	l, k, ok := v2rcs(b)
	if !ok || l > uint64(len(b)-k) {
		return nil, 0, false
	}
	return b[k : k+int(l)], k + int(l), true
}
func v2vec(l [][]byte) []byte {
	o := v2cs(uint64(len(l)))
	for _, x := range l {
		o = append(o, v2vs(x)...)
	}
	return o
}
func v2deriv(fp uint32, path []uint32) []byte {
	o := v2le(uint64(fp), 4)
	for _, x := range path {
		o = append(o, v2le(uint64(x), 4)...)
	}
	return o
}
func v2must(ok bool, what string) {
	if !ok {
		panic("case line: " + what)
	}
}
func v2rdDeriv(b []byte) (fp uint32, path []uint32) {
	v2must(len(b) >= 4 && len(b)%4 == 0, "derivation value length")
	for i := 4; i < len(b); i += 4 {
		path = append(path, uint32(v2num(b[i:i+4])))
	}
	return uint32(v2num(b[:4])), path
}

// writeTxOut / readTxOut of psetv2/utils.go, the reader being exact (no trailing bytes).
func v2encTxOut(o *transaction.TxOutput) []byte {
	return v2cat(o.Asset, o.Value, o.Nonce, v2vs(o.Script))
}
func v2decTxOut(b []byte) (*transaction.TxOutput, bool) {
	ok := true
	take := func(sizes map[byte]int, dflt int) []byte { // field length from its first byte
		n := dflt
		if len(b) > 0 && sizes[b[0]] > 0 {
			n = sizes[b[0]]
		}
		if ok = ok && n > 0 && n <= len(b); !ok {
			return nil
		}
		x := v2cp(b[:n])
		b = b[n:]
		return x
	}
	o := &transaction.TxOutput{}
	o.Asset = take(map[byte]int{1: 33, 10: 33, 11: 33}, 0)
	o.Value = take(map[byte]int{0: 1, 1: 9, 8: 33, 9: 33}, 0)
	o.Nonce = take(map[byte]int{1: 33, 2: 33, 3: 33}, 1)
	s, n, ok2 := v2rvs(b)
	o.Script = v2cp(s)
	return o, ok && ok2 && n == len(b)
}

func v2encMsgTx(tx *wire.MsgTx) []byte {
	var buf bytes.Buffer
	v2must(tx.BtcEncode(&buf, wire.ProtocolVersion, wire.LatestEncoding) == nil, "BtcEncode")
	return buf.Bytes()
}
func v2decMsgTx(b []byte) (tx *wire.MsgTx, ok bool) {
	defer func() {
		if recover() != nil {
			tx, ok = nil, false
		}
	}()
	tx = &wire.MsgTx{}
	if err := tx.BtcDecode(bytes.NewReader(b), wire.ProtocolVersion, wire.LatestEncoding); err != nil {
		return nil, false
	}
	return tx, true
}

// ---------- the section store (mirror of Model/PsetV2.v sec) ----------

type v2kv struct{ k, v []byte }
type v2sec struct {
	vals  [][]byte // single-valued positions: canonical encoding, empty when absent
	lists [][]v2kv // multi-valued positions: (key data, value) in slice order
	props []psetv2.ProprietaryData
	unks  []psetv2.KeyPair
}

// S = single-valued position, M = multi-valued position, in table order
const (
	v2gKinds = "MSSSSSMSS"
	v2iKinds = "SSMSSSMSSMMMM" + "SSSSSSSSSSSSSSSSSSSSSSSSSSSS" + "MMMSS"
	v2oKinds = "SSMSSSSSSSSSSSS"
)

func v2newSec(kinds string) *v2sec {
	return &v2sec{vals: make([][]byte, len(kinds)), lists: make([][]v2kv, len(kinds))}
}

func v2readSec(t *Toks, kinds string) *v2sec {
	s := v2newSec(kinds)
	for i, k := range kinds {
		if k == 'S' {
			s.vals[i] = t.Hex()
			continue
		}
		for n := t.Int(); n > 0; n-- {
			kd := t.Hex()
			s.lists[i] = append(s.lists[i], v2kv{kd, t.Hex()})
		}
	}
	for n := t.Int(); n > 0; n-- {
		id := t.Hex()
		sub := uint8(t.Int())
		kd := t.Hex()
		s.props = append(s.props, psetv2.ProprietaryData{Identifier: id, Subtype: sub, KeyData: kd, Value: t.Hex()})
	}
	for n := t.Int(); n > 0; n-- {
		kt := uint8(t.Int())
		kd := t.Hex()
		s.unks = append(s.unks, psetv2.KeyPair{Key: psetv2.Key{KeyType: kt, KeyData: kd}, Value: t.Hex()})
	}
	return s
}

func v2writeSec(b *sb, s *v2sec, kinds string) {
	for i, k := range kinds {
		if k == 'S' {
			b.addh(s.vals[i])
			continue
		}
		b.addn(uint64(len(s.lists[i])))
		for _, e := range s.lists[i] {
			b.addh(e.k)
			b.addh(e.v)
		}
	}
	b.addn(uint64(len(s.props)))
	for _, p := range s.props {
		b.addh(p.Identifier)
		b.addn(uint64(p.Subtype))
		b.addh(p.KeyData)
		b.addh(p.Value)
	}
	b.addn(uint64(len(s.unks)))
	for _, u := range s.unks {
		b.addn(uint64(u.Key.KeyType))
		b.addh(u.Key.KeyData)
		b.addh(u.Value)
	}
}

func v2bitset(b []byte) psetv2.BitSet {
	if len(b) == 0 {
		return nil
	}
	s := psetv2.NewBitSet()
	for i := range s {
		s[i] = (b[0] >> uint(i)) & 1
	}
	return s
}
func v2bitsetVal(s psetv2.BitSet) []byte {
	if s == nil {
		return nil
	}
	return []byte{s.Uint8()}
}
func v2derivs(l []v2kv) (o []psetv2.DerivationPathWithPubKey) {
	for _, e := range l {
		fp, path := v2rdDeriv(e.v)
		o = append(o, psetv2.DerivationPathWithPubKey{PubKey: e.k, MasterKeyFingerprint: fp, Bip32Path: path})
	}
	return
}
func v2derivKvs(l []psetv2.DerivationPathWithPubKey) (o []v2kv) {
	for _, d := range l {
		o = append(o, v2kv{d.PubKey, v2deriv(d.MasterKeyFingerprint, d.Bip32Path)})
	}
	return
}

// pre-image maps: the key is padded/truncated to the array length; the dump lists by key
func v2maps(l []v2kv) (m20 map[[20]byte][]byte, m32 map[[32]byte][]byte) {
	if len(l) > 0 {
		m20, m32 = map[[20]byte][]byte{}, map[[32]byte][]byte{}
	}
	for _, e := range l {
		var k20 [20]byte
		var k32 [32]byte
		copy(k20[:], e.k)
		copy(k32[:], e.k)
		m20[k20], m32[k32] = e.v, e.v
	}
	return
}
func v2kvs(m20 map[[20]byte][]byte, m32 map[[32]byte][]byte) (l []v2kv) {
	for k, v := range m20 {
		l = append(l, v2kv{v2cp(k[:]), v})
	}
	for k, v := range m32 {
		l = append(l, v2kv{v2cp(k[:]), v})
	}
	sort.Slice(l, func(i, j int) bool { return bytes.Compare(l[i].k, l[j].k) < 0 })
	return l
}

// ----- global -----
func v2toGlobal(s *v2sec) psetv2.Global {
	g := psetv2.Global{ProprietaryData: s.props, Unknowns: s.unks}
	for _, e := range s.lists[0] {
		fp, path := v2rdDeriv(e.v)
		g.Xpubs = append(g.Xpubs, psetv2.Xpub{ExtendedKey: e.k, MasterFingerprint: fp, DerivationPath: path})
	}
	g.TxVersion = uint32(v2num(s.vals[1]))
	if len(s.vals[2]) > 0 {
		v := uint32(v2num(s.vals[2]))
		g.FallbackLocktime = &v
	}
	g.InputCount, g.OutputCount = v2num(s.vals[3]), v2num(s.vals[4])
	g.TxModifiable = v2bitset(s.vals[5])
	for _, e := range s.lists[6] {
		g.Scalars = append(g.Scalars, e.k)
	}
	g.Version = uint32(v2num(s.vals[7]))
	g.Modifiable = v2bitset(s.vals[8])
	return g
}
func v2fromGlobal(g *psetv2.Global) *v2sec {
	s := v2newSec(v2gKinds)
	for _, x := range g.Xpubs {
		s.lists[0] = append(s.lists[0], v2kv{x.ExtendedKey, v2deriv(x.MasterFingerprint, x.DerivationPath)})
	}
	s.vals[1] = v2opt(uint64(g.TxVersion), 4)
	if g.FallbackLocktime != nil {
		s.vals[2] = v2le(uint64(*g.FallbackLocktime), 4)
	}
	s.vals[3], s.vals[4] = v2opt(g.InputCount, 8), v2opt(g.OutputCount, 8)
	s.vals[5] = v2bitsetVal(g.TxModifiable)
	for _, x := range g.Scalars {
		s.lists[6] = append(s.lists[6], v2kv{x, nil})
	}
	s.vals[7] = v2opt(uint64(g.Version), 4)
	s.vals[8] = v2bitsetVal(g.Modifiable)
	s.props, s.unks = g.ProprietaryData, g.Unknowns
	return s
}

// ----- input -----
// positions holding a plain []byte field ("raw"), with the struct field they map to
func v2inRaw(in *psetv2.Input) map[int]*[]byte {
	return map[int]*[]byte{4: &in.RedeemScript, 5: &in.WitnessScript, 7: &in.FinalScriptSig, 8: &in.FinalScriptWitness,
		13: &in.PreviousTxid, 19: &in.IssuanceValueCommitment, 20: &in.IssuanceValueRangeproof,
		21: &in.IssuanceInflationKeysRangeproof, 23: &in.PeginTxoutProof, 24: &in.PeginGenesisHash, 25: &in.PeginClaimScript,
		29: &in.IssuanceInflationKeysCommitment, 30: &in.IssuanceBlindingNonce, 31: &in.IssuanceAssetEntropy,
		32: &in.UtxoRangeProof, 33: &in.IssuanceBlindValueProof, 34: &in.IssuanceBlindInflationKeysProof,
		36: &in.ValueProof, 37: &in.ExplicitAsset, 38: &in.AssetProof, 40: &in.TapKeySig, 44: &in.TapInternalKey, 45: &in.TapMerkleRoot}
}
func v2inU32(in *psetv2.Input) map[int]*uint32 {
	return map[int]*uint32{14: &in.PreviousTxIndex, 15: &in.Sequence, 16: &in.RequiredTimeLocktime, 17: &in.RequiredHeightLocktime}
}
func v2inU64(in *psetv2.Input) map[int]*uint64 {
	return map[int]*uint64{18: &in.IssuanceValue, 26: &in.PeginValue, 28: &in.IssuanceInflationKeys, 35: &in.ExplicitValue}
}

func v2toInput(s *v2sec) psetv2.Input {
	in := psetv2.Input{ProprietaryData: s.props, Unknowns: s.unks}
	v := s.vals
	for i, f := range v2inRaw(&in) {
		*f = v[i]
	}
	for i, f := range v2inU32(&in) {
		*f = uint32(v2num(v[i]))
	}
	for i, f := range v2inU64(&in) {
		*f = v2num(v[i])
	}
	if len(v[0]) > 0 {
		tx, err := transaction.NewTxFromBuffer(bytes.NewBuffer(v2cp(v[0])))
		v2must(err == nil, "non-witness utxo")
		in.NonWitnessUtxo = tx
	}
	if len(v[1]) > 0 {
		o, ok := v2decTxOut(v[1]) // RangeProof and SurjectionProof stay nil
		v2must(ok, "witness utxo")
		in.WitnessUtxo = o
	}
	for _, e := range s.lists[2] {
		in.PartialSigs = append(in.PartialSigs, psetv2.PartialSig{PubKey: e.k, Signature: e.v})
	}
	in.SigHashType = txscript.SigHashType(uint32(v2num(v[3])))
	in.Bip32Derivation = v2derivs(s.lists[6])
	in.Ripemd160Preimages, _ = v2maps(s.lists[9])
	_, in.Sha256Preimages = v2maps(s.lists[10])
	in.Hash160Preimages, _ = v2maps(s.lists[11])
	_, in.Hash256Preimages = v2maps(s.lists[12])
	if len(v[22]) > 0 {
		tx, ok := v2decMsgTx(v[22])
		v2must(ok, "pegin tx")
		in.PeginTx = tx
	}
	if len(v[27]) > 0 {
		n, k, ok := v2rcs(v[27])
		for rest := v[27][k:]; n > 0; n-- {
			x, m, ok2 := v2rvs(rest)
			v2must(ok && ok2, "pegin witness")
			in.PeginWitness, rest = append(in.PeginWitness, v2cp(x)), rest[m:]
		}
	}
	if len(v[39]) > 0 {
		b := v[39][0] == 1
		in.BlindedIssuance = &b
	}
	for _, e := range s.lists[41] {
		n := len(e.k)
		if n > 32 {
			n = 32
		}
		in.TapScriptSig = append(in.TapScriptSig, psetv2.TapScriptSig{
			PartialSig: psetv2.PartialSig{PubKey: v2cp(e.k[:n]), Signature: e.v}, LeafHash: v2cp(e.k[n:])})
	}
	for _, e := range s.lists[42] {
		cb, err := taproot.ParseControlBlock(e.k)
		v2must(err == nil && len(e.v) > 0, "tap leaf script")
		ver := txscript.TapscriptLeafVersion(e.v[len(e.v)-1]) // may differ from the control block's
		in.TapLeafScript = append(in.TapLeafScript, psetv2.TapLeafScript{
			TapElementsLeaf: taproot.NewTapElementsLeaf(ver, v2cp(e.v[:len(e.v)-1])), ControlBlock: *cb})
	}
	for _, e := range s.lists[43] {
		n, k, ok := v2rcs(e.v)
		v2must(ok && n <= uint64(len(e.v)-k)/32, "tap bip32 derivation")
		d, rest := psetv2.TapDerivationPathWithPubKey{}, e.v[k:]
		for ; n > 0; n, rest = n-1, rest[32:] {
			d.LeafHashes = append(d.LeafHashes, v2cp(rest[:32]))
		}
		d.PubKey = e.k
		d.MasterKeyFingerprint, d.Bip32Path = v2rdDeriv(rest)
		in.TapBip32Derivation = append(in.TapBip32Derivation, d)
	}
	return in
}

func v2fromInput(in *psetv2.Input) *v2sec {
	s := v2newSec(v2iKinds)
	v := s.vals
	for i, f := range v2inRaw(in) {
		v[i] = *f
	}
	for i, f := range v2inU32(in) {
		v[i] = v2opt(uint64(*f), 4)
	}
	for i, f := range v2inU64(in) {
		v[i] = v2opt(*f, 8)
	}
	if in.NonWitnessUtxo != nil {
		b, err := in.NonWitnessUtxo.Serialize()
		v2must(err == nil, "Serialize")
		v[0] = b
	}
	if in.WitnessUtxo != nil {
		v[1] = v2encTxOut(in.WitnessUtxo)
	}
	for _, x := range in.PartialSigs {
		s.lists[2] = append(s.lists[2], v2kv{x.PubKey, x.Signature})
	}
	v[3] = v2opt(uint64(uint32(in.SigHashType)), 4)
	s.lists[6] = v2derivKvs(in.Bip32Derivation)
	s.lists[9], s.lists[10] = v2kvs(in.Ripemd160Preimages, nil), v2kvs(nil, in.Sha256Preimages)
	s.lists[11], s.lists[12] = v2kvs(in.Hash160Preimages, nil), v2kvs(nil, in.Hash256Preimages)
	if in.PeginTx != nil {
		v[22] = v2encMsgTx(in.PeginTx)
	}
	if len(in.PeginWitness) > 0 {
		v[27] = v2vec(in.PeginWitness)
	}
	if in.BlindedIssuance != nil {
		v[39] = []byte{0}
		if *in.BlindedIssuance {
			v[39] = []byte{1}
		}
	}
	for _, x := range in.TapScriptSig {
		s.lists[41] = append(s.lists[41], v2kv{v2cat(x.PubKey, x.LeafHash), x.Signature})
	}
	for _, x := range in.TapLeafScript {
		cb, err := x.ControlBlock.ToBytes()
		v2must(err == nil, "ControlBlock.ToBytes")
		s.lists[42] = append(s.lists[42], v2kv{cb, v2cat(x.Script, []byte{byte(x.LeafVersion)})})
	}
	for _, x := range in.TapBip32Derivation {
		s.lists[43] = append(s.lists[43], v2kv{x.PubKey,
			v2cat(v2cs(uint64(len(x.LeafHashes))), v2cat(x.LeafHashes...), v2deriv(x.MasterKeyFingerprint, x.Bip32Path))})
	}
	s.props, s.unks = in.ProprietaryData, in.Unknowns
	return s
}

// ----- output -----
func v2outRaw(o *psetv2.Output) map[int]*[]byte {
	return map[int]*[]byte{0: &o.RedeemScript, 1: &o.WitnessScript, 4: &o.Script, 5: &o.ValueCommitment, 6: &o.AssetCommitment,
		7: &o.Asset, 8: &o.ValueRangeproof, 9: &o.AssetSurjectionProof, 10: &o.BlindingPubkey, 11: &o.EcdhPubkey,
		13: &o.BlindValueProof, 14: &o.BlindAssetProof}
}
func v2toOutput(s *v2sec) psetv2.Output {
	o := psetv2.Output{ProprietaryData: s.props, Unknowns: s.unks}
	for i, f := range v2outRaw(&o) {
		*f = s.vals[i]
	}
	o.Bip32Derivation = v2derivs(s.lists[2])
	o.Value, o.BlinderIndex = v2num(s.vals[3]), uint32(v2num(s.vals[12]))
	return o
}
func v2fromOutput(o *psetv2.Output) *v2sec {
	s := v2newSec(v2oKinds)
	for i, f := range v2outRaw(o) {
		s.vals[i] = *f
	}
	s.lists[2] = v2derivKvs(o.Bip32Derivation)
	s.vals[3], s.vals[12] = v2opt(o.Value, 8), v2opt(uint64(o.BlinderIndex), 4)
	s.props, s.unks = o.ProprietaryData, o.Unknowns
	return s
}

// ----- packet -----
func v2build(g *v2sec, ins, outs []*v2sec) *psetv2.Pset {
	p := &psetv2.Pset{Global: v2toGlobal(g)}
	for _, s := range ins {
		p.Inputs = append(p.Inputs, v2toInput(s))
	}
	for _, s := range outs {
		p.Outputs = append(p.Outputs, v2toOutput(s))
	}
	return p
}

func readPsetV2(t *Toks) *psetv2.Pset {
	g := v2readSec(t, v2gKinds)
	var ins, outs []*v2sec
	for n := t.Int(); n > 0; n-- {
		ins = append(ins, v2readSec(t, v2iKinds))
	}
	for n := t.Int(); n > 0; n-- {
		outs = append(outs, v2readSec(t, v2oKinds))
	}
	return v2build(g, ins, outs)
}

func writePsetV2(b *sb, p *psetv2.Pset) {
	v2writeSec(b, v2fromGlobal(&p.Global), v2gKinds)
	b.addn(uint64(len(p.Inputs)))
	for i := range p.Inputs {
		v2writeSec(b, v2fromInput(&p.Inputs[i]), v2iKinds)
	}
	b.addn(uint64(len(p.Outputs)))
	for i := range p.Outputs {
		v2writeSec(b, v2fromOutput(&p.Outputs[i]), v2oKinds)
	}
}

func dumpPsetV2(p *psetv2.Pset) string {
	var b sb
	writePsetV2(&b, p)
	return b.commas()
}

// ---------- byte stream framing ----------

// one key pair of a stream: [start,kend) is the key var-slice, [kend,end) the value var-slice;
// sec counts the separators seen before it (0 = global section)
type v2pair struct {
	start, kend, end, sec int
	key, val              []byte
}

func v2walk(bs []byte) (ps []v2pair) {
	for pos, sec := 5, 0; pos < len(bs); {
		key, n, ok := v2rvs(bs[pos:])
		if !ok {
			return
		}
		if len(key) == 0 {
			pos, sec = pos+n, sec+1
			continue
		}
		val, m, ok := v2rvs(bs[pos+n:])
		if !ok {
			return
		}
		ps = append(ps, v2pair{pos, pos + n, pos + n + m, sec, key, val})
		pos += n + m
	}
	return
}

// foreign-identifier test of a proprietary key: (identifier, subtype, ok)
func v2propKey(kd []byte) (id []byte, sub byte, ok bool) {
	n, k, ok := v2rcs(kd)
	if !ok || n == 0 || n >= uint64(len(kd)-k) {
		return nil, 0, false
	}
	return kd[k : k+int(n)], kd[k+int(n)], true
}

// Go map iteration order is random: for printing, every maximal run of consecutive pre-image
// pairs of one type inside the input sections (1..nin) is listed by key, as the model emits them.
func v2canonMaps(bs []byte, nin int) []byte {
	out, ps := v2cp(bs), v2walk(bs)
	for i := 0; i < len(ps); {
		j, t := i+1, ps[i].key[0]
		if t >= 0x0a && t <= 0x0d && ps[i].sec >= 1 && ps[i].sec <= nin {
			for j < len(ps) && ps[j].key[0] == t && ps[j].start == ps[j-1].end {
				j++
			}
			run := append([]v2pair{}, ps[i:j]...)
			sort.SliceStable(run, func(a, b int) bool { return bytes.Compare(run[a].key, run[b].key) < 0 })
			pos := ps[i].start
			for _, q := range run {
				pos += copy(out[pos:], bs[q.start:q.end])
			}
		}
		i = j
	}
	return out
}

func v2multiMap(p *psetv2.Pset) bool {
	for _, in := range p.Inputs {
		if len(in.Ripemd160Preimages) > 1 || len(in.Sha256Preimages) > 1 || len(in.Hash160Preimages) > 1 || len(in.Hash256Preimages) > 1 {
			return true
		}
	}
	return false
}

// ---------- oracle table (answers of the real validators, consumed by the model driver) ----------

type v2oent struct {
	flags map[byte]bool // 'P','D','X' -> answer
	canon string        // "?" not computed
}
type v2orc map[string]*v2oent

func (o v2orc) ent(b []byte) *v2oent {
	k := hx(b)
	if o[k] == nil {
		o[k] = &v2oent{flags: map[byte]bool{}, canon: "?"}
	}
	return o[k]
}
func (o v2orc) P(b []byte) { _, err := btcec.ParsePubKey(b); o.ent(b).flags['P'] = err == nil }
func (o v2orc) D(b []byte) { _, err := ecdsa.ParseDERSignature(b); o.ent(b).flags['D'] = err == nil }
func (o v2orc) X(b []byte) { _, err := schnorr.ParsePubKey(b); o.ent(b).flags['X'] = err == nil }
func (o v2orc) P3365(b []byte) {
	if len(b) == 33 || len(b) == 65 {
		o.P(b)
	}
}
func (o v2orc) C(b []byte) { // canon, and canon of the canonical bytes
	for i := 0; i < 3 && o.ent(b).canon == "?"; i++ {
		tx, ok := v2decMsgTx(b)
		if !ok {
			o.ent(b).canon = "!"
			return
		}
		c := v2encMsgTx(tx)
		o.ent(b).canon = hx(c)
		b = c
	}
}
func (o v2orc) stream(bs []byte) {
	for _, q := range v2walk(bs) {
		kt, kd := q.key[0], q.key[1:]
		o.P3365(kd)
		o.P3365(q.val)
		if kt == 2 {
			o.D(q.val)
		}
		if kt == 0x15 && len(kd) >= 33 {
			o.X(kd[1:33])
		}
		if _, sub, ok := v2propKey(kd); kt == 0xfc && ok && sub == 4 {
			o.C(q.val)
		}
	}
}
func (o v2orc) packet(p *psetv2.Pset) {
	for i := range p.Inputs {
		s := v2fromInput(&p.Inputs[i])
		for _, e := range s.lists[2] {
			o.P(e.k)
			o.D(e.v)
		}
		for _, e := range s.lists[6] {
			o.P(e.k)
		}
		for _, e := range s.lists[42] {
			if len(e.k) >= 33 {
				o.X(e.k[1:33])
			}
		}
		if len(s.vals[22]) > 0 {
			o.C(s.vals[22])
		}
	}
	for _, out := range p.Outputs {
		for _, d := range out.Bip32Derivation {
			o.P(d.PubKey)
		}
		o.P3365(out.BlindingPubkey)
		o.P3365(out.EcdhPubkey)
	}
}
func (o v2orc) write(b *sb) {
	var keys []string
	for k := range o {
		keys = append(keys, k)
	}
	sort.Strings(keys)
	b.addn(uint64(len(keys)))
	for _, k := range keys {
		f := ""
		for _, c := range []byte("PDX") {
			if ans, ok := o[k].flags[c]; ok && ans {
				f += string(c)
			} else if ok {
				f += strings.ToLower(string(c))
			}
		}
		if f == "" {
			f = "-"
		}
		b.add(k)
		b.add(f)
		b.add(o[k].canon)
	}
}
func v2skipOracle(t *Toks) {
	for n := 3 * t.Int(); n > 0; n-- {
		t.Next()
	}
}

// ---------- calling the library under recover ----------

func v2ser(p *psetv2.Pset) (b64 string, st string) {
	defer func() {
		if recover() != nil {
			b64, st = "", "panic"
		}
	}()
	s, err := p.ToBase64()
	if err != nil {
		return "", "err"
	}
	return s, "ok"
}
func v2try(f func() (*psetv2.Pset, error)) (p *psetv2.Pset, st string) {
	defer func() {
		if recover() != nil {
			p, st = nil, "panic"
		}
	}()
	if q, err := f(); err == nil {
		return q, "ok"
	}
	return nil, "err"
}
// v2parse goes through NewPsetFromBuffer with a buffer the CALLER owns (spare capacity behind it), and
// the caller then overwrites every byte of that buffer: a packet that still shares memory with its
// input shows the scribble in its dump and in its re-serialization.
func v2parse(bs []byte) (*psetv2.Pset, string) {
	own := make([]byte, len(bs), len(bs)+64)
	copy(own, bs)
	p, st := v2try(func() (*psetv2.Pset, error) { return psetv2.NewPsetFromBuffer(bytes.NewBuffer(own)) })
	own = own[:cap(own)]
	for i := range own {
		own[i] = 0xa5
	}
	return p, st
}

// v2appendAll appends to every byte-slice field a parser fills (as a caller extending a script would):
// with exact-capacity copies this cannot reach any other field
func v2appendAll(p *psetv2.Pset) {
	junk := bytes.Repeat([]byte{0xee}, 48)
	for i := range p.Inputs {
		in := &p.Inputs[i]
		for _, f := range []*[]byte{&in.RedeemScript, &in.WitnessScript, &in.FinalScriptSig, &in.FinalScriptWitness, &in.PreviousTxid,
			&in.IssuanceValueCommitment, &in.IssuanceValueRangeproof, &in.PeginTxoutProof, &in.PeginClaimScript, &in.UtxoRangeProof,
			&in.ValueProof, &in.ExplicitAsset, &in.AssetProof, &in.TapKeySig, &in.TapInternalKey, &in.TapMerkleRoot} {
			_ = append(*f, junk...)
		}
		for _, u := range in.Unknowns {
			_ = append(u.Value, junk...)
		}
	}
	for i := range p.Outputs {
		o := &p.Outputs[i]
		for _, f := range []*[]byte{&o.RedeemScript, &o.WitnessScript, &o.Script, &o.ValueCommitment, &o.Asset, &o.AssetCommitment,
			&o.ValueRangeproof, &o.AssetSurjectionProof, &o.BlindingPubkey, &o.EcdhPubkey, &o.BlindValueProof, &o.BlindAssetProof} {
			_ = append(*f, junk...)
		}
	}
	for _, u := range p.Global.Unknowns {
		_ = append(u.Value, junk...)
	}
}
func v2parse64(s string) (*psetv2.Pset, string) {
	return v2try(func() (*psetv2.Pset, error) { return psetv2.NewPsetFromBase64(s) })
}
func v2unb64(s string) []byte {
	b, err := base64.StdEncoding.DecodeString(s)
	v2must(err == nil, "base64")
	return b
}

// ---------- runners ----------

// History mode. The parser must be a function of its input alone: before the genuine bytes are parsed,
// corrupted copies of them are (every public-key-shaped key data or value gets an invalid encoding that
// shares its x coordinate: prefix byte changed, uncompressed with a wrong y). The model parser is a pure
// function, so K and S compare the result of the genuine parse that comes AFTER these.
func v2history(ser []byte) {
	ps := v2walk(ser)
	n := 0
	try := func(q v2pair, key, val []byte) {
		if n++; n > 24 {
			return
		}
		v2parse(v2cat(ser[:q.start], v2vs(key), v2vs(val), ser[q.end:]))
	}
	bad := func(k []byte) (out [][]byte) { // invalid encodings with the x coordinate of k
		switch {
		case len(k) == 33 && (k[0] == 2 || k[0] == 3):
			a, b := v2cp(k), v2cp(k)
			a[0], b[0] = 4, 0xff
			out = append(out, a, b, v2cat([]byte{4}, k[1:], bytes.Repeat([]byte{1}, 32)))
		case len(k) == 65 && k[0] == 4:
			a, b := v2cp(k), v2cp(k)
			a[64] ^= 1
			b[0] = 6 + (k[64]&1 ^ 1) // hybrid prefix announcing the other parity
			out = append(out, a, b)
		}
		return
	}
	for _, q := range ps {
		for _, k := range bad(q.key[1:]) {
			try(q, v2cat(q.key[:1], k), q.val)
		}
		for _, v := range bad(q.val) {
			try(q, q.key, v)
		}
	}
}

func runV2Pset(t *Toks) string {
	v2skipOracle(t)
	p := readPsetV2(t)
	wf := b2s(wfPsetV2(p))
	b64, st := v2ser(p)
	if st != "ok" {
		return fmt.Sprintf("ser=%s wf=%s parse=-", st, wf)
	}
	ser := v2unb64(b64)
	v2history(ser)
	q, st := v2parse64(b64)
	if st == "ok" {
		st = dumpPsetV2(q)
		// the same bytes through NewPsetFromBuffer, the caller's buffer overwritten afterwards, then
		// every slice field appended to: the packet must not notice
		if q2, st2 := v2parse(ser); st2 != "ok" {
			st = "buffer-path:" + st2
		} else if v2appendAll(q2); dumpPsetV2(q2) != st {
			st = "buffer-path-differs:" + dumpPsetV2(q2)
		}
	}
	return fmt.Sprintf("ser=%s wf=%s parse=%s", hx(ser), wf, st)
}

func runV2PsetRaw(t *Toks) string {
	v2skipOracle(t)
	raw := t.Hex()
	v2history(raw)
	p, st := v2parse(raw)
	if st == "err" {
		return "parse=none"
	}
	if st != "ok" {
		return fmt.Sprintf("parse=%s reser=- re=-", st)
	}
	dc := dumpPsetV2(p)
	d := dc + " pwf=" + b2s(wfPsetV2(p))
	b64, st := v2ser(p)
	if st != "ok" {
		return fmt.Sprintf("parse=%s reser=%s re=-", d, st)
	}
	bs2 := v2unb64(b64)
	q, re := v2parse64(b64)
	if re == "ok" {
		if re = "same"; dumpPsetV2(q) != dc {
			re = "diff:" + dumpPsetV2(q)
		}
	}
	return fmt.Sprintf("parse=%s reser=%s re=%s", d, hx(bs2), re)
}

// ---------- generator: material ----------

type v2key struct {
	priv *btcec.PrivateKey
	pub  *btcec.PublicKey
}

func v2newKey(r *Rng) v2key {
	for {
		priv, pub := btcec.PrivKeyFromBytes(r.Bytes(32))
		if !priv.Key.IsZero() {
			return v2key{priv, pub}
		}
	}
}
func (k v2key) comp() []byte  { return k.pub.SerializeCompressed() }
func (k v2key) xonly() []byte { return schnorr.SerializePubKey(k.pub) }
func (k v2key) any(r *Rng) []byte {
	if r.Chance(15) {
		return k.pub.SerializeUncompressed()
	}
	return k.comp()
}

// key sets of n entries for the fields keyed by a public key (partial signatures, BIP32 derivations).
// Entries are told apart by their BYTES: a third of the sets of two or more also hold a second
// serialization of one of their keys (the 65-byte uncompressed form of P next to the compressed one)
// or the compressed encoding with the other prefix byte (the point -P): distinct entries, all valid.
func v2keySet(r *Rng, n int) (l []v2key, enc [][]byte) {
	for i := 0; i < n; i++ {
		k := v2newKey(r)
		l, enc = append(l, k), append(enc, k.any(r))
	}
	if n >= 2 && r.Chance(35) {
		k := l[0]
		switch r.Intn(3) {
		case 0:
			enc[0], enc[1], l[1] = k.comp(), k.pub.SerializeUncompressed(), k
		case 1:
			enc[0], enc[1], l[1] = k.pub.SerializeUncompressed(), k.comp(), k
		default:
			neg := k.comp()
			neg[0] ^= 1 // 02 <-> 03: the opposite point; its signatures are made with k all the same (only DER shape is checked)
			enc[0], enc[1], l[1] = k.comp(), neg, k
		}
	}
	return
}

// DER signature plus sighash byte: ecdsa.ParseDERSignature tolerates the trailing byte
// (it trims to the announced length) as long as the total stays <= 72 bytes
func (k v2key) sig(r *Rng) []byte {
	return append(ecdsa.Sign(k.priv, r.Bytes(32)).Serialize(), byte(r.Pick(1, 1, 1, 2, 3, 0x81, 0x83)))
}

func v2genPath(r *Rng) []byte {
	var path []uint32
	for n := r.Pick(1, 1, 2, 3, 5); n > 0; n-- {
		x := uint32(r.Intn(20))
		if r.Bool() {
			x |= 0x80000000
		}
		path = append(path, x)
	}
	return v2deriv(uint32(r.U64()), path)
}

// a transaction whose serialization is a fixpoint of parse/serialize
func v2genTxBytes(r *Rng) []byte {
	for {
		b1, err := genTx(r, true).Serialize()
		if err != nil {
			continue
		}
		tx, err := transaction.NewTxFromBuffer(bytes.NewBuffer(v2cp(b1)))
		if err != nil {
			continue
		}
		if b2, err := tx.Serialize(); err == nil && bytes.Equal(b1, b2) {
			return b1
		}
	}
}

func v2genTxOut(r *Rng) *transaction.TxOutput {
	o := &transaction.TxOutput{Asset: append([]byte{byte(r.Pick(1, 1, 10, 11))}, r.Bytes(32)...)}
	switch r.Intn(10) {
	case 0:
		o.Value = []byte{0}
	case 1, 2, 3, 4:
		o.Value = append([]byte{1}, r.Bytes(8)...)
	default:
		o.Value = append([]byte{byte(r.Pick(8, 9))}, r.Bytes(32)...)
	}
	o.Nonce = []byte{byte(r.Pick(0, 0, 0, 4, 0xff))}
	if r.Chance(50) {
		o.Nonce = append([]byte{byte(r.Pick(1, 2, 3))}, r.Bytes(32)...)
	}
	switch r.Intn(6) {
	case 0: // short encodings: an explicit output without script is 44 bytes, below readTxOut's minimum
	case 1:
		o.Script = r.Bytes(r.Pick(1, 2, 10, 0xfd))
	default:
		o.Script = append([]byte{0, 0x14}, r.Bytes(20)...)
	}
	return o
}

func v2genMsgTx(r *Rng) *wire.MsgTx {
	tx := wire.NewMsgTx(int32(r.Pick(1, 2)))
	wit := r.Chance(40)
	for n := 1 + r.Intn(2); n > 0; n-- {
		var h chainhash.Hash
		copy(h[:], r.Bytes(32))
		in := wire.NewTxIn(wire.NewOutPoint(&h, uint32(r.Intn(4))), r.Bytes(r.Pick(0, 0, 5, 23)), nil)
		in.Sequence = uint32(r.Pick(0, 0xffffffff, 0xfffffffe))
		if wit && r.Chance(70) {
			in.Witness = wire.TxWitness{r.Bytes(r.Pick(0, 8, 71)), r.Bytes(33)}
		}
		tx.AddTxIn(in)
	}
	for n := 1 + r.Intn(2); n > 0; n-- {
		tx.AddTxOut(wire.NewTxOut(int64(r.U64()%2100000000000000), r.Bytes(r.Pick(0, 22, 34))))
	}
	tx.LockTime = uint32(r.Pick(0, 0, 500000, 0xffffffff))
	return tx
}

// pre-image maps with two entries or more (whose serialization depends on Go's map iteration
// order) are confined to a quarter of the field-by-field packets: v2manyPreimages is set per packet
var v2manyPreimages bool

func v2genMap(r *Rng, klen int) (l []v2kv) {
	n := 1
	if v2manyPreimages {
		n = r.Pick(1, 2, 2, 3)
	}
	// half of the multi-entry maps hold hashes that share a long common prefix (8, 16 or all but the
	// last byte; small big-endian numbers): an ordering that looks at a prefix only ties on them
	share, base := 0, r.Bytes(klen)
	if n > 1 && r.Bool() {
		share = r.Pick(8, 8, 16, klen-1, klen-1)
		if r.Chance(30) {
			base = make([]byte, klen)
		}
	}
	for i := 0; n > 0; n, i = n-1, i+1 {
		k := r.Bytes(klen)
		copy(k, base[:share])
		if share == klen-1 {
			k[klen-1] = base[klen-1] + byte(i) // distinct by construction
		}
		l = append(l, v2kv{k, r.Bytes(r.Pick(0, 1, 8, 32))})
	}
	return
}

// identifiers that are near misses of the magic "pset" (shorter, longer, other case, a byte appended)
// and unrelated ones: the decoders must treat all of them as foreign, whatever the subtype
func v2nearMissID(r *Rng) []byte {
	switch r.Intn(10) {
	case 0:
		return []byte("pse")
	case 1:
		return []byte("psetX")
	case 2:
		return []byte("pset\x00")
	case 3:
		return []byte("PSET")
	case 4:
		return []byte("psetv2")
	case 5:
		return []byte("pset\xff")
	case 6:
		return append([]byte("pset"), r.Bytes(1+r.Intn(24))...)
	case 7:
		return []byte("p")
	case 8:
		return []byte("foo")
	}
	return r.Bytes(1 + r.Intn(6))
}

// a proprietary entry of a foreign identifier whose subtype is one the Elements spec defines for the
// section (lo..hi) half of the time, with key data / value of the sizes those fields use
func v2foreignProp(r *Rng, lo, hi int) psetv2.ProprietaryData {
	sub := r.Intn(256)
	if r.Bool() {
		sub = lo + r.Intn(hi-lo+1)
	}
	return psetv2.ProprietaryData{Identifier: v2nearMissID(r), Subtype: uint8(sub),
		KeyData: r.Bytes(r.Pick(0, 0, 1, 32, 33)), Value: r.Bytes(r.Pick(0, 1, 4, 8, 32, 33, 40))}
}

// proprietary data of a section: "pset" entries with subtypes no field owns (from low up), an entry with
// an empty identifier (means "pset") now and then, and foreign / near-miss entries (defined subtypes lo..hi)
func v2genProps(r *Rng, low, lo, hi int) (l []psetv2.ProprietaryData) {
	for n := r.Pick(1, 1, 2, 3); n > 0; n-- {
		switch {
		case r.Chance(18): // subtypes at the top of the byte range (a compact-size reader would take 0xfd..0xff
			// for a length prefix) with short key data, under "pset" or a foreign identifier
			id := []byte("pset")
			if r.Chance(40) {
				id = v2nearMissID(r)
			}
			l = append(l, psetv2.ProprietaryData{Identifier: id, Subtype: uint8(r.Pick(0xfc, 0xfd, 0xfe, 0xff)),
				KeyData: r.Bytes(r.Pick(0, 1, 2, 4, 8)), Value: r.Bytes(r.Pick(0, 1, 20))})
		case r.Chance(45):
			l = append(l, v2foreignProp(r, lo, hi))
		default:
			id := []byte("pset")
			if r.Chance(10) {
				id = nil
			}
			l = append(l, psetv2.ProprietaryData{Identifier: id, Subtype: uint8(low + r.Intn(256-low)),
				KeyData: r.Bytes(r.Pick(0, 0, 1, 33)), Value: r.Bytes(r.Pick(0, 1, 20))})
		}
	}
	return
}
func v2genUnks(r *Rng, extra ...int) (l []psetv2.KeyPair) {
	for n := r.Pick(1, 1, 2); n > 0; n-- {
		kt := 0x19 + r.Intn(0xfb-0x19) // 0x19..0xfa: no field of any section, not proprietary
		if len(extra) > 0 && r.Chance(25) {
			kt = r.Pick(extra...)
		}
		l = append(l, psetv2.KeyPair{Key: psetv2.Key{KeyType: uint8(kt), KeyData: r.Bytes(r.Pick(0, 0, 1, 33, 65))}, Value: r.Bytes(r.Pick(0, 1, 33, 40))})
	}
	return
}

// which positions are present: exactly two (pairwise coverage) or each with one probability
func v2onSet(r *Rng, n int) []bool {
	on := make([]bool, n)
	if r.Bool() {
		on[r.Intn(n)], on[r.Intn(n)] = true, true
		return on
	}
	p := r.Pick(5, 20, 50, 90)
	for i := range on {
		on[i] = r.Chance(p)
	}
	return on
}

// ---------- generator: sections built field by field ----------

func v2genGlobal(r *Rng, nin, nout int) *v2sec {
	s := v2newSec(v2gKinds)
	on := v2onSet(r, len(v2gKinds)+2)
	if on[0] {
		for n := r.Pick(1, 1, 2); n > 0; n-- {
			s.lists[0] = append(s.lists[0], v2kv{r.Bytes(78), v2genPath(r)})
		}
	}
	s.vals[1] = v2opt(2, 4)
	if r.Chance(6) {
		s.vals[1] = v2opt(uint64(r.Pick(0, 1, 3, 0xffffffff)), 4)
	}
	if on[2] {
		s.vals[2] = v2le(uint64(r.Pick(0, 1, 499999999, 500000000, 0xffffffff)), 4)
	}
	s.vals[3], s.vals[4] = v2opt(uint64(nin), 8), v2opt(uint64(nout), 8)
	if on[5] {
		s.vals[5] = []byte{byte(r.Intn(8))}
		if r.Chance(6) {
			s.vals[5] = []byte{byte(r.Pick(8, 255))}
		}
	}
	if on[6] {
		for n := r.Pick(1, 1, 2); n > 0; n-- {
			s.lists[6] = append(s.lists[6], v2kv{r.Bytes(32), nil})
		}
	}
	s.vals[7] = v2opt(2, 4)
	if r.Chance(5) {
		s.vals[7] = v2opt(uint64(r.Pick(0, 1, 3)), 4)
	}
	if on[8] {
		s.vals[8] = []byte{0}
		if r.Chance(8) {
			s.vals[8] = []byte{1}
		}
	}
	if on[9] {
		s.props = v2genProps(r, 2, 0, 1)
	}
	if on[10] {
		s.unks = v2genUnks(r, 0, 7, 0x0a)
	}
	return s
}

func v2genInput(r *Rng, fix bool) *v2sec {
	s := v2newSec(v2iKinds)
	n := len(v2iKinds)
	on := v2onSet(r, n+2)
	on[17], on[26] = false, false // height locktime and peg-in value: only as violations
	if fix {                      // cross-field rules of Input.SanityCheck
		on[13] = true
		on[1] = on[1] || on[5] || on[8]
		if on[18] {
			on[33] = on[19]
		}
		if on[28] {
			on[34] = on[29]
		}
		on[36], on[38] = on[35], on[37]
	}
	for pos := 0; pos < n; pos++ {
		if on[pos] {
			v2genInField(r, s, pos)
		}
	}
	if on[n] {
		s.props = v2genProps(r, 0x16, 0, 0x15)
	}
	if on[n+1] {
		s.unks = v2genUnks(r, 9, 0x19) // 0x09 (proof-of-reserves) is not decoded by the library
	}
	return s
}

func v2genInField(r *Rng, s *v2sec, pos int) {
	v := s.vals
	switch pos {
	case 0:
		v[0] = v2genTxBytes(r)
	case 1:
		v[1] = v2encTxOut(v2genTxOut(r))
	case 2:
		ks, enc := v2keySet(r, r.Pick(1, 1, 2, 2, 3))
		for i := range ks {
			s.lists[2] = append(s.lists[2], v2kv{enc[i], ks[i].sig(r)})
		}
	case 3:
		v[3] = v2le(uint64(r.Pick(1, 2, 3, 0x81, 0x82, 0x83, 0xffffffff)), 4)
	case 6:
		_, enc := v2keySet(r, r.Pick(1, 1, 2, 2))
		for i := range enc {
			s.lists[6] = append(s.lists[6], v2kv{enc[i], v2genPath(r)})
		}
	case 9, 11:
		s.lists[pos] = v2genMap(r, 20)
	case 10, 12:
		s.lists[pos] = v2genMap(r, 32)
	case 14:
		v[14] = v2opt(uint64(r.Pick(0, 1, 2, 0x3fffffff, 0x40000000, 0x80000001, 0xc0000000, 0xfffffffe, 0xffffffff, int(uint32(r.U64())))), 4)
	case 15:
		v[15] = v2le(uint64(r.Pick(1, 0xfffffffe, 0xffffffff)), 4)
	case 16:
		v[16] = v2le(uint64(500000000+r.Intn(1000000000)), 4)
	case 17:
		v[17] = v2le(uint64(1+r.Intn(499999999)), 4)
	case 18, 26, 28, 35:
		v[pos] = v2le(1+r.U64()%2100000000000000, 8)
	case 19, 29:
		v[pos] = append([]byte{byte(r.Pick(8, 9))}, r.Bytes(32)...)
	case 22:
		v[22] = v2encMsgTx(v2genMsgTx(r))
	case 13, 24, 30, 31, 37, 44, 45:
		v[pos] = r.Bytes(32)
	case 27:
		var w [][]byte
		for n := r.Pick(1, 2, 6); n > 0; n-- {
			w = append(w, r.Bytes(r.Pick(0, 1, 8, 33)))
		}
		v[27] = v2vec(w)
	case 39:
		v[39] = []byte{byte(r.Intn(2))}
	case 40:
		v[40] = r.Bytes(r.Pick(64, 65))
	case 41:
		for n := r.Pick(1, 1, 2); n > 0; n-- {
			s.lists[41] = append(s.lists[41], v2kv{append(v2newKey(r).xonly(), r.Bytes(32)...), r.Bytes(r.Pick(64, 65))})
		}
	case 42:
		for n := r.Pick(1, 1, 2); n > 0; n-- {
			c0 := byte(r.Pick(0xc4, 0xc5, 0xc0))
			cb := v2cat([]byte{c0}, v2newKey(r).xonly(), r.Bytes(32*r.Intn(3)))
			s.lists[42] = append(s.lists[42], v2kv{cb, append(r.Bytes(1+r.Intn(20)), c0&0xfe)})
		}
	case 43:
		for n := r.Pick(1, 1, 2); n > 0; n-- {
			nh := r.Pick(1, 1, 2)
			s.lists[43] = append(s.lists[43], v2kv{v2newKey(r).comp(), v2cat(v2cs(uint64(nh)), r.Bytes(32*nh), v2genPath(r))})
		}
	default: // free-form byte strings
		v[pos] = r.Bytes(1 + r.Intn(40))
	}
}

func v2genOutput(r *Rng, fix bool) *v2sec {
	s := v2newSec(v2oKinds)
	n := len(v2oKinds)
	on := v2onSet(r, n+2)
	blinded := false
	if fix { // rules of Output.SanityCheck
		if on[5] || on[6] || on[8] || on[9] || on[11] {
			blinded = r.Bool()
			on[5], on[6], on[8], on[9], on[11] = blinded, blinded, blinded, blinded, blinded
		}
		on[7] = on[7] || !on[6]
		if on[3] {
			on[13] = on[5]
		}
		if on[7] {
			on[14] = on[6]
		}
		on[12] = on[12] && !blinded
	}
	v := s.vals
	for pos := 0; pos < n; pos++ {
		if !on[pos] {
			continue
		}
		switch pos {
		case 2:
			_, enc := v2keySet(r, r.Pick(1, 1, 2, 2))
			for i := range enc {
				s.lists[2] = append(s.lists[2], v2kv{enc[i], v2genPath(r)})
			}
		case 3:
			v[3] = v2le(1+r.U64()%2100000000000000, 8)
		case 4:
			v[4] = append([]byte{0, 0x14}, r.Bytes(20)...)
		case 5:
			v[5] = append([]byte{byte(r.Pick(8, 9))}, r.Bytes(32)...)
		case 6:
			v[6] = append([]byte{byte(r.Pick(10, 11))}, r.Bytes(32)...)
		case 7:
			v[7] = r.Bytes(32)
		case 10, 11:
			v[pos] = v2newKey(r).any(r)
		case 12:
			v[12] = v2le(uint64(1+r.Intn(3)), 4)
		default:
			v[pos] = r.Bytes(1 + r.Intn(40))
		}
	}
	if on[n] {
		s.props = v2genProps(r, 0x0b, 1, 0x0a)
		if r.Chance(30) {
			s.props[0].Subtype = 0 // free in the output section
		}
	}
	if on[n+1] {
		s.unks = v2genUnks(r, 5, 6, 7)
	}
	return s
}

func v2fullyBlinded(s *v2sec) bool {
	v := s.vals
	return len(v[5]) > 0 && len(v[6]) > 0 && len(v[8]) > 0 && len(v[9]) > 0 && len(v[11]) > 0
}

// one broken rule, in a random section (a bad global tx version when the packet has no place for it)
func v2violate(r *Rng, g *v2sec, ins, outs *[]*v2sec) {
	var in, out *v2sec
	tgt, sec := g, 'g' // tgt: a random section of any kind
	if len(*ins) > 0 {
		in = (*ins)[r.Intn(len(*ins))]
	}
	if len(*outs) > 0 {
		out = (*outs)[r.Intn(len(*outs))]
	}
	if k := r.Intn(3); k == 0 && in != nil {
		tgt, sec = in, 'i'
	} else if k == 1 && out != nil {
		tgt, sec = out, 'o'
	}
	pick := func(m map[rune][]int) int { return r.Pick(m[sec]...) }
	kind := r.Pick(0, 0, 1, 2, 2, 2, 3, 3, 4, 5, 6, 7, 8, 8, 9, 10, 11, 12)
	switch {
	case kind == 0 && sec == 'g': // wrong length of a fixed-length field
		g.lists[6] = append(g.lists[6], v2kv{r.Bytes(r.Pick(31, 33, 1)), nil})
	case kind == 0:
		lens := map[int]int{13: 32, 19: 33, 24: 32, 29: 33, 30: 32, 31: 32, 37: 32, 40: 64, 44: 32, 45: 32}
		pos := 13
		if sec == 'o' {
			lens, pos = map[int]int{5: 33, 6: 33, 7: 32, 10: 33, 11: 33}, 7
		}
		for c := 0; c < len(tgt.vals); c++ { // preferably a field that is present
			if lens[c] > 0 && len(tgt.vals[c]) > 0 && r.Bool() {
				pos = c
			}
		}
		tgt.vals[pos] = r.Bytes(r.Pick(lens[pos]-1, lens[pos]+1, 1, 2*lens[pos]))
	case kind == 1 && in != nil: // duplicate key
		pos := r.Pick(2, 6, 41, 43)
		if len(in.lists[pos]) == 0 {
			v2genInField(r, in, pos)
		}
		in.lists[pos] = append(in.lists[pos], v2kv{v2cp(in.lists[pos][0].k), v2cp(in.lists[pos][0].v)})
	case (kind == 2 || kind == 3) && in != nil: // height locktime, peg-in value
		v2genInField(r, in, 17+9*(kind-2))
	case kind == 4: // foreign proprietary identifier
		tgt.props = append(tgt.props, v2foreignProp(r, 0, 0x15))
	case kind == 5: // proprietary subtype owned by a field
		sub := pick(map[rune][]int{'g': {0, 1}, 'i': {0, 1, 4, 6, 8, 9, 0x0d, 0x15}, 'o': {1, 2, 3, 6, 7, 8, 0x0a}})
		tgt.props = append(tgt.props, psetv2.ProprietaryData{Identifier: []byte("pset"), Subtype: uint8(sub), Value: r.Bytes(r.Pick(1, 8, 32, 33))})
	case kind == 6: // unknown key pair with the key type of a field
		kt := pick(map[rune][]int{'g': {1, 2, 3, 4, 5, 6, 0xfb, 0xfc}, 'o': {0, 1, 2, 3, 4, 0xfc},
			'i': {0, 1, 2, 3, 4, 7, 0x0a, 0x0e, 0x10, 0x12, 0x13, 0x15, 0x16, 0x18, 0xfc}})
		tgt.unks = append(tgt.unks, psetv2.KeyPair{Key: psetv2.Key{KeyType: uint8(kt)}, Value: r.Bytes(r.Pick(1, 4, 32, 33))})
	case kind == 7: // counts
		g.vals[3+r.Intn(2)] = v2opt(uint64(r.Pick(0, 1, 2, 5, 253)), 8)
	case kind == 8: // 253 outputs or more, kept minimal
		for n := r.Pick(253, 253, 254, 300) - len(*outs); n > 0; n-- {
			o := v2newSec(v2oKinds)
			o.vals[7] = r.Bytes(32)
			*outs = append(*outs, o)
		}
		g.vals[4] = v2opt(uint64(len(*outs)), 8)
	case kind == 9: // empty derivation path
		pos, key := pick(map[rune][]int{'g': {0}, 'i': {6}, 'o': {2}}), v2newKey(r).comp()
		if sec == 'g' {
			key = r.Bytes(78)
		}
		tgt.lists[pos] = append(tgt.lists[pos], v2kv{key, v2le(r.U64(), 4)})
	case kind == 10 && in != nil: // invalid public key or signature
		k := v2newKey(r)
		pk, sg := k.comp(), k.sig(r)
		if r.Bool() {
			pk[0] = byte(r.Pick(0, 4, 5))
		} else {
			sg = sg[:r.Pick(0, 5, len(sg)-2)]
		}
		in.lists[2] = append(in.lists[2], v2kv{pk, sg})
	case kind == 10 && out != nil:
		out.vals[10] = append([]byte{byte(r.Pick(0, 4, 5))}, r.Bytes(32)...)
	case kind == 11 && in != nil && r.Chance(33): // taproot: no leaf hash
		in.lists[43] = append(in.lists[43], v2kv{v2newKey(r).comp(), v2cat(v2cs(0), v2genPath(r))})
	case kind == 11 && in != nil: // taproot: leaf version unlike the control block's, empty script
		v2genInField(r, in, 42)
		e := &in.lists[42][0]
		if r.Bool() {
			e.v[len(e.v)-1] ^= byte(r.Pick(2, 4, 0x40))
		} else {
			e.v = e.v[len(e.v)-1:]
		}
	case kind == 12 && in != nil: // witness script without witness utxo
		in.vals[1], in.vals[5] = nil, r.Bytes(5)
	default:
		g.vals[1] = v2opt(uint64(r.Pick(0, 1)), 4)
	}
}

func v2genDirect(r *Rng) *psetv2.Pset {
	nin, nout := r.Intn(5), r.Intn(5)
	if r.Chance(8) {
		nin, nout = 0, 0
	}
	g := v2genGlobal(r, nin, nout)
	fix := r.Chance(90) // keep the cross-field sanity rules satisfied
	v2manyPreimages = r.Chance(50)
	var ins, outs []*v2sec
	for i := 0; i < nin; i++ {
		ins = append(ins, v2genInput(r, fix))
	}
	needs, full := false, false
	for i := 0; i < nout; i++ {
		o := v2genOutput(r, fix)
		outs = append(outs, o)
		full = full || v2fullyBlinded(o)
		needs = needs || (len(o.vals[10]) > 0 && !v2fullyBlinded(o))
	}
	if needs && full && len(g.lists[6]) == 0 && fix { // Pset.SanityCheck
		g.lists[6] = []v2kv{{r.Bytes(32), nil}}
	}
	if r.Chance(10) {
		v2violate(r, g, &ins, &outs)
	}
	return v2build(g, ins, outs)
}

// ---------- generator: packets built through the public API ----------

func v2genAPI(r *Rng) (p *psetv2.Pset) {
	defer func() {
		if recover() != nil {
			p = nil
		}
	}()
	for try := 0; try < 6; try++ {
		var ins []psetv2.InputArgs
		var outs []psetv2.OutputArgs
		nin := r.Intn(4)
		mode := r.Intn(4) // 0: no lock, 1: height, 2: time, 3: independent
		for i := 0; i < nin; i++ {
			a := psetv2.InputArgs{Txid: hex.EncodeToString(r.Bytes(32)), TxIndex: uint32(r.Pick(r.Intn(4), r.Intn(4), 0x40000000, 0x80000001, 0xfffffffe, 0xffffffff)),
				Sequence: uint32(r.Pick(0, 0, 1, 0xfffffffe, 0xffffffff))}
			if mode == 1 || (mode == 3 && r.Bool()) {
				a.HeightLock = uint32(1 + r.Intn(499999999))
			}
			if mode == 2 || (mode == 3 && r.Bool()) {
				a.TimeLock = uint32(500000000 + r.Intn(1000000000))
			}
			ins = append(ins, a)
		}
		for n := r.Intn(4); n > 0; n-- {
			a := psetv2.OutputArgs{Asset: hex.EncodeToString(r.Bytes(32)), Amount: r.U64() % 2100000000000000, BlinderIndex: uint32(r.Intn(nin + 1))}
			if r.Chance(15) {
				a.Amount = 0
			}
			if r.Chance(70) {
				a.Script = append([]byte{0, 0x14}, r.Bytes(20)...)
			}
			if r.Chance(40) {
				a.BlindingKey = v2newKey(r).comp()
			}
			outs = append(outs, a)
		}
		var lt *uint32
		if r.Bool() {
			v := uint32(r.Pick(0, 1, 700000, 500000000, 0xffffffff))
			lt = &v
		}
		q, err := psetv2.New(ins, outs, lt)
		if err != nil {
			continue
		}
		u, err := psetv2.NewUpdater(q)
		if err != nil {
			continue
		}
		for n := r.Intn(9); n > 0; n-- {
			v2apiCall(r, u)
		}
		return u.Pset
	}
	return nil
}

// one updater call on a random input/output; errors are ignored
func v2apiCall(r *Rng, u *psetv2.Updater) {
	p := u.Pset
	i, o := r.Intn(len(p.Inputs)+1)-1, r.Intn(len(p.Outputs)+1)-1
	if i < 0 && o < 0 {
		return
	}
	der := psetv2.DerivationPathWithPubKey{PubKey: v2newKey(r).comp(), MasterKeyFingerprint: uint32(r.U64()), Bip32Path: []uint32{uint32(r.Intn(9)) | 0x80000000, uint32(r.Intn(9))}}
	if i >= 0 && (o < 0 || r.Chance(70)) {
		switch r.Intn(10) {
		case 0:
			_ = u.AddInWitnessUtxo(i, v2genTxOut(r))
		case 1:
			_ = u.AddInRedeemScript(i, append([]byte{0, 0x20}, r.Bytes(32)...))
		case 2:
			if p.Inputs[i].WitnessUtxo != nil {
				_ = u.AddInWitnessScript(i, r.Bytes(1+r.Intn(30)))
			}
		case 3:
			_ = u.AddInBip32Derivation(i, der)
		case 4:
			_ = u.AddInSighashType(i, txscript.SigHashType(r.Pick(1, 2, 3, 0x81, 0x83)))
		case 5:
			_ = u.AddInUtxoRangeProof(i, r.Bytes(1+r.Intn(60)))
		case 6:
			_ = u.AddInTapInternalKey(i, v2newKey(r).xonly())
		case 7:
			_ = u.AddInTapMerkleRoot(i, r.Bytes(32))
		case 8: // AddInNonWitnessUtxo needs the matching txid: the field is set directly
			tx, err := transaction.NewTxFromBuffer(bytes.NewBuffer(v2genTxBytes(r)))
			if err == nil {
				p.Inputs[i].NonWitnessUtxo = tx
			}
		default:
			_ = u.AddInTapBip32Derivation(i, psetv2.TapDerivationPathWithPubKey{DerivationPathWithPubKey: der, LeafHashes: [][]byte{r.Bytes(32)}})
		}
		return
	}
	if o >= 0 {
		switch r.Intn(3) {
		case 0:
			_ = u.AddOutBip32Derivation(o, der)
		case 1:
			_ = u.AddOutRedeemScript(o, r.Bytes(1+r.Intn(30)))
		default:
			_ = u.AddOutWitnessScript(o, r.Bytes(1+r.Intn(30)))
		}
	}
}

func v2genPset(r *Rng) *psetv2.Pset {
	if r.Chance(35) {
		if p := v2genAPI(r); p != nil {
			return p
		}
	}
	return v2genDirect(r)
}

func genV2PsetCases(r *Rng, n int, w *bufio.Writer) {
	for i := 0; i < n; i++ {
		p := v2genPset(r)
		o := v2orc{}
		o.packet(p)
		if b64, st := v2ser(p); st == "ok" { // what a decoder of the serialization is going to ask
			o.stream(v2unb64(b64))
		}
		var b sb
		b.add("pset")
		o.write(&b)
		writePsetV2(&b, p)
		fmt.Fprintln(w, strings.TrimSpace(b.String()))
	}
}

// ---------- generator: mutated byte streams ----------

// the model keeps map entries in stream order while the runner lists them by key: keep the
// mutants whose pre-image pairs appear (first occurrence) in key order inside every section
func v2mapsSorted(bs []byte) bool {
	last, seen := map[[2]int][]byte{}, map[string]bool{}
	for _, q := range v2walk(bs) {
		t := q.key[0]
		if t < 0x0a || t > 0x0d {
			continue
		}
		k := make([]byte, 20+12*int(t&1))
		copy(k, q.key[1:])
		id := fmt.Sprintf("%d/%d/%x", q.sec, t, k)
		if seen[id] {
			continue
		}
		seen[id] = true
		sk := [2]int{q.sec, int(t)}
		if l, ok := last[sk]; ok && bytes.Compare(l, k) > 0 {
			return false
		}
		last[sk] = k
	}
	return true
}

// SAFETY: a taproot derivation pair announcing a huge number of leaf hashes makes the real
// parser allocate that many slices
func v2safeStream(bs []byte) bool {
	for _, q := range v2walk(bs) {
		if q.key[0] == 0x16 && len(q.key) == 34 {
			if n, _, ok := v2rcs(q.val); ok && n > 65536 {
				return false
			}
		}
	}
	return true
}

func v2mutate(r *Rng, ser []byte) []byte {
	ps := v2walk(ser)
	splice := func(from, to int, ins []byte) []byte { return v2cat(ser[:from], ins, ser[to:]) }
	m := v2cp(ser)
	kind := r.Intn(16)
	if len(ps) == 0 && kind >= 6 {
		kind = r.Intn(6)
	}
	var q v2pair
	if len(ps) > 0 {
		q = ps[r.Intn(len(ps))]
	}
	if r.Chance(8) { // a second entry keyed by another serialization of the same public key (or by the opposite point)
		for _, c := range ps {
			if t := c.key[0]; (t == 2 || t == 6) && len(c.key) == 34 && c.sec >= 1 {
				if pk, err := btcec.ParsePubKey(c.key[1:]); err == nil {
					k2 := append([]byte{t}, pk.SerializeUncompressed()...)
					if r.Chance(30) {
						k2 = v2cp(c.key)
						k2[1] ^= 1
					}
					return splice(c.end, c.end, v2cat(v2vs(k2), v2vs(c.val)))
				}
			}
		}
	}
	if r.Chance(8) { // an outpoint index with its top bits set (they are flags in a transaction, plain index bits here)
		for _, c := range ps {
			if c.sec >= 1 && len(c.key) == 1 && c.key[0] == 0x0f && len(c.val) == 4 {
				m[c.end-1] |= byte(r.Pick(0x40, 0x80, 0xc0, 0xff))
				if r.Bool() {
					break
				}
			}
		}
		return m
	}
	switch kind {
	case 0: // unchanged
	case 1:
		m = m[:r.Intn(len(m))]
	case 2:
		if k := 1 + r.Intn(5); k <= len(m) {
			m = m[:len(m)-k]
		}
	case 3:
		m[r.Intn(len(m))] ^= 1 << uint(r.Intn(8))
	case 4:
		m[r.Intn(len(m))] = byte(r.Pick(0, 1, 0xfc, 0xfd, 0xfe, 0xff))
	case 5:
		m = append(m, r.Bytes(1+r.Intn(5))...)
	case 6: // duplicate one key pair
		m = splice(q.end, q.end, ser[q.start:q.end])
	case 7: // delete one key pair
		m = splice(q.start, q.end, nil)
	case 8: // swap two adjacent key pairs
		for i := range ps[1:] {
			if a, b := ps[i], ps[i+1]; a.end == b.start && (a.start >= q.start || i == len(ps)-2) {
				m = splice(a.start, b.end, v2cat(ser[b.start:b.end], ser[a.start:a.end]))
				break
			}
		}
	case 9: // empty value
		m = splice(q.kend, q.end, []byte{0})
	case 10: // another key type
		_, k, _ := v2rcs(ser[q.start:])
		m[q.start+k] = byte(r.Pick(r.Intn(256), r.Intn(0x19), 0xfc, 0x15, 0x16))
	case 11: // foreign proprietary pair
		pd := v2foreignProp(r, 0, 0x15) // near-miss identifiers, subtypes the sections define, field-sized values
		key := v2cat([]byte{0xfc}, v2vs(pd.Identifier), []byte{pd.Subtype}, pd.KeyData)
		m = splice(q.start, q.start, v2cat(v2vs(key), v2vs(pd.Value)))
	case 12: // non-canonical compact size in place of a length byte
		at := r.Pick(q.start, q.kend)
		m = splice(at, at+1, []byte{0xfd, 0x01, 0x00})
	case 13: // a second entry, with a greater key, after a pre-image pair
		for _, c := range ps {
			if t := c.key[0]; t >= 0x0a && t <= 0x0d && len(c.key) > 1 && c.key[1] < 0xff {
				k2 := v2cp(c.key) // differs from its neighbour in one byte: the first, or one behind a long common prefix
				at := r.Pick(1, 1, 9, 17, len(k2)-1)
				if at >= len(k2) {
					at = len(k2) - 1
				}
				k2[at]++
				m = splice(c.end, c.end, v2cat(v2vs(k2), v2vs(r.Bytes(r.Pick(0, 1, 8)))))
				break
			}
		}
	case 14: // one more field in an input section: height locktime, peg-in value, leaf script without value
		ins := [][]byte{v2cat(v2vs([]byte{0x12}), v2vs(v2le(uint64(1+r.Intn(499999999)), 4))),
			v2cat(v2vs([]byte{0xfc, 4, 'p', 's', 'e', 't', 8}), v2vs(v2le(1+r.U64()%1000000, 8))),
			v2cat(v2vs(v2cat([]byte{0x15, 0xc4}, v2newKey(r).xonly())), v2vs(nil))}[r.Intn(3)]
		for _, c := range ps {
			if c.sec >= 1 && (c.sec > 1 || r.Bool()) {
				m = splice(c.start, c.start, ins)
				break
			}
		}
	default: // input / output count
		which := byte(r.Pick(4, 5))
		for _, c := range ps {
			if c.sec == 0 && len(c.key) == 1 && c.key[0] == which && len(c.val) == 1 {
				if r.Chance(40) { // a multi-byte compact size: canonical, non-canonical, or >= 2^63
					v := r.Pick(0xfd, 0x100, int(c.val[0]), 0x10000)
					enc := v2cs(uint64(v))
					switch r.Intn(4) {
					case 0:
						enc = append([]byte{0xfd}, v2le(uint64(v&0xffff), 2)...) // non-canonical when v < 0xfd
					case 1:
						enc = append([]byte{0xff}, v2le(1<<63+uint64(r.Intn(3)), 8)...)
					case 2:
						enc = append([]byte{0xff}, v2le(^uint64(0), 8)...)
					}
					return splice(c.kend, c.end, v2vs(enc))
				}
				m[c.end-1] = byte(r.Pick(0, int(c.val[0])+1, int(c.val[0])+255, 0xfd))
				break
			}
		}
	}
	return m
}

func genV2PsetRawCases(r *Rng, n int, w *bufio.Writer) {
	for i := 0; i < n; {
		p := v2genPset(r)
		for try := 0; try < 4 && !wfPsetV2(p); try++ {
			p = v2genPset(r)
		}
		b64, st := v2ser(p)
		if st != "ok" {
			continue
		}
		m := v2mutate(r, v2unb64(b64))
		o := v2orc{}
		o.stream(m)
		var b sb
		b.add("psetraw")
		o.write(&b)
		b.addh(m)
		fmt.Fprintln(w, strings.TrimSpace(b.String()))
		i++
	}
}

func init() {
	gens["pset"] = genV2PsetCases
	gens["psetraw"] = genV2PsetRawCases
	runs["pset"] = runV2Pset
	runs["psetraw"] = runV2PsetRaw
}
