package main

import (
	"bufio"
	"encoding/hex"
	"fmt"
	"reflect"
	"sort"
	"strconv"
	"strings"

	"github.com/btcsuite/btcd/btcec/v2"
	"github.com/btcsuite/btcd/btcutil"
	"github.com/btcsuite/btcd/btcutil/hdkeychain"
	"github.com/btcsuite/btcd/chaincfg"
	"github.com/vulpemventures/go-elements/descriptor"
)

// desc family (C12, output-descriptor parser): case lines
//
//	desc <mk> <descriptor text hex>
//	     <npk>  (<raw key bytes hex> <0|1>)*                      btcec.ParsePubKey verdicts
//	     <nwif> (<key text hex> <compressed pubkey hex | ->)*     btcutil.DecodeWIF verdicts
//	     <nhd>  (<key text hex> <path len> <elem hex>* <0|1> <compressed pubkey hex | ->)*   hdkeychain answers
//
// mk = 0: an unmodified valid descriptor of one of the forms of descriptor/parser_test.go; anything else is
// the number of the mutation. The three tables are answers of code BELOW the repository (btcec, btcutil,
// hdkeychain) for the key texts that occur in the descriptor; the model takes them as its oracle record and
// the model driver reports a question that is not in the tables (so which questions are listed is not trusted).
//
// Observable (runner and model driver print the same line):
//
//	err res=err | res=nilnil | panic
//	res=ok org=<0|1> fp=<hex> opath=<list> pub=<text hex|-> wif=<text hex|-> ext=<0|1> key=<text hex|-> kt=<xprv|xpub|->
//	       rng=<0|1> epath=<list> type=wpkh isrange=<0|1> s_nil= s_i0= s_i7= s_ih= s_r3= s_r0= s_rm1= s_zero=
//
// where each s_* is the outcome of Wallet.Script with nil, WithIndex(0|7|2^31), WithRange(3|0|-1) and the zero
// value &ScriptOpts{}: err | panic | <n>:<dpath>/<script hex>;... (dpath: comma separated hex, - for none).

const descSpaces = " \t\n\r\v\f"

var descUnsupported = []string{"elsh", "elwsh", "elpk", "elpkh", "elcombo", "elmulti", "elsortedmulti", "elmulti_a", "elsortedmulti_a", "eltr", "eladdr"}

func descTextHex(s string) string { return hx([]byte(s)) }

func descPathStr(p []uint32) string {
	if len(p) == 0 {
		return "-"
	}
	var l []string
	for _, v := range p {
		l = append(l, strconv.FormatUint(uint64(v), 16))
	}
	return strings.Join(l, ",")
}

// ---------- what the parser built (unexported fields, read through reflection) ----------

type descParsed struct {
	hasOrigin bool
	fp        uint32
	opath     []uint32
	pub, wif  *string
	hasExt    bool
	key       string
	kt        int64
	rng       bool
	epath     []uint32
}

func descU32s(v reflect.Value) []uint32 {
	var l []uint32
	for i := 0; i < v.Len(); i++ {
		l = append(l, uint32(v.Index(i).Uint()))
	}
	return l
}

func descOptString(v reflect.Value) *string {
	if v.IsNil() {
		return nil
	}
	s := v.Elem().String()
	return &s
}

func descReflect(w descriptor.Wallet) (d descParsed, ok bool) {
	defer func() {
		if e := recover(); e != nil {
			ok = false
		}
	}()
	v := reflect.ValueOf(w)
	if v.Kind() == reflect.Ptr {
		v = v.Elem()
	}
	ki := v.FieldByName("keyInfo")
	if ki.IsNil() {
		return d, false
	}
	ki = ki.Elem()
	if ko := ki.FieldByName("keyOrigin"); !ko.IsNil() {
		d.hasOrigin = true
		d.fp = uint32(ko.Elem().FieldByName("masterKeyFingerprint").Uint())
		d.opath = descU32s(ko.Elem().FieldByName("path"))
	}
	d.pub = descOptString(ki.FieldByName("pubKey"))
	d.wif = descOptString(ki.FieldByName("wif"))
	if ek := ki.FieldByName("extendedKeyInfo"); !ek.IsNil() {
		d.hasExt = true
		d.key = ek.Elem().FieldByName("key").String()
		d.kt = ek.Elem().FieldByName("keyType").Int()
		d.rng = ek.Elem().FieldByName("isRange").Bool()
		d.epath = descU32s(ek.Elem().FieldByName("path"))
	}
	return d, true
}

// ---------- the calls on an accepted wallet ----------

type descCall struct {
	name string
	opts func() *descriptor.ScriptOpts
}

var descCalls = []descCall{
	{"s_nil", func() *descriptor.ScriptOpts { return nil }},
	{"s_i0", func() *descriptor.ScriptOpts { return descriptor.WithIndex(0) }},
	{"s_i7", func() *descriptor.ScriptOpts { return descriptor.WithIndex(7) }},
	{"s_ih", func() *descriptor.ScriptOpts { return descriptor.WithIndex(0x80000000) }},
	{"s_r3", func() *descriptor.ScriptOpts { return descriptor.WithRange(3) }},
	{"s_r0", func() *descriptor.ScriptOpts { return descriptor.WithRange(0) }},
	{"s_rm1", func() *descriptor.ScriptOpts { return descriptor.WithRange(-1) }},
	{"s_zero", func() *descriptor.ScriptOpts { return &descriptor.ScriptOpts{} }},
}

func descScriptOutcome(w descriptor.Wallet, o *descriptor.ScriptOpts) (out string) {
	defer func() {
		if e := recover(); e != nil {
			out = "panic"
		}
	}()
	rs, err := w.Script(o)
	if err != nil {
		return "err"
	}
	var l []string
	for _, r := range rs {
		l = append(l, descPathStr(r.DerivationPath)+"/"+hx(r.Script))
	}
	return strconv.Itoa(len(rs)) + ":" + strings.Join(l, ";")
}

func descOpt(p *string) string {
	if p == nil {
		return "-"
	}
	return descTextHex(*p)
}

// descObserve runs Parse and the follow-up calls; a panic inside Parse is the line "panic"
func descObserve(s string) (line string) {
	var w descriptor.Wallet
	var err error
	if p := guarded(func() { w, err = descriptor.Parse(s) }); p != nil {
		return "panic"
	}
	if err != nil && w == nil {
		return "err res=err"
	}
	if err == nil && w == nil {
		return "res=nilnil"
	}
	if err != nil {
		return "res=both"
	}
	d, ok := descReflect(w)
	if !ok {
		return "res=ok reflect=failed"
	}
	var b sb
	b.add("res=ok")
	b.add("org=" + b2s(d.hasOrigin))
	b.add("fp=" + strconv.FormatUint(uint64(d.fp), 16))
	b.add("opath=" + descPathStr(d.opath))
	b.add("pub=" + descOpt(d.pub))
	b.add("wif=" + descOpt(d.wif))
	b.add("ext=" + b2s(d.hasExt))
	if d.hasExt {
		b.add("key=" + descTextHex(d.key))
		b.add("kt=" + map[int64]string{0: "xprv", 1: "xpub"}[d.kt])
	} else {
		b.add("key=-")
		b.add("kt=-")
	}
	b.add("rng=" + b2s(d.rng))
	b.add("epath=" + descPathStr(d.epath))
	typ, isr := "panic", "panic"
	guarded(func() { typ = w.Type() })
	guarded(func() { isr = b2s(w.IsRange()) })
	b.add("type=" + typ)
	b.add("isrange=" + isr)
	for _, c := range descCalls {
		b.add(c.name + "=" + descScriptOutcome(w, c.opts()))
	}
	return strings.TrimSpace(b.String())
}

func runDesc(t *Toks) string {
	t.Next() // mk
	return descObserve(string(t.Hex()))
}

// ---------- oracle tables ----------

func descStrip(s string) string {
	return strings.Map(func(r rune) rune {
		if strings.ContainsRune(descSpaces, r) {
			return -1
		}
		return r
	}, s)
}

// every piece of text that could be taken for the key: it starts after a '(' or a ']' (or at the start) and
// ends before the next '/' or at the last ')' (or at the end)
func descKeyCandidates(s string) []string {
	body := s
	if i := strings.IndexByte(s, '#'); i >= 0 {
		body = s[:i]
	}
	body = descStrip(body)
	seen := map[string]bool{}
	var out []string
	add := func(x string) {
		if !seen[x] && len(out) < 64 {
			seen[x] = true
			out = append(out, x)
		}
	}
	last := strings.LastIndexByte(body, ')')
	for i := 0; i <= len(body); i++ {
		if i == 0 || body[i-1] == '(' || body[i-1] == ']' {
			rest := body[i:]
			if j := strings.IndexByte(rest, '/'); j >= 0 {
				add(rest[:j])
			}
			if last >= i {
				add(body[i:last])
			}
			add(rest)
		}
	}
	return out
}

func descWifPub(k string) []byte {
	var out []byte
	guarded(func() {
		w, err := btcutil.DecodeWIF(k)
		if err == nil {
			out = w.PrivKey.PubKey().SerializeCompressed()
		}
	})
	return out
}

func descHD(key string, path []uint32) (ok bool, pub []byte) {
	guarded(func() {
		k, err := hdkeychain.NewKeyFromString(key)
		if err != nil {
			return
		}
		for _, v := range path {
			if k, err = k.Derive(v); err != nil {
				return
			}
		}
		ok = true
		pk, err := k.ECPubKey()
		if err == nil {
			pub = pk.SerializeCompressed()
		}
	})
	return
}

// descCaseLine appends the answers of the libraries below the repository for the key texts of s
func descCaseLine(mk int, s string) string {
	var b sb
	b.add("desc")
	b.add(strconv.Itoa(mk))
	b.add(descTextHex(s))
	cands := descKeyCandidates(s)
	var pk [][2]string
	seenRaw := map[string]bool{}
	for _, c := range cands {
		raw, err := hex.DecodeString(c)
		if err != nil || seenRaw[string(raw)] {
			continue
		}
		seenRaw[string(raw)] = true
		_, perr := btcec.ParsePubKey(raw)
		pk = append(pk, [2]string{hx(raw), b2s(perr == nil)})
	}
	b.addn(uint64(len(pk)))
	for _, e := range pk {
		b.add(e[0])
		b.add(e[1])
	}
	b.addn(uint64(len(cands)))
	for _, c := range cands {
		b.add(descTextHex(c))
		b.add(hx(descWifPub(c)))
	}
	// hdkeychain: the questions depend on the key text and the path; they are taken from what Parse built
	// (reading its result is not trusted: a question the model asks and this table lacks is reported by the driver)
	type hdq struct {
		key  string
		path []uint32
	}
	var qs []hdq
	var w descriptor.Wallet
	var err error
	guarded(func() { w, err = descriptor.Parse(s) })
	if err == nil && w != nil {
		if d, ok := descReflect(w); ok && d.hasExt {
			qs = append(qs, hdq{d.key, d.epath})
			if d.rng {
				for _, i := range []uint32{0, 1, 2, 7, 0x80000000} {
					qs = append(qs, hdq{d.key, append(append([]uint32{}, d.epath...), i)})
				}
			}
		}
	}
	b.addn(uint64(len(qs)))
	for _, q := range qs {
		b.add(descTextHex(q.key))
		b.addn(uint64(len(q.path)))
		for _, v := range q.path {
			b.add(strconv.FormatUint(uint64(v), 16))
		}
		ok, pub := descHD(q.key, q.path)
		b.add(b2s(ok))
		b.add(hx(pub))
	}
	return strings.TrimSpace(b.String())
}

// ---------- generator ----------

type descKeys struct {
	pubs, wifs, xprvs, xpubs, foreign []string
}

func descMakeKeys(r *Rng) *descKeys {
	k := &descKeys{}
	for i := 0; i < 6; i++ {
		priv, pub := btcec.PrivKeyFromBytes(r.Bytes(32))
		k.pubs = append(k.pubs, hex.EncodeToString(pub.SerializeCompressed()))
		if i%3 == 0 {
			k.pubs = append(k.pubs, hex.EncodeToString(pub.SerializeUncompressed()))
		}
		if w, err := btcutil.NewWIF(priv, &chaincfg.MainNetParams, i%2 == 0); err == nil {
			k.wifs = append(k.wifs, w.String())
		}
		if w, err := btcutil.NewWIF(priv, &chaincfg.TestNet3Params, true); err == nil && i == 0 {
			k.wifs = append(k.wifs, w.String())
		}
		m, err := hdkeychain.NewMaster(r.Bytes(32), &chaincfg.MainNetParams)
		if err != nil {
			continue
		}
		if i%2 == 1 {
			if c, err := m.Derive(hdkeychain.HardenedKeyStart + uint32(i)); err == nil {
				m = c
			}
		}
		k.xprvs = append(k.xprvs, m.String())
		if n, err := m.Neuter(); err == nil {
			k.xpubs = append(k.xpubs, n.String())
		}
		if t, err := hdkeychain.NewMaster(r.Bytes(32), &chaincfg.TestNet3Params); err == nil && i == 0 {
			k.foreign = append(k.foreign, t.String())
			if n, err := t.Neuter(); err == nil {
				k.foreign = append(k.foreign, n.String())
			}
		}
	}
	// the keys of descriptor/parser_test.go
	k.pubs = append(k.pubs, "03a34b99f22c790c4e36b2b3c2c35a36db06226e41c692fc82b8b56ac1c540c5bd")
	k.wifs = append(k.wifs, "L4rK1yDtCWekvXuE6oXD9jCYfFNV2cWRpVuPLBcCU2z8TrisoyY1")
	k.xprvs = append(k.xprvs, "xprv9vHkqa6EV4sPZHYqZznhT2NPtPCjKuDKGY38FBWLvgaDx45zo9WQRUT3dKYnjwih2yJD9mkrocEZXo1ex8G81dwSM1fwqWpWkeS3v86pgKt")
	k.xpubs = append(k.xpubs, "xpub69H7F5d8KSRgmmdJg2KhpAK8SR3DjMwAdkxj3ZuxV27CprR9LgpeyGmXUbC6wb7ERfvrnKZjXoUmmDznezpbZb7ap6r1D3tgFxHmwMkQTPH",
		"xpub661MyMwAqRbcFFzgbS7PZzrLLXNYmno5FN7aYMceX7HcRgot6DUnPWn8z8C2EAcqiQ9QBmsWkVmhvMjsrwsMexwiqcW1mdyMZDspQqv6SUQ")
	return k
}

func descPick(r *Rng, l []string) string { return l[r.Intn(len(l))] }

// a well-formed path component
func descGoodComp(r *Rng) string {
	v := uint64(r.Pick(0, 1, 2, 13, 44, 84, 1776, 0x7fffffff, int(r.U64()%0x80000000)))
	var s string
	switch r.Intn(8) {
	case 0:
		s = "0x" + strconv.FormatUint(v, 16)
	case 1:
		s = "0" + strconv.FormatUint(v, 8)
	case 2:
		s = "0b" + strconv.FormatUint(v, 2)
	default:
		s = strconv.FormatUint(v, 10)
	}
	switch r.Intn(4) {
	case 0:
		s += "'"
	case 1:
		s += "h"
	}
	return s
}

var descQuirkyComps = []string{
	"", "h", "'", "1'h", "1h'", "1''", "1hh", "0xfh", "0Xfh", "0b1h", "0B11'", "0o17", "0O17'", "017", "08", "09h", "0x", "0b", "0o", "0b2", "0o8", "0xg",
	"1_000", "1__0", "_1", "1_", "0_7", "0_", "0x_1", "0_x1", "0b_1", "0__1", "00_1", "0_0", "1_h", "1_'", "-0", "-0h", "-1", "-1'", "+5", "+5h", "--5", "+-5", "+", "-",
	"1e3", "1.0", "0x1p4", "2147483647", "2147483647'", "2147483648", "2147483648'", "2147483648h", "4294967295", "4294967295'", "4294967296", "4294967296h",
	"0xffffffff", "0x100000000", "0x7fffffff'", "0x80000000'", "037777777777", "040000000000", "0b11111111111111111111111111111111",
	"18446744073709551615", "18446744073709551616", "18446744073709551617'", "340282366920938463463374607431768211456",
	"99999999999999999999999999999999999999999999999999999999999999999999999999999999", "-99999999999999999999999999999999999999999999",
	"0x" + "f0f0f0f0f0f0f0f0f0f0f0f0f0f0f0f0f0f0f0f0", "00000000000000000000000000000000000000000001", "0000000000000000000000000000000000000000000000000008",
	"*", "**", "*'", "*h", "1*", "a", "z", "A", "F", "ff", "0XFF", "0xFFh", "0Xab'", "1 ", " 1", "1 '", "1' ", "h1", "'1", "٣", "１", "1é",
}

func descComp(r *Rng) string {
	if r.Chance(70) {
		return descGoodComp(r)
	}
	return descPick(r, descQuirkyComps)
}

func descFingerprint(r *Rng) string {
	switch r.Intn(12) {
	case 0:
		return descPick(r, []string{"", "d34db33", "d34db33ff", "d34db33g", "D34DB33F", "d34db3 3f", "0xd34db3", "[d34db33f", "d34db33f]", "########", "d34db3é"})
	case 1:
		return "ffffffff"
	case 2:
		return "00000000"
	case 3:
		return strings.ToUpper(hex.EncodeToString(r.Bytes(4)))
	}
	return hex.EncodeToString(r.Bytes(4))
}

// descValid builds an unmodified descriptor of one of the forms of descriptor/parser_test.go
func descValid(r *Rng, k *descKeys) string {
	var inner string
	origin := ""
	if r.Chance(45) {
		origin = "[" + hex.EncodeToString(r.Bytes(4))
		for n := r.Intn(4); n > 0; n-- {
			origin += "/" + descGoodComp(r)
		}
		origin += "]"
	}
	switch r.Intn(4) {
	case 0:
		inner = origin + descPick(r, k.pubs)
	case 1:
		inner = origin + descPick(r, k.wifs)
	default:
		key := descPick(r, k.xpubs)
		if r.Chance(40) {
			key = descPick(r, k.xprvs)
		}
		path := ""
		for n := r.Intn(4); n > 0; n-- {
			c := descGoodComp(r)
			if strings.HasPrefix(key, "xpub") {
				c = strings.TrimRight(c, "'h") // hardened children of public keys do not exist: keep Script() interesting
			}
			path += "/" + c
		}
		if r.Chance(55) && path != "" {
			path += "/*"
		}
		inner = origin + key + path
	}
	s := "elwpkh(" + inner + ")"
	if r.Chance(40) {
		s += "#" + descPick(r, []string{"12345678", "qwertyui", "a0b1c2d3", "zzzzzzzz"})
	}
	return s
}

const descAlphabet = "elwpkhxubrv()[]/#'*h_0123456789abcdefABCDEFx+- \t\n"

// descMutate: structured damage. Returns (mutation number, text)
func descMutate(r *Rng, k *descKeys, s string) (int, string) {
	body, cks := s, ""
	if i := strings.IndexByte(s, '#'); i >= 0 {
		body, cks = s[:i], s[i:]
	}
	open := strings.IndexByte(body, '(')
	inner := body[open+1 : len(body)-1]
	pos := func(x string) int { return r.Intn(len(x) + 1) }
	sp := func() string { return string(descSpaces[r.Intn(len(descSpaces))]) }
	switch m := 1 + r.Intn(20); m {
	case 1: // white space anywhere in front of the checksum
		for n := 1 + r.Intn(4); n > 0; n-- {
			p := pos(body)
			body = body[:p] + sp() + body[p:]
		}
		return m, body + cks
	case 2: // white space inside or around the checksum
		t := body + cks
		if cks == "" {
			t += "#12345678"
		}
		p := len(body) + r.Intn(len(t)-len(body)+1)
		return m, t[:p] + sp() + t[p:]
	case 3: // checksum length, second '#', '#' inside
		switch r.Intn(6) {
		case 0:
			return m, body + "#" + "123456789ab"[:r.Intn(11)]
		case 1:
			return m, body + cks + "#"
		case 2:
			p := pos(body)
			return m, body[:p] + "#" + body[p:] + cks
		case 3:
			return m, body + "##12345678"
		case 4:
			return m, "#" + body
		}
		return m, body + "#        "
	case 4: // brackets
		key := inner
		if i := strings.IndexByte(inner, ']'); i >= 0 {
			key = inner[i+1:]
		}
		org := descPick(r, []string{"]", "[]", "[", "[/]", "[d34db33f", "d34db33f]", "[d34db33f]]", "[[d34db33f]", "[d34db33f][d34db33f]", "[d34db33f/]", "[d34db33f//1]",
			"[d34db33f/1/]", "[/d34db33f]", "[d34db33f/1]x]", "[d34db33f]/", "/[d34db33f]", "x[d34db33f]", "[d34db33f/*]", "[d34db33f/1/*]", "[ d34db33f ]", "[d34db33f /1]"})
		return m, "elwpkh(" + org + key + ")" + cks
	case 5: // fingerprint
		key := inner
		if i := strings.IndexByte(inner, ']'); i >= 0 {
			key = inner[i+1:]
		}
		org := "[" + descFingerprint(r)
		for n := r.Intn(3); n > 0; n-- {
			org += "/" + descComp(r)
		}
		return m, "elwpkh(" + org + "]" + key + ")" + cks
	case 6, 7: // path components of every number syntax, in the origin and behind the key
		key := descPick(r, k.xpubs)
		if r.Chance(40) {
			key = descPick(r, k.xprvs)
		}
		org := ""
		if r.Chance(50) {
			org = "[" + descFingerprint(r)
			for n := r.Intn(3); n > 0; n-- {
				org += "/" + descComp(r)
			}
			org += "]"
		}
		path := ""
		for n := 1 + r.Intn(3); n > 0; n-- {
			path += "/" + descComp(r)
		}
		if r.Chance(40) {
			path += "/*"
		}
		return m, "elwpkh(" + org + key + path + ")" + cks
	case 8: // the range suffix
		key := descPick(r, append(append([]string{}, k.xpubs...), k.xprvs...))
		suf := descPick(r, []string{"/*", "//*", "/*/1", "/**", "/1/*/", "*", "/1*", "/1/ *", "/1/* ", "/", "//", "/1//2", "/1/", "/*/*", "/1/*/*", "/1/*'", "/1/*h", "/0/*", "/0x10/*", "/1/2/3/4/5/6/7/8/9/*"})
		return m, "elwpkh(" + key + suf + ")" + cks
	case 9: // the function name
		name := descPick(r, append(append([]string{}, descUnsupported...), "elraw", "wpkh", "elwpkh_", "_elwpkh", "ELWPKH", "elWpkh", "", "el-wpkh", "el.wpkh", "elwpkh2", "xelwpkh", "sh", "é"))
		return m, name + "(" + inner + ")" + cks
	case 10: // parentheses and text around the expression
		switch r.Intn(10) {
		case 0:
			return m, "elwpkh((" + inner + "))" + cks
		case 1:
			return m, "elwpkh(" + inner + cks
		case 2:
			return m, "elwpkh" + inner + ")" + cks
		case 3:
			return m, "elwpkh(" + inner + "))" + cks
		case 4:
			return m, descPick(r, []string{"!!", "(", ")", "x ", "sh(", "a(b)", "/", "é", "-"}) + body + cks
		case 5:
			return m, body + descPick(r, []string{"!!", "(", ")", "x", ")x", "/1)", "/1/*)", "a(b)", "é"}) + cks
		case 6:
			return m, "elsh(" + body + ")" + cks
		case 7:
			return m, "elwpkh()" + cks
		case 8:
			return m, "elwpkh(" + inner + ")(" + inner + ")" + cks
		}
		return m, "(" + inner + ")" + cks
	case 11: // the key itself
		var key string
		switch r.Intn(12) {
		case 0: // not on the curve / wrong prefix / wrong length
			b := r.Bytes(33)
			b[0] = byte(r.Pick(2, 3, 4, 5, 0))
			key = hex.EncodeToString(b)
		case 1:
			key = strings.ToUpper(descPick(r, k.pubs))
		case 2:
			key = descPick(r, k.pubs)
			key = key[:len(key)-1]
		case 3: // hybrid encodings
			_, pub := btcec.PrivKeyFromBytes(r.Bytes(32))
			u := pub.SerializeUncompressed()
			u[0] = 6 + u[64]&1
			key = hex.EncodeToString(u)
		case 4: // WIF with a damaged character
			w := []byte(descPick(r, k.wifs))
			w[r.Intn(len(w))] = "123456789ABCDEFGHJKLMNPQRSTUVWXYZabcdefghijkmnopqrstuvwxyz0OIl"[r.Intn(62)]
			key = string(w)
		case 5:
			key = descPick(r, k.wifs)
		case 6:
			key = descPick(r, k.foreign)
		case 7:
			key = descPick(r, []string{"xpub", "xprv", "xpubgarbage", "xprv/1", "xpubé", "xpu", "Xpub661", "xpub)", "xpub(", "xpub["})
		case 8: // extended key with a damaged character
			w := []byte(descPick(r, k.xpubs))
			w[4+r.Intn(len(w)-4)] = 'z'
			key = string(w)
		case 9:
			key = ""
		case 10:
			key = hex.EncodeToString(r.Bytes(r.Pick(0, 1, 32, 33, 65)))
		default:
			key = descPick(r, k.pubs) + "/1"
		}
		path := ""
		if r.Chance(30) {
			path = "/" + descComp(r)
		}
		if r.Chance(20) {
			path += "/*"
		}
		return m, "elwpkh(" + key + path + ")" + cks
	case 12: // truncation
		return m, s[:r.Intn(len(s))]
	case 13: // one character replaced
		p := r.Intn(len(s))
		return m, s[:p] + string(descAlphabet[r.Intn(len(descAlphabet))]) + s[p+1:]
	case 14: // one character inserted
		p := pos(s)
		return m, s[:p] + string(descAlphabet[r.Intn(len(descAlphabet))]) + s[p:]
	case 15: // one character removed
		p := r.Intn(len(s))
		return m, s[:p] + s[p+1:]
	case 16: // noise over the alphabet of descriptors
		n := r.Pick(0, 1, 2, 5, 20, 60, 200)
		b := make([]byte, n)
		for i := range b {
			b[i] = descAlphabet[r.Intn(len(descAlphabet))]
		}
		return m, string(b)
	case 17: // non-ASCII characters that are not white space
		p := pos(s)
		return m, s[:p] + descPick(r, []string{"\u00e9", "\u20ac", "\u00df", "\u65e5\u672c", "\u00ad", "\u200b"}) + s[p:]
	case 18: // two descriptors spliced
		t := descValid(r, k)
		return m, s[:pos(s)] + t[pos(t):]
	case 19: // long inputs
		switch r.Intn(4) {
		case 0:
			return m, "elwpkh(" + descPick(r, k.xpubs) + strings.Repeat("/0", r.Pick(10, 254, 255, 256, 300)) + ")"
		case 1:
			return m, strings.Repeat("elwpkh", 200) + "(" + inner + ")"
		case 2:
			return m, "elwpkh(" + strings.Repeat("(", 150) + inner + strings.Repeat(")", 150) + ")"
		}
		return m, "elwpkh(" + descPick(r, k.xpubs) + "/" + strings.Repeat("9", r.Pick(100, 1000, 3000)) + ")"
	}
	// 20: every recognised name with every kind of key
	return 20, descPick(r, append(append([]string{}, descUnsupported...), "elraw", "elwpkh")) + "(" + inner + ")" + cks
}

func genDesc(r *Rng, n int, w *bufio.Writer) {
	k := descMakeKeys(r)
	for i := 0; i < n; i++ {
		s := descValid(r, k)
		mk := 0
		if i%3 != 0 {
			mk, s = descMutate(r, k, s)
			if r.Chance(15) {
				_, s = descMutate(r, k, descRepair(s))
			}
		}
		fmt.Fprintln(w, descCaseLine(mk, s))
	}
}

// descRepair makes a text usable as the input of a second mutation (which expects name(inner)[#cks])
func descRepair(s string) string {
	body := s
	if i := strings.IndexByte(s, '#'); i >= 0 {
		body = s[:i]
	}
	if strings.IndexByte(body, '(') < 0 || !strings.HasSuffix(body, ")") || len(body) < 3 || len(s) < 2 {
		return "elwpkh(" + strings.NewReplacer("#", "", "(", "", ")", "").Replace(s) + "x)"
	}
	return s
}

// the fixed cases: every form of descriptor/parser_test.go, the inputs of the two repaired defects, boundary values
func genDescCorpus(r *Rng, n int, w *bufio.Writer) {
	xprv := "xprv9vHkqa6EV4sPZHYqZznhT2NPtPCjKuDKGY38FBWLvgaDx45zo9WQRUT3dKYnjwih2yJD9mkrocEZXo1ex8G81dwSM1fwqWpWkeS3v86pgKt"
	xpub := "xpub69H7F5d8KSRgmmdJg2KhpAK8SR3DjMwAdkxj3ZuxV27CprR9LgpeyGmXUbC6wb7ERfvrnKZjXoUmmDznezpbZb7ap6r1D3tgFxHmwMkQTPH"
	xpub2 := "xpub661MyMwAqRbcFFzgbS7PZzrLLXNYmno5FN7aYMceX7HcRgot6DUnPWn8z8C2EAcqiQ9QBmsWkVmhvMjsrwsMexwiqcW1mdyMZDspQqv6SUQ"
	pub := "03a34b99f22c790c4e36b2b3c2c35a36db06226e41c692fc82b8b56ac1c540c5bd"
	wif := "L4rK1yDtCWekvXuE6oXD9jCYfFNV2cWRpVuPLBcCU2z8TrisoyY1"
	valid := []string{
		"elwpkh(" + pub + ")", "elwpkh(" + wif + ")",
		"elwpkh([ffffffff/13']" + xprv + "/1/2/*)", "elwpkh([ffffffff/13']" + xpub + "/1/2/*)",
		"elwpkh(" + xpub2 + "/1/*)", "elwpkh(" + xpub2 + ")", "elwpkh(" + xpub2 + ")#12345678", "elwpkh([d34db33f]" + pub + ")#abcdefgh",
		"elwpkh([d34db33f/44h/0x0/0b1]" + wif + ")",
	}
	for _, s := range valid {
		fmt.Fprintln(w, descCaseLine(0, s))
	}
	other := []string{
		"elwpkh(]" + pub + ")", "elwpkh(]", "elwpkh(])", "elwpkh(]x)", "elwpkh([]" + pub + ")", "elwpkh([/]" + xpub2 + ")",
		"elwpkh(" + xpub2 + "/)", "elwpkh(" + xpub2 + "/*)", "elwpkh(" + xpub2 + "//*)", "elwpkh(" + xpub2 + "/1/*)junk", "!!elwpkh(" + xpub2 + ")",
		"elwpkh(())", "elwpkh()", "elwpkh())", "()", "(", ")", "", "#", "#12345678", "elwpkh(xpub)", "elwpkh(xpub/)", "elwpkh(xprv/*)", "elwpkh(xpub/*/*)",
		"elwpkh(xpubAAA)/1)", "elwpkh(xpub/4294967295)", "elwpkh(xpub/4294967296)", "elwpkh(xpub/2147483647')", "elwpkh(xpub/2147483648')", "elwpkh(xpub/-0)", "elwpkh(xpub/-1)",
		"elwpkh(" + pub + ")#1234567", "elwpkh(" + pub + ")#123456789", "elwpkh(" + pub + ")#12345678\n", "elwpkh(" + pub + ")\n", " el wp\tkh ( " + pub + " ) ",
		"elwpkh(" + xpub2 + "/1 /2' / 0x1_0 h/*)",
	}
	for _, n := range append(append([]string{}, descUnsupported...), "elraw", "wpkh", "foo") {
		other = append(other, n+"("+pub+")")
	}
	sort.Strings(other)
	for _, s := range other {
		fmt.Fprintln(w, descCaseLine(1, s))
	}
}

func init() {
	gens["desc"] = genDesc
	gens["desc-corpus"] = genDescCorpus
	runs["desc"] = runDesc
}
