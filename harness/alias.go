package main

// C18 family "alias": every anchored call site is run on argument configurations that are
// sub-slices of larger buffers (bytes in front, spare capacity behind, sentinel 0xA5), nil
// and empty slices, and slices sharing one array.  The result line carries the result
// bytes and, per argument, whether its WHOLE array changed and where; the extracted heap
// model (Model/Alias.v) predicts the same line.
// Family "flist": the byte-level contract of the bufferutil free list on sequential use.
//
// Slice argument = 4 tokens <array> <off> <len> <cap>; <array> is hex, "-" or "@k" (the same
// array object as the k-th slice argument of the case).

import (
	"bufio"
	"bytes"
	"encoding/base64"
	"encoding/binary"
	"fmt"
	"strconv"
	"strings"

	"github.com/btcsuite/btcd/btcec/v2"
	"github.com/btcsuite/btcd/txscript"
	"github.com/vulpemventures/go-elements/address"
	"github.com/vulpemventures/go-elements/blech32"
	"github.com/vulpemventures/go-elements/confidential"
	"github.com/vulpemventures/go-elements/elementsutil"
	"github.com/vulpemventures/go-elements/network"
	"github.com/vulpemventures/go-elements/psetv2"
	"github.com/vulpemventures/go-elements/taproot"
	"github.com/vulpemventures/go-elements/transaction"
	"github.com/vulpemventures/go-elements/verifhooks"
)

type alCtx struct {
	arrs   [][]byte // array object per argument
	before [][]byte
}

func (c *alCtx) slice(t *Toks) []byte {
	a := t.Next()
	off, ln, cp := t.Int(), t.Int(), t.Int()
	var arr []byte
	if strings.HasPrefix(a, "@") {
		k, _ := strconv.Atoi(a[1:])
		arr = c.arrs[k]
	} else {
		t.l = append([]string{a}, t.l...)
		arr = t.Hex() // "-" becomes nil or empty, chosen from a hash of the line
	}
	c.arrs = append(c.arrs, arr)
	c.before = append(c.before, append([]byte(nil), arr...))
	if cp == 0 && len(arr) == 0 {
		return arr
	}
	return arr[off : off+ln : off+cp]
}

func alDiff(before, after []byte) string {
	if bytes.Equal(before, after) {
		return "-"
	}
	i := 0
	for i < len(before) && i < len(after) && before[i] == after[i] {
		i++
	}
	return fmt.Sprintf("%d:%s", i, hx(after))
}

func (c *alCtx) chg() string {
	if len(c.arrs) == 0 {
		return "none"
	}
	var out []string
	for i := range c.arrs {
		out = append(out, alDiff(c.before[i], c.arrs[i]))
	}
	return strings.Join(out, ",")
}

func alHexs(l [][]byte) string {
	if len(l) == 0 {
		return "none"
	}
	var out []string
	for _, x := range l {
		out = append(out, hx(x))
	}
	return strings.Join(out, ",")
}

// fixed valid crypto material for the sites whose result is produced by libsecp
var alOne32 = func() []byte { b := make([]byte, 32); b[31] = 1; return b }()

func alU64s(b []byte) []uint64 {
	out := make([]uint64, len(b)/8)
	for i := range out {
		out[i] = binary.LittleEndian.Uint64(b[8*i:])
	}
	return out
}
func alPutU64s(dst []byte, v []uint64) {
	for i := range v {
		binary.LittleEndian.PutUint64(dst[8*i:], v[i])
	}
}

// alKeyPairs walks the raw PSET v2 serialization and returns the (keydata, value) pairs of
// the given key type in the first input map.
func alKeyPairs(raw []byte, keyType byte) (keys, vals [][]byte, ok bool) {
	pos := 5
	rd := func() (uint64, bool) {
		if pos >= len(raw) {
			return 0, false
		}
		d := raw[pos]
		pos++
		switch d {
		case 0xfd:
			if pos+2 > len(raw) {
				return 0, false
			}
			v := uint64(binary.LittleEndian.Uint16(raw[pos:]))
			pos += 2
			return v, true
		case 0xfe:
			if pos+4 > len(raw) {
				return 0, false
			}
			v := uint64(binary.LittleEndian.Uint32(raw[pos:]))
			pos += 4
			return v, true
		case 0xff:
			if pos+8 > len(raw) {
				return 0, false
			}
			v := binary.LittleEndian.Uint64(raw[pos:])
			pos += 8
			return v, true
		}
		return uint64(d), true
	}
	for m := 0; m < 2; m++ { // map 0 = global, map 1 = first input
		for {
			kl, ok1 := rd()
			if !ok1 {
				return nil, nil, false
			}
			if kl == 0 {
				break
			}
			if pos+int(kl) > len(raw) {
				return nil, nil, false
			}
			key := raw[pos : pos+int(kl)]
			pos += int(kl)
			vl, ok2 := rd()
			if !ok2 || pos+int(vl) > len(raw) {
				return nil, nil, false
			}
			val := raw[pos : pos+int(vl)]
			pos += int(vl)
			if m == 1 && key[0] == keyType {
				keys = append(keys, key[1:])
				vals = append(vals, val)
			}
		}
	}
	return keys, vals, true
}

func alNewV2() *psetv2.Pset {
	p, err := psetv2.New([]psetv2.InputArgs{{Txid: strings.Repeat("11", 32), TxIndex: 0}},
		[]psetv2.OutputArgs{{Asset: strings.Repeat("25", 32), Amount: 10, Script: []byte{0x51}}}, nil)
	if err != nil {
		panic(err)
	}
	return p
}

var alGenKey = func() *btcec.PublicKey {
	_, pub := btcec.PrivKeyFromBytes(alOne32)
	return pub
}()

func runAlias(t *Toks) string {
	site := t.Next()
	c := &alCtx{}
	resOpt := func(b []byte, err error) string {
		if err != nil {
			return "err"
		}
		return hx(b)
	}
	switch site {
	case "asset":
		e := c.slice(t)
		r, err := transaction.ComputeAsset(e)
		return fmt.Sprintf("res=%s chg=%s", resOpt(r, err), c.chg())
	case "token":
		e := c.slice(t)
		flag := uint(t.U64())
		r, err := transaction.ComputeReissuanceToken(e, flag)
		return fmt.Sprintf("res=%s chg=%s", resOpt(r, err), c.chg())
	case "fvbf":
		a, b := c.slice(t), c.slice(t)
		// []uint64 views of the same configuration (8 bytes per element)
		arrA, arrB := alU64s(c.arrs[0]), alU64s(c.arrs[1])
		inv := alSub64(arrA, c.arrs[0], a)
		outv := alSub64(arrB, c.arrs[1], b)
		gens := func(n int) [][]byte {
			var l [][]byte
			for i := 0; i < n; i++ {
				l = append(l, alOne32)
			}
			return l
		}
		_, err := confidential.FinalValueBlindingFactor(confidential.FinalValueBlindingFactorArgs{
			InValues: inv, OutValues: outv, InGenerators: gens(len(inv)), OutGenerators: gens(len(outv)),
			InFactors: gens(len(inv)), OutFactors: gens(len(outv) - 1),
		})
		alPutU64s(c.arrs[0], arrA)
		alPutU64s(c.arrs[1], arrB)
		r := "ok"
		if err != nil {
			r = "err"
		}
		return fmt.Sprintf("res=%s chg=%s", r, c.chg())
	case "rpmsg":
		asset, abf := c.slice(t), c.slice(t)
		gen, err := confidential.AssetCommitment(asset, abf)
		if err != nil {
			return "res=err-setup"
		}
		vc, err := confidential.ValueCommitment(1000, gen, alOne32)
		if err != nil {
			return "res=err-setup"
		}
		var vbf, nonce [32]byte
		copy(vbf[:], alOne32)
		nonce[0] = 5
		proof, err := confidential.RangeProof(confidential.RangeProofArgs{Value: 1000, Nonce: nonce, Asset: asset,
			AssetBlindingFactor: abf, ValueBlindFactor: vbf, ValueCommit: vc, ScriptPubkey: []byte{0x51}, Exp: 0, MinBits: 36})
		if err != nil {
			return fmt.Sprintf("res=err chg=%s", c.chg())
		}
		// the message is recovered by rewinding the proof with the same nonce
		msg := "norewind"
		if u, err := alRewind(proof, vc, gen, nonce); err == nil {
			msg = hx(u)
		}
		return fmt.Sprintf("res=ok msg=%s chg=%s", msg, c.chg())
	case "b58c":
		ver, cver := byte(t.Int()), byte(t.Int())
		pk, d := c.slice(t), c.slice(t)
		s := address.ToBase58Confidential(&address.Base58Confidential{Base58: address.Base58{Version: ver, Data: d}, Version: cver, PublicKey: pk})
		return fmt.Sprintf("res=%s chg=%s", hxs(s), c.chg())
	case "blech":
		prefix := string(t.Hex())
		v := byte(t.Int())
		pk, prog := c.slice(t), c.slice(t)
		s, err := address.ToBlech32(&address.Blech32{Prefix: prefix, Version: v, PublicKey: pk, Program: prog})
		return fmt.Sprintf("res=%s chg=%s", resOpt([]byte(s), err), c.chg())
	case "b32enc":
		hrp := string(t.Hex())
		enc := blech32.BLECH32
		if t.Int() == 1 {
			enc = blech32.BLECH32M
		}
		d := c.slice(t)
		s, err := blech32.Encode(hrp, d, enc)
		return fmt.Sprintf("res=%s chg=%s", resOpt([]byte(s), err), c.chg())
	case "b32dec":
		s := string(t.Hex())
		hrp, data, err := blech32.Decode(s)
		if err != nil {
			return "res=err"
		}
		return fmt.Sprintf("res=%s/%s tail=%s", hxs(hrp), hx(data), hx(data[len(data):cap(data)]))
	case "tapsig":
		k := t.Int()
		p := alNewV2()
		for i := 0; i < k; i++ {
			pk, lf := c.slice(t), c.slice(t)
			p.Inputs[0].TapScriptSig = append(p.Inputs[0].TapScriptSig, psetv2.TapScriptSig{
				PartialSig: psetv2.PartialSig{PubKey: pk, Signature: bytes.Repeat([]byte{byte(i + 1)}, 64)}, LeafHash: lf})
		}
		b64, err := p.ToBase64()
		if err != nil {
			return fmt.Sprintf("kd=err chg=%s", c.chg())
		}
		raw, _ := base64.StdEncoding.DecodeString(b64)
		keys, _, ok := alKeyPairs(raw, psetv2.InputTapScriptSig)
		if !ok {
			return "kd=unparsable"
		}
		return fmt.Sprintf("kd=%s chg=%s", alHexs(keys), c.chg())
	case "tapleaf":
		k := t.Int()
		p := alNewV2()
		for i := 0; i < k; i++ {
			scr := c.slice(t)
			ver := byte(t.Int())
			var proof []byte
			for j := 0; j < i; j++ {
				proof = append(proof, bytes.Repeat([]byte{byte(j + 1)}, 32)...)
			}
			p.Inputs[0].TapLeafScript = append(p.Inputs[0].TapLeafScript, psetv2.TapLeafScript{
				TapElementsLeaf: taproot.TapElementsLeaf{TapLeaf: txscript.TapLeaf{LeafVersion: txscript.TapscriptLeafVersion(ver), Script: scr}},
				ControlBlock: taproot.ControlBlock{ControlBlock: txscript.ControlBlock{InternalKey: alGenKey,
					LeafVersion: txscript.TapscriptLeafVersion(ver & 0xfe), InclusionProof: proof}},
			})
		}
		b64, err := p.ToBase64()
		if err != nil {
			return fmt.Sprintf("kd=err chg=%s", c.chg())
		}
		raw, _ := base64.StdEncoding.DecodeString(b64)
		_, vals, ok := alKeyPairs(raw, psetv2.InputTapLeafScript)
		if !ok {
			return "kd=unparsable"
		}
		return fmt.Sprintf("kd=%s chg=%s", alHexs(vals), c.chg())
	case "getutxo":
		hasW, hasN := t.Int() == 1, t.Int() == 1
		prev, nouts := t.Int(), t.Int()
		stored, inrp := c.slice(t), c.slice(t)
		in := &psetv2.Input{PreviousTxIndex: uint32(prev), UtxoRangeProof: inrp}
		var objs []*transaction.TxOutput
		mk := func() *transaction.TxOutput {
			o := &transaction.TxOutput{Asset: []byte{1}, Value: []byte{1}, Script: []byte{0x51}, Nonce: []byte{0}, RangeProof: stored}
			objs = append(objs, o)
			return o
		}
		if hasW {
			in.WitnessUtxo = mk()
		}
		if hasN {
			tx := transaction.NewTx(2)
			for j := 0; j < nouts; j++ {
				tx.Outputs = append(tx.Outputs, mk())
			}
			in.NonWitnessUtxo = tx
		}
		got := in.GetUtxo()
		var st []string
		for _, o := range objs {
			st = append(st, hx(o.RangeProof))
		}
		stored1 := "none"
		if len(st) > 0 {
			stored1 = strings.Join(st, ",")
		}
		if got == nil {
			return fmt.Sprintf("res=nil stored=%s", stored1)
		}
		same := false
		for _, o := range objs {
			if o == got {
				same = true
			}
		}
		return fmt.Sprintf("res=ptr rp=%s same=%s stored=%s", hx(got.RangeProof), b2s(same), stored1)
	case "rev":
		b := c.slice(t)
		r := elementsutil.ReverseBytes(b)
		alias := cap(r) > 0 && cap(b) > 0 && &r[:1][0] == &b[:1][0]
		return fmt.Sprintf("res=%s alias=%s chg=%s", hx(r), b2s(alias), c.chg())
	case "valfrom":
		v := c.slice(t)
		n, err := elementsutil.ValueFromBytes(v)
		if err != nil {
			return fmt.Sprintf("res=err chg=%s", c.chg())
		}
		return fmt.Sprintf("res=%x chg=%s", n, c.chg())
	case "assethash":
		b := c.slice(t)
		s := elementsutil.AssetHashFromBytes(b)
		if s == "" {
			s = "-"
		}
		return fmt.Sprintf("res=%s chg=%s", s, c.chg())
	case "txid":
		b := c.slice(t)
		s := elementsutil.TxIDFromBytes(b)
		if s == "" {
			s = "-"
		}
		return fmt.Sprintf("res=%s chg=%s", s, c.chg())
	case "ser":
		k := t.Int()
		var v [][]byte
		for i := 0; i < k; i++ {
			v = append(v, c.slice(t))
		}
		r, err := verifhooks.SerializeVector(v)
		return fmt.Sprintf("res=%s chg=%s", resOpt(r, err), c.chg())
	case "copy":
		k := t.Int()
		var l [][]byte
		for i := 0; i < k; i++ {
			l = append(l, c.slice(t))
		}
		tx := alTxOfLeaves(l)
		cp := tx.Copy()
		cl := alLeavesOfTx(cp, len(l))
		rdc := alHexs(cl)
		// flip every byte of every copied slice over its full capacity
		for _, d := range cl {
			full := d[:cap(d)]
			for i := range full {
				full[i] ^= 0xff
			}
		}
		c1 := c.chg()
		for _, d := range cl { // undo
			full := d[:cap(d)]
			for i := range full {
				full[i] ^= 0xff
			}
		}
		// flip every byte of every original array, then look at the copy
		seen := map[*byte]bool{}
		for _, a := range c.arrs {
			if len(a) == 0 || seen[&a[0]] {
				continue
			}
			seen[&a[0]] = true
			for i := range a {
				a[i] ^= 0xff
			}
		}
		cchg := "-"
		if alHexs(alLeavesOfTx(cp, len(l))) != rdc {
			cchg = "changed"
		}
		return fmt.Sprintf("rd=%s chg=%s cchg=%s", rdc, c1, cchg)
	case "globals":
		return "g=" + alHexs(alGlobals())
	}
	return "unknown-site " + site
}

// alGlobals: every exported package-level var of slice / array / struct-with-array type
func alGlobals() [][]byte {
	l := [][]byte{transaction.One[:], transaction.Zero[:], transaction.MaxConfidentialValue, confidential.Zero,
		taproot.TagTapLeafElements, taproot.TagTapBranchElements, taproot.TagTapSighashElements, taproot.TagTapTweakElements}
	for _, n := range []*network.Network{&network.Liquid, &network.Regtest, &network.Testnet} {
		l = append(l, n.HDPublicKey[:], n.HDPrivateKey[:])
	}
	return l
}

func alOff(arr, s []byte) int {
	if cap(s) == 0 || len(arr) == 0 {
		return 0
	}
	// s = arr[off:...]: cap(s) = cap(arr) - off when taken with a 2-index slice; with the 3-index form
	// used here the offset is found by address
	for off := 0; off <= len(arr); off++ {
		if off < len(arr) && &arr[off : off+1][0] == &s[:1][0] {
			return off
		}
	}
	return 0
}

// alSub64 gives the []uint64 sub-slice of arr64 that corresponds to the byte slice s of arr
func alSub64(arr64 []uint64, arr, s []byte) []uint64 {
	if cap(s) == 0 {
		if s == nil {
			return nil
		}
		return []uint64{}
	}
	off := alOff(arr, s) / 8
	return arr64[off : off+len(s)/8 : off+cap(s)/8]
}

func alRewind(proof, vc, gen []byte, nonce [32]byte) ([]byte, error) {
	// UnblindOutputWithNonce needs an output; the message is asset || asset blinder
	out := &transaction.TxOutput{Asset: gen, Value: vc, Script: []byte{0x51}, Nonce: append([]byte{2}, alOne32...), RangeProof: proof}
	u, err := confidential.UnblindOutputWithNonce(out, nonce[:])
	if err != nil {
		return nil, err
	}
	return append(append([]byte{}, u.Asset...), u.AssetBlindingFactor...), nil
}

// layout of the leaves of the `copy` site: 14 fixed positions, the rest alternate between the
// witness and the peg-in witness of the input
func alTxOfLeaves(l [][]byte) *transaction.Transaction {
	for len(l) < 14 {
		l = append(l, nil)
	}
	in := &transaction.TxInput{Hash: l[0], Index: 1, Sequence: 2, Script: l[1], IsPegin: true,
		IssuanceRangeProof: l[2], InflationRangeProof: l[3],
		Issuance: &transaction.TxIssuance{AssetBlindingNonce: l[4], AssetEntropy: l[5], AssetAmount: l[6], TokenAmount: l[7]}}
	out := &transaction.TxOutput{Asset: l[8], Value: l[9], Script: l[10], Nonce: l[11], RangeProof: l[12], SurjectionProof: l[13]}
	for i := 14; i < len(l); i++ {
		if i%2 == 0 {
			in.Witness = append(in.Witness, l[i])
		} else {
			in.PeginWitness = append(in.PeginWitness, l[i])
		}
	}
	tx := transaction.NewTx(2)
	tx.Inputs = append(tx.Inputs, in)
	tx.Outputs = append(tx.Outputs, out)
	return tx
}

func alLeavesOfTx(tx *transaction.Transaction, n int) [][]byte {
	in, out := tx.Inputs[0], tx.Outputs[0]
	l := [][]byte{in.Hash, in.Script, in.IssuanceRangeProof, in.InflationRangeProof,
		in.Issuance.AssetBlindingNonce, in.Issuance.AssetEntropy, in.Issuance.AssetAmount, in.Issuance.TokenAmount,
		out.Asset, out.Value, out.Script, out.Nonce, out.RangeProof, out.SurjectionProof}
	w, p := 0, 0
	for i := 14; i < n; i++ {
		if i%2 == 0 {
			l = append(l, in.Witness[w])
			w++
		} else {
			l = append(l, in.PeginWitness[p])
			p++
		}
	}
	return l[:alMaxInt(n, 14)][:n]
}

func alMaxInt(a, b int) int {
	if a > b {
		return a
	}
	return b
}

// ---------- generator ----------

// alArg writes one slice argument: content `body` embedded at `off` in an array with `spare`
// bytes of capacity behind it (and `extra` bytes beyond the capacity), sentinels 0xA5
func alArg(b *sb, body []byte, off, spare, extra int) {
	if len(body) == 0 && off == 0 && spare == 0 && extra == 0 {
		b.add("- 0 0 0")
		return
	}
	arr := bytes.Repeat([]byte{0xa5}, off+len(body)+spare+extra)
	copy(arr[off:], body)
	b.addh(arr)
	b.addn(uint64(off))
	b.addn(uint64(len(body)))
	b.addn(uint64(len(body) + spare))
}

// alCfg draws (off, spare, extra): offset 0..3, spare capacity 0 / 1 / k, sometimes bytes beyond the capacity
func alCfg(r *Rng, need int) (off, spare, extra int) {
	off = r.Intn(4)
	switch r.Intn(5) {
	case 0:
		spare = 0
	case 1:
		spare = 1
	case 2:
		spare = need // exactly enough room for what the site appends
	case 3:
		spare = need - 1
		if spare < 0 {
			spare = 0
		}
	default:
		spare = need + 1 + r.Intn(40)
	}
	if r.Chance(30) {
		extra = 1 + r.Intn(3)
	}
	if r.Chance(12) {
		off, spare, extra = 0, 0, 0
	}
	return
}

func alArgR(b *sb, r *Rng, body []byte, need int) {
	off, spare, extra := alCfg(r, need)
	alArg(b, body, off, spare, extra)
}

func alLen32(r *Rng) int {
	if r.Chance(85) {
		return 32
	}
	return r.Pick(0, 1, 31, 33, 64)
}

var alPrefixes = []string{"lq", "el", "tlq", "ex"}

func genAlias(r *Rng, n int, w *bufio.Writer) {
	fmt.Fprintln(w, "alias globals")
	sites := []string{"asset", "token", "fvbf", "b58c", "blech", "b32enc", "b32dec", "tapsig", "tapleaf", "getutxo",
		"rev", "valfrom", "assethash", "txid", "ser", "copy", "rpmsg"}
	for i := 0; i < n; i++ {
		site := sites[i%len(sites)]
		if site == "rpmsg" && i%(len(sites)*4) != len(sites)-1 {
			site = "asset" // range proofs are expensive: one in four rounds
		}
		var b sb
		b.add("alias")
		b.add(site)
		switch site {
		case "asset":
			alArgR(&b, r, r.Bytes(alLen32(r)), 32)
		case "token":
			alArgR(&b, r, r.Bytes(alLen32(r)), 32)
			b.addn(uint64(r.Pick(0, 1, 1, 0, 2)))
		case "fvbf":
			ni, no := 1+r.Intn(3), 1+r.Intn(3)
			vals := func(k int) []byte {
				out := make([]byte, 8*k)
				for j := 0; j < k; j++ {
					binary.LittleEndian.PutUint64(out[8*j:], uint64(1+r.Intn(100000)))
				}
				return out
			}
			off, spare, extra := alCfg(r, no)
			alArg(&b, vals(ni), 8*off, 8*spare, 8*extra)
			off, spare, extra = alCfg(r, 1)
			alArg(&b, vals(no), 8*off, 8*spare, 8*extra)
		case "rpmsg":
			alArgR(&b, r, r.Bytes(32), 32)
			abf := r.Bytes(32)
			abf[0] &= 0x7f
			alArgR(&b, r, abf, 0)
		case "b58c":
			b.addn(uint64(r.Pick(57, 39, 235, 75, 36, 19)))
			b.addn(uint64(r.Pick(12, 4, 23)))
			alArgR(&b, r, genKey33(r), 32)
			alArgR(&b, r, r.Bytes(r.Pick(20, 20, 32, 0, 1)), 0)
		case "blech":
			b.addh([]byte(alPrefixes[r.Intn(len(alPrefixes))]))
			b.addn(uint64(r.Pick(0, 0, 1, 1, 2, 16, 17)))
			pl := r.Pick(20, 32, 32, 20, 2, 40, 41)
			key := genKey33(r)
			if r.Chance(8) {
				key = key[:r.Pick(0, 32)]
			}
			alArgR(&b, r, key, pl)
			alArgR(&b, r, r.Bytes(pl), 0)
		case "b32enc":
			b.addh([]byte(alPrefixes[r.Intn(len(alPrefixes))]))
			b.addn(uint64(r.Intn(2)))
			k := r.Intn(90)
			d := make([]byte, k)
			for j := range d {
				d[j] = byte(r.Intn(32))
			}
			if k > 0 && r.Chance(6) {
				d[r.Intn(k)] = byte(32 + r.Intn(200))
			}
			alArgR(&b, r, d, 12)
		case "b32dec":
			s, _ := genB32Valid(r, r.Bool())
			if r.Chance(25) && len(s) > 4 {
				bs := []byte(s)
				bs[len(bs)-1-r.Intn(3)] = b32OtherChar(r, bs[len(bs)-1])
				s = string(bs)
			}
			b.addh([]byte(s))
		case "tapsig":
			k := 1 + r.Intn(3)
			b.addn(uint64(k))
			shared := r.Chance(40)
			off0, spare0, extra0 := alCfg(r, 32)
			for j := 0; j < k; j++ {
				if j == 0 {
					alArg(&b, r.Bytes(32), off0, spare0, extra0)
				} else if shared {
					// the same public key buffer (same array object, same window) for every signature
					b.add(fmt.Sprintf("@0 %d 32 %d", off0, 32+spare0))
				} else {
					alArgR(&b, r, r.Bytes(32), 32)
				}
				alArgR(&b, r, append([]byte{byte(j)}, r.Bytes(31)...), 0)
			}
		case "tapleaf":
			k := 1 + r.Intn(3)
			b.addn(uint64(k))
			for j := 0; j < k; j++ {
				alArgR(&b, r, r.Bytes(r.Intn(40)), 1)
				b.addn(uint64(r.Pick(0xc4, 0xc4, 0xc0, 0xc5, 0x00)))
			}
		case "getutxo":
			hasW, hasN := r.Chance(60), r.Chance(50)
			nouts := 1 + r.Intn(3)
			prev := r.Intn(nouts)
			if r.Chance(7) {
				prev = nouts + r.Intn(2)
			}
			b.add(b2s(hasW))
			b.add(b2s(hasN))
			b.addn(uint64(prev))
			b.addn(uint64(nouts))
			alArgR(&b, r, r.Bytes(r.Intn(6)), 0)
			alArgR(&b, r, r.Bytes(r.Intn(6)), 0)
		case "rev":
			alArgR(&b, r, r.Bytes(r.Pick(0, 0, 1, 2, 3, 8, 9, 32, 33)), 0)
		case "valfrom":
			v := append([]byte{1}, r.Bytes(8)...)
			if r.Chance(15) {
				v[0] = byte(r.Pick(0, 2, 8, 9))
			}
			if r.Chance(15) {
				v = v[:r.Pick(0, 1, 8)]
			}
			alArgR(&b, r, v, 0)
		case "assethash":
			alArgR(&b, r, r.Bytes(r.Pick(33, 33, 32, 1, 0, 2)), 0)
		case "txid":
			alArgR(&b, r, r.Bytes(r.Pick(32, 32, 0, 1, 31)), 0)
		case "ser":
			k := r.Intn(5)
			b.addn(uint64(k))
			for j := 0; j < k; j++ {
				alArgR(&b, r, r.Bytes(r.Pick(0, 1, 5, 32, 252, 253, 300)), 9)
			}
		case "copy":
			k := 14 + r.Intn(6)
			b.addn(uint64(k))
			for j := 0; j < k; j++ {
				alArgR(&b, r, r.Bytes(r.Pick(0, 1, 3, 9, 32, 33)), 4)
			}
		}
		fmt.Fprintln(w, strings.TrimSpace(b.String()))
	}
}

// ---------- flist ----------

func runFlist(t *Toks) string {
	input := t.Hex()
	k := t.Int()
	verifhooks.FreeListDrain()
	rd := bytes.NewBuffer(append([]byte(nil), input...))
	var wr bytes.Buffer
	var res []string
	for i := 0; i < k; i++ {
		o := t.Next()
		n, _ := strconv.Atoi(o[1:])
		if o[0] == 'p' {
			v, err := strconv.ParseUint(t.Next(), 16, 64)
			if err != nil {
				panic(err)
			}
			if err := verifhooks.PutUint(&wr, n, v); err != nil {
				return "res=write-error"
			}
		} else {
			v, err := verifhooks.Uint(rd, n)
			if err != nil {
				res = append(res, "err")
			} else {
				res = append(res, fmt.Sprintf("%x", v))
			}
		}
	}
	fl := verifhooks.FreeListDrain()
	rs := "none"
	if len(res) > 0 {
		rs = strings.Join(res, ",")
	}
	return fmt.Sprintf("out=%s res=%s left=%s fl=%d bufs=%s cap=%d done=1", hx(wr.Bytes()), rs, hx(rd.Bytes()),
		len(fl), alHexs(fl), verifhooks.FreeListCap())
}

func genFlist(r *Rng, n int, w *bufio.Writer) {
	for i := 0; i < n; i++ {
		k := 1 + r.Intn(8)
		var ops sb
		var input []byte
		for j := 0; j < k; j++ {
			sz := r.Pick(1, 2, 4, 8)
			if r.Bool() {
				var v uint64
				switch r.Intn(4) {
				case 0:
					v = 0
				case 1:
					v = ^uint64(0)
				default:
					v = r.U64()
				}
				if sz < 8 {
					v &= (uint64(1) << (8 * uint(sz))) - 1
				}
				ops.add(fmt.Sprintf("p%d %x", sz, v))
			} else {
				ops.add(fmt.Sprintf("g%d", sz))
				if r.Chance(85) {
					input = append(input, r.Bytes(sz)...)
				} else {
					input = append(input, r.Bytes(r.Intn(sz))...) // short read: error, stream drained
				}
			}
		}
		fmt.Fprintf(w, "flist %s %d %s\n", hx(input), k, strings.TrimSpace(ops.String()))
	}
}

func init() {
	gens["alias"] = genAlias
	runs["alias"] = runAlias
	gens["flist"] = genFlist
	runs["flist"] = runFlist
}
