package main

import (
	"fmt"

	"github.com/vulpemventures/go-elements/transaction"
)

// perturbations of a transaction, one field class at a time
type pert struct {
	name    string
	witness bool // the field is witness data (not covered by the txid)
	apply   func(tx *transaction.Transaction) bool
}

func flipLast(b []byte) []byte {
	c := append([]byte{}, b...)
	c[len(c)-1] ^= 0x01
	return c
}
func grow(b []byte) []byte { return append(append([]byte{}, b...), 0x51) }

func altValue(v []byte) []byte {
	if len(v) > 1 {
		return flipLast(v)
	}
	return append([]byte{1}, 0, 0, 0, 0, 0, 0, 0, 7)
}
func altNonce(v []byte) []byte {
	if len(v) > 1 {
		return flipLast(v)
	}
	return append([]byte{2}, make([]byte, 32)...)
}

func txPerts(tx *transaction.Transaction) []pert {
	ps := []pert{
		{"version", false, func(t *transaction.Transaction) bool { t.Version ^= 1; return true }},
		{"locktime", false, func(t *transaction.Transaction) bool { t.Locktime ^= 1; return true }},
	}
	for i := range tx.Inputs {
		i := i
		ps = append(ps,
			pert{fmt.Sprintf("in%d.hash", i), false, func(t *transaction.Transaction) bool { t.Inputs[i].Hash = flipLast(t.Inputs[i].Hash); return true }},
			pert{fmt.Sprintf("in%d.index", i), false, func(t *transaction.Transaction) bool {
				in := t.Inputs[i]
				if in.Index == 0xffffffff {
					in.Index = 7
				} else if in.Index == 0x3fffffff {
					in.Index = 5
				} else {
					in.Index ^= 1
				}
				return true
			}},
			// bits 30 and 31 of the index word double as the peg-in and issuance flags on the wire: when the flag is
			// not set, the bit belongs to the index and must be covered like the rest of it (values only the API can hold)
			pert{fmt.Sprintf("in%d.index-hi30", i), false, func(t *transaction.Transaction) bool {
				in := t.Inputs[i]
				if in.IsPegin || in.Index == 0xffffffff || in.Index^0x40000000 == 0xffffffff {
					return false
				}
				in.Index ^= 0x40000000
				return true
			}},
			pert{fmt.Sprintf("in%d.index-hi31", i), false, func(t *transaction.Transaction) bool {
				in := t.Inputs[i]
				if in.Issuance != nil || in.Index == 0xffffffff || in.Index^0x80000000 == 0xffffffff {
					return false
				}
				in.Index ^= 0x80000000
				return true
			}},
			pert{fmt.Sprintf("in%d.pegin", i), false, func(t *transaction.Transaction) bool {
				in := t.Inputs[i]
				if in.Index == 0xffffffff || (in.Index == 0x3fffffff && in.Issuance != nil) {
					return false
				}
				in.IsPegin = !in.IsPegin
				return true
			}},
			pert{fmt.Sprintf("in%d.script", i), false, func(t *transaction.Transaction) bool { t.Inputs[i].Script = grow(t.Inputs[i].Script); return true }},
			pert{fmt.Sprintf("in%d.sequence", i), false, func(t *transaction.Transaction) bool { t.Inputs[i].Sequence ^= 0x80000000; return true }},
			pert{fmt.Sprintf("in%d.issuance-presence", i), false, func(t *transaction.Transaction) bool {
				in := t.Inputs[i]
				if in.Index == 0x3fffffff && in.IsPegin {
					return false
				}
				if in.Issuance != nil {
					in.Issuance = nil
				} else {
					in.Issuance = &transaction.TxIssuance{AssetBlindingNonce: make([]byte, 32), AssetEntropy: make([]byte, 32),
						AssetAmount: []byte{1, 0, 0, 0, 0, 0, 0, 0, 1}, TokenAmount: []byte{0}}
				}
				return true
			}},
			pert{fmt.Sprintf("in%d.issuance-nonce", i), false, func(t *transaction.Transaction) bool {
				if t.Inputs[i].Issuance == nil {
					return false
				}
				t.Inputs[i].Issuance.AssetBlindingNonce = flipLast(t.Inputs[i].Issuance.AssetBlindingNonce)
				return true
			}},
			pert{fmt.Sprintf("in%d.issuance-entropy", i), false, func(t *transaction.Transaction) bool {
				if t.Inputs[i].Issuance == nil {
					return false
				}
				t.Inputs[i].Issuance.AssetEntropy = flipLast(t.Inputs[i].Issuance.AssetEntropy)
				return true
			}},
			pert{fmt.Sprintf("in%d.issuance-amount", i), false, func(t *transaction.Transaction) bool {
				if t.Inputs[i].Issuance == nil {
					return false
				}
				t.Inputs[i].Issuance.AssetAmount = altValue(t.Inputs[i].Issuance.AssetAmount)
				return true
			}},
			pert{fmt.Sprintf("in%d.issuance-token", i), false, func(t *transaction.Transaction) bool {
				if t.Inputs[i].Issuance == nil {
					return false
				}
				t.Inputs[i].Issuance.TokenAmount = altValue(t.Inputs[i].Issuance.TokenAmount)
				return true
			}},
			pert{fmt.Sprintf("in%d.witness", i), true, func(t *transaction.Transaction) bool {
				t.Inputs[i].Witness = append(append([][]byte{}, t.Inputs[i].Witness...), []byte{1, 2})
				return true
			}},
			pert{fmt.Sprintf("in%d.witness-item", i), true, func(t *transaction.Transaction) bool {
				if len(t.Inputs[i].Witness) == 0 {
					return false
				}
				w := append([][]byte{}, t.Inputs[i].Witness...)
				w[len(w)-1] = grow(w[len(w)-1])
				t.Inputs[i].Witness = w
				return true
			}},
			pert{fmt.Sprintf("in%d.pegin-witness", i), true, func(t *transaction.Transaction) bool {
				t.Inputs[i].PeginWitness = append(append([][]byte{}, t.Inputs[i].PeginWitness...), []byte{9})
				return true
			}},
			pert{fmt.Sprintf("in%d.issuance-rangeproof", i), true, func(t *transaction.Transaction) bool {
				t.Inputs[i].IssuanceRangeProof = grow(t.Inputs[i].IssuanceRangeProof)
				return true
			}},
			pert{fmt.Sprintf("in%d.inflation-rangeproof", i), true, func(t *transaction.Transaction) bool {
				t.Inputs[i].InflationRangeProof = grow(t.Inputs[i].InflationRangeProof)
				return true
			}},
		)
	}
	for i := range tx.Outputs {
		i := i
		ps = append(ps,
			pert{fmt.Sprintf("out%d.asset", i), false, func(t *transaction.Transaction) bool { t.Outputs[i].Asset = flipLast(t.Outputs[i].Asset); return true }},
			pert{fmt.Sprintf("out%d.value", i), false, func(t *transaction.Transaction) bool { t.Outputs[i].Value = altValue(t.Outputs[i].Value); return true }},
			pert{fmt.Sprintf("out%d.nonce", i), false, func(t *transaction.Transaction) bool { t.Outputs[i].Nonce = altNonce(t.Outputs[i].Nonce); return true }},
			pert{fmt.Sprintf("out%d.script", i), false, func(t *transaction.Transaction) bool { t.Outputs[i].Script = grow(t.Outputs[i].Script); return true }},
			pert{fmt.Sprintf("out%d.rangeproof", i), true, func(t *transaction.Transaction) bool {
				t.Outputs[i].RangeProof = grow(t.Outputs[i].RangeProof)
				return true
			}},
			pert{fmt.Sprintf("out%d.surjectionproof", i), true, func(t *transaction.Transaction) bool {
				t.Outputs[i].SurjectionProof = grow(t.Outputs[i].SurjectionProof)
				return true
			}},
		)
	}
	return ps
}

func classOf(name string) string {
	for i := 0; i < len(name); i++ {
		if name[i] == '.' {
			return name[i+1:]
		}
	}
	return name
}

// C04 on a transaction value: the whole single-field perturbation matrix
func checkC04Tx(t *Toks) string {
	tx := readTx(t)
	if !wfTxHash(tx) {
		return "SKIP not-wf"
	}
	if len(tx.Inputs) > 12 || len(tx.Outputs) > 12 {
		return "SKIP large"
	}
	id := tx.TxHash()
	wid := tx.WitnessHash()
	if !tx.HasWitness() && id != wid {
		return fail("WitnessHash", "differs-from-txid-without-witness")
	}
	n := 0
	for _, p := range txPerts(tx) {
		c := tx.Copy()
		c.Flag = tx.Flag
		// the object is hashed once before it is changed in place: a result remembered inside the object would
		// survive the change ("repeating a call after an edit" is part of "for all transactions")
		if c.TxHash() != id || c.WitnessHash() != wid {
			return fail("TxHash", "copy-hashes-differently")
		}
		if !p.apply(c) {
			continue
		}
		if !wfTxHash(c) {
			continue
		}
		n++
		id2 := c.TxHash()
		wid2 := c.WitnessHash()
		if p.witness {
			if id2 != id {
				return fail("TxHash", "changed-by-witness-field/"+classOf(p.name))
			}
		} else if id2 == id {
			return fail("TxHash", "ignores/"+classOf(p.name))
		}
		if wid2 == wid {
			return fail("WitnessHash", "ignores/"+classOf(p.name))
		}
	}
	return fmt.Sprintf("OK perturbations=%d", n)
}

func init() {
	checks["C04/tx"] = checkC04Tx
}
