package main

import (
	"bytes"
	"fmt"
	"hash/fnv"

	"github.com/btcsuite/btcd/btcec/v2"
	"github.com/btcsuite/btcd/btcec/v2/schnorr"
	"github.com/btcsuite/btcd/txscript"
	"github.com/vulpemventures/go-elements/network"
	"github.com/vulpemventures/go-elements/payment"
	"github.com/vulpemventures/go-elements/psetv2"
	"github.com/vulpemventures/go-elements/taproot"
)

// Implementation-side oracle (S) for C16: the property stated directly on the real code.
// Used to search for a failing input, never as evidence that the property holds.

func init() {
	checks["C16/taptree"] = checkC16Tree
	checks["C16/tapcb"] = checkC16Cb
	checks["C16/taptweak"] = checkC16Tweak
	checks["C16/tapbig"] = checkC16Tree
	checks["C16/tapkeys"] = checkC16Keys
}

func tapVerifies(cbBytes, prog, script []byte) bool {
	cb, err := taproot.ParseControlBlock(cbBytes)
	if err != nil {
		return false
	}
	return taproot.VerifyTaprootLeafCommitment(cb, prog, script) == nil
}

func checkC16Tree(t *Toks) string {
	line := t.line
	key, _, _, ls := tapReadTree(t)
	if len(ls) == 0 {
		return "SKIP no-leaves"
	}
	leaves := tapToLeaves(ls)
	seen := map[[32]byte]bool{}
	for _, l := range leaves {
		h := l.TapHash()
		if seen[h] {
			return "SKIP repeated-leaf"
		}
		seen[h] = true
	}
	tree := taproot.AssembleTaprootScriptTree(leaves...)
	if tree.RootNode == nil {
		return fail("assemble.root", "nil")
	}
	if len(tree.LeafMerkleProofs) != len(ls) {
		return fail("assemble.proofs", "count")
	}
	root := tree.RootNode.TapHash()
	q := taproot.ComputeTaprootOutputKey(key, root[:])
	prog := schnorr.SerializePubKey(q)
	qodd := tapIsOdd(q)

	// the payment built from the tree pays to the same output key
	pay, err := payment.FromTaprootScriptTree(key, tree, &network.Liquid, nil)
	if err != nil {
		return fail("p2tr.script", "error")
	}
	if !bytes.Equal(pay.Script, append([]byte{0x51, 0x20}, prog...)) {
		return fail("p2tr.script", "other-output-key")
	}
	hroot := root
	pay2, err := payment.FromTaprootScriptTreeHash(key, &hroot, &network.Liquid, nil)
	if err != nil || !bytes.Equal(pay2.Script, pay.Script) {
		return fail("p2tr.script", "tree-hash-form-differs")
	}

	// a second key: its program must not be opened by these control blocks
	otherKey := tapRndPriv(NewRng(uint64(len(line)) + 77)).PubKey()
	otherProg := schnorr.SerializePubKey(taproot.ComputeTaprootOutputKey(otherKey, root[:]))

	hsh := fnv.New32a()
	hsh.Write([]byte(line))
	r := NewRng(uint64(hsh.Sum32()))
	n := len(ls)
	deep := map[int]bool{0: true, n - 1: true, n / 2: true, r.Intn(n): true}

	for i := range tree.LeafMerkleProofs {
		pr := &tree.LeafMerkleProofs[i]
		if byte(pr.LeafVersion) != ls[i].ver || !bytes.Equal(pr.Script, ls[i].script) {
			return fail("assemble.leaf_order", fmt.Sprintf("leaf=%d/%d", i, n))
		}
		cb := pr.ToControlBlock(key)
		if cb.OutputKeyYIsOdd != qodd {
			return fail("cb.parity", fmt.Sprintf("leaf=%d/%d", i, n))
		}
		if err := taproot.VerifyTaprootLeafCommitment(&cb, prog, ls[i].script); err != nil {
			return fail("leaf.verify", fmt.Sprintf("leaf=%d/%d", i, n))
		}
		// a block built in memory whose leaf version differs from the committed one in bit 0 only
		forged := cb
		forged.LeafVersion ^= 1
		if taproot.VerifyTaprootLeafCommitment(&forged, prog, ls[i].script) == nil {
			return fail("other.version.lowbit", fmt.Sprintf("v=%02x/leaf=%d/%d", byte(forged.LeafVersion), i, n))
		}
		bs, err := cb.ToBytes()
		if err != nil {
			return fail("cb.tobytes", "error")
		}
		parsed, err := taproot.ParseControlBlock(bs)
		if err != nil {
			return fail("cb.roundtrip", fmt.Sprintf("parse-rejects/leaf=%d/%d", i, n))
		}
		if re, err := parsed.ToBytes(); err != nil || !bytes.Equal(re, bs) {
			return fail("cb.roundtrip", "bytes-differ")
		}
		if ls[i].ver&1 == 1 {
			// an odd leaf version is not representable in control-block bytes (bit 0 of the first
			// byte is the parity flag): the parsed block carries version&0xfe, which is another
			// leaf version and must not prove this leaf. Nothing more is required of it.
			if byte(parsed.LeafVersion) != ls[i].ver&0xfe {
				return fail("odd.version.parse", fmt.Sprintf("leaf=%d/%d", i, n))
			}
			if taproot.VerifyTaprootLeafCommitment(parsed, prog, ls[i].script) == nil {
				return fail("odd.version.roundtrip", fmt.Sprintf("leaf=%d/%d", i, n))
			}
			continue
		}
		if err := taproot.VerifyTaprootLeafCommitment(parsed, prog, ls[i].script); err != nil {
			return fail("cb.roundtrip.verify", fmt.Sprintf("leaf=%d/%d", i, n))
		}
		if !bytes.Equal(parsed.RootHash(ls[i].script), root[:]) {
			return fail("cb.roothash", fmt.Sprintf("leaf=%d/%d", i, n))
		}
		// the same tree used with a second internal key
		if i == 0 || i == n-1 {
			qo := taproot.ComputeTaprootOutputKey(otherKey, root[:])
			cbo := pr.ToControlBlock(otherKey)
			if cbo.OutputKeyYIsOdd != tapIsOdd(qo) {
				return fail("multikey.parity", fmt.Sprintf("leaf=%d/%d", i, n))
			}
			if taproot.VerifyTaprootLeafCommitment(&cbo, otherProg, ls[i].script) != nil {
				return fail("multikey.verify", fmt.Sprintf("leaf=%d/%d", i, n))
			}
		}
		if !deep[i] {
			continue
		}
		// --- everything else must fail ---
		// every byte of the control block corrupted (three masks per position)
		for p := 0; p < len(bs); p++ {
			for _, m := range []byte{0x01, 0x80, byte(1 + r.Intn(255))} {
				mut := append([]byte{}, bs...)
				mut[p] ^= m
				if tapVerifies(mut, prog, ls[i].script) {
					return fail("corrupt.byte", fmt.Sprintf("pos=%d/mask=%02x/len=%d", p, m, len(bs)))
				}
			}
		}
		// a whole proof node replaced
		for k := 0; k < (len(bs)-33)/32; k++ {
			mut := append([]byte{}, bs...)
			copy(mut[33+32*k:], r.Bytes(32))
			if !bytes.Equal(mut, bs) && tapVerifies(mut, prog, ls[i].script) {
				return fail("corrupt.node", fmt.Sprintf("node=%d", k))
			}
		}
		// other scripts
		others := [][]byte{append(append([]byte{}, ls[i].script...), 0x00), nil}
		if len(ls[i].script) > 0 {
			m := append([]byte{}, ls[i].script...)
			m[r.Intn(len(m))] ^= byte(1 + r.Intn(255))
			others = append(others, m, ls[i].script[:len(ls[i].script)-1])
		}
		for j := range ls {
			if j != i && (j < 3 || j == n-1) {
				others = append(others, ls[j].script)
			}
		}
		for _, s := range others {
			if bytes.Equal(s, ls[i].script) {
				continue
			}
			if taproot.VerifyTaprootLeafCommitment(&cb, prog, s) == nil {
				return fail("other.script", fmt.Sprintf("leaf=%d/%d", i, n))
			}
		}
		// other leaf versions
		for _, v := range []byte{0xc0, 0xc4, 0xc2, 0x00, 0xfe, ls[i].ver ^ 0x02} {
			if v == ls[i].ver {
				continue
			}
			c2 := cb
			c2.LeafVersion = txscript.TapscriptLeafVersion(v)
			if taproot.VerifyTaprootLeafCommitment(&c2, prog, ls[i].script) == nil {
				return fail("other.version", fmt.Sprintf("v=%02x", v))
			}
		}
		// wrong parity
		c3 := cb
		c3.OutputKeyYIsOdd = !cb.OutputKeyYIsOdd
		if taproot.VerifyTaprootLeafCommitment(&c3, prog, ls[i].script) == nil {
			return fail("wrong.parity", fmt.Sprintf("leaf=%d/%d", i, n))
		}
		// other output keys
		p2 := append([]byte{}, prog...)
		p2[r.Intn(32)] ^= byte(1 + r.Intn(255))
		for _, pp := range [][]byte{p2, otherProg, schnorr.SerializePubKey(key), prog[:31], nil} {
			if taproot.VerifyTaprootLeafCommitment(&cb, pp, ls[i].script) == nil {
				return fail("other.outputkey", fmt.Sprintf("leaf=%d/%d", i, n))
			}
		}
		// output-key arguments of another length (a taproot output key is exactly 32 bytes):
		// the same integer zero-padded or without its leading zero bytes, a zero suffix,
		// unrelated 31 and 33 bytes, empty
		lens := [][]byte{append([]byte{0}, prog...), append(make([]byte, 8), prog...),
			append(append([]byte{}, prog...), 0), r.Bytes(31), r.Bytes(33), {}}
		if tr := bytes.TrimLeft(prog, "\x00"); len(tr) != 32 {
			lens = append(lens, tr)
		}
		for _, pp := range lens {
			if taproot.VerifyTaprootLeafCommitment(&cb, pp, ls[i].script) == nil {
				return fail("other.outputkey.length", fmt.Sprintf("len=%d/leaf=%d/%d", len(pp), i, n))
			}
			if bsl, err := cb.ToBytes(); err == nil && tapVerifies(bsl, pp, ls[i].script) {
				return fail("other.outputkey.length", fmt.Sprintf("roundtrip/len=%d/leaf=%d/%d", len(pp), i, n))
			}
		}
		// other internal key in the block
		c4 := cb
		c4.InternalKey = otherKey
		if taproot.VerifyTaprootLeafCommitment(&c4, prog, ls[i].script) == nil {
			return fail("other.internalkey", fmt.Sprintf("leaf=%d/%d", i, n))
		}
		// through a PSET: the input's tap leaf script survives the packet's byte round trip
		if len(ls[i].script) > 0 {
			tls := psetv2.NewTapLeafScript(*pr, key)
			_, _, back, err := tapLeafKV(tls)
			if err != nil {
				return fail("pset.tapleaf", "roundtrip-error")
			}
			if len(back.Inputs) != 1 || len(back.Inputs[0].TapLeafScript) != 1 {
				return fail("pset.tapleaf", "lost")
			}
			g := back.Inputs[0].TapLeafScript[0]
			if byte(g.LeafVersion) != ls[i].ver || !bytes.Equal(g.Script, ls[i].script) {
				return fail("pset.tapleaf", "leaf-differs")
			}
			if taproot.VerifyTaprootLeafCommitment(&g.ControlBlock, prog, g.Script) != nil {
				return fail("pset.tapleaf", "no-longer-verifies")
			}
		}
	}
	return "OK"
}

// accepted control-block bytes re-serialize to themselves and RootHash is defined on them
func checkC16Cb(t *Toks) string {
	bs, script, prog := t.Hex(), t.Hex(), t.Hex()
	cb, err := taproot.ParseControlBlock(bs)
	if err != nil {
		return "OK rejected"
	}
	re, err := cb.ToBytes()
	if err != nil || !bytes.Equal(re, bs) {
		return fail("cb.reserialize", "bytes-differ")
	}
	root := cb.RootHash(script)
	// the verdict is exactly "program = x(output key of (key, root)) and parity matches"
	q := taproot.ComputeTaprootOutputKey(cb.InternalKey, root)
	want := bytes.Equal(schnorr.SerializePubKey(q), prog) && cb.OutputKeyYIsOdd == tapIsOdd(q)
	depth := len(cb.InclusionProof) / 32
	if got := taproot.VerifyTaprootLeafCommitment(cb, prog, script) == nil; got != want {
		return fail("cb.verdict", fmt.Sprintf("got=%v/want=%v/depth=%d", got, want, depth))
	}
	// the same block assembled in memory (not through ParseControlBlock)
	mem := taproot.ControlBlock{ControlBlock: txscript.ControlBlock{
		InternalKey:     cb.InternalKey,
		OutputKeyYIsOdd: cb.OutputKeyYIsOdd,
		LeafVersion:     cb.LeafVersion,
		InclusionProof:  append([]byte{}, cb.InclusionProof...),
	}}
	if got := taproot.VerifyTaprootLeafCommitment(&mem, prog, script) == nil; got != want {
		return fail("cb.verdict.inmemory", fmt.Sprintf("got=%v/want=%v/depth=%d", got, want, depth))
	}
	return "OK"
}

func checkC16Tweak(t *Toks) string {
	d, root := t.Hex(), t.Hex()
	priv, _ := btcec.PrivKeyFromBytes(d)
	if priv.Key.IsZero() {
		return "SKIP zero-key"
	}
	before := priv.Serialize()
	pub := priv.PubKey()
	want := taproot.ComputeTaprootOutputKey(pub, root)
	tw := taproot.TweakTaprootPrivKey(priv, root)
	if !tw.PubKey().IsEqual(want) {
		return fail("tweak.matches", fmt.Sprintf("odd=%v/rootlen=%d", tapIsOdd(pub), len(root)))
	}
	if len(root) == 0 {
		if !tw.PubKey().IsEqual(taproot.ComputeTaprootKeyNoScript(pub)) {
			return fail("tweak.noscript", "differs")
		}
	}
	// the x-only form of the tweaked key is what a key-path spend signs for
	if !bytes.Equal(schnorr.SerializePubKey(tw.PubKey()), schnorr.SerializePubKey(want)) {
		return fail("tweak.matches", "xonly")
	}
	// the caller's key must be exactly what it was
	after := priv.Serialize()
	if !bytes.Equal(after, before) {
		how := "changed-other"
		if bytes.Equal(after, tw.Serialize()) {
			how = "overwritten-by-tweaked-key"
		}
		return fail("tweak.caller_key", fmt.Sprintf("%s/odd=%v", how, tapIsOdd(pub)))
	}
	return "OK"
}

// one assembled tree, several internal keys, in the order of the case: every control block
// proves its leaf against the output key of (that key, root) with that key's parity bit
func checkC16Keys(t *Toks) string {
	ls, ks, ops := tapReadKeys(t)
	leaves := tapToLeaves(ls)
	tree := taproot.AssembleTaprootScriptTree(leaves...)
	root := tree.RootNode.TapHash()
	for x, o := range ops {
		k, li := ks[o[0]], o[1]
		q := taproot.ComputeTaprootOutputKey(k.key, root[:])
		prog := schnorr.SerializePubKey(q)
		at := fmt.Sprintf("op=%d/key=%d/leaf=%d/keys=%d", x, o[0], li, len(ks))
		var cb taproot.ControlBlock
		if x%3 == 2 && len(ls[li].script) > 0 {
			cb = psetv2.NewTapLeafScript(tree.LeafMerkleProofs[li], k.key).ControlBlock // copied proof
		} else {
			cb = tree.LeafMerkleProofs[li].ToControlBlock(k.key)
		}
		if cb.OutputKeyYIsOdd != tapIsOdd(q) {
			return fail("multikey.parity", at)
		}
		if taproot.VerifyTaprootLeafCommitment(&cb, prog, ls[li].script) != nil {
			return fail("multikey.verify", at)
		}
		bs, err := cb.ToBytes()
		if err != nil {
			return fail("cb.tobytes", "error")
		}
		if !tapVerifies(bs, prog, ls[li].script) {
			return fail("multikey.roundtrip.verify", at)
		}
		fl := append([]byte{}, bs...)
		fl[0] ^= 1
		if tapVerifies(fl, prog, ls[li].script) {
			return fail("multikey.wrong.parity", at)
		}
		// the block made for this key does not open another key's output
		for j := range ks {
			if j != o[0] && !ks[j].key.IsEqual(k.key) {
				pj := schnorr.SerializePubKey(taproot.ComputeTaprootOutputKey(ks[j].key, root[:]))
				if !bytes.Equal(pj, prog) && tapVerifies(bs, pj, ls[li].script) {
					return fail("multikey.other.outputkey", at)
				}
			}
		}
	}
	return "OK"
}
