package main

// C11 — implementation-side oracle (S) for family "hist": the property stated directly on
// the real psetv2 packet after the creator and after every role operation.
//
// sites: <operation>.<clause> for the creator ("new"), the multi-part operations and the finalizers;
// the single-field updater methods share the site prefix "setter" and name the method in the detail.
// clauses:
//   counts    Global.InputCount/OutputCount equal len(Inputs)/len(Outputs)
//   dup       no two inputs spend the same outpoint
//   modin     no input added while the inputs-modifiable flag was clear (modout: outputs)
//   locktime  Locktime() is the largest required locktime of the kind BIP-370 selects, else the fallback
//   signedlock AddInputs does not move Locktime() of a packet that carries partial signatures
//   reparse   ToBase64 -> NewPsetFromBase64 -> ToBase64 gives the same string and the packet read back is the packet written
//   atomic    a multi-part operation that returned an error left ToBase64 unchanged
//   frozen    a multi-part operation did not alter an input that was already finalized
//
// State clauses (counts, dup, locktime, reparse) are reported at the step that breaks them
// (they held before it). When a history shows several failures the first one that is not a
// recorded known finding is reported, so a recorded defect never hides a new one.

import (
	"bufio"
	"bytes"
	"fmt"
	"os"
	"sort"
	"strings"

	"github.com/vulpemventures/go-elements/psetv2"
)

type c11Known struct{ site, detail string }

var c11KnownList []c11Known
var c11KnownLoaded bool

func c11LoadKnown() {
	if c11KnownLoaded {
		return
	}
	c11KnownLoaded = true
	f, err := os.Open("/verif/known_findings.txt")
	if err != nil {
		return
	}
	defer f.Close()
	sc := bufio.NewScanner(f)
	sc.Buffer(make([]byte, 1<<16), 1<<22)
	for sc.Scan() {
		line := strings.TrimSpace(sc.Text())
		if !strings.HasPrefix(line, "known:") {
			continue
		}
		kv := map[string]string{}
		for _, tok := range strings.Fields(line)[1:] {
			if i := strings.Index(tok, "="); i > 0 {
				if _, seen := kv[tok[:i]]; !seen {
					kv[tok[:i]] = tok[i+1:]
				}
			}
		}
		if kv["property"] == "C11" {
			c11KnownList = append(c11KnownList, c11Known{kv["site"], kv["detail"]})
		}
	}
}

func c11IsKnown(site, detail string) bool {
	for _, k := range c11KnownList {
		if k.site == site && strings.HasPrefix(detail, k.detail) {
			return true
		}
	}
	return false
}

func sanitize(s string) string {
	s = strings.Map(func(r rune) rune {
		if r == ' ' || r == '\t' || r == '\n' || r == '=' {
			return '_'
		}
		return r
	}, s)
	if len(s) > 90 {
		s = s[:90]
	}
	return s
}

// specLocktime: BIP-370 — time if some input supports only a time lock, else height if some
// input has a height lock, else the fallback (0 when absent)
func specLocktime(p *psetv2.Pset) uint32 {
	timeOnly, anyHeight := false, false
	var mt, mh uint32
	for _, in := range p.Inputs {
		if in.RequiredTimeLocktime != 0 && in.RequiredHeightLocktime == 0 {
			timeOnly = true
		}
		if in.RequiredHeightLocktime != 0 {
			anyHeight = true
		}
		if in.RequiredTimeLocktime > mt {
			mt = in.RequiredTimeLocktime
		}
		if in.RequiredHeightLocktime > mh {
			mh = in.RequiredHeightLocktime
		}
	}
	if timeOnly {
		return mt
	}
	if anyHeight {
		return mh
	}
	if p.Global.FallbackLocktime != nil {
		return *p.Global.FallbackLocktime
	}
	return 0
}

func hasDupOutpoint(p *psetv2.Pset) bool {
	for i := range p.Inputs {
		for j := i + 1; j < len(p.Inputs); j++ {
			if bytes.Equal(p.Inputs[i].PreviousTxid, p.Inputs[j].PreviousTxid) && p.Inputs[i].PreviousTxIndex == p.Inputs[j].PreviousTxIndex {
				return true
			}
		}
	}
	return false
}

// serialization of one input on its own (through the exported packet serializer)
func soloInput(in psetv2.Input) string {
	q := &psetv2.Pset{Global: psetv2.Global{Version: 2, TxVersion: 2, InputCount: 1}, Inputs: []psetv2.Input{in}}
	s, err := q.ToBase64()
	if err != nil {
		return "sererr:" + err.Error()
	}
	return s
}

var inFieldNames = []string{"outpoint", "seq", "time", "height", "nw", "w", "psigs", "sighash", "redeem", "wscript", "bip32", "final", "iss", "urp", "explicit", "tapkeysig", "tapscriptsig", "tapleaf", "tapbip32", "tapik", "tapmr"}
var outFieldNames = []string{"value", "asset", "script", "bk", "bidx", "blind", "redeem", "wscript", "bip32"}

// diffDetail names what differs between two projections: structural categories first
func diffDetail(before, after string) string {
	pa, pb := strings.Split(before, "|"), strings.Split(after, "|")
	if len(pa) != 4 || len(pb) != 4 {
		return "unparsed"
	}
	cats := map[string]bool{}
	ga, gb := strings.Split(pa[0], "."), strings.Split(pb[0], ".")
	names := []string{"nin", "nout", "flags", "fallback", "scalars", "locktime"}
	for i := range names {
		if i < len(ga) && i < len(gb) && ga[i] != gb[i] && names[i] != "locktime" {
			cats["a."+names[i]] = true
		}
	}
	split := func(s string) []string {
		if s == "" {
			return nil
		}
		return strings.Split(s, ";")
	}
	ia, ib := split(pa[1]), split(pb[1])
	if len(ia) != len(ib) {
		cats["a.ins"] = true
	}
	for k := 0; k < len(ia) && k < len(ib); k++ {
		fa, fb := strings.Split(ia[k], ","), strings.Split(ib[k], ",")
		for j := range fa {
			if j < len(fb) && fa[j] != fb[j] && j < len(inFieldNames) {
				cats["in."+inFieldNames[j]] = true
			}
		}
	}
	oa, ob := split(pa[2]), split(pb[2])
	if len(oa) != len(ob) {
		cats["a.outs"] = true
	}
	for k := 0; k < len(oa) && k < len(ob); k++ {
		fa, fb := strings.Split(oa[k], ","), strings.Split(ob[k], ",")
		for j := range fa {
			if j < len(fb) && fa[j] != fb[j] && j < len(outFieldNames) {
				cats["out."+outFieldNames[j]] = true
			}
		}
	}
	var l []string
	for c := range cats {
		l = append(l, c)
	}
	sort.Strings(l)
	if len(l) == 0 {
		return "bytes-only"
	}
	return strings.Join(l, "+")
}

var setterOps = map[string]bool{"setmod": true, "nwutxo": true, "wutxo": true, "redeem": true, "wscript": true, "bip32": true,
	"sighash": true, "utxorp": true, "expasset": true, "expvalue": true, "tapik": true, "tapmr": true, "tapleaf": true,
	"tapbip32": true, "obip32": true, "oredeem": true, "owscript": true}

func siteOf(op string) string {
	if setterOps[op] {
		return "setter"
	}
	return op
}

type stateFlags struct{ counts, dup, locktime, reparse bool } // true = clause holds

func stateClauses(p *psetv2.Pset) (stateFlags, string) {
	var f stateFlags
	f.counts = p.Global.InputCount == uint64(len(p.Inputs)) && p.Global.OutputCount == uint64(len(p.Outputs))
	f.dup = !hasDupOutpoint(p)
	f.locktime = p.Locktime() == specLocktime(p)
	rt, msg := roundTrip(p)
	f.reparse = rt == "same"
	return f, rt + ":" + sanitize(msg)
}

func checkHist(t *Toks) string {
	c11LoadKnown()
	v := vocab()
	type failure struct{ site, detail string }
	var fails []failure
	add := func(site, detail string) { fails = append(fails, failure{site, detail}) }
	var prev stateFlags
	pre := func(p *psetv2.Pset) *snapshot {
		s := &snapshot{nin: len(p.Inputs), nout: len(p.Outputs), inMod: p.InputsModifiable(), outMod: p.OutputsModifiable(), finalized: map[int]string{}}
		s.b64, _ = p.ToBase64()
		s.proj = v.projPset(p)
		s.locktime = p.Locktime()
		for i := range p.Inputs {
			if len(p.Inputs[i].PartialSigs) > 0 {
				s.hasPsigs = true
			}
		}
		for i := range p.Inputs {
			if len(p.Inputs[i].FinalScriptSig) > 0 || len(p.Inputs[i].FinalScriptWitness) > 0 {
				s.finalized[i] = soloInput(p.Inputs[i])
			}
		}
		return s
	}
	steps := 0
	res := execHist(t, pre, func(k int, opName, outcome string, before *snapshot, p *psetv2.Pset) {
		steps++
		op := siteOf(opName)
		add := func(site, detail string) {
			if op == "setter" && !strings.HasSuffix(site, ".reparse") {
				detail = opName + ":" + detail
			}
			add(site, detail)
		}
		cur, rtDetail := stateClauses(p)
		first := k == 0
		if !cur.counts && (first || prev.counts) {
			add(op+".counts", fmt.Sprintf("declared_%d/%d_actual_%d/%d", p.Global.InputCount, p.Global.OutputCount, len(p.Inputs), len(p.Outputs)))
		}
		if !cur.dup && (first || prev.dup) {
			add(op+".dup", "same-outpoint-twice")
		}
		if !cur.locktime && (first || prev.locktime) {
			shape := "unexpected"
			to, ah := false, false
			for _, in := range p.Inputs {
				to = to || (in.RequiredTimeLocktime != 0 && in.RequiredHeightLocktime == 0)
				ah = ah || in.RequiredHeightLocktime != 0
			}
			if to && ah && p.Locktime() < 500000000 {
				shape = "height-returned-with-time-only-input"
			}
			add(op+".locktime", fmt.Sprintf("%s:got_%d_want_%d", shape, p.Locktime(), specLocktime(p)))
		}
		if !cur.reparse && (first || prev.reparse) {
			// outcome of the operation, operation, then what the parser said
			dn := opName
			switch opName { // the three derivation setters share a detail prefix
			case "bip32":
				dn = "bip32.in"
			case "obip32":
				dn = "bip32.out"
			case "tapbip32":
				dn = "bip32.tap"
			}
			add(op+".reparse", outcome+":"+dn+":"+rtDetail)
		}
		prev = cur
		if before == nil {
			return
		}
		if !before.inMod && len(p.Inputs) > before.nin {
			add(op+".modin", "input-added-while-locked")
		}
		// the partial signatures of the packet commit to its locktime: AddInputs must not move it under them
		if opName == "addins" && before.hasPsigs && p.Locktime() != before.locktime {
			add(op+".signedlock", fmt.Sprintf("locktime_%d_to_%d_under_partial_signatures", before.locktime, p.Locktime()))
		}
		if !before.outMod && len(p.Outputs) > before.nout {
			add(op+".modout", "output-added-while-locked")
		}
		if multiPart[opName] {
			if outcome == "err" {
				after, _ := p.ToBase64()
				if after != before.b64 {
					add(op+".atomic", diffDetail(before.proj, v.projPset(p)))
				}
			}
			var idxs []int
			for i := range before.finalized {
				idxs = append(idxs, i)
			}
			sort.Ints(idxs)
			for _, i := range idxs {
				if i >= len(p.Inputs) || soloInput(p.Inputs[i]) != before.finalized[i] {
					d := "input-removed"
					if i < len(p.Inputs) {
						// what changed in that input
						bi := strings.Split(strings.Split(before.proj, "|")[1], ";")[i]
						d = diffDetail("g|"+bi+"||", "g|"+v.projInput(&p.Inputs[i])+"||")
					}
					add(op+".frozen", d)
					break
				}
			}
		}
	})
	if res != "ok" {
		return "SKIP creator-" + res
	}
	if len(fails) == 0 {
		return fmt.Sprintf("OK steps=%d", steps)
	}
	pick := fails[0]
	for _, f := range fails {
		if !c11IsKnown(f.site, f.detail) {
			pick = f
			break
		}
	}
	return fail(pick.site, pick.detail)
}

func init() {
	checks["C11/hist"] = checkHist
}
