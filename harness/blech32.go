package main

import (
	"bufio"
	"fmt"
	"strconv"
	"strings"

	"github.com/vulpemventures/go-elements/blech32"
)

// blech32 family: case lines
//
//	b32dec  <string hex>                      Decode + DecodeGeneric
//	b32sub2 <string hex> <k> <m>              same observable; S runs the exhaustive 2-position substitution
//	                                          over the position pairs (p,q), p<q, with p mod m = k
//	b32enc  <hrp hex> <data hex> <enc hex>    Encode
//	b32cb   <data hex> <from> <to> <pad>      ConvertBits

const b32charset = "qpzry9x8gf2tvdw0s3jn54khce6mua7l"

var b32hrps = []string{"lq", "tlq", "el"}

type b32dec struct {
	class     string // ok | err | panic
	hrp       string
	data, chk []byte
}

func b32Decode(s string) (r b32dec) {
	defer func() {
		if e := recover(); e != nil {
			r = b32dec{class: "panic"}
		}
	}()
	hrp, data, err := blech32.Decode(s)
	if err != nil {
		return b32dec{class: "err"}
	}
	return b32dec{class: "ok", hrp: hrp, data: data}
}

func b32DecodeGeneric(s string) (r b32dec) {
	defer func() {
		if e := recover(); e != nil {
			r = b32dec{class: "panic"}
		}
	}()
	hrp, data, chk, err := blech32.DecodeGeneric(s)
	if err != nil {
		return b32dec{class: "err"}
	}
	return b32dec{class: "ok", hrp: hrp, data: data, chk: chk}
}

func b32Encode(hrp string, data []byte, enc blech32.EncodingType) (s string, ok bool) {
	defer func() {
		if e := recover(); e != nil {
			s, ok = "", false
		}
	}()
	// Encode appends to its argument: hand it a private copy with no spare capacity
	d := make([]byte, len(data))
	copy(d, data)
	out, err := blech32.Encode(hrp, d, enc)
	if err != nil {
		return "", false
	}
	return out, true
}

func runB32Dec(t *Toks) string {
	s := string(t.Hex())
	g := b32DecodeGeneric(s)
	d := b32Decode(s)
	var b strings.Builder
	fmt.Fprintf(&b, "gen=%s", g.class)
	if g.class == "ok" {
		fmt.Fprintf(&b, " ghrp=%s gdata=%s gchk=%s", hx([]byte(g.hrp)), hx(g.data), hx(g.chk))
	}
	fmt.Fprintf(&b, " dec=%s", d.class)
	if d.class == "ok" {
		fmt.Fprintf(&b, " hrp=%s data=%s", hx([]byte(d.hrp)), hx(d.data))
	}
	return b.String()
}

func runB32Enc(t *Toks) string {
	hrp := string(t.Hex())
	data := t.Hex()
	enc, err := strconv.ParseUint(t.Next(), 16, 63)
	if err != nil {
		panic(err)
	}
	s, ok := b32Encode(hrp, data, blech32.EncodingType(int64(enc)))
	if !ok {
		return "res=err"
	}
	return "res=ok s=" + hx([]byte(s))
}

func runB32Cb(t *Toks) string {
	data := t.Hex()
	from, to, pad := t.Int(), t.Int(), t.Int() == 1
	out, err := blech32.ConvertBits(data, uint8(from), uint8(to), pad)
	if err != nil {
		return "res=err"
	}
	return "res=ok out=" + hx(out)
}

// ---------- generators ----------

// a valid address string built with the implementation's own Encode/ConvertBits
func genB32Valid(r *Rng, standard bool) (string, bool) {
	hrp := b32hrps[r.Intn(3)]
	ver := byte(r.Intn(2))
	plen := 32
	if ver == 0 && r.Bool() {
		plen = 20
	}
	if !standard {
		switch r.Intn(4) {
		case 0:
			hrp = string([]byte{"abcxyz09"[r.Intn(8)]})
		case 1:
			hrp = "ex"
		case 2:
			n := 1 + r.Intn(10)
			h := make([]byte, n)
			for i := range h {
				h[i] = byte(33 + r.Intn(94))
				if h[i] >= 'A' && h[i] <= 'Z' {
					h[i] += 32
				}
			}
			hrp = string(h)
		}
		if r.Chance(50) {
			plen = r.Intn(80)
		}
	}
	payload := r.Bytes(33 + plen)
	conv, err := blech32.ConvertBits(payload, 8, 5, true)
	if err != nil {
		return "", false
	}
	data := append([]byte{ver}, conv...)
	enc := blech32.BLECH32
	if ver == 1 {
		enc = blech32.BLECH32M
	}
	return b32Encode(hrp, data, enc)
}

func b32OtherChar(r *Rng, c byte) byte {
	for {
		x := b32charset[r.Intn(32)]
		if x != c {
			return x
		}
	}
}

func genB32Dec(r *Rng, n int, w *bufio.Writer) {
	for i := 0; i < n; i++ {
		s, ok := genB32Valid(r, r.Chance(75))
		if !ok {
			s = "lq1" + strings.Repeat("q", 20)
		}
		b := []byte(s)
		one := strings.LastIndexByte(s, '1')
		switch k := r.Intn(100); {
		case k < 40: // valid as is
		case k < 52: // one substitution in the data part
			p := one + 1 + r.Intn(len(b)-one-1)
			b[p] = b32OtherChar(r, b[p])
		case k < 62: // two substitutions
			for j := 0; j < 2; j++ {
				p := one + 1 + r.Intn(len(b)-one-1)
				b[p] = b32OtherChar(r, b[p])
			}
		case k < 70: // upper-case spelling
			b = []byte(strings.ToUpper(s))
		case k < 76: // mixed case
			b = []byte(strings.ToUpper(s))
			p := r.Intn(len(b))
			b[p] = s[p]
			if r.Bool() {
				q := r.Intn(len(b))
				b[q] = s[q]
			}
		case k < 82: // checksum of the other constant / a random constant
			hrp, data, err := blech32.Decode(s)
			if err == nil && len(data) > 0 {
				enc := blech32.BLECH32M
				if data[0] == 1 {
					enc = blech32.BLECH32
				}
				if r.Chance(25) {
					enc = blech32.EncodingType(int64(r.U64() >> 4))
				}
				if x, ok := b32Encode(hrp, data, enc); ok {
					b = []byte(x)
				}
			}
		case k < 86: // substitution in the human-readable part or the separator
			p := r.Intn(one + 1)
			b[p] = b32OtherChar(r, b[p])
		case k < 90: // version symbol replaced (2..31)
			b[one+1] = b32charset[2+r.Intn(30)]
		case k < 94: // truncated / extended
			if r.Bool() {
				b = b[:r.Intn(len(b))]
			} else {
				for j := r.Intn(4); j >= 0; j-- {
					b = append(b, b32charset[r.Intn(32)])
				}
			}
		case k < 97: // a character outside the alphabet in the data part
			p := one + 1 + r.Intn(len(b)-one-1)
			b[p] = "1bio!~ B"[r.Intn(8)]
		default: // swap two characters
			p, q := r.Intn(len(b)), r.Intn(len(b))
			b[p], b[q] = b[q], b[p]
		}
		fmt.Fprintf(w, "b32dec %s\n", hx(b))
	}
}

// n case lines = n/16 addresses, each split in 16 slices of position pairs
func genB32Sub2(r *Rng, n int, w *bufio.Writer) {
	// thorough tier: every pair of positions (16 slices per address); quick tier (n <= 16): the 16 slices
	// p mod 32 in 0..15 of one address, i.e. half of the first positions p, each with every second position q > p
	m := 16
	per := 16
	if n <= 16 {
		m = 32
	}
	for i := 0; i < n; i += per {
		s, ok := genB32Valid(r, true)
		if !ok {
			continue
		}
		for k := 0; k < per && i+k < n; k++ {
			fmt.Fprintf(w, "b32sub2 %s %d %d\n", hx([]byte(s)), k, m)
		}
	}
}

// malformed strings: boundary lengths, separator positions, bad characters
func genB32Bad(r *Rng, n int, w *bufio.Writer) {
	rc := func(k int) []byte {
		b := make([]byte, k)
		for i := range b {
			b[i] = b32charset[r.Intn(32)]
		}
		return b
	}
	for i := 0; i < n; i++ {
		var b []byte
		switch r.Intn(12) {
		case 0: // shortest strings around the data[0] index: hrp + "1" + 12 symbols
			h := rc(1 + r.Intn(3))
			b = append(append(h, '1'), rc(10+r.Intn(5))...)
		case 1: // very short
			b = rc(r.Intn(9))
			if len(b) > 0 && r.Bool() {
				b[r.Intn(len(b))] = '1'
			}
		case 2: // no separator
			b = rc(8 + r.Intn(120))
		case 3: // separator first
			b = append([]byte{'1'}, rc(12+r.Intn(100))...)
		case 4: // separator among the last 12
			b = rc(20 + r.Intn(100))
			b[len(b)-1-r.Intn(12)] = '1'
			b[1] = '1'
		case 5: // several separators
			b = rc(30 + r.Intn(100))
			for j := 0; j < 3; j++ {
				b[r.Intn(len(b)-13)] = '1'
			}
		case 6: // characters outside 33..126
			b = append([]byte("lq1"), rc(20+r.Intn(100))...)
			b[r.Intn(len(b))] = []byte{0, 32, 127, 128, 255, 10}[r.Intn(6)]
		case 7: // around the 1000 character limit
			k := 997 + r.Intn(6)
			b = append([]byte("lq1"), rc(k-3)...)
		case 8: // upper-case hrp, digits only in the data part (single-case by accident)
			b = []byte("LQ1")
			for j := 12 + r.Intn(20); j > 0; j-- {
				b = append(b, "023456789"[r.Intn(9)])
			}
		case 9: // random printable
			b = make([]byte, 8+r.Intn(60))
			for j := range b {
				b[j] = byte(33 + r.Intn(94))
			}
			if r.Bool() {
				b = []byte(strings.ToLower(string(b)))
			}
		case 10: // version symbol only: hrp + "1" + 13 symbols, random checksum
			b = append([]byte("el1"), rc(13)...)
			if r.Bool() {
				b[3] = "qp"[r.Intn(2)]
			}
		default: // empty and tiny
			b = []byte([]string{"", "1", "a1", "lq1", "lq1q"}[r.Intn(5)])
		}
		fmt.Fprintf(w, "b32dec %s\n", hx(b))
	}
}

func genB32Enc(r *Rng, n int, w *bufio.Writer) {
	for i := 0; i < n; i++ {
		var hrp []byte
		switch r.Intn(6) {
		case 0:
			hrp = nil
		case 1:
			hrp = r.Bytes(1 + r.Intn(6)) // any bytes, incl. >= 128 and upper case
		default:
			hrp = []byte(b32hrps[r.Intn(3)])
		}
		k := r.Pick(0, 1, 12, 13, 86, 105, r.Intn(130))
		data := make([]byte, k)
		for j := range data {
			data[j] = byte(r.Intn(32))
		}
		if k > 0 && r.Chance(15) {
			data[r.Intn(k)] = byte(32 + r.Intn(224)) // not a 5-bit value: Encode must fail
		}
		var enc uint64
		switch r.Intn(4) {
		case 0:
			enc = uint64(blech32.BLECH32)
		case 1:
			enc = uint64(blech32.BLECH32M)
		case 2:
			enc = r.U64() >> 1 // any non-negative int64
		default:
			enc = r.U64() >> 4
		}
		fmt.Fprintf(w, "b32enc %s %s %x\n", hx(hrp), hx(data), enc)
	}
}

func genB32Cb(r *Rng, n int, w *bufio.Writer) {
	for i := 0; i < n; i++ {
		from, to := 8, 5
		switch r.Intn(5) {
		case 0:
			from, to = 5, 8
		case 1:
			from, to = r.Intn(10), r.Intn(10)
		case 2:
			from, to = 1+r.Intn(8), 1+r.Intn(8)
		}
		k := r.Pick(0, 1, 2, 5, 8, 53, 65, 85, 104, r.Intn(120))
		data := r.Bytes(k)
		if from < 8 && r.Chance(70) {
			for j := range data {
				data[j] &= byte(1<<uint(from)) - 1
			}
		}
		if from == 5 && to == 8 && r.Chance(50) && k > 0 {
			// a regrouping that came from whole bytes: the padding bits are zero
			src := r.Bytes(k)
			if conv, err := blech32.ConvertBits(src, 8, 5, true); err == nil {
				data = conv
				// ... possibly followed by extra all-zero groups (5..7 left-over zero bits must be refused)
				for j := r.Intn(3); j > 0; j-- {
					data = append(data, 0)
				}
			}
		}
		pad := 0
		if r.Bool() {
			pad = 1
		}
		fmt.Fprintf(w, "b32cb %s %d %d %d\n", hx(data), from, to, pad)
	}
}

func init() {
	gens["b32dec"] = genB32Dec
	gens["b32bad"] = genB32Bad
	gens["b32sub2"] = genB32Sub2
	gens["b32enc"] = genB32Enc
	gens["b32cb"] = genB32Cb
	runs["b32dec"] = runB32Dec
	runs["b32sub2"] = runB32Dec
	runs["b32enc"] = runB32Enc
	runs["b32cb"] = runB32Cb
}
