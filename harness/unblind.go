package main

// C06 — unblinding returns exactly what was blinded, and only to the right key.
//
// Families
//   ubl  : one output blinded with the library's public functions (AssetCommitment,
//          ValueCommitment, NonceHash, RangeProof), then optionally altered, then unblinded
//          with UnblindOutputWithKey / UnblindOutputWithNonce.
//   uiss : one issuance (asset amount, optional token amount) blinded the way BlindIssuances
//          does it, then optionally altered, then UnblindIssuance.
//
// The case line carries, after the inputs, the recorded input/output of the abstract
// primitives (ECDH, generators, Pedersen commitment, range-proof signing) for the calls the
// wrappers are expected to make.  The generator computes them by calling go-secp256k1-zkp
// directly (never through /repo).  The Go side of K ignores that table; the model side has
// nothing else to evaluate the primitives with.

import (
	"bufio"
	"bytes"
	"crypto/sha256"
	"encoding/hex"
	"fmt"
	"strconv"

	"github.com/btcsuite/btcd/btcec/v2"
	"github.com/vulpemventures/go-elements/confidential"
	"github.com/vulpemventures/go-elements/transaction"
	secp256k1 "github.com/vulpemventures/go-secp256k1-zkp"
)

// ---------- direct primitive calls (the ubOracle) ----------

var ubZkpCtx *secp256k1.Context

func ubZctx() *secp256k1.Context {
	if ubZkpCtx == nil {
		ubZkpCtx, _ = secp256k1.ContextCreate(secp256k1.ContextBoth)
	}
	return ubZkpCtx
}

func ubPrimEcdh(pub, priv []byte) []byte {
	if len(pub) == 0 || len(priv) != 32 {
		return nil
	}
	_, pk, err := secp256k1.EcPubkeyParse(ubZctx(), pub)
	if err != nil {
		return nil
	}
	_, s, err := secp256k1.Ecdh(ubZctx(), pk, priv)
	if err != nil {
		return nil
	}
	return s
}

func ubPrimGenBlinded(seed, blind []byte) []byte {
	if len(seed) != 32 || len(blind) != 32 {
		return nil
	}
	g, err := secp256k1.GeneratorGenerateBlinded(ubZctx(), seed, blind)
	if err != nil {
		return nil
	}
	b := g.Bytes()
	return b[:]
}

func ubPrimGenGenerate(seed []byte) []byte {
	if len(seed) != 32 {
		return nil
	}
	g, err := secp256k1.GeneratorGenerate(ubZctx(), seed)
	if err != nil {
		return nil
	}
	b := g.Bytes()
	return b[:]
}

func ubPrimCommit(blind []byte, value uint64, gen []byte) []byte {
	if len(blind) != 32 || len(gen) != 33 {
		return nil
	}
	g, err := secp256k1.GeneratorParse(ubZctx(), gen)
	if err != nil {
		return nil
	}
	c, err := secp256k1.Commit(ubZctx(), blind, value, g)
	if err != nil {
		return nil
	}
	b := c.Bytes()
	return b[:]
}

type ubSignArgs struct {
	min             uint64
	commit          []byte
	vbf             []byte
	nonce           []byte
	exp, mb         int
	value           uint64
	msg, extra, gen []byte
}

func ubPrimSign(a ubSignArgs) []byte {
	if len(a.commit) != 33 || len(a.gen) != 33 || len(a.vbf) != 32 || len(a.nonce) != 32 {
		return nil
	}
	c, err := secp256k1.CommitmentParse(ubZctx(), a.commit)
	if err != nil {
		return nil
	}
	g, err := secp256k1.GeneratorParse(ubZctx(), a.gen)
	if err != nil {
		return nil
	}
	var vbf, nonce [32]byte
	copy(vbf[:], a.vbf)
	copy(nonce[:], a.nonce)
	p, err := secp256k1.RangeProofSign(ubZctx(), a.min, c, vbf, nonce, a.exp, a.mb, a.value, a.msg, a.extra, g)
	if err != nil {
		return nil
	}
	return p
}

// ubOracle table under construction
type ubOracle struct {
	ecdh   [][3][]byte
	genb   [][3][]byte
	geng   [][2][]byte
	commit []struct {
		blind []byte
		value uint64
		gen   []byte
		res   []byte
	}
	sign []struct {
		a   ubSignArgs
		res []byte
	}
}

func (o *ubOracle) addEcdh(pub, priv []byte) []byte {
	r := ubPrimEcdh(pub, priv)
	o.ecdh = append(o.ecdh, [3][]byte{pub, priv, r})
	return r
}
func (o *ubOracle) addGenB(seed, blind []byte) []byte {
	r := ubPrimGenBlinded(seed, blind)
	o.genb = append(o.genb, [3][]byte{seed, blind, r})
	return r
}
func (o *ubOracle) addGenG(seed []byte) []byte {
	r := ubPrimGenGenerate(seed)
	o.geng = append(o.geng, [2][]byte{seed, r})
	return r
}
func (o *ubOracle) addCommit(blind []byte, value uint64, gen []byte) []byte {
	r := ubPrimCommit(blind, value, gen)
	o.commit = append(o.commit, struct {
		blind []byte
		value uint64
		gen   []byte
		res   []byte
	}{blind, value, gen, r})
	return r
}
func (o *ubOracle) addCommitRaw(blind []byte, value uint64, gen, res []byte) {
	o.commit = append(o.commit, struct {
		blind []byte
		value uint64
		gen   []byte
		res   []byte
	}{blind, value, gen, res})
}
func (o *ubOracle) addSignRaw(a ubSignArgs, res []byte) {
	o.sign = append(o.sign, struct {
		a   ubSignArgs
		res []byte
	}{a, res})
}
func (o *ubOracle) addSign(a ubSignArgs) []byte {
	r := ubPrimSign(a)
	o.sign = append(o.sign, struct {
		a   ubSignArgs
		res []byte
	}{a, r})
	return r
}

func ubOptHex(b []byte) string {
	if b == nil {
		return "!"
	}
	return hx(b)
}

func (o *ubOracle) write(b *sb) {
	b.addn(uint64(len(o.ecdh)))
	for _, e := range o.ecdh {
		b.addh(e[0])
		b.addh(e[1])
		b.add(ubOptHex(e[2]))
	}
	b.addn(uint64(len(o.genb)))
	for _, e := range o.genb {
		b.addh(e[0])
		b.addh(e[1])
		b.add(ubOptHex(e[2]))
	}
	b.addn(uint64(len(o.geng)))
	for _, e := range o.geng {
		b.addh(e[0])
		b.add(ubOptHex(e[1]))
	}
	b.addn(uint64(len(o.commit)))
	for _, e := range o.commit {
		b.addh(e.blind)
		b.add(strconv.FormatUint(e.value, 16))
		b.addh(e.gen)
		b.add(ubOptHex(e.res))
	}
	b.addn(uint64(len(o.sign)))
	for _, e := range o.sign {
		b.add(strconv.FormatUint(e.a.min, 16))
		b.addh(e.a.commit)
		b.addh(e.a.vbf)
		b.addh(e.a.nonce)
		b.add(strconv.Itoa(e.a.exp))
		b.add(strconv.Itoa(e.a.mb))
		b.add(strconv.FormatUint(e.a.value, 16))
		b.addh(e.a.msg)
		b.addh(e.a.extra)
		b.addh(e.a.gen)
		b.add(ubOptHex(e.res))
	}
}

// ---------- case: one blinded output ----------

type ubFieldOp struct {
	kind  string // "x" xor one byte, "s" set
	field int    // 0 asset, 1 value, 2 script, 3 nonce, 4 proof
	idx   int
	mask  byte
	val   []byte
}

type ublCase struct {
	value           uint64
	asset, abf, vbf []byte
	script          []byte
	exp, mb         int
	R, esk, E       []byte // recipient public key, ephemeral private/public key
	rsk             []byte // recipient private key (used by S only; the K scenario names its own key)
	ops             []ubFieldOp
	mode            string // "k" UnblindOutputWithKey, "n" UnblindOutputWithNonce
	key             []byte
}

func (t *Toks) ubHex64() uint64 {
	v, err := strconv.ParseUint(t.Next(), 16, 64)
	if err != nil {
		panic(err)
	}
	return v
}

func ubReadOps(t *Toks) []ubFieldOp {
	n := t.Int()
	var ops []ubFieldOp
	for i := 0; i < n; i++ {
		op := ubFieldOp{kind: t.Next()}
		op.field = t.Int()
		if op.kind == "x" {
			op.idx = t.Int()
			op.mask = byte(t.Int())
		} else {
			op.val = t.Hex()
		}
		ops = append(ops, op)
	}
	return ops
}

func ubWriteOps(b *sb, ops []ubFieldOp) {
	b.addn(uint64(len(ops)))
	for _, op := range ops {
		b.add(op.kind)
		b.addn(uint64(op.field))
		if op.kind == "x" {
			b.addn(uint64(op.idx))
			b.addn(uint64(op.mask))
		} else {
			b.addh(op.val)
		}
	}
}

func readUbl(t *Toks) *ublCase {
	c := &ublCase{}
	c.value = t.ubHex64()
	c.asset = t.Hex()
	c.abf = t.Hex()
	c.vbf = t.Hex()
	c.script = t.Hex()
	c.exp = t.Int()
	c.mb = t.Int()
	c.R = t.Hex()
	c.esk = t.Hex()
	c.E = t.Hex()
	c.rsk = t.Hex()
	c.ops = ubReadOps(t)
	c.mode = t.Next()
	c.key = t.Hex()
	return c
}

func (c *ublCase) write(b *sb) {
	b.add("ubl")
	b.add(strconv.FormatUint(c.value, 16))
	b.addh(c.asset)
	b.addh(c.abf)
	b.addh(c.vbf)
	b.addh(c.script)
	b.add(strconv.Itoa(c.exp))
	b.add(strconv.Itoa(c.mb))
	b.addh(c.R)
	b.addh(c.esk)
	b.addh(c.E)
	b.addh(c.rsk)
	ubWriteOps(b, c.ops)
	b.add(c.mode)
	b.addh(c.key)
}

func ubApplyOp(f [][]byte, op ubFieldOp) {
	switch op.kind {
	case "x":
		x := append([]byte{}, f[op.field]...)
		if op.idx < len(x) {
			x[op.idx] ^= op.mask
		}
		f[op.field] = x
	case "s":
		f[op.field] = append([]byte{}, op.val...)
	}
}

func ubApplyOpsOut(out *transaction.TxOutput, ops []ubFieldOp) {
	f := [][]byte{out.Asset, out.Value, out.Script, out.Nonce, out.RangeProof}
	for _, op := range ops {
		ubApplyOp(f, op)
	}
	out.Asset, out.Value, out.Script, out.Nonce, out.RangeProof = f[0], f[1], f[2], f[3], f[4]
}

type ubBlindedOut struct {
	ac, vc, proof []byte
	nonce         [32]byte
}

// the blinding sequence of BlindOutputs for one output, through the public functions
func ubBlindWithAPI(c *ublCase) (*ubBlindedOut, string) {
	ac, err := confidential.AssetCommitment(c.asset, c.abf)
	if err != nil {
		return nil, "ac"
	}
	vc, err := confidential.ValueCommitment(c.value, ac, c.vbf)
	if err != nil {
		return nil, "vc"
	}
	nonce, err := confidential.NonceHash(c.R, c.esk)
	if err != nil {
		return nil, "nonce"
	}
	var vbf32 [32]byte
	copy(vbf32[:], c.vbf)
	proof, err := confidential.RangeProof(confidential.RangeProofArgs{
		Value:               c.value,
		Nonce:               nonce,
		Asset:               append([]byte{}, c.asset...),
		AssetBlindingFactor: append([]byte{}, c.abf...),
		ValueBlindFactor:    vbf32,
		ValueCommit:         vc,
		ScriptPubkey:        c.script,
		Exp:                 c.exp,
		MinBits:             c.mb,
	})
	if err != nil {
		return nil, "proof"
	}
	return &ubBlindedOut{ac: ac, vc: vc, proof: proof, nonce: nonce}, ""
}

func ubUnblindGuard(f func() (*confidential.UnblindOutputResult, error)) (res *confidential.UnblindOutputResult, cls string) {
	defer func() {
		if e := recover(); e != nil {
			res, cls = nil, "panic"
		}
	}()
	r, err := f()
	if err != nil || r == nil {
		return nil, "err"
	}
	return r, "ok"
}

func ubRecreates(r *confidential.UnblindOutputResult, outAsset, outValue []byte) string {
	if len(r.Asset) != 32 || len(r.AssetBlindingFactor) != 32 || len(r.ValueBlindingFactor) != 32 || len(outAsset) != 33 {
		return "na"
	}
	ac, err := confidential.AssetCommitment(r.Asset, r.AssetBlindingFactor)
	if err != nil || !bytes.Equal(ac, outAsset) {
		return "0"
	}
	vc, err := confidential.ValueCommitment(r.Value, outAsset, r.ValueBlindingFactor)
	if err != nil || !bytes.Equal(vc, outValue) {
		return "0"
	}
	return "1"
}

func runUbl(t *Toks) string {
	c := readUbl(t)
	b, where := ubBlindWithAPI(c)
	if b == nil {
		return "blind=err@" + where
	}
	verify := confidential.VerifyRangeProof(b.vc, b.ac, c.script, b.proof)
	out := &transaction.TxOutput{Asset: b.ac, Value: b.vc, Script: c.script, Nonce: c.E, RangeProof: b.proof}
	ubApplyOpsOut(out, c.ops)
	var r *confidential.UnblindOutputResult
	var cls string
	if c.mode == "k" {
		r, cls = ubUnblindGuard(func() (*confidential.UnblindOutputResult, error) {
			return confidential.UnblindOutputWithKey(out, c.key)
		})
	} else {
		r, cls = ubUnblindGuard(func() (*confidential.UnblindOutputResult, error) {
			return confidential.UnblindOutputWithNonce(out, c.key)
		})
	}
	// zkp_generator.go LastValueRangeProof: same call with Exp 0 / MinBits 52 and slices copied into arrays
	lv := "err"
	if p, err := confidential.NewZKPGeneratorFromBlindingKeys(nil, nil).LastValueRangeProof(
		c.value, append([]byte{}, c.asset...), append([]byte{}, c.abf...), b.vc, c.vbf, c.script, b.nonce[:]); err == nil {
		if bytes.Equal(p, b.proof) {
			lv = "same"
		} else {
			lv = hx(p)
		}
	}
	s := fmt.Sprintf("blind=ok ac=%s vc=%s nonce=%s proof=%s verify=%s lv=%s res=%s",
		hx(b.ac), hx(b.vc), hx(b.nonce[:]), hx(b.proof), b2s(verify), lv, cls)
	if cls == "ok" {
		rc := "na"
		if out.IsConfidential() {
			rc = ubRecreates(r, out.Asset, out.Value)
		}
		s += fmt.Sprintf(" v=%x a=%s vbf=%s abf=%s rc=%s", r.Value, hx(r.Asset), hx(r.ValueBlindingFactor), hx(r.AssetBlindingFactor), rc)
	}
	return s
}

// ---------- generator ----------

var ubCurveN = []byte{0xff, 0xff, 0xff, 0xff, 0xff, 0xff, 0xff, 0xff, 0xff, 0xff, 0xff, 0xff, 0xff, 0xff, 0xff, 0xfe,
	0xba, 0xae, 0xdc, 0xe6, 0xaf, 0x48, 0xa0, 0x3b, 0xbf, 0xd2, 0x5e, 0x8c, 0xd0, 0x36, 0x41, 0x41}

func ubGenScalar(r *Rng) []byte {
	for {
		b := r.Bytes(32)
		if bytes.Compare(b, ubCurveN) < 0 && !bytes.Equal(b, make([]byte, 32)) {
			return b
		}
	}
}

func ubPubOf(priv []byte) []byte {
	_, pk := btcec.PrivKeyFromBytes(priv)
	return pk.SerializeCompressed()
}

func ubGenValue64(r *Rng) uint64 {
	switch r.Intn(12) {
	case 0:
		return 0
	case 1:
		return 1
	case 2:
		return 2
	case 3:
		k := 1 + r.Intn(63)
		return (uint64(1) << uint(k)) - 1
	case 4:
		k := 1 + r.Intn(63)
		return uint64(1) << uint(k)
	case 5:
		k := 1 + r.Intn(62)
		return (uint64(1) << uint(k)) + 1
	case 6:
		return uint64(1) << 51
	case 7:
		return r.ubPick64(1<<52-1, 1<<52, 1<<52+1, 1<<63-1, 1<<63, 1<<63+1, ^uint64(0), ^uint64(0)-1, 2100000000000000)
	case 8:
		return r.U64() >> uint(r.Intn(64))
	default:
		return 1 + r.U64()%2100000000000000
	}
}

func (r *Rng) ubPick64(xs ...uint64) uint64 { return xs[r.Intn(len(xs))] }

// script classes: spendable, OP_RETURN, empty, oversize
func ubGenScript(r *Rng) []byte {
	switch r.Intn(10) {
	case 0, 1:
		return nil
	case 2, 3:
		if r.Chance(25) {
			return []byte{0x6a} // the shortest OP_RETURN script
		}
		return append([]byte{0x6a}, r.Bytes(r.Intn(40))...)
	case 4:
		if r.Chance(60) {
			// both sides of maxScriptSize: 10000 bytes is spendable, 10001 is not
			return append([]byte{0x00}, r.Bytes(9999+r.Intn(2))...)
		}
		return append([]byte{0x51}, r.Bytes(r.Intn(3))...)
	case 5:
		return append([]byte{0x00, 0x14}, r.Bytes(20)...)
	case 6:
		return append([]byte{0x00, 0x20}, r.Bytes(32)...)
	case 7:
		return append(append([]byte{0x76, 0xa9, 0x14}, r.Bytes(20)...), 0x88, 0xac)
	case 8:
		return append(append([]byte{0xa9, 0x14}, r.Bytes(20)...), 0x87)
	default:
		return append([]byte{0x51, 0x20}, r.Bytes(32)...)
	}
}

func ubIsUnspendableRef(script []byte) bool {
	return len(script) == 0 || script[0] == 0x6a || len(script) > 10000
}

func ubPad32(b []byte) []byte {
	x := make([]byte, 32)
	copy(x, b)
	return x
}

// the signing call the wrappers are expected to make for one amount
func ubExpectedSign(o *ubOracle, value uint64, asset, abf, vbf, nonce, script []byte, exp, mb int, gen, commit []byte) []byte {
	min := uint64(1)
	if value == 0 || ubIsUnspendableRef(script) {
		min = 0
	}
	if exp < -1 || exp > 18 {
		exp = 0
	}
	if mb <= 0 {
		mb = 52
	}
	msg := append(append([]byte{}, asset...), abf...)
	return o.addSign(ubSignArgs{min: min, commit: commit, vbf: ubPad32(vbf), nonce: nonce, exp: exp, mb: mb, value: value,
		msg: msg, extra: script, gen: gen})
}

// (recipient key, ephemeral key) pairs whose ECDH shared point has an x coordinate starting
// with one or two zero bytes (found with `impl gen ubl-grind 77 6`): the ECDH secret hashes the
// 33-byte compressed point, leading zeros included
var ubZeroXPairs = [][2]string{
	{"d7b4a45941466bff31bce7fd03fe6dc72b4d6d853f6f2ec0c28ff64eaaa762b6", "255eede6dac3dac09c3dcd5edb8d6508e1ec248a55fd2815a483d0f6cab7c5d7"}, // shared x = 00bc7a10...
	{"6e742c1b989fa531c9d852c4292a8495b4346822de911999e593355dccdd662e", "d1004e436f84e8f346922b4f52c15b0f27735a76fa431569ab1b5dfa1438cdd4"}, // shared x = 007f9e16...
	{"ee7a16b72815497cd73653a06776d465ff159ddc930789a2da1926722f7bf05a", "cb9e073a94d7ce96026ddd22ad8954ce3e5640d582ddf4352b6882c6268867f8"}, // shared x = 000006ac...
	{"704c4a61a1e149d01aea4b36af1c1295ca22917326ea9b71df616651b3208ea4", "882135c83bf7c78089b31cc50aeea768a053705011427470723e93eafa2f9ac9"}, // shared x = 00b25736...
	{"97eda35dffb8fe688653a1828f37c623e3c8fff39b9ff51a2d1ec7b7f5ef2d5d", "63efd523c8eb818312b8eac461784671139c16b1f01078a6db67c858bb7cbb1f"}, // shared x = 002b5f87...
	{"206ed09976e59c33a78692115a5cf8101538fb4cff29e4304063e49e9e579670", "822f4b5511ec517851eb99957568951ca7aba03f683c331e9e083df9952a881d"}, // shared x = 0000fe98...
}

// forced choices for the corpus generator
type ublForced struct {
	pair     int // index into ubZeroXPairs, -1 = none
	value    *uint64
	script   []byte
	scenario int
}

var ublForce *ublForced

func genUblCase(r *Rng) (*ublCase, *ubOracle) {
	c := &ublCase{}
	o := &ubOracle{}
	c.value = ubGenValue64(r)
	c.asset = r.Bytes(32)
	if r.Chance(10) {
		c.asset[0] = byte(r.Pick(0x0a, 0x0b, 0x01, 0x08, 0x09))
	}
	c.abf = ubGenScalar(r)
	c.vbf = ubGenScalar(r)
	c.script = ubGenScript(r)
	c.exp, c.mb = 0, 52
	c.rsk = ubGenScalar(r)
	c.esk = ubGenScalar(r)
	c.R = ubPubOf(c.rsk)
	c.E = ubPubOf(c.esk)
	// key pairs whose shared point has leading zero byte(s) in x: hard-coded ones, or found now
	zeroX := -2
	if r.Chance(12) {
		zeroX = -1
		if r.Bool() {
			zeroX = r.Intn(len(ubZeroXPairs))
		}
	}
	if ublForce != nil {
		zeroX = ublForce.pair
		if zeroX < 0 {
			zeroX = -2
		}
	}
	if zeroX >= 0 {
		c.rsk, _ = hex.DecodeString(ubZeroXPairs[zeroX][0])
		c.esk, _ = hex.DecodeString(ubZeroXPairs[zeroX][1])
	} else if zeroX == -1 {
		if esk := ubGrindZeroX(r, c.rsk, 1); esk != nil {
			c.esk = esk
		}
	}
	c.R = ubPubOf(c.rsk)
	c.E = ubPubOf(c.esk)
	c.mode = "k"
	c.key = c.rsk

	scenario := r.Intn(100)
	if ublForce != nil {
		scenario = ublForce.scenario
		if ublForce.value != nil {
			c.value = *ublForce.value
		}
		if ublForce.script != nil {
			c.script = ublForce.script
		}
	}
	// blinding-side variations (may make the blinding fail: unsupported values, bad scalars)
	switch {
	case scenario < 6:
		c.exp = r.Pick(-5, -2, -1, 1, 3, 7, 18, 19, 40)
		c.mb = r.Pick(-3, 0, 1, 2, 3, 4, 36, 51, 52, 53, 63, 64, 65)
	case scenario < 8:
		c.abf = r.ubPickB(make([]byte, 32), ubCurveN, bytes.Repeat([]byte{0xff}, 32))
	case scenario < 10:
		c.vbf = r.ubPickB(make([]byte, 32), ubCurveN, bytes.Repeat([]byte{0xff}, 32))
		if r.Bool() {
			c.value = 0
		}
	case scenario < 12:
		c.value = r.ubPick64(1<<63-1, 1<<63, 1<<63+1, ^uint64(0))
	}

	if scenario >= 95 && r.Bool() {
		c.abf = make([]byte, 32) // zero asset blinder: the raw asset id is then an equivalent asset field
	}

	// --- ubOracle for the blinding sequence ---
	gen := o.addGenB(c.asset, c.abf)
	var commit, nonce, proof []byte
	if gen != nil {
		commit = o.addCommit(c.vbf, c.value, gen)
	}
	secret := o.addEcdh(c.R, c.esk)
	if secret != nil {
		h := sha256.Sum256(secret)
		nonce = h[:]
	}
	if gen != nil && commit != nil && nonce != nil {
		proof = ubExpectedSign(o, c.value, c.asset, c.abf, c.vbf, nonce, c.script, c.exp, c.mb, gen, commit)
	}
	if gen != nil && commit != nil && nonce != nil && (c.exp != 0 || c.mb != 52) {
		ubExpectedSign(o, c.value, c.asset, c.abf, c.vbf, nonce, c.script, 0, 52, gen, commit) // LastValueRangeProof
	}
	if proof == nil {
		return c, o
	}

	// --- alteration and unblinding scenario ---
	fields := [][]byte{gen, commit, c.script, c.E, proof}
	switch {
	case scenario < 32: // honest, with the key
	case scenario < 38: // honest, with the nonce
		c.mode, c.key = "n", nonce
	case scenario < 41: // nonce of another length: longer is truncated, shorter is zero padded
		c.mode = "n"
		if r.Bool() {
			c.key = append(append([]byte{}, nonce...), r.Bytes(1+r.Intn(4))...)
		} else {
			c.key = append([]byte{}, nonce[:31-r.Intn(3)]...)
		}
	case scenario < 44: // a different nonce
		c.mode, c.key = "n", r.Bytes(32)
	case scenario < 50: // another valid key
		c.key = ubGenScalar(r)
	case scenario < 53: // recipient key with one bit flipped
		c.key = append([]byte{}, c.rsk...)
		c.key[r.Intn(32)] ^= 1 << uint(r.Intn(8))
	case scenario < 55: // invalid scalars / wrong length
		c.key = r.ubPickB(make([]byte, 32), ubCurveN, bytes.Repeat([]byte{0xff}, 32), c.rsk[:31], append(append([]byte{}, c.rsk...), 0))
	case scenario < 63: // script altered
		s := append([]byte{}, c.script...)
		switch {
		case len(s) == 0:
			s = r.ubPickB([]byte{0x00}, []byte{0x6a}, []byte{0x51, 0x20})
		case r.Chance(50):
			s[r.Intn(len(s))] ^= 1 << uint(r.Intn(8))
		case r.Chance(50):
			s = append(s, byte(r.Intn(256)))
		case r.Chance(50):
			s = s[:len(s)-1]
		default:
			s = nil
		}
		c.ops = append(c.ops, ubFieldOp{kind: "s", field: 2, val: s})
	case scenario < 71: // value commitment altered
		i := r.Intn(33)
		if r.Chance(20) {
			i = 0
		}
		c.ops = append(c.ops, ubFieldOp{kind: "x", field: 1, idx: i, mask: 1 << uint(r.Intn(8))})
	case scenario < 79: // asset commitment altered
		i := r.Intn(33)
		if r.Chance(20) {
			i = 0
		}
		c.ops = append(c.ops, ubFieldOp{kind: "x", field: 0, idx: i, mask: 1 << uint(r.Intn(8))})
	case scenario < 87: // proof altered
		switch r.Intn(5) {
		case 0:
			c.ops = append(c.ops, ubFieldOp{kind: "s", field: 4, val: nil})
		case 1:
			c.ops = append(c.ops, ubFieldOp{kind: "s", field: 4, val: proof[:len(proof)-1]})
		case 2:
			c.ops = append(c.ops, ubFieldOp{kind: "x", field: 4, idx: r.Intn(12), mask: 1 << uint(r.Intn(8))})
		default:
			c.ops = append(c.ops, ubFieldOp{kind: "x", field: 4, idx: r.Intn(len(proof)), mask: 1 << uint(r.Intn(8))})
		}
	case scenario < 91: // ephemeral public key replaced
		if r.Chance(70) {
			c.ops = append(c.ops, ubFieldOp{kind: "s", field: 3, val: ubPubOf(ubGenScalar(r))})
		} else {
			bad := append([]byte{}, c.E...)
			bad[1+r.Intn(32)] ^= 1 << uint(r.Intn(8))
			c.ops = append(c.ops, ubFieldOp{kind: "s", field: 3, val: bad})
		}
	case scenario < 95: // explicit output: the shortcut
		v := make([]byte, 9)
		v[0] = 1
		for i := 0; i < 8; i++ {
			v[1+i] = byte(c.value >> uint(56-8*i))
		}
		if r.Chance(20) {
			v[0] = byte(r.Pick(0, 2, 8))
		}
		c.ops = append(c.ops, ubFieldOp{kind: "s", field: 1, val: v})
		c.ops = append(c.ops, ubFieldOp{kind: "s", field: 0, val: append([]byte{1}, c.asset...)})
		c.ops = append(c.ops, ubFieldOp{kind: "s", field: 3, val: r.ubPickB([]byte{0}, nil)})
		if r.Bool() {
			c.mode, c.key = "n", nonce
		}
	default: // asset field given as the raw 32-byte id: works only with a zero asset blinder
		c.ops = append(c.ops, ubFieldOp{kind: "s", field: 0, val: c.asset})
	}
	for _, op := range c.ops {
		ubApplyOp(fields, op)
	}
	// ubOracle for the unblinding side
	if len(fields[3]) > 1 && c.mode == "k" {
		o.addEcdh(fields[3], c.key)
	}
	if len(fields[0]) == 32 {
		o.addGenG(fields[0])
	}
	return c, o
}

func (r *Rng) ubPickB(xs ...[]byte) []byte { return xs[r.Intn(len(xs))] }

func genUblCases(r *Rng, n int, w *bufio.Writer) {
	for i := 0; i < n; i++ {
		c, o := genUblCase(r)
		b := &sb{}
		c.write(b)
		o.write(b)
		fmt.Fprintln(w, ubTrimRight(b.String()))
	}
}

func ubTrimRight(s string) string {
	for len(s) > 0 && s[len(s)-1] == ' ' {
		s = s[:len(s)-1]
	}
	return s
}

// boundary cases for corpus/ubl.txt: every hard-coded leading-zero pair (honest, with the key),
// and a zero amount for a spendable, an OP_RETURN and an empty script
func genUblCorpus(r *Rng, n int, w *bufio.Writer) {
	emit := func(f *ublForced) {
		ublForce = f
		c, o := genUblCase(r)
		ublForce = nil
		b := &sb{}
		c.write(b)
		o.write(b)
		fmt.Fprintln(w, ubTrimRight(b.String()))
	}
	for i := range ubZeroXPairs {
		emit(&ublForced{pair: i, scenario: 20})
	}
	zero := uint64(0)
	for _, scr := range [][]byte{{0x00, 0x14, 1, 2, 3, 4, 5, 6, 7, 8, 9, 10, 11, 12, 13, 14, 15, 16, 17, 18, 19, 20}, {0x51}, {0x6a}, {}} {
		emit(&ublForced{pair: -1, value: &zero, script: scr, scenario: 20})
	}
}

// reads the recorded primitive calls that follow the inputs on a case line
func ubReadOracle(t *Toks) *ubOracle {
	opt := func() []byte {
		if len(t.l) > 0 && t.l[0] == "!" {
			t.Next()
			return nil
		}
		b := t.Hex()
		if b == nil {
			b = []byte{}
		}
		return b
	}
	o := &ubOracle{}
	for n := t.Int(); n > 0; n-- {
		a, b := t.Hex(), t.Hex()
		o.ecdh = append(o.ecdh, [3][]byte{a, b, opt()})
	}
	for n := t.Int(); n > 0; n-- {
		a, b := t.Hex(), t.Hex()
		o.genb = append(o.genb, [3][]byte{a, b, opt()})
	}
	for n := t.Int(); n > 0; n-- {
		a := t.Hex()
		o.geng = append(o.geng, [2][]byte{a, opt()})
	}
	for n := t.Int(); n > 0; n-- {
		bl := t.Hex()
		v := t.ubHex64()
		g := t.Hex()
		o.addCommitRaw(bl, v, g, opt())
	}
	for n := t.Int(); n > 0; n-- {
		var a ubSignArgs
		a.min = t.ubHex64()
		a.commit, a.vbf, a.nonce = t.Hex(), t.Hex(), t.Hex()
		a.exp, a.mb = t.Int(), t.Int()
		a.value = t.ubHex64()
		a.msg, a.extra, a.gen = t.Hex(), t.Hex(), t.Hex()
		o.addSignRaw(a, opt())
	}
	return o
}

func init() {
	gens["ubl-corpus"] = genUblCorpus
	gens["ubl"] = genUblCases
	runs["ubl"] = runUbl
}

// ---------- key pairs whose ECDH shared point has an x coordinate with leading zero bytes ----------

// x coordinate (32 bytes, zero padded) of priv * Pub, with btcec
func ubSharedX(pub, priv []byte) []byte {
	pk, err := btcec.ParsePubKey(pub)
	if err != nil {
		return nil
	}
	var p, q btcec.JacobianPoint
	pk.AsJacobian(&p)
	var k btcec.ModNScalar
	if overflow := k.SetByteSlice(priv); overflow || k.IsZero() {
		return nil
	}
	btcec.ScalarMultNonConst(&k, &p, &q)
	q.ToAffine()
	x := q.X.Bytes()
	return x[:]
}

// searches an ephemeral key for the given recipient key such that the shared x starts with
// `zeros` zero bytes (about 256^zeros tries, every candidate from the Rng)
func ubGrindZeroX(r *Rng, rsk []byte, zeros int) []byte {
	R := ubPubOf(rsk)
	for tries := 0; tries < 40000000; tries++ {
		esk := ubGenScalar(r)
		x := ubSharedX(R, esk)
		ok := x != nil
		for i := 0; ok && i < zeros; i++ {
			ok = x[i] == 0
		}
		if ok {
			return esk
		}
	}
	return nil
}

func genUblGrind(r *Rng, n int, w *bufio.Writer) {
	for i := 0; i < n; i++ {
		rsk := ubGenScalar(r)
		z := 1
		if i%3 == 2 {
			z = 2
		}
		esk := ubGrindZeroX(r, rsk, z)
		fmt.Fprintf(w, "{%q, %q}, // shared x = %s\n", hex.EncodeToString(rsk), hex.EncodeToString(esk), hex.EncodeToString(ubSharedX(ubPubOf(rsk), esk)))
	}
}

func init() { gens["ubl-grind"] = genUblGrind }
