package main

// C06 — family uhist: a history of UnblindInputs calls on ONE zkpGenerator instance
// (NewZKPGeneratorFromBlindingKeys or NewZKPGeneratorFromMasterBlindingKey).  Every step is a
// fresh packet; steps may name the same outpoint with a different (altered / replaced)
// prevout.  UnblindInputs is a function of the packet and the keys, so the k-th answer must
// be the answer a new generator gives to the k-th packet.

import (
	"bufio"
	"bytes"
	"crypto/hmac"
	"crypto/sha256"
	"encoding/hex"
	"fmt"
	"strconv"
	"strings"

	"github.com/btcsuite/btcd/btcec/v2"
	"github.com/vulpemventures/go-elements/confidential"
	"github.com/vulpemventures/go-elements/elementsutil"
	"github.com/vulpemventures/go-elements/psetv2"
	"github.com/vulpemventures/go-elements/transaction"
)

type uhInput struct {
	outpoint int
	explicit bool
	base     int         // index of the blinded base output
	ops      []ubFieldOp // alterations of (asset, value, script, nonce, proof)
	easset   []byte      // explicit: 33-byte asset, 9-byte value, script
	evalue   []byte
	escript  []byte
}

type uhStep struct {
	ins  []uhInput
	idxs []uint32
}

type uhCase struct {
	mode   string // "k" blinding keys, "m" master blinding key
	master []byte
	keys   [][]byte
	bases  []*ublCase
	steps  []uhStep
	derive [][2][]byte // script -> SLIP-77 key (mode m)
}

func readUhist(t *Toks) *uhCase {
	c := &uhCase{}
	c.mode = t.Next()
	c.master = t.Hex()
	c.keys = t.HexList()
	nb := t.Int()
	for i := 0; i < nb; i++ {
		b := &ublCase{exp: 0, mb: 52}
		b.value = t.ubHex64()
		b.asset = t.Hex()
		b.abf = t.Hex()
		b.vbf = t.Hex()
		b.script = t.Hex()
		b.R = t.Hex()
		b.esk = t.Hex()
		b.E = t.Hex()
		c.bases = append(c.bases, b)
	}
	ns := t.Int()
	for i := 0; i < ns; i++ {
		var st uhStep
		ni := t.Int()
		for j := 0; j < ni; j++ {
			in := uhInput{outpoint: t.Int()}
			if t.Next() == "e" {
				in.explicit = true
				in.easset = t.Hex()
				in.evalue = t.Hex()
				in.escript = t.Hex()
			} else {
				in.base = t.Int()
				in.ops = ubReadOps(t)
			}
			st.ins = append(st.ins, in)
		}
		nx := t.Int()
		for j := 0; j < nx; j++ {
			st.idxs = append(st.idxs, uint32(t.Int()))
		}
		c.steps = append(c.steps, st)
	}
	nd := t.Int()
	for i := 0; i < nd; i++ {
		s := t.Hex()
		k := t.Hex()
		c.derive = append(c.derive, [2][]byte{s, k})
	}
	return c
}

func (c *uhCase) write(b *sb) {
	b.add("uhist")
	b.add(c.mode)
	b.addh(c.master)
	b.addl(c.keys)
	b.addn(uint64(len(c.bases)))
	for _, x := range c.bases {
		b.add(strconv.FormatUint(x.value, 16))
		b.addh(x.asset)
		b.addh(x.abf)
		b.addh(x.vbf)
		b.addh(x.script)
		b.addh(x.R)
		b.addh(x.esk)
		b.addh(x.E)
	}
	b.addn(uint64(len(c.steps)))
	for _, st := range c.steps {
		b.addn(uint64(len(st.ins)))
		for _, in := range st.ins {
			b.addn(uint64(in.outpoint))
			if in.explicit {
				b.add("e")
				b.addh(in.easset)
				b.addh(in.evalue)
				b.addh(in.escript)
			} else {
				b.add("c")
				b.addn(uint64(in.base))
				ubWriteOps(b, in.ops)
			}
		}
		b.addn(uint64(len(st.idxs)))
		for _, i := range st.idxs {
			b.addn(uint64(i))
		}
	}
	b.addn(uint64(len(c.derive)))
	for _, d := range c.derive {
		b.addh(d[0])
		b.addh(d[1])
	}
}

func uhTxid(outpoint int) string {
	h := sha256.Sum256([]byte(fmt.Sprintf("uhist-outpoint-%d", outpoint)))
	return hex.EncodeToString(h[:])
}

// the prevout of one input as (asset, value, script, nonce, proof)
func uhPrevout(in uhInput, blinded []*ubBlindedOut, bases []*ublCase) [][]byte {
	if in.explicit {
		return [][]byte{in.easset, in.evalue, in.escript, {0}, nil}
	}
	b, c := blinded[in.base], bases[in.base]
	f := [][]byte{b.ac, b.vc, c.script, c.E, b.proof}
	for _, op := range in.ops {
		ubApplyOp(f, op)
	}
	return f
}

func uhBuildPset(st uhStep, blinded []*ubBlindedOut, bases []*ublCase) (*psetv2.Pset, error) {
	var ins []psetv2.InputArgs
	for _, in := range st.ins {
		ins = append(ins, psetv2.InputArgs{Txid: uhTxid(in.outpoint), TxIndex: uint32(in.outpoint)})
	}
	p, err := psetv2.New(ins, nil, nil)
	if err != nil {
		return nil, err
	}
	u, err := psetv2.NewUpdater(p)
	if err != nil {
		return nil, err
	}
	for i, in := range st.ins {
		f := uhPrevout(in, blinded, bases)
		utxo := &transaction.TxOutput{Asset: f[0], Value: f[1], Script: f[2], Nonce: f[3]}
		if err := u.AddInWitnessUtxo(i, utxo); err != nil {
			return nil, err
		}
		if len(f[4]) > 0 {
			if err := u.AddInUtxoRangeProof(i, f[4]); err != nil {
				return nil, err
			}
		}
	}
	return p, nil
}

type uhGen interface {
	UnblindInputs(p *psetv2.Pset, inputIndexes []uint32) ([]psetv2.OwnedInput, error)
}

func uhNewGenerator(c *uhCase) (uhGen, error) {
	if c.mode == "m" {
		return confidential.NewZKPGeneratorFromMasterBlindingKey(c.master, nil)
	}
	return confidential.NewZKPGeneratorFromBlindingKeys(c.keys, nil), nil
}

func uhUnblindGuard(g uhGen, p *psetv2.Pset, idxs []uint32) (res []psetv2.OwnedInput, cls string) {
	defer func() {
		if e := recover(); e != nil {
			res, cls = nil, "panic"
		}
	}()
	r, err := g.UnblindInputs(p, idxs)
	if err != nil {
		return nil, "err"
	}
	return r, "ok"
}

func uhAssetBytes(s string) []byte {
	b, err := hex.DecodeString(s)
	if err != nil {
		return []byte("bad-hex")
	}
	return elementsutil.ReverseBytes(b)
}

func uhFmt(res []psetv2.OwnedInput, cls string) string {
	if cls != "ok" {
		return cls
	}
	var parts []string
	for _, o := range res {
		parts = append(parts, fmt.Sprintf("%d,%x,%s,%s,%s", o.Index, o.Value, hx(uhAssetBytes(o.Asset)), hx(o.ValueBlinder), hx(o.AssetBlinder)))
	}
	return "ok:" + strings.Join(parts, ";")
}

func uhBlindBases(c *uhCase) []*ubBlindedOut {
	var out []*ubBlindedOut
	for _, b := range c.bases {
		x, _ := ubBlindWithAPI(b)
		if x == nil {
			return nil
		}
		out = append(out, x)
	}
	return out
}

func runUhist(t *Toks) string {
	c := readUhist(t)
	blinded := uhBlindBases(c)
	if blinded == nil {
		return "blind=err"
	}
	g, err := uhNewGenerator(c)
	if err != nil {
		return "generator=err"
	}
	s := "blind=ok"
	for k, st := range c.steps {
		p, err := uhBuildPset(st, blinded, c.bases)
		if err != nil {
			s += fmt.Sprintf(" s%d=build-err", k)
			continue
		}
		res, cls := uhUnblindGuard(g, p, st.idxs)
		s += fmt.Sprintf(" s%d=%s", k, uhFmt(res, cls))
	}
	return s
}

// ---------- generator ----------

func uhDerive(master, script []byte) []byte {
	m := hmac.New(sha256.New, master)
	m.Write(script)
	priv, _ := btcec.PrivKeyFromBytes(m.Sum(nil))
	return priv.Serialize()
}

func uhSpendableScript(r *Rng) []byte {
	switch r.Intn(3) {
	case 0:
		return append([]byte{0x00, 0x14}, r.Bytes(20)...)
	case 1:
		return append([]byte{0x00, 0x20}, r.Bytes(32)...)
	default:
		return append(append([]byte{0xa9, 0x14}, r.Bytes(20)...), 0x87)
	}
}

// a forced plan for the corpus generator: mode, and the steps as (outpoint, base) lists
type uhPlan struct {
	mode  string
	steps [][][2]int
}

func genUhistCase(r *Rng) (*uhCase, *ubOracle) { return genUhistCasePlan(r, nil) }

func genUhistCasePlan(r *Rng, plan *uhPlan) (*uhCase, *ubOracle) {
	c := &uhCase{mode: "k"}
	o := &ubOracle{}
	if r.Chance(40) {
		c.mode = "m"
	}
	if plan != nil {
		c.mode = plan.mode
	}
	if c.mode == "m" {
		c.master = r.Bytes(32)
	}
	addDerive := func(script []byte) []byte {
		for _, d := range c.derive {
			if bytes.Equal(d[0], script) {
				return d[1]
			}
		}
		k := uhDerive(c.master, script)
		c.derive = append(c.derive, [2][]byte{script, k})
		return k
	}
	// recipient keys
	rskA, rskB, decoy := ubGenScalar(r), ubGenScalar(r), ubGenScalar(r)
	if c.mode == "k" {
		c.keys = [][]byte{decoy, rskA, rskB}
		if r.Bool() {
			c.keys = [][]byte{rskB, rskA}
		}
		if r.Chance(12) && plan == nil {
			c.keys = [][]byte{rskA}
		}
	}
	asset := r.Bytes(32)
	scriptA := uhSpendableScript(r)
	mkBase := func(value uint64, script, rsk []byte, sameAsset bool) *ublCase {
		b := &ublCase{value: value, abf: ubGenScalar(r), vbf: ubGenScalar(r), script: script, exp: 0, mb: 52}
		b.asset = asset
		if !sameAsset {
			b.asset = r.Bytes(32)
		}
		if c.mode == "m" {
			rsk = addDerive(script)
		}
		b.rsk = rsk
		b.R = ubPubOf(rsk)
		b.esk = ubGenScalar(r)
		b.E = ubPubOf(b.esk)
		return b
	}
	// base 0: the honest prevout; base 1: another amount for the same script and recipient
	// (a replacement for the same outpoint); base 2: an unrelated prevout
	c.bases = append(c.bases, mkBase(1000+ubGenValue64(r)%(1<<50), scriptA, rskA, true)) // enough to split over 2..4 outputs
	c.bases = append(c.bases, mkBase(1+ubGenValue64(r)%(1<<50), scriptA, rskA, r.Bool()))
	c.bases = append(c.bases, mkBase(1+ubGenValue64(r)%(1<<50), uhSpendableScript(r), rskB, false))
	// base 3: the SAME script as base 0 but blinded for the other owned key (a set of blinding
	// keys is not bound to scripts); with a master key the script fixes the key
	c.bases = append(c.bases, mkBase(1+ubGenValue64(r)%(1<<50), scriptA, rskB, false))

	type pre struct{ f [][]byte }
	var blinded [][]byte // proofs, to size alterations
	bo := make([][][]byte, len(c.bases))
	for i, b := range c.bases {
		gen := o.addGenB(b.asset, b.abf)
		commit := o.addCommit(b.vbf, b.value, gen)
		secret := o.addEcdh(b.R, b.esk)
		h := sha256.Sum256(secret)
		proof := ubExpectedSign(o, b.value, b.asset, b.abf, b.vbf, h[:], b.script, 0, 52, gen, commit)
		bo[i] = [][]byte{gen, commit, b.script, b.E, proof}
		blinded = append(blinded, proof)
	}
	_ = pre{}

	alter := func(base int) []ubFieldOp {
		p := blinded[base]
		switch r.Intn(6) {
		case 0, 1: // script altered
			s := append([]byte{}, c.bases[base].script...)
			if r.Bool() {
				s[r.Intn(len(s))] ^= 1 << uint(r.Intn(8))
			} else {
				s = uhSpendableScript(r)
			}
			return []ubFieldOp{{kind: "s", field: 2, val: s}}
		case 2: // value commitment altered
			return []ubFieldOp{{kind: "x", field: 1, idx: 1 + r.Intn(32), mask: 1 << uint(r.Intn(8))}}
		case 3: // asset commitment altered
			return []ubFieldOp{{kind: "x", field: 0, idx: 1 + r.Intn(32), mask: 1 << uint(r.Intn(8))}}
		case 4: // proof altered
			return []ubFieldOp{{kind: "x", field: 4, idx: r.Intn(len(p)), mask: 1 << uint(r.Intn(8))}}
		default: // proof dropped
			return []ubFieldOp{{kind: "s", field: 4, val: nil}}
		}
	}
	explicitIn := func(outpoint int) uhInput {
		v := make([]byte, 9)
		v[0] = 1
		copy(v[1:], r.Bytes(8))
		v[1] &= 0x0f
		return uhInput{outpoint: outpoint, explicit: true, easset: append([]byte{1}, r.Bytes(32)...), evalue: v, escript: uhSpendableScript(r)}
	}
	// first step: the honest prevout at outpoint 0 (sometimes with a second input)
	nsteps := 2 + r.Intn(3)
	if plan != nil {
		nsteps = 0
		for _, ps := range plan.steps {
			var st uhStep
			for _, ob := range ps {
				st.ins = append(st.ins, uhInput{outpoint: ob[0], base: ob[1]})
			}
			c.steps = append(c.steps, st)
		}
	}
	for k := 0; k < nsteps; k++ {
		var st uhStep
		var first uhInput
		switch {
		case k == 0 && r.Chance(85):
			first = uhInput{outpoint: 0, base: 0}
		default:
			switch r.Intn(10) {
			case 8, 9:
				first = uhInput{outpoint: r.Pick(0, 2), base: 3} // same script, other key
			case 0, 1, 2:
				first = uhInput{outpoint: 0, base: 0, ops: alter(0)}
			case 3, 4:
				first = uhInput{outpoint: 0, base: 1} // same outpoint, replaced prevout
			case 5:
				first = uhInput{outpoint: 0, base: 0}
			case 6:
				first = uhInput{outpoint: 0, base: 2}
			default:
				first = explicitIn(0)
			}
		}
		st.ins = append(st.ins, first)
		if r.Chance(35) {
			switch r.Intn(6) {
			case 4, 5:
				st.ins = append(st.ins, uhInput{outpoint: 1, base: 3}) // same packet, same script, other key
			case 0:
				st.ins = append(st.ins, uhInput{outpoint: 1, base: 2})
			case 1:
				st.ins = append(st.ins, uhInput{outpoint: 1, base: 2, ops: alter(2)})
			case 2:
				st.ins = append(st.ins, explicitIn(1))
			default:
				st.ins = append(st.ins, uhInput{outpoint: 1, base: 1})
			}
			switch r.Intn(6) {
			case 0:
				st.idxs = []uint32{0}
			case 1:
				st.idxs = []uint32{1}
			case 2:
				st.idxs = []uint32{1, 0}
			case 3:
				st.idxs = []uint32{0, 1}
			case 4:
				if r.Chance(30) {
					st.idxs = []uint32{2}
				}
			}
		} else if r.Chance(30) {
			st.idxs = []uint32{0}
		}
		c.steps = append(c.steps, st)
	}
	// oracle for the unblinding side: ECDH of every confidential prevout with every key the
	// generator may try
	seen := map[string]bool{}
	for _, st := range c.steps {
		for _, in := range st.ins {
			if in.explicit {
				continue
			}
			f := [][]byte{bo[in.base][0], bo[in.base][1], bo[in.base][2], bo[in.base][3], bo[in.base][4]}
			for _, op := range in.ops {
				ubApplyOp(f, op)
			}
			keys := c.keys
			if c.mode == "m" {
				keys = [][]byte{addDerive(f[2])}
			}
			for _, k := range keys {
				id := hx(f[3]) + "/" + hx(k)
				if !seen[id] {
					seen[id] = true
					o.addEcdh(f[3], k)
				}
			}
		}
	}
	return c, o
}

func genUhistCases(r *Rng, n int, w *bufio.Writer) {
	for i := 0; i < n; i++ {
		c, o := genUhistCase(r)
		b := &sb{}
		c.write(b)
		o.write(b)
		fmt.Fprintln(w, ubTrimRight(b.String()))
	}
}

// ---------- S ----------

// On the real code: after an honest call, calls on the SAME generator instance for the same
// outpoint with an altered / replaced prevout must give an error or amounts that re-create
// the commitments of the prevout in the packet; and every answer must be the answer of a
// new generator to the same packet.
func checkC06Uhist(t *Toks) string {
	line := t.line
	c := readUhist(t)
	blinded := uhBlindBases(c)
	if blinded == nil {
		return "SKIP blind"
	}
	g, err := uhNewGenerator(c)
	if err != nil {
		return "SKIP generator"
	}
	for k, st := range c.steps {
		p, err := uhBuildPset(st, blinded, c.bases)
		if err != nil {
			return "SKIP build"
		}
		res, cls := uhUnblindGuard(g, p, st.idxs)
		// (a) the same packet on a new generator: an output that unblinds there must unblind here
		// to the same amounts (a step that only the history lets through is judged by b and c)
		fresh, _ := uhNewGenerator(c)
		p2, _ := uhBuildPset(st, blinded, c.bases)
		fres, fcls := uhUnblindGuard(fresh, p2, st.idxs)
		if fcls == "ok" && cls != "ok" {
			return fail("history-roundtrip", fmt.Sprintf("step%d:%s-after-history", k, cls))
		}
		if cls == "panic" {
			return fail("history-panic", fmt.Sprintf("step%d", k))
		}
		// (b) what is revealed re-creates the commitments of the prevout in this packet
		for _, ow := range res {
			if int(ow.Index) >= len(st.ins) {
				return fail("history-index", fmt.Sprintf("step%d", k))
			}
			in := st.ins[ow.Index]
			f := uhPrevout(in, blinded, c.bases)
			if in.explicit {
				continue
			}
			r := &confidential.UnblindOutputResult{Value: ow.Value, Asset: uhAssetBytes(ow.Asset),
				ValueBlindingFactor: ow.ValueBlinder, AssetBlindingFactor: ow.AssetBlinder}
			if ubRecreates(r, f[0], f[1]) != "1" {
				return fail("history-stale-amounts", fmt.Sprintf("step%d:input%d:revealed-data-does-not-recreate-the-prevout-commitments", k, ow.Index))
			}
			// (c) an altered script must not unblind at all
			if !bytes.Equal(f[2], c.bases[in.base].script) {
				return fail("history-tamper-script", fmt.Sprintf("step%d:input%d:unblinded-with-altered-script", k, ow.Index))
			}
		}
		if fcls == "ok" && uhFmt(res, cls) != uhFmt(fres, fcls) {
			return fail("history-differs-from-fresh", fmt.Sprintf("step%d", k))
		}
	}
	if v := uhCheckBlindOutputs(c, blinded); v != "OK" {
		return v
	}
	return uhCheckBlindOutputsMulti(c, blinded, line)
}

type uhBlinder interface {
	uhGen
	BlindOutputs(p *psetv2.Pset, outputIndexes []uint32) ([]psetv2.OutputBlindingArgs, error)
}

// BlindOutputs also reads the prevouts of the packet (revealInputs): after calls for a packet
// spending outpoint 0 with prevout A, a packet naming the same outpoint with prevout B (another
// asset) must be blinded against B: the surjection proof must verify against B's asset and the
// new output must unblind, with the output's blinding key, to exactly what BlindOutputs reports.
func uhCheckBlindOutputs(c *uhCase, blinded []*ubBlindedOut) string {
	repl := -1
	for _, i := range []int{3, 1, 2} {
		if i < len(c.bases) && !bytes.Equal(c.bases[i].asset, c.bases[0].asset) {
			repl = i
			break
		}
	}
	if repl < 0 {
		return "OK"
	}
	outKey := sha256.Sum256(append([]byte("uhist-out-key"), c.bases[0].esk...))
	outScript := append([]byte{0x00, 0x14}, outKey[:20]...)
	mkPacket := func(base int, amount uint64) (*psetv2.Pset, error) {
		b := c.bases[base]
		outs := []psetv2.OutputArgs{{
			Asset: hex.EncodeToString(elementsutil.ReverseBytes(b.asset)), Amount: amount,
			Script: outScript, BlindingKey: ubPubOf(outKey[:]), BlinderIndex: 0,
		}}
		p, err := psetv2.New([]psetv2.InputArgs{{Txid: uhTxid(0), TxIndex: 0}}, outs, nil)
		if err != nil {
			return nil, err
		}
		u, err := psetv2.NewUpdater(p)
		if err != nil {
			return nil, err
		}
		x := blinded[base]
		if err := u.AddInWitnessUtxo(0, &transaction.TxOutput{Asset: x.ac, Value: x.vc, Script: b.script, Nonce: b.E}); err != nil {
			return nil, err
		}
		if err := u.AddInUtxoRangeProof(0, x.proof); err != nil {
			return nil, err
		}
		return p, nil
	}
	blind := func(g uhBlinder, base int, amount uint64) (a *psetv2.OutputBlindingArgs, cls string) {
		defer func() {
			if e := recover(); e != nil {
				a, cls = nil, "panic"
			}
		}()
		p, err := mkPacket(base, amount)
		if err != nil {
			return nil, "build"
		}
		res, err := g.BlindOutputs(p, nil)
		if err != nil || len(res) != 1 {
			return nil, "err"
		}
		return &res[0], "ok"
	}
	newGen := func() uhBlinder {
		g, err := uhNewGenerator(c)
		if err != nil {
			return nil
		}
		b, _ := g.(uhBlinder)
		return b
	}
	judge := func(a *psetv2.OutputBlindingArgs, base int, amount uint64) string {
		b := c.bases[base]
		if !confidential.VerifySurjectionProof(confidential.VerifySurjectionProofArgs{
			InputAssets: [][]byte{b.asset}, InputAssetBlindingFactors: [][]byte{b.abf},
			OutputAsset: b.asset, OutputAssetBlindingFactor: a.AssetBlinder, Proof: a.AssetSurjectionProof,
		}) {
			return "surjection-proof-not-against-the-prevout-of-this-packet"
		}
		out := &transaction.TxOutput{Asset: a.AssetCommitment, Value: a.ValueCommitment, Script: outScript,
			Nonce: a.NonceCommitment, RangeProof: a.ValueRangeProof}
		r, cls := ubUnblindGuard(func() (*confidential.UnblindOutputResult, error) {
			return confidential.UnblindOutputWithKey(out, outKey[:])
		})
		if cls != "ok" || !ubSameUnblinded(r, amount, b.asset, a.ValueBlinder, a.AssetBlinder) {
			return "blinded-output-does-not-unblind-to-what-was-blinded:" + cls
		}
		return ""
	}
	// reference: a new generator on the second packet
	fresh := newGen()
	if fresh == nil {
		return "OK"
	}
	fa, fcls := blind(fresh, repl, 7)
	if fcls != "ok" {
		return "OK" // the replacement prevout is not revealable with these keys: nothing to compare
	}
	if d := judge(fa, repl, 7); d != "" {
		return fail("blindoutputs-roundtrip", "fresh:"+d)
	}
	g := newGen()
	if p, err := mkPacket(0, 5); err == nil {
		uhUnblindGuard(g, p, nil)
	}
	a1, cls1 := blind(g, 0, 5)
	if cls1 == "ok" {
		if d := judge(a1, 0, 5); d != "" {
			return fail("blindoutputs-roundtrip", "first:"+d)
		}
	}
	a2, cls2 := blind(g, repl, 7)
	if cls2 != "ok" {
		a2, cls2 = blind(g, repl, 7) // the surjection proof search is randomised: one retry
	}
	if cls2 != "ok" {
		return fail("history-blindoutputs", "same-outpoint-other-prevout:"+cls2+"-after-history-ok-on-a-new-generator")
	}
	if d := judge(a2, repl, 7); d != "" {
		return fail("history-blindoutputs", d)
	}
	return "OK"
}

// One BlindOutputs call for 2..4 outputs (distinct recipients), index list ascending,
// descending or shuffled.  EVERY returned element must describe its own output: the reported
// nonce is SHA256(ECDH(ephemeral public key, recipient key)) (the model's nonce_hash, evaluated
// with the real primitive), UnblindOutputWithNonce with that nonce and UnblindOutputWithKey with
// the recipient key return exactly the reported value / asset / blinders; and after BlindLast
// every output of the packet opens with its own recipient key.
func uhCheckBlindOutputsMulti(c *uhCase, blinded []*ubBlindedOut, line string) string {
	r := ubLineRng(line, 606)
	b0 := c.bases[0]
	n := 2 + r.Intn(3)
	if b0.value < uint64(n)+2 {
		return "OK"
	}
	type rcpt struct {
		key, script []byte
		amount      uint64
	}
	var rc []rcpt
	total := uint64(0)
	for i := 0; i < n; i++ {
		k := ubGenScalar(r)
		amt := b0.value / uint64(n+1)
		if i%2 == 1 && amt > 1 {
			amt -= uint64(r.Intn(int(amt%1000) + 1))
		}
		if amt == 0 {
			amt = 1
		}
		rc = append(rc, rcpt{key: k, script: append([]byte{0x00, 0x14}, r.Bytes(20)...), amount: amt})
		total += amt
	}
	assetStr := hex.EncodeToString(elementsutil.ReverseBytes(b0.asset))
	var outs []psetv2.OutputArgs
	for _, x := range rc {
		outs = append(outs, psetv2.OutputArgs{Asset: assetStr, Amount: x.amount, Script: x.script, BlindingKey: ubPubOf(x.key), BlinderIndex: 0})
	}
	outs = append(outs, psetv2.OutputArgs{Asset: assetStr, Amount: b0.value - total})
	p, err := psetv2.New([]psetv2.InputArgs{{Txid: uhTxid(0), TxIndex: 0}}, outs, nil)
	if err != nil {
		return "OK"
	}
	u, err := psetv2.NewUpdater(p)
	if err != nil {
		return "OK"
	}
	if err := u.AddInWitnessUtxo(0, &transaction.TxOutput{Asset: blinded[0].ac, Value: blinded[0].vc, Script: b0.script, Nonce: b0.E}); err != nil {
		return "OK"
	}
	if err := u.AddInUtxoRangeProof(0, blinded[0].proof); err != nil {
		return "OK"
	}
	gg, err := uhNewGenerator(c)
	if err != nil {
		return "OK"
	}
	g, ok := gg.(interface {
		uhBlinder
		psetv2.BlindingGenerator
	})
	if !ok {
		return "SKIP generator-interface"
	}
	// index list
	order := make([]uint32, n)
	for i := range order {
		order[i] = uint32(i)
	}
	kind := r.Intn(4)
	switch kind {
	case 0:
		order = nil
	case 1:
	case 2:
		for i, j := 0, n-1; i < j; i, j = i+1, j-1 {
			order[i], order[j] = order[j], order[i]
		}
	default:
		for i := n - 1; i > 0; i-- {
			j := r.Intn(i + 1)
			order[i], order[j] = order[j], order[i]
		}
	}
	tag := fmt.Sprintf("n%d:order%v", n, order)
	var args []psetv2.OutputBlindingArgs
	func() {
		defer func() {
			if e := recover(); e != nil {
				err = fmt.Errorf("panic")
			}
		}()
		args, err = g.BlindOutputs(p, order)
	}()
	if err != nil {
		// the surjection proof search is randomised; a refusal is not a wrong answer
		return "OK"
	}
	if len(args) != n {
		return fail("blindoutputs-count", tag)
	}
	for _, a := range args {
		if int(a.Index) >= n {
			return fail("blindoutputs-index", tag)
		}
		x := rc[a.Index]
		out := &transaction.TxOutput{Asset: a.AssetCommitment, Value: a.ValueCommitment, Script: x.script,
			Nonce: a.NonceCommitment, RangeProof: a.ValueRangeProof}
		want := []byte(nil)
		if secret := ubPrimEcdh(a.NonceCommitment, x.key); secret != nil {
			h := sha256.Sum256(secret)
			want = h[:]
		}
		if !bytes.Equal(a.Nonce, want) {
			return fail("blindoutputs-nonce", fmt.Sprintf("%s:element%d:reported-nonce-is-not-the-ecdh-nonce-of-its-recipient", tag, a.Index))
		}
		rn, cls := ubUnblindGuard(func() (*confidential.UnblindOutputResult, error) {
			return confidential.UnblindOutputWithNonce(ubCloneOut(out), a.Nonce)
		})
		if cls != "ok" || !ubSameUnblinded(rn, x.amount, b0.asset, a.ValueBlinder, a.AssetBlinder) {
			return fail("blindoutputs-nonce-roundtrip", fmt.Sprintf("%s:element%d:%s", tag, a.Index, cls))
		}
		rk, cls := ubUnblindGuard(func() (*confidential.UnblindOutputResult, error) {
			return confidential.UnblindOutputWithKey(ubCloneOut(out), x.key)
		})
		if cls != "ok" || !ubSameUnblinded(rk, x.amount, b0.asset, a.ValueBlinder, a.AssetBlinder) {
			return fail("blindoutputs-roundtrip", fmt.Sprintf("%s:element%d:%s", tag, a.Index, cls))
		}
	}
	// the last blinder re-creates commitment and proof of the highest output from these arguments
	owned, cls := uhUnblindGuard(g, p, nil)
	if cls != "ok" {
		return "OK"
	}
	blinder, err := psetv2.NewBlinder(p, owned, confidential.NewZKPValidator(), g)
	if err != nil {
		return "OK"
	}
	func() {
		defer func() {
			if e := recover(); e != nil {
				err = fmt.Errorf("panic")
			}
		}()
		err = blinder.BlindLast(nil, args)
	}()
	if err != nil {
		return "OK" // refusing to blind is not returning other amounts
	}
	for i, x := range rc {
		o := p.Outputs[i]
		out := &transaction.TxOutput{Asset: o.AssetCommitment, Value: o.ValueCommitment, Script: o.Script,
			Nonce: o.EcdhPubkey, RangeProof: o.ValueRangeproof}
		rk, cls := ubUnblindGuard(func() (*confidential.UnblindOutputResult, error) {
			return confidential.UnblindOutputWithKey(out, x.key)
		})
		if cls != "ok" || rk.Value != x.amount || !bytes.Equal(rk.Asset, b0.asset) {
			return fail("blindlast-roundtrip", fmt.Sprintf("%s:output%d:%s:recipient-cannot-open-its-own-output", tag, i, cls))
		}
		if ubRecreates(rk, out.Asset, out.Value) != "1" {
			return fail("blindlast-recreate", fmt.Sprintf("%s:output%d", tag, i))
		}
	}
	return "OK"
}

// boundary histories for corpus/uhist.txt
func genUhistCorpus(r *Rng, n int, w *bufio.Writer) {
	plans := []uhPlan{
		// same script, two owned keys: across packets, within one packet, and in the other order
		{mode: "k", steps: [][][2]int{{{0, 0}}, {{2, 3}}, {{0, 0}}}},
		{mode: "k", steps: [][][2]int{{{0, 0}, {1, 3}}}},
		{mode: "k", steps: [][][2]int{{{0, 3}}, {{1, 0}, {2, 3}}}},
		// same outpoint, replaced prevout (another amount), both constructors
		{mode: "k", steps: [][][2]int{{{0, 0}}, {{0, 1}}, {{0, 2}}}},
		{mode: "m", steps: [][][2]int{{{0, 0}}, {{0, 1}}, {{0, 2}}}},
	}
	for i := range plans {
		c, o := genUhistCasePlan(r, &plans[i])
		b := &sb{}
		c.write(b)
		o.write(b)
		fmt.Fprintln(w, ubTrimRight(b.String()))
	}
}

func init() {
	gens["uhist-corpus"] = genUhistCorpus
	gens["uhist"] = genUhistCases
	runs["uhist"] = runUhist
	checks["C06/uhist"] = checkC06Uhist
}
