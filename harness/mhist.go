package main

// mhist family (C20): one MerkleBlock object over time.  The fields of PartialMerkleTree are exported:
//
//	mhist <blob> <nops> (x | c <count hex> | f <bit index> | h <hash index> <byte index> <mask>)*
//
// x = ExtractMatches on the same object, c/f/h = TxTotalCount / VBits[i] / TxHashes[i][j] edited in place.
// run prints the verdict of every call; the model is a pure function of the object's present fields
// (plus FBad, the one thing ExtractMatches keeps).

import (
	"bufio"
	"bytes"
	"fmt"
	"strconv"
	"strings"

	"github.com/vulpemventures/go-elements/block"
)

type mhOp struct {
	kind    string
	a, b, c int
}

func readMHist(t *Toks) ([]byte, []mhOp) {
	blob := t.Hex()
	n := t.Int()
	var ops []mhOp
	for i := 0; i < n; i++ {
		o := mhOp{kind: t.Next()}
		switch o.kind {
		case "c":
			v, _ := strconv.ParseUint(t.Next(), 16, 32)
			o.a = int(v)
		case "f", "hd", "he":
			o.a = t.Int()
		case "ha":
			o.a, o.b = t.Int(), t.Int()
		case "h":
			o.a, o.b, o.c = t.Int(), t.Int(), t.Int()
		}
		ops = append(ops, o)
	}
	return blob, ops
}

func applyMHOp(mb *block.MerkleBlock, o mhOp) {
	pt := mb.PartialMerkleTree
	switch o.kind {
	case "c":
		pt.TxTotalCount = uint32(o.a)
	case "f":
		pt.VBits[o.a] = !pt.VBits[o.a]
	case "h":
		pt.TxHashes[o.a][o.b] ^= byte(o.c)
	case "ha": // the LENGTH of an entry changes: append a byte, drop the last byte, replace by an empty slice
		pt.TxHashes[o.a] = append(pt.TxHashes[o.a], byte(o.b))
	case "hd":
		pt.TxHashes[o.a] = pt.TxHashes[o.a][:len(pt.TxHashes[o.a])-1]
	case "he":
		pt.TxHashes[o.a] = []byte{}
	}
}

func extractVerdict(mb *block.MerkleBlock) string {
	root, ms, err := mb.ExtractMatches()
	if err != nil {
		return "err"
	}
	var l [][]byte
	for i := range ms {
		l = append(l, ms[i].CloneBytes())
	}
	return fmt.Sprintf("ok:%s:%s", hx(root.CloneBytes()), hexList(l))
}

func runMHist(t *Toks) string {
	blob, ops := readMHist(t)
	mb, err := block.NewMerkleBlockFromBuffer(bytes.NewBuffer(append([]byte{}, blob...)))
	if err != nil {
		return "err res=parse-err"
	}
	var out []string
	for _, o := range ops {
		if o.kind == "x" {
			out = append(out, fmt.Sprintf("x%d=%s", len(out), extractVerdict(mb)))
		} else {
			applyMHOp(mb, o)
		}
	}
	return strings.TrimSpace(fmt.Sprintf("calls=%d %s", len(out), strings.Join(out, " ")))
}

// S: with FBad clear on entry, whatever was extracted or edited before, a call on the object must return
// what a freshly decoded proof with the object's present count / hashes / flag bits returns (an altered
// count / flag / hash is an altered proof wherever the alteration is made).  FBad is an exported field of
// the value and part of it: an object that carries FBad = true is not a proof as built or decoded, and
// the expected verdict for it is "refused" (Bitcoin Core's CPartialMerkleTree behaves the same).
func checkC20MHist(t *Toks) string {
	blob, ops := readMHist(t)
	mb, err := block.NewMerkleBlockFromBuffer(bytes.NewBuffer(append([]byte{}, blob...)))
	if err != nil {
		return "SKIP parse-err"
	}
	calls := 0
	for k, o := range ops {
		if o.kind != "x" {
			applyMHOp(mb, o)
			continue
		}
		pt := mb.PartialMerkleTree
		fbadBefore := pt.FBad
		got := extractVerdict(mb)
		calls++
		if fbadBefore {
			if got != "err" {
				return fail("history-fbad-ignored", fmt.Sprintf("accepted-with-FBad-set/call=%d/op=%d", calls, k))
			}
			continue
		}
		// an entry that is not 32 bytes long is not a hash: such an object is an altered proof that no
		// wire encoding stands for, and it must be refused (chainhash.NewHash fails on the entry)
		badLen := false
		for _, h := range pt.TxHashes {
			badLen = badLen || len(h) != 32
		}
		if badLen {
			if got != "err" {
				return fail("history-bad-length-hash-accepted", fmt.Sprintf("call=%d/op=%d", calls, k))
			}
			continue
		}
		fresh := "err"
		if r := runProof(mkBlob(blob[:80], pt.TxTotalCount, pt.TxHashes, packBits(pt.VBits))); r.class == "ok" {
			fresh = fmt.Sprintf("ok:%s:%s", hx(r.root), hexList(r.matches))
		}
		if got == fresh {
			continue
		}
		what := "accepts-what-a-fresh-object-refuses"
		if got == "err" {
			what = "refuses-what-a-fresh-object-accepts"
		} else if fresh != "err" {
			what = "different-root-or-matches"
		}
		return fail("history-verdict-differs", fmt.Sprintf("%s/call=%d/op=%d/count=%d", what, calls, k, pt.TxTotalCount))
	}
	return "OK"
}

func mhistLine(blob []byte, ops []mhOp) string {
	var b sb
	b.add("mhist")
	b.addh(blob)
	b.addn(uint64(len(ops)))
	for _, o := range ops {
		b.add(o.kind)
		switch o.kind {
		case "c":
			b.add(strconv.FormatUint(uint64(uint32(o.a)), 16))
		case "f", "hd", "he":
			b.addn(uint64(o.a))
		case "ha":
			b.addn(uint64(o.a))
			b.addn(uint64(o.b))
		case "h":
			b.addn(uint64(o.a))
			b.addn(uint64(o.b))
			b.addn(uint64(o.c))
		}
	}
	return strings.TrimSpace(b.String())
}

func genMHistCase(r *Rng, shape int) string {
	n := 1 + r.Intn(12)
	if r.Chance(12) {
		n = 13 + r.Intn(30)
	}
	var matched []bool
	switch shape {
	case 0: // 7 transactions, the last one matched, count altered to 8 after a successful call
		n = 7
		matched = make([]bool, n)
		matched[n-1] = true
	case 1: // one-transaction proof, count altered to 2..17
		n = 1
		matched = []bool{true}
	default:
		matched = randMatch(r, n)
	}
	txids := randTxids(r, n)
	special := -1 // a transaction id that ends in a zero byte (shape 10) or is all zero (shape 11), present in the proof
	if shape == 10 || shape == 11 {
		special = r.Intn(n)
		matched[special] = true
		if shape == 10 {
			txids[special][31] = 0
		} else {
			txids[special] = make([]byte, 32)
		}
	}
	p := mkPMT(txids, matched)
	flags := packBits(p.bits)
	blob := mkBlob(mkHeader(r, mkRootLevels(txids)), uint32(n), p.hashes, flags)
	x := mhOp{kind: "x"}
	count := func() mhOp {
		return mhOp{kind: "c", a: r.Pick(n+1, n+1, n-1, 2*n, n+2, n+4, n+8, 0, 16667, n+1+r.Intn(16))}
	}
	back := mhOp{kind: "c", a: n}
	flip := mhOp{kind: "f", a: r.Intn(8 * len(flags))}
	hsh := mhOp{kind: "h", a: r.Intn(len(p.hashes)), b: r.Intn(32), c: 1 << uint(r.Intn(8))}
	si := 0
	for i, h := range p.hashes {
		if special >= 0 && bytes.Equal(h, txids[special]) {
			si = i
		}
	}
	hi := r.Intn(len(p.hashes))
	var ops []mhOp
	switch shape {
	case 9: // a surplus byte appended to an entry, then removed again
		ops = []mhOp{x, {kind: "ha", a: hi, b: r.Pick(0, 0, 1, 0xff, r.Intn(256))}, x, {kind: "hd", a: hi}, x}
	case 10: // the trailing zero byte of an entry cut off, then put back
		ops = []mhOp{x, {kind: "hd", a: si}, x, {kind: "ha", a: si, b: 0}, x}
	case 11: // an all-zero entry replaced by an empty slice
		ops = []mhOp{x, {kind: "he", a: si}, x}
	case 0:
		ops = []mhOp{x, {kind: "c", a: 8}, x}
	case 1:
		ops = []mhOp{x, {kind: "c", a: 2 + r.Intn(16)}, x}
	case 2:
		ops = []mhOp{x, count(), x, back, x}
	case 3: // a bad proof first, then edited back to the genuine one
		ops = []mhOp{count(), x, back, x}
	case 4:
		ops = []mhOp{x, flip, x, flip, x}
	case 5:
		ops = []mhOp{x, hsh, x, hsh, x}
	case 6: // hash altered first (may set FBad via overflow? no: via a different root only), then restored
		ops = []mhOp{hsh, x, hsh, x, count(), x}
	default:
		k := 3 + r.Intn(6)
		for i := 0; i < k; i++ {
			switch r.Intn(6) {
			case 0:
				ops = append(ops, count())
			case 1:
				ops = append(ops, back)
			case 2:
				ops = append(ops, mhOp{kind: "f", a: r.Intn(8 * len(flags))})
			case 3:
				ops = append(ops, mhOp{kind: "h", a: r.Intn(len(p.hashes)), b: r.Intn(32), c: 1 << uint(r.Intn(8))})
			default:
				ops = append(ops, x)
			}
		}
		ops = append(ops, x)
	}
	return mhistLine(blob, ops)
}

func genMHist(r *Rng, n int, w *bufio.Writer) {
	for i := 0; i < n; i++ {
		fmt.Fprintln(w, genMHistCase(r, i%13))
	}
}

func init() {
	gens["mhist"] = genMHist
	runs["mhist"] = runMHist
	checks["C20/mhist"] = checkC20MHist
}
