package main

// S oracle for C10 (family vsig): the property stated directly on the implementation.
//
//  (1) whenever ValidateInputSignatures reports valid, an independent check (specValid)
//      must agree that every partial signature is a correct ECDSA signature by the stated
//      key over the digest computed from the script and amount of the output the input
//      actually spends (previous transaction hashing to the outpoint txid, redeem / witness
//      scripts committed to by the spent script), with the key occurring in the script
//      being satisfied;
//  (2) validation never panics on a packet (whose only defects are field values);
//  (3) for a genuinely valid packet, every single-field corruption (bit flips of the
//      signatures, of covered transaction fields, of the spent script and amount, a
//      substituted previous transaction with a lower / higher id, a key that is not in the
//      script, disagreeing utxo records, re-signing over any other script/amount the
//      validator might pick) is again subject to (1) and (2).
//
// Sites: prevtx-id, redeem-script, witness-script, spent-script, amount, sig, key-in-script, panic.

import (
	"bytes"
	"crypto/sha256"
	"encoding/hex"
	"hash/fnv"
	"strings"

	"github.com/btcsuite/btcd/btcec/v2"
	"github.com/btcsuite/btcd/btcec/v2/ecdsa"
	"github.com/btcsuite/btcd/txscript"
	"github.com/vulpemventures/go-elements/payment"
	"github.com/vulpemventures/go-elements/transaction"
)

func isP2WPKHs(s []byte) bool { return len(s) == 22 && s[0] == 0 && s[1] == 0x14 }
func isP2WSHs(s []byte) bool  { return len(s) == 34 && s[0] == 0 && s[1] == 0x20 }
func isP2SHs(s []byte) bool {
	return len(s) == 23 && s[0] == 0xa9 && s[1] == 0x14 && s[22] == 0x87
}

func (c *vsCase) outpointOf(k int) ([]byte, uint32, bool) {
	if c.ver == 0 {
		if k >= len(c.tx.Inputs) {
			return nil, 0, false
		}
		return c.tx.Inputs[k].Hash, c.tx.Inputs[k].Index, true
	}
	return c.ins[k].prevTxid, c.ins[k].prevIndex, true
}

// spentOutput is the output the input actually spends: the outpoint's output of the supplied
// previous transaction, else the witness utxo record.
func (c *vsCase) spentOutput(k int) *transaction.TxOutput {
	in := c.ins[k]
	if in.nonwit != nil {
		_, pidx, ok := c.outpointOf(k)
		if !ok || int64(pidx) >= int64(len(in.nonwit.Outputs)) {
			return nil
		}
		return in.nonwit.Outputs[pidx]
	}
	return in.wit
}

// keyInPushes: the compressed key or HASH160(pub) occurs, byte aligned, in a data push
func keyInPushes(script []byte, pk *btcec.PublicKey, pub []byte) bool {
	comp := pk.SerializeCompressed()
	h := payment.Hash160(pub)
	tok := txscript.MakeScriptTokenizer(0, script)
	for tok.Next() {
		d := tok.Data()
		if bytes.Contains(d, comp) || bytes.Contains(d, h) {
			return true
		}
	}
	return false
}

// specValid decides the first sentence of the property for input k, independently of the
// validator. Returns ok, or the site/detail of the first clause that fails.
func (c *vsCase) specValid(k int) (bool, string, string) {
	in := c.ins[k]
	if len(in.sigs) == 0 {
		return false, "sig", "no-signatures"
	}
	ophash, _, ok := c.outpointOf(k)
	if !ok {
		return false, "internal", "no-outpoint"
	}
	if in.nonwit != nil {
		h := in.nonwit.TxHash()
		if !bytes.Equal(h.CloneBytes(), ophash) {
			switch bytes.Compare(h.CloneBytes(), ophash) {
			case 1:
				return false, "prevtx-id", "utxo-id-greater-than-outpoint-v" + string(rune('0'+c.ver))
			default:
				return false, "prevtx-id", "utxo-id-lower-than-outpoint-v" + string(rune('0'+c.ver))
			}
		}
	}
	spent := c.spentOutput(k)
	if spent == nil {
		return false, "internal", "no-spent-output"
	}
	spk := spent.Script
	algo := 0
	code := spk
	switch {
	case isP2WPKHs(spk):
		algo, code = 1, p2pkhScript(spk[2:])
	case isP2WSHs(spk):
		if !bytes.Equal(sha256b(in.witscript), spk[2:]) { // a nil witness script is the empty script
			return false, "witness-script", "not-committed-by-spent-script"
		}
		algo, code = 1, in.witscript
	case isP2SHs(spk) && in.redeem == nil:
		// no redeem script supplied: the property's "script of the output" is the P2SH script itself
		algo, code = 0, spk
	case isP2SHs(spk):
		if !bytes.Equal(payment.Hash160(in.redeem), spk[2:22]) {
			return false, "redeem-script", "not-committed-by-spent-script"
		}
		switch {
		case isP2WPKHs(in.redeem):
			algo, code = 1, p2pkhScript(in.redeem[2:])
		case isP2WSHs(in.redeem):
			if !bytes.Equal(sha256b(in.witscript), in.redeem[2:]) {
				return false, "witness-script", "not-committed-by-redeem-script"
			}
			algo, code = 1, in.witscript
		default:
			algo, code = 0, in.redeem
		}
	}
	stx := c.sigTx()
	for _, s := range in.sigs {
		if !s.present || len(s.sig) == 0 {
			return false, "sig", "missing"
		}
		pk, err := btcec.ParsePubKey(s.pub)
		if err != nil {
			return false, "sig", "bad-key"
		}
		der := s.sig[:len(s.sig)-1]
		ht := s.sig[len(s.sig)-1]
		psig, err := ecdsa.ParseDERSignature(der)
		if err != nil {
			return false, "sig", "bad-der"
		}
		d, ok := vsDigest(stx, algo, k, code, spent.Value, ht)
		if !ok || !psig.Verify(d, pk) {
			// attribute
			if in.redeem != nil && !isP2SHs(spk) {
				return false, "redeem-script", "spent-script-not-p2sh"
			}
			if len(spk) > 0 && spk[0] == 0 && !isP2WPKHs(spk) && !isP2WSHs(spk) {
				return false, "spent-script", "malformed-witness-program-treated-as-segwit"
			}
			if algo == 1 && in.wit != nil && !bytes.Equal(in.wit.Value, spent.Value) {
				if d2, ok2 := vsDigest(stx, algo, k, code, in.wit.Value, ht); ok2 && psig.Verify(d2, pk) {
					cls := "-p2wsh"
					if isP2WPKHs(spk) || (isP2SHs(spk) && isP2WPKHs(in.redeem)) {
						cls = "-p2wpkh"
					}
					return false, "amount", "witness-utxo-overrides-previous-output" + cls
				}
			}
			return false, "sig", "not-valid-for-spent-output"
		}
		sat := code
		if algo == 1 && (isP2WPKHs(spk) || (isP2SHs(spk) && isP2WPKHs(in.redeem))) {
			sat = spk
			if isP2SHs(spk) {
				sat = in.redeem
			}
		}
		if !keyInPushes(sat, pk, s.pub) {
			asm, _ := txscript.DisasmString(sat)
			if strings.Contains(asm, hex.EncodeToString(pk.SerializeCompressed())) || strings.Contains(asm, hex.EncodeToString(payment.Hash160(s.pub))) {
				return false, "key-in-script", "nibble-shifted-hex-match"
			}
			return false, "key-in-script", "absent"
		}
	}
	return true, "", ""
}

// classifyPanic names the unchecked expression that a panicking validation hit
func (c *vsCase) classifyPanic(k int) string {
	in := c.ins[k]
	for _, s := range in.sigs {
		if !s.present {
			return "sig-nil-element"
		}
		if s.pub == nil || (c.ver == 2 && len(s.pub) == 0) {
			return "unclassified"
		}
		if len(s.sig) == 0 {
			return "sig-empty"
		}
		var script []byte
		if in.nonwit != nil {
			_, pidx, ok := c.outpointOf(k)
			if !ok {
				return "tx-input-index"
			}
			if int64(pidx) >= int64(len(in.nonwit.Outputs)) {
				return "prev-output-index"
			}
			script = in.nonwit.Outputs[pidx].Script
		} else if in.wit != nil {
			script = in.wit.Script
		} else {
			return "unclassified"
		}
		if in.redeem != nil {
			script = in.redeem
		}
		if len(script) == 0 {
			return "script-empty"
		}
		if script[0] == 0 && len(script) < 2 {
			return "script-one-byte"
		}
		if in.nonwit != nil && script[0] == 0 && len(script) == 22 && in.wit == nil {
			return "witness-utxo-nil"
		}
		if k >= len(c.tx.Inputs) {
			return "tx-input-index"
		}
		// this signature cannot panic; the next one is only reached if this one was valid
	}
	return "unclassified"
}

// judge applies clauses (1) and (2) to one packet
func (c *vsCase) judge(k int, what string) string {
	if f := c.judgeResult(k, c.validate(k), what); f != "" {
		return f
	}
	return c.judgeAll(what)
}

// judgeAll: ValidateAllSignatures reports valid only if every input is genuinely valid
func (c *vsCase) judgeAll(what string) string {
	switch c.validateAll() {
	case "panic":
		return fail("panic", "validate-all/"+what)
	case "true":
		for j := range c.ins {
			if ok, site, detail := c.specValid(j); !ok {
				return fail(site, detail+"/validate-all/input-"+itoa(j)+"-of-"+itoa(len(c.ins))+"/"+what)
			}
		}
	}
	return ""
}

// judgeHistory: the packet object of `from` is validated first, then its fields are replaced
// by those of c, then it is validated again; the second verdict is judged as c's
func (c *vsCase) judgeHistory(from *vsCase, k int, what string) string {
	o := from.clone().object() // deep copy: the object must not share storage with `from`
	o.validate(k)
	o.validateAll()
	if !o.apply(c) {
		return ""
	}
	return c.judgeResult(k, o.validate(k), what+"+after-validating-the-original-object")
}

func (c *vsCase) judgeResult(k int, r string, what string) string {
	switch r {
	case "panic":
		return fail("panic", c.classifyPanic(k)+"/"+what)
	case "true":
		if ok, site, detail := c.specValid(k); !ok {
			return fail(site, detail+"/"+what)
		}
	}
	return ""
}

func (c *vsCase) clone() *vsCase {
	var b sb
	c.writePacket(&b)
	return parseVs(trimSp(b.String()))
}

func (c *vsCase) keyFor(pub []byte) *vsKey {
	p, ok := c.privs[string(pub)]
	if !ok || len(p) == 0 {
		return nil
	}
	priv, _ := btcec.PrivKeyFromBytes(p)
	return &vsKey{priv: priv, pub: pub}
}

func (c *vsCase) setOutpointHash(k int, h []byte) {
	c.ins[k].prevTxid = h
	if k < len(c.tx.Inputs) {
		c.tx.Inputs[k].Hash = append([]byte{}, h...)
	}
}

func (c *vsCase) setOutpointIndex(k int, idx uint32) {
	c.ins[k].prevIndex = idx
	if k < len(c.tx.Inputs) {
		c.tx.Inputs[k].Index = idx
	}
}

func flipAt(b []byte, bit int) []byte {
	o := append([]byte{}, b...)
	o[bit/8] ^= 1 << uint(bit%8)
	return o
}

func checkC10Vs(t *Toks) string {
	c := readVs(t)
	k := c.idx
	if k >= len(c.ins) {
		return "SKIP caller-index-out-of-range"
	}
	if c.ver == 0 && len(c.tx.Inputs) != len(c.ins) {
		return "SKIP not-wf-input-counts"
	}
	for _, in := range c.ins {
		for _, s := range in.sigs {
			if !s.present {
				return "SKIP not-wf-nil-sig-element"
			}
		}
	}
	if f := c.judge(k, "as-given"); f != "" {
		return f
	}
	// ValidateAllSignatures: valid only if every input is
	if c.validateAll() == "true" {
		for j := range c.ins {
			if ok, site, detail := c.specValid(j); !ok {
				return fail(site, detail+"/validate-all")
			}
		}
	}
	if c.validate(k) != "true" {
		return "OK not-valid"
	}
	// genuinely valid: the corruption matrix
	h := fnv.New64a()
	h.Write([]byte(t.line))
	r := NewRng(h.Sum64())
	n := 0
	var fails []string
	seen := map[string]bool{}
	note := func(f string) {
		if f == "" {
			return
		}
		key := f
		if i := strings.Index(f, "/"); i >= 0 {
			key = f[:i]
		}
		if !seen[key] {
			seen[key] = true
			fails = append(fails, f)
		}
	}
	tryFrom := func(src *vsCase, what string, mut func(d *vsCase) bool) string {
		d := src.clone()
		d.privs = c.privs
		if !mut(d) {
			return ""
		}
		n++
		note(d.judgeResult(k, d.validate(k), what))
		// ValidateAllSignatures on the corrupted packet, and the same corruption applied in place
		// to an object that was validated before (both skipped for the two bulk classes)
		if !strings.HasPrefix(what, "sig-bit-flip") && !strings.Contains(what, "+resigned") {
			note(d.judgeAll(what))
			note(d.judgeHistory(c, k, what))
			// the same packet with a final script next to the partial signatures of input k
			if d.ins[k].finalSig == nil && d.ins[k].finalWit == nil {
				d2 := d.clone()
				d2.ins[k].finalWit = []byte{0x01, 0x51}
				note(d2.judgeAll(what + "+final-script-next-to-partial-signatures"))
			}
		}
		return ""
	}
	try := func(what string, mut func(d *vsCase) bool) string { return tryFrom(c, what, mut) }
	in := c.ins[k]
	// --- signatures
	for j, s := range in.sigs {
		L := len(s.sig)
		var bits []int
		for b := 0; b < 8; b++ {
			bits = append(bits, (L-1)*8+b, b, 8+b, 24+b)
		}
		for x := 0; x < 16; x++ {
			bits = append(bits, r.Intn(L*8))
		}
		for _, bit := range bits {
			j, bit := j, bit
			if f := try("sig-bit-flip", func(d *vsCase) bool {
				d.ins[k].sigs[j].sig = flipAt(d.ins[k].sigs[j].sig, bit)
				return true
			}); f != "" {
				return f
			}
		}
		j := j
		if f := try("sig-emptied", func(d *vsCase) bool { d.ins[k].sigs[j].sig = []byte{}; return true }); f != "" {
			return f
		}
		if f := try("sig-hashtype-dropped", func(d *vsCase) bool {
			d.ins[k].sigs[j].sig = d.ins[k].sigs[j].sig[:L-1]
			return true
		}); f != "" {
			return f
		}
		// a valid signature by a key that is not in the script
		if f := try("key-not-in-script", func(d *vsCase) bool {
			nk := genKey(r)
			sg := d.ins[k].sigs[j]
			ht := sg.sig[len(sg.sig)-1]
			// sign the very digest the original signature verifies for
			dg := c.signedDigest(k, j)
			if dg == nil {
				return false
			}
			sg.pub = nk.pub
			sg.sig = signDigest(nk, dg, ht)
			return true
		}); f != "" {
			return f
		}
		// signed for another hash type than the byte it carries (e.g. the input's declared type)
		if f := try("signed-for-other-hash-type", func(d *vsCase) bool {
			sg := d.ins[k].sigs[j]
			key := d.keyFor(sg.pub)
			dg := c.signedDigest(k, j)
			if key == nil || dg == nil {
				return false
			}
			ht := sg.sig[len(sg.sig)-1]
			decl := vsHashTypes[r.Intn(len(vsHashTypes))]
			if decl == ht {
				return false
			}
			d.ins[k].sighash = uint32(decl)
			// re-sign over every candidate with the declared type, keep the carried byte
			ok := false
			scripts, amounts := d.candidates(k)
			for _, sc := range scripts {
				for _, am := range amounts {
					for algo := 0; algo < 2; algo++ {
						if dd, ok2 := vsDigest(c.sigTx(), algo, k, sc, am, ht); ok2 && bytes.Equal(dd, dg) {
							d.resign(k, j, key, algo, sc, am, decl)
							sg.sig[len(sg.sig)-1] = ht
							ok = true
						}
					}
				}
			}
			return ok
		}); f != "" {
			return f
		}
		// the stated key re-encoded (same point: uncompressed, hybrid, or compressed), signature untouched
		for _, form := range []int{4, 6, 2} {
			form := form
			if f := try("key-reencoded", func(d *vsCase) bool {
				sg := d.ins[k].sigs[j]
				pk, err := btcec.ParsePubKey(sg.pub)
				if err != nil {
					return false
				}
				var enc []byte
				if form == 2 {
					enc = pk.SerializeCompressed()
				} else {
					enc = reencodeKey(pk, form)
				}
				if bytes.Equal(enc, sg.pub) {
					return false
				}
				sg.pub = enc
				return true
			}); f != "" {
				return f
			}
		}
		if f := try("key-bit-flip", func(d *vsCase) bool {
			d.ins[k].sigs[j].pub = flipBit(d.ins[k].sigs[j].pub, r)
			return true
		}); f != "" {
			return f
		}
	}
	// --- covered transaction fields
	allHT, anyACP := true, false
	single := false
	for _, s := range in.sigs {
		ht := s.sig[len(s.sig)-1]
		if ht&0x1f != 1 {
			allHT = false
		}
		if ht&0x1f == 3 {
			single = true
		}
		if ht&0x80 != 0 {
			anyACP = true
		}
	}
	txMuts := []struct {
		name string
		f    func(d *vsCase) bool
	}{
		{"tx-version-bit", func(d *vsCase) bool {
			d.tx.Version ^= 1 << uint(r.Intn(31))
			return !(d.ver == 2 && d.tx.Version < 2)
		}},
		{"tx-locktime-bit", func(d *vsCase) bool { d.tx.Locktime ^= 1 << uint(r.Intn(32)); return true }},
		{"tx-own-sequence-bit", func(d *vsCase) bool {
			d.tx.Inputs[k].Sequence ^= 1 << uint(r.Intn(32))
			return d.tx.Inputs[k].Sequence != 0
		}},
		{"outpoint-hash-bit", func(d *vsCase) bool {
			hh, _, _ := d.outpointOf(k)
			d.setOutpointHash(k, flipBit(hh, r))
			return true
		}},
		{"outpoint-index-bit", func(d *vsCase) bool {
			_, pi, _ := d.outpointOf(k)
			d.setOutpointIndex(k, pi^(1<<uint(r.Intn(3))))
			return true
		}},
		{"tx-output-bit", func(d *vsCase) bool {
			var o *transaction.TxOutput
			switch {
			case allHT:
				o = d.tx.Outputs[r.Intn(len(d.tx.Outputs))]
			case single && len(in.sigs) == 1 && k < len(d.tx.Outputs):
				o = d.tx.Outputs[k]
			default:
				return false
			}
			switch r.Intn(3) {
			case 0:
				o.Value = flipAt(o.Value, 8+r.Intn(64))
			case 1:
				if len(o.Script) == 0 {
					o.Script = []byte{0x51}
				} else {
					o.Script = flipBit(o.Script, r)
				}
			default:
				o.Asset = flipAt(o.Asset, 8+r.Intn(256))
			}
			return true
		}},
		{"tx-other-outpoint-bit", func(d *vsCase) bool {
			if anyACP || len(d.ins) < 2 {
				return false
			}
			o := (k + 1) % len(d.ins)
			hh, _, _ := d.outpointOf(o)
			d.setOutpointHash(o, flipBit(hh, r))
			return true
		}},
	}
	for _, m := range txMuts {
		for rep := 0; rep < 4; rep++ {
			if f := try(m.name, m.f); f != "" {
				return f
			}
		}
	}
	// --- spent script and amount (the record(s) describing the spent output)
	spent := c.spentOutput(k)
	for byteIdx := 0; byteIdx < len(spent.Script); byteIdx++ {
		bit := byteIdx*8 + r.Intn(8)
		if f := try("spent-script-bit", func(d *vsCase) bool {
			o := d.spentOutput(k)
			o.Script = flipAt(o.Script, bit)
			if d.ins[k].nonwit != nil && d.ins[k].wit != nil {
				d.ins[k].wit.Script = append([]byte{}, o.Script...)
			}
			return true
		}); f != "" {
			return f
		}
	}
	for rep := 0; rep < 8; rep++ {
		if f := try("spent-amount-bit", func(d *vsCase) bool {
			o := d.spentOutput(k)
			o.Value = flipAt(o.Value, 8+r.Intn((len(o.Value)-1)*8))
			if d.ins[k].nonwit != nil && d.ins[k].wit != nil {
				d.ins[k].wit.Value = append([]byte{}, o.Value...)
			}
			return true
		}); f != "" {
			return f
		}
	}
	// --- substituted previous transaction: one id lower, one higher than the outpoint txid
	if in.nonwit != nil {
		ophash, _, _ := c.outpointOf(k)
		for _, want := range []int{-1, 1} {
			want := want
			if f := try("prevtx-substituted", func(d *vsCase) bool {
				for i := 0; i < 64; i++ {
					d.ins[k].nonwit.Locktime = uint32(r.U64())
					hh := d.ins[k].nonwit.TxHash()
					if bytes.Compare(hh.CloneBytes(), ophash) == want {
						return true
					}
				}
				return false
			}); f != "" {
				return f
			}
		}
	}
	// --- disagreeing utxo records and re-signing over everything the validator might pick
	resignAll := func(d *vsCase, algo int, script, amount []byte) bool {
		for j, s := range d.ins[k].sigs {
			key := d.keyFor(s.pub)
			if key == nil {
				return false
			}
			if !d.resign(k, j, key, algo, script, amount, s.sig[len(s.sig)-1]) {
				return false
			}
		}
		return true
	}
	variants := []struct {
		name string
		f    func(d *vsCase) bool
	}{
		{"as-is", func(d *vsCase) bool { return true }},
		{"witness-utxo-amount-differs", func(d *vsCase) bool {
			if d.ins[k].nonwit == nil {
				return false
			}
			sp := d.spentOutput(k)
			if d.ins[k].wit == nil {
				d.ins[k].wit = vsOut(r, append([]byte{}, sp.Script...), append([]byte{}, sp.Value...))
			}
			d.ins[k].wit.Value = flipAt(d.ins[k].wit.Value, 8+r.Intn((len(d.ins[k].wit.Value)-1)*8))
			return true
		}},
		{"witness-utxo-script-differs", func(d *vsCase) bool {
			if d.ins[k].nonwit == nil || d.ins[k].wit == nil {
				return false
			}
			d.ins[k].wit.Script = flipBit(d.ins[k].wit.Script, r)
			return true
		}},
		{"witness-utxo-dropped", func(d *vsCase) bool {
			if d.ins[k].nonwit == nil || d.ins[k].wit == nil {
				return false
			}
			d.ins[k].wit = nil
			return true
		}},
		{"scripts-swapped", func(d *vsCase) bool {
			if d.ins[k].redeem == nil && d.ins[k].witscript == nil {
				return false
			}
			d.ins[k].redeem, d.ins[k].witscript = d.ins[k].witscript, d.ins[k].redeem
			return true
		}},
		{"witness-script-moved-to-redeem-script", func(d *vsCase) bool {
			if d.ins[k].witscript == nil {
				return false
			}
			d.ins[k].redeem, d.ins[k].witscript = d.ins[k].witscript, nil
			return true
		}},
		{"redeem-script-moved-to-witness-script", func(d *vsCase) bool {
			if d.ins[k].redeem == nil {
				return false
			}
			d.ins[k].witscript, d.ins[k].redeem = d.ins[k].redeem, nil
			return true
		}},
		{"redeem-script-replaced", func(d *vsCase) bool {
			key := d.keyFor(d.ins[k].sigs[0].pub)
			if key == nil {
				return false
			}
			d.ins[k].sigs = d.ins[k].sigs[:1]
			d.ins[k].redeem = p2pkhScript(payment.Hash160(key.pub))
			return true
		}},
		{"witness-script-replaced", func(d *vsCase) bool {
			key := d.keyFor(d.ins[k].sigs[0].pub)
			if key == nil || d.ins[k].witscript == nil {
				return false
			}
			d.ins[k].sigs = d.ins[k].sigs[:1]
			d.ins[k].witscript = multisigScript(1, [][]byte{key.priv.PubKey().SerializeCompressed()})
			return true
		}},
	}
	for _, v := range variants {
		base := c.clone()
		base.privs = c.privs
		if !v.f(base) {
			continue
		}
		note(base.judge(k, v.name))
		note(base.judgeHistory(c, k, v.name))
		n++
		scripts, amounts := base.candidates(k)
		for _, sc := range scripts {
			sc := sc
			if f := tryFrom(base, v.name+"+resigned-legacy", func(d *vsCase) bool {
				return resignAll(d, 0, sc, nil)
			}); f != "" {
				return f
			}
			for _, am := range amounts {
				am := am
				if f := tryFrom(base, v.name+"+resigned-v0", func(d *vsCase) bool {
					return resignAll(d, 1, sc, am)
				}); f != "" {
					return f
				}
			}
		}
	}
	if len(fails) > 0 {
		// one verdict per case: rotate over the distinct failing clauses so that every class is reported by some case
		return fails[int(h.Sum64()%uint64(len(fails)))]
	}
	return "OK valid-and-" + itoa(n) + "-corruptions-rejected"
}

func itoa(n int) string {
	if n == 0 {
		return "0"
	}
	s := ""
	for n > 0 {
		s = string(rune('0'+n%10)) + s
		n /= 10
	}
	return s
}

// signedDigest returns the digest that signature j of input k verifies for, among the
// candidates (nil if none)
func (c *vsCase) signedDigest(k, j int) []byte {
	s := c.ins[k].sigs[j]
	pk, err := btcec.ParsePubKey(s.pub)
	if err != nil || len(s.sig) == 0 {
		return nil
	}
	psig, err := ecdsa.ParseDERSignature(s.sig[:len(s.sig)-1])
	if err != nil {
		return nil
	}
	ht := s.sig[len(s.sig)-1]
	stx := c.sigTx()
	scripts, amounts := c.candidates(k)
	for _, sc := range scripts {
		if d, ok := vsDigest(stx, 0, k, sc, nil, ht); ok && psig.Verify(d, pk) {
			return d
		}
		for _, am := range amounts {
			if d, ok := vsDigest(stx, 1, k, sc, am, ht); ok && psig.Verify(d, pk) {
				return d
			}
		}
	}
	return nil
}

var _ = sha256.Sum256

// S on a two-step history: every verdict obtained from the one object is judged
func checkC10Vh(t *Toks) string {
	a, b := readVh(t)
	if a.idx >= len(a.ins) || b.idx >= len(b.ins) {
		return "SKIP caller-index-out-of-range"
	}
	for _, c := range []*vsCase{a, b} {
		if c.ver == 0 && len(c.tx.Inputs) != len(c.ins) {
			return "SKIP not-wf-input-counts"
		}
		for _, in := range c.ins {
			for _, s := range in.sigs {
				if !s.present {
					return "SKIP not-wf-nil-sig-element"
				}
			}
		}
	}
	o := a.object()
	if f := a.judgeResult(a.idx, o.validate(a.idx), "first-validation"); f != "" {
		return f
	}
	o.validateAll()
	if !o.apply(b) {
		return "SKIP shape-mismatch"
	}
	if f := b.judgeResult(b.idx, o.validate(b.idx), "second-validation-after-in-place-change"); f != "" {
		return f
	}
	if o.validateAll() == "true" {
		for j := range b.ins {
			if ok, site, detail := b.specValid(j); !ok {
				return fail(site, detail+"/validate-all-after-in-place-change")
			}
		}
	}
	return "OK"
}

func init() {
	checks["C10/vhist"] = checkC10Vh
	checks["C10/vsig"] = checkC10Vs
	checks["C10/disasm"] = func(t *Toks) string { return "OK" }
}
