package main

// C05 — pset (v0) Blinder runner and the case generators for bv2 / bv0.

import (
	"bufio"
	"errors"
	"fmt"
	"sort"
	"strings"
	"sync"

	"github.com/vulpemventures/go-elements/confidential"
	"github.com/vulpemventures/go-elements/elementsutil"
	"github.com/vulpemventures/go-elements/pset"
	"github.com/vulpemventures/go-elements/transaction"
)

type bvV0Result struct {
	Res     string // ok / err / panic
	SurjErr bool   // the error was ErrGenerateSurjectionProof
	P       *pset.Pset
}

func (w *bvWorld) buildV0() (*pset.Pset, error) {
	sh := w.sh
	ins := []*transaction.TxInput{}
	for _, wi := range w.ins {
		ins = append(ins, transaction.NewTxInput(wi.txid, wi.vout))
	}
	outs := []*transaction.TxOutput{}
	for j, o := range sh.Outs {
		val, _ := elementsutil.ValueToBytes(o.Value)
		outs = append(outs, transaction.NewTxOutput(append([]byte{0x01}, w.outs[j].asset...), val, w.outs[j].script))
	}
	p, err := pset.New(ins, outs, 2, 0)
	if err != nil {
		return nil, err
	}
	up, err := pset.NewUpdater(p)
	if err != nil {
		return nil, err
	}
	for i, wi := range w.ins {
		po := *wi.prevout
		if err := up.AddInWitnessUtxo(&po, i); err != nil {
			return nil, err
		}
		in := sh.Ins[i]
		amt := func(v uint64) []byte {
			if v == 0 {
				return []byte{0x00}
			}
			b, _ := elementsutil.ValueToBytes(v)
			return b
		}
		switch in.Iss {
		case 1:
			p.UnsignedTx.Inputs[i].Issuance = &transaction.TxIssuance{
				AssetBlindingNonce: make([]byte, 32), AssetEntropy: make([]byte, 32),
				AssetAmount: amt(in.IssValue), TokenAmount: amt(in.IssToken),
			}
		case 2:
			p.UnsignedTx.Inputs[i].Issuance = &transaction.TxIssuance{
				AssetBlindingNonce: append([]byte{}, wi.abf...), AssetEntropy: append([]byte{}, wi.entropy...),
				AssetAmount: amt(in.IssValue), TokenAmount: []byte{0x00},
			}
		}
	}
	return p, nil
}

func bvRunV0(w *bvWorld, stream [][]byte) (res *bvV0Result) {
	sh := w.sh
	res = &bvV0Result{}
	p, err := w.buildV0()
	if err != nil {
		panic("buildV0: " + err.Error())
	}
	res.P = p
	defer func() {
		if e := recover(); e != nil {
			res.Res = "panic"
		}
	}()
	likes := []pset.BlindingDataLike{}
	for i, wi := range w.ins {
		if sh.Ctor0 == 1 {
			likes = append(likes, pset.PrivateBlindingKey(wi.blindPriv))
		} else {
			likes = append(likes, pset.BlindingData{
				Value: sh.Ins[i].Value, Asset: append([]byte{}, wi.asset...),
				ValueBlindingFactor: append([]byte{}, wi.vbf...), AssetBlindingFactor: append([]byte{}, wi.abf...),
			})
		}
	}
	sel := map[int][]byte{}
	for _, j := range sh.Sel {
		if j < len(w.outs) {
			sel[j] = w.outs[j].blindPub
		} else {
			sel[j] = w.outs[0].blindPub
		}
	}
	var keys []pset.IssuanceBlindingPrivateKeys
	if sh.IssKeys {
		for _, wi := range w.ins {
			k := pset.IssuanceBlindingPrivateKeys{AssetKey: wi.blindPriv, TokenKey: wi.blindPriv}
			if sh.NoTokKey {
				k.TokenKey = nil
			}
			keys = append(keys, k)
		}
	}
	pos := 0
	rng := func() ([]byte, error) {
		if pos >= len(stream) {
			return nil, errors.New("rng exhausted")
		}
		pos++
		return append([]byte{}, stream[pos-1]...), nil
	}
	b, err := pset.NewBlinder(p, likes, sel, keys, rng)
	if err != nil {
		res.Res = "err"
		return
	}
	if err := b.Blind(); err != nil {
		res.Res = "err"
		res.SurjErr = err == pset.ErrGenerateSurjectionProof
		return
	}
	res.Res = "ok"
	return
}

func bvV0IssuanceView(w *bvWorld, p *pset.Pset) []bvIssView {
	v := make([]bvIssView, len(p.UnsignedTx.Inputs))
	for i, in := range p.UnsignedTx.Inputs {
		if in.Issuance == nil {
			continue
		}
		v[i].has = true
		v[i].asset = w.ins[i].issAsset
		v[i].token = w.ins[i].issToken
		v[i].amountRP = in.IssuanceRangeProof
		v[i].tokenRP = in.InflationRangeProof
	}
	return v
}

func bvV0ResultLine(w *bvWorld, r *bvV0Result) string {
	if r.Res != "ok" {
		return "res=" + r.Res
	}
	tx := r.P.UnsignedTx
	var os, is []string
	for j, o := range tx.Outputs {
		if !o.IsConfidential() {
			os = append(os, "-")
			continue
		}
		u, err := confidential.UnblindOutputWithKey(o, w.outs[j].blindPriv)
		if err != nil {
			os = append(os, "unblind-fail")
			continue
		}
		os = append(os, hx(u.AssetBlindingFactor)+":"+hx(u.ValueBlindingFactor))
	}
	for i, in := range tx.Inputs {
		if in.Issuance == nil || !in.HasConfidentialIssuance() {
			is = append(is, "-")
			continue
		}
		u, err := confidential.UnblindIssuance(in, [][]byte{w.ins[i].blindPriv, w.ins[i].blindPriv})
		if err != nil {
			is = append(is, "unblind-fail")
			continue
		}
		s := hx(u.Asset.ValueBlindingFactor)
		if u.Token != nil {
			s += ":" + hx(u.Token.ValueBlindingFactor)
		} else {
			s += ":-"
		}
		is = append(is, s)
	}
	bal, err := w.balanced(tx, bvV0IssuanceView(w, r.P))
	bs := b2s(bal)
	if err != nil {
		bs = "x"
	}
	return "res=ok o=" + strings.Join(os, ",") + " iss=" + strings.Join(is, ",") + " bal=" + bs
}

// the true openings of the spent outputs follow the shape on the line (input of the model);
// they must be the ones the world derives from the seed
func bvReadOpenings(t *Toks, w *bvWorld) {
	for _, wi := range w.ins {
		a, v := t.Next(), t.Next()
		if a != hx(wi.abf) || v != hx(wi.vbf) {
			panic("openings on the case line differ from the world")
		}
	}
}

func bvReadV0Obs(t *Toks) (sok bool, stream [][]byte) {
	if t.Next() != "|" {
		panic("format")
	}
	sok = t.Int() == 1
	stream = t.HexList()
	return
}

func runBV0Line(t *Toks) string {
	sh := bvReadShape(t, true)
	w := bvBuildWorld(sh, sh.Ctor0 == 1, true)
	bvReadOpenings(t, w)
	_, stream := bvReadV0Obs(t)
	r := bvRunV0(w, stream)
	return bvV0ResultLine(w, r)
}

// ---------------------------------------------------------------- generators

func bvRandValue(r *Rng) uint64 {
	switch r.Intn(6) {
	case 0:
		return uint64(1 + r.Intn(10))
	case 1:
		return 1 << 51
	case 2:
		return (1 << 51) - uint64(r.Intn(1000))
	default:
		return 1 + r.U64()%(1<<uint(10+r.Intn(40)))
	}
}

// bvSplit v into k positive parts (k <= v)
func bvSplit(r *Rng, v uint64, k int) []uint64 {
	if uint64(k) > v {
		k = int(v)
	}
	parts := make([]uint64, k)
	rest := v - uint64(k)
	for i := range parts {
		parts[i] = 1
	}
	for i := 0; i < k-1; i++ {
		x := uint64(0)
		if rest > 0 {
			x = r.U64() % (rest + 1)
		}
		parts[i] += x
		rest -= x
	}
	parts[k-1] += rest
	return parts
}

// common part of a shape: inputs (with at most one issuance), outputs conserving every asset, fee last
// forceReiss: a reissuance whose asset is also spent by another input of the same transaction
func bvGenCommon(r *Rng, nIn, maxOut int, v0 bool, forceReiss bool) *bvShape {
	sh := &bvShape{Seed: r.U64() >> 1}
	nAssets := 1 + r.Intn(3)
	for i := 0; i < nIn; i++ {
		a := r.Intn(nAssets)
		if i == 0 {
			a = 0
		}
		sh.Ins = append(sh.Ins, bvIn{Conf: r.Chance(55), Asset: a, Value: bvRandValue(r)})
	}
	if sh.Ins[0].Value < 3 {
		sh.Ins[0].Value += 3
	}
	if forceReiss || r.Chance(35) {
		i := nIn - 1
		if r.Chance(40) {
			i = r.Intn(nIn)
		}
		if forceReiss && i == 0 {
			i = 1 + r.Intn(nIn-1)
		}
		if (forceReiss || r.Chance(30)) && i > 0 {
			sh.Ins[i].Iss = 2
			sh.Ins[i].Conf = true
			sh.Ins[i].Asset = 200 + i
			sh.Ins[i].Value = uint64(1 + r.Intn(3))
			sh.Ins[i].IssValue = bvRandValue(r)
			// the reissued asset may already exist and be spent next to its reissuance
			if nIn >= 3 && (forceReiss || r.Chance(40)) {
				j := 1 + r.Intn(nIn-1)
				for j == i {
					j = 1 + r.Intn(nIn-1)
				}
				sh.Ins[j].Asset = 100 + i
				sh.Ins[j].Conf = forceReiss || r.Chance(70)
			}
		} else {
			sh.Ins[i].Iss = 1
			sh.Ins[i].IssValue = bvRandValue(r)
			sh.Ins[i].IssToken = uint64(r.Pick(0, 1, 1, 5))
			sh.Ins[i].IssBlinded = r.Bool()
			if !v0 && sh.Ins[i].IssToken > 0 && r.Chance(15) { // token-only issuance: null asset amount
				sh.Ins[i].IssValue = 0
			}
			if !v0 && r.Chance(30) { // a packet made elsewhere: no blinded-issuance flag field
				sh.Ins[i].IssBlinded = false
				sh.Ins[i].IssNoFlag = true
			}
		}
	}
	// totals per asset
	tot := map[int]uint64{}
	order := []int{}
	add := func(a int, v uint64) {
		if v == 0 {
			return
		}
		if _, ok := tot[a]; !ok {
			order = append(order, a)
		}
		tot[a] += v
	}
	for i, in := range sh.Ins {
		add(in.Asset, in.Value)
		if in.Iss != 0 {
			add(100+i, in.IssValue)
			if in.Iss == 1 {
				add(200+i, in.IssToken)
			}
		}
	}
	fee := uint64(1 + r.Intn(2))
	tot[0] -= fee
	budget := maxOut
	for k, a := range order {
		left := len(order) - k - 1
		m := 1
		if budget-left > 1 {
			m = 1 + r.Intn(bvMin(3, budget-left))
		}
		budget -= m
		for _, v := range bvSplit(r, tot[a], m) {
			pb := 85
			if a >= 200 && a-200 < len(sh.Ins) && sh.Ins[a-200].Iss == 1 && (sh.Ins[a-200].IssNoFlag || !sh.Ins[a-200].IssBlinded) {
				pb = 40 // leave the token output explicit more often
			}
			sh.Outs = append(sh.Outs, bvOut{Asset: a, Value: v, Blind: r.Chance(pb)})
		}
	}
	// shuffle outputs, make sure one is blinded
	for i := len(sh.Outs) - 1; i > 0; i-- {
		j := r.Intn(i + 1)
		sh.Outs[i], sh.Outs[j] = sh.Outs[j], sh.Outs[i]
	}
	sh.Outs[r.Intn(len(sh.Outs))].Blind = true
	sh.Outs = append(sh.Outs, bvOut{Asset: 0, Value: fee, Fee: true})
	if r.Chance(10) {
		sh.Spec = 1
	}
	return sh
}

func bvMin(a, b int) int {
	if a < b {
		return a
	}
	return b
}

// three or four parties, each with an input of its own (confidential more often than not) and at
// least one output of the same asset to blind: exchanges that run to completion
func bvGenV2Multi(r *Rng) *bvShape {
	nPar := r.Pick(3, 3, 4)
	sh := &bvShape{Seed: r.U64() >> 1}
	for k := 0; k < nPar; k++ {
		a := r.Intn(3)
		if k == 0 {
			a = 0
		}
		v := bvRandValue(r)
		if v < 4 {
			v += 4
		}
		sh.Ins = append(sh.Ins, bvIn{Conf: r.Chance(65), Asset: a, Value: v})
	}
	fee := uint64(1 + r.Intn(2))
	extra := r.Intn(nPar + 1) // this party (if any) gets two outputs
	sh.Parties = make([]bvParty, nPar)
	for k := 0; k < nPar; k++ {
		v := sh.Ins[k].Value
		if k == 0 {
			v -= fee
		}
		m := 1
		if k == extra {
			m = 2
		}
		for _, x := range bvSplit(r, v, m) {
			sh.Parties[k].Outs = append(sh.Parties[k].Outs, uint32(len(sh.Outs)))
			sh.Outs = append(sh.Outs, bvOut{Asset: sh.Ins[k].Asset, Value: x, Blind: true, BlinderIdx: uint32(k)})
		}
	}
	sh.Outs = append(sh.Outs, bvOut{Asset: 0, Value: fee, Fee: true})
	ownAllExplicit := r.Chance(30)
	for k := 0; k < nPar; k++ {
		for i := 0; i < nPar; i++ {
			if i == k || (ownAllExplicit && !sh.Ins[i].Conf) {
				sh.Parties[k].Own = append(sh.Parties[k].Own, uint32(i))
			}
		}
	}
	for i := nPar - 1; i > 0; i-- {
		j := r.Intn(i + 1)
		sh.Parties[i], sh.Parties[j] = sh.Parties[j], sh.Parties[i]
	}
	bvAddRetry(r, sh, 45)
	return sh
}

// the last party first calls BlindLast with only some of its outputs (refused: outputs would remain
// unblinded with the scalars gone), then calls it again, correctly, on the same in-memory packet
func bvAddRetry(r *Rng, sh *bvShape, pct int) {
	n := len(sh.Parties)
	if n < 2 || !r.Chance(pct) {
		return
	}
	lp := &sh.Parties[n-1]
	if len(lp.Outs) < 2 {
		// give the last party the role of the one with two outputs if there is one
		for k := 0; k < n-1; k++ {
			if len(sh.Parties[k].Outs) >= 2 {
				sh.Parties[k], sh.Parties[n-1] = sh.Parties[n-1], sh.Parties[k]
				break
			}
		}
		lp = &sh.Parties[n-1]
	}
	if len(lp.Outs) < 2 {
		return
	}
	k := 1 + r.Intn(len(lp.Outs)-1)
	lp.Fail = append([]uint32{}, lp.Outs[:k]...)
}

// history on one generator object: two or three single-party packets, each spending other
// confidential coins at the same input indexes
func bvGenHistStep(r *Rng) *bvShape {
	nIn := 1 + r.Intn(3)
	sh := bvGenCommon(r, nIn, 3, false, false)
	sh.Spec = 0
	sh.Ins[0].Conf = true
	pa := bvParty{Ctor: 1}
	for i := range sh.Ins {
		pa.Own = append(pa.Own, uint32(i))
	}
	for j := range sh.Outs {
		if sh.Outs[j].Blind {
			sh.Outs[j].BlinderIdx = 0
			pa.Outs = append(pa.Outs, uint32(j))
		}
	}
	sh.Parties = []bvParty{pa}
	return sh
}

func bvHistLine(shapes []*bvShape) string {
	gen := bvSharedGen(shapes)
	var parts []string
	for _, sh := range shapes {
		w := bvBuildWorld(sh, true, false)
		res := bvRunV2With(w, gen)
		var b sb
		sh.write(&b, false)
		for _, wi := range w.ins {
			b.add(hx(wi.abf))
			b.add(hx(wi.vbf))
		}
		b.add("|")
		res.writeObs(&b)
		parts = append(parts, strings.TrimSpace(b.String()))
	}
	return "bvh " + strings.Join(parts, " ;; ")
}

func genBVH(r *Rng, n int, w *bufio.Writer) {
	hists := make([][]*bvShape, n)
	for i := range hists {
		k := r.Pick(2, 2, 3)
		for j := 0; j < k; j++ {
			hists[i] = append(hists[i], bvGenHistStep(r))
		}
	}
	bvGenParallel(n, func(i int) string { return bvHistLine(hists[i]) }, w)
}

func bvGenV2Shape(r *Rng) *bvShape {
	if r.Chance(30) {
		return bvGenV2Multi(r)
	}
	nPar := r.Pick(1, 1, 1, 2, 2, 3)
	nIn := nPar + r.Intn(6-nPar)
	sh := bvGenCommon(r, nIn, 5, false, false)
	// strict owner of every input
	owner := make([]int, nIn)
	perm := make([]int, nIn)
	for i := range perm {
		perm[i] = i
	}
	for i := nIn - 1; i > 0; i-- {
		j := r.Intn(i + 1)
		perm[i], perm[j] = perm[j], perm[i]
	}
	for k, i := range perm {
		if k < nPar {
			owner[i] = k
		} else {
			owner[i] = r.Intn(nPar)
		}
	}
	sh.Parties = make([]bvParty, nPar)
	ownAllExplicit := r.Chance(35)
	ctor := 0
	if r.Chance(20) {
		ctor = 1
	}
	for k := range sh.Parties {
		sh.Parties[k].Ctor = ctor
		for i := 0; i < nIn; i++ {
			if owner[i] == k || (ownAllExplicit && !sh.Ins[i].Conf && sh.Ins[i].Iss == 0) {
				sh.Parties[k].Own = append(sh.Parties[k].Own, uint32(i))
			}
		}
		if r.Chance(30) {
			o := sh.Parties[k].Own
			for i := len(o) - 1; i > 0; i-- {
				j := r.Intn(i + 1)
				o[i], o[j] = o[j], o[i]
			}
		}
	}
	primary := func(k int) uint32 {
		c := []uint32{}
		for i := 0; i < nIn; i++ {
			if owner[i] == k {
				c = append(c, uint32(i))
			}
		}
		return c[r.Intn(len(c))]
	}
	spread := r.Chance(90) // normally every party gets something to blind
	next := 0
	for j := range sh.Outs {
		o := &sh.Outs[j]
		if !o.Blind {
			continue
		}
		// a party can only prove surjection onto assets it sees among its own inputs
		cand := []int{}
		for i, in := range sh.Ins {
			if in.Asset == o.Asset {
				cand = append(cand, owner[i])
			}
		}
		k := r.Intn(nPar)
		if len(cand) > 0 && r.Chance(92) {
			k = cand[r.Intn(len(cand))]
			if spread && next < nPar {
				for _, c := range cand {
					if c == next {
						k = c
						next++
						break
					}
				}
			}
		}
		if o.Asset >= 100 && o.Asset%100 < nIn && sh.Ins[o.Asset%100].Iss != 0 && sh.Ins[o.Asset%100].Asset != o.Asset {
			k = owner[o.Asset%100] // issued assets are blinded by the owner of the issuing input
		}
		o.BlinderIdx = primary(k)
		sh.Parties[k].Outs = append(sh.Parties[k].Outs, uint32(j))
	}
	for k := range sh.Parties {
		if r.Chance(25) {
			o := sh.Parties[k].Outs
			for i := len(o) - 1; i > 0; i-- {
				j := r.Intn(i + 1)
				o[i], o[j] = o[j], o[i]
			}
		}
	}
	for i, in := range sh.Ins {
		// BlindIssuances only accepts the issuance of the last input (index check), ask elsewhere rarely
		if in.Iss != 0 && (r.Chance(55) || in.IssNoFlag || in.IssValue == 0) && (i == nIn-1 || r.Chance(15)) {
			sh.Parties[owner[i]].Iss = []uint32{uint32(i)}
		}
	}
	// a party with nothing to blind normally hands its inputs to another one and does not take part
	if r.Chance(88) {
		keep := []bvParty{}
		var idle []bvParty
		for _, p := range sh.Parties {
			if len(p.Outs) > 0 {
				keep = append(keep, p)
			} else {
				idle = append(idle, p)
			}
		}
		if len(keep) > 0 {
			for _, p := range idle {
				k := r.Intn(len(keep))
				for _, i := range p.Own {
					dup := false
					for _, x := range keep[k].Own {
						dup = dup || x == i
					}
					if !dup {
						keep[k].Own = append(keep[k].Own, i)
					}
				}
				keep[k].Iss = append(keep[k].Iss, p.Iss...)
			}
			sh.Parties = keep
			nPar = len(keep)
		}
	}
	// parties act in a random order; prefer a last party that has something to blind
	for i := nPar - 1; i > 0; i-- {
		j := r.Intn(i + 1)
		sh.Parties[i], sh.Parties[j] = sh.Parties[j], sh.Parties[i]
	}
	if len(sh.Parties[nPar-1].Outs) == 0 && r.Chance(85) {
		for k := range sh.Parties {
			if len(sh.Parties[k].Outs) > 0 {
				sh.Parties[k], sh.Parties[nPar-1] = sh.Parties[nPar-1], sh.Parties[k]
				break
			}
		}
	}
	bvAddRetry(r, sh, 20)
	// a few deliberately wrong requests (guards of validate / validateBlindingArgs)
	if r.Chance(6) {
		k := r.Intn(nPar)
		owns := func(i uint32) bool {
			for _, x := range sh.Parties[k].Own {
				if x == i {
					return true
				}
			}
			return false
		}
		switch r.Intn(4) {
		case 0:
			sh.Parties[k].Outs = append(sh.Parties[k].Outs, uint32(len(sh.Outs)+r.Intn(2)))
		case 1:
			sh.Parties[k].Outs = append(sh.Parties[k].Outs, uint32(len(sh.Outs)-1)) // the fee output
		case 2: // an output whose blinder index is not one of this party's inputs
			for j, o := range sh.Outs {
				if o.Blind && !owns(o.BlinderIdx) {
					sh.Parties[k].Outs = append(sh.Parties[k].Outs, uint32(j))
					break
				}
			}
		case 3: // the same output twice in one call (accepted by the library; outside the property)
			if len(sh.Parties[k].Outs) > 0 {
				sh.Parties[k].Outs = append(sh.Parties[k].Outs, sh.Parties[k].Outs[0])
			}
		}
	}
	return sh
}

func bvGenV0Shape(r *Rng) *bvShape {
	nIn := 1 + r.Intn(5)
	force := r.Chance(18) // blinded reissuance of an asset that is spent in the same transaction
	if force && nIn < 3 {
		nIn = 3 + r.Intn(2)
	}
	sh := bvGenCommon(r, nIn, 5, true, force)
	for i := range sh.Ins {
		sh.Ins[i].IssBlinded = false
	}
	sh.IssKeys = force || r.Chance(60)
	sh.NoTokKey = sh.IssKeys && !force && r.Chance(25)
	if r.Chance(20) {
		sh.Ctor0 = 1
	}
	n := len(sh.Outs) - 1 // fee is last
	c := r.Intn(100)
	if force {
		c = r.Intn(75) // a request that can succeed
	}
	switch {
	case c < 60: // every spendable output
		for j := 0; j < n; j++ {
			sh.Outs[j].Blind = true
			sh.Sel = append(sh.Sel, j)
		}
	case c < 75: // a prefix
		k := 1 + r.Intn(n)
		for j := 0; j < n; j++ {
			sh.Outs[j].Blind = j < k
			if j < k {
				sh.Sel = append(sh.Sel, j)
			}
		}
	case c < 95: // not starting at 0 / with gaps
		sh.Outs[r.Intn(n)].Blind = false
		if n == 1 || r.Chance(50) {
			sh.Outs[0].Blind = false
		}
		for j := 0; j < n; j++ {
			if sh.Outs[j].Blind {
				sh.Sel = append(sh.Sel, j)
			}
		}
	case c < 98: // fee output selected as well
		for j := 0; j <= n; j++ {
			sh.Outs[j].Blind = true
			sh.Sel = append(sh.Sel, j)
		}
	default: // out of range
		sh.Sel = append(sh.Sel, 0, n+1+r.Intn(2))
	}
	return sh
}

// gen: the generator runs the scenario once and appends what it observed
func bvGenParallel(n int, mk func(i int) string, w *bufio.Writer) {
	lines := make([]string, n)
	var wg sync.WaitGroup
	sem := make(chan struct{}, 8)
	for i := 0; i < n; i++ {
		wg.Add(1)
		sem <- struct{}{}
		go func(i int) {
			defer wg.Done()
			defer func() { <-sem }()
			lines[i] = mk(i)
		}(i)
	}
	wg.Wait()
	for _, l := range lines {
		fmt.Fprintln(w, l)
	}
}

func bvV2CaseLine(sh *bvShape) string {
	needProofs := false
	for _, p := range sh.Parties {
		if p.Ctor != 0 {
			needProofs = true
		}
	}
	w := bvBuildWorld(sh, needProofs, false)
	res := bvRunV2(w)
	var b sb
	b.add("bv2")
	sh.write(&b, false)
	// true openings of the spent outputs
	for _, wi := range w.ins {
		b.add(hx(wi.abf))
		b.add(hx(wi.vbf))
	}
	b.add("|")
	res.writeObs(&b)
	return strings.TrimSpace(b.String())
}

func genBV2(r *Rng, n int, w *bufio.Writer) {
	shapes := make([]*bvShape, n)
	for i := range shapes {
		shapes[i] = bvGenV2Shape(r)
	}
	bvGenParallel(n, func(i int) string { return bvV2CaseLine(shapes[i]) }, w)
}

func bvV0CaseLine(sh *bvShape) string {
	w := bvBuildWorld(sh, sh.Ctor0 == 1, true)
	sr := NewRng(sh.Seed*13 + 5)
	stream := [][]byte{}
	for i := 0; i < 24; i++ {
		stream = append(stream, bvScalar32(sr, sh.Spec))
	}
	res := bvRunV0(w, stream)
	var b sb
	b.add("bv0")
	sh.write(&b, true)
	for _, wi := range w.ins {
		b.add(hx(wi.abf))
		b.add(hx(wi.vbf))
	}
	b.add("|")
	b.add(b2s(!res.SurjErr))
	b.addl(stream)
	return strings.TrimSpace(b.String())
}

func genBV0(r *Rng, n int, w *bufio.Writer) {
	shapes := make([]*bvShape, n)
	for i := range shapes {
		shapes[i] = bvGenV0Shape(r)
	}
	bvGenParallel(n, func(i int) string { return bvV0CaseLine(shapes[i]) }, w)
}

var _ = sort.Ints
