package main

import (
	"bufio"
	"bytes"
	"fmt"

	"github.com/btcsuite/btcd/chaincfg/chainhash"
	"github.com/btcsuite/btcd/txscript"
	"github.com/vulpemventures/go-elements/transaction"
)

// sh <algo> <idx> <ht> <script> <value> <nscripts> s.. <nassets> a.. <nvalues> v.. <genesis> <hasleaf> [leaf] <hasannex> [annex] <tx...>
type shCase struct {
	algo    string
	idx     int
	ht      uint32
	script  []byte
	value   []byte
	scripts [][]byte
	assets  [][]byte
	values  [][]byte
	genesis []byte
	leaf    []byte
	hasLeaf bool
	annex   []byte
	hasAnx  bool
	tx      *transaction.Transaction
}

func readSh(t *Toks) *shCase {
	c := &shCase{}
	c.algo = t.Next()
	c.idx = t.Int()
	c.ht = uint32(t.U64())
	c.script = t.Hex()
	c.value = t.Hex()
	c.scripts = t.HexList()
	c.assets = t.HexList()
	c.values = t.HexList()
	c.genesis = t.Hex()
	if t.Int() == 1 {
		c.hasLeaf = true
		c.leaf = t.Hex()
	}
	if t.Int() == 1 {
		c.hasAnx = true
		c.annex = t.Hex()
		if c.annex == nil {
			c.annex = []byte{}
		}
	}
	c.tx = readTx(t)
	return c
}

func (c *shCase) write(b *sb) {
	b.add("sh")
	b.add(c.algo)
	b.addn(uint64(c.idx))
	b.addn(uint64(c.ht))
	b.addh(c.script)
	b.addh(c.value)
	b.addl(c.scripts)
	b.addl(c.assets)
	b.addl(c.values)
	b.addh(c.genesis)
	if c.hasLeaf {
		b.add("1")
		b.addh(c.leaf)
	} else {
		b.add("0")
	}
	if c.hasAnx {
		b.add("1")
		b.addh(c.annex)
	} else {
		b.add("0")
	}
	writeTx(b, c.tx)
}

func (c *shCase) digest() (res string) {
	defer func() {
		if e := recover(); e != nil {
			res = "panic"
		}
	}()
	switch c.algo {
	case "legacy":
		h, err := c.tx.HashForSignature(c.idx, c.script, txscript.SigHashType(c.ht))
		if err != nil {
			return "err"
		}
		return hx(h[:])
	case "v0":
		h := c.tx.HashForWitnessV0(c.idx, c.script, c.value, txscript.SigHashType(c.ht))
		return hx(h[:])
	case "v1":
		var g chainhash.Hash
		copy(g[:], c.genesis)
		var leaf *chainhash.Hash
		if c.hasLeaf {
			var l chainhash.Hash
			copy(l[:], c.leaf)
			leaf = &l
		}
		var annex []byte
		if c.hasAnx {
			annex = c.annex
		}
		h := c.tx.HashForWitnessV1(c.idx, c.scripts, c.assets, c.values, txscript.SigHashType(c.ht), &g, leaf, annex)
		return hx(h[:])
	}
	return "bad-algo"
}

var hashTypes = []uint32{0, 1, 2, 3, 0x81, 0x82, 0x83, 0x41, 0x42, 0x43, 0xc1, 0xc2, 0xc3}

func genShCase(r *Rng) *shCase {
	c := &shCase{}
	c.algo = []string{"legacy", "v0", "v1"}[r.Intn(3)]
	tx := genTx(r, true)
	for len(tx.Inputs) == 0 || len(tx.Inputs) > 8 || len(tx.Outputs) > 8 {
		tx = genTx(r, true)
	}
	c.tx = tx
	c.idx = r.Intn(len(tx.Inputs))
	c.ht = hashTypes[r.Intn(len(hashTypes))]
	if c.algo != "v1" && c.ht == 0 {
		c.ht = 1
	}
	if r.Chance(3) {
		c.ht = uint32(r.U64() & 0xff)
	}
	c.script = r.Bytes(r.Pick(0, 1, 22, 25, 35, 0xfc, 0xfd))
	c.value = genValue(r, false)
	if c.algo == "v1" {
		for range tx.Inputs {
			c.scripts = append(c.scripts, r.Bytes(r.Pick(0, 22, 34, 34, 0xfd)))
			c.assets = append(c.assets, genAsset(r, false))
			c.values = append(c.values, genValue(r, false))
		}
		c.genesis = r.Bytes(32)
		if r.Chance(40) {
			c.hasLeaf = true
			c.leaf = r.Bytes(32)
		}
		if r.Chance(30) {
			c.hasAnx = true
			c.annex = r.Bytes(r.Pick(0, 1, 10, 0xfd))
		}
	}
	if c.algo == "legacy" && r.Chance(5) {
		c.idx = len(tx.Inputs) + r.Intn(2) // out-of-range index: the code returns One
	}
	return c
}

func genShCases(r *Rng, n int, w *bufio.Writer) {
	for i := 0; i < n; i++ {
		var b sb
		genShCase(r).write(&b)
		fmt.Fprintln(w, b.String())
	}
}

func runSh(t *Toks) string {
	c := readSh(t)
	warmSh(c)
	d := c.digest()
	// the same digest through the secondary entry point: on the domain where parsing a serialization gives the
	// transaction back field by field (wfTx, the domain of C01), the transaction read from its own bytes must hash alike
	if len(d) == 64 && wfTx(c.tx) {
		var back *transaction.Transaction
		if guarded(func() {
			ser, err := c.tx.Serialize()
			if err == nil {
				back, _ = transaction.NewTxFromBuffer(bytes.NewBuffer(ser))
			}
		}) != nil || back == nil {
			return "d=not-readable-from-its-own-bytes"
		}
		c2 := *c
		c2.tx = back
		if d2 := c2.digest(); d2 != d {
			return "d=differs-when-read-from-its-own-bytes:" + d2
		}
	}
	return "d=" + d
}

// warmSh makes the transaction object of the case a used one: it is hashed in a different state (every covered field
// class edited in place, counts unchanged) and then edited in place back to the state of the case. A digest must be a
// function of the current field values, not of what the object was when it was first hashed.
func warmSh(c *shCase) {
	tx := c.tx
	save := tx.Copy()
	save.Flag = tx.Flag
	tx.Version ^= 1
	tx.Locktime ^= 1
	for _, in := range tx.Inputs {
		in.Sequence ^= 0x80000000
		if len(in.Hash) > 0 {
			in.Hash = flipLast(in.Hash)
		}
		if in.Issuance != nil {
			in.Issuance.AssetEntropy = flipLast(in.Issuance.AssetEntropy)
		}
		in.IssuanceRangeProof = grow(in.IssuanceRangeProof)
	}
	for _, o := range tx.Outputs {
		o.Value = altValue(o.Value)
		o.Script = grow(o.Script)
		o.RangeProof = grow(o.RangeProof)
		o.SurjectionProof = grow(o.SurjectionProof)
	}
	_ = c.digest()
	tx.Version, tx.Locktime = save.Version, save.Locktime
	for i := range tx.Inputs {
		*tx.Inputs[i] = *save.Inputs[i]
	}
	for i := range tx.Outputs {
		*tx.Outputs[i] = *save.Outputs[i]
	}
}

func init() {
	gens["sh"] = genShCases
	runs["sh"] = runSh
}

// shd: cases restricted to the domain of C03 (layouts fixed by the specifications)
func genShdCases(r *Rng, n int, w *bufio.Writer) {
	for i := 0; i < n; i++ {
		c := genShCase(r)
		switch c.algo {
		case "legacy":
			c.ht = uint32(r.Pick(1, 2, 3, 1, 2, 3, 0x81, 0x82, 0x83))
			if c.idx >= len(c.tx.Inputs) {
				c.idx = 0
			}
			if c.ht&0x1f == 3 {
				c.idx = 0
			}
		case "v0":
			c.ht = uint32(r.Pick(1, 2, 3, 0x81, 0x82, 0x83))
		case "v1":
			c.ht = uint32(r.Pick(0, 1, 2, 3, 0x81, 0x82, 0x83))
		}
		var b sb
		c.write(&b)
		s := b.String()
		fmt.Fprintln(w, "shd"+s[2:])
	}
}

func init() {
	gens["shd"] = genShdCases
	runs["shd"] = runSh
}
