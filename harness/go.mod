module verifharness

go 1.17

require (
	github.com/btcsuite/btcd v0.24.0
	github.com/btcsuite/btcd/btcec/v2 v2.3.3
	github.com/btcsuite/btcd/btcutil v1.1.5
	github.com/btcsuite/btcd/btcutil/psbt v1.1.9
	github.com/btcsuite/btcd/chaincfg/chainhash v1.1.0
	github.com/vulpemventures/fastsha256 v0.0.0-20160815193821-637e65642941
	github.com/vulpemventures/go-elements v0.0.0
	github.com/vulpemventures/go-secp256k1-zkp v1.1.6
)

require (
	github.com/btcsuite/btclog v0.0.0-20170628155309-84c8d2346e9f // indirect
	github.com/decred/dcrd/crypto/blake256 v1.0.1 // indirect
	github.com/decred/dcrd/dcrec/secp256k1/v4 v4.3.0 // indirect
	golang.org/x/crypto v0.23.0 // indirect
)

replace github.com/vulpemventures/go-elements => /repo
