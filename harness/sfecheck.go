package main

// C09 — S: the property stated directly on the implementation.
//
//  (a) after sign / finalize / extract with valid signatures every input's final script and
//      witness satisfy the spent script (independent evaluator below; digests by the
//      implementation's own HashForSignature / HashForWitnessV0 / HashForWitnessV1, signature
//      checks by btcec; btcd's tokenizer is used for script parsing only);
//  (b) the extracted transaction equals the signed-over one except for scripts / witnesses;
//  (c) finalization never succeeds with fewer signatures than the script requires;
//  (d) finalization never succeeds with a signature whose hash type differs from the
//      declared one (SIGHASH_ALL when none is declared), also in the 0x80 / 0x40 bits.

import (
	"bytes"
	"crypto/sha256"
	"fmt"

	"github.com/btcsuite/btcd/btcec/v2"
	"github.com/btcsuite/btcd/btcec/v2/ecdsa"
	"github.com/btcsuite/btcd/btcec/v2/schnorr"
	"github.com/btcsuite/btcd/btcutil"
	"github.com/btcsuite/btcd/chaincfg/chainhash"
	"github.com/btcsuite/btcd/txscript"
	"github.com/vulpemventures/go-elements/pset"
	"github.com/vulpemventures/go-elements/psetv2"
	"github.com/vulpemventures/go-elements/taproot"
	"github.com/vulpemventures/go-elements/transaction"
)

func sfeFail(site, detail string) string { return "FAIL site=" + site + " detail=" + detail }

// ---------------------------------------------------------------- field comparison

func sfeIssEq(a, b *transaction.TxIssuance) bool {
	if (a == nil) != (b == nil) {
		return false
	}
	if a == nil {
		return true
	}
	return bytes.Equal(a.AssetBlindingNonce, b.AssetBlindingNonce) && bytes.Equal(a.AssetEntropy, b.AssetEntropy) &&
		bytes.Equal(a.AssetAmount, b.AssetAmount) && bytes.Equal(a.TokenAmount, b.TokenAmount)
}

// first field, other than input scripts and input witness data, in which a and b differ
func sfeFieldDiff(a, b *transaction.Transaction) string {
	switch {
	case a.Version != b.Version:
		return "version"
	case a.Locktime != b.Locktime:
		return "locktime"
	case len(a.Inputs) != len(b.Inputs):
		return "input-count"
	case len(a.Outputs) != len(b.Outputs):
		return "output-count"
	}
	for i := range a.Inputs {
		x, y := a.Inputs[i], b.Inputs[i]
		switch {
		case !bytes.Equal(x.Hash, y.Hash):
			return "prev-hash"
		case x.Index != y.Index:
			return "prev-index"
		case x.Sequence != y.Sequence:
			return "sequence"
		case x.IsPegin != y.IsPegin:
			return "pegin"
		case !sfeIssEq(x.Issuance, y.Issuance):
			return "issuance"
		}
	}
	for i := range a.Outputs {
		x, y := a.Outputs[i], b.Outputs[i]
		if !bytes.Equal(x.Asset, y.Asset) || !bytes.Equal(x.Value, y.Value) || !bytes.Equal(x.Script, y.Script) ||
			!bytes.Equal(x.Nonce, y.Nonce) || !bytes.Equal(x.RangeProof, y.RangeProof) || !bytes.Equal(x.SurjectionProof, y.SurjectionProof) {
			return "output"
		}
	}
	return ""
}

// ---------------------------------------------------------------- independent evaluator

func sfeIsP2PKH(s []byte) bool {
	return len(s) == 25 && s[0] == 0x76 && s[1] == 0xa9 && s[2] == 0x14 && s[23] == 0x88 && s[24] == 0xac
}
func sfeIsP2SH(s []byte) bool   { return len(s) == 23 && s[0] == 0xa9 && s[1] == 0x14 && s[22] == 0x87 }
func sfeIsP2WPKH(s []byte) bool { return len(s) == 22 && s[0] == 0x00 && s[1] == 0x14 }
func sfeIsP2WSH(s []byte) bool  { return len(s) == 34 && s[0] == 0x00 && s[1] == 0x20 }
func sfeIsP2TR(s []byte) bool   { return len(s) == 34 && s[0] == 0x51 && s[1] == 0x20 }

// the items pushed by a push-only script
func sfePushes(script []byte) ([][]byte, bool) {
	var items [][]byte
	tk := txscript.MakeScriptTokenizer(0, script)
	for tk.Next() {
		op := tk.Opcode()
		switch {
		case op == txscript.OP_0:
			items = append(items, []byte{})
		case op <= txscript.OP_PUSHDATA4:
			items = append(items, tk.Data())
		case op == txscript.OP_1NEGATE:
			items = append(items, []byte{0x81})
		case op >= txscript.OP_1 && op <= txscript.OP_16:
			items = append(items, []byte{op - txscript.OP_1 + 1})
		default:
			return nil, false
		}
	}
	if tk.Err() != nil {
		return nil, false
	}
	return items, true
}

// m, keys of `OP_m <key>.. OP_n OP_CHECKMULTISIG`
func sfeParseMultisig(script []byte) (int, [][]byte, bool) {
	tk := txscript.MakeScriptTokenizer(0, script)
	if !tk.Next() || !txscript.IsSmallInt(tk.Opcode()) {
		return 0, nil, false
	}
	m := txscript.AsSmallInt(tk.Opcode())
	var keys [][]byte
	for tk.Next() {
		if txscript.IsSmallInt(tk.Opcode()) {
			break
		}
		if tk.Opcode() > txscript.OP_PUSHDATA4 {
			return 0, nil, false
		}
		keys = append(keys, tk.Data())
	}
	if tk.Err() != nil || tk.Done() || !txscript.IsSmallInt(tk.Opcode()) || txscript.AsSmallInt(tk.Opcode()) != len(keys) {
		return 0, nil, false
	}
	if !tk.Next() || tk.Opcode() != txscript.OP_CHECKMULTISIG || tk.Next() || tk.Err() != nil {
		return 0, nil, false
	}
	return m, keys, true
}

type sfeSigCtx struct {
	tx    *transaction.Transaction
	k     int
	prevs []*transaction.TxOutput
}

func (c *sfeSigCtx) checkECDSA(witness bool, scriptCode, pk, sig []byte) bool {
	if len(sig) < 1 {
		return false
	}
	ht := txscript.SigHashType(sig[len(sig)-1])
	s, err := ecdsa.ParseDERSignature(sig[:len(sig)-1])
	if err != nil {
		return false
	}
	pub, err := btcec.ParsePubKey(pk)
	if err != nil {
		return false
	}
	var digest [32]byte
	if witness {
		digest = c.tx.HashForWitnessV0(c.k, scriptCode, c.prevs[c.k].Value, ht)
	} else {
		digest, err = c.tx.HashForSignature(c.k, scriptCode, ht)
		if err != nil {
			return false
		}
	}
	return s.Verify(digest[:], pub)
}

func (c *sfeSigCtx) checkSchnorr(xonly, sig []byte, leaf *chainhash.Hash) bool {
	var ht txscript.SigHashType
	switch len(sig) {
	case 64:
	case 65:
		ht = txscript.SigHashType(sig[64])
		if ht == 0 {
			return false
		}
	default:
		return false
	}
	s, err := schnorr.ParseSignature(sig[:64])
	if err != nil {
		return false
	}
	pub, err := schnorr.ParsePubKey(xonly)
	if err != nil {
		return false
	}
	var scripts, assets, values [][]byte
	for _, p := range c.prevs {
		if p == nil {
			return false
		}
		scripts = append(scripts, p.Script)
		assets = append(assets, p.Asset)
		values = append(values, p.Value)
	}
	digest := c.tx.HashForWitnessV1(c.k, scripts, assets, values, ht, sfeGenesis, leaf, nil)
	return s.Verify(digest[:], pub)
}

// OP_CHECKMULTISIG: dummy element, m signatures, matched against the keys in order
func (c *sfeSigCtx) checkMultisig(witness bool, script []byte, items [][]byte) string {
	m, keys, ok := sfeParseMultisig(script)
	if !ok {
		return "not-multisig"
	}
	if len(items) < 1 || len(items[0]) != 0 {
		return "dummy"
	}
	sigs := items[1:]
	if len(sigs) != m || m > len(keys) {
		return "sig-count"
	}
	isig, ikey := len(sigs)-1, len(keys)-1
	for isig >= 0 {
		if ikey < 0 || isig > ikey {
			return "multisig-order"
		}
		if c.checkECDSA(witness, script, keys[ikey], sigs[isig]) {
			isig--
		}
		ikey--
	}
	return ""
}

func (c *sfeSigCtx) witnessProgram(prog []byte, wit [][]byte) string {
	switch {
	case sfeIsP2WPKH(prog):
		if len(wit) != 2 {
			return "wpkh-stack"
		}
		if !bytes.Equal(btcutil.Hash160(wit[1]), prog[2:]) {
			return "wpkh-hash"
		}
		if !c.checkECDSA(true, sfeP2PKH(prog[2:]), wit[1], wit[0]) {
			return "checksig"
		}
		return ""
	case sfeIsP2WSH(prog):
		if len(wit) < 1 {
			return "wsh-stack"
		}
		ws := wit[len(wit)-1]
		h := sha256.Sum256(ws)
		if !bytes.Equal(h[:], prog[2:]) {
			return "wsh-hash"
		}
		return c.checkMultisig(true, ws, wit[:len(wit)-1])
	}
	return "unknown-program"
}

// "" when (scriptSig, witness) of input k satisfy the script of the output it spends
func sfeVerifyInput(tx *transaction.Transaction, k int, prevs []*transaction.TxOutput) string {
	c := &sfeSigCtx{tx, k, prevs}
	in := tx.Inputs[k]
	spk := prevs[k].Script
	switch {
	case sfeIsP2WPKH(spk) || sfeIsP2WSH(spk):
		if len(in.Script) != 0 {
			return "scriptsig-not-empty"
		}
		return c.witnessProgram(spk, in.Witness)
	case sfeIsP2TR(spk):
		if len(in.Script) != 0 {
			return "scriptsig-not-empty"
		}
		q := spk[2:]
		switch len(in.Witness) {
		case 1:
			if !c.checkSchnorr(q, in.Witness[0], nil) {
				return "checksig"
			}
			return ""
		case 3:
			sig, script, cbb := in.Witness[0], in.Witness[1], in.Witness[2]
			cb, err := taproot.ParseControlBlock(cbb)
			if err != nil {
				return "control-block"
			}
			if taproot.VerifyTaprootLeafCommitment(cb, q, script) != nil {
				return "commitment"
			}
			if len(script) != 34 || script[0] != 0x20 || script[33] != 0xac {
				return "leaf-template"
			}
			lh := taproot.NewTapElementsLeaf(cb.LeafVersion, script).TapHash()
			if !c.checkSchnorr(script[1:33], sig, &lh) {
				return "checksig"
			}
			return ""
		}
		return "taproot-stack"
	case sfeIsP2SH(spk):
		items, ok := sfePushes(in.Script)
		if !ok || len(items) < 1 {
			return "scriptsig-pushes"
		}
		redeem := items[len(items)-1]
		if !bytes.Equal(btcutil.Hash160(redeem), spk[2:22]) {
			return "p2sh-hash"
		}
		if sfeIsP2WPKH(redeem) || sfeIsP2WSH(redeem) {
			if len(items) != 1 {
				return "scriptsig-extra"
			}
			return c.witnessProgram(redeem, in.Witness)
		}
		if len(in.Witness) != 0 {
			return "unexpected-witness"
		}
		return c.checkMultisig(false, redeem, items[:len(items)-1])
	case sfeIsP2PKH(spk):
		if len(in.Witness) != 0 {
			return "unexpected-witness"
		}
		items, ok := sfePushes(in.Script)
		if !ok || len(items) != 2 {
			return "scriptsig-pushes"
		}
		if !bytes.Equal(btcutil.Hash160(items[1]), spk[3:23]) {
			return "p2pkh-hash"
		}
		if !c.checkECDSA(false, spk, items[1], items[0]) {
			return "checksig"
		}
		return ""
	}
	return "unknown-template"
}

// a multisig script in which the bytes of some key first occur before that key's own push
func sfeAmbiguousKeys(script []byte) bool {
	_, keys, ok := sfeParseMultisig(script)
	if !ok {
		return false
	}
	off := 1
	for _, k := range keys {
		if bytes.Index(script, k) != off+1 {
			return true
		}
		off += 1 + len(k)
	}
	return false
}

func sfeSameKey(a, b []byte) bool {
	if bytes.Equal(a, b) {
		return true
	}
	ka, err := btcec.ParsePubKey(a)
	if err != nil {
		return false
	}
	kb, err := btcec.ParsePubKey(b)
	if err != nil {
		return false
	}
	return ka.IsEqual(kb)
}

// ---------------------------------------------------------------- what an input needs

type sfeView struct {
	hasNW, hasWU bool
	final        bool
	sigs         [][2][]byte
	sht          uint32
	rs, ws       []byte
	tapKeySig    []byte
	tapSigs      []psetv2.TapScriptSig
	leafHashes   [][]byte
}

func sfeView0(in *pset.PInput) sfeView {
	v := sfeView{hasNW: in.NonWitnessUtxo != nil, hasWU: in.WitnessUtxo != nil, final: in.FinalScriptSig != nil || in.FinalScriptWitness != nil, sht: uint32(in.SighashType), rs: in.RedeemScript, ws: in.WitnessScript}
	for _, ps := range in.PartialSigs {
		v.sigs = append(v.sigs, [2][]byte{ps.PubKey, ps.Signature})
	}
	return v
}
func sfeView2(in *psetv2.Input) sfeView {
	v := sfeView{hasNW: in.NonWitnessUtxo != nil, hasWU: in.WitnessUtxo != nil, final: len(in.FinalScriptSig) > 0 || len(in.FinalScriptWitness) > 0, sht: uint32(in.SigHashType), rs: in.RedeemScript, ws: in.WitnessScript,
		tapKeySig: in.TapKeySig, tapSigs: in.TapScriptSig}
	for _, ps := range in.PartialSigs {
		v.sigs = append(v.sigs, [2][]byte{ps.PubKey, ps.Signature})
	}
	for _, l := range in.TapLeafScript {
		h := l.TapHash()
		v.leafHashes = append(v.leafHashes, h[:])
	}
	return v
}

// template name and number of signatures the spent script requires, from the spent script
// and the scripts held by the packet input
func sfeRequired(spk []byte, v *sfeView) (string, int) {
	ms := func(name string, script []byte) (string, int) {
		if m, _, ok := sfeParseMultisig(script); ok {
			return name, m
		}
		return name + "-other", 1
	}
	switch {
	case sfeIsP2PKH(spk):
		return "p2pkh", 1
	case sfeIsP2WPKH(spk):
		return "p2wpkh", 1
	case sfeIsP2WSH(spk):
		return ms("p2wsh", v.ws)
	case sfeIsP2TR(spk):
		if len(v.tapKeySig) > 0 {
			return "p2tr-key", 1
		}
		return "p2tr-leaf", 1
	case sfeIsP2SH(spk):
		switch {
		case sfeIsP2WPKH(v.rs):
			return "p2sh-p2wpkh", 1
		case sfeIsP2WSH(v.rs):
			return ms("p2sh-p2wsh", v.ws)
		}
		return ms("p2sh", v.rs)
	}
	return "unknown", 1
}

func sfeEffType(t uint32) uint32 {
	if t == 0 {
		return 1
	}
	return t
}

// clauses (c) and (d) for an input that the last operation finalized; v is its state before
func sfeCheckFinalized(c *sfeCase, k int, v *sfeView, valid func(k int, pk, sig []byte) bool) (string, bool) {
	prev := c.prevout(k)
	if prev == nil {
		return "", false
	}
	name, need := sfeRequired(prev.Script, v)
	allValid := true
	if sfeIsP2TR(prev.Script) {
		have := 0
		var sigs [][]byte
		if len(v.tapKeySig) > 0 {
			have = 1
			sigs = append(sigs, v.tapKeySig)
			allValid = allValid && valid(k, prev.Script[2:], v.tapKeySig)
		} else if len(v.leafHashes) > 0 {
			for _, s := range v.tapSigs {
				if bytes.Equal(s.LeafHash, v.leafHashes[0]) {
					have++
					sigs = append(sigs, s.Signature)
					allValid = allValid && valid(k, s.PubKey, s.Signature)
				}
			}
		}
		if have < need {
			return sfeFail("too-few-sigs", name), false
		}
		for _, s := range sigs {
			var t uint32
			if len(s) == 65 {
				t = uint32(s[64])
			}
			if sfeEffType(t) != sfeEffType(v.sht) {
				return sfeFail("sighash-mismatch", name), false
			}
		}
		return "", allValid
	}
	if len(v.sigs) < need {
		return sfeFail("too-few-sigs", name), false
	}
	for _, ps := range v.sigs {
		sig := ps[1]
		if len(sig) == 0 || uint32(sig[len(sig)-1]) != sfeEffType(v.sht) {
			return sfeFail("sighash-mismatch", name), false
		}
		allValid = allValid && valid(k, ps[0], sig)
	}
	return "", allValid
}

// a panic inside a role function is a robustness defect (C12), not a statement about C09
// (e) is input k, as it stands, a supported ECDSA template holding a complete set of valid
// signatures of the declared type, made with keys of the spent script as the script spells
// them? Then Finalize has to succeed. keyOf gives the key a signature was handed in with.
func sfeComplete(c *sfeCase, k int, v *sfeView, v2 bool, keyOf func(k int, pk, sig []byte) []byte, valid func(k int, pk, sig []byte) bool) (string, bool) {
	prev := c.prevout(k)
	if prev == nil || v.final || len(v.sigs) == 0 {
		return "", false
	}
	spk := prev.Script
	for _, ps := range v.sigs {
		sig := ps[1]
		if len(sig) == 0 || uint32(sig[len(sig)-1]) != sfeEffType(v.sht) || !valid(k, ps[0], sig) || keyOf(k, ps[0], sig) == nil {
			return "", false
		}
	}
	single := func() []byte {
		if len(v.sigs) != 1 {
			return nil
		}
		return keyOf(k, v.sigs[0][0], v.sigs[0][1])
	}
	multisig := func(script []byte, maxLen int) bool {
		m, keys, ok := sfeParseMultisig(script)
		if !ok || m < 1 || len(v.sigs) != m || len(script) > maxLen || sfeAmbiguousKeys(script) {
			return false
		}
		seen := map[string]bool{}
		for _, ps := range v.sigs {
			key := keyOf(k, ps[0], ps[1])
			found := false
			for _, x := range keys {
				found = found || bytes.Equal(x, key)
			}
			if !found || seen[string(key)] {
				return false
			}
			seen[string(key)] = true
		}
		return true
	}
	none := func(b []byte) bool { return len(b) == 0 && (v2 || b == nil) }
	switch {
	case sfeIsP2PKH(spk):
		key := single()
		return "p2pkh", key != nil && v.hasNW && !v.hasWU && none(v.rs) && none(v.ws) && bytes.Equal(btcutil.Hash160(key), spk[3:23])
	case sfeIsP2WPKH(spk):
		key := single()
		return "p2wpkh", key != nil && v.hasWU && none(v.rs) && none(v.ws) && bytes.Equal(btcutil.Hash160(key), spk[2:])
	case sfeIsP2WSH(spk):
		h := sha256.Sum256(v.ws)
		return "p2wsh", v.hasWU && none(v.rs) && bytes.Equal(h[:], spk[2:]) && multisig(v.ws, 10000)
	case sfeIsP2SH(spk):
		if !bytes.Equal(btcutil.Hash160(v.rs), spk[2:22]) {
			return "", false
		}
		switch {
		case sfeIsP2WPKH(v.rs):
			key := single()
			return "p2sh-p2wpkh", key != nil && v.hasWU && none(v.ws) && bytes.Equal(btcutil.Hash160(key), v.rs[2:])
		case sfeIsP2WSH(v.rs):
			h := sha256.Sum256(v.ws)
			return "p2sh-p2wsh", v.hasWU && bytes.Equal(h[:], v.rs[2:]) && multisig(v.ws, 10000)
		}
		return "p2sh", v.hasNW && !v.hasWU && none(v.ws) && multisig(v.rs, 520)
	}
	return "", false
}

func checkSfe(t *Toks, v2 bool) (res string) {
	defer func() {
		if e := recover(); e != nil {
			res = "SKIP impl-panic"
		}
	}()
	c := sfeReadCase(t, v2)
	// the table entry of a signature held by input k; the key may be held under another encoding
	entry := func(k int, pk, sig []byte) *sfeOrc {
		for i := range c.orc {
			o := &c.orc[i]
			if o.k == k && bytes.Equal(o.sig, sig) && sfeSameKey(o.pk, pk) {
				return o
			}
		}
		return nil
	}
	valid := func(k int, pk, sig []byte) bool {
		o := entry(k, pk, sig)
		return o != nil && o.bit
	}
	var p0 *pset.Pset
	var p2 *psetv2.Pset
	if v2 {
		p2 = c.build2()
	} else {
		p0 = c.build0()
	}
	nin := len(c.ins)
	for _, op := range c.ops {
		if op.kind == "AI" {
			nin++ // room for inputs added on the way
		}
	}
	views := func() []sfeView {
		vs := make([]sfeView, 0, nin)
		if v2 {
			for i := range p2.Inputs {
				vs = append(vs, sfeView2(&p2.Inputs[i]))
			}
		} else {
			for i := range p0.Inputs {
				vs = append(vs, sfeView0(&p0.Inputs[i]))
			}
		}
		return vs
	}
	// inputs finalized by the library during this run with valid signatures only
	goodFinal := make([]bool, nin)
	names := make([]string, nin)
	msScripts := make([][]byte, nin)
	for j := range c.ops {
		op := &c.ops[j]
		before := views()
		saneBefore := false
		if v2 {
			saneBefore = p2.SanityCheck() == nil
		} else {
			saneBefore = p0.SanityCheck() == nil
		}
		var err error
		var tx, utx *transaction.Transaction
		switch op.kind {
		case "S":
			if v2 {
				err = (&psetv2.Signer{Pset: p2}).SignInput(op.k, op.sig, op.pk, op.rs, op.ws)
			} else {
				_, err = (&pset.Updater{Data: p0}).Sign(op.k, op.sig, op.pk, op.rs, op.ws)
			}
		case "TK":
			err = (&psetv2.Signer{Pset: p2}).SignTaprootInputKeySig(op.k, op.sig)
		case "AI":
			err = (&psetv2.Updater{Pset: p2}).AddInputs([]psetv2.InputArgs{sfeInputArgs(op)})
		case "AW":
			err = (&psetv2.Updater{Pset: p2}).AddInWitnessUtxo(op.k, op.wu)
		case "TS":
			err = (&psetv2.Signer{Pset: p2}).SignTaprootInputTapscriptSig(op.k, psetv2.TapScriptSig{
				PartialSig: psetv2.PartialSig{PubKey: op.pk, Signature: op.sig}, LeafHash: op.leaf})
		case "H":
			if v2 {
				s, e := p2.ToBase64()
				if e == nil {
					if q, e2 := psetv2.NewPsetFromBase64(s); e2 == nil {
						p2 = q
					}
				}
			} else {
				s, e := p0.ToBase64()
				if e == nil {
					if q, e2 := pset.NewPsetFromBase64(s); e2 == nil {
						p0 = q
					}
				}
			}
		case "F":
			if v2 {
				err = psetv2.Finalize(p2, op.k)
			} else {
				err = pset.Finalize(p0, op.k)
			}
		case "M":
			if v2 {
				_, err = psetv2.MaybeFinalize(p2, op.k)
			} else {
				_, err = pset.MaybeFinalize(p0, op.k)
			}
		case "FA":
			if v2 {
				err = psetv2.FinalizeAll(p2)
			} else {
				err = pset.FinalizeAll(p0)
			}
		case "MA":
			if v2 {
				err = psetv2.MaybeFinalizeAll(p2)
			} else {
				err = pset.MaybeFinalizeAll(p0)
			}
		case "X":
			if v2 {
				utx, _ = p2.UnsignedTx()
				tx, err = psetv2.Extract(p2)
			} else {
				utx = sfeCopyTx(p0.UnsignedTx)
				tx, err = pset.Extract(p0)
			}
		}
		_ = err
		switch op.kind {
		case "F", "M", "FA", "MA":
			after := views()
			// (e) a complete signature set has to finalize (an error after the input was finalized, from
			// the closing sanity check over the whole packet, is not a refusal)
			if err != nil && saneBefore && (op.kind == "F" || op.kind == "FA") {
				keyOf := func(k int, pk, sig []byte) []byte {
					if o := entry(k, pk, sig); o != nil {
						return o.pk
					}
					return nil
				}
				ver := "v0"
				if v2 {
					ver = "v2"
				}
				if op.kind == "F" && op.k < len(before) && op.k < len(after) && !after[op.k].final {
					if name, ok := sfeComplete(c, op.k, &before[op.k], v2, keyOf, valid); ok {
						return sfeFail("complete-set-refused", ver+"-"+name)
					}
				}
				if op.kind == "FA" && len(after) == len(before) && len(before) > 0 {
					if v2 {
						// atomic: nothing is kept when any input fails, so every input has to be complete
						all, name := true, ""
						for k := range before {
							n, ok := sfeComplete(c, k, &before[k], v2, keyOf, valid)
							all = all && ok && !after[k].final
							name = n
						}
						if all {
							return sfeFail("complete-set-refused", ver+"-all-"+name)
						}
					} else {
						// v0 stops at the first input it cannot finalize
						for k := range before {
							if !after[k].final {
								if name, ok := sfeComplete(c, k, &before[k], v2, keyOf, valid); ok {
									return sfeFail("complete-set-refused", ver+"-"+name)
								}
								break
							}
						}
					}
				}
			}
			for k := 0; k < nin && k < len(after) && k < len(before); k++ {
				if !before[k].final && after[k].final {
					if pv := c.prevout(k); pv != nil {
						names[k], _ = sfeRequired(pv.Script, &before[k])
						msScripts[k] = before[k].rs
						if len(before[k].ws) > 0 {
							msScripts[k] = before[k].ws
						}
					}
					verdict, ok := sfeCheckFinalized(c, k, &before[k], valid)
					if verdict != "" {
						return verdict
					}
					goodFinal[k] = ok
				}
			}
		case "X":
			if err != nil || tx == nil {
				continue
			}
			ver := "v0"
			if v2 {
				ver = "v2"
			}
			if d := sfeFieldDiff(tx, utx); d != "" {
				return sfeFail("extract-"+d, ver)
			}
			nin := len(tx.Inputs)
			if nin > len(goodFinal) {
				continue
			}
			prevs := make([]*transaction.TxOutput, nin)
			all := true
			for k := 0; k < nin; k++ {
				prevs[k] = c.prevout(k)
				all = all && prevs[k] != nil && goodFinal[k]
			}
			if !all || len(tx.Inputs) != nin {
				continue
			}
			for k := 0; k < nin; k++ {
				if why := sfeVerifyInput(tx, k, prevs); why != "" {
					if why == "multisig-order" && sfeAmbiguousKeys(msScripts[k]) {
						return sfeFail("unsatisfied-ambiguous-keys", fmt.Sprintf("%s-%s", ver, names[k]))
					}
					return sfeFail("unsatisfied", fmt.Sprintf("%s-%s-%s", ver, names[k], why))
				}
			}
		}
	}
	return "OK"
}

func init() {
	checks["C09/sfe0"] = func(t *Toks) string { return checkSfe(t, false) }
	checks["C09/sfe2"] = func(t *Toks) string { return checkSfe(t, true) }
}
