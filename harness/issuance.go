package main

import (
	"os"
	"bufio"
	"encoding/hex"
	"fmt"
	"strconv"
	"strings"

	"github.com/btcsuite/btcd/btcec/v2"
	"github.com/btcsuite/btcd/chaincfg/chainhash"
	"github.com/vulpemventures/fastsha256"
	"github.com/vulpemventures/go-elements/address"
	"github.com/vulpemventures/go-elements/network"
	"github.com/vulpemventures/go-elements/pset"
	"github.com/vulpemventures/go-elements/psetv2"
	"github.com/vulpemventures/go-elements/transaction"
)

// ---------- families of C13 ----------
//
// issid  <hash> <index> <chash> <entropy> <flag> <nonce> <ientropy>
//        ComputeEntropy / ComputeAsset / ComputeReissuanceToken / NewTxIssuanceFromInput
// issmid <bytes>                 fastsha256.MidState256 on any length
// isscon <asset> <token> <precision> <contract>
//        NewTxIssuance and the contract hash
// issv0  add|re <nin> <nout> <tx...> <args...>      pset.Updater.AddIssuance / AddReissuance
// issv2  add|re <pkt...> <index> <args...>          psetv2.Updater.AddInIssuance / AddInReissuance,
//        derived-id getters, UnsignedTx and Extract
//
// option-bytes tokens: "nil", "-" (empty, non-nil) or hex.

func issOptTok(b []byte) string {
	if b == nil {
		return "nil"
	}
	return hx(b)
}
func (t *Toks) IssOpt() []byte {
	s := t.Next()
	if s == "nil" {
		return nil
	}
	if s == "-" {
		return []byte{}
	}
	b, err := hex.DecodeString(s)
	if err != nil {
		panic(err)
	}
	return b
}

// bytes token that is never nil-vs-empty sensitive
func (t *Toks) IssRaw() []byte {
	s := t.Next()
	if s == "-" {
		return []byte{}
	}
	b, err := hex.DecodeString(s)
	if err != nil {
		panic(err)
	}
	return b
}

// ---------- issid ----------
func issResOpt(b []byte, err error) string {
	if err != nil {
		return "err"
	}
	return hx(b)
}

func runIssID(t *Toks) string {
	hash := t.IssRaw()
	index := uint32(t.U64())
	chash := t.IssRaw()
	entropy := t.IssRaw()
	flag := uint(t.U64())
	nonce := t.IssRaw()
	ientropy := t.IssRaw()
	e, err1 := transaction.ComputeEntropy(hash, index, chash)
	a, err2 := transaction.ComputeAsset(append([]byte{}, entropy...))
	k, err3 := transaction.ComputeReissuanceToken(append([]byte{}, entropy...), flag)
	in := &transaction.TxInput{Hash: hash, Index: index, Issuance: &transaction.TxIssuance{
		AssetBlindingNonce: nonce, AssetEntropy: ientropy, AssetAmount: []byte{0}, TokenAmount: []byte{0}}}
	fi := "err"
	if ie, err := transaction.NewTxIssuanceFromInput(in); err == nil {
		fi = hx(ie.AssetEntropy) + "/" + hx(ie.ContractHash)
	}
	return fmt.Sprintf("entropy=%s asset=%s token=%s frominput=%s", issResOpt(e, err1), issResOpt(a, err2), issResOpt(k, err3), fi)
}

func runIssMid(t *Toks) string {
	b := t.IssRaw()
	m := fastsha256.MidState256(b)
	return "mid=" + hx(m[:])
}

// ---------- contracts ----------
func issReadContract(t *Toks) *transaction.IssuanceContract {
	if t.Int() == 0 {
		return nil
	}
	c := &transaction.IssuanceContract{}
	c.Name = string(t.IssRaw())
	c.Ticker = string(t.IssRaw())
	c.Version = uint(t.U64())
	c.Precision = uint(t.U64())
	c.PubKey = string(t.IssRaw())
	c.Entity.Domain = string(t.IssRaw())
	return c
}
func issWriteContract(b *sb, c *transaction.IssuanceContract) {
	if c == nil {
		b.add("0")
		return
	}
	b.add("1")
	b.addh([]byte(c.Name))
	b.addh([]byte(c.Ticker))
	b.addn(uint64(c.Version))
	b.addn(uint64(c.Precision))
	b.addh([]byte(c.PubKey))
	b.addh([]byte(c.Entity.Domain))
}

func runIssCon(t *Toks) string {
	asset, token, prec := t.U64(), t.U64(), uint(t.U64())
	c := issReadContract(t)
	ie, err := transaction.NewTxIssuance(asset, token, prec, c)
	if err != nil {
		return "res=err"
	}
	// outside the alphabet / number range of the contract model (wf_contract) the document goes through encoding/json's
	// escapes and a float64; K then compares everything but the hash, which S judges on its own
	chash := hx(ie.ContractHash)
	if c != nil && !issContractInDomain(c) {
		chash = "unmodelled"
	}
	return fmt.Sprintf("res=ok chash=%s amount=%s token=%s nonce=%s entropy=%s precision=%d",
		chash, hx(ie.AssetAmount), hx(ie.TokenAmount), hx(ie.AssetBlindingNonce), hx(ie.AssetEntropy), ie.Precision)
}

// ---------- addresses ----------
type issAddrTok struct {
	s       string
	present bool
	valid   bool
	conf    bool
	script  []byte
	key     []byte
}

func issDecodeAddr(s string) issAddrTok {
	a := issAddrTok{s: s, present: len(s) > 0}
	if _, err := address.DecodeType(s); err == nil {
		a.valid = true
	}
	if c, err := address.IsConfidential(s); err == nil && c {
		a.conf = true
	}
	if sc, err := address.ToOutputScript(s); err == nil {
		a.script = sc
	} else {
		a.valid = false
	}
	if a.conf {
		if info, err := address.FromConfidential(s); err == nil {
			a.key = info.BlindingKey
		}
	}
	return a
}
func issWriteAddr(b *sb, s string) {
	a := issDecodeAddr(s)
	if s == "" {
		b.add("-")
	} else {
		b.add(s)
	}
	b.add(b2s(a.present))
	b.add(b2s(a.valid))
	b.add(b2s(a.conf))
	b.addh(a.script)
	b.addh(a.key)
}
func issReadAddr(t *Toks) issAddrTok {
	s := t.Next()
	if s == "-" {
		s = ""
	}
	a := issAddrTok{s: s}
	a.present = t.Int() == 1
	a.valid = t.Int() == 1
	a.conf = t.Int() == 1
	a.script = t.IssRaw()
	a.key = t.IssRaw()
	return a
}

func issGenPubKey(r *Rng) []byte {
	for {
		k := r.Bytes(32)
		k[0] &= 0x7f
		priv, pub := btcec.PrivKeyFromBytes(k)
		_ = priv
		if pub != nil {
			return pub.SerializeCompressed()
		}
	}
}

func issGenAddr(r *Rng, conf bool) string {
	net := network.Regtest
	if r.Chance(20) {
		net = network.Liquid
	}
	var s string
	var err error
	switch r.Intn(5) {
	case 0: // p2pkh
		b := address.Base58{Version: net.PubKeyHash, Data: r.Bytes(20)}
		if conf {
			s = address.ToBase58Confidential(&address.Base58Confidential{Base58: b, Version: net.Confidential, PublicKey: issGenPubKey(r)})
		} else {
			s = address.ToBase58(&b)
		}
	case 1: // p2sh
		b := address.Base58{Version: net.ScriptHash, Data: r.Bytes(20)}
		if conf {
			s = address.ToBase58Confidential(&address.Base58Confidential{Base58: b, Version: net.Confidential, PublicKey: issGenPubKey(r)})
		} else {
			s = address.ToBase58(&b)
		}
	case 2: // p2tr: witness version 1, bech32m / blech32m
		if conf {
			s, err = address.ToBlech32(&address.Blech32{Prefix: net.Blech32, Version: 1, PublicKey: issGenPubKey(r), Program: r.Bytes(32)})
		} else {
			s, err = address.ToBech32(&address.Bech32{Prefix: net.Bech32, Version: 1, Program: r.Bytes(32)})
		}
	default: // p2wpkh / p2wsh
		n := r.Pick(20, 32)
		if conf {
			s, err = address.ToBlech32(&address.Blech32{Prefix: net.Blech32, Version: 0, PublicKey: issGenPubKey(r), Program: r.Bytes(n)})
		} else {
			s, err = address.ToBech32(&address.Bech32{Prefix: net.Bech32, Version: 0, Program: r.Bytes(n)})
		}
	}
	if err != nil {
		panic(err)
	}
	return s
}

// an address for a call: mostly valid, sometimes missing or garbage
func issGenAddrMaybe(r *Rng, conf bool) string {
	switch k := r.Intn(100); {
	case k < 3:
		return ""
	case k < 5:
		return "notanaddress" + strconv.Itoa(r.Intn(1000))
	default:
		return issGenAddr(r, conf)
	}
}

// ---------- generators: ids ----------
func issGenIndex(r *Rng) uint32 {
	switch r.Intn(10) {
	case 0:
		return 0
	case 1:
		return 0xffffffff
	case 2:
		return 0x3fffffff
	case 3:
		return 0x40000000 | uint32(r.Intn(8))
	case 4:
		return 0x80000000 | uint32(r.Intn(1<<20))
	case 5:
		return 0xc0000000 | uint32(r.U64()&0x3fffffff)
	case 6:
		return uint32(r.Intn(300))
	default:
		return uint32(r.U64())
	}
}
func issGenLen32(r *Rng) []byte {
	switch k := r.Intn(100); {
	case k < 88:
		return r.Bytes(32)
	case k < 91:
		return []byte{}
	case k < 94:
		return r.Bytes(31)
	case k < 97:
		return r.Bytes(33)
	default:
		return r.Bytes(r.Pick(1, 16, 63, 64, 65, 96))
	}
}

func genIssIDCases(r *Rng, n int, w *bufio.Writer) {
	for i := 0; i < n; i++ {
		hash := issGenLen32(r)
		chash := issGenLen32(r)
		if r.Chance(15) {
			chash = make([]byte, 32)
		}
		entropy := issGenLen32(r)
		flag := uint64(r.Pick(0, 0, 1, 1, 1, 2, 3, 255, 256))
		if r.Chance(3) {
			flag = r.U64()
		}
		nonce := make([]byte, 32)
		switch r.Intn(5) {
		case 0:
			nonce = r.Bytes(32)
		case 1:
			nonce = []byte{}
		case 2:
			nonce[31] = 1
		}
		ient := issGenLen32(r)
		fmt.Fprintf(w, "issid %s %d %s %s %d %s %s\n", hx(hash), issGenIndex(r), hx(chash), hx(entropy), flag, hx(nonce), hx(ient))
	}
}

func genIssMidCases(r *Rng, n int, w *bufio.Writer) {
	lens := []int{0, 1, 31, 32, 55, 56, 63, 64, 65, 96, 127, 128, 129, 200}
	for i := 0; i < n; i++ {
		l := lens[i%len(lens)]
		if r.Chance(30) {
			l = r.Intn(200)
		}
		fmt.Fprintf(w, "issmid %s\n", hx(r.Bytes(l)))
	}
}

// strings over the alphabet that encoding/json copies through unchanged
func issGenJStr(r *Rng) string {
	const alpha = "abcdefghijklmnopqrstuvwxyzABCDEFGHIJKLMNOPQRSTUVWXYZ0123456789 .,:;-_/+*=!?#$%'()[]{}|~^@`"
	n := r.Pick(0, 1, 3, 8, 20, 66)
	var b strings.Builder
	for i := 0; i < n; i++ {
		b.WriteByte(alpha[r.Intn(len(alpha))])
	}
	return b.String()
}
func issGenContract(r *Rng, precision uint) *transaction.IssuanceContract {
	c := &transaction.IssuanceContract{Name: issGenJStr(r), Ticker: issGenJStr(r), PubKey: hex.EncodeToString(issGenPubKey(r))}
	c.Entity.Domain = issGenJStr(r)
	c.Precision = precision
	if r.Chance(4) {
		c.Precision = uint(r.Intn(12))
	}
	switch r.Intn(6) {
	case 0:
		c.Version = 0
	case 1:
		c.Version = 1
	case 2:
		c.Version = (1 << 53) - 1
	case 3:
		c.Version = uint(r.Pick(9, 10, 99, 100, 999999, 1000000, 4294967295, 4294967296))
	default:
		c.Version = uint(r.U64() >> uint(11+r.Intn(50)))
	}
	return c
}
func issGenAmount(r *Rng) uint64 {
	switch r.Intn(8) {
	case 0, 1:
		return 0
	case 2:
		return 1
	case 3:
		return ^uint64(0)
	case 4:
		return 2100000000000000
	default:
		return r.U64() >> uint(r.Intn(64))
	}
}
func issGenPrecision(r *Rng) uint {
	if r.Chance(4) {
		return uint(r.Pick(9, 10, 255, 1<<32))
	}
	return uint(r.Intn(9))
}

// contracts outside the modelled domain: versions around and above 2^53 (the canonical document is written from a
// float64) and strings that encoding/json escapes or repairs (quote, backslash, HTML characters, control characters,
// multi-byte and invalid UTF-8, U+2028)
func issWildContract(r *Rng, c *transaction.IssuanceContract) {
	if r.Chance(70) {
		switch r.Intn(8) {
		case 0:
			c.Version = 1<<53 - 1
		case 1:
			c.Version = 1 << 53
		case 2:
			c.Version = 1<<53 + 1
		case 3:
			c.Version = 1 << 63
		case 4:
			c.Version = ^uint(0)
		case 5:
			c.Version = 1<<53 + uint(r.Intn(4096))
		case 6:
			c.Version = uint(r.U64() | 1<<63)
		default:
			c.Version = uint(r.U64()>>uint(r.Intn(11))) | 1
		}
	}
	if r.Chance(55) {
		frags := []string{"\"", "\\", "<", ">", "&", "\n", "\t", "\x00", "\x1f", "\x7f", "é", "日本", "\u2028", "\u2029", "\xff", "\xc3", "\xe2\x82", "\xed\xa0\x80", "/", "\ufffd"}
		pick := func(base string) string {
			f := frags[r.Intn(len(frags))]
			switch r.Intn(3) {
			case 0:
				return f + base
			case 1:
				return base + f
			default:
				return base[:len(base)/2] + f + base[len(base)/2:]
			}
		}
		switch r.Intn(4) {
		case 0:
			c.Name = pick(c.Name)
		case 1:
			c.Ticker = pick(c.Ticker)
		case 2:
			c.Entity.Domain = pick(c.Entity.Domain)
		default:
			c.PubKey = pick(c.PubKey)
		}
	}
}

func genIssConCases(r *Rng, n int, w *bufio.Writer) {
	for i := 0; i < n; i++ {
		var b sb
		prec := issGenPrecision(r)
		b.addn(issGenAmount(r))
		b.addn(issGenAmount(r))
		b.addn(uint64(prec))
		if r.Chance(75) {
			c := issGenContract(r, prec)
			if r.Chance(40) {
				issWildContract(r, c)
			}
			issWriteContract(&b, c)
		} else {
			issWriteContract(&b, nil)
		}
		fmt.Fprintf(w, "isscon %s\n", strings.TrimSpace(b.String()))
	}
}

// ---------- issuance arguments ----------
type issArgs struct {
	precision uint
	contract  *transaction.IssuanceContract
	asset     uint64
	token     uint64
	aaddr     issAddrTok
	taddr     issAddrTok
	blinded   bool
}

func genIssArgs(r *Rng) (uint, *transaction.IssuanceContract, uint64, uint64, string, string, bool) {
	prec := issGenPrecision(r)
	var c *transaction.IssuanceContract
	if r.Chance(50) {
		c = issGenContract(r, prec)
	}
	asset, token := issGenAmount(r), issGenAmount(r)
	conf := r.Bool()
	tconf := conf
	if r.Chance(12) {
		tconf = !conf
	}
	if r.Chance(8) {
		// token-only issuance: no asset amount, the asset destination missing or given, a token
		// amount and a valid token destination of either kind (pset v0 wants an asset address anyway)
		token |= 1
		aaddr := ""
		if r.Chance(40) {
			aaddr = issGenAddr(r, tconf)
		}
		return prec, c, 0, token, aaddr, issGenAddr(r, tconf), r.Bool()
	}
	return prec, c, asset, token, issGenAddrMaybe(r, conf), issGenAddrMaybe(r, tconf), r.Bool()
}
func writeIssArgs(b *sb, prec uint, c *transaction.IssuanceContract, asset, token uint64, aaddr, taddr string, blinded bool) {
	b.addn(uint64(prec))
	issWriteContract(b, c)
	b.addn(asset)
	b.addn(token)
	issWriteAddr(b, aaddr)
	issWriteAddr(b, taddr)
	b.add(b2s(blinded))
}
func readIssArgs(t *Toks) issArgs {
	var a issArgs
	a.precision = uint(t.U64())
	a.contract = issReadContract(t)
	a.asset = t.U64()
	a.token = t.U64()
	a.aaddr = issReadAddr(t)
	a.taddr = issReadAddr(t)
	a.blinded = t.Int() == 1
	return a
}

// ---------- issv0 ----------
// a small unsigned transaction: inputs with or without issuance, explicit outputs
func genV0Tx(r *Rng) *transaction.Transaction {
	tx := &transaction.Transaction{Version: 2}
	nin := r.Pick(0, 1, 1, 1, 2, 2, 3, 4)
	for i := 0; i < nin; i++ {
		hash := r.Bytes(32)
		if r.Chance(4) {
			hash = r.Bytes(r.Pick(0, 31, 33))
		}
		in := transaction.NewTxInput(hash, issGenIndex(r))
		if r.Chance(8) {
			in.Index = issGenIndex(r) // not masked: a transaction built by hand
		}
		if r.Chance(35) {
			in.Issuance = &transaction.TxIssuance{AssetBlindingNonce: make([]byte, 32), AssetEntropy: r.Bytes(32),
				AssetAmount: []byte{1, 0, 0, 0, 0, 0, 0, 0, 9}, TokenAmount: []byte{0}}
			if r.Chance(40) { // a reissuance: non-zero blinding nonce
				in.Issuance.AssetBlindingNonce = r.Bytes(32)
			}
		}
		tx.Inputs = append(tx.Inputs, in)
	}
	nout := r.Intn(3)
	for i := 0; i < nout; i++ {
		tx.Outputs = append(tx.Outputs, transaction.NewTxOutput(append([]byte{1}, r.Bytes(32)...),
			[]byte{1, 0, 0, 0, 0, 0, 0, 3, 232}, r.Bytes(22)))
	}
	return tx
}

func issHexStrMaybe(r *Rng, n int) (string, []byte) {
	switch k := r.Intn(100); {
	case k < 90:
		b := r.Bytes(n)
		return hex.EncodeToString(b), b
	case k < 93:
		b := r.Bytes(n - 1)
		return hex.EncodeToString(b), b
	case k < 96:
		return "zz" + hex.EncodeToString(r.Bytes(n-1)), nil
	case k < 98:
		return "", []byte{}
	default:
		return hex.EncodeToString(r.Bytes(n))[1:], nil
	}
}
func issStrTok(s string) string {
	if s == "" {
		return "-"
	}
	return s
}

// one AddIssuance step: "add" + arguments
func genV0AddStep(r *Rng, b *sb) {
	b.add("add")
	prec, c, asset, token, aa, ta, bl := genIssArgs(r)
	writeIssArgs(b, prec, c, asset, token, aa, ta, bl)
}

// one AddReissuance step: "re" utxo_ok hash-string hash-decoded index blinder entropy-string entropy-decoded asset token aaddr taddr
func genV0ReStep(r *Rng, b *sb) {
	b.add("re")
	b.add(b2s(!r.Chance(6)))
	hs, hd := issHexStrMaybe(r, 32)
	b.add(issStrTok(hs))
	b.add(issOptTok(hd))
	b.addn(uint64(issGenIndex(r)))
	bl := r.Bytes(32)
	if r.Chance(5) {
		bl = r.Bytes(r.Pick(0, 31, 33))
	}
	b.addh(bl)
	es, ed := issHexStrMaybe(r, 32)
	b.add(issStrTok(es))
	b.add(issOptTok(ed))
	asset, token := issGenAmount(r), issGenAmount(r)
	if r.Chance(70) {
		asset |= 1
		token |= 1
	}
	b.addn(asset)
	b.addn(token)
	conf := !r.Chance(8)
	tconf := !r.Chance(8)
	issWriteAddr(b, issGenAddrMaybe(r, conf))
	issWriteAddr(b, issGenAddrMaybe(r, tconf))
}

// issv0 <op> <nin> <nout> <tx> <args>: one call
func genIssV0Cases(r *Rng, n int, w *bufio.Writer) {
	for i := 0; i < n; i++ {
		var b, st sb
		tx := genV0Tx(r)
		if i%3 != 2 {
			genV0AddStep(r, &st)
		} else {
			genV0ReStep(r, &st)
		}
		toks := strings.SplitN(strings.TrimSpace(st.String()), " ", 2)
		b.add(toks[0])
		b.addn(uint64(len(tx.Inputs)))
		b.addn(uint64(len(tx.Outputs)))
		writeTx(&b, tx)
		fmt.Fprintf(w, "issv0 %s %s\n", strings.TrimSpace(b.String()), toks[1])
	}
}

// issh0 <nin> <nout> <tx> <nsteps> {add <args> | re <args>}...: a history of calls on one updater.
// Packets have 1..4 inputs, few of them issuing already; 2..5 steps, so that histories run into the
// state where every input (the ones AddReissuance appended included) carries an issuance.
func genIssH0Cases(r *Rng, n int, w *bufio.Writer) {
	for i := 0; i < n; i++ {
		var b sb
		tx := &transaction.Transaction{Version: 2}
		nin := r.Pick(1, 1, 2, 2, 3, 4)
		for k := 0; k < nin; k++ {
			in := transaction.NewTxInput(r.Bytes(32), issGenIndex(r))
			if r.Chance(15) {
				in.Issuance = &transaction.TxIssuance{AssetBlindingNonce: make([]byte, 32), AssetEntropy: r.Bytes(32),
					AssetAmount: []byte{1, 0, 0, 0, 0, 0, 0, 0, 9}, TokenAmount: []byte{0}}
				if r.Bool() {
					in.Issuance.AssetBlindingNonce = r.Bytes(32)
				}
			}
			tx.Inputs = append(tx.Inputs, in)
		}
		for k := r.Intn(2); k > 0; k-- {
			tx.Outputs = append(tx.Outputs, transaction.NewTxOutput(append([]byte{1}, r.Bytes(32)...),
				[]byte{1, 0, 0, 0, 0, 0, 0, 3, 232}, r.Bytes(22)))
		}
		b.addn(uint64(len(tx.Inputs)))
		b.addn(uint64(len(tx.Outputs)))
		writeTx(&b, tx)
		steps := 2 + r.Intn(4)
		if i%4 == 0 { // the shape of the classic overwrite: reissuance first, then more issuances than free inputs
			steps = nin + 2
			if steps > 5 {
				steps = 5
			}
		}
		b.addn(uint64(steps))
		for k := 0; k < steps; k++ {
			re := r.Chance(30)
			if i%4 == 0 {
				re = k == 0
			}
			if re {
				genV0ReStep(r, &b)
			} else {
				genV0AddStep(r, &b)
			}
		}
		fmt.Fprintf(w, "issh0 %s\n", strings.TrimSpace(b.String()))
	}
}

type v0Case struct {
	op   string
	p    *pset.Pset
	args issArgs
	re   pset.AddReissuanceArgs
}

func issConfUtxo() *transaction.TxOutput {
	o := transaction.NewTxOutput(append([]byte{0x0a}, make([]byte, 32)...), append([]byte{0x08}, make([]byte, 32)...), []byte{0, 20, 1, 2, 3, 4, 5, 6, 7, 8, 9, 10, 11, 12, 13, 14, 15, 16, 17, 18, 19, 20})
	o.Nonce = append([]byte{0x02}, make([]byte, 32)...)
	return o
}

func readV0Case(t *Toks) *v0Case {
	op := t.Next()
	nin, nout := t.Int(), t.Int()
	tx := readTx(t)
	p := &pset.Pset{UnsignedTx: tx, Inputs: make([]pset.PInput, nin), Outputs: make([]pset.POutput, nout)}
	return readV0Step(t, op, p)
}

// arguments of one step (the op token has been read) on packet p
func readV0Step(t *Toks, op string, p *pset.Pset) *v0Case {
	c := &v0Case{op: op, p: p}
	if c.op == "add" {
		c.args = readIssArgs(t)
	} else {
		utxoOK := t.Int() == 1
		hs := t.Next()
		t.Next()
		if hs == "-" {
			hs = ""
		}
		idx := uint32(t.U64())
		bl := t.IssRaw()
		es := t.Next()
		t.Next()
		if es == "-" {
			es = ""
		}
		asset, token := t.U64(), t.U64()
		aa, ta := issReadAddr(t), issReadAddr(t)
		c.re = pset.AddReissuanceArgs{PrevOutHash: hs, PrevOutIndex: idx, PrevOutBlinder: bl, Entropy: es,
			AssetAmount: asset, TokenAmount: token, AssetAddress: aa.s, TokenAddress: ta.s}
		if utxoOK {
			c.re.WitnessUtxo = issConfUtxo()
		}
	}
	return c
}

// issh0: the packet and the steps of a history
func readV0History(t *Toks) (*pset.Pset, []*v0Case) {
	nin, nout := t.Int(), t.Int()
	tx := readTx(t)
	p := &pset.Pset{UnsignedTx: tx, Inputs: make([]pset.PInput, nin), Outputs: make([]pset.POutput, nout)}
	n := t.Int()
	var steps []*v0Case
	for i := 0; i < n; i++ {
		steps = append(steps, readV0Step(t, t.Next(), p))
	}
	return p, steps
}

func runIssH0(t *Toks) string {
	p, steps := readV0History(t)
	var out []string
	for i, c := range steps {
		res := "ok"
		if err := c.call(); err != nil {
			res = "err"
		}
		out = append(out, fmt.Sprintf("r%d=%s n%d=%d/%d t%d=%s", i+1, res, i+1, len(p.Inputs), len(p.Outputs), i+1, dumpTx(p.UnsignedTx)))
	}
	return strings.Join(out, " ")
}

func (c *v0Case) call() error {
	u := &pset.Updater{Data: c.p}
	if c.op == "add" {
		return u.AddIssuance(pset.AddIssuanceArgs{Precision: c.args.precision, Contract: c.args.contract,
			AssetAmount: c.args.asset, TokenAmount: c.args.token, AssetAddress: c.args.aaddr.s, TokenAddress: c.args.taddr.s})
	}
	return u.AddReissuance(c.re)
}

func runIssV0(t *Toks) string {
	c := readV0Case(t)
	err := c.call()
	res := "ok"
	if err != nil {
		res = "err"
	}
	return fmt.Sprintf("res=%s nin=%d nout=%d tx=%s", res, len(c.p.Inputs), len(c.p.Outputs), dumpTx(c.p.UnsignedTx))
}

// ---------- issv2 ----------
func genV2Pkt(r *Rng, b *sb) int {
	nin := r.Pick(0, 1, 1, 1, 2, 2, 3, 4)
	nout := r.Intn(3)
	incount := nin
	if r.Chance(4) && nin > 0 {
		incount = nin - 1
	}
	b.addn(uint64(incount))
	b.addn(uint64(nout))
	b.add(b2s(!r.Chance(5)))
	b.addn(uint64(nin))
	for i := 0; i < nin; i++ {
		txid := r.Bytes(32)
		if r.Chance(3) {
			txid = r.Bytes(r.Pick(31, 33))
		}
		b.addh(txid)
		b.addn(uint64(issGenIndex(r)))
		b.addn(uint64(r.Pick(0, 0xffffffff, 0xfffffffe, 5)))
		if r.Chance(22) { // an issuance is already attached
			val, keys := issGenAmount(r), issGenAmount(r)
			// commitments are set independently of each other and of the explicit amounts
			// (a blinded issuance keeps or drops the explicit amount; either side may be absent)
			b.addn(val)
			if r.Chance(40) {
				b.add(hx(append([]byte{byte(r.Pick(8, 9))}, r.Bytes(32)...)))
			} else {
				b.add("nil")
			}
			b.addn(keys)
			if r.Chance(40) {
				b.add(hx(append([]byte{byte(r.Pick(8, 9))}, r.Bytes(32)...)))
			} else {
				b.add("nil")
			}
			switch r.Intn(4) {
			case 0:
				b.add(hx(r.Bytes(32)))
			case 1:
				b.add("nil")
			default:
				b.add(hx(make([]byte, 32)))
			}
			b.add(hx(r.Bytes(32)))
			b.add([]string{"n", "0", "1"}[r.Intn(3)])
			b.add(b2s(r.Chance(30))) // the input is also a peg-in claim
		} else {
			b.add("0")
			b.add("nil")
			b.add("0")
			b.add("nil")
			b.add("nil")
			b.add("nil")
			b.add("n")
			b.add(b2s(r.Chance(25))) // a peg-in claim that may receive an issuance
		}
	}
	b.addn(uint64(nout))
	for i := 0; i < nout; i++ {
		b.addn(uint64(r.Intn(100000)))
		b.addh(r.Bytes(32))
		b.addh(r.Bytes(22))
		if r.Bool() {
			b.addh(issGenPubKey(r))
			b.addn(uint64(r.Intn(3)))
		} else {
			b.add("-")
			b.addn(0)
		}
		b.add("nil")
		b.add("nil")
		b.add("nil")
	}
	return nin
}

func genIssV2Cases(r *Rng, n int, w *bufio.Writer) {
	for i := 0; i < n; i++ {
		var b sb
		op := "add"
		if i%3 == 2 {
			op = "re"
		}
		b.add(op)
		nin := genV2Pkt(r, &b)
		// target input index: any position, sometimes outside
		idx := 0
		if nin > 0 {
			idx = r.Intn(nin)
		}
		if r.Chance(8) {
			idx = r.Pick(-1, nin, nin+1)
		}
		b.add(strconv.Itoa(idx))
		if op == "add" {
			prec, c, asset, token, aa, ta, bl := genIssArgs(r)
			writeIssArgs(&b, prec, c, asset, token, aa, ta, bl)
		} else {
			bl := r.Bytes(32)
			switch r.Intn(20) {
			case 0:
				bl = make([]byte, 32)
			case 1:
				bl = r.Bytes(r.Pick(0, 31, 33))
			}
			b.addh(bl)
			es, ed := issHexStrMaybe(r, 32)
			b.add(issStrTok(es))
			b.add(issOptTok(ed))
			asset, token := issGenAmount(r), issGenAmount(r)
			if r.Chance(70) {
				asset |= 1
				token |= 1
			}
			b.addn(asset)
			b.addn(token)
			issWriteAddr(&b, issGenAddrMaybe(r, r.Bool()))
			issWriteAddr(&b, issGenAddrMaybe(r, r.Bool()))
		}
		fmt.Fprintf(w, "issv2 %s\n", strings.TrimSpace(b.String()))
	}
}

// one AddInIssuance / AddInReissuance step: op, target index, arguments
func genV2Step(r *Rng, b *sb, op string, nin int) {
	b.add(op)
	idx := 0
	if nin > 0 {
		idx = r.Intn(nin)
	}
	if r.Chance(8) {
		idx = r.Pick(-1, nin, nin+1)
	}
	b.add(strconv.Itoa(idx))
	if op == "add" {
		prec, c, asset, token, aa, ta, bl := genIssArgs(r)
		writeIssArgs(b, prec, c, asset, token, aa, ta, bl)
		return
	}
	bl := r.Bytes(32)
	switch r.Intn(20) {
	case 0:
		bl = make([]byte, 32)
	case 1:
		bl = r.Bytes(r.Pick(0, 31, 33))
	}
	b.addh(bl)
	es, ed := issHexStrMaybe(r, 32)
	b.add(issStrTok(es))
	b.add(issOptTok(ed))
	asset, token := issGenAmount(r), issGenAmount(r)
	if r.Chance(70) {
		asset |= 1
		token |= 1
	}
	b.addn(asset)
	b.addn(token)
	issWriteAddr(b, issGenAddrMaybe(r, r.Bool()))
	issWriteAddr(b, issGenAddrMaybe(r, r.Bool()))
}

// issh2 <pkt> <nsteps> {add|re <idx> <args>}...: a history of calls on one psetv2 updater; the
// target indexes repeat, so that later steps meet inputs that already issue
func genIssH2Cases(r *Rng, n int, w *bufio.Writer) {
	for i := 0; i < n; i++ {
		var b sb
		nin := genV2Pkt(r, &b)
		steps := 2 + r.Intn(4)
		b.addn(uint64(steps))
		for k := 0; k < steps; k++ {
			op := "add"
			if r.Chance(35) {
				op = "re"
			}
			genV2Step(r, &b, op, nin)
		}
		fmt.Fprintf(w, "issh2 %s\n", strings.TrimSpace(b.String()))
	}
}

type v2Case struct {
	op   string
	p    *psetv2.Pset
	idx  int
	args issArgs
	re   psetv2.AddInReissuanceArgs
}

func readV2Pkt(t *Toks) *psetv2.Pset {
	p := &psetv2.Pset{}
	p.Global.Version = 2
	p.Global.TxVersion = 2
	p.Global.InputCount = t.U64()
	p.Global.OutputCount = t.U64()
	p.Global.TxModifiable = psetv2.NewBitSet()
	p.Global.TxModifiable.Set(0)
	if t.Int() == 1 {
		p.Global.TxModifiable.Set(1)
	}
	nin := t.Int()
	p.Inputs = make([]psetv2.Input, 0, nin)
	for i := 0; i < nin; i++ {
		var in psetv2.Input
		in.PreviousTxid = t.IssRaw()
		in.PreviousTxIndex = uint32(t.U64())
		in.Sequence = uint32(t.U64())
		in.IssuanceValue = t.U64()
		in.IssuanceValueCommitment = t.IssOpt()
		in.IssuanceInflationKeys = t.U64()
		in.IssuanceInflationKeysCommitment = t.IssOpt()
		// Input.SanityCheck wants a blind proof next to a commitment that has its explicit amount
		if in.IssuanceValue > 0 && len(in.IssuanceValueCommitment) > 0 {
			in.IssuanceBlindValueProof = []byte{1}
		}
		if in.IssuanceInflationKeys > 0 && len(in.IssuanceInflationKeysCommitment) > 0 {
			in.IssuanceBlindInflationKeysProof = []byte{1}
		}
		in.IssuanceBlindingNonce = t.IssOpt()
		in.IssuanceAssetEntropy = t.IssOpt()
		switch t.Next() {
		case "0":
			f := false
			in.BlindedIssuance = &f
		case "1":
			f := true
			in.BlindedIssuance = &f
		}
		if t.Int() == 1 { // also a peg-in claim (Elements allows both flags on one outpoint)
			in.PeginWitness = [][]byte{{0x01}, {0x02, 0x03}}
		}
		p.Inputs = append(p.Inputs, in)
	}
	nout := t.Int()
	p.Outputs = make([]psetv2.Output, 0, nout)
	for i := 0; i < nout; i++ {
		var o psetv2.Output
		o.Value = t.U64()
		o.Asset = t.IssRaw()
		o.Script = t.IssRaw()
		o.BlindingPubkey = t.IssRaw()
		if len(o.BlindingPubkey) == 0 {
			o.BlindingPubkey = nil
		}
		o.BlinderIndex = uint32(t.U64())
		o.ValueCommitment = t.IssOpt()
		o.AssetCommitment = t.IssOpt()
		o.EcdhPubkey = t.IssOpt()
		p.Outputs = append(p.Outputs, o)
	}
	return p
}

func writeV2Pkt(b *sb, p *psetv2.Pset) {
	b.addn(p.Global.InputCount)
	b.addn(p.Global.OutputCount)
	b.add(b2s(p.OutputsModifiable()))
	b.addn(uint64(len(p.Inputs)))
	for _, in := range p.Inputs {
		b.addh(in.PreviousTxid)
		b.addn(uint64(in.PreviousTxIndex))
		b.addn(uint64(in.Sequence))
		b.addn(in.IssuanceValue)
		b.add(issOptTok(in.IssuanceValueCommitment))
		b.addn(in.IssuanceInflationKeys)
		b.add(issOptTok(in.IssuanceInflationKeysCommitment))
		b.add(issOptTok(in.IssuanceBlindingNonce))
		b.add(issOptTok(in.IssuanceAssetEntropy))
		if in.BlindedIssuance == nil {
			b.add("n")
		} else {
			b.add(b2s(*in.BlindedIssuance))
		}
		b.add(b2s(in.PeginWitness != nil))
	}
	b.addn(uint64(len(p.Outputs)))
	for _, o := range p.Outputs {
		b.addn(o.Value)
		b.addh(o.Asset)
		b.addh(o.Script)
		b.addh(o.BlindingPubkey)
		b.addn(uint64(o.BlinderIndex))
		b.add(issOptTok(o.ValueCommitment))
		b.add(issOptTok(o.AssetCommitment))
		b.add(issOptTok(o.EcdhPubkey))
	}
}

func readV2Case(t *Toks) *v2Case {
	op := t.Next()
	p := readV2Pkt(t)
	return readV2Step(t, op, p)
}

// index and arguments of one step (the op token has been read) on packet p
func readV2Step(t *Toks, op string, p *psetv2.Pset) *v2Case {
	c := &v2Case{op: op, p: p}
	c.idx = t.Int()
	if c.op == "add" {
		c.args = readIssArgs(t)
	} else {
		bl := t.IssRaw()
		es := t.Next()
		t.Next()
		if es == "-" {
			es = ""
		}
		asset, token := t.U64(), t.U64()
		aa, ta := issReadAddr(t), issReadAddr(t)
		c.re = psetv2.AddInReissuanceArgs{TokenPrevOutBlinder: bl, Entropy: es, AssetAmount: asset, TokenAmount: token,
			AssetAddress: aa.s, TokenAddress: ta.s}
	}
	return c
}

func readV2History(t *Toks) (*psetv2.Pset, []*v2Case) {
	p := readV2Pkt(t)
	n := t.Int()
	var steps []*v2Case
	for i := 0; i < n; i++ {
		steps = append(steps, readV2Step(t, t.Next(), p))
	}
	return p, steps
}

func runIssH2(t *Toks) string {
	p, steps := readV2History(t)
	var out []string
	for i, c := range steps {
		res := "ok"
		if err := c.call(); err != nil {
			res = "err"
		}
		var b sb
		writeV2Pkt(&b, p)
		utx, ext, get := v2Views(p)
		out = append(out, fmt.Sprintf("r%d=%s p%d=%s u%d=%s e%d=%s g%d=%s", i+1, res, i+1, b.commas(), i+1, utx, i+1, ext, i+1, get))
	}
	return strings.Join(out, " ")
}

func (c *v2Case) call() error {
	u := &psetv2.Updater{Pset: c.p}
	if c.op == "add" {
		return u.AddInIssuance(c.idx, psetv2.AddInIssuanceArgs{Precision: c.args.precision, Contract: c.args.contract,
			AssetAmount: c.args.asset, TokenAmount: c.args.token, AssetAddress: c.args.aaddr.s, TokenAddress: c.args.taddr.s,
			BlindedIssuance: c.args.blinded})
	}
	return u.AddInReissuance(c.idx, c.re)
}

func issDump(s *transaction.TxIssuance) string {
	if s == nil {
		return "0"
	}
	return "1/" + hx(s.AssetBlindingNonce) + "/" + hx(s.AssetEntropy) + "/" + hx(s.AssetAmount) + "/" + hx(s.TokenAmount)
}
func txIssView(tx *transaction.Transaction) string {
	var parts []string
	for _, in := range tx.Inputs {
		parts = append(parts, b2s(in.IsPegin)+":"+issDump(in.Issuance))
	}
	parts = append(parts, "o")
	for _, o := range tx.Outputs {
		parts = append(parts, hx(o.Asset)+"/"+hx(o.Value)+"/"+hx(o.Script)+"/"+hx(o.Nonce))
	}
	return strings.Join(parts, ",")
}

func v2Views(p *psetv2.Pset) (string, string, string) {
	utx := "err"
	if tx, err := p.UnsignedTx(); err == nil {
		utx = txIssView(tx)
	}
	ext := "err"
	if tx, err := issExtractTx(p); err == nil {
		ext = txIssView(tx)
	}
	var g []string
	for i := range p.Inputs {
		g = append(g, issOptTok(p.Inputs[i].GetIssuanceAssetHash())+"/"+issOptTok(p.Inputs[i].GetIssuanceInflationKeysHash()))
	}
	return utx, ext, strings.Join(g, ",")
}

func runIssV2(t *Toks) string {
	c := readV2Case(t)
	// a packet whose declared input count exceeds its inputs makes the index check read out of range (Go panic)
	err := c.call()
	res := "ok"
	if err != nil {
		res = "err"
		if os.Getenv("VERIF_ERRTEXT") != "" {
			fmt.Fprintln(os.Stderr, "issv2:", err)
		}
	}
	var b sb
	writeV2Pkt(&b, c.p)
	utx, ext, get := v2Views(c.p)
	return fmt.Sprintf("res=%s pkt=%s utx=%s ext=%s get=%s", res, b.commas(), utx, ext, get)
}

var _ = chainhash.HashB

// Extract wants finalized inputs. The final script is set here, after the updater call (which since e4278d0 refuses
// finalized inputs), and only for the extraction.
func issExtractTx(p *psetv2.Pset) (*transaction.Transaction, error) {
	for i := range p.Inputs {
		if len(p.Inputs[i].FinalScriptSig) == 0 && len(p.Inputs[i].FinalScriptWitness) == 0 {
			p.Inputs[i].FinalScriptSig = []byte{0x51}
			defer func(i int) { p.Inputs[i].FinalScriptSig = nil }(i)
		}
	}
	return psetv2.Extract(p)
}

func init() {
	gens["issid"] = genIssIDCases
	gens["issmid"] = genIssMidCases
	gens["isscon"] = genIssConCases
	gens["issv0"] = genIssV0Cases
	gens["issv2"] = genIssV2Cases
	gens["issh0"] = genIssH0Cases
	gens["issh2"] = genIssH2Cases
	runs["issh0"] = runIssH0
	runs["issh2"] = runIssH2
	runs["issid"] = runIssID
	runs["issmid"] = runIssMid
	runs["isscon"] = runIssCon
	runs["issv0"] = runIssV0
	runs["issv2"] = runIssV2
}
