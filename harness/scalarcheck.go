package main

import (
	"bytes"
	"fmt"
	"math/big"

	"github.com/btcsuite/btcd/btcec/v2"
	"github.com/vulpemventures/go-elements/confidential"
)

// S for C17: the property stated directly on the real helpers.
//   - arguments are never modified (guard bytes in front of and behind every argument,
//     the ones behind lying in the slice's spare capacity) — checked on every case;
//   - for a 64-bit value and scalars that are absent or 32 bytes below the group order,
//     the call succeeds and returns (value*ab + vb), (scalar + value*ab + vb), (a - b)
//     modulo n, an absent operand counting as zero; a nil result counts as zero.

// in-domain operand: nil, or 32 bytes encoding a number below n
func scalDomain(a *scalArg) (*big.Int, bool) {
	if a.s == nil {
		return big.NewInt(0), true
	}
	if len(a.s) != 32 {
		return nil, false
	}
	v := new(big.Int).SetBytes(a.s)
	if v.Cmp(secpN) >= 0 {
		return nil, false
	}
	return v, true
}

var scalSite = map[string]string{
	"calc": "CalculateScalarOffset",
	"sub":  "SubtractScalars",
	"add":  "ComputeAndAddToScalarOffset",
}

func checkC17Scal(t *Toks) string {
	c := readScal(t)
	site := scalSite[c.op]
	if secpN.Cmp(btcec.S256().N) != 0 {
		return fail("group-order", "harness-literal-differs-from-btcec")
	}
	// operands are read before the call: the guards below must not depend on what the call does
	var iv [3]*big.Int
	inDomain := true
	for i := 0; i < 3; i++ {
		v, ok := scalDomain(c.x[i])
		if !ok {
			inDomain = false
		}
		iv[i] = v
	}
	absent := [3]bool{c.x[0].s == nil, c.x[1].s == nil, c.x[2].s == nil}
	zeroBefore := append([]byte{}, confidential.Zero...)

	out, err := c.call()

	for i := 0; i < 3; i++ {
		if !c.x[i].untouched() {
			return fail(site+".mutates-argument", fmt.Sprintf("arg%d", i))
		}
	}
	if !bytes.Equal(confidential.Zero, zeroBefore) {
		return fail(site+".mutates-argument", "package-Zero")
	}
	if !inDomain {
		return "SKIP out-of-domain"
	}
	want := new(big.Int)
	bv := new(big.Int).SetUint64(c.value)
	switch c.op {
	case "calc":
		want.Mul(bv, iv[1]).Add(want, iv[2])
	case "add":
		want.Mul(bv, iv[1]).Add(want, iv[2]).Add(want, iv[0])
	case "sub":
		want.Sub(iv[1], iv[2])
	}
	want.Mod(want, secpN)
	if err != nil {
		// every input of the domain must be answered (repaired by 9f323e4); name the class for the replay
		detail := "unexpected"
		switch c.op {
		case "sub":
			if !absent[1] && !absent[2] && want.Sign() == 0 {
				detail = "zero-difference"
			}
		case "calc":
			if !absent[1] && absent[2] && c.value > 0 {
				detail = "nil-value-blinder"
			}
		case "add":
			if !absent[1] && absent[2] && (c.value > 0 || !absent[0]) {
				detail = "nil-value-blinder"
			}
		}
		return fail(site+".error", detail)
	}
	if out != nil && len(out) != 32 {
		return fail(site+".result-length", fmt.Sprintf("%d", len(out)))
	}
	got := new(big.Int).SetBytes(out) // nil counts as zero
	if got.Cmp(want) != 0 {
		return fail(site+".value", "not-the-arithmetic-result")
	}
	// the generator methods the PSET v2 blinder calls are the same functions
	if c.op != "calc" {
		g := confidential.NewZKPGeneratorFromBlindingKeys(nil, nil)
		var o2 []byte
		var e2 error
		if c.op == "sub" {
			o2, e2 = g.SubtractScalars(c.x[1].s, c.x[2].s)
		} else {
			o2, e2 = g.ComputeAndAddToScalarOffset(c.x[0].s, c.value, c.x[1].s, c.x[2].s)
		}
		if e2 != nil || !bytes.Equal(o2, out) || (o2 == nil) != (out == nil) {
			return fail("zkpGenerator."+site, "differs-from-package-function")
		}
		for i := 0; i < 3; i++ {
			if !c.x[i].untouched() {
				return fail("zkpGenerator."+site+".mutates-argument", fmt.Sprintf("arg%d", i))
			}
		}
	}
	return "OK"
}

func init() {
	checks["C17/scal"] = checkC17Scal
}
