package main

// Implementation-side oracle (S) for C06: the property stated directly on the real code.
// Only the honest part of a case line is used (value, asset, factors, script, keys, exp,
// minBits); the alteration scenario of the line belongs to K.  Alteration positions are
// derived from a hash of the line, so a verdict replays exactly.

import (
	"bytes"
	"crypto/sha256"
	"fmt"
	"hash/fnv"

	"github.com/btcsuite/btcd/btcec/v2"
	"github.com/vulpemventures/go-elements/confidential"
	"github.com/vulpemventures/go-elements/transaction"
)

func ubLineRng(line string, salt uint64) *Rng {
	h := fnv.New64a()
	h.Write([]byte(line))
	return NewRng(h.Sum64() ^ salt)
}

func ubSameUnblinded(r *confidential.UnblindOutputResult, value uint64, asset, vbf, abf []byte) bool {
	return r != nil && r.Value == value && bytes.Equal(r.Asset, asset) &&
		bytes.Equal(r.ValueBlindingFactor, vbf) && bytes.Equal(r.AssetBlindingFactor, abf)
}

func ubDescUnblinded(r *confidential.UnblindOutputResult) string {
	if r == nil {
		return "nil"
	}
	return fmt.Sprintf("v=%x,a=%s,vbf=%s,abf=%s", r.Value, hx(r.Asset), hx(r.ValueBlindingFactor), hx(r.AssetBlindingFactor))
}

// SHA256(SHA256(compressed(priv * Pub))) with btcec only: what NonceHash must return
func ubRefNonce(pub, priv []byte) ([]byte, bool) {
	pk, err := btcec.ParsePubKey(pub)
	if err != nil {
		return nil, false
	}
	var p, q btcec.JacobianPoint
	pk.AsJacobian(&p)
	var k btcec.ModNScalar
	if overflow := k.SetByteSlice(priv); overflow || k.IsZero() {
		return nil, false
	}
	btcec.ScalarMultNonConst(&k, &p, &q)
	q.ToAffine()
	comp := btcec.NewPublicKey(&q.X, &q.Y).SerializeCompressed()
	h1 := sha256.Sum256(comp)
	h2 := sha256.Sum256(h1[:])
	return h2[:], true
}

func ubCloneOut(o *transaction.TxOutput) *transaction.TxOutput {
	return &transaction.TxOutput{
		Asset: append([]byte{}, o.Asset...), Value: append([]byte{}, o.Value...),
		Script: append([]byte(nil), o.Script...), Nonce: append([]byte{}, o.Nonce...),
		RangeProof: append([]byte{}, o.RangeProof...),
	}
}

func ubFlipBit(b []byte, r *Rng) (int, byte) {
	i := r.Intn(len(b))
	m := byte(1) << uint(r.Intn(8))
	b[i] ^= m
	return i, m
}

func checkC06Ubl(t *Toks) string {
	line := t.line
	c := readUbl(t)
	if len(c.asset) != 32 || len(c.abf) != 32 || len(c.vbf) != 32 {
		return "SKIP outside-quantifier"
	}
	tb := ubReadOracle(t)
	b, where := ubBlindWithAPI(c)
	if b == nil {
		// the property is conditional on the range proof supporting the amount: when the real
		// primitives, called with the arguments the wrappers are specified to pass (min-value
		// rule, exp / minBits defaults, message, extra commitment), do produce a proof, the
		// library has to produce the output too
		if len(tb.sign) > 0 && tb.sign[0].res != nil {
			return fail("blind-refused", fmt.Sprintf("%s:value=%x:script-len=%d:exp=%d:minbits=%d", where, c.value, len(c.script), c.exp, c.mb))
		}
		return "SKIP blind-" + where
	}
	r := ubLineRng(line, 6)
	out := &transaction.TxOutput{Asset: b.ac, Value: b.vc, Script: c.script, Nonce: c.E, RangeProof: b.proof}

	// nonce = SHA256(ECDH) with the real ECDH primitive (and an independent btcec reference)
	var trueNonce []byte
	if secret := ubPrimEcdh(c.R, c.esk); secret != nil {
		h := sha256.Sum256(secret)
		trueNonce = h[:]
	}
	if ref, ok := ubRefNonce(c.R, c.esk); ok && trueNonce != nil && !bytes.Equal(ref, trueNonce) {
		return "SKIP ecdh-references-disagree"
	}
	if trueNonce != nil && !bytes.Equal(trueNonce, b.nonce[:]) {
		// an output blinded (by anybody) for the true ECDH nonce must open with the recipient's key
		var n32, v32 [32]byte
		copy(n32[:], trueNonce)
		copy(v32[:], c.vbf)
		if p2, err := confidential.RangeProof(confidential.RangeProofArgs{Value: c.value, Nonce: n32,
			Asset: append([]byte{}, c.asset...), AssetBlindingFactor: append([]byte{}, c.abf...), ValueBlindFactor: v32,
			ValueCommit: b.vc, ScriptPubkey: c.script, Exp: c.exp, MinBits: c.mb}); err == nil {
			o2 := &transaction.TxOutput{Asset: b.ac, Value: b.vc, Script: c.script, Nonce: c.E, RangeProof: p2}
			rn, cls := ubUnblindGuard(func() (*confidential.UnblindOutputResult, error) {
				return confidential.UnblindOutputWithNonce(ubCloneOut(o2), trueNonce)
			})
			if cls == "ok" && ubSameUnblinded(rn, c.value, c.asset, c.vbf, c.abf) {
				if _, cls := ubUnblindGuard(func() (*confidential.UnblindOutputResult, error) {
					return confidential.UnblindOutputWithKey(ubCloneOut(o2), c.rsk)
				}); cls != "ok" {
					return fail("roundtrip-true-nonce", "blinded-for-SHA256(ECDH):opens-with-the-nonce:"+cls+"-with-the-recipient-key")
				}
			}
		}
		return fail("nonce-hash", "NonceHash(R,esk)!=SHA256(ECDH(R,esk))")
	}
	n2, err := confidential.NonceHash(c.E, c.rsk)
	if err != nil || n2 != b.nonce {
		return fail("nonce-sym", "NonceHash(E,rsk)!=NonceHash(R,esk)")
	}
	if !confidential.VerifyRangeProof(b.vc, b.ac, c.script, b.proof) {
		return fail("verify-fresh", "fresh-range-proof-does-not-verify")
	}

	// round trip with the recipient's key and with the nonce
	rk, cls := ubUnblindGuard(func() (*confidential.UnblindOutputResult, error) {
		return confidential.UnblindOutputWithKey(ubCloneOut(out), c.rsk)
	})
	if cls != "ok" || !ubSameUnblinded(rk, c.value, c.asset, c.vbf, c.abf) {
		return fail("roundtrip-key", cls+":"+ubDescUnblinded(rk))
	}
	rn, cls := ubUnblindGuard(func() (*confidential.UnblindOutputResult, error) {
		return confidential.UnblindOutputWithNonce(ubCloneOut(out), b.nonce[:])
	})
	if cls != "ok" || !ubSameUnblinded(rn, c.value, c.asset, c.vbf, c.abf) {
		return fail("roundtrip-nonce", cls+":"+ubDescUnblinded(rn))
	}
	// the revealed data re-creates the commitments
	if ubRecreates(rk, out.Asset, out.Value) != "1" {
		return fail("recreate", "revealed-data-does-not-recreate-commitments")
	}

	mustFail := func(site string, o *transaction.TxOutput, key []byte, detail string) string {
		res, cls := ubUnblindGuard(func() (*confidential.UnblindOutputResult, error) {
			return confidential.UnblindOutputWithKey(o, key)
		})
		if cls == "ok" {
			same := "same-amounts"
			if !ubSameUnblinded(res, c.value, c.asset, c.vbf, c.abf) {
				same = "other-amounts:" + ubDescUnblinded(res)
			}
			return fail(site, detail+":"+same)
		}
		if cls == "panic" {
			return fail(site, detail+":panic")
		}
		return ""
	}

	// a different key
	other := ubGenScalar(r)
	if s := mustFail("wrong-key", ubCloneOut(out), other, "other-key"); s != "" {
		return s
	}
	flipped := append([]byte{}, c.rsk...)
	ubFlipBit(flipped, r)
	if s := mustFail("wrong-key", ubCloneOut(out), flipped, "one-bit-of-key"); s != "" {
		return s
	}
	// the sender's own ephemeral private key is not the recipient's key either
	if s := mustFail("wrong-key", ubCloneOut(out), c.esk, "ephemeral-key"); s != "" {
		return s
	}
	// a different nonce
	wn := append([]byte{}, b.nonce[:]...)
	ubFlipBit(wn, r)
	if res, cls := ubUnblindGuard(func() (*confidential.UnblindOutputResult, error) {
		return confidential.UnblindOutputWithNonce(ubCloneOut(out), wn)
	}); cls != "err" {
		return fail("wrong-nonce", cls+":"+ubDescUnblinded(res))
	}
	// script altered: one bit, one byte more, one byte less / from empty to something
	for k := r.Intn(2); k < 3; k += 2 {
		o := ubCloneOut(out)
		var what string
		switch {
		case len(o.Script) == 0:
			o.Script = [][]byte{{0x00}, {0x6a}, {0x51}}[k]
			what = "empty-to-nonempty"
		case k == 0:
			i, m := ubFlipBit(o.Script, r)
			what = fmt.Sprintf("bit@%d^%02x", i, m)
		case k == 1:
			o.Script = append(o.Script, byte(r.Intn(256)))
			what = "appended"
		default:
			o.Script = o.Script[:len(o.Script)-1]
			what = "shortened"
		}
		if s := mustFail("tamper-script", o, c.rsk, what); s != "" {
			return s
		}
	}
	if len(out.Script) > 0 {
		o := ubCloneOut(out)
		o.Script = nil
		if s := mustFail("tamper-script", o, c.rsk, "dropped"); s != "" {
			return s
		}
	}
	// value commitment / asset commitment altered: one bit anywhere, and the parity prefix
	for k := 0; k < 2; k++ {
		o := ubCloneOut(out)
		if k == 0 {
			o.Value[0] ^= 1
		} else {
			o.Value[1+r.Intn(32)] ^= 1 << uint(r.Intn(8))
		}
		if s := mustFail("tamper-value-commitment", o, c.rsk, fmt.Sprintf("k%d", k)); s != "" {
			return s
		}
		o = ubCloneOut(out)
		if k == 0 {
			o.Asset[0] ^= 1
		} else {
			o.Asset[1+r.Intn(32)] ^= 1 << uint(r.Intn(8))
		}
		if s := mustFail("tamper-asset-commitment", o, c.rsk, fmt.Sprintf("k%d", k)); s != "" {
			return s
		}
	}
	// proof altered: never other amounts
	for k := 0; k < 2; k++ {
		o := ubCloneOut(out)
		var i int
		if k == 0 {
			i = r.Intn(10)
			o.RangeProof[i] ^= 1 << uint(r.Intn(8))
		} else {
			i, _ = ubFlipBit(o.RangeProof, r)
		}
		res, cls := ubUnblindGuard(func() (*confidential.UnblindOutputResult, error) {
			return confidential.UnblindOutputWithKey(o, c.rsk)
		})
		if cls == "ok" && !ubSameUnblinded(res, c.value, c.asset, c.vbf, c.abf) {
			return fail("tamper-proof", fmt.Sprintf("byte%d:other-amounts:%s", i, ubDescUnblinded(res)))
		}
		if cls == "panic" {
			return fail("tamper-proof", fmt.Sprintf("byte%d:panic", i))
		}
	}
	// another ephemeral public key in the nonce field
	o := ubCloneOut(out)
	o.Nonce = ubPubOf(ubGenScalar(r))
	if s := mustFail("wrong-ephemeral", o, c.rsk, "other-pubkey"); s != "" {
		return s
	}
	return "OK"
}

func checkC06Uiss(t *Toks) string {
	line := t.line
	c := readUiss(t)
	aid, tid, ok := ubIssuanceIDsAPI(c)
	if !ok {
		return "SKIP ids"
	}
	tb := ubReadOracle(t)
	avc, aproof, ok := ubBlindIssuanceAmountAPI(c.va, aid, c.vbfa, c.ka)
	if !ok {
		if len(tb.sign) > 0 && tb.sign[0].res != nil {
			return fail("blind-refused", fmt.Sprintf("issuance-asset-amount:value=%x", c.va))
		}
		return "SKIP blind-asset"
	}
	tvc, tproof := []byte{0}, []byte(nil)
	if c.hasToken {
		tvc, tproof, ok = ubBlindIssuanceAmountAPI(c.vt, tid, c.vbft, c.kt)
		if !ok {
			if len(tb.sign) > 1 && tb.sign[1].res != nil {
				return fail("blind-refused", fmt.Sprintf("issuance-token-amount:value=%x", c.vt))
			}
			return "SKIP blind-token"
		}
	}
	r := ubLineRng(line, 66)
	mk := func() *transaction.TxInput {
		return &transaction.TxInput{
			Hash: append([]byte{}, c.hash...), Index: c.index,
			Issuance: &transaction.TxIssuance{AssetBlindingNonce: append([]byte{}, c.bnonce...), AssetEntropy: append([]byte{}, c.entropy...),
				AssetAmount: append([]byte{}, avc...), TokenAmount: append([]byte{}, tvc...)},
			IssuanceRangeProof: append([]byte{}, aproof...), InflationRangeProof: append([]byte(nil), tproof...),
		}
	}
	zero := make([]byte, 32)
	tokKey := c.kt
	if !c.hasToken {
		tokKey = ubGenScalar(r)
	}
	prefix := ""
	if aid[0] == 0x0a || aid[0] == 0x0b {
		prefix = "asset-id-starts-" + hx(aid[:1])
	}
	if c.hasToken && (tid[0] == 0x0a || tid[0] == 0x0b) {
		prefix += "token-id-starts-" + hx(tid[:1])
	}
	res, cls := ubUnblindIssuanceGuard(mk(), [][]byte{c.ka, tokKey})
	if cls != "ok" {
		return fail("issuance-roundtrip", cls+":"+prefix)
	}
	if !ubSameUnblinded(res.Asset, c.va, aid, c.vbfa, zero) {
		return fail("issuance-roundtrip", "asset:"+ubDescUnblinded(res.Asset)+":"+prefix)
	}
	if c.hasToken && !ubSameUnblinded(res.Token, c.vt, tid, c.vbft, zero) {
		return fail("issuance-roundtrip", "token:"+ubDescUnblinded(res.Token)+":"+prefix)
	}
	if !c.hasToken && res.Token != nil {
		return fail("issuance-roundtrip", "token-result-without-token-amount")
	}
	// revealed data re-creates the amount commitments (zero asset blinder)
	ac, err := confidential.AssetCommitment(res.Asset.Asset, res.Asset.AssetBlindingFactor)
	if err != nil {
		return fail("issuance-recreate", "asset-commitment-error")
	}
	vc, err := confidential.ValueCommitment(res.Asset.Value, ac, res.Asset.ValueBlindingFactor)
	if err != nil || !bytes.Equal(vc, avc) {
		return fail("issuance-recreate", "asset-amount")
	}
	if c.hasToken {
		ac, err := confidential.AssetCommitment(res.Token.Asset, res.Token.AssetBlindingFactor)
		if err != nil {
			return fail("issuance-recreate", "token-commitment-error")
		}
		vc, err := confidential.ValueCommitment(res.Token.Value, ac, res.Token.ValueBlindingFactor)
		if err != nil || !bytes.Equal(vc, tvc) {
			return fail("issuance-recreate", "token-amount")
		}
	}
	mustFail := func(site string, in *transaction.TxInput, keys [][]byte, detail string) string {
		_, cls := ubUnblindIssuanceGuard(in, keys)
		if cls != "err" {
			return fail(site, detail+":"+cls)
		}
		return ""
	}
	wk := append([]byte{}, c.ka...)
	ubFlipBit(wk, r)
	if s := mustFail("issuance-wrong-key", mk(), [][]byte{wk, tokKey}, "asset-key"); s != "" {
		return s
	}
	if c.hasToken {
		wk := append([]byte{}, c.kt...)
		ubFlipBit(wk, r)
		if s := mustFail("issuance-wrong-key", mk(), [][]byte{c.ka, wk}, "token-key"); s != "" {
			return s
		}
		if !bytes.Equal(c.ka, c.kt) {
			if s := mustFail("issuance-wrong-key", mk(), [][]byte{c.kt, c.ka}, "keys-swapped"); s != "" {
				return s
			}
		}
	}
	in := mk()
	in.Issuance.AssetAmount[r.Intn(33)] ^= 1 << uint(r.Intn(8))
	if s := mustFail("issuance-tamper-commitment", in, [][]byte{c.ka, tokKey}, "asset-amount"); s != "" {
		return s
	}
	if c.hasToken {
		in := mk()
		in.Issuance.TokenAmount[r.Intn(33)] ^= 1 << uint(r.Intn(8))
		if s := mustFail("issuance-tamper-commitment", in, [][]byte{c.ka, tokKey}, "token-amount"); s != "" {
			return s
		}
	}
	// another issuance (entropy or prevout altered) carrying these proofs: never other amounts
	in = mk()
	if r.Bool() {
		ubFlipBit(in.Issuance.AssetEntropy, r)
	} else {
		ubFlipBit(in.Hash, r)
	}
	aid2, _ := ubRefIssuanceIDs(in.Hash, in.Index, in.Issuance.AssetBlindingNonce, in.Issuance.AssetEntropy)
	if res, cls := ubUnblindIssuanceGuard(in, [][]byte{c.ka, tokKey}); cls == "ok" {
		if res.Asset.Value != c.va || !bytes.Equal(res.Asset.ValueBlindingFactor, c.vbfa) {
			return fail("issuance-other-amounts", "altered-entropy:"+ubDescUnblinded(res.Asset))
		}
		// (a reissuance does not derive its id from the prevout: the id is then unchanged)
		if !bytes.Equal(aid2, aid) {
			return fail("issuance-tamper-entropy", "unblinds-under-another-asset-id")
		}
	} else if cls == "panic" {
		return fail("issuance-tamper-entropy", "panic")
	}
	in = mk()
	ubFlipBit(in.IssuanceRangeProof, r)
	if res, cls := ubUnblindIssuanceGuard(in, [][]byte{c.ka, tokKey}); cls == "ok" {
		if res.Asset.Value != c.va || !bytes.Equal(res.Asset.ValueBlindingFactor, c.vbfa) {
			return fail("issuance-tamper-proof", "other-amounts:"+ubDescUnblinded(res.Asset))
		}
	} else if cls == "panic" {
		return fail("issuance-tamper-proof", "panic")
	}
	return "OK"
}

func init() {
	checks["C06/ubl"] = checkC06Ubl
	checks["C06/uiss"] = checkC06Uiss
}
