package main

// Implementation-side oracle (S) for property C08: the PSET v0 round trip stated directly on
// the real code, field by field.  Used to search for failing inputs, never as evidence.

import (
	"bytes"
	"fmt"
	"strings"

	"github.com/vulpemventures/go-elements/pset"
	"github.com/vulpemventures/go-elements/transaction"
)

type v0Field struct{ name, val string }

func v0OutCore(o *transaction.TxOutput) string {
	return hx(o.Asset) + "," + hx(o.Value) + "," + hx(o.Script) + "," + hx(o.Nonce)
}

func v0OptS(x []byte) string {
	if x == nil {
		return "absent"
	}
	return "present:" + hx(x)
}

// v0Fields lists every field the property names. Partial signatures and derivations are
// sets keyed by public key (the serializer sorts them), transactions are compared up to the
// derived Flag field exactly as the C01 oracle does.
func v0Fields(p *pset.Pset) []v0Field {
	var f []v0Field
	add := func(n, v string) { f = append(f, v0Field{n, v}) }
	add("global.unsignedtx", normDump(p.UnsignedTx))
	{
		var b sb
		for _, u := range p.Unknowns {
			b.addh(u.Key)
			b.addh(u.Value)
		}
		add("global.unknowns", b.commas())
	}
	add("counts", fmt.Sprintf("%d,%d", len(p.Inputs), len(p.Outputs)))
	for i := range p.Inputs {
		in := &p.Inputs[i]
		pre := fmt.Sprintf("in%d.", i)
		if in.NonWitnessUtxo != nil {
			add(pre+"nonwitnessutxo", normDump(in.NonWitnessUtxo))
		} else {
			add(pre+"nonwitnessutxo", "absent")
		}
		if in.WitnessUtxo != nil {
			add(pre+"witnessutxo", v0OutCore(in.WitnessUtxo))
			add(pre+"witnessutxo.proofs", hx(in.WitnessUtxo.RangeProof)+","+hx(in.WitnessUtxo.SurjectionProof))
		} else {
			add(pre+"witnessutxo", "absent")
			add(pre+"witnessutxo.proofs", "absent")
		}
		{
			var b sb
			for _, s := range v0SortedSigs(in.PartialSigs) {
				b.addh(s.PubKey)
				b.addh(s.Signature)
			}
			add(pre+"partialsigs", b.commas())
		}
		add(pre+"sighashtype", fmt.Sprint(uint32(in.SighashType)))
		add(pre+"redeemscript", v0OptS(in.RedeemScript))
		add(pre+"witnessscript", v0OptS(in.WitnessScript))
		{
			var b sb
			v0WriteDers(&b, v0SortedDers(in.Bip32Derivation))
			add(pre+"bip32", b.commas())
		}
		add(pre+"finalscriptsig", v0OptS(in.FinalScriptSig))
		add(pre+"finalscriptwitness", v0OptS(in.FinalScriptWitness))
		{
			var b sb
			for _, u := range in.Unknowns {
				b.addh(u.Key)
				b.addh(u.Value)
			}
			add(pre+"unknowns", b.commas())
		}
	}
	for i := range p.Outputs {
		o := &p.Outputs[i]
		pre := fmt.Sprintf("out%d.", i)
		add(pre+"redeemscript", v0OptS(o.RedeemScript))
		add(pre+"witnessscript", v0OptS(o.WitnessScript))
		var b sb
		v0WriteDers(&b, v0SortedDers(o.Bip32Derivation))
		add(pre+"bip32", b.commas())
	}
	return f
}

func v0FieldClass(name string) string {
	if i := strings.IndexByte(name, '.'); i >= 0 && (strings.HasPrefix(name, "in") || strings.HasPrefix(name, "out")) {
		k := strings.TrimRight(name[:i], "0123456789")
		return k + name[i:]
	}
	return name
}

func v0HasEmptyPath(p *pset.Pset) bool {
	for i := range p.Inputs {
		if isFin := p.Inputs[i].FinalScriptSig != nil || p.Inputs[i].FinalScriptWitness != nil; isFin {
			continue // not written for a finalized input
		}
		for _, d := range p.Inputs[i].Bip32Derivation {
			if len(d.Bip32Path) == 0 {
				return true
			}
		}
	}
	for i := range p.Outputs {
		for _, d := range p.Outputs[i].Bip32Derivation {
			if len(d.Bip32Path) == 0 {
				return true
			}
		}
	}
	return false
}

// v0Compare reports the first field of `before` that `after` does not carry. The site ids are
// stable: they name the clause of the property (field class), the detail names the mechanism
// when the oracle can tell it.
func v0Compare(before []v0Field, orig *pset.Pset, after *pset.Pset, roles bool) string {
	fa := v0Fields(after)
	if len(fa) != len(before) {
		return fail("counts", "sections-differ")
	}
	for k := range before {
		if before[k].val == fa[k].val {
			continue
		}
		cls := v0FieldClass(before[k].name)
		switch {
		case cls == "global.unknowns":
			return fail("global.unknowns", "dropped")
		case cls == "in.witnessutxo.proofs":
			var idx int
			fmt.Sscanf(before[k].name, "in%d.", &idx)
			if o := orig.Inputs[idx].WitnessUtxo; o != nil && len(o.Nonce) <= 1 {
				return fail("in.witnessutxo.proofs", "null-nonce-proofs-dropped")
			}
			return fail("in.witnessutxo.proofs", "differ")
		case strings.HasPrefix(cls, "in."):
			var idx int
			fmt.Sscanf(before[k].name, "in%d.", &idx)
			in := &orig.Inputs[idx]
			fin := in.FinalScriptSig != nil || in.FinalScriptWitness != nil
			switch cls {
			case "in.partialsigs", "in.sighashtype", "in.redeemscript", "in.witnessscript", "in.bip32":
				if fin && roles {
					// the packet was built through creator/updater/signer/finalizer only: the
					// finalizer clears the signing fields, so nothing can be lost here
					return fail("in.finalized.roles", "finalizer-left-a-field-the-writer-skips/"+cls)
				}
				if fin {
					return fail("in.finalized", "signing-fields-dropped/"+cls)
				}
			}
			return fail(cls, "differ")
		default:
			return fail(cls, "differ")
		}
	}
	return ""
}

func v0Guard(stage string, f func() string) (res string) {
	defer func() {
		if e := recover(); e != nil {
			res = fail("panic."+stage, strings.ReplaceAll(fmt.Sprint(e), " ", "_"))
		}
	}()
	return f()
}

// C08 clause 1 on a packet value: ToHex/ToBase64 -> both parsers -> same fields.
func checkC08V0(t *Toks) string {
	tag := t.Next()
	v0SkipOracle(t)
	p := v0ReadPset(t)
	if !v0WfCore(p, true) {
		return "SKIP outside-wire-domain"
	}
	if !v0WuFloor(p) {
		// a witness UTXO with the one-byte null value and a script shorter than 8 bytes is below
		// the 44-byte floor of readTxOut: not a value an output can have (stated exclusion v0_wufloor)
		return "SKIP null-value-utxo-below-floor"
	}
	before := v0Fields(p)
	orig := v0Clone(p)
	var bs []byte
	if r := v0Guard("serialize", func() string {
		var st string
		bs, st = v0Serialize(p)
		if st != "ok" {
			return fail("serialize", st)
		}
		return ""
	}); r != "" {
		return r
	}
	var q *pset.Pset
	if r := v0Guard("parse", func() string {
		var st string
		q, st = v0Parse(bs)
		if st == "parsersdiffer" {
			return fail("parse", "hex-and-base64-parsers-differ")
		}
		if st != "ok" {
			if v0HasEmptyPath(orig) {
				return fail("roundtrip.reject", "bip32-empty-path")
			}
			for i := range orig.Inputs {
				if o := orig.Inputs[i].WitnessUtxo; o != nil && len(v0SerWu(o)) == 44 {
					return fail("roundtrip.reject", "witness-utxo-44-bytes")
				}
			}
			return fail("roundtrip.reject", "own-serialization/"+tag)
		}
		return ""
	}); r != "" {
		return r
	}
	if r := v0Compare(before, orig, q, tag == "api"); r != "" {
		return r
	}
	// the re-encoding of what was parsed is the same byte string
	var again []byte
	if r := v0Guard("reserialize", func() string {
		var st string
		again, st = v0Serialize(q)
		if st != "ok" {
			return fail("reserialize", st)
		}
		return ""
	}); r != "" {
		return r
	}
	if !bytes.Equal(again, bs) {
		return fail("reserialize", "bytes-differ")
	}
	return "OK " + tag
}

// C08 clause 2 on a byte stream: parse, serialize, parse is the identity on accepted encodings.
func checkC08V0Raw(t *Toks) string {
	v0SkipOracle(t)
	bs := t.Hex()
	var p *pset.Pset
	st := ""
	if r := v0Guard("parse", func() string {
		p, st = v0Parse(bs)
		if st == "parsersdiffer" {
			return fail("parse", "hex-and-base64-parsers-differ")
		}
		return ""
	}); r != "" {
		return r
	}
	if st != "ok" {
		return "OK rejected"
	}
	before := v0Fields(p)
	orig := v0Clone(p)
	var re []byte
	if r := v0Guard("serialize", func() string {
		re, st = v0Serialize(p)
		if st != "ok" {
			return fail("psp.serialize", st)
		}
		return ""
	}); r != "" {
		return r
	}
	var q *pset.Pset
	skip := ""
	if r := v0Guard("reparse", func() string {
		q, st = v0Parse(re)
		if st != "ok" {
			if !v0WuFloor(orig) {
				skip = "SKIP null-value-utxo-below-floor"
				return ""
			}
			for i := range orig.Inputs {
				if o := orig.Inputs[i].WitnessUtxo; o != nil && len(v0SerWu(o)) == 44 {
					return fail("roundtrip.reject", "witness-utxo-44-bytes")
				}
			}
			return fail("roundtrip.reject", "accepted-encoding")
		}
		return ""
	}); r != "" {
		return r
	}
	if skip != "" {
		return skip
	}
	if r := v0Compare(before, orig, q, false); r != "" {
		return r
	}
	return "OK accepted"
}

// C08 on the finalizer's output: the packet Finalize leaves round-trips every field (nothing is
// kept in memory that the writer skips).
func checkC08V0Fin(t *Toks) string {
	idx := t.Int()
	v0ReadOpt(t)
	v0ReadOpt(t)
	p := v0ReadPset(t)
	if r := v0Guard("finalize", func() string {
		if err := pset.Finalize(p, idx); err != nil {
			return "SKIP not-finalizable"
		}
		return ""
	}); r != "" {
		return r
	}
	if !v0WfCore(p, true) || !v0WuFloor(p) {
		return "SKIP outside-wire-domain"
	}
	before := v0Fields(p)
	orig := v0Clone(p)
	bs, st := v0Serialize(p)
	if st != "ok" {
		return fail("serialize", st)
	}
	q, st := v0Parse(bs)
	if st != "ok" {
		return fail("roundtrip.reject", "own-serialization/finalized")
	}
	if r := v0Compare(before, orig, q, true); r != "" {
		return r
	}
	return "OK finalized"
}

func init() {
	checks["C08/v0fin"] = checkC08V0Fin
	checks["C08/v0"] = checkC08V0
	checks["C08/v0raw"] = checkC08V0Raw
}
