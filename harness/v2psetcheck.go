package main

// Implementation-side property oracle (S) for C07, the PSET v2 codec, and the explicit Go
// mirror of the model's wf_pset. Property: serialize->parse yields an equal packet for every
// packet the library can build or accept; parse->serialize->parse is the identity on accepted
// encodings; serializing twice yields the same bytes; unknown / proprietary entries keep kind
// and value. Used to search for failing inputs and to write replays, never as evidence.

import (
	"bytes"

	"github.com/btcsuite/btcd/btcec/v2"
	"github.com/btcsuite/btcd/btcec/v2/ecdsa"
	"github.com/btcsuite/btcd/btcec/v2/schnorr"
	"github.com/vulpemventures/go-elements/psetv2"
	"github.com/vulpemventures/go-elements/transaction"
)

const v2MaxKey = 10000 // maxPsbtKeyLength

func v2pkOK(b []byte) bool  { _, err := btcec.ParsePubKey(b); return err == nil }
func v2derOK(b []byte) bool { _, err := ecdsa.ParseDERSignature(b); return err == nil }

// empty, or one of the listed lengths
func v2lenIs(b []byte, ns ...int) bool {
	for _, n := range ns {
		if len(b) == n {
			return true
		}
	}
	return len(b) == 0
}
func v2dupKey(keys [][]byte) bool {
	for i := range keys {
		for j := 0; j < i; j++ {
			if bytes.Equal(keys[i], keys[j]) {
				return true
			}
		}
	}
	return false
}

// key types / proprietary subtypes decoded into a field, per section
func v2stdType(sec byte, t uint8) bool {
	switch sec {
	case 'g':
		return (t >= 1 && t <= 6) || t == 0xfb
	case 'i': // 0x09 (PSBT_IN_POR_COMMITMENT) has no case in Input.deserialize: it stays an unknown
		return t <= 0x18 && t != 0x09
	}
	return t <= 4
}
func v2stdSub(sec byte, s uint8) bool {
	switch sec {
	case 'g':
		return s <= 1
	case 'i':
		return s <= 0x15
	}
	return s >= 1 && s <= 0x0a
}

// proprietary data and unknowns of one section
func v2wfExtra(sec byte, props []psetv2.ProprietaryData, unks []psetv2.KeyPair) string {
	for _, pd := range props {
		switch {
		case !bytes.Equal(pd.Identifier, []byte("pset")):
			return "proprietary-identifier"
		case v2stdSub(sec, pd.Subtype):
			return "proprietary-subtype-collision"
		case 1+5+1+len(pd.KeyData) > v2MaxKey:
			return "key-size"
		}
	}
	for _, u := range unks {
		switch {
		case u.Key.KeyType == 0xfc || v2stdType(sec, u.Key.KeyType):
			return "unknown-keytype-collision"
		case 1+len(u.Key.KeyData) > v2MaxKey:
			return "key-size"
		}
	}
	return ""
}

func v2wfDerivs(l []psetv2.DerivationPathWithPubKey) string {
	var keys [][]byte
	for _, d := range l {
		switch {
		case !v2pkOK(d.PubKey):
			return "bip32-pubkey"
		case len(d.Bip32Path) < 1:
			return "empty-bip32-path"
		}
		keys = append(keys, d.PubKey)
	}
	if v2dupKey(keys) {
		return "bip32-duplicate"
	}
	return ""
}

func v2wfInput(in *psetv2.Input) string {
	switch {
	case in.RequiredHeightLocktime != 0:
		return "height-locktime"
	case in.PeginValue != 0:
		return "pegin-value"
	case len(in.PreviousTxid) != 32:
		return "length:PreviousTxid"
	case !v2lenIs(in.IssuanceValueCommitment, 33) || !v2lenIs(in.IssuanceInflationKeysCommitment, 33):
		return "length:issuance-commitment"
	case !v2lenIs(in.PeginGenesisHash, 32) || !v2lenIs(in.IssuanceBlindingNonce, 32) || !v2lenIs(in.IssuanceAssetEntropy, 32) || !v2lenIs(in.ExplicitAsset, 32):
		return "length:32"
	case !v2lenIs(in.TapKeySig, 64, 65) || !v2lenIs(in.TapInternalKey, 32) || !v2lenIs(in.TapMerkleRoot, 32):
		return "length:taproot"
	}
	if tx := in.NonWitnessUtxo; tx != nil {
		b1, err := tx.Serialize()
		if err != nil {
			return "nonwitness-utxo"
		}
		tx2, err := transaction.NewTxFromBuffer(bytes.NewBuffer(v2cp(b1)))
		if err != nil {
			return "nonwitness-utxo"
		}
		if b2, err := tx2.Serialize(); err != nil || !bytes.Equal(b1, b2) {
			return "nonwitness-utxo"
		}
	}
	if in.WitnessUtxo != nil {
		enc := v2encTxOut(in.WitnessUtxo)
		if len(enc) < 45 {
			return "witness-utxo<45"
		}
		if o, ok := v2decTxOut(enc); !ok || !bytes.Equal(v2encTxOut(o), enc) {
			return "witness-utxo"
		}
	}
	if in.PeginTx != nil {
		enc := v2encMsgTx(in.PeginTx)
		if tx, ok := v2decMsgTx(enc); !ok || !bytes.Equal(v2encMsgTx(tx), enc) {
			return "pegin-tx"
		}
	}
	var keys [][]byte
	for _, s := range in.PartialSigs {
		if !v2pkOK(s.PubKey) || !v2derOK(s.Signature) {
			return "partial-sig"
		}
		if 1+len(s.PubKey) > v2MaxKey {
			return "key-size"
		}
		keys = append(keys, s.PubKey)
	}
	if v2dupKey(keys) {
		return "partial-sig-duplicate"
	}
	if why := v2wfDerivs(in.Bip32Derivation); why != "" {
		return why
	}
	keys = nil
	for _, s := range in.TapScriptSig {
		kd := v2cat(s.PubKey, s.LeafHash)
		if len(kd) != 64 || !v2lenIs(s.Signature, 64, 65) || len(s.Signature) == 0 {
			return "tap-script-sig"
		}
		keys = append(keys, kd[:32])
	}
	if v2dupKey(keys) {
		return "tap-script-sig-duplicate"
	}
	for _, l := range in.TapLeafScript {
		if l.ControlBlock.InternalKey == nil {
			return "tap-leaf"
		}
		cb, err := l.ControlBlock.ToBytes()
		if err != nil || len(cb) < 33 || (len(cb)-33)%32 != 0 || len(cb) > 33+32*128 {
			return "tap-leaf"
		}
		if _, err := schnorr.ParsePubKey(cb[1:33]); err != nil {
			return "tap-leaf"
		}
		if byte(l.LeafVersion) != cb[0]&0xfe {
			return "tap-leaf-version"
		}
	}
	keys = nil
	for _, d := range in.TapBip32Derivation {
		if len(d.PubKey) != 33 {
			return "tap-bip32-pubkey"
		}
		for _, h := range d.LeafHashes {
			if len(h) != 32 {
				return "tap-bip32-leaf-hash"
			}
		}
		if len(d.Bip32Path) < 1 {
			return "empty-bip32-path"
		}
		keys = append(keys, d.PubKey)
	}
	if v2dupKey(keys) {
		return "tap-bip32-duplicate"
	}
	return v2wfExtra('i', in.ProprietaryData, in.Unknowns)
}

func v2wfOutput(o *psetv2.Output) string {
	switch {
	case !v2lenIs(o.ValueCommitment, 33) || !v2lenIs(o.AssetCommitment, 33) || !v2lenIs(o.Asset, 32):
		return "length:output"
	case len(o.BlindingPubkey) > 0 && !v2pkOK(o.BlindingPubkey), len(o.EcdhPubkey) > 0 && !v2pkOK(o.EcdhPubkey):
		return "output-pubkey"
	}
	if why := v2wfDerivs(o.Bip32Derivation); why != "" {
		return why
	}
	return v2wfExtra('o', o.ProprietaryData, o.Unknowns)
}

// v2wfWhy names the first clause of wf_pset that fails ("" when the packet is well formed).
func v2wfWhy(p *psetv2.Pset) string {
	g := &p.Global
	if g.InputCount != uint64(len(p.Inputs)) || g.OutputCount != uint64(len(p.Outputs)) {
		return "count-mismatch"
	}
	if len(p.Inputs) >= 253 || len(p.Outputs) >= 253 {
		return "count>=253"
	}
	for _, x := range g.Xpubs {
		switch {
		case len(x.ExtendedKey) != 78:
			return "length:xpub"
		case len(x.DerivationPath) < 1:
			return "empty-bip32-path"
		}
	}
	for _, s := range g.Scalars {
		if len(s) != 32 {
			return "length:scalar"
		}
	}
	if why := v2wfExtra('g', g.ProprietaryData, g.Unknowns); why != "" {
		return why
	}
	for i := range p.Inputs {
		if why := v2wfInput(&p.Inputs[i]); why != "" {
			return why
		}
	}
	for i := range p.Outputs {
		if why := v2wfOutput(&p.Outputs[i]); why != "" {
			return why
		}
	}
	if !v2sane(p) {
		return "sanity"
	}
	return ""
}

// wfPsetV2 mirrors Model/PsetV2.v wf_pset: the packets the wire format can represent.
func wfPsetV2(p *psetv2.Pset) bool { return v2wfWhy(p) == "" }

// the library's own sanity checks
func v2sane(p *psetv2.Pset) bool {
	if p.Global.SanityCheck() != nil || p.SanityCheck() != nil {
		return false
	}
	for i := range p.Inputs {
		if p.Inputs[i].SanityCheck() != nil {
			return false
		}
	}
	for i := range p.Outputs {
		if p.Outputs[i].SanityCheck() != nil {
			return false
		}
	}
	return true
}

// ---------- classification of a failure by the shape of the packet ----------

type v2shape struct {
	height, pegin, emptyPath, foreignID, subCollision, typeCollision bool
}

func v2shapeOf(p *psetv2.Pset) (s v2shape) {
	extra := func(sec byte, props []psetv2.ProprietaryData, unks []psetv2.KeyPair) {
		for _, pd := range props {
			if !bytes.Equal(pd.Identifier, []byte("pset")) {
				s.foreignID = true
			} else if v2stdSub(sec, pd.Subtype) {
				s.subCollision = true
			}
		}
		for _, u := range unks {
			s.typeCollision = s.typeCollision || u.Key.KeyType == 0xfc || v2stdType(sec, u.Key.KeyType)
		}
	}
	derivs := func(l []psetv2.DerivationPathWithPubKey) {
		for _, d := range l {
			s.emptyPath = s.emptyPath || len(d.Bip32Path) == 0
		}
	}
	extra('g', p.Global.ProprietaryData, p.Global.Unknowns)
	for _, x := range p.Global.Xpubs {
		s.emptyPath = s.emptyPath || len(x.DerivationPath) == 0
	}
	for _, in := range p.Inputs {
		s.height = s.height || in.RequiredHeightLocktime != 0
		s.pegin = s.pegin || in.PeginValue != 0
		derivs(in.Bip32Derivation)
		for _, d := range in.TapBip32Derivation {
			s.emptyPath = s.emptyPath || len(d.Bip32Path) == 0
		}
		extra('i', in.ProprietaryData, in.Unknowns)
	}
	for _, o := range p.Outputs {
		derivs(o.Bip32Derivation)
		extra('o', o.ProprietaryData, o.Unknowns)
	}
	return
}

func v2rejectDetail(p *psetv2.Pset) string {
	s := v2shapeOf(p)
	switch {
	case s.height:
		return "height-locktime"
	case p.Global.InputCount >= 253 || p.Global.OutputCount >= 253 || len(p.Inputs) >= 253 || len(p.Outputs) >= 253:
		return "count>=253"
	case s.emptyPath:
		return "empty-bip32-path"
	case !wfPsetV2(p):
		return "bad-length"
	}
	return "other"
}
func v2fieldsDetail(p *psetv2.Pset) string {
	s := v2shapeOf(p)
	switch {
	case s.height:
		return "height-locktime"
	case s.foreignID:
		return "proprietary-identifier"
	case s.subCollision:
		return "proprietary-subtype-collision"
	case s.typeCollision:
		return "unknown-keytype-collision"
	}
	return "other"
}
func v2panicDetail(p *psetv2.Pset) string {
	if v2shapeOf(p).pegin {
		return "pegin-value"
	}
	return "other"
}

// the dump compared across a round trip: a nil and an all-zero Modifiable mean the same
func v2normDump(p *psetv2.Pset) string {
	c := *p
	if c.Global.Modifiable != nil && c.Global.Modifiable.Uint8() == 0 {
		c.Global.Modifiable = nil
	}
	return dumpPsetV2(&c)
}

// serializes several times (2x, 20x with a multi-entry pre-image map); returns the first
// serialization and a verdict ("" when all are equal)
func v2serRepeat(p *psetv2.Pset) (b64, st, verdict string) {
	b64, st = v2ser(p)
	if st == "panic" {
		return b64, st, fail("ser.panic", v2panicDetail(p))
	}
	n, why := 2, "other"
	if v2multiMap(p) {
		n, why = 20, "map-order"
	}
	for i := 1; i < n; i++ {
		if again, st2 := v2ser(p); st2 != st || again != b64 {
			return b64, st, fail("ser.determinism", why)
		}
	}
	return b64, st, ""
}

// C07 on a packet value
func checkC07Pset(t *Toks) string {
	v2skipOracle(t)
	p := readPsetV2(t)
	b64, st, verdict := v2serRepeat(p)
	if verdict != "" {
		return verdict
	}
	if !v2sane(p) || p.Global.InputCount != uint64(len(p.Inputs)) || p.Global.OutputCount != uint64(len(p.Outputs)) {
		return "SKIP not-sane" // the library would neither build nor accept it
	}
	if st != "ok" {
		return fail("ser.error", "other")
	}
	q, st := v2parse64(b64)
	switch st {
	case "panic":
		return fail("roundtrip.panic", "other")
	case "err":
		return fail("roundtrip.reject", v2rejectDetail(p))
	}
	if v2normDump(q) != v2normDump(p) {
		return fail("roundtrip.fields", v2fieldsDetail(p))
	}
	return "OK"
}

// C07 on a byte stream
func checkC07PsetRaw(t *Toks) string {
	v2skipOracle(t)
	bs := t.Hex()
	pairs := v2walk(bs)
	p, st := v2parse(bs)
	switch st {
	case "panic":
		for _, q := range pairs {
			if q.key[0] == 0x15 && len(q.val) == 0 {
				return fail("parse.panic", "tapleaf-empty-value")
			}
		}
		return fail("parse.panic", "other")
	case "err":
		return "OK rejected"
	}
	b64, st, verdict := v2serRepeat(p)
	if verdict != "" {
		return verdict
	}
	if st != "ok" {
		return fail("ser.error", "other")
	}
	q, st := v2parse64(b64)
	switch st {
	case "panic":
		return fail("reparse.panic", "other")
	case "err":
		return fail("reparse.reject", v2rejectDetail(p))
	}
	if v2normDump(q) != v2normDump(p) {
		return fail("reparse.fields", v2fieldsDetail(p))
	}
	// an accepted proprietary pair of a foreign identifier is not kept by the parser
	nsec := 1 + int(p.Global.InputCount) + int(p.Global.OutputCount)
	for _, c := range pairs {
		if id, _, ok := v2propKey(c.key[1:]); c.key[0] == 0xfc && c.sec < nsec && ok && !bytes.Equal(id, []byte("pset")) {
			return fail("proprietary.foreign-dropped", "")
		}
	}
	return "OK"
}

// triage aid: `impl check C07wf` names the first failing clause of wfPsetV2 and tells whether
// the serialization depends on map iteration order
func checkC07Wf(t *Toks) string {
	v2skipOracle(t)
	p := readPsetV2(t)
	res := "WF"
	if why := v2wfWhy(p); why != "" {
		res = "NOTWF " + why
	}
	if v2multiMap(p) {
		res += " multi-entry-map"
	}
	return res
}

func init() {
	checks["C07wf/pset"] = checkC07Wf
	checks["C07/pset"] = checkC07Pset
	checks["C07/psetraw"] = checkC07PsetRaw
}
