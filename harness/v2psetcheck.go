package main

// Implementation-side property oracle (S) for C07, the PSET v2 codec, and the explicit Go
// mirror of the model's wf_pset. Property: serialize->parse yields an equal packet for every
// packet the library can build or accept; parse->serialize->parse is the identity on accepted
// encodings; serializing twice yields the same bytes; unknown / proprietary entries keep kind
// and value. Used to search for failing inputs and to write replays, never as evidence.

import (
	"bytes"
	"encoding/base64"

	"github.com/btcsuite/btcd/btcec/v2"
	"github.com/btcsuite/btcd/btcec/v2/ecdsa"
	"github.com/btcsuite/btcd/btcec/v2/schnorr"
	"github.com/vulpemventures/go-elements/psetv2"
	"github.com/vulpemventures/go-elements/transaction"
)

const v2MaxKey = 10000 // maxPsbtKeyLength

func v2pkOK(b []byte) bool  { _, err := btcec.ParsePubKey(b); return err == nil }
func v2derOK(b []byte) bool { _, err := ecdsa.ParseDERSignature(b); return err == nil }

// empty, or one of the listed lengths
func v2lenIs(b []byte, ns ...int) bool {
	for _, n := range ns {
		if len(b) == n {
			return true
		}
	}
	return len(b) == 0
}
func v2dupKey(keys [][]byte) bool {
	for i := range keys {
		for j := 0; j < i; j++ {
			if bytes.Equal(keys[i], keys[j]) {
				return true
			}
		}
	}
	return false
}

// key types / proprietary subtypes decoded into a field, per section
func v2stdType(sec byte, t uint8) bool {
	switch sec {
	case 'g':
		return (t >= 1 && t <= 6) || t == 0xfb
	case 'i': // 0x09 (PSBT_IN_POR_COMMITMENT) has no case in Input.deserialize: it stays an unknown
		return t <= 0x18 && t != 0x09
	}
	return t <= 4
}
func v2stdSub(sec byte, s uint8) bool {
	switch sec {
	case 'g':
		return s <= 1
	case 'i':
		return s <= 0x15
	}
	return s >= 1 && s <= 0x0a
}

// v2wfAll lists every clause of wf_pset the packet breaks (none: the wire format can represent it).
// (The key-size limit of the multi-valued entries is implied by their own length rules.)
func v2wfAll(p *psetv2.Pset) (l []string) {
	bad := func(c bool, why string) {
		if c {
			l = append(l, why)
		}
	}
	pset := []byte("pset")
	extra := func(sec byte, props []psetv2.ProprietaryData, unks []psetv2.KeyPair) { // proprietary data and unknowns
		for _, pd := range props { // any identifier; an empty one means "pset"
			id := pd.Identifier
			if len(id) == 0 {
				id = pset
			}
			bad(bytes.Equal(id, pset) && v2stdSub(sec, pd.Subtype), "proprietary-subtype-collision")
			bad(1+len(v2vs(id))+1+len(pd.KeyData) > v2MaxKey, "key-size")
		}
		for _, u := range unks {
			bad(u.Key.KeyType == 0xfc || v2stdType(sec, u.Key.KeyType), "unknown-keytype-collision")
			bad(1+len(u.Key.KeyData) > v2MaxKey, "key-size")
		}
	}
	derivs := func(l []psetv2.DerivationPathWithPubKey) {
		var keys [][]byte
		for _, d := range l {
			bad(!v2pkOK(d.PubKey), "bip32-pubkey")
			keys = append(keys, d.PubKey)
		}
		bad(v2dupKey(keys), "bip32-duplicate")
	}
	g := &p.Global
	bad(g.InputCount != uint64(len(p.Inputs)) || g.OutputCount != uint64(len(p.Outputs)), "count-mismatch")
	for _, x := range g.Xpubs {
		bad(len(x.ExtendedKey) != 78, "length:xpub")
	}
	for _, s := range g.Scalars {
		bad(len(s) != 32, "length:scalar")
	}
	extra('g', g.ProprietaryData, g.Unknowns)
	for i := range p.Inputs {
		in := &p.Inputs[i]
		bad(len(in.PreviousTxid) != 32, "length:PreviousTxid")
		bad(!v2lenIs(in.IssuanceValueCommitment, 33) || !v2lenIs(in.IssuanceInflationKeysCommitment, 33), "length:issuance-commitment")
		bad(!v2lenIs(in.PeginGenesisHash, 32) || !v2lenIs(in.IssuanceBlindingNonce, 32) || !v2lenIs(in.IssuanceAssetEntropy, 32) ||
			!v2lenIs(in.ExplicitAsset, 32), "length:32")
		bad(!v2lenIs(in.TapKeySig, 64, 65) || !v2lenIs(in.TapInternalKey, 32) || !v2lenIs(in.TapMerkleRoot, 32), "length:taproot")
		if tx := in.NonWitnessUtxo; tx != nil { // Serialize -> NewTxFromBuffer -> Serialize is the identity
			b1, err1 := tx.Serialize()
			tx2, err2 := transaction.NewTxFromBuffer(bytes.NewBuffer(v2cp(b1)))
			bad(err1 != nil || err2 != nil, "nonwitness-utxo")
			if err1 == nil && err2 == nil {
				b2, err := tx2.Serialize()
				bad(err != nil || !bytes.Equal(b1, b2), "nonwitness-utxo")
			}
		}
		if in.WitnessUtxo != nil { // readTxOut wants 44 bytes and gives the same output back
			enc := v2encTxOut(in.WitnessUtxo)
			o, ok := v2decTxOut(enc)
			bad(len(enc) < 44, "witness-utxo<44") // only with a null (one-byte) value: not an output any API yields
			bad(!ok || !bytes.Equal(v2encTxOut(o), enc), "witness-utxo")
		}
		if in.PeginTx != nil {
			enc := v2encMsgTx(in.PeginTx)
			tx, ok := v2decMsgTx(enc)
			bad(!ok || !bytes.Equal(v2encMsgTx(tx), enc), "pegin-tx")
		}
		var keys [][]byte
		for _, s := range in.PartialSigs {
			bad(!v2pkOK(s.PubKey) || !v2derOK(s.Signature), "partial-sig")
			keys = append(keys, s.PubKey)
		}
		bad(v2dupKey(keys), "partial-sig-duplicate")
		derivs(in.Bip32Derivation)
		keys = nil
		for _, s := range in.TapScriptSig {
			bad(len(s.PubKey)+len(s.LeafHash) != 64 || (len(s.Signature) != 64 && len(s.Signature) != 65), "tap-script-sig")
			keys = append(keys, v2cat(s.PubKey, s.LeafHash)) // same x-only key AND same leaf hash
		}
		bad(v2dupKey(keys), "tap-script-sig-duplicate")
		for _, l := range in.TapLeafScript {
			var cb []byte
			if l.ControlBlock.InternalKey != nil {
				cb, _ = l.ControlBlock.ToBytes()
			}
			okLen := len(cb) >= 33 && (len(cb)-33)%32 == 0 && len(cb) <= 33+32*128
			bad(!okLen, "tap-leaf")
			if okLen {
				_, err := schnorr.ParsePubKey(cb[1:33])
				bad(err != nil, "tap-leaf")
				bad(byte(l.LeafVersion) != cb[0]&0xfe, "tap-leaf-version")
			}
		}
		keys = nil
		for _, d := range in.TapBip32Derivation {
			bad(len(d.PubKey) != 33, "tap-bip32-pubkey")
			for _, h := range d.LeafHashes {
				bad(len(h) != 32, "tap-bip32-leaf-hash")
			}
			keys = append(keys, d.PubKey)
		}
		bad(v2dupKey(keys), "tap-bip32-duplicate")
		extra('i', in.ProprietaryData, in.Unknowns)
	}
	for _, o := range p.Outputs {
		bad(!v2lenIs(o.ValueCommitment, 33) || !v2lenIs(o.AssetCommitment, 33) || !v2lenIs(o.Asset, 32), "length:output")
		bad((len(o.BlindingPubkey) > 0 && !v2pkOK(o.BlindingPubkey)) || (len(o.EcdhPubkey) > 0 && !v2pkOK(o.EcdhPubkey)), "output-pubkey")
		derivs(o.Bip32Derivation)
		extra('o', o.ProprietaryData, o.Unknowns)
	}
	bad(!v2sane(p), "sanity")
	return
}

// wfPsetV2 mirrors Model/PsetV2.v wf_pset: the packets the wire format can represent.
func wfPsetV2(p *psetv2.Pset) bool { return len(v2wfAll(p)) == 0 }

// the library's own sanity checks
func v2sane(p *psetv2.Pset) bool {
	ok := p.Global.SanityCheck() == nil && p.SanityCheck() == nil
	for i := range p.Inputs {
		ok = ok && p.Inputs[i].SanityCheck() == nil
	}
	for i := range p.Outputs {
		ok = ok && p.Outputs[i].SanityCheck() == nil
	}
	return ok
}

// ---------- classification of a failure by the shape of the packet ----------

func v2has(p *psetv2.Pset, why string) bool {
	for _, w := range v2wfAll(p) {
		if w == why {
			return true
		}
	}
	return false
}
func v2firstOf(p *psetv2.Pset, other string, whys ...string) string {
	for _, w := range whys {
		if v2has(p, w) {
			return w
		}
	}
	return other
}
func v2rejectDetail(p *psetv2.Pset) string {
	other := "other"
	if !wfPsetV2(p) {
		other = "bad-length" // some other clause of wf_pset
	}
	return other
}
func v2fieldsDetail(p *psetv2.Pset) string {
	return v2firstOf(p, "other", "proprietary-subtype-collision", "unknown-keytype-collision")
}
func v2panicDetail(p *psetv2.Pset) string { return "other" }

// the dump compared across a round trip: a nil and an all-zero Modifiable mean the same
func v2normDump(p *psetv2.Pset) string {
	c := *p
	if c.Global.Modifiable != nil && c.Global.Modifiable.Uint8() == 0 {
		c.Global.Modifiable = nil
	}
	s := dumpPsetV2(&c)
	// an empty ProprietaryData.Identifier means "pset" (proprietaryKeyWithIdentifier)
	fix := func(l []psetv2.ProprietaryData) []psetv2.ProprietaryData {
		o := append([]psetv2.ProprietaryData{}, l...)
		for i := range o {
			if len(o[i].Identifier) == 0 {
				o[i].Identifier = []byte("pset")
			}
		}
		return o
	}
	c.Global.ProprietaryData = fix(c.Global.ProprietaryData)
	c.Inputs = append([]psetv2.Input{}, c.Inputs...)
	for i := range c.Inputs {
		c.Inputs[i].ProprietaryData = fix(c.Inputs[i].ProprietaryData)
	}
	c.Outputs = append([]psetv2.Output{}, c.Outputs...)
	for i := range c.Outputs {
		c.Outputs[i].ProprietaryData = fix(c.Outputs[i].ProprietaryData)
	}
	_ = s
	return dumpPsetV2(&c)
}

// serializes several times (2x, 20x with a multi-entry pre-image map); returns the first
// serialization and a verdict ("" when all are equal)
func v2serRepeat(p *psetv2.Pset) (b64, st, verdict string) {
	b64, st = v2ser(p)
	if st == "panic" {
		return b64, st, fail("ser.panic", v2panicDetail(p))
	}
	n, why := 2, "other"
	if v2multiMap(p) { // an order that depends on map iteration shows with probability >= 1/8 per call
		n, why = 64, "map-order"
	}
	for i := 1; i < n; i++ {
		if again, st2 := v2ser(p); st2 != st || again != b64 {
			return b64, st, fail("ser.determinism", why)
		}
	}
	return b64, st, ""
}

// clauses of wf_pset that exclude packets the library itself builds (creator / updater / exported
// struct fields used as documented) or accepts; every other clause excludes malformed values
var v2libraryShape = map[string]bool{}

// C07 on a packet value
func checkC07Pset(t *Toks) string {
	v2skipOracle(t)
	p := readPsetV2(t)
	b64, st, verdict := v2serRepeat(p)
	if verdict != "" {
		return verdict
	}
	if !v2sane(p) || p.Global.InputCount != uint64(len(p.Inputs)) || p.Global.OutputCount != uint64(len(p.Outputs)) {
		return "SKIP not-sane" // the library would neither build nor accept it
	}
	// Direct struct construction can also express values no API call would produce (a garbage
	// signature, an Unknown carrying a known key type, ...): the property does not speak about those.
	// Only the clauses below are shapes the library itself builds or accepts.
	for _, w := range v2wfAll(p) {
		if !v2libraryShape[w] {
			return "SKIP not-representable:" + w
		}
	}
	if st != "ok" {
		return fail("ser.error", "other")
	}
	v2history(v2unb64(b64)) // corrupted copies first: the genuine parse must not depend on them
	q, st := v2parse64(b64)
	switch st {
	case "panic":
		return fail("roundtrip.panic", "other")
	case "err":
		return fail("roundtrip.reject", v2rejectDetail(p))
	}
	if v2normDump(q) != v2normDump(p) {
		return fail("roundtrip.fields", v2fieldsDetail(p))
	}
	// the same bytes through NewPsetFromBuffer; the caller then overwrites its buffer (v2parse does) and
	// appends to every slice field: the parsed packet must still serialize to the bytes it was read from
	q2, st2 := v2parse(v2unb64(b64))
	if st2 != "ok" {
		return fail("roundtrip.buffer-path", st2)
	}
	if again, st3 := v2ser(q2); st3 != "ok" || again != b64 {
		return fail("parse.aliases-input", "scribble")
	}
	v2appendAll(q2)
	if again, st3 := v2ser(q2); st3 != "ok" || again != b64 {
		return fail("parse.aliases-input", "append")
	}
	return "OK"
}

// C07 on a byte stream
func checkC07PsetRaw(t *Toks) string {
	v2skipOracle(t)
	bs := t.Hex()
	pairs := v2walk(bs)
	v2history(bs)
	p, st := v2parse(bs)
	switch st {
	case "panic":
		for _, q := range pairs {
			if q.key[0] == 0x15 && len(q.val) == 0 {
				return fail("parse.panic", "tapleaf-empty-value")
			}
		}
		return fail("parse.panic", "other")
	case "err":
		return "OK rejected"
	}
	// p came through NewPsetFromBuffer and its input buffer has been overwritten since (v2parse): the
	// same bytes through the base64 entry point must give the same packet
	if p64, st64 := v2parse64(base64.StdEncoding.EncodeToString(bs)); st64 != "ok" || dumpPsetV2(p64) != dumpPsetV2(p) {
		return fail("parse.aliases-input", "scribble")
	}
	b64, st, verdict := v2serRepeat(p)
	if verdict != "" {
		return verdict
	}
	if st != "ok" {
		return fail("ser.error", "other")
	}
	q, st := v2parse64(b64)
	switch st {
	case "panic":
		return fail("reparse.panic", "other")
	case "err":
		return fail("reparse.reject", v2rejectDetail(p))
	}
	if v2normDump(q) != v2normDump(p) {
		return fail("reparse.fields", v2fieldsDetail(p))
	}
	// every accepted proprietary pair of a foreign identifier must be kept (kind, key and value)
	nsec := 1 + int(p.Global.InputCount) + int(p.Global.OutputCount)
	inStream, kept := 0, 0
	for _, c := range pairs {
		if id, _, ok := v2propKey(c.key[1:]); c.key[0] == 0xfc && c.sec < nsec && ok && !bytes.Equal(id, []byte("pset")) {
			inStream++
		}
	}
	cnt := func(l []psetv2.ProprietaryData) {
		for _, pd := range l {
			if !bytes.Equal(pd.Identifier, []byte("pset")) {
				kept++
			}
		}
	}
	cnt(p.Global.ProprietaryData)
	for i := range p.Inputs {
		cnt(p.Inputs[i].ProprietaryData)
	}
	for i := range p.Outputs {
		cnt(p.Outputs[i].ProprietaryData)
	}
	if kept < inStream {
		return fail("proprietary.foreign-dropped", "")
	}
	return "OK"
}

// triage aid: `impl check C07wf` names the first failing clause of wfPsetV2 and tells whether
// the serialization depends on map iteration order
func checkC07Wf(t *Toks) string {
	v2skipOracle(t)
	p := readPsetV2(t)
	res := "WF"
	if why := v2wfAll(p); len(why) > 0 {
		res = "NOTWF " + why[0]
	}
	if v2multiMap(p) {
		res += " multi-entry-map"
	}
	return res
}

func init() {
	checks["C07wf/pset"] = checkC07Wf
	checks["C07/pset"] = checkC07Pset
	checks["C07/psetraw"] = checkC07PsetRaw
}
