// Command race (C18, part d): read-only library calls from 8 goroutines: first a COLD phase on
// fresh inputs without any warm-up (cold.go), then calls on SHARED values.
// Built with `go build -race`; any race report makes the process exit with code 66, any
// result that differs from the sequentially computed one prints a WRONG line and exits 1.
package main

import (
	"bytes"
	"encoding/json"
	"fmt"
	"os"
	"sort"
	"strconv"
	"strings"
	"sync"

	"github.com/btcsuite/btcd/btcec/v2"
	"github.com/btcsuite/btcd/btcutil/psbt"
	"github.com/btcsuite/btcd/chaincfg/chainhash"
	"github.com/btcsuite/btcd/txscript"
	"github.com/vulpemventures/go-elements/address"
	"github.com/vulpemventures/go-elements/blech32"
	"github.com/vulpemventures/go-elements/confidential"
	"github.com/vulpemventures/go-elements/elementsutil"
	"github.com/vulpemventures/go-elements/pset"
	"github.com/vulpemventures/go-elements/psetv2"
	"github.com/vulpemventures/go-elements/taproot"
	"github.com/vulpemventures/go-elements/transaction"
)

type op struct {
	name string
	f    func() string
	want string // when set: the expected result, computed on a separate equal value, so that the
	// shared value is touched for the first time by the concurrent phase
	hasWant bool
}

// call runs f; a panic (a decoder fed with a value another goroutine overwrote) is a wrong result
func call(f func() string) (res string) {
	defer func() {
		if e := recover(); e != nil {
			res = fmt.Sprint("panic: ", e)
		}
	}()
	return f()
}

func rep(b byte, n int) []byte { return bytes.Repeat([]byte{b}, n) }

func mkTx(k int) *transaction.Transaction {
	tx := transaction.NewTx(2)
	for i := 0; i < 2+k%2; i++ {
		in := transaction.NewTxInput(rep(byte(0x10+i+k), 32), uint32(i))
		in.Script = rep(0x51, 10+300*(i%2)) // >= 253 bytes: the 0xfd varint (Uint16 / PutUint16) path
		in.Witness = [][]byte{rep(0x30, 71), rep(0x02, 33+260*(k%2))}
		if i == 1 {
			in.IsPegin = true
			in.PeginWitness = [][]byte{rep(1, 8), rep(2, 32), rep(3, 300)}
			in.Issuance = &transaction.TxIssuance{AssetBlindingNonce: make([]byte, 32), AssetEntropy: rep(7, 32),
				AssetAmount: []byte{1, 0, 0, 0, 0, 0, 0, 1, 0}, TokenAmount: []byte{0}}
		}
		tx.AddInput(in)
	}
	for i := 0; i < 3; i++ {
		o := transaction.NewTxOutput(append([]byte{1}, rep(0x25, 32)...), []byte{1, 0, 0, 0, 0, 0, 0, byte(k), byte(i)}, rep(0x6a, 1+270*(i%2)))
		if i == 2 {
			o.Asset = append([]byte{0x0a}, rep(0x33, 32)...)
			o.Value = append([]byte{0x08}, rep(0x44, 32)...)
			o.Nonce = append([]byte{0x02}, rep(0x55, 32)...)
			o.RangeProof = rep(0x66, 70000) // 0xfe varint (Uint32 / PutUint32) path
			o.SurjectionProof = rep(0x77, 67)
		}
		tx.AddOutput(o)
	}
	tx.Locktime = uint32(k)
	return tx
}

func fixtures(files ...string) (out []string) {
	var walk func(v interface{})
	walk = func(v interface{}) {
		switch x := v.(type) {
		case string:
			if strings.HasPrefix(x, "cHNldP") {
				out = append(out, x)
			}
		case []interface{}:
			for _, y := range x {
				walk(y)
			}
		case map[string]interface{}:
			for _, y := range x {
				walk(y)
			}
		}
	}
	for _, f := range files {
		b, err := os.ReadFile("/repo/" + f)
		if err != nil {
			continue
		}
		var v interface{}
		if json.Unmarshal(b, &v) == nil {
			walk(v)
		}
	}
	sort.Strings(out) // map iteration order must not pick the fixtures
	return
}

func main() {
	iters := 300
	if len(os.Args) > 1 {
		iters, _ = strconv.Atoi(os.Args[1])
	}
	// cold state first: nothing of the library has run yet in this process
	cold := iters / 6
	if cold < 25 {
		cold = 25
	}
	coldPhase(cold)

	var ops []op
	add := func(name string, f func() string) { ops = append(ops, op{name: name, f: f}) }

	// ---- shared values ----
	for k := 0; k < 3; k++ {
		tx := mkTx(k)
		ser, err := tx.Serialize()
		if err != nil {
			panic(err)
		}
		script := rep(0x51, 25)
		value := []byte{1, 0, 0, 0, 0, 0, 0, 3, 4}
		var scripts, assets, values [][]byte
		for range tx.Inputs {
			scripts = append(scripts, rep(0x52, 34))
			assets = append(assets, append([]byte{1}, rep(0x25, 32)...))
			values = append(values, value)
		}
		var genesis chainhash.Hash
		copy(genesis[:], rep(9, 32))
		add("Serialize", func() string { b, _ := tx.Serialize(); return string(b) })
		add("TxHash", func() string { h := tx.TxHash(); return string(h[:]) })
		add("WitnessHash", func() string { h := tx.WitnessHash(); return string(h[:]) })
		add("Weight", func() string { return fmt.Sprint(tx.Weight(), tx.VirtualSize(), tx.DiscountVirtualSize()) })
		add("HashForSignature", func() string {
			h, _ := tx.HashForSignature(1, script, txscript.SigHashAll|0x40)
			return string(h[:])
		})
		add("HashForWitnessV0", func() string { h := tx.HashForWitnessV0(0, script, value, txscript.SigHashSingle); return string(h[:]) })
		add("HashForWitnessV1", func() string {
			h := tx.HashForWitnessV1(1, scripts, assets, values, txscript.SigHashDefault, &genesis, nil, nil)
			return string(h[:])
		})
		add("NewTxFromBuffer", func() string {
			p, err := transaction.NewTxFromBuffer(bytes.NewBuffer(ser))
			if err != nil {
				return "err"
			}
			h := p.WitnessHash()
			return string(h[:])
		})
		add("Copy", func() string { b, _ := tx.Copy().Serialize(); return string(b) })
	}
	entropy := rep(0x42, 72)[:32]
	add("ComputeAsset", func() string { a, _ := transaction.ComputeAsset(entropy); return string(a) })
	add("ComputeReissuanceToken", func() string { a, _ := transaction.ComputeReissuanceToken(entropy, 1); return string(a) })
	add("ComputeEntropy", func() string { a, _ := transaction.ComputeEntropy(entropy, 3, entropy); return string(a) })

	_, pub := btcec.PrivKeyFromBytes(rep(0x21, 32))
	bl := &address.Blech32{Prefix: "lq", Version: 0, PublicKey: append(pub.SerializeCompressed(), rep(0xa5, 40)...)[:33], Program: rep(0x13, 20)}
	addr, err := address.ToBlech32(bl)
	if err != nil {
		panic(err)
	}
	add("ToBlech32", func() string { s, _ := address.ToBlech32(bl); return s })
	add("FromBlech32", func() string { b, _ := address.FromBlech32(addr); return string(b.Program) + string(b.PublicKey) })
	add("ToOutputScript", func() string { s, _ := address.ToOutputScript(addr); return string(s) })
	add("FromConfidential", func() string { i, _ := address.FromConfidential(addr); return i.Address + string(i.BlindingKey) })
	add("blech32.Decode", func() string { h, d, _ := blech32.Decode(addr); return h + string(d) })
	b58 := &address.Base58Confidential{Base58: address.Base58{Version: 57, Data: rep(0x14, 20)}, Version: 12, PublicKey: bl.PublicKey}
	add("ToBase58Confidential", func() string { return address.ToBase58Confidential(b58) })

	asset, abf, vbf := rep(0x25, 64)[:32], rep(0x11, 64)[:32], rep(0x12, 32)
	add("AssetCommitment", func() string { c, _ := confidential.AssetCommitment(asset, abf); return string(c) })
	gen, _ := confidential.AssetCommitment(asset, abf)
	add("ValueCommitment", func() string { c, _ := confidential.ValueCommitment(1234, gen, vbf); return string(c) })
	add("CalculateScalarOffset", func() string { s, _ := confidential.CalculateScalarOffset(3, abf, vbf); return string(s) })
	add("SubtractScalars", func() string { s, _ := confidential.SubtractScalars(abf, abf); return string(s) })
	explicit := &transaction.TxOutput{Asset: append([]byte{1}, asset...), Value: []byte{1, 0, 0, 0, 0, 0, 0, 0, 5}, Script: []byte{0x51}, Nonce: []byte{0}}
	add("UnblindOutputWithNonce", func() string {
		u, _ := confidential.UnblindOutputWithNonce(explicit, vbf)
		return fmt.Sprint(u.Value) + string(u.ValueBlindingFactor) + string(u.AssetBlindingFactor)
	})
	add("elementsutil", func() string {
		b, _ := elementsutil.ValueToBytes(0x0102030405060708)
		v, _ := elementsutil.ValueFromBytes(b)
		return string(b) + fmt.Sprint(v) + elementsutil.TxIDFromBytes(asset)
	})

	priv, _ := btcec.PrivKeyFromBytes(rep(0x31, 32))
	root := rep(0x61, 32)
	add("TweakTaprootPrivKey", func() string { return string(taproot.TweakTaprootPrivKey(priv, root).Serialize()) })
	add("ComputeTaprootOutputKey", func() string { return string(taproot.ComputeTaprootOutputKey(pub, root).SerializeCompressed()) })
	leaves := []taproot.TapElementsLeaf{taproot.NewBaseTapElementsLeaf(rep(0x51, 5)), taproot.NewBaseTapElementsLeaf(rep(0x52, 6)), taproot.NewBaseTapElementsLeaf(rep(0x53, 7))}
	add("taproot.tree", func() string {
		tree := taproot.AssembleTaprootScriptTree(leaves...)
		h := tree.RootNode.TapHash()
		cb := tree.LeafMerkleProofs[1].ToControlBlock(pub)
		b, _ := cb.ToBytes()
		return string(h[:]) + string(b)
	})

	for i, b64 := range fixtures("psetv2/testdata/roundtrip.json") {
		if i >= 6 {
			break
		}
		b64 := b64
		p, err := psetv2.NewPsetFromBase64(b64)
		if err != nil || len(p.Inputs) == 0 {
			continue
		}
		// tap fields as sub-slices with spare capacity, as a caller may well hold them
		p.Inputs[0].TapScriptSig = append(p.Inputs[0].TapScriptSig, psetv2.TapScriptSig{
			PartialSig: psetv2.PartialSig{PubKey: rep(0x02, 80)[:32], Signature: rep(0x07, 64)}, LeafHash: rep(0x09, 32)})
		add("v2.ToBase64", func() string { s, _ := p.ToBase64(); return s })
		add("v2.UnsignedTx", func() string {
			tx, err := p.UnsignedTx()
			if err != nil {
				return "err"
			}
			h := tx.TxHash()
			return string(h[:]) + fmt.Sprint(p.Locktime(), p.IsComplete())
		})
		add("v2.GetUtxo", func() string {
			var sb strings.Builder
			for i := range p.Inputs {
				if u := p.Inputs[i].GetUtxo(); u != nil {
					sb.Write(u.Script)
					sb.Write(u.RangeProof)
				}
				sb.Write(p.Inputs[i].GetIssuanceAssetHash())
			}
			return sb.String()
		})
		add("v2.Parse", func() string {
			q, err := psetv2.NewPsetFromBase64(b64)
			if err != nil {
				return "err"
			}
			return fmt.Sprint(len(q.Inputs), len(q.Outputs))
		})
	}
	for i, b64 := range fixtures("pset/data/signer.json", "pset/data/finalizer.json", "pset/data/updater.json") {
		if i >= 6 {
			break
		}
		b64 := b64
		mk := func() *pset.Pset {
			p, err := pset.NewPsetFromBase64(b64)
			if err != nil {
				return nil
			}
			if len(p.Inputs) > 0 { // two signatures in descending key order in the live packet
				p.Inputs[0].FinalScriptSig, p.Inputs[0].FinalScriptWitness = nil, nil
				p.Inputs[0].PartialSigs = []*psbt.PartialSig{{PubKey: append([]byte{3}, rep(9, 32)...), Signature: []byte{0x30, 1}},
					{PubKey: append([]byte{2}, rep(8, 32)...), Signature: []byte{0x30, 2}}}
			}
			return p
		}
		p, twin := mk(), mk()
		if p == nil {
			continue
		}
		w, _ := twin.ToBase64()
		ops = append(ops, op{name: "v0.ToBase64", f: func() string { s, _ := p.ToBase64(); return s }, want: w, hasWant: true})
		add("v0.Parse", func() string {
			q, err := pset.NewPsetFromBase64(b64)
			if err != nil {
				return "err"
			}
			return fmt.Sprint(len(q.Inputs), len(q.Outputs))
		})
	}

	// ---- expected results, sequentially ----
	want := make([]string, len(ops))
	for i, o := range ops {
		if o.hasWant {
			want[i] = o.want
		} else {
			want[i] = o.f()
		}
	}
	// ---- 8 goroutines on the shared values ----
	var wg sync.WaitGroup
	var mu sync.Mutex
	bad := ""
	for g := 0; g < 8; g++ {
		wg.Add(1)
		go func(g int) {
			defer wg.Done()
			for it := 0; it < iters; it++ {
				i := (it*7 + g*13) % len(ops)
				if call(ops[i].f) != want[i] {
					mu.Lock()
					if bad == "" {
						bad = ops[i].name
					}
					mu.Unlock()
					return
				}
			}
		}(g)
	}
	wg.Wait()
	if bad != "" {
		fmt.Println("WRONG result of", bad, "under concurrent use")
		os.Exit(1)
	}
	fmt.Println("ok", len(ops), "operations x", iters, "iterations x 8 goroutines")
}
