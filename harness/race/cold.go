package main

// Cold phase of the C18 race binary: NO sequential warm-up.  It is the first thing main does.
// Eight goroutines start together and, in every iteration, each of them feeds the read-only
// entry points with inputs nobody has used before in this process: one input shared by all
// eight (they meet it for the first time at the same moment, behind a barrier) and one input
// of its own.  Inputs are derived from an integer id: custom human-readable parts, fresh keys,
// scripts, addresses, descriptors, seeds, transactions.  Any lazily initialised or memoising
// package-level state is therefore WRITTEN concurrently (race report / fatal map error), and a
// cache that hands out wrong or shared values shows as a result that differs from the one
// recomputed sequentially afterwards.

import (
	"bytes"
	"crypto/sha256"
	"encoding/binary"
	"encoding/hex"
	"fmt"
	"os"
	"strings"
	"sync"

	"github.com/btcsuite/btcd/btcec/v2"
	"github.com/btcsuite/btcd/txscript"
	"github.com/vulpemventures/go-elements/address"
	"github.com/vulpemventures/go-elements/blech32"
	"github.com/vulpemventures/go-elements/confidential"
	"github.com/vulpemventures/go-elements/descriptor"
	"github.com/vulpemventures/go-elements/elementsutil"
	"github.com/vulpemventures/go-elements/network"
	"github.com/vulpemventures/go-elements/payment"
	"github.com/vulpemventures/go-elements/pset"
	"github.com/vulpemventures/go-elements/psetv2"
	"github.com/vulpemventures/go-elements/slip77"
	"github.com/vulpemventures/go-elements/taproot"
	"github.com/vulpemventures/go-elements/transaction"
)

func h32(id int, salt byte) []byte {
	var b [9]byte
	binary.LittleEndian.PutUint64(b[:], uint64(id))
	b[8] = salt
	h := sha256.Sum256(b[:])
	return h[:]
}

func scalarOf(id int, salt byte) []byte {
	b := h32(id, salt)
	b[0] &= 0x7f
	b[31] |= 1
	return b
}

// keys come from a small pool made with btcec alone before the goroutines start (EC arithmetic is
// slow under the race detector and is not the code under test); freshness of the inputs comes
// from the human-readable parts, hashes, scripts and seeds
type keyPair struct {
	priv *btcec.PrivateKey
	pub  *btcec.PublicKey
}

var keyPool []keyPair

func initKeyPool() {
	for i := 0; i < 16; i++ {
		priv, pub := btcec.PrivKeyFromBytes(scalarOf(i, 99))
		keyPool = append(keyPool, keyPair{priv, pub})
	}
}

func keyOf(id int, salt byte) (*btcec.PrivateKey, *btcec.PublicKey) {
	k := keyPool[(id+int(salt))%len(keyPool)]
	return k.priv, k.pub
}

const hrpAlphabet = "abcdefghijklmnopqrstuvwxyz023456789"

// hrpOf: a human-readable part never used before for a new id ("a0" .. and longer)
func hrpOf(id int) string {
	var sb strings.Builder
	sb.WriteByte(hrpAlphabet[id%26])
	id /= 26
	for {
		sb.WriteByte(hrpAlphabet[id%len(hrpAlphabet)])
		id /= len(hrpAlphabet)
		if id == 0 {
			break
		}
	}
	return sb.String()
}

var coldNets = []*network.Network{&network.Liquid, &network.Regtest, &network.Testnet}

type coldOp struct {
	name  string
	heavy bool // cgo / EC arithmetic: run on the shared input only, every fourth iteration
	f     func(id int) string
}

func coldOps(v0, v2 []string) []coldOp {
	return []coldOp{
		{"blech32.Encode/Decode", false, func(id int) string {
			hrp := hrpOf(id)
			data := h32(id, 1)[:20]
			for i := range data {
				data[i] &= 31
			}
			data[0] = byte(id % 2)
			enc := blech32.BLECH32
			if data[0] == 1 {
				enc = blech32.BLECH32M
			}
			s, err := blech32.Encode(hrp, data, enc)
			if err != nil {
				return "err"
			}
			h2, d2, err := blech32.Decode(s)
			return fmt.Sprint(s, h2, hex.EncodeToString(d2), err)
		}},
		{"address.ToBlech32/FromBlech32", false, func(id int) string {
			_, pub := keyOf(id, 2)
			s, err := address.ToBlech32(&address.Blech32{Prefix: hrpOf(id) + "x", Version: byte(id % 2), PublicKey: pub.SerializeCompressed(), Program: h32(id, 3)[:20+12*(id%2)]})
			if err != nil {
				return "err"
			}
			b, err := address.FromBlech32(s)
			if err != nil {
				return s + " err"
			}
			return fmt.Sprint(s, b.Prefix, b.Version, hex.EncodeToString(b.PublicKey), hex.EncodeToString(b.Program))
		}},
		{"address.ToBech32/FromBech32", false, func(id int) string {
			s, err := address.ToBech32(&address.Bech32{Prefix: hrpOf(id) + "y", Version: byte(id % 2), Program: h32(id, 4)[:20+12*(id%2)]})
			if err != nil {
				return "err"
			}
			b, err := address.FromBech32(s)
			if err != nil {
				return s + " err"
			}
			return fmt.Sprint(s, b.Prefix, b.Version, hex.EncodeToString(b.Program))
		}},
		{"address.base58", false, func(id int) string {
			_, pub := keyOf(id, 5)
			n := coldNets[id%3]
			s := address.ToBase58(&address.Base58{Version: n.PubKeyHash, Data: h32(id, 6)[:20]})
			b, err := address.FromBase58(s)
			if err != nil {
				return s + " err"
			}
			c := address.ToBase58Confidential(&address.Base58Confidential{Base58: address.Base58{Version: n.ScriptHash, Data: h32(id, 7)[:20]}, Version: n.Confidential, PublicKey: pub.SerializeCompressed()})
			d, err := address.FromBase58Confidential(c)
			if err != nil {
				return c + " err"
			}
			return fmt.Sprint(s, hex.EncodeToString(b.Data), c, hex.EncodeToString(d.PublicKey), hex.EncodeToString(d.Data))
		}},
		{"payment+address", false, func(id int) string {
			_, bk := keyOf(id, 9)
			n := coldNets[id%3]
			// a fresh witness program gives fresh addresses of every kind
			p, err := payment.FromScript(append([]byte{0x00, 0x14}, h32(id, 8)[:20]...), n, bk)
			if err != nil {
				return "err"
			}
			p.Hash = h32(id, 28)[:20]
			var sb strings.Builder
			for _, m := range []func() (string, error){p.PubKeyHash, p.ConfidentialPubKeyHash, p.ScriptHash, p.ConfidentialScriptHash,
				p.WitnessPubKeyHash, p.ConfidentialWitnessPubKeyHash, p.WitnessScriptHash, p.ConfidentialWitnessScriptHash} {
				a, err := m()
				if err != nil {
					sb.WriteString("e;")
					continue
				}
				ty, _ := address.DecodeType(a)
				conf, _ := address.IsConfidential(a)
				scr, _ := address.ToOutputScript(a)
				nn, _ := address.NetworkForAddress(a)
				sb.WriteString(fmt.Sprint(a, ty, conf, hex.EncodeToString(scr), nn != nil && nn.Name == n.Name, ";"))
				if conf {
					fc, err := address.FromConfidential(a)
					if err == nil {
						back, _ := address.ToConfidential(fc)
						sb.WriteString(fmt.Sprint(fc.Address, hex.EncodeToString(fc.BlindingKey), hex.EncodeToString(fc.Script), back == a, ";"))
					}
				}
			}
			return sb.String()
		}},
		{"taproot+p2tr", true, func(id int) string {
			priv, pub := keyOf(id, 10)
			_, bk := keyOf(id, 11)
			var leaves []taproot.TapElementsLeaf
			for i := 0; i < 1+id%3; i++ {
				leaves = append(leaves, taproot.NewBaseTapElementsLeaf(append([]byte{byte(i), txscript.OP_DROP}, h32(id, byte(20+i))[:5+i]...)))
			}
			tree := taproot.AssembleTaprootScriptTree(leaves...)
			root := tree.RootNode.TapHash()
			var sb strings.Builder
			for i := range tree.LeafMerkleProofs {
				cb := tree.LeafMerkleProofs[i].ToControlBlock(pub)
				bs, err := cb.ToBytes()
				if err != nil {
					return "err"
				}
				pc, err := taproot.ParseControlBlock(bs)
				if err != nil {
					return "err-parse"
				}
				sb.WriteString(hex.EncodeToString(bs) + hex.EncodeToString(pc.RootHash(leaves[i].Script)) + ";")
			}
			q := taproot.ComputeTaprootOutputKey(pub, root[:])
			tw := taproot.TweakTaprootPrivKey(priv, root[:])
			sb.WriteString(hex.EncodeToString(q.SerializeCompressed()) + hex.EncodeToString(tw.Serialize()))
			if p, err := payment.FromTaprootScriptTree(pub, tree, coldNets[id%3], bk); err == nil {
				a, _ := p.TaprootAddress()
				c, _ := p.ConfidentialTaprootAddress()
				scr, _ := address.ToOutputScript(c)
				sb.WriteString(fmt.Sprint(a, c, hex.EncodeToString(scr)))
			}
			if p, err := payment.FromTweakedKey(q, coldNets[id%3], nil); err == nil {
				a, _ := p.TaprootAddress()
				sb.WriteString(a)
			}
			return sb.String()
		}},
		{"descriptor", false, func(id int) string {
			_, pub := keyOf(id, 12)
			w, err := descriptor.Parse("elwpkh(" + hex.EncodeToString(pub.SerializeCompressed()) + ")")
			if err != nil {
				return "err"
			}
			rs, err := w.Script(nil)
			if err != nil {
				return "err-script"
			}
			var sb strings.Builder
			for _, r := range rs {
				sb.WriteString(hex.EncodeToString(r.Script))
			}
			return fmt.Sprint(w.Type(), w.IsRange(), sb.String())
		}},
		{"slip77", false, func(id int) string {
			m, err := slip77.FromSeed(h32(id, 13))
			if err != nil {
				return "err"
			}
			priv, pub, err := m.DeriveKey(append([]byte{0x00, 0x14}, h32(id, 14)[:20]...))
			if err != nil {
				return "err-derive"
			}
			return hex.EncodeToString(m.MasterKey) + hex.EncodeToString(priv.Serialize()) + hex.EncodeToString(pub.SerializeCompressed())
		}},
		{"transaction", false, func(id int) string {
			tx := mkTx(id % 7)
			tx.Inputs[0].Hash = h32(id, 15)
			tx.Inputs[0].Script = append(h32(id, 16), rep(0x51, 260)...) // 0xfd varint path
			tx.Outputs[0].Script = h32(id, 17)[:22]
			ser, err := tx.Serialize()
			if err != nil {
				return "err"
			}
			p, err := transaction.NewTxFromBuffer(bytes.NewBuffer(ser))
			if err != nil {
				return "err-parse"
			}
			re, _ := p.Serialize()
			h, w := p.TxHash(), p.WitnessHash()
			s0 := tx.HashForWitnessV0(0, h32(id, 18)[:25], []byte{1, 0, 0, 0, 0, 0, 0, 3, 4}, txscript.SigHashAll)
			s1, _ := tx.HashForSignature(0, h32(id, 19)[:25], txscript.SigHashSingle)
			e, _ := transaction.ComputeEntropy(h32(id, 20), uint32(id), h32(id, 21))
			a, _ := transaction.ComputeAsset(e)
			k, _ := transaction.ComputeReissuanceToken(e, uint(id%2))
			return fmt.Sprint(bytes.Equal(ser, re), hex.EncodeToString(h[:]), hex.EncodeToString(w[:]), hex.EncodeToString(s0[:]), hex.EncodeToString(s1[:]),
				hex.EncodeToString(a), hex.EncodeToString(k), tx.Weight(), tx.DiscountVirtualSize())
		}},
		{"confidential", true, func(id int) string {
			asset, abf, vbf := h32(id, 22), scalarOf(id, 23), scalarOf(id, 24)
			gen, err := confidential.AssetCommitment(asset, abf)
			if err != nil {
				return "err"
			}
			vc, err := confidential.ValueCommitment(uint64(1+id), gen, vbf)
			if err != nil {
				return "err-vc"
			}
			so, _ := confidential.CalculateScalarOffset(uint64(id%3), abf, vbf)
			sub, _ := confidential.SubtractScalars(abf, vbf)
			_, pub := keyOf(id, 25)
			nh, _ := confidential.NonceHash(pub.SerializeCompressed(), scalarOf(id, 26))
			return hex.EncodeToString(gen) + hex.EncodeToString(vc) + hex.EncodeToString(so) + hex.EncodeToString(sub) + hex.EncodeToString(nh[:])
		}},
		{"elementsutil", false, func(id int) string {
			b, _ := elementsutil.ValueToBytes(uint64(id) * 1000003)
			v, _ := elementsutil.ValueFromBytes(b)
			a := append([]byte{1}, h32(id, 27)...)
			s := elementsutil.AssetHashFromBytes(a)
			back, _ := elementsutil.AssetHashToBytes(s)
			t := elementsutil.TxIDFromBytes(a[1:])
			tb, _ := elementsutil.TxIDToBytes(t)
			return fmt.Sprint(hex.EncodeToString(b), v, s, bytes.Equal(back, a), t, bytes.Equal(tb, a[1:]))
		}},
		{"pset.parse", false, func(id int) string {
			var sb strings.Builder
			if len(v0) > 0 {
				if p, err := pset.NewPsetFromBase64(v0[id%len(v0)]); err == nil {
					s, _ := p.ToBase64()
					sb.WriteString(fmt.Sprint(len(p.Inputs), len(p.Outputs), s, p.IsComplete()))
				}
			}
			if len(v2) > 0 {
				if p, err := psetv2.NewPsetFromBase64(v2[id%len(v2)]); err == nil {
					s, _ := p.ToBase64()
					sb.WriteString(fmt.Sprint(len(p.Inputs), len(p.Outputs), s, p.Locktime(), p.IsComplete()))
				}
			}
			return sb.String()
		}},
	}
}

type coldRec struct {
	op, id int
	res    string
}

// coldPhase must run before any other use of the library in this process
func coldPhase(iters int) {
	const G = 8
	v0 := fixtures("pset/data/signer.json", "pset/data/finalizer.json", "pset/data/updater.json")
	v2 := fixtures("psetv2/testdata/roundtrip.json")
	initKeyPool()
	ops := coldOps(v0, v2)
	gates := make([]sync.WaitGroup, iters)
	for i := range gates {
		gates[i].Add(G)
	}
	recs := make([][]coldRec, G)
	var wg sync.WaitGroup
	for g := 0; g < G; g++ {
		wg.Add(1)
		go func(g int) {
			defer wg.Done()
			for it := 0; it < iters; it++ {
				gates[it].Done()
				gates[it].Wait() // all eight meet the shared fresh input together
				shared, own := it, 1000000+it*G+g
				for k := range ops {
					o := (k + g) % len(ops) // different goroutines are in different packages at the same time, too
					if ops[o].heavy && it%4 != 0 {
						continue
					}
					recs[g] = append(recs[g], coldRec{o, shared, call(func() string { return ops[o].f(shared) })})
					if !ops[o].heavy {
						recs[g] = append(recs[g], coldRec{o, own, call(func() string { return ops[o].f(own) })})
					}
				}
			}
		}(g)
	}
	wg.Wait()
	// afterwards, sequentially: every recorded result must be what the call gives now
	memo := map[[2]int]string{}
	for g := range recs {
		for _, r := range recs[g] {
			k := [2]int{r.op, r.id}
			w, ok := memo[k]
			if !ok {
				w = call(func() string { return ops[r.op].f(r.id) })
				memo[k] = w
			}
			if w != r.res || strings.HasPrefix(r.res, "panic: ") {
				fmt.Println("WRONG result of", ops[r.op].name, "(cold, fresh input", r.id, ") under concurrent use")
				os.Exit(1)
			}
		}
	}
	fmt.Println("cold ok", len(ops), "operations x", iters, "iterations x", G, "goroutines, fresh inputs")
}
