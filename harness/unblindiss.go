package main

// C06 — family uiss: one issuance blinded the way BlindIssuances does it (AssetCommitment(id,
// Zero), ValueCommitment, RangeProof with the blinding key as nonce, a zero asset blinder, an
// empty script, Exp 0, MinBits 52), optionally altered, then UnblindIssuance.

import (
	"bufio"
	"fmt"
	"strconv"

	"github.com/btcsuite/btcd/chaincfg/chainhash"
	"github.com/vulpemventures/fastsha256"
	"github.com/vulpemventures/go-elements/confidential"
	"github.com/vulpemventures/go-elements/transaction"
)

type uissCase struct {
	hash     []byte
	index    uint32
	bnonce   []byte // AssetBlindingNonce (zero = new issuance)
	entropy  []byte // AssetEntropy field: contract hash (new issuance) or entropy (reissuance)
	va       uint64
	vbfa, ka []byte
	hasToken bool
	vt       uint64
	vbft, kt []byte
	tokField []byte // TokenAmount field when the token amount is not blinded (0x00 or explicit)
	ops      []ubFieldOp
	keys     [][]byte
}

func readUiss(t *Toks) *uissCase {
	c := &uissCase{}
	c.hash = t.Hex()
	c.index = uint32(t.ubHex64())
	c.bnonce = t.Hex()
	c.entropy = t.Hex()
	c.va = t.ubHex64()
	c.vbfa = t.Hex()
	c.ka = t.Hex()
	c.hasToken = t.Int() == 1
	if c.hasToken {
		c.vt = t.ubHex64()
		c.vbft = t.Hex()
		c.kt = t.Hex()
	}
	c.tokField = t.Hex()
	c.ops = ubReadOps(t)
	c.keys = t.HexList()
	return c
}

func (c *uissCase) write(b *sb) {
	b.add("uiss")
	b.addh(c.hash)
	b.add(strconv.FormatUint(uint64(c.index), 16))
	b.addh(c.bnonce)
	b.addh(c.entropy)
	b.add(strconv.FormatUint(c.va, 16))
	b.addh(c.vbfa)
	b.addh(c.ka)
	if c.hasToken {
		b.add("1")
		b.add(strconv.FormatUint(c.vt, 16))
		b.addh(c.vbft)
		b.addh(c.kt)
	} else {
		b.add("0")
	}
	b.addh(c.tokField)
	ubWriteOps(b, c.ops)
	b.addl(c.keys)
}

// issuance ids computed without /repo (btcd double-SHA + fastsha256 mid-state)
func ubRefIssuanceIDs(hash []byte, index uint32, bnonce, entropyField []byte) (aid, tid []byte) {
	entropy := entropyField
	if ubIsZero32(bnonce) {
		buf := append(append([]byte{}, hash...), byte(index), byte(index>>8), byte(index>>16), byte(index>>24))
		d := chainhash.DoubleHashB(buf)
		e := fastsha256.MidState256(append(d, entropyField...))
		entropy = e[:]
	}
	a := fastsha256.MidState256(append(append([]byte{}, entropy...), make([]byte, 32)...))
	tail := make([]byte, 32)
	tail[0] = 2
	tk := fastsha256.MidState256(append(append([]byte{}, entropy...), tail...))
	return a[:], tk[:]
}

func ubIsZero32(b []byte) bool {
	if len(b) != 32 {
		return false
	}
	for _, x := range b {
		if x != 0 {
			return false
		}
	}
	return true
}

// blinding of one issuance amount through the public functions, as BlindIssuances does
func ubBlindIssuanceAmountAPI(value uint64, id, vbf, key []byte) (vc, proof []byte, ok bool) {
	ac, err := confidential.AssetCommitment(id, confidential.Zero)
	if err != nil {
		return nil, nil, false
	}
	vc, err = confidential.ValueCommitment(value, ac, vbf)
	if err != nil {
		return nil, nil, false
	}
	var vbf32, nonce32 [32]byte
	copy(nonce32[:], key)
	copy(vbf32[:], vbf)
	proof, err = confidential.RangeProof(confidential.RangeProofArgs{
		Value:               value,
		Nonce:               nonce32,
		Asset:               append([]byte{}, id...),
		AssetBlindingFactor: make([]byte, 32),
		ValueBlindFactor:    vbf32,
		ValueCommit:         vc,
		ScriptPubkey:        make([]byte, 0),
		Exp:                 0,
		MinBits:             52,
	})
	if err != nil {
		return nil, nil, false
	}
	return vc, proof, true
}

func ubIssuanceIDsAPI(c *uissCase) (aid, tid []byte, ok bool) {
	in := &transaction.TxInput{Hash: c.hash, Index: c.index, Issuance: &transaction.TxIssuance{
		AssetBlindingNonce: c.bnonce, AssetEntropy: c.entropy, AssetAmount: []byte{0}, TokenAmount: []byte{0}}}
	iss, err := transaction.NewTxIssuanceFromInput(in)
	if err != nil {
		return nil, nil, false
	}
	aid, err = iss.GenerateAsset()
	if err != nil {
		return nil, nil, false
	}
	tid, err = iss.GenerateReissuanceToken(1)
	if err != nil {
		return nil, nil, false
	}
	return append([]byte{}, aid...), append([]byte{}, tid...), true
}

func ubBuildIssuanceInput(c *uissCase, f [][]byte) *transaction.TxInput {
	return &transaction.TxInput{
		Hash: f[5], Index: c.index,
		Issuance:           &transaction.TxIssuance{AssetBlindingNonce: f[6], AssetEntropy: f[4], AssetAmount: f[0], TokenAmount: f[1]},
		IssuanceRangeProof: f[2], InflationRangeProof: f[3],
	}
}

func ubUnblindIssuanceGuard(in *transaction.TxInput, keys [][]byte) (res *confidential.UnblindIssuanceResult, cls string) {
	defer func() {
		if e := recover(); e != nil {
			res, cls = nil, "panic"
		}
	}()
	r, err := confidential.UnblindIssuance(in, keys)
	if err != nil || r == nil {
		return nil, "err"
	}
	return r, "ok"
}

func ubFmtUnb(p string, u *confidential.UnblindOutputResult) string {
	return fmt.Sprintf("%sv=%x %sa=%s %svbf=%s %sabf=%s", p, u.Value, p, hx(u.Asset), p, hx(u.ValueBlindingFactor), p, hx(u.AssetBlindingFactor))
}

func runUiss(t *Toks) string {
	c := readUiss(t)
	aid, tid, ok := ubIssuanceIDsAPI(c)
	if !ok {
		return "ids=err"
	}
	head := fmt.Sprintf("aid=%s tid=%s", hx(aid), hx(tid))
	avc, aproof, ok := ubBlindIssuanceAmountAPI(c.va, aid, c.vbfa, c.ka)
	if !ok {
		return head + " blind=err@asset"
	}
	tvc, tproof := c.tokField, []byte(nil)
	if c.hasToken {
		tvc, tproof, ok = ubBlindIssuanceAmountAPI(c.vt, tid, c.vbft, c.kt)
		if !ok {
			return head + " blind=err@token"
		}
	}
	f := [][]byte{avc, tvc, aproof, tproof, c.entropy, c.hash, c.bnonce}
	for _, op := range c.ops {
		ubApplyOp(f, op)
	}
	in := ubBuildIssuanceInput(c, f)
	head += fmt.Sprintf(" blind=ok aamt=%s tamt=%s arp=%s trp=%s", hx(avc), hx(tvc), hx(aproof), hx(tproof))
	r, cls := ubUnblindIssuanceGuard(in, c.keys)
	if cls != "ok" {
		return head + " res=" + cls
	}
	if r.Token == nil {
		return head + " res=ok " + ubFmtUnb("a", r.Asset) + " tok=0"
	}
	return head + " res=ok " + ubFmtUnb("a", r.Asset) + " tok=1 " + ubFmtUnb("t", r.Token)
}

// ---------- generator ----------

// forced choices for the corpus generator (nil / negative = random)
var uissForceIndex *uint32
var uissForceScenario = -1

func genUissCase(r *Rng) (*uissCase, *ubOracle) {
	c := &uissCase{}
	o := &ubOracle{}
	c.hash = r.Bytes(32)
	// the entropy of a new issuance commits to the index exactly as it stands in the input:
	// also the null index and indexes with bit 30 / 31 set (the API allows them)
	c.index = uint32(r.Pick(0, 1, 2, 7, 0x3fffffff, 65535, 0xffffffff, 0x40000000, 0x80000001, 0xc0000000, 0x40000001, 0xfffffffe))
	if uissForceIndex != nil {
		c.index = *uissForceIndex
	}
	c.bnonce = make([]byte, 32)
	c.entropy = r.Bytes(32)
	reissuance := r.Chance(20) && uissForceIndex == nil
	if reissuance {
		c.bnonce = ubGenScalar(r)
	}
	// grind the contract hash / entropy so that an id starts with the prefix byte of a
	// serialized generator (0x0a / 0x0b): such ids must still be treated as raw 32-byte ids
	want := r.Intn(4) // 0 none, 1 asset id, 2 token id, 3 none
	for k := 0; k < 4000; k++ {
		aid, tid := ubRefIssuanceIDs(c.hash, c.index, c.bnonce, c.entropy)
		if want == 1 && (aid[0] == 0x0a || aid[0] == 0x0b) {
			break
		}
		if want == 2 && (tid[0] == 0x0a || tid[0] == 0x0b) {
			break
		}
		if want == 0 || want == 3 {
			break
		}
		c.entropy = r.Bytes(32)
	}
	c.va = 1 + ubGenValue64(r)%(1<<62)
	c.vbfa = ubGenScalar(r)
	c.ka = ubGenScalar(r)
	c.hasToken = !reissuance && r.Chance(60)
	c.tokField = []byte{0}
	if c.hasToken {
		c.vt = 1 + uint64(r.Intn(5))
		if r.Chance(20) {
			c.vt = 1 + ubGenValue64(r)%(1<<62)
		}
		c.vbft = ubGenScalar(r)
		c.kt = ubGenScalar(r)
		c.tokField = nil
	} else if r.Chance(8) {
		// explicit token amount: HasTokenAmount() is true but there is nothing to rewind
		c.tokField = []byte{1, 0, 0, 0, 0, 0, 0, 0, byte(1 + r.Intn(9))}
	}
	scenario := r.Intn(100)
	if uissForceScenario >= 0 {
		scenario = uissForceScenario
	}
	if scenario < 4 {
		c.vbfa = r.ubPickB(make([]byte, 32), ubCurveN)
	}

	aid, tid := ubRefIssuanceIDs(c.hash, c.index, c.bnonce, c.entropy)
	zero := make([]byte, 32)
	blindOne := func(value uint64, id, vbf, key []byte) (vc, proof []byte) {
		gen := o.addGenB(id, zero)
		if gen == nil {
			return nil, nil
		}
		vc = o.addCommit(vbf, value, gen)
		if vc == nil {
			return nil, nil
		}
		proof = ubExpectedSign(o, value, id, zero, vbf, ubPad32(key), nil, 0, 52, gen, vc)
		return vc, proof
	}
	avc, aproof := blindOne(c.va, aid, c.vbfa, c.ka)
	if aproof == nil {
		c.keys = [][]byte{c.ka, c.ka}
		return c, o
	}
	tvc, tproof := c.tokField, []byte(nil)
	if c.hasToken {
		tvc, tproof = blindOne(c.vt, tid, c.vbft, c.kt)
		if tproof == nil {
			c.keys = [][]byte{c.ka, c.kt}
			return c, o
		}
	}
	tokKey := c.kt
	if !c.hasToken {
		tokKey = ubGenScalar(r)
	}
	c.keys = [][]byte{c.ka, tokKey}
	switch {
	case scenario < 40: // honest
		if r.Chance(20) {
			c.keys = append(c.keys, r.Bytes(32))
		}
	case scenario < 46: // key list too short (the function insists on two keys)
		if r.Bool() {
			c.keys = [][]byte{c.ka}
		} else {
			c.keys = nil
		}
	case scenario < 54: // wrong asset key
		k := append([]byte{}, c.ka...)
		k[r.Intn(32)] ^= 1 << uint(r.Intn(8))
		c.keys[0] = r.ubPickB(k, ubGenScalar(r), tokKey)
	case scenario < 60: // wrong token key
		k := append([]byte{}, tokKey...)
		k[r.Intn(32)] ^= 1 << uint(r.Intn(8))
		c.keys[1] = r.ubPickB(k, ubGenScalar(r), c.ka)
	case scenario < 64: // keys of other lengths: copied into a zeroed [32]byte
		if r.Bool() {
			c.keys[0] = append(append([]byte{}, c.ka...), r.Bytes(1+r.Intn(3))...)
		} else {
			c.keys[0] = c.ka[:31]
		}
	case scenario < 72: // amount commitment altered
		fld := 0
		if c.hasToken && r.Bool() {
			fld = 1
		}
		i := r.Intn(33)
		if r.Chance(20) {
			i = 0
		}
		c.ops = append(c.ops, ubFieldOp{kind: "x", field: fld, idx: i, mask: 1 << uint(r.Intn(8))})
	case scenario < 80: // proof altered / dropped
		fld, p := 2, aproof
		if c.hasToken && r.Bool() {
			fld, p = 3, tproof
		}
		switch r.Intn(4) {
		case 0:
			c.ops = append(c.ops, ubFieldOp{kind: "s", field: fld, val: nil})
		case 1:
			c.ops = append(c.ops, ubFieldOp{kind: "s", field: fld, val: p[:len(p)-1]})
		default:
			c.ops = append(c.ops, ubFieldOp{kind: "x", field: fld, idx: r.Intn(len(p)), mask: 1 << uint(r.Intn(8))})
		}
	case scenario < 88: // entropy field or prevout hash altered: another asset id
		fld := r.Pick(4, 5)
		c.ops = append(c.ops, ubFieldOp{kind: "x", field: fld, idx: r.Intn(32), mask: 1 << uint(r.Intn(8))})
	case scenario < 92: // blinding nonce altered: issuance <-> reissuance
		if reissuance {
			c.ops = append(c.ops, ubFieldOp{kind: "s", field: 6, val: make([]byte, 32)})
		} else {
			c.ops = append(c.ops, ubFieldOp{kind: "x", field: 6, idx: r.Intn(32), mask: 1 << uint(r.Intn(8))})
		}
	case scenario < 96: // proofs swapped
		if c.hasToken {
			c.ops = append(c.ops, ubFieldOp{kind: "s", field: 2, val: tproof}, ubFieldOp{kind: "s", field: 3, val: aproof})
		}
	default: // token amount removed although a proof is present / null asset proof
		c.ops = append(c.ops, ubFieldOp{kind: "s", field: 1, val: []byte{0}})
	}
	f := [][]byte{avc, tvc, aproof, tproof, c.entropy, c.hash, c.bnonce}
	for _, op := range c.ops {
		ubApplyOp(f, op)
	}
	// unblinding side: the raw ids (as they are after the alteration) become generators
	aid2, tid2 := ubRefIssuanceIDs(f[5], c.index, f[6], f[4])
	o.addGenG(aid2)
	o.addGenG(tid2)
	return c, o
}

func genUissCases(r *Rng, n int, w *bufio.Writer) {
	for i := 0; i < n; i++ {
		c, o := genUissCase(r)
		b := &sb{}
		c.write(b)
		o.write(b)
		fmt.Fprintln(w, ubTrimRight(b.String()))
	}
}

// boundary cases for corpus/uiss.txt: honest new issuances on inputs whose outpoint index is
// the null index or has bit 30 / 31 set, next to the largest plain index
func genUissCorpus(r *Rng, n int, w *bufio.Writer) {
	for _, idx := range []uint32{0xffffffff, 0x40000000, 0x80000001, 0xc0000000, 0x3fffffff} {
		i := idx
		uissForceIndex, uissForceScenario = &i, 10
		c, o := genUissCase(r)
		uissForceIndex, uissForceScenario = nil, -1
		b := &sb{}
		c.write(b)
		o.write(b)
		fmt.Fprintln(w, ubTrimRight(b.String()))
	}
}

func init() {
	gens["uiss-corpus"] = genUissCorpus
	gens["uiss"] = genUissCases
	runs["uiss"] = runUiss
}
