package main

// C12: every decoder the library exposes, on valid encodings with single mutations,
// truncations and noise. S-only family (`dec`): the checks here state the property
// directly on the implementation (no panic, bounded allocation, strict prefixes of
// valid encodings rejected, accepted values survive the follow-up operations).

import (
	"bufio"
	"bytes"
	"encoding/base64"
	"encoding/hex"
	"encoding/json"
	"fmt"
	"os"
	"path/filepath"
	"runtime"
	"sort"
	"strconv"
	"strings"

	"github.com/btcsuite/btcd/btcec/v2"
	"github.com/btcsuite/btcd/btcutil/base58"
	"github.com/btcsuite/btcd/btcutil/bech32"
	"github.com/btcsuite/btcd/chaincfg/chainhash"
	"github.com/btcsuite/btcd/txscript"
	"github.com/btcsuite/btcd/wire"
	"github.com/vulpemventures/go-elements/address"
	"github.com/vulpemventures/go-elements/blech32"
	"github.com/vulpemventures/go-elements/block"
	"github.com/vulpemventures/go-elements/descriptor"
	"github.com/vulpemventures/go-elements/network"
	"github.com/vulpemventures/go-elements/payment"
	"github.com/vulpemventures/go-elements/pset"
	"github.com/vulpemventures/go-elements/psetv2"
	"github.com/vulpemventures/go-elements/taproot"
	"github.com/vulpemventures/go-elements/transaction"
)

// ---------- seeds ----------

func jsonStrings(v interface{}, out *[]string) {
	switch x := v.(type) {
	case string:
		*out = append(*out, x)
	case []interface{}:
		for _, e := range x {
			jsonStrings(e, out)
		}
	case map[string]interface{}:
		keys := make([]string, 0, len(x))
		for k := range x {
			keys = append(keys, k)
		}
		sort.Strings(keys)
		for _, k := range keys {
			jsonStrings(x[k], out)
		}
	}
}

func fixtureStrings(repo string, files ...string) []string {
	var out []string
	for _, f := range files {
		b, err := os.ReadFile(filepath.Join(repo, f))
		if err != nil {
			continue
		}
		var v interface{}
		if json.Unmarshal(b, &v) == nil {
			jsonStrings(v, &out)
		}
	}
	return out
}

type seeds struct {
	psetV0B64, psetV2B64 []string
	merkleHex            []string
	descriptors          []string
}

func loadSeeds() *seeds {
	repo := "/repo"
	s := &seeds{}
	for _, x := range fixtureStrings(repo, "pset/data/creator.json", "pset/data/updater.json", "pset/data/signer.json", "pset/data/finalizer.json", "pset/data/extractor.json") {
		if strings.HasPrefix(x, "cHNldP") {
			s.psetV0B64 = append(s.psetV0B64, x)
		}
	}
	for _, x := range fixtureStrings(repo, "psetv2/testdata/roundtrip.json") {
		if strings.HasPrefix(x, "cHNldP") {
			s.psetV2B64 = append(s.psetV2B64, x)
		}
	}
	// merkle block fixtures: hex literals in the test file
	if b, err := os.ReadFile(filepath.Join(repo, "block/merkle_block_test.go")); err == nil {
		for _, line := range strings.Split(string(b), "\n") {
			i := strings.Index(line, "txOutProof := \"")
			if i >= 0 {
				rest := line[i+len("txOutProof := \""):]
				if j := strings.Index(rest, "\""); j > 0 {
					s.merkleHex = append(s.merkleHex, rest[:j])
				}
			}
		}
	}
	s.descriptors = []string{
		"elwpkh(03a34b99f22c790c4e36b2b3c2c35a36db06226e41c692fc82b8b56ac1c540c5bd)",
		"elwpkh(L4rK1yDtCWekvXuE6oXD9jCYfFNV2cWRpVuPLBcCU2z8TrisoyY1)",
		"wpkh(03a34b99f22c790c4e36b2b3c2c35a36db06226e41c692fc82b8b56ac1c540c5bd)",
		"elwpkh([d34db33f/44'/0'/0']xpub6ERApfZwUNrhLCkDtcHTcxd75RbzS1ed54G1LkBUHQVHQKqhMkhgbmJbZRkrgZw4koxb5JaHWkY4ALHY2grBGRjaDMzQLcgJvLJuZZvRcEL/1/*)",
		"elwpkh(xpub661MyMwAqRbcFtXgS5sYJABqqG9YLmC4Q1Rdap9gSE8NqtwybGhePY2gZ29ESFjqJoCu1Rupje8YtGqsefD265TMg7usUDFdp6W1EGMcet8/0/1)",
		"elsh(L4rK1yDtCWekvXuE6oXD9jCYfFNV2cWRpVuPLBcCU2z8TrisoyY1)#12345678",
		"elwpkh(]03a34b99f22c790c4e36b2b3c2c35a36db06226e41c692fc82b8b56ac1c540c5bd)",
		"elwpkh([]03a34b99f22c790c4e36b2b3c2c35a36db06226e41c692fc82b8b56ac1c540c5bd)",
		"elwpkh([d34db33f]03a34b99f22c790c4e36b2b3c2c35a36db06226e41c692fc82b8b56ac1c540c5bd)",
		"elwpkh([/]xpub661MyMwAqRbcFtXgS5sYJABqqG9YLmC4Q1Rdap9gSE8NqtwybGhePY2gZ29ESFjqJoCu1Rupje8YtGqsefD265TMg7usUDFdp6W1EGMcet8)",
		"elwpkh(xpub661MyMwAqRbcFtXgS5sYJABqqG9YLmC4Q1Rdap9gSE8NqtwybGhePY2gZ29ESFjqJoCu1Rupje8YtGqsefD265TMg7usUDFdp6W1EGMcet8/)",
		"elwpkh(())",
		"elwpkh()",
	}
	return s
}

var nets = []*network.Network{&network.Liquid, &network.Regtest, &network.Testnet}

func genAddress(r *Rng) string {
	net := nets[r.Intn(3)]
	priv, _ := btcec.NewPrivateKey()
	_ = priv
	key := make([]byte, 33)
	copy(key, r.Bytes(33))
	key[0] = byte(2 + r.Intn(2))
	var s string
	switch r.Intn(6) {
	case 0:
		s = address.ToBase58(&address.Base58{Version: net.PubKeyHash, Data: r.Bytes(20)})
	case 1:
		s = address.ToBase58(&address.Base58{Version: net.ScriptHash, Data: r.Bytes(20)})
	case 2:
		s = address.ToBase58Confidential(&address.Base58Confidential{Base58: address.Base58{Version: byte(r.Pick(int(net.PubKeyHash), int(net.ScriptHash))), Data: r.Bytes(20)}, Version: net.Confidential, PublicKey: key})
	case 3:
		ver := byte(r.Intn(2))
		l := 20
		if ver == 1 || r.Bool() {
			l = 32
		}
		s, _ = address.ToBech32(&address.Bech32{Prefix: net.Bech32, Version: ver, Program: r.Bytes(l)})
	default:
		ver := byte(r.Intn(2))
		l := 20
		if ver == 1 || r.Bool() {
			l = 32
		}
		s, _ = address.ToBlech32(&address.Blech32{Prefix: net.Blech32, Version: ver, PublicKey: key, Program: r.Bytes(l)})
	}
	return s
}

func genControlBlock(r *Rng) []byte {
	n := r.Pick(1, 2, 3, 5, 8)
	var leaves []taproot.TapElementsLeaf
	for i := 0; i < n; i++ {
		leaves = append(leaves, taproot.NewBaseTapElementsLeaf(append([]byte{byte(i)}, r.Bytes(r.Intn(20))...)))
	}
	tree := taproot.AssembleTaprootScriptTree(leaves...)
	priv, _ := btcec.NewPrivateKey()
	cb := tree.LeafMerkleProofs[r.Intn(n)].ToControlBlock(priv.PubKey())
	b, _ := cb.ToBytes()
	return b
}

// ---------- mutations ----------

func mutateBytes(r *Rng, ser []byte) (int, []byte) {
	k := r.Intn(8)
	m := append([]byte{}, ser...)
	switch k {
	case 0:
	case 1:
		if len(m) > 0 {
			m = m[:r.Intn(len(m))]
		}
	case 2:
		c := r.Intn(5) + 1
		if c > len(m) {
			c = len(m)
		}
		m = m[:len(m)-c]
	case 3:
		if len(m) > 0 {
			m[r.Intn(len(m))] ^= byte(1 << uint(r.Intn(8)))
		}
	case 4:
		if len(m) > 0 {
			m[r.Intn(len(m))] = byte(r.Pick(0, 1, 0x7f, 0x80, 0xfc, 0xfd, 0xfe, 0xff))
		}
	case 5:
		m = append(m, r.Bytes(1+r.Intn(6))...)
	case 6:
		if len(m) > 1 {
			p := r.Intn(len(m))
			big := [][]byte{{0xff, 0xff, 0xff, 0xff, 0xff, 0xff, 0xff, 0xff, 0xff}, {0xff, 0, 0, 0, 0, 0, 0, 0, 0x80}, {0xfe, 0xff, 0xff, 0xff, 0x7f}, {0xfd, 0xff, 0xff}}[r.Intn(4)]
			m = append(append(append([]byte{}, m[:p]...), big...), m[p:]...)
		}
	default:
		if len(m) > 2 {
			p := r.Intn(len(m) - 1)
			q := p + 1 + r.Intn(len(m)-p-1)
			m = append(append([]byte{}, m[:p]...), m[q:]...)
		}
	}
	return k, m
}

func mutateText(r *Rng, s string) (int, string) {
	k := r.Intn(7)
	b := []byte(s)
	switch k {
	case 0:
	case 1:
		if len(b) > 0 {
			b = b[:r.Intn(len(b))]
		}
	case 2:
		if len(b) > 0 {
			b[r.Intn(len(b))] = "qpzry9x8gf2tvdw0s3jn54khce6mua7l1AQbio[]/'*#(),"[r.Intn(47)]
		}
	case 3:
		b = append(b, "qp1l"[r.Intn(4)])
	case 4:
		if len(b) > 1 {
			p := r.Intn(len(b))
			b = append(b[:p], b[p+1:]...)
		}
	case 5:
		if len(b) > 0 {
			p := r.Intn(len(b))
			if b[p] >= 'a' && b[p] <= 'z' {
				b[p] -= 32
			}
		}
	default:
		n := r.Intn(16)
		b = []byte(s[:min(len(s), 4)])
		for i := 0; i < n; i++ {
			b = append(b, "qpzry9x8gf2tvdw0s3jn54khce6mua7l1"[r.Intn(33)])
		}
	}
	return k, string(b)
}

func min(a, b int) int {
	if a < b {
		return a
	}
	return b
}

// psetLengthFields walks the key/value framing of a PSET stream (magic, then maps of
// <varint keylen><key><varint vallen><value> closed by 0x00) and returns the offsets of
// the length fields together with their encoded width.
func psetLengthFields(b []byte) (offs []int, widths []int) {
	p := 5
	readVar := func() (uint64, int, bool) {
		if p >= len(b) {
			return 0, 0, false
		}
		switch b[p] {
		case 0xfd:
			if p+3 > len(b) {
				return 0, 0, false
			}
			return uint64(b[p+1]) | uint64(b[p+2])<<8, 3, true
		case 0xfe:
			if p+5 > len(b) {
				return 0, 0, false
			}
			return uint64(b[p+1]) | uint64(b[p+2])<<8 | uint64(b[p+3])<<16 | uint64(b[p+4])<<24, 5, true
		case 0xff:
			return 0, 0, false
		}
		return uint64(b[p]), 1, true
	}
	for p < len(b) {
		n, w, ok := readVar()
		if !ok {
			return
		}
		if n == 0 { // separator
			p += w
			continue
		}
		offs, widths = append(offs, p), append(widths, w)
		p += w + int(n)
		n, w, ok = readVar()
		if !ok {
			return
		}
		offs, widths = append(offs, p), append(widths, w)
		p += w + int(n)
	}
	return
}

// mutatePsetLength replaces one key- or value-length field by a hostile or off-by-one length
func mutatePsetLength(r *Rng, ser []byte) []byte {
	offs, widths := psetLengthFields(ser)
	if len(offs) == 0 {
		return ser
	}
	k := r.Intn(len(offs))
	repl := [][]byte{
		{0xff, 0xff, 0xff, 0xff, 0xff, 0xff, 0xff, 0xff, 0xff}, {0xff, 0, 0, 0, 0, 0, 0, 0, 0x80},
		{0xff, 0xff, 0xff, 0xff, 0xff, 0xff, 0xff, 0xff, 0x7f}, {0xfe, 0xff, 0xff, 0xff, 0x7f}, {0xfe, 0, 0, 0, 0x80},
		{0xfd, 0x11, 0x27}, {0xfd, 0xff, 0xff}, {0xfe, 0x01, 0x09, 0x3d, 0x00}, {0}, {1},
	}[r.Intn(10)]
	if r.Chance(30) {
		repl = []byte{ser[offs[k]] + byte(r.Pick(1, 255))}
	}
	out := append([]byte{}, ser[:offs[k]]...)
	out = append(out, repl...)
	return append(out, ser[offs[k]+widths[k]:]...)
}

// dec <kind> <mutation-kind> <hex of the bytes / text>
func genDecCases(r *Rng, n int, w *bufio.Writer) {
	sd := loadSeeds()
	kinds := []string{"tx", "txhex", "block", "header", "merkle", "psetv0", "psetv0hex", "psetv2", "address", "blech32", "controlblock", "descriptor"}
	for i := 0; i < n; i++ {
		kind := kinds[i%len(kinds)]
		var mk int
		var payload []byte
		switch kind {
		case "tx", "txhex":
			tx := genTx(r, true)
			var ser []byte
			if guarded(func() { ser, _ = tx.Serialize() }) != nil {
				fmt.Fprintln(w, blkLine(&block.Block{Header: genHeader(NewRng(1)), TransactionsData: &block.Transactions{Transactions: []*transaction.Transaction{tx}}}))
				continue
			}
			mk, payload = mutateBytes(r, ser)
		case "block":
			bl := genBlock(r)
			var ser []byte
			if guarded(func() { ser, _ = bl.SerializeBlock() }) != nil {
				fmt.Fprintln(w, blkLine(bl))
				continue
			}
			mk, payload = mutateBytes(r, ser)
		case "header":
			h := genHeader(r)
			var ser []byte
			if guarded(func() { ser, _ = h.Serialize() }) != nil {
				fmt.Fprintln(w, blkLine(&block.Block{Header: h, TransactionsData: &block.Transactions{}}))
				continue
			}
			mk, payload = mutateBytes(r, ser)
		case "merkle":
			if len(sd.merkleHex) == 0 {
				continue
			}
			b, _ := hex.DecodeString(sd.merkleHex[r.Intn(len(sd.merkleHex))])
			if r.Chance(35) {
				mk, payload = 9, mutateMerkleCounts(r, b)
			} else {
				mk, payload = mutateBytes(r, b)
			}
		case "psetv0", "psetv0hex":
			if len(sd.psetV0B64) == 0 {
				continue
			}
			b, _ := base64.StdEncoding.DecodeString(sd.psetV0B64[r.Intn(len(sd.psetV0B64))])
			if r.Chance(12) {
				mk, payload = 10, withWitnessCount(r, 0, b)
			} else if r.Chance(25) {
				mk, payload = 12, insertPsetPair(r, b)
			} else if r.Chance(40) {
				mk, payload = 8, mutatePsetLength(r, b)
			} else {
				mk, payload = mutateBytes(r, b)
			}
		case "psetv2":
			if len(sd.psetV2B64) == 0 {
				continue
			}
			b, _ := base64.StdEncoding.DecodeString(sd.psetV2B64[r.Intn(len(sd.psetV2B64))])
			if r.Chance(12) {
				mk, payload = 10, withWitnessCount(r, 2, b)
			} else if r.Chance(25) {
				mk, payload = 12, insertPsetPair(r, b)
			} else if r.Chance(40) {
				mk, payload = 8, mutatePsetLength(r, b)
			} else {
				mk, payload = mutateBytes(r, b)
			}
		case "address":
			var s string
			if r.Chance(30) {
				mk, s = 11, craftedAddress(r)
			} else {
				mk, s = mutateText(r, genAddress(r))
			}
			payload = []byte(s)
		case "blech32":
			hrp := []string{"lq", "el", "tlq", "a", ""}[r.Intn(5)]
			data := r.Bytes(r.Pick(0, 1, 20, 54, 66))
			for j := range data {
				data[j] &= 31
			}
			s, _ := blech32.Encode(hrp, data, []blech32.EncodingType{blech32.BLECH32, blech32.BLECH32M}[r.Intn(2)])
			var t string
			mk, t = mutateText(r, s)
			payload = []byte(t)
		case "controlblock":
			mk, payload = mutateBytes(r, genControlBlock(r))
		case "descriptor":
			var s string
			mk, s = mutateText(r, sd.descriptors[r.Intn(len(sd.descriptors))])
			payload = []byte(s)
		}
		fmt.Fprintf(w, "dec %s %d %s\n", kind, mk, hx(payload))
	}
}

// ---------- the oracle ----------

type decResult struct {
	accepted bool
	follow   func() // operations on the accepted value that must not panic
}

func decodeKind(kind string, payload []byte) decResult {
	switch kind {
	case "tx":
		tx, err := transaction.NewTxFromBuffer(bytes.NewBuffer(append([]byte{}, payload...)))
		if err != nil {
			return decResult{}
		}
		return decResult{true, func() { followTx(tx) }}
	case "txhex":
		tx, err := transaction.NewTxFromHex(hex.EncodeToString(payload))
		if err != nil {
			return decResult{}
		}
		return decResult{true, func() { followTx(tx) }}
	case "block":
		b, err := block.NewFromBuffer(bytes.NewBuffer(append([]byte{}, payload...)))
		if err != nil {
			return decResult{}
		}
		return decResult{true, func() {
			b.SerializeBlock()
			b.Header.Hash()
			for _, tx := range b.TransactionsData.Transactions {
				followTx(tx)
			}
		}}
	case "header":
		h, err := block.DeserializeHeader(bytes.NewBuffer(append([]byte{}, payload...)))
		if err != nil {
			return decResult{}
		}
		return decResult{true, func() { h.Serialize(); h.SerializeForHash(); h.Hash() }}
	case "merkle":
		m, err := block.NewMerkleBlockFromBuffer(bytes.NewBuffer(append([]byte{}, payload...)))
		if err != nil {
			return decResult{}
		}
		return decResult{true, func() { m.ExtractMatches() }}
	case "psetv0", "psetv0hex":
		var p *pset.Pset
		var err error
		if kind == "psetv0" {
			p, err = pset.NewPsetFromBase64(base64.StdEncoding.EncodeToString(payload))
		} else {
			p, err = pset.NewPsetFromHex(hex.EncodeToString(payload))
		}
		if err != nil {
			return decResult{}
		}
		return decResult{true, func() {
			p.ToBase64()
			p.ToHex()
			p.SanityCheck()
			p.IsComplete()
			p.ValidateAllSignatures()
			for i := range p.Inputs {
				p.ValidateInputSignatures(i)
			}
			if p.UnsignedTx != nil {
				followTx(p.UnsignedTx)
			}
			pset.Extract(p)
			pset.FinalizeAll(p)
		}}
	case "psetv2":
		p, err := psetv2.NewPsetFromBase64(base64.StdEncoding.EncodeToString(payload))
		if err != nil {
			return decResult{}
		}
		return decResult{true, func() {
			p.ToBase64()
			p.SanityCheck()
			p.IsComplete()
			p.Locktime()
			p.NeedsBlinding()
			p.IsFullyBlinded()
			if tx, err := p.UnsignedTx(); err == nil && tx != nil {
				followTx(tx)
			}
			p.ValidateAllSignatures()
			for i := range p.Inputs {
				p.ValidateInputSignatures(i)
				p.Inputs[i].GetUtxo()
			}
			psetv2.Extract(p)
			c := p.Copy()
			psetv2.FinalizeAll(c)
		}}
	case "address":
		s := string(payload)
		ok := false
		f := []func(){}
		if _, err := address.DecodeType(s); err == nil {
			ok = true
		}
		f = append(f, func() {
			address.FromBase58(s)
			address.FromBech32(s)
			address.FromBase58Confidential(s)
			address.FromBlech32(s)
			address.FromConfidential(s)
			address.NetworkForAddress(s)
			address.ToOutputScript(s)
			address.IsConfidential(s)
			address.DecodeType(s)
		})
		if _, err := address.ToOutputScript(s); err == nil {
			ok = true
		}
		return decResult{ok, func() {
			for _, g := range f {
				g()
			}
		}}
	case "blech32":
		s := string(payload)
		_, _, err := blech32.Decode(s)
		_, _, _, err2 := blech32.DecodeGeneric(s)
		return decResult{err == nil || err2 == nil, func() {}}
	case "controlblock":
		cb, err := taproot.ParseControlBlock(payload)
		if err != nil {
			return decResult{}
		}
		return decResult{true, func() {
			cb.ToBytes()
			cb.RootHash([]byte{0x51})
			taproot.VerifyTaprootLeafCommitment(cb, make([]byte, 32), []byte{0x51})
		}}
	case "descriptor":
		wlt, err := descriptor.Parse(string(payload))
		if err != nil {
			return decResult{}
		}
		if wlt == nil {
			panic("neither a value nor an error")
		}
		return decResult{true, func() {
			wlt.Type()
			wlt.IsRange()
			wlt.Script(descriptor.WithIndex(0))
			wlt.Script(descriptor.WithRange(2))
		}}
	}
	return decResult{}
}

func followTx(tx *transaction.Transaction) {
	tx.Serialize()
	tx.TxHash()
	tx.WitnessHash()
	tx.Weight()
	tx.VirtualSize()
	tx.DiscountVirtualSize()
	tx.Copy()
	tx.CountIssuances()
	for i := range tx.Inputs {
		tx.HashForSignature(i, []byte{0x51}, txscript.SigHashAll)
		tx.HashForWitnessV0(i, []byte{0x51}, []byte{1, 0, 0, 0, 0, 0, 0, 0, 1}, txscript.SigHashSingle)
	}
	// every base type with every modifier bit, on the first and last few inputs (an input index at or beyond the
	// number of outputs is where SINGLE has its special case)
	n := len(tx.Inputs)
	var scripts, assets, values [][]byte
	if n <= 64 {
		for range tx.Inputs {
			scripts = append(scripts, []byte{0x51})
			assets = append(assets, append([]byte{1}, make([]byte, 32)...))
			values = append(values, []byte{1, 0, 0, 0, 0, 0, 0, 0, 1})
		}
	}
	var genesis chainhash.Hash
	for i := 0; i < n; i++ {
		if i >= 4 && i < n-4 {
			continue
		}
		for _, base := range []byte{0, 1, 2, 3} {
			for _, mod := range []byte{0, 0x80, 0x40, 0xc0} {
				ht := txscript.SigHashType(base | mod)
				if base != 0 {
					tx.HashForSignature(i, []byte{0x51}, ht)
					tx.HashForWitnessV0(i, []byte{0x51}, []byte{1, 0, 0, 0, 0, 0, 0, 0, 1}, ht)
				}
				if scripts != nil && mod != 0x40 && mod != 0xc0 && !(base == 0 && mod != 0) {
					tx.HashForWitnessV1(i, scripts, assets, values, ht, &genesis, nil, nil)
				}
			}
		}
	}
}

func guarded(f func()) (p interface{}) {
	defer func() { p = recover() }()
	f()
	return nil
}

func allocDuring(f func()) uint64 {
	var a, b runtime.MemStats
	runtime.ReadMemStats(&a)
	f()
	runtime.ReadMemStats(&b)
	return b.TotalAlloc - a.TotalAlloc
}

func prefixesToTry(r *Rng, n int) []int {
	var ps []int
	if n <= 160 {
		for i := 0; i < n; i++ {
			ps = append(ps, i)
		}
		return ps
	}
	for i := 0; i < 48; i++ {
		ps = append(ps, r.Intn(n))
	}
	for i := n - 40; i < n; i++ {
		ps = append(ps, i)
	}
	for i := 0; i < 12; i++ {
		ps = append(ps, i)
	}
	return ps
}

func checkC12Dec(t *Toks) string {
	kind := t.Next()
	mk := t.Int()
	payload := t.Hex()
	if payload == nil {
		payload = []byte{}
	}
	var res decResult
	var pan interface{}
	alloc := allocDuring(func() { pan = guarded(func() { res = decodeKind(kind, payload) }) })
	if pan != nil {
		return fail(kind+".decode", "panic/"+sanitizeDec(pan))
	}
	// the decoders copy their input a few times (hex/base64 text, buffers); anything beyond a small multiple is a length field trusted before the data is there
	if limit := uint64(len(payload))*400 + allocConst(kind); alloc > limit {
		return fail(kind+".decode", fmt.Sprintf("allocation/%d-bytes-for-%d-byte-input", alloc, len(payload)))
	}
	if res.accepted {
		if p := guarded(res.follow); p != nil {
			return fail(kind+".after-accept", "panic/"+sanitizeDec(p))
		}
	}
	// an unmodified valid encoding: no strict prefix may be accepted as a complete object
	if mk == 0 && res.accepted {
		r := NewRng(uint64(len(payload)) + 17)
		for _, k := range prefixesToTry(r, len(payload)) {
			var pr decResult
			if p := guarded(func() { pr = decodeKind(kind, payload[:k]) }); p != nil {
				return fail(kind+".decode", "panic-on-prefix/"+sanitizeDec(p))
			}
			if kind == "controlblock" && k >= 33 && (k-33)%32 == 0 {
				continue // a control block cut at a node boundary is itself a complete control block (BIP-341 format, not prefix-free)
			}
			if pr.accepted && prefixCounts(kind) {
				return fail(kind+".prefix", fmt.Sprintf("strict-prefix-accepted/len=%d-of-%d", k, len(payload)))
			}
		}
		// the text layers: no strict prefix of the base64 (or hex) spelling of a valid packet is a packet either
		if kind == "psetv0" || kind == "psetv2" || kind == "psetv0hex" {
			text := base64.StdEncoding.EncodeToString(payload)
			if kind == "psetv0hex" {
				text = hex.EncodeToString(payload)
			}
			for cut := 1; cut <= 5 && cut < len(text); cut++ {
				t := text[:len(text)-cut]
				var ok bool
				if p := guarded(func() {
					switch kind {
					case "psetv0":
						_, err := pset.NewPsetFromBase64(t)
						ok = err == nil
					case "psetv0hex":
						_, err := pset.NewPsetFromHex(t)
						ok = err == nil
					default:
						_, err := psetv2.NewPsetFromBase64(t)
						ok = err == nil
					}
				}); p != nil {
					return fail(kind+".decode", "panic-on-text-prefix/"+sanitizeDec(p))
				}
				if ok {
					return fail(kind+".prefix", fmt.Sprintf("strict-text-prefix-accepted/cut=%d-of-%d", cut, len(text)))
				}
			}
		}
		return "OK accepted+prefixes"
	}
	if res.accepted {
		return "OK accepted"
	}
	return "OK rejected"
}

// address text: a prefix of a valid address is never valid thanks to its checksum; the
// blech32 family generates arbitrary data parts, for which prefix acceptance is not a defect
func prefixCounts(kind string) bool { return kind != "blech32" }

func sanitizeDec(p interface{}) string {
	s := fmt.Sprint(p)
	s = strings.ReplaceAll(s, " ", "_")
	if len(s) > 80 {
		s = s[:80]
	}
	return s
}

var _ = payment.FromScript

func init() {
	gens["dec"] = genDecCases
	checks["C12/dec"] = checkC12Dec
	gens["decsys"] = genDecSysCases
	checks["C12/decsys"] = checkC12Dec
}

// constant part of the allocation bound: what a decoder may use whatever the input (tables, a compiled regular
// expression, the first buffers). One MiB by default.
func allocConst(kind string) uint64 {
	if v := os.Getenv("VERIF_ALLOC_CONST"); v != "" {
		n, _ := strconv.ParseUint(v, 10, 64)
		return n
	}
	return 1 << 20
}

// btcd keeps a pool of 4 MiB script buffers (wire.scriptFreeList) that the first decoding of a bitcoin transaction
// fills; that is a constant of the process, not memory requested for an input. Warm it before anything is measured.
func init() {
	raw, _ := hex.DecodeString("01000000010000000000000000000000000000000000000000000000000000000000000000ffffffff0151ffffffff0100000000000000000151" + "00000000")
	var tx wire.MsgTx
	_ = tx.BtcDecode(bytes.NewReader(raw), 0, wire.BaseEncoding)
	_ = tx.BtcDecode(bytes.NewReader(raw), 0, wire.WitnessEncoding)
}

// structure-aware mutation of a merkle block: the hash count (after the 80-byte header and the 4-byte transaction
// count) or the flag-byte count is rewritten to a value the decoder's own caps still admit but the input cannot hold,
// optionally cutting the tail, so that memory reserved from a count before the data is read shows up
func mutateMerkleCounts(r *Rng, b []byte) []byte {
	const off = 84
	if len(b) <= off || b[off] >= 0xfd {
		return b
	}
	n := int(b[off])
	enc := func(v uint64) []byte {
		switch {
		case v < 0xfd:
			return []byte{byte(v)}
		case v <= 0xffff:
			return []byte{0xfd, byte(v), byte(v >> 8)}
		default:
			return []byte{0xfe, byte(v), byte(v >> 8), byte(v >> 16), byte(v >> 24)}
		}
	}
	v := uint64(r.Pick(1000, 65535, 65536, 400000, 400001, 400002, 50000, 50001))
	hashesEnd := off + 1 + 32*n
	if r.Bool() || hashesEnd >= len(b) {
		out := append(append([]byte{}, b[:off]...), enc(v)...)
		out = append(out, b[off+1:]...)
		if r.Bool() {
			out = out[:off+len(enc(v))+r.Intn(8)]
		}
		return out
	}
	out := append(append([]byte{}, b[:hashesEnd]...), enc(v)...)
	if r.Bool() && hashesEnd+1 < len(b) {
		out = append(out, b[hashesEnd+1:]...)
	}
	return out
}

// a packet (built through the library from a fixture) whose first input carries a final script witness that declares
// more stack items than it holds: the decoders keep the field as opaque bytes, the extractor interprets the count
func withWitnessCount(r *Rng, version int, b []byte) []byte {
	fw := [][]byte{
		{0xff, 0xff, 0xff, 0xff, 0xff, 0xff, 0xff, 0xff, 0x7f},
		{0xfe, 0xff, 0xff, 0xff, 0x7f},
		{0xfe, 0x00, 0x00, 0x00, 0x40},
		{0xfd, 0xff, 0xff},
		{0x02, 0x01, 0x51},
		{0x05},
	}[r.Intn(6)]
	utxo := &transaction.TxOutput{Asset: append([]byte{1}, make([]byte, 32)...), Value: []byte{1, 0, 0, 0, 0, 0, 0, 0, 9},
		Script: append([]byte{0x00, 0x14}, make([]byte, 20)...), Nonce: []byte{0}}
	var out string
	if guarded(func() {
		if version == 0 {
			p, err := pset.NewPsetFromBase64(base64.StdEncoding.EncodeToString(b))
			if err != nil || len(p.Inputs) == 0 {
				return
			}
			in := &p.Inputs[0]
			in.NonWitnessUtxo, in.WitnessUtxo = nil, utxo
			in.FinalScriptWitness = fw
			out, _ = p.ToBase64()
		} else {
			p, err := psetv2.NewPsetFromBase64(base64.StdEncoding.EncodeToString(b))
			if err != nil || len(p.Inputs) == 0 {
				return
			}
			in := &p.Inputs[0]
			in.NonWitnessUtxo, in.WitnessUtxo = nil, utxo
			in.FinalScriptWitness = fw
			out, _ = p.ToBase64()
		}
	}) != nil || out == "" {
		return b
	}
	raw, err := base64.StdEncoding.DecodeString(out)
	if err != nil {
		return b
	}
	return raw
}

// a key-value pair of a chosen type with short, empty or odd-sized key data and value, inserted at the start of one of
// the maps of a PSET: the field decoders index into key data and values of the sizes they expect
func insertPsetPair(r *Rng, ser []byte) []byte {
	starts := []int{5}
	offs, widths := psetLengthFields(ser)
	_ = widths
	// map starts: position 5 and the byte after every separator
	p := 5
	for p < len(ser) {
		if ser[p] == 0 {
			p++
			starts = append(starts, p)
			continue
		}
		// skip one pair using the length fields already located
		moved := false
		for i := 0; i+1 < len(offs); i += 2 {
			if offs[i] == p {
				vo := offs[i+1]
				vl, w := readCompact(ser, vo)
				p = vo + w + int(vl)
				moved = true
				break
			}
		}
		if !moved {
			break
		}
	}
	at := starts[r.Intn(len(starts))]
	if at > len(ser) {
		at = 5
	}
	typ := byte(r.Intn(0x20))
	if r.Chance(20) {
		typ = 0xfc
	}
	kd := r.Bytes(r.Pick(0, 0, 1, 2, 4, 19, 20, 31, 32, 33, 64))
	if typ == 0xfc && r.Chance(70) {
		kd = append([]byte{4, 'p', 's', 'e', 't', byte(r.Intn(0x18))}, r.Bytes(r.Pick(0, 0, 1, 32, 33))...)
	}
	val := r.Bytes(r.Pick(0, 0, 1, 3, 4, 5, 8, 9, 32, 33, 36, 64, 65))
	key := append([]byte{typ}, kd...)
	pair := append(append(append(compact(uint64(len(key))), key...), compact(uint64(len(val)))...), val...)
	out := append([]byte{}, ser[:at]...)
	out = append(out, pair...)
	return append(out, ser[at:]...)
}

func compact(v uint64) []byte {
	switch {
	case v < 0xfd:
		return []byte{byte(v)}
	case v <= 0xffff:
		return []byte{0xfd, byte(v), byte(v >> 8)}
	default:
		return []byte{0xfe, byte(v), byte(v >> 8), byte(v >> 16), byte(v >> 24)}
	}
}

func readCompact(b []byte, p int) (uint64, int) {
	if p >= len(b) {
		return 0, 1
	}
	switch b[p] {
	case 0xfd:
		if p+3 <= len(b) {
			return uint64(b[p+1]) | uint64(b[p+2])<<8, 3
		}
	case 0xfe:
		if p+5 <= len(b) {
			return uint64(b[p+1]) | uint64(b[p+2])<<8 | uint64(b[p+3])<<16 | uint64(b[p+4])<<24, 5
		}
	}
	return uint64(b[p]), 1
}

// an address string with a correct checksum whose payload has a length, version or prefix the address layer does not
// expect: cutting or altering a real address never gets past the checksum, so these are built with the encoders
func craftedAddress(r *Rng) string {
	net := nets[r.Intn(3)]
	payload := r.Bytes(r.Pick(0, 1, 2, 19, 20, 21, 31, 32, 33, 34, 35, 40, 41, 52, 53, 54, 64, 65, 66, 73, 74, 90))
	ver := byte(r.Pick(0, 0, 1, 1, 2, 16, 17, 31))
	switch r.Intn(4) {
	case 0: // blech32 / blech32m under a confidential prefix (or a foreign one)
		hrp := []string{net.Blech32, net.Blech32, net.Bech32, "xx"}[r.Intn(4)]
		conv, err := blech32.ConvertBits(payload, 8, 5, true)
		if err != nil {
			return genAddress(r)
		}
		s, err := blech32.Encode(hrp, append([]byte{ver}, conv...), []blech32.EncodingType{blech32.BLECH32, blech32.BLECH32M}[r.Intn(2)])
		if err != nil {
			return genAddress(r)
		}
		return s
	case 1: // bech32 / bech32m under an unconfidential prefix (or a confidential one)
		hrp := []string{net.Bech32, net.Bech32, net.Blech32}[r.Intn(3)]
		if len(payload) > 45 {
			payload = payload[:r.Pick(0, 1, 2, 20, 32, 40, 41)]
		}
		conv, err := bech32.ConvertBits(payload, 8, 5, true)
		if err != nil {
			return genAddress(r)
		}
		var s string
		if r.Bool() {
			s, err = bech32.Encode(hrp, append([]byte{ver}, conv...))
		} else {
			s, err = bech32.EncodeM(hrp, append([]byte{ver}, conv...))
		}
		if err != nil {
			return genAddress(r)
		}
		return s
	case 2: // base58check with a known version byte and an unexpected payload length
		v := byte(r.Pick(int(net.PubKeyHash), int(net.ScriptHash), int(net.Confidential)))
		return base58.CheckEncode(payload, v)
	default: // confidential base58: confidential prefix, then an inner version byte, then too little or too much
		inner := append([]byte{byte(r.Pick(int(net.PubKeyHash), int(net.ScriptHash), 0))}, payload...)
		return base58.CheckEncode(inner, net.Confidential)
	}
}

// ---------- systematic decoder cases (family decsys; the count argument is ignored) ----------
// (a) one key-value pair of every key type (and every pset proprietary subtype), with empty, one-byte and short key data
// and an empty or one-byte value, inserted at the start of the global map, the first input map and the first output map
// of a PSET v0 and a PSET v2 fixture; (b) checksum-valid segwit and confidential-segwit address strings of every payload
// length 0..75 for each network, witness version 0 and 1, with the checksum constant of that version.
func genDecSysCases(r *Rng, n int, w *bufio.Writer) {
	sd := loadSeeds()
	emitPairs := func(kind string, b64 []string) {
		if len(b64) == 0 {
			return
		}
		var ser []byte
		for _, s := range b64 { // the smallest fixture with at least one input and one output
			b, err := base64.StdEncoding.DecodeString(s)
			if err == nil && (ser == nil || len(b) < len(ser)) && len(psetMapStarts(b)) >= 3 {
				ser = b
			}
		}
		if ser == nil {
			return
		}
		starts := psetMapStarts(ser)
		if len(starts) > 3 {
			starts = starts[:3]
		}
		var keys [][]byte
		// the secp256k1 generator: a key the per-field key checks accept (compressed, and its x coordinate alone)
		gx, _ := hex.DecodeString("79be667ef9dcbbac55a06295ce870b07029bfcdb2dce28d959f2815b16f81798")
		for typ := 0; typ <= 0x22; typ++ {
			for _, l := range []int{0, 1, 19, 31} {
				keys = append(keys, append([]byte{byte(typ)}, make([]byte, l)...))
			}
			keys = append(keys, append([]byte{byte(typ), 0x02}, gx...), append([]byte{byte(typ)}, gx...))
		}
		for sub := 0; sub <= 0x18; sub++ {
			for _, l := range []int{0, 1, 31} {
				keys = append(keys, append([]byte{0xfc, 4, 'p', 's', 'e', 't', byte(sub)}, make([]byte, l)...))
			}
		}
		for _, at := range starts {
			for _, key := range keys {
				for _, vl := range []int{0, 1, 3, 4} {
					val := make([]byte, vl)
					pair := append(append(append(compact(uint64(len(key))), key...), compact(uint64(len(val)))...), val...)
					out := append(append(append([]byte{}, ser[:at]...), pair...), ser[at:]...)
					fmt.Fprintf(w, "decsys %s 12 %s\n", kind, hx(out))
				}
			}
		}
	}
	emitPairs("psetv0", sd.psetV0B64)
	emitPairs("psetv2", sd.psetV2B64)
	// (c) a minimal flag-1 transaction cut right after each count or length field, that field announcing 1000 .. 2^31-1
	// items or bytes: memory reserved from a count before the data is there shows as allocation out of proportion
	{
		head := append(append([]byte{2, 0, 0, 0, 1, 1}, make([]byte, 32)...), 0, 0, 0, 0)              // version, flag, one input, outpoint
		afterScript := []byte{0xff, 0xff, 0xff, 0xff}                                                  // sequence
		out := append(append(append([]byte{1}, make([]byte, 32)...), 1, 0, 0, 0, 0, 0, 0, 0, 9), 0, 0) // asset, value, null nonce, empty script
		lock := []byte{0, 0, 0, 0}
		vals := []uint64{1000, 0xffff, 0x10000, 1000000, 4000000, 4000001, 0x7fffffff}
		big := func(v uint64) []byte {
			if v <= 0xffff {
				return []byte{0xfd, byte(v), byte(v >> 8)}
			}
			return []byte{0xfe, byte(v), byte(v >> 8), byte(v >> 16), byte(v >> 24)}
		}
		cat := func(parts ...[]byte) []byte {
			var o []byte
			for _, p := range parts {
				o = append(o, p...)
			}
			return o
		}
		for _, v := range vals {
			b := big(v)
			cuts := [][]byte{
				cat([]byte{2, 0, 0, 0, 1}, b),        // input count
				cat(head, b),                         // script length
				cat(head, []byte{0}, afterScript, b), // output count
				cat(head, []byte{0}, afterScript, []byte{1}, out[:len(out)-1], b),                 // output script length
				cat(head, []byte{0}, afterScript, []byte{1}, out, lock, b),                        // issuance range proof length
				cat(head, []byte{0}, afterScript, []byte{1}, out, lock, []byte{0}, b),             // inflation range proof length
				cat(head, []byte{0}, afterScript, []byte{1}, out, lock, []byte{0, 0}, b),          // witness item count
				cat(head, []byte{0}, afterScript, []byte{1}, out, lock, []byte{0, 0, 1}, b),       // witness item length
				cat(head, []byte{0}, afterScript, []byte{1}, out, lock, []byte{0, 0, 0}, b),       // peg-in witness item count
				cat(head, []byte{0}, afterScript, []byte{1}, out, lock, []byte{0, 0, 0, 1}, b),    // peg-in witness item length
				cat(head, []byte{0}, afterScript, []byte{1}, out, lock, []byte{0, 0, 0, 0}, b),    // surjection proof length
				cat(head, []byte{0}, afterScript, []byte{1}, out, lock, []byte{0, 0, 0, 0, 0}, b), // range proof length
			}
			for _, c := range cuts {
				for _, tail := range [][]byte{nil, {0}, make([]byte, 40)} {
					fmt.Fprintf(w, "decsys tx 13 %s\n", hx(cat(c, tail)))
					fmt.Fprintf(w, "decsys txhex 13 %s\n", hx(cat(c, tail)))
				}
			}
		}
	}
	for _, net := range nets {
		for ver := 0; ver <= 1; ver++ {
			for l := 0; l <= 75; l++ {
				payload := make([]byte, l)
				for i := range payload {
					payload[i] = byte(i*7 + l)
				}
				if conv, err := blech32.ConvertBits(payload, 8, 5, true); err == nil {
					if s, err := blech32.Encode(net.Blech32, append([]byte{byte(ver)}, conv...), []blech32.EncodingType{blech32.BLECH32, blech32.BLECH32M}[ver]); err == nil {
						fmt.Fprintf(w, "decsys address 11 %s\n", hx([]byte(s)))
					}
				}
				if l > 45 {
					continue
				}
				if conv, err := bech32.ConvertBits(payload, 8, 5, true); err == nil {
					var s string
					if ver == 0 {
						s, err = bech32.Encode(net.Bech32, append([]byte{0}, conv...))
					} else {
						s, err = bech32.EncodeM(net.Bech32, append([]byte{1}, conv...))
					}
					if err == nil {
						fmt.Fprintf(w, "decsys address 11 %s\n", hx([]byte(s)))
					}
				}
			}
		}
		for l := 0; l <= 60; l++ {
			payload := make([]byte, l)
			for _, v := range []byte{net.PubKeyHash, net.ScriptHash, net.Confidential} {
				fmt.Fprintf(w, "decsys address 11 %s\n", hx([]byte(base58.CheckEncode(payload, v))))
			}
		}
	}
	// (d) signed packets whose scripts are every prefix of every standard template (decshape.go)
	genDecShapeCases(w)
}

// offsets at which the maps of a PSET start (after the magic, and after every separator)
func psetMapStarts(ser []byte) []int {
	starts := []int{5}
	p := 5
	for p < len(ser) {
		if ser[p] == 0 {
			p++
			if p < len(ser) {
				starts = append(starts, p)
			}
			continue
		}
		kl, w := readCompact(ser, p)
		p += w + int(kl)
		if p >= len(ser) {
			break
		}
		vl, w2 := readCompact(ser, p)
		p += w2 + int(vl)
	}
	return starts
}
