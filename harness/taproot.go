package main

import (
	"bufio"
	"bytes"
	"encoding/base64"
	"encoding/hex"
	"fmt"
	"strings"

	"github.com/btcsuite/btcd/btcec/v2"
	"github.com/btcsuite/btcd/btcec/v2/schnorr"
	"github.com/btcsuite/btcd/txscript"
	"github.com/vulpemventures/go-elements/psetv2"
	"github.com/vulpemventures/go-elements/taproot"
)

// Taproot family (property C16): taptree, tapcb, taptweak.
// Values that need curve arithmetic (output key of a tree, public key of a private key)
// are computed by the generator with the implementation's own library and travel in the
// case line as oracle values for the model.

func init() {
	gens["taptree"] = genTapTree
	runs["taptree"] = runTapTree
	gens["tapcb"] = genTapCb
	runs["tapcb"] = runTapCb
	gens["taptweak"] = genTapTweak
	runs["taptweak"] = runTapTweak
	gens["tapbig"] = genTapBig
	runs["tapbig"] = runTapTree
	gens["tapkeys"] = genTapKeys
	runs["tapkeys"] = runTapKeys
}

var tapOrderN, _ = hex.DecodeString("fffffffffffffffffffffffffffffffebaaedce6af48a03bbfd25e8cd0364141")

func tapRndPriv(r *Rng) *btcec.PrivateKey {
	for {
		b := r.Bytes(32)
		if bytes.Compare(b, tapOrderN) >= 0 || bytes.Equal(b, make([]byte, 32)) {
			continue
		}
		k, _ := btcec.PrivKeyFromBytes(b)
		return k
	}
}

type tapLeafT struct {
	ver    byte
	script []byte
}

func tapRndLeaf(r *Rng) tapLeafT {
	var l tapLeafT
	switch r.Intn(20) {
	case 0:
		l.ver = 0xc0
	case 1:
		l.ver = byte(r.Intn(128) * 2) // any even version
	case 2:
		l.ver = byte(r.Intn(256)) // may be odd: not representable in a control block
	default:
		l.ver = byte(taproot.BaseElementsLeafVersion)
	}
	switch r.Intn(16) {
	case 0:
		l.script = nil
	case 1:
		l.script = r.Bytes(252 + r.Intn(4)) // around the 0xfd compact-size boundary
	case 2:
		l.script = r.Bytes(300 + r.Intn(300))
	default:
		l.script = r.Bytes(1 + r.Intn(40))
	}
	return l
}

var tapTreeSizes = []int{1, 2, 3, 4, 5, 6, 7, 8, 9, 11, 13, 15, 16, 17, 23, 31, 32, 33, 47, 63, 64}

// distinct leaves with even leaf versions (the domain of the property)
func tapRndLeaves(r *Rng, n int) []tapLeafT {
	ls := make([]tapLeafT, 0, n)
	seen := map[string]bool{}
	for len(ls) < n {
		l := tapRndLeaf(r)
		l.ver &= 0xfe
		k := string(append([]byte{l.ver}, l.script...))
		if seen[k] {
			continue
		}
		seen[k] = true
		ls = append(ls, l)
	}
	return ls
}

func tapToLeaves(ls []tapLeafT) []taproot.TapElementsLeaf {
	out := make([]taproot.TapElementsLeaf, len(ls))
	for i, l := range ls {
		out[i] = taproot.NewTapElementsLeaf(txscript.TapscriptLeafVersion(l.ver), l.script)
	}
	return out
}

func tapIsOdd(p *btcec.PublicKey) bool { return p.SerializeCompressed()[0] == 0x03 }

func tapTreeLine(key *btcec.PublicKey, ls []tapLeafT) string {
	return tapTreeLineAs("taptree", key, ls)
}

func tapTreeLineAs(family string, key *btcec.PublicKey, ls []tapLeafT) string {
	var b sb
	b.add(family)
	b.addh(key.SerializeCompressed())
	qx, qodd := make([]byte, 32), false
	if len(ls) > 0 {
		tree := taproot.AssembleTaprootScriptTree(tapToLeaves(ls)...)
		if tree.RootNode != nil {
			root := tree.RootNode.TapHash()
			q := taproot.ComputeTaprootOutputKey(key, root[:])
			qx, qodd = schnorr.SerializePubKey(q), tapIsOdd(q)
		}
	}
	b.addh(qx)
	b.add(b2s(qodd))
	b.addn(uint64(len(ls)))
	for _, l := range ls {
		b.add(fmt.Sprintf("%02x", l.ver))
		b.addh(l.script)
	}
	return strings.TrimSpace(b.String())
}

func genTapTree(r *Rng, n int, w *bufio.Writer) {
	for i := 0; i < n; i++ {
		var cnt int
		switch i % 3 {
		case 0:
			cnt = 1 + (i/3)%12 // every small count in turn
		case 1:
			cnt = tapTreeSizes[r.Intn(len(tapTreeSizes))]
		default:
			cnt = 1 + r.Intn(64)
		}
		if r.Chance(2) {
			cnt = 0
		}
		ls := tapRndLeaves(r, cnt)
		if cnt >= 2 && r.Chance(6) { // a repeated leaf: outside the property, inside the model
			ls[r.Intn(cnt)] = ls[r.Intn(cnt)]
		}
		if cnt >= 1 && (i%8 == 5 || r.Chance(4)) {
			// odd leaf versions (0xc5, 0xc1, ...): fine in memory; in the control-block bytes
			// bit 0 is the parity flag, so they do not survive ToBytes/ParseControlBlock
			for x := 1 + r.Intn(2); x > 0; x-- {
				j := r.Intn(cnt)
				ls[j].ver = byte(r.Pick(0xc5, 0xc1, int(ls[j].ver)|1))
			}
		}
		key := tapRndPriv(r).PubKey()
		fmt.Fprintln(w, tapTreeLine(key, ls))
	}
}

func tapReadTree(t *Toks) (*btcec.PublicKey, []byte, bool, []tapLeafT) {
	key, err := btcec.ParsePubKey(t.Hex())
	if err != nil {
		panic(err)
	}
	qx := t.Hex()
	qodd := t.Int() == 1
	n := t.Int()
	ls := make([]tapLeafT, n)
	for i := range ls {
		v, err := hex.DecodeString(t.Next())
		if err != nil || len(v) != 1 {
			panic("bad version")
		}
		ls[i] = tapLeafT{v[0], t.Hex()}
	}
	return key, qx, qodd, ls
}

// tapLeafKV serializes a packet whose only input carries the tap leaf script and returns
// the key data and the value of the InputTapLeafScript (0x15) pair as found in the bytes,
// together with the re-parsed packet.
func tapLeafKV(tls psetv2.TapLeafScript) (k, v []byte, back *psetv2.Pset, err error) {
	p, err := psetv2.New([]psetv2.InputArgs{{Txid: strings.Repeat("11", 32), TxIndex: 0}}, nil, nil)
	if err != nil {
		return nil, nil, nil, err
	}
	u, err := psetv2.NewUpdater(p)
	if err != nil {
		return nil, nil, nil, err
	}
	if err := u.AddInTapLeafScript(0, tls); err != nil {
		return nil, nil, nil, err
	}
	b64, err := p.ToBase64()
	if err != nil {
		return nil, nil, nil, err
	}
	raw, err := base64.StdEncoding.DecodeString(b64)
	if err != nil {
		return nil, nil, nil, err
	}
	cbb, err := tls.ControlBlock.ToBytes()
	if err != nil {
		return nil, nil, nil, err
	}
	// <compact size key length> 0x15 <control block> <compact size value length> <value>
	needle := append([]byte{0x15}, cbb...)
	at := bytes.Index(raw, needle)
	if at < 0 {
		return nil, nil, nil, fmt.Errorf("key pair not found")
	}
	rest := raw[at+len(needle):]
	vl, sz := tapReadCompact(rest)
	if sz == 0 || int(vl) > len(rest)-sz {
		return nil, nil, nil, fmt.Errorf("bad value length")
	}
	back, err = psetv2.NewPsetFromBase64(b64)
	return cbb, rest[sz : sz+int(vl)], back, err
}

func tapReadCompact(b []byte) (uint64, int) {
	if len(b) == 0 {
		return 0, 0
	}
	switch {
	case b[0] < 0xfd:
		return uint64(b[0]), 1
	case b[0] == 0xfd && len(b) >= 3:
		return uint64(b[1]) | uint64(b[2])<<8, 3
	case b[0] == 0xfe && len(b) >= 5:
		return uint64(b[1]) | uint64(b[2])<<8 | uint64(b[3])<<16 | uint64(b[4])<<24, 5
	}
	return 0, 0
}

func runTapTree(t *Toks) string {
	key, qx, _, ls := tapReadTree(t)
	tree := taproot.AssembleTaprootScriptTree(tapToLeaves(ls)...)
	if tree.RootNode == nil {
		return "res=ok root=none"
	}
	root := tree.RootNode.TapHash()
	var sers []string
	rt := true
	var ver, mem, flip strings.Builder
	for i := range tree.LeafMerkleProofs {
		cb := tree.LeafMerkleProofs[i].ToControlBlock(key)
		if n := len(tree.LeafMerkleProofs); i == 0 || i == 1 || i == n/2 || i == n-1 {
			// in memory: the block as built, and a forged one whose leaf version differs in bit 0
			mem.WriteString(b2s(taproot.VerifyTaprootLeafCommitment(&cb, qx, tree.LeafMerkleProofs[i].Script) == nil))
			forged := cb
			forged.LeafVersion ^= 1
			flip.WriteString(b2s(taproot.VerifyTaprootLeafCommitment(&forged, qx, tree.LeafMerkleProofs[i].Script) == nil))
		}
		bs, err := cb.ToBytes()
		if err != nil {
			return "res=err-tobytes"
		}
		sers = append(sers, hx(bs))
		parsed, err := taproot.ParseControlBlock(bs)
		if err != nil {
			rt = false
			if n := len(tree.LeafMerkleProofs); i == 0 || i == 1 || i == n/2 || i == n-1 {
				ver.WriteString("0")
			}
			continue
		}
		re, err := parsed.ToBytes()
		if err != nil || !bytes.Equal(re, bs) {
			rt = false
		}
		if n := len(tree.LeafMerkleProofs); i == 0 || i == 1 || i == n/2 || i == n-1 {
			ver.WriteString(b2s(taproot.VerifyTaprootLeafCommitment(parsed, qx, tree.LeafMerkleProofs[i].Script) == nil))
		}
	}
	kv := "kvk=- kvv=- kvrt=-"
	if len(ls) > 0 && len(ls[0].script) > 0 {
		tls := psetv2.NewTapLeafScript(tree.LeafMerkleProofs[0], key)
		k, v, back, err := tapLeafKV(tls)
		switch {
		case err != nil && k == nil:
			kv = "kvk=err kvv=err kvrt=err"
		case err != nil:
			kv = fmt.Sprintf("kvk=%s kvv=%s kvrt=err", hx(k), hx(v))
		default:
			st := "differs"
			if len(back.Inputs) == 1 && len(back.Inputs[0].TapLeafScript) == 1 {
				g := back.Inputs[0].TapLeafScript[0]
				gb, _ := g.ControlBlock.ToBytes()
				if bytes.Equal(gb, k) && bytes.Equal(g.Script, ls[0].script) && byte(g.LeafVersion) == ls[0].ver &&
					g.ControlBlock.OutputKeyYIsOdd == tls.ControlBlock.OutputKeyYIsOdd {
					st = "ok"
				}
			}
			kv = fmt.Sprintf("kvk=%s kvv=%s kvrt=%s", hx(k), hx(v), st)
		}
	}
	return fmt.Sprintf("res=ok root=%s cbs=%s rt=%s ver=%s mem=%s flip=%s %s", hx(root[:]), strings.Join(sers, ","), b2s(rt), ver.String(), mem.String(), flip.String(), kv)
}

// ---- tapcb: control-block bytes, mostly mutated ----

func tapCbLine(bs, script, prog []byte) string {
	var b sb
	b.add("tapcb")
	b.addh(bs)
	b.addh(script)
	b.addh(prog)
	qx, qodd := []byte(nil), false
	func() {
		defer func() { recover() }()
		if parsed, err := taproot.ParseControlBlock(bs); err == nil {
			root := parsed.RootHash(script)
			q := taproot.ComputeTaprootOutputKey(parsed.InternalKey, root)
			qx, qodd = schnorr.SerializePubKey(q), tapIsOdd(q)
		}
	}()
	b.addh(qx)
	b.add(b2s(qodd))
	return strings.TrimSpace(b.String())
}

func genTapCb(r *Rng, n int, w *bufio.Writer) {
	for i := 0; i < n; i++ {
		cnt := 1 + r.Intn(9)
		ls := tapRndLeaves(r, cnt)
		key := tapRndPriv(r).PubKey()
		tree := taproot.AssembleTaprootScriptTree(tapToLeaves(ls)...)
		root := tree.RootNode.TapHash()
		q := taproot.ComputeTaprootOutputKey(key, root[:])
		prog := schnorr.SerializePubKey(q)
		li := r.Intn(cnt)
		cb := tree.LeafMerkleProofs[li].ToControlBlock(key)
		bs, _ := cb.ToBytes()
		script := ls[li].script
		switch i % 12 {
		case 0: // genuine
		case 1, 2: // one byte corrupted
			p := r.Intn(len(bs))
			bs[p] ^= byte(1 + r.Intn(255))
		case 3: // truncated
			bs = bs[:len(bs)-1-r.Intn(tapMin(len(bs), 40))]
		case 4: // extended
			bs = append(bs, r.Bytes(r.Pick(1, 31, 32, 33, 64))...)
		case 5: // arbitrary bytes
			bs = r.Bytes(r.Pick(0, 1, 32, 33, 34, 65, 97, 33+32*r.Intn(6)))
		case 6: // key not a valid x coordinate
			if r.Bool() {
				copy(bs[1:33], bytes.Repeat([]byte{0xff}, 32))
			} else {
				copy(bs[1:33], r.Bytes(32))
			}
		case 7: // depth limits: a GENUINE block of 128 (the maximum), 127, 1, 0 nodes; 129 must not parse
			k := []int{128, 127, 129, 1, 0, 128}[(i/12)%6]
			if r.Chance(15) {
				k = r.Pick(126, 127, 128, 129, 130)
			}
			bs = append(bs[:33:33], r.Bytes(32*k)...)
			if parsed, err := taproot.ParseControlBlock(bs); err == nil {
				// the leaf sits below k arbitrary sibling hashes: commit to that root
				rt := parsed.RootHash(script)
				qq := taproot.ComputeTaprootOutputKey(key, rt)
				prog = schnorr.SerializePubKey(qq)
				bs[0] &= 0xfe
				if tapIsOdd(qq) {
					bs[0] |= 1
				}
				if r.Chance(10) {
					bs[0] ^= 1 // wrong parity at depth
				}
			}
		case 8: // other script or other program
			if r.Bool() {
				script = append(append([]byte{}, script...), byte(r.Intn(256)))
			} else {
				prog = append([]byte{}, prog...)
				prog[r.Intn(32)] ^= byte(1 + r.Intn(255))
			}
		case 10: // output-key argument of another length: same integer zero-padded, or unrelated bytes
			switch r.Intn(5) {
			case 0:
				prog = append([]byte{0}, prog...)
			case 1:
				prog = append(make([]byte, 8), prog...)
			case 2:
				prog = r.Bytes(31)
			case 3:
				prog = r.Bytes(33)
			default:
				prog = append(append([]byte{}, prog...), 0)
			}
		case 11: // an output key whose x starts with 0x00, presented without its leading zero bytes
			for tries := 0; tries < 20000 && prog[0] != 0; tries++ {
				key = tapRndPriv(r).PubKey()
				prog = schnorr.SerializePubKey(taproot.ComputeTaprootOutputKey(key, root[:]))
			}
			cb = tree.LeafMerkleProofs[li].ToControlBlock(key)
			bs, _ = cb.ToBytes()
			if r.Chance(75) {
				prog = bytes.TrimLeft(prog, "\x00")
			}
		case 9: // field prime boundary for the key: p-1, p, p+1 style values
			x, _ := hex.DecodeString("fffffffffffffffffffffffffffffffffffffffffffffffffffffffefffffc2f")
			x[31] += byte(r.Intn(3)) - 1
			copy(bs[1:33], x)
		}
		fmt.Fprintln(w, tapCbLine(bs, script, prog))
	}
}

func tapMin(a, b int) int {
	if a < b {
		return a
	}
	return b
}

func runTapCb(t *Toks) string {
	bs, script, prog := t.Hex(), t.Hex(), t.Hex()
	cb, err := taproot.ParseControlBlock(bs)
	if err != nil {
		return "res=err"
	}
	re, err := cb.ToBytes()
	if err != nil {
		return "res=err-tobytes"
	}
	root := cb.RootHash(script)
	verdict := taproot.VerifyTaprootLeafCommitment(cb, prog, script) == nil
	return fmt.Sprintf("res=ok key=%s odd=%s lv=%02x proof=%s root=%s verdict=%s reser=%s",
		hx(schnorr.SerializePubKey(cb.InternalKey)), b2s(cb.OutputKeyYIsOdd), byte(cb.LeafVersion),
		hx(cb.InclusionProof), hx(root), b2s(verdict), hx(re))
}

// ---- taptweak ----

func tapTweakLine(d, root []byte) string {
	var b sb
	b.add("taptweak")
	b.addh(d)
	b.addh(root)
	k, _ := btcec.PrivKeyFromBytes(d)
	pub := k.PubKey()
	b.addh(schnorr.SerializePubKey(pub))
	b.add(b2s(tapIsOdd(pub)))
	return strings.TrimSpace(b.String())
}

func genTapTweak(r *Rng, n int, w *bufio.Writer) {
	for i := 0; i < n; i++ {
		var d []byte
		switch r.Intn(12) {
		case 0:
			d = make([]byte, 32)
			d[31] = byte(1 + r.Intn(3))
		case 1: // n - k
			d = append([]byte{}, tapOrderN...)
			d[31] -= byte(1 + r.Intn(3))
		case 2: // above the group order: reduced mod n by PrivKeyFromBytes
			if r.Bool() {
				d = bytes.Repeat([]byte{0xff}, 32)
			} else {
				d = append([]byte{}, tapOrderN...)
				d[31] += byte(1 + r.Intn(3))
			}
		default:
			d = tapRndPriv(r).Serialize()
		}
		var root []byte
		switch r.Intn(10) {
		case 0:
			root = nil // ComputeTaprootKeyNoScript
		case 1:
			root = r.Bytes(r.Intn(70))
		default:
			root = r.Bytes(32)
		}
		fmt.Fprintln(w, tapTweakLine(d, root))
	}
}

func runTapTweak(t *Toks) string {
	d, root := t.Hex(), t.Hex()
	priv, _ := btcec.PrivKeyFromBytes(d)
	tw := taproot.TweakTaprootPrivKey(priv, root)
	return fmt.Sprintf("tw=%s after=%s", hx(tw.Serialize()), hx(priv.Serialize()))
}

// ---- tapbig: trees of 1..3 leaves one of which has a script around the compact-size
// boundaries 0xfc/0xfd (1 -> 3 bytes) and 0xffff/0x10000 (3 -> 5 bytes). Same case format
// and commands as taptree. ----

var tapBigSizes = []int{0x10000, 0xfd, 70000, 0xfc, 0xffff, 0x10001, 0xfe, 0x10000 + 4096}

func genTapBig(r *Rng, n int, w *bufio.Writer) {
	for i := 0; i < n; i++ {
		cnt := 1 + r.Intn(3)
		if i%len(tapBigSizes) == 0 {
			cnt = 1 // the lone-leaf path as well
		}
		ls := tapRndLeaves(r, cnt)
		ls[r.Intn(cnt)].script = r.Bytes(tapBigSizes[i%len(tapBigSizes)])
		fmt.Fprintln(w, tapTreeLineAs("tapbig", tapRndPriv(r).PubKey(), ls))
	}
}

// ---- tapkeys: ONE assembled tree used with several internal keys, in a given order ----
// tapkeys <n> (<ver> <script>)*n <k> (<key33> <qx> <qodd>)*k <m> (<key index> <leaf index>)*m

func genTapKeys(r *Rng, n int, w *bufio.Writer) {
	for i := 0; i < n; i++ {
		cnt := 2 + r.Intn(4)
		if r.Chance(10) {
			cnt = 1
		}
		ls := tapRndLeaves(r, cnt)
		tree := taproot.AssembleTaprootScriptTree(tapToLeaves(ls)...)
		root := tree.RootNode.TapHash()
		// 2..4 keys whose output keys have both parities
		nk := 2 + r.Intn(3)
		var keys []*btcec.PublicKey
		var qs []*btcec.PublicKey
		odd, even := false, false
		for len(keys) < nk || !odd || !even {
			k := tapRndPriv(r).PubKey()
			q := taproot.ComputeTaprootOutputKey(k, root[:])
			if len(keys) >= nk-1 && (!odd || !even) && ((tapIsOdd(q) && odd) || (!tapIsOdd(q) && even)) {
				continue
			}
			if len(keys) >= nk {
				break
			}
			keys, qs = append(keys, k), append(qs, q)
			if tapIsOdd(q) {
				odd = true
			} else {
				even = true
			}
		}
		var b sb
		b.add("tapkeys")
		b.addn(uint64(cnt))
		for _, l := range ls {
			b.add(fmt.Sprintf("%02x", l.ver))
			b.addh(l.script)
		}
		b.addn(uint64(len(keys)))
		for j := range keys {
			b.addh(keys[j].SerializeCompressed())
			b.addh(schnorr.SerializePubKey(qs[j]))
			b.add(b2s(tapIsOdd(qs[j])))
		}
		// key-major pass over a random key order, then leaf-major over the reverse order
		// (every leaf, every key, twice), then a few random uses
		perm := make([]int, len(keys))
		for j := range perm {
			perm[j] = j
		}
		for j := len(perm) - 1; j > 0; j-- {
			k := r.Intn(j + 1)
			perm[j], perm[k] = perm[k], perm[j]
		}
		var ops [][2]int
		for _, kj := range perm {
			for li := 0; li < cnt; li++ {
				ops = append(ops, [2]int{kj, li})
			}
		}
		if r.Bool() {
			for li := cnt - 1; li >= 0; li-- {
				for j := len(perm) - 1; j >= 0; j-- {
					ops = append(ops, [2]int{perm[j], li})
				}
			}
		}
		for x := r.Intn(6); x > 0; x-- {
			ops = append(ops, [2]int{r.Intn(len(keys)), r.Intn(cnt)})
		}
		b.addn(uint64(len(ops)))
		for _, o := range ops {
			b.addn(uint64(o[0]))
			b.addn(uint64(o[1]))
		}
		fmt.Fprintln(w, strings.TrimSpace(b.String()))
	}
}

type tapKeyT struct {
	key  *btcec.PublicKey
	qx   []byte
	qodd bool
}

func tapReadKeys(t *Toks) ([]tapLeafT, []tapKeyT, [][2]int) {
	n := t.Int()
	ls := make([]tapLeafT, n)
	for i := range ls {
		v, err := hex.DecodeString(t.Next())
		if err != nil || len(v) != 1 {
			panic("bad version")
		}
		ls[i] = tapLeafT{v[0], t.Hex()}
	}
	ks := make([]tapKeyT, t.Int())
	for j := range ks {
		k, err := btcec.ParsePubKey(t.Hex())
		if err != nil {
			panic(err)
		}
		ks[j] = tapKeyT{k, t.Hex(), t.Int() == 1}
	}
	ops := make([][2]int, t.Int())
	for x := range ops {
		ops[x] = [2]int{t.Int(), t.Int()}
	}
	return ls, ks, ops
}

func runTapKeys(t *Toks) string {
	ls, ks, ops := tapReadKeys(t)
	tree := taproot.AssembleTaprootScriptTree(tapToLeaves(ls)...)
	root := tree.RootNode.TapHash()
	var sers []string
	var ver strings.Builder
	for _, o := range ops {
		k, li := ks[o[0]], o[1]
		cb := tree.LeafMerkleProofs[li].ToControlBlock(k.key)
		bs, err := cb.ToBytes()
		if err != nil {
			return "res=err-tobytes"
		}
		sers = append(sers, hx(bs))
		parsed, err := taproot.ParseControlBlock(bs)
		ver.WriteString(b2s(err == nil && taproot.VerifyTaprootLeafCommitment(parsed, k.qx, ls[li].script) == nil))
	}
	return fmt.Sprintf("res=ok root=%s cbs=%s ver=%s", hx(root[:]), strings.Join(sers, ","), ver.String())
}
