package main

import (
	"bufio"
	"bytes"
	"encoding/hex"
	"fmt"
	"math/big"
	"strconv"

	"github.com/vulpemventures/go-elements/confidential"
)

// ---------- family "scal": the blinding-scalar helpers (C17) ----------
//
// case line: scal <op> <value> <x0> <x1> <x2>
//   op     calc (x1 = asset blinder, x2 = value blinder; x0 unused)
//          sub  (x1 = a, x2 = b; x0 unused)
//          add  (x0 = scalar, x1 = asset blinder, x2 = value blinder)
//   value  decimal uint64
//   xi     "nil" (nil slice), "-" (empty non-nil slice) or hex
//
// result line: res=ok|err out=<nil|-|hex> glob=0|1 a0=.. a1=.. a2=..   (ai = argument contents after the call)

var secpN, _ = new(big.Int).SetString("FFFFFFFFFFFFFFFFFFFFFFFFFFFFFFFEBAAEDCE6AF48A03BBFD25E8CD0364141", 16)

const scalGuard = 8

// scalArg places an argument in the middle of a larger array: guard bytes in front,
// guard bytes behind it inside the slice's spare capacity.
type scalArg struct {
	backing []byte
	s       []byte // the slice handed to the function (nil for "nil")
	orig    []byte
}

func mkScalArg(tok string) *scalArg {
	if tok == "nil" {
		return &scalArg{}
	}
	var d []byte
	if tok != "-" {
		var err error
		d, err = hex.DecodeString(tok)
		if err != nil {
			panic(err)
		}
	}
	back := make([]byte, scalGuard+len(d)+scalGuard)
	for i := range back {
		back[i] = 0xA5 ^ byte(i*7)
	}
	copy(back[scalGuard:], d)
	a := &scalArg{backing: back, orig: append([]byte{}, back...)}
	a.s = back[scalGuard : scalGuard+len(d)] // cap reaches to the end of the array
	return a
}
func (a *scalArg) after() string {
	if a.s == nil {
		return "nil"
	}
	return hx(a.s)
}
func (a *scalArg) untouched() bool { return bytes.Equal(a.backing, a.orig) }

func scalTok(b []byte) string {
	if b == nil {
		return "nil"
	}
	return hx(b)
}

type scalCase struct {
	op    string
	value uint64
	x     [3]*scalArg
}

func readScal(t *Toks) *scalCase {
	c := &scalCase{op: t.Next()}
	c.value = t.U64()
	for i := 0; i < 3; i++ {
		c.x[i] = mkScalArg(t.Next())
	}
	return c
}

func (c *scalCase) call() ([]byte, error) {
	switch c.op {
	case "calc":
		return confidential.CalculateScalarOffset(c.value, c.x[1].s, c.x[2].s)
	case "sub":
		return confidential.SubtractScalars(c.x[1].s, c.x[2].s)
	case "add":
		return confidential.ComputeAndAddToScalarOffset(c.x[0].s, c.value, c.x[1].s, c.x[2].s)
	}
	panic("bad op")
}

func isGlobalZero(out []byte) bool {
	return len(out) > 0 && len(confidential.Zero) > 0 && &out[0] == &confidential.Zero[0]
}

func runScal(t *Toks) string {
	c := readScal(t)
	out, err := c.call()
	args := fmt.Sprintf("a0=%s a1=%s a2=%s", c.x[0].after(), c.x[1].after(), c.x[2].after())
	if err != nil {
		return "res=err " + args
	}
	return fmt.Sprintf("res=ok out=%s glob=%s %s", scalTok(out), b2s(isGlobalZero(out)), args)
}

// ---------- generator ----------

func scalBe32(v *big.Int) []byte {
	b := v.Bytes()
	if len(b) > 32 {
		b = b[len(b)-32:]
	}
	return append(make([]byte, 32-len(b)), b...)
}

func genScalarInt(r *Rng) *big.Int {
	one := big.NewInt(1)
	switch r.Intn(18) {
	case 0, 1:
		return big.NewInt(0)
	case 2:
		return big.NewInt(1)
	case 3:
		return big.NewInt(2)
	case 4, 5:
		return new(big.Int).Sub(secpN, one)
	case 6:
		return new(big.Int).Sub(secpN, big.NewInt(2))
	case 7:
		return new(big.Int).Rsh(secpN, 1)
	case 8:
		return new(big.Int).Add(new(big.Int).Rsh(secpN, 1), one)
	case 9:
		return new(big.Int).SetUint64(r.U64())
	case 10, 11, 12:
		return genStructuredScalar(r)
	default:
		v := new(big.Int).SetBytes(r.Bytes(32))
		return v.Mod(v, secpN)
	}
}

// scalars with structure in their 32-byte form: a single bit (2^i, every i in 0..255), a single
// non-zero byte at any position, a single non-zero 64-bit limb (each of the four), and the
// bitwise complements of those (reduced modulo n)
func genStructuredScalar(r *Rng) *big.Int {
	v := new(big.Int)
	switch r.Intn(3) {
	case 0:
		v.Lsh(big.NewInt(1), uint(r.Intn(256)))
	case 1:
		v.Lsh(big.NewInt(int64(1+r.Intn(255))), uint(8*r.Intn(32)))
	default:
		k := r.U64()
		switch r.Intn(4) {
		case 0:
			k = 1
		case 1:
			k = ^uint64(0)
		}
		if k == 0 {
			k = 1
		}
		v.Lsh(new(big.Int).SetUint64(k), uint(64*r.Intn(4)))
	}
	if r.Chance(25) {
		all := new(big.Int).Sub(new(big.Int).Lsh(big.NewInt(1), 256), big.NewInt(1))
		v.Sub(all, v)
	}
	return v.Mod(v, secpN)
}

// a scalar token: mostly nil or a canonical 32-byte value below n; sometimes n, n+1,
// 2^256-1, a wrong length or the empty slice (outside the property's domain: K only)
func genScalTok(r *Rng, wild bool) (string, *big.Int) {
	k := r.Intn(100)
	if k < 14 {
		return "nil", nil
	}
	if wild && k < 24 {
		switch r.Intn(6) {
		case 0:
			return hex.EncodeToString(scalBe32(secpN)), nil
		case 1:
			return hex.EncodeToString(scalBe32(new(big.Int).Add(secpN, big.NewInt(int64(1+r.Intn(3)))))), nil
		case 2:
			return hex.EncodeToString(bytes.Repeat([]byte{0xff}, 32)), nil
		case 3:
			return "-", nil
		case 4:
			return hex.EncodeToString(r.Bytes(31)), nil
		default:
			return hex.EncodeToString(r.Bytes(33)), nil
		}
	}
	v := genScalarInt(r)
	return hex.EncodeToString(scalBe32(v)), v
}

func genValue64(r *Rng) uint64 {
	switch r.Intn(10) {
	case 0, 1:
		return 0
	case 2:
		return 1
	case 3:
		return 2
	case 4, 5:
		return ^uint64(0)
	case 6:
		return 1 << 63
	case 7:
		return uint64(r.Intn(100000))
	default:
		return r.U64()
	}
}

func scalModN(v *big.Int) *big.Int { return new(big.Int).Mod(v, secpN) }
func scalTok32(v *big.Int) string  { return hex.EncodeToString(scalBe32(scalModN(v))) }

func genScalCases(r *Rng, n int, w *bufio.Writer) {
	ops := []string{"calc", "sub", "add"}
	for i := 0; i < n; i++ {
		op := ops[i%3]
		wild := r.Chance(25)
		v := genValue64(r)
		var tk [3]string
		var iv [3]*big.Int
		for j := 0; j < 3; j++ {
			tk[j], iv[j] = genScalTok(r, wild)
		}
		bv := new(big.Int).SetUint64(v)
		// related operands: equal, negated, results that wrap to zero
		if !wild && r.Chance(45) {
			switch op {
			case "sub":
				if iv[1] != nil {
					switch r.Intn(3) {
					case 0: // a == b
						tk[2] = tk[1]
					case 1: // b = -a
						tk[2] = scalTok32(new(big.Int).Neg(iv[1]))
					default: // b = a + 1, a - 1
						tk[2] = scalTok32(new(big.Int).Add(iv[1], big.NewInt(int64(r.Pick(1, -1)))))
					}
				}
			case "calc":
				if iv[1] != nil { // vb = -(v*ab) [+ 0|1]
					p := new(big.Int).Mul(bv, iv[1])
					tk[2] = scalTok32(new(big.Int).Add(new(big.Int).Neg(p), big.NewInt(int64(r.Pick(0, 0, 1, -1)))))
				}
			case "add":
				p := big.NewInt(0)
				if iv[1] != nil {
					p.Mul(bv, iv[1])
				}
				if iv[2] != nil {
					p.Add(p, iv[2])
				}
				if r.Bool() { // scalar = -(offset) [+ 0|1]
					tk[0] = scalTok32(new(big.Int).Add(new(big.Int).Neg(p), big.NewInt(int64(r.Pick(0, 0, 1, -1)))))
				} else if iv[1] != nil && iv[0] != nil { // vb = -(scalar + v*ab)
					q := new(big.Int).Mul(bv, iv[1])
					q.Add(q, iv[0])
					tk[2] = scalTok32(q.Neg(q))
				}
			}
		}
		if op != "add" {
			tk[0] = "nil"
		}
		if op == "sub" {
			v = 0
		}
		fmt.Fprintf(w, "scal %s %s %s %s %s\n", op, strconv.FormatUint(v, 10), tk[0], tk[1], tk[2])
	}
}

func init() {
	gens["scal"] = genScalCases
	runs["scal"] = runScal
}
