package main

import (
	"bufio"
	"bytes"
	"fmt"
	"strings"

	"github.com/vulpemventures/go-elements/block"
	"github.com/vulpemventures/go-elements/transaction"
)

// blk <version> <prev> <merkle> <time> <height> <dyna 0/1> (<challenge> <solution> | <params> <params> <nwit> w..) <ntx> tx...
// params: 0 | 1 script limit root | 2 script limit program fedscript next e..

func readParams(t *Toks) *block.DynamicFederationParams {
	switch t.Int() {
	case 0:
		return nil
	case 1:
		return &block.DynamicFederationParams{CompactParams: &block.CompactParams{SignBlockScript: t.Hex(), SignBlockWitnessLimit: uint32(t.U64()), ElidedRoot: t.Hex()}}
	default:
		f := &block.FullParams{SignBlockScript: t.Hex(), SignBlockWitnessLimit: uint32(t.U64()), FedpegProgram: t.Hex(), FedpegScript: t.Hex()}
		f.ExtensionSpace = t.HexList()
		return &block.DynamicFederationParams{FullParams: f}
	}
}

func readHeader(t *Toks) *block.Header {
	h := &block.Header{}
	h.Version = uint32(t.U64())
	h.PrevBlockHash = t.Hex()
	h.MerkleRoot = t.Hex()
	h.Timestamp = uint32(t.U64())
	h.Height = uint32(t.U64())
	if t.Int() == 1 {
		d := &block.DynamicFederation{}
		d.Current = readParams(t)
		d.Proposed = readParams(t)
		d.SignBlockWitness = t.HexList()
		h.ExtData = &block.ExtData{IsDyna: true, DynamicFederation: d}
	} else {
		h.ExtData = &block.ExtData{Proof: &block.Proof{Challenge: t.Hex(), Solution: t.Hex()}}
	}
	return h
}

func writeParams(b *sb, p *block.DynamicFederationParams) {
	switch {
	case p == nil || (p.CompactParams == nil && p.FullParams == nil):
		b.add("0")
	case p.CompactParams != nil:
		b.add("1")
		b.addh(p.CompactParams.SignBlockScript)
		b.addn(uint64(p.CompactParams.SignBlockWitnessLimit))
		b.addh(p.CompactParams.ElidedRoot)
	default:
		b.add("2")
		b.addh(p.FullParams.SignBlockScript)
		b.addn(uint64(p.FullParams.SignBlockWitnessLimit))
		b.addh(p.FullParams.FedpegProgram)
		b.addh(p.FullParams.FedpegScript)
		b.addl(p.FullParams.ExtensionSpace)
	}
}

func writeHeader(b *sb, h *block.Header) {
	b.addn(uint64(h.Version))
	b.addh(h.PrevBlockHash)
	b.addh(h.MerkleRoot)
	b.addn(uint64(h.Timestamp))
	b.addn(uint64(h.Height))
	if h.ExtData.IsDyna {
		b.add("1")
		writeParams(b, h.ExtData.DynamicFederation.Current)
		writeParams(b, h.ExtData.DynamicFederation.Proposed)
		b.addl(h.ExtData.DynamicFederation.SignBlockWitness)
	} else {
		b.add("0")
		b.addh(h.ExtData.Proof.Challenge)
		b.addh(h.ExtData.Proof.Solution)
	}
}

func dumpBlock(bl *block.Block) string {
	var b sb
	writeHeader(&b, bl.Header)
	s := b.commas() + ","
	var txs []string
	for _, tx := range bl.TransactionsData.Transactions {
		txs = append(txs, dumpTx(tx))
	}
	return s + fmt.Sprint(len(txs)) + "," + strings.Join(txs, ";")
}

func genParams(r *Rng) *block.DynamicFederationParams {
	switch r.Intn(3) {
	case 0:
		return nil
	case 1:
		return &block.DynamicFederationParams{CompactParams: &block.CompactParams{
			SignBlockScript: r.Bytes(r.Pick(0, 1, 34, 0xfc, 0xfd)), SignBlockWitnessLimit: uint32(r.U64()), ElidedRoot: r.Bytes(32)}}
	default:
		f := &block.FullParams{SignBlockScript: r.Bytes(r.Pick(0, 34, 0xfd)), SignBlockWitnessLimit: uint32(r.U64()),
			FedpegProgram: r.Bytes(r.Pick(0, 22, 34)), FedpegScript: r.Bytes(r.Pick(0, 1, 100, 0x100))}
		n := r.Pick(0, 1, 2, 5)
		if r.Chance(3) {
			n = r.Pick(0xfc, 0xfd)
		}
		for i := 0; i < n; i++ {
			f.ExtensionSpace = append(f.ExtensionSpace, r.Bytes(r.Pick(0, 1, 33, 66)))
		}
		return &block.DynamicFederationParams{FullParams: f}
	}
}

func genHeader(r *Rng) *block.Header {
	h := &block.Header{}
	h.Version = uint32(r.U64()) & 0x7fffffff
	if r.Chance(50) {
		h.Version = uint32(r.Pick(0, 1, 0x20000000, 0x7fffffff))
	}
	h.PrevBlockHash = r.Bytes(32)
	h.MerkleRoot = r.Bytes(32)
	h.Timestamp = uint32(r.U64())
	h.Height = uint32(r.U64())
	if r.Chance(55) {
		d := &block.DynamicFederation{Current: genParams(r), Proposed: genParams(r)}
		n := r.Pick(0, 0, 1, 3, 11)
		for i := 0; i < n; i++ {
			d.SignBlockWitness = append(d.SignBlockWitness, r.Bytes(r.Pick(0, 1, 33, 72, 0xfd)))
		}
		h.ExtData = &block.ExtData{IsDyna: true, DynamicFederation: d}
	} else {
		h.ExtData = &block.ExtData{Proof: &block.Proof{Challenge: r.Bytes(r.Pick(0, 1, 34, 0xfc, 0xfd, 300)), Solution: r.Bytes(r.Pick(0, 1, 72, 0xfd))}}
	}
	return h
}

func genBlock(r *Rng) *block.Block {
	bl := &block.Block{Header: genHeader(r), TransactionsData: &block.Transactions{}}
	n := r.Pick(0, 1, 1, 2, 3)
	for i := 0; i < n; i++ {
		tx := genTx(r, true)
		for len(tx.Inputs) > 6 || len(tx.Outputs) > 6 {
			tx = genTx(r, true)
		}
		bl.TransactionsData.Transactions = append(bl.TransactionsData.Transactions, tx)
	}
	return bl
}

func genBlkCases(r *Rng, n int, w *bufio.Writer) {
	for i := 0; i < n; i++ {
		bl := genBlock(r)
		var b sb
		b.add("blk")
		writeHeader(&b, bl.Header)
		b.addn(uint64(len(bl.TransactionsData.Transactions)))
		for _, tx := range bl.TransactionsData.Transactions {
			writeTx(&b, tx)
		}
		fmt.Fprintln(w, b.String())
	}
}

// blkLine is the abstract-value case line of a block (family blk)
func blkLine(bl *block.Block) string {
	var b sb
	b.add("blk")
	writeHeader(&b, bl.Header)
	b.addn(uint64(len(bl.TransactionsData.Transactions)))
	for _, tx := range bl.TransactionsData.Transactions {
		writeTx(&b, tx)
	}
	return b.String()
}

func genRawBlkCases(r *Rng, n int, w *bufio.Writer) {
	for i := 0; i < n; i++ {
		bl := genBlock(r)
		var ser []byte
		hl := 0
		// the generator must survive a library that panics while serializing: the value itself becomes the case
		if guarded(func() {
			ser, _ = bl.SerializeBlock()
			if hs, err := bl.Header.Serialize(); err == nil {
				hl = len(hs)
			}
		}) != nil {
			fmt.Fprintln(w, blkLine(bl))
			continue
		}
		var m []byte
		switch r.Intn(8) {
		case 0:
			m = ser
		case 1:
			if len(ser) > 0 {
				m = ser[:r.Intn(len(ser))]
			}
		case 2:
			m = append([]byte{}, ser...)
			if len(m) > 0 {
				m[r.Intn(len(m))] ^= byte(1 << uint(r.Intn(8)))
			}
		case 3: // a byte in the extension-data area
			m = append([]byte{}, ser...)
			if hl > 77 {
				m[76+r.Intn(hl-76)] = byte(r.Pick(0, 1, 2, 3, 0xfc, 0xfd, 0xfe, 0xff))
			}
		case 4: // huge count spliced into the extension-data area
			m = append([]byte{}, ser...)
			if hl > 77 {
				p := 76 + r.Intn(hl-76)
				big := []byte{0xff, 0xff, 0xff, 0xff, 0xff, 0xff, 0xff, 0xff, 0xff}
				switch r.Intn(3) {
				case 0:
					big = []byte{0xff, 0, 0, 0, 0, 0, 0, 0, 0x80}
				case 1:
					big = []byte{0xfe, 0xff, 0xff, 0xff, 0x7f}
				}
				m = append(append(append([]byte{}, m[:p]...), big...), m[p:]...)
			}
		case 5:
			m = append(append([]byte{}, ser...), r.Bytes(1+r.Intn(4))...)
		case 6: // dynafed bit flipped
			m = append([]byte{}, ser...)
			if len(m) > 3 {
				m[3] ^= 0x80
			}
		default:
			m = r.Bytes(r.Intn(120))
		}
		fmt.Fprintf(w, "rawblk %s\n", hx(m))
	}
}

func readBlk(t *Toks) *block.Block {
	bl := &block.Block{Header: readHeader(t), TransactionsData: &block.Transactions{}}
	n := t.Int()
	for i := 0; i < n; i++ {
		bl.TransactionsData.Transactions = append(bl.TransactionsData.Transactions, readTx(t))
	}
	return bl
}

func runBlk(t *Toks) string {
	bl := readBlk(t)
	ser, err := bl.SerializeBlock()
	if err != nil {
		return "ser-error"
	}
	hs, _ := bl.Header.Serialize()
	fh, _ := bl.Header.SerializeForHash()
	hash, _ := bl.Header.Hash()
	parsed := "none"
	buf := bytes.NewBuffer(append([]byte{}, ser...))
	if p, err := block.NewFromBuffer(buf); err == nil {
		parsed = fmt.Sprintf("%s/rest=%d", dumpBlock(p), buf.Len())
	}
	return fmt.Sprintf("ser=%s hdr=%s forhash=%s hash=%s parse=%s", hx(ser), hx(hs), hx(fh), hx(hash[:]), parsed)
}

func runRawBlk(t *Toks) string {
	bs := t.Hex()
	buf := bytes.NewBuffer(append([]byte{}, bs...))
	p, err := block.NewFromBuffer(buf)
	if err != nil {
		return "parse=none"
	}
	re, err := p.SerializeBlock()
	if err != nil {
		return "reser-error"
	}
	canon := true
	for _, tx := range p.TransactionsData.Transactions {
		canon = canon && canonFlag(tx)
	}
	return fmt.Sprintf("parse=%s rest=%d reser=%s canon=%s", dumpBlock(p), buf.Len(), hx(re), b2s(canon))
}

func normBlockDump(bl *block.Block) string {
	c := &block.Block{Header: bl.Header, TransactionsData: &block.Transactions{}}
	for _, tx := range bl.TransactionsData.Transactions {
		n := *tx
		if tx.HasWitness() {
			n.Flag = 1
		} else {
			n.Flag = 0
		}
		c.TransactionsData.Transactions = append(c.TransactionsData.Transactions, &n)
	}
	return dumpBlock(c)
}

func checkC01Blk(t *Toks) string {
	bl := readBlk(t)
	for _, tx := range bl.TransactionsData.Transactions {
		if !wfTx(tx) {
			return "SKIP not-wf"
		}
	}
	ser, err := bl.SerializeBlock()
	if err != nil {
		return fail("block.Serialize", "error")
	}
	buf := bytes.NewBuffer(append(append([]byte{}, ser...), 0xbe, 0xef))
	p, err := block.NewFromBuffer(buf)
	if err != nil {
		return fail("block.roundtrip", "parse-rejects-own-serialization")
	}
	if buf.Len() != 2 {
		return fail("block.roundtrip", fmt.Sprintf("consumed-wrong-length/left=%d", buf.Len()))
	}
	if dumpBlock(p) != normBlockDump(bl) {
		return fail("block.roundtrip", "fields-differ")
	}
	hs, _ := bl.Header.Serialize()
	hb := bytes.NewBuffer(append(append([]byte{}, hs...), 0x01))
	ph, err := block.DeserializeHeader(hb)
	if err != nil || hb.Len() != 1 {
		return fail("header.roundtrip", "parse")
	}
	var a, b sb
	writeHeader(&a, ph)
	writeHeader(&b, bl.Header)
	if a.String() != b.String() {
		return fail("header.roundtrip", "fields-differ")
	}
	return "OK"
}

func checkC01RawBlk(t *Toks) string {
	bs := t.Hex()
	buf := bytes.NewBuffer(append([]byte{}, bs...))
	p, err := block.NewFromBuffer(buf)
	if err != nil {
		return "OK rejected"
	}
	for _, tx := range p.TransactionsData.Transactions {
		if !canonFlag(tx) {
			return "OK noncanonical-flag"
		}
	}
	re, err := p.SerializeBlock()
	if err != nil {
		return fail("block.reserialize", "error")
	}
	if !bytes.Equal(re, bs[:len(bs)-buf.Len()]) {
		return fail("block.reserialize", "bytes-differ")
	}
	return "OK"
}

var _ = transaction.NewTx

func init() {
	gens["blk"] = genBlkCases
	gens["rawblk"] = genRawBlkCases
	runs["blk"] = runBlk
	runs["rawblk"] = runRawBlk
	checks["C01/blk"] = checkC01Blk
	checks["C01/rawblk"] = checkC01RawBlk
	checks["C12/blk"] = checkC12BlkObj
}

// C12 on a block VALUE (reached when the library could not even serialize it for the byte-level families): every
// operation the decoders' results must survive, on the value as built
func checkC12BlkObj(t *Toks) string {
	bl := readBlk(t)
	if p := guarded(func() {
		bl.SerializeBlock()
		bl.Header.Serialize()
		bl.Header.SerializeForHash()
		bl.Header.Hash()
		for _, tx := range bl.TransactionsData.Transactions {
			followTx(tx)
		}
	}); p != nil {
		return fail("block.value", "panic/"+sanitizeDec(p))
	}
	return "OK value"
}
