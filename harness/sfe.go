package main

// C09 — sign, finalize, extract (families "sfe0": pset v0, "sfe2": psetv2).
//
// A case line is a packet description (unsigned transaction or v2 globals, per-input UTXO
// and scripts), an oracle table (for every signature that occurs: is it valid, by btcec,
// for the digest the implementation computes over the transaction being signed) and a
// list of role operations. runSfe performs the operations on the real code and prints,
// after each one, the outcome class and the fields of the touched input(s); after Extract
// the extracted transaction and, per input, whether an independent verifier accepts the
// final script/witness. ocaml/drv_sfe.ml prints the same line from coq/Model/Spend.v.
//
//	sfe0 <TX> <nin> {IN} <norc> {k pk sig bit} <nop> {OP}
//	sfe2 <txversion> <fallback|~> <nscalars> <nin> {IN IN2} <nout> {OUT2} <norc> {..} <nop> {OP}
//	IN  := <utxo> <sht> <rs> <ws> <fs> <fw>   utxo := 0 | 1 <TX> | 2 <TXOUT>;   rs.. := ~ (nil) | - (empty) | hex
//	OP  := S k sig pk fmt rs ws | H | F k | M k | FA | MA | X | TK k sig | TS k pk sig leaf

import (
	"bufio"
	"bytes"
	"crypto/sha256"
	"encoding/hex"
	"fmt"
	"strconv"
	"strings"

	"github.com/btcsuite/btcd/btcec/v2"
	"github.com/btcsuite/btcd/btcec/v2/ecdsa"
	"github.com/btcsuite/btcd/btcec/v2/schnorr"
	"github.com/btcsuite/btcd/btcutil"
	"github.com/btcsuite/btcd/chaincfg/chainhash"
	"github.com/btcsuite/btcd/txscript"
	"github.com/vulpemventures/go-elements/elementsutil"
	"github.com/vulpemventures/go-elements/pset"
	"github.com/vulpemventures/go-elements/psetv2"
	"github.com/vulpemventures/go-elements/taproot"
	"github.com/vulpemventures/go-elements/transaction"
)

// ---------------------------------------------------------------- case values

type sfeIn struct {
	utxoKind int
	nw       *transaction.Transaction
	wu       *transaction.TxOutput
	sht      uint32
	rs, ws   []byte
	fs, fw   []byte
	// v2
	txid                         []byte
	index, seq, tlock, hlock     uint32
	issValue, issKeys            uint64
	issVCommit, issVRp, issKRp   []byte
	issKCommit, issNonce, issEnt []byte
	issVProof, issKProof         []byte
	pegwit                       [][]byte
	pegwitSet                    bool
	tapKeySig                    []byte
	tapSigs                      []psetv2.TapScriptSig
	tapLeafs                     []sfeLeaf
	tapInternal, tapMerkle       []byte
}

type sfeLeaf struct {
	script   []byte
	version  byte
	cb       []byte
	commitOK bool // oracle: taproot.VerifyTaprootLeafCommitment(cb, program of the spent script, script)
}

type sfeOut struct {
	value                   uint64
	vcommit, asset, acommit []byte
	script                  []byte
	ecdh, rp, sp            []byte
	blindpk                 []byte
	blinder                 uint32
	vproof, aproof          []byte
}

type sfeOrc struct {
	k       int
	pk, sig []byte
	bit     bool
}

type sfeOp struct {
	// AI: txid (internal order), index, seq, hlock, tlock; AW: k, wu
	txid                     []byte
	index, seq, hlock, tlock uint32
	wu                       *transaction.TxOutput
	kind                     string
	k                        int
	sig, pk                  []byte
	fmtOK                    bool
	rs, ws                   []byte
	leaf                     []byte
}

type sfeCase struct {
	v2        bool
	tx        *transaction.Transaction
	txversion uint32
	fallback  *uint32
	nscalars  int
	ins       []sfeIn
	outs      []sfeOut
	orc       []sfeOrc
	ops       []sfeOp
	added     map[int]*transaction.TxOutput // witness utxos given by AW operations to inputs added by AI
}

// optional byte string: "~" nil, "-" empty non-nil
func sfeOptTok(b []byte) string {
	if b == nil {
		return "~"
	}
	return hx(b)
}
func sfeReadOpt(t *Toks) []byte {
	s := t.Next()
	switch s {
	case "~":
		return nil
	case "-":
		return []byte{}
	}
	b, err := hexDecode(s)
	if err != nil {
		panic(err)
	}
	return b
}
func sfeReadHex(t *Toks) []byte {
	s := t.Next()
	if s == "-" || s == "~" {
		return nil
	}
	b, err := hexDecode(s)
	if err != nil {
		panic(err)
	}
	return b
}
func hexDecode(s string) ([]byte, error) {
	b := make([]byte, len(s)/2)
	for i := 0; i < len(b); i++ {
		v, err := strconv.ParseUint(s[2*i:2*i+2], 16, 8)
		if err != nil {
			return nil, err
		}
		b[i] = byte(v)
	}
	return b, nil
}

func sfeReadTxOut(t *Toks) *transaction.TxOutput {
	o := &transaction.TxOutput{}
	o.Asset = sfeReadHex(t)
	o.Value = sfeReadHex(t)
	o.Script = sfeReadHex(t)
	o.Nonce = sfeReadHex(t)
	o.RangeProof = sfeReadHex(t)
	o.SurjectionProof = sfeReadHex(t)
	return o
}
func sfeWriteTxOut(b *sb, o *transaction.TxOutput) {
	b.addh(o.Asset)
	b.addh(o.Value)
	b.addh(o.Script)
	b.addh(o.Nonce)
	b.addh(o.RangeProof)
	b.addh(o.SurjectionProof)
}

func sfeReadIn(t *Toks) sfeIn {
	var in sfeIn
	in.utxoKind = t.Int()
	switch in.utxoKind {
	case 1:
		in.nw = readTx(t)
	case 2:
		in.wu = sfeReadTxOut(t)
	case 3: // both fields (psetv2 allows it)
		in.nw = readTx(t)
		in.wu = sfeReadTxOut(t)
	}
	in.sht = uint32(t.U64())
	in.rs = sfeReadOpt(t)
	in.ws = sfeReadOpt(t)
	in.fs = sfeReadOpt(t)
	in.fw = sfeReadOpt(t)
	return in
}
func sfeWriteIn(b *sb, in *sfeIn) {
	b.addn(uint64(in.utxoKind))
	switch in.utxoKind {
	case 1:
		writeTx(b, in.nw)
	case 2:
		sfeWriteTxOut(b, in.wu)
	case 3:
		writeTx(b, in.nw)
		sfeWriteTxOut(b, in.wu)
	}
	b.addn(uint64(in.sht))
	b.add(sfeOptTok(in.rs))
	b.add(sfeOptTok(in.ws))
	b.add(sfeOptTok(in.fs))
	b.add(sfeOptTok(in.fw))
}

func sfeReadIn2(t *Toks, in *sfeIn) {
	in.txid = sfeReadHex(t)
	in.index = uint32(t.U64())
	in.seq = uint32(t.U64())
	in.tlock = uint32(t.U64())
	in.hlock = uint32(t.U64())
	in.issValue = t.U64()
	in.issVCommit = sfeReadOpt(t)
	in.issVRp = sfeReadOpt(t)
	in.issKRp = sfeReadOpt(t)
	in.issKeys = t.U64()
	in.issKCommit = sfeReadOpt(t)
	in.issNonce = sfeReadOpt(t)
	in.issEnt = sfeReadOpt(t)
	in.issVProof = sfeReadHex(t)
	in.issKProof = sfeReadHex(t)
	if s := t.Next(); s != "~" {
		n, _ := strconv.Atoi(s)
		in.pegwitSet = true
		in.pegwit = [][]byte{}
		for i := 0; i < n; i++ {
			in.pegwit = append(in.pegwit, sfeReadHex(t))
		}
	}
	in.tapKeySig = sfeReadHex(t)
	n := t.Int()
	for i := 0; i < n; i++ {
		pk := sfeReadHex(t)
		sg := sfeReadHex(t)
		lf := sfeReadHex(t)
		in.tapSigs = append(in.tapSigs, psetv2.TapScriptSig{PartialSig: psetv2.PartialSig{PubKey: pk, Signature: sg}, LeafHash: lf})
	}
	n = t.Int()
	for i := 0; i < n; i++ {
		sc := sfeReadHex(t)
		v := byte(t.U64())
		cb := sfeReadHex(t)
		ok := t.Int() == 1
		in.tapLeafs = append(in.tapLeafs, sfeLeaf{sc, v, cb, ok})
	}
	in.tapInternal = sfeReadHex(t)
	in.tapMerkle = sfeReadHex(t)
}
func sfeWriteIn2(b *sb, in *sfeIn) {
	b.addh(in.txid)
	b.addn(uint64(in.index))
	b.addn(uint64(in.seq))
	b.addn(uint64(in.tlock))
	b.addn(uint64(in.hlock))
	b.addn(in.issValue)
	b.add(sfeOptTok(in.issVCommit))
	b.add(sfeOptTok(in.issVRp))
	b.add(sfeOptTok(in.issKRp))
	b.addn(in.issKeys)
	b.add(sfeOptTok(in.issKCommit))
	b.add(sfeOptTok(in.issNonce))
	b.add(sfeOptTok(in.issEnt))
	b.addh(in.issVProof)
	b.addh(in.issKProof)
	if in.pegwitSet {
		b.addl(in.pegwit)
	} else {
		b.add("~")
	}
	b.addh(in.tapKeySig)
	b.addn(uint64(len(in.tapSigs)))
	for _, s := range in.tapSigs {
		b.addh(s.PubKey)
		b.addh(s.Signature)
		b.addh(s.LeafHash)
	}
	b.addn(uint64(len(in.tapLeafs)))
	for _, l := range in.tapLeafs {
		b.addh(l.script)
		b.addn(uint64(l.version))
		b.addh(l.cb)
		b.add(b2s(l.commitOK))
	}
	b.addh(in.tapInternal)
	b.addh(in.tapMerkle)
}

func sfeReadOut2(t *Toks) sfeOut {
	var o sfeOut
	o.value = t.U64()
	o.vcommit = sfeReadOpt(t)
	o.asset = sfeReadOpt(t)
	o.acommit = sfeReadOpt(t)
	o.script = sfeReadHex(t)
	o.ecdh = sfeReadOpt(t)
	o.rp = sfeReadOpt(t)
	o.sp = sfeReadOpt(t)
	o.blindpk = sfeReadHex(t)
	o.blinder = uint32(t.U64())
	o.vproof = sfeReadHex(t)
	o.aproof = sfeReadHex(t)
	return o
}
func sfeWriteOut2(b *sb, o *sfeOut) {
	b.addn(o.value)
	b.add(sfeOptTok(o.vcommit))
	b.add(sfeOptTok(o.asset))
	b.add(sfeOptTok(o.acommit))
	b.addh(o.script)
	b.add(sfeOptTok(o.ecdh))
	b.add(sfeOptTok(o.rp))
	b.add(sfeOptTok(o.sp))
	b.addh(o.blindpk)
	b.addn(uint64(o.blinder))
	b.addh(o.vproof)
	b.addh(o.aproof)
}

func sfeReadTail(t *Toks, c *sfeCase) {
	n := t.Int()
	for i := 0; i < n; i++ {
		var o sfeOrc
		o.k = t.Int()
		o.pk = sfeReadHex(t)
		o.sig = sfeReadHex(t)
		o.bit = t.Int() == 1
		c.orc = append(c.orc, o)
	}
	n = t.Int()
	for i := 0; i < n; i++ {
		var op sfeOp
		op.kind = t.Next()
		switch op.kind {
		case "S":
			op.k = t.Int()
			op.sig = sfeReadHex(t)
			op.pk = sfeReadHex(t)
			op.fmtOK = t.Int() == 1
			op.rs = sfeReadOpt(t)
			op.ws = sfeReadOpt(t)
		case "F", "M":
			op.k = t.Int()
		case "TK":
			op.k = t.Int()
			op.sig = sfeReadHex(t)
		case "TS":
			op.k = t.Int()
			op.pk = sfeReadHex(t)
			op.sig = sfeReadHex(t)
			op.leaf = sfeReadHex(t)
		case "AI":
			op.txid = sfeReadHex(t)
			op.index = uint32(t.U64())
			op.seq = uint32(t.U64())
			op.hlock = uint32(t.U64())
			op.tlock = uint32(t.U64())
		case "AW":
			op.k = t.Int()
			op.wu = sfeReadTxOut(t)
			if c.added == nil {
				c.added = map[int]*transaction.TxOutput{}
			}
			c.added[op.k] = op.wu
		}
		c.ops = append(c.ops, op)
	}
}
func sfeWriteTail(b *sb, c *sfeCase) {
	b.addn(uint64(len(c.orc)))
	for _, o := range c.orc {
		b.addn(uint64(o.k))
		b.addh(o.pk)
		b.addh(o.sig)
		b.add(b2s(o.bit))
	}
	b.addn(uint64(len(c.ops)))
	for _, op := range c.ops {
		b.add(op.kind)
		switch op.kind {
		case "S":
			b.addn(uint64(op.k))
			b.addh(op.sig)
			b.addh(op.pk)
			b.add(b2s(op.fmtOK))
			b.add(sfeOptTok(op.rs))
			b.add(sfeOptTok(op.ws))
		case "F", "M":
			b.addn(uint64(op.k))
		case "TK":
			b.addn(uint64(op.k))
			b.addh(op.sig)
		case "TS":
			b.addn(uint64(op.k))
			b.addh(op.pk)
			b.addh(op.sig)
			b.addh(op.leaf)
		case "AI":
			b.addh(op.txid)
			b.addn(uint64(op.index))
			b.addn(uint64(op.seq))
			b.addn(uint64(op.hlock))
			b.addn(uint64(op.tlock))
		case "AW":
			b.addn(uint64(op.k))
			sfeWriteTxOut(b, op.wu)
		}
	}
}

func sfeReadCase(t *Toks, v2 bool) *sfeCase {
	c := &sfeCase{v2: v2}
	if !v2 {
		c.tx = readTx(t)
		n := t.Int()
		for i := 0; i < n; i++ {
			c.ins = append(c.ins, sfeReadIn(t))
		}
	} else {
		c.txversion = uint32(t.U64())
		if s := t.Next(); s != "~" {
			v, _ := strconv.ParseUint(s, 10, 32)
			u := uint32(v)
			c.fallback = &u
		}
		c.nscalars = t.Int()
		n := t.Int()
		for i := 0; i < n; i++ {
			in := sfeReadIn(t)
			sfeReadIn2(t, &in)
			c.ins = append(c.ins, in)
		}
		n = t.Int()
		for i := 0; i < n; i++ {
			c.outs = append(c.outs, sfeReadOut2(t))
		}
	}
	sfeReadTail(t, c)
	return c
}

func (c *sfeCase) line() string {
	var b sb
	if !c.v2 {
		b.add("sfe0")
		writeTx(&b, c.tx)
		b.addn(uint64(len(c.ins)))
		for i := range c.ins {
			sfeWriteIn(&b, &c.ins[i])
		}
	} else {
		b.add("sfe2")
		b.addn(uint64(c.txversion))
		if c.fallback != nil {
			b.addn(uint64(*c.fallback))
		} else {
			b.add("~")
		}
		b.addn(uint64(c.nscalars))
		b.addn(uint64(len(c.ins)))
		for i := range c.ins {
			sfeWriteIn(&b, &c.ins[i])
			sfeWriteIn2(&b, &c.ins[i])
		}
		b.addn(uint64(len(c.outs)))
		for i := range c.outs {
			sfeWriteOut2(&b, &c.outs[i])
		}
	}
	sfeWriteTail(&b, c)
	return strings.TrimSpace(b.String())
}

// ---------------------------------------------------------------- building the real packets

func sfeCopyTx(tx *transaction.Transaction) *transaction.Transaction {
	raw, err := tx.Serialize()
	if err != nil {
		panic(err)
	}
	c, err := transaction.NewTxFromBuffer(bytes.NewBuffer(raw))
	if err != nil {
		panic(err)
	}
	c.Flag = tx.Flag
	return c
}

func (c *sfeCase) build0() *pset.Pset {
	p := &pset.Pset{UnsignedTx: c.tx, Inputs: make([]pset.PInput, len(c.ins)), Outputs: make([]pset.POutput, len(c.tx.Outputs))}
	for i := range c.ins {
		in := &c.ins[i]
		p.Inputs[i].NonWitnessUtxo = in.nw
		p.Inputs[i].WitnessUtxo = in.wu
		p.Inputs[i].SighashType = txscript.SigHashType(in.sht)
		p.Inputs[i].RedeemScript = in.rs
		p.Inputs[i].WitnessScript = in.ws
		p.Inputs[i].FinalScriptSig = in.fs
		p.Inputs[i].FinalScriptWitness = in.fw
	}
	return p
}

func (c *sfeCase) build2() *psetv2.Pset {
	p, err := psetv2.New(nil, nil, c.fallback)
	if err != nil {
		panic(err)
	}
	p.Global.TxVersion = c.txversion
	for i := 0; i < c.nscalars; i++ {
		p.Global.Scalars = append(p.Global.Scalars, bytes.Repeat([]byte{byte(i + 1)}, 32))
	}
	for i := range c.ins {
		in := &c.ins[i]
		x := psetv2.Input{
			NonWitnessUtxo: in.nw, WitnessUtxo: in.wu, SigHashType: txscript.SigHashType(in.sht),
			RedeemScript: in.rs, WitnessScript: in.ws, FinalScriptSig: in.fs, FinalScriptWitness: in.fw,
			PreviousTxid: in.txid, PreviousTxIndex: in.index, Sequence: in.seq,
			RequiredTimeLocktime: in.tlock, RequiredHeightLocktime: in.hlock,
			IssuanceValue: in.issValue, IssuanceValueCommitment: in.issVCommit,
			IssuanceValueRangeproof: in.issVRp, IssuanceInflationKeysRangeproof: in.issKRp,
			IssuanceInflationKeys: in.issKeys, IssuanceInflationKeysCommitment: in.issKCommit,
			IssuanceBlindingNonce: in.issNonce, IssuanceAssetEntropy: in.issEnt,
			IssuanceBlindValueProof: in.issVProof, IssuanceBlindInflationKeysProof: in.issKProof,
			TapKeySig: in.tapKeySig, TapInternalKey: in.tapInternal, TapMerkleRoot: in.tapMerkle,
		}
		if in.pegwitSet {
			x.PeginWitness = in.pegwit
		}
		for _, s := range in.tapSigs {
			x.TapScriptSig = append(x.TapScriptSig, s)
		}
		for _, l := range in.tapLeafs {
			cb, err := taproot.ParseControlBlock(l.cb)
			if err != nil {
				panic(err)
			}
			x.TapLeafScript = append(x.TapLeafScript, psetv2.TapLeafScript{
				TapElementsLeaf: taproot.NewTapElementsLeaf(txscript.TapscriptLeafVersion(l.version), l.script),
				ControlBlock:    *cb,
			})
		}
		p.Inputs = append(p.Inputs, x)
	}
	for i := range c.outs {
		o := &c.outs[i]
		p.Outputs = append(p.Outputs, psetv2.Output{
			Value: o.value, ValueCommitment: o.vcommit, Asset: o.asset, AssetCommitment: o.acommit,
			Script: o.script, EcdhPubkey: o.ecdh, ValueRangeproof: o.rp, AssetSurjectionProof: o.sp,
			BlindingPubkey: o.blindpk, BlinderIndex: o.blinder, BlindValueProof: o.vproof, BlindAssetProof: o.aproof,
		})
	}
	p.Global.InputCount = uint64(len(p.Inputs))
	p.Global.OutputCount = uint64(len(p.Outputs))
	return p
}

// the output spent by input k, from the case description
func (c *sfeCase) prevout(k int) *transaction.TxOutput {
	if k >= len(c.ins) {
		return c.added[k]
	}
	in := &c.ins[k]
	if in.wu != nil {
		return in.wu
	}
	if in.nw != nil {
		idx := in.index
		if !c.v2 {
			idx = c.tx.Inputs[k].Index
		}
		if int(idx) < len(in.nw.Outputs) {
			return in.nw.Outputs[idx]
		}
	}
	return nil
}

// ---------------------------------------------------------------- printing

func sfeDumpUtxo(nw *transaction.Transaction, wu *transaction.TxOutput) string {
	s := ""
	if nw != nil {
		s += "n"
	}
	if wu != nil {
		s += "w" + hx(wu.Asset) + "." + hx(wu.Value) + "." + hx(wu.Script) + "." + hx(wu.Nonce) + "." + hx(wu.RangeProof) + "." + hx(wu.SurjectionProof)
	}
	if s == "" {
		s = "0"
	}
	return s
}

func sfeDumpIn0(in *pset.PInput) string {
	var sg []string
	for _, ps := range in.PartialSigs {
		sg = append(sg, hx(ps.PubKey)+":"+hx(ps.Signature))
	}
	return fmt.Sprintf("u%s/s%s/t%d/r%s/w%s/f%s/g%s", sfeDumpUtxo(in.NonWitnessUtxo, in.WitnessUtxo),
		strings.Join(sg, ","), uint32(in.SighashType), sfeOptTok(in.RedeemScript), sfeOptTok(in.WitnessScript),
		sfeOptTok(in.FinalScriptSig), sfeOptTok(in.FinalScriptWitness))
}

// v2 distinguishes nil from empty only in the signer; the finalizer tests lengths. The dump
// keeps the distinction for the script fields and normalises the final fields, which the
// code only ever tests by length.
func sfeDumpIn2(in *psetv2.Input) string {
	var sg []string
	for _, ps := range in.PartialSigs {
		sg = append(sg, hx(ps.PubKey)+":"+hx(ps.Signature))
	}
	var ts []string
	for _, s := range in.TapScriptSig {
		ts = append(ts, hx(s.PubKey)+":"+hx(s.Signature)+":"+hx(s.LeafHash))
	}
	return fmt.Sprintf("u%s/s%s/t%d/r%s/w%s/f%s/g%s/k%s/n%s", sfeDumpUtxo(in.NonWitnessUtxo, in.WitnessUtxo),
		strings.Join(sg, ","), uint32(in.SigHashType), sfeOptTok(in.RedeemScript), sfeOptTok(in.WitnessScript),
		hx(in.FinalScriptSig), hx(in.FinalScriptWitness), hx(in.TapKeySig), strings.Join(ts, ","))
}

func sfeStatus(err error) string {
	if err != nil {
		return "err"
	}
	return "ok"
}

// ---------------------------------------------------------------- run

func sfeInputArgs(op *sfeOp) psetv2.InputArgs {
	return psetv2.InputArgs{Txid: hex.EncodeToString(elementsutil.ReverseBytes(op.txid)), TxIndex: op.index,
		Sequence: op.seq, HeightLock: op.hlock, TimeLock: op.tlock}
}

func sfeTouched(op *sfeOp) bool {
	switch op.kind {
	case "S", "F", "M", "TK", "TS", "AW":
		return true
	}
	return false
}

func runSfe0(t *Toks) string {
	c := sfeReadCase(t, false)
	p := c.build0()
	var out []string
	dumpAll := func() string {
		var l []string
		for i := range p.Inputs {
			l = append(l, sfeDumpIn0(&p.Inputs[i]))
		}
		return strings.Join(l, ";")
	}
	for j := range c.ops {
		op := &c.ops[j]
		var err error
		extra := ""
		switch op.kind {
		case "S":
			u := &pset.Updater{Data: p}
			_, err = u.Sign(op.k, op.sig, op.pk, op.rs, op.ws)
		case "H":
			var s string
			s, err = p.ToBase64()
			if err == nil {
				var q *pset.Pset
				q, err = pset.NewPsetFromBase64(s)
				if err == nil {
					p = q
				}
			}
		case "F":
			err = pset.Finalize(p, op.k)
		case "M":
			_, err = pset.MaybeFinalize(p, op.k)
		case "FA":
			err = pset.FinalizeAll(p)
		case "MA":
			err = pset.MaybeFinalizeAll(p)
		case "X":
			var tx *transaction.Transaction
			tx, err = pset.Extract(p)
			if err == nil {
				extra = ":" + dumpTx(tx) + ":" + sfeSatLine(c, tx, p.UnsignedTx)
			}
		default:
			panic("op")
		}
		st := sfeStatus(err)
		if sfeTouched(op) {
			out = append(out, fmt.Sprintf("o%d=%s:%s", j, st, sfeDumpIn0(&p.Inputs[op.k])))
		} else if op.kind == "X" {
			out = append(out, fmt.Sprintf("o%d=%s%s", j, st, extra))
		} else {
			out = append(out, fmt.Sprintf("o%d=%s:%s", j, st, dumpAll()))
		}
	}
	return strings.Join(out, " ")
}

func runSfe2(t *Toks) string {
	c := sfeReadCase(t, true)
	p := c.build2()
	var out []string
	dumpAll := func() string {
		var l []string
		for i := range p.Inputs {
			l = append(l, sfeDumpIn2(&p.Inputs[i]))
		}
		return strings.Join(l, ";")
	}
	for j := range c.ops {
		op := &c.ops[j]
		var err error
		extra := ""
		switch op.kind {
		case "S":
			s := &psetv2.Signer{Pset: p}
			err = s.SignInput(op.k, op.sig, op.pk, op.rs, op.ws)
		case "TK":
			s := &psetv2.Signer{Pset: p}
			err = s.SignTaprootInputKeySig(op.k, op.sig)
		case "TS":
			s := &psetv2.Signer{Pset: p}
			err = s.SignTaprootInputTapscriptSig(op.k, psetv2.TapScriptSig{
				PartialSig: psetv2.PartialSig{PubKey: op.pk, Signature: op.sig}, LeafHash: op.leaf})
		case "AI":
			err = (&psetv2.Updater{Pset: p}).AddInputs([]psetv2.InputArgs{sfeInputArgs(op)})
		case "AW":
			err = (&psetv2.Updater{Pset: p}).AddInWitnessUtxo(op.k, op.wu)
		case "H":
			var s string
			s, err = p.ToBase64()
			if err == nil {
				var q *psetv2.Pset
				q, err = psetv2.NewPsetFromBase64(s)
				if err == nil {
					p = q
				}
			}
		case "F":
			err = psetv2.Finalize(p, op.k)
		case "M":
			_, err = psetv2.MaybeFinalize(p, op.k)
		case "FA":
			err = psetv2.FinalizeAll(p)
		case "MA":
			err = psetv2.MaybeFinalizeAll(p)
		case "X":
			var tx, utx *transaction.Transaction
			utx, _ = p.UnsignedTx()
			tx, err = psetv2.Extract(p)
			if err == nil {
				extra = ":" + dumpTx(tx) + ":" + sfeSatLine(c, tx, utx)
			}
			extra += " u" + strconv.Itoa(j) + "=" + dumpTx(utx)
		default:
			panic("op")
		}
		st := sfeStatus(err)
		if sfeTouched(op) && op.k < len(p.Inputs) {
			out = append(out, fmt.Sprintf("o%d=%s:%s", j, st, sfeDumpIn2(&p.Inputs[op.k])))
		} else if sfeTouched(op) {
			out = append(out, fmt.Sprintf("o%d=%s:", j, st))
		} else if op.kind == "X" {
			out = append(out, fmt.Sprintf("o%d=%s%s", j, st, extra))
		} else {
			out = append(out, fmt.Sprintf("o%d=%s:%s", j, st, dumpAll()))
		}
	}
	return strings.Join(out, " ")
}

// "sat" token: per input, does the independent verifier accept the final script/witness
// of the extracted transaction. Only printed when the extracted transaction equals the
// signed-over one in every field other than scripts and witnesses (otherwise the digests
// are not the ones the oracle table was computed for): "na".
func sfeSatLine(c *sfeCase, tx, unsigned *transaction.Transaction) string {
	if sfeFieldDiff(tx, unsigned) != "" {
		return "na"
	}
	prev := make([]*transaction.TxOutput, len(tx.Inputs))
	for k := range tx.Inputs {
		prev[k] = c.prevout(k)
	}
	s := ""
	for k := range tx.Inputs {
		if k < len(prev) && prev[k] != nil && sfeVerifyInput(tx, k, prev) == "" {
			s += "1"
		} else {
			s += "0"
		}
	}
	return s
}

// ---------------------------------------------------------------- generator

const (
	tP2PKH = iota
	tP2SHMS
	tP2WPKH
	tP2SHP2WPKH
	tP2WSHMS
	tP2SHP2WSHMS
	tP2TRKEY
	tP2TRLEAF
)

var sfeGenesis = func() *chainhash.Hash {
	h := chainhash.Hash(sha256.Sum256([]byte("sfe-genesis")))
	return &h
}()

var sfeHashTypes = []uint32{1, 2, 3, 0x81, 0x82, 0x83, 0x41, 0x42, 0x43, 0xc1, 0xc2, 0xc3}

type sfePlanIn struct {
	tmpl       int
	privs      []*btcec.PrivateKey
	pubs       [][]byte
	m          int
	spk        []byte
	redeem     []byte
	wscript    []byte
	scriptCode []byte
	witness    bool
	prev       *transaction.TxOutput
	// taproot
	tapSigner *btcec.PrivateKey
	leafHash  *chainhash.Hash
	leaf      sfeLeaf
	internal  []byte
	merkle    []byte
	// signers that must be used (ambiguous key set), nil = any
	force []int
}

func sfeKey(r *Rng) *btcec.PrivateKey {
	for {
		b := r.Bytes(32)
		b[0] &= 0x7f
		k, _ := btcec.PrivKeyFromBytes(b)
		if !k.Key.IsZero() {
			return k
		}
	}
}

func sfePush(d []byte) []byte {
	s, err := txscript.NewScriptBuilder().AddData(d).Script()
	if err != nil {
		panic(err)
	}
	return s
}

func sfeMultisig(m int, pubs [][]byte) []byte {
	b := txscript.NewScriptBuilder().AddOp(byte(txscript.OP_1 - 1 + m))
	for _, k := range pubs {
		b.AddData(k)
	}
	b.AddOp(byte(txscript.OP_1 - 1 + len(pubs))).AddOp(txscript.OP_CHECKMULTISIG)
	s, err := b.Script()
	if err != nil {
		panic(err)
	}
	return s
}
func sfeP2PKH(h []byte) []byte {
	return append(append([]byte{0x76, 0xa9, 0x14}, h...), 0x88, 0xac)
}
func sfeP2SH(script []byte) []byte {
	return append(append([]byte{0xa9, 0x14}, btcutil.Hash160(script)...), 0x87)
}
func sfeP2WSH(script []byte) []byte {
	h := sha256.Sum256(script)
	return append([]byte{0x00, 0x20}, h[:]...)
}

func sfeAsset(r *Rng) []byte { return append([]byte{1}, r.Bytes(32)...) }
func sfeValue(v uint64) []byte {
	b, _ := elementsutil.ValueToBytes(v)
	return b
}

func sfePlanInput(r *Rng, tmpl int, small bool) *sfePlanIn {
	pl := &sfePlanIn{tmpl: tmpl}
	n, m := 1, 1
	multisig := tmpl == tP2SHMS || tmpl == tP2WSHMS || tmpl == tP2SHP2WSHMS
	if multisig {
		if small {
			n = 1 + r.Intn(3)
		} else {
			n = 1 + r.Intn(5)
		}
		m = 1 + r.Intn(n)
		if m > 3 {
			m = 3
		}
	}
	ambiguous := multisig && r.Chance(3)
	if ambiguous {
		n, m = 3, 2
	}
	pl.m = m
	uncompressed := (tmpl == tP2PKH || tmpl == tP2SHMS) && r.Chance(25)
	hybrid := uncompressed && r.Chance(35)
	for i := 0; i < n; i++ {
		k := sfeKey(r)
		pl.privs = append(pl.privs, k)
		if uncompressed {
			pub := k.PubKey().SerializeUncompressed()
			if hybrid {
				pub[0] = 0x06 | (pub[64] & 1) // hybrid encoding: 06 / 07 by the parity of y
			}
			pl.pubs = append(pl.pubs, pub)
		} else {
			pl.pubs = append(pl.pubs, k.PubKey().SerializeCompressed())
		}
	}
	if ambiguous && !uncompressed {
		// key 3 ends in 0x21 and key 1 is 02 || first 32 bytes of key 3: the bytes of key 3 then
		// occur inside <key1> <push opcode of key2>, before key 2 (bytes.Index finds them there)
		for pl.pubs[2][32] != 0x21 {
			pl.privs[2] = sfeKey(r)
			pl.pubs[2] = pl.privs[2].PubKey().SerializeCompressed()
		}
		pl.pubs[0] = append([]byte{0x02}, pl.pubs[2][:32]...)
		pl.force = []int{1, 2}
	}
	switch tmpl {
	case tP2PKH:
		pl.spk = sfeP2PKH(btcutil.Hash160(pl.pubs[0]))
		pl.scriptCode = pl.spk
	case tP2SHMS:
		pl.redeem = sfeMultisig(m, pl.pubs)
		pl.spk = sfeP2SH(pl.redeem)
		pl.scriptCode = pl.redeem
	case tP2WPKH:
		h := btcutil.Hash160(pl.pubs[0])
		pl.spk = append([]byte{0x00, 0x14}, h...)
		pl.scriptCode = sfeP2PKH(h)
		pl.witness = true
	case tP2SHP2WPKH:
		h := btcutil.Hash160(pl.pubs[0])
		pl.redeem = append([]byte{0x00, 0x14}, h...)
		pl.spk = sfeP2SH(pl.redeem)
		pl.scriptCode = sfeP2PKH(h)
		pl.witness = true
	case tP2WSHMS:
		pl.wscript = sfeMultisig(m, pl.pubs)
		pl.spk = sfeP2WSH(pl.wscript)
		pl.scriptCode = pl.wscript
		pl.witness = true
	case tP2SHP2WSHMS:
		pl.wscript = sfeMultisig(m, pl.pubs)
		pl.redeem = sfeP2WSH(pl.wscript)
		pl.spk = sfeP2SH(pl.redeem)
		pl.scriptCode = pl.wscript
		pl.witness = true
	case tP2TRKEY:
		internal := pl.privs[0]
		pl.internal = schnorr.SerializePubKey(internal.PubKey())
		q := taproot.ComputeTaprootKeyNoScript(internal.PubKey())
		pl.spk = append([]byte{0x51, 0x20}, schnorr.SerializePubKey(q)...)
		cp, _ := btcec.PrivKeyFromBytes(internal.Serialize()) // TweakTaprootPrivKey works in place
		pl.tapSigner = taproot.TweakTaprootPrivKey(cp, []byte{})
		pl.witness = true
	case tP2TRLEAF:
		internal := sfeKey(r)
		leafKey := pl.privs[0]
		script := append(append([]byte{0x20}, schnorr.SerializePubKey(leafKey.PubKey())...), 0xac)
		tree := taproot.AssembleTaprootScriptTree(taproot.NewBaseTapElementsLeaf(script))
		proof := tree.LeafMerkleProofs[0]
		root := tree.RootNode.TapHash()
		q := taproot.ComputeTaprootOutputKey(internal.PubKey(), root[:])
		pl.spk = append([]byte{0x51, 0x20}, schnorr.SerializePubKey(q)...)
		tls := psetv2.NewTapLeafScript(proof, internal.PubKey())
		cb, err := tls.ControlBlock.ToBytes()
		if err != nil {
			panic(err)
		}
		h := tls.TapHash()
		pl.leafHash = &h
		pl.leaf = sfeLeaf{script, byte(tls.LeafVersion), cb, taproot.VerifyTaprootLeafCommitment(&tls.ControlBlock, pl.spk[2:], script) == nil}
		pl.internal = schnorr.SerializePubKey(internal.PubKey())
		pl.merkle = root[:]
		pl.tapSigner = leafKey
		pl.witness = true
	}
	pl.prev = &transaction.TxOutput{Asset: sfeAsset(r), Value: sfeValue(uint64(1000 + r.Intn(1000000))), Script: pl.spk, Nonce: []byte{0}}
	return pl
}

func sfeSeq(r *Rng) uint32 {
	switch r.Intn(5) {
	case 0:
		return 0xfffffffe
	case 1:
		return uint32(r.U64())
	case 2:
		return 1 + uint32(r.Intn(100))
	}
	return 0xffffffff
}

func sfePrevTx(r *Rng, out *transaction.TxOutput) (*transaction.Transaction, uint32) {
	tx := transaction.NewTx(2)
	in := transaction.NewTxInput(r.Bytes(32), uint32(r.Intn(4)))
	in.Sequence = sfeSeq(r)
	tx.AddInput(in)
	n := 1 + r.Intn(3)
	pos := r.Intn(n)
	for i := 0; i < n; i++ {
		if i == pos {
			tx.AddOutput(&transaction.TxOutput{Asset: out.Asset, Value: out.Value, Script: out.Script, Nonce: []byte{0}})
		} else {
			tx.AddOutput(transaction.NewTxOutput(sfeAsset(r), sfeValue(uint64(r.Intn(100000))), append([]byte{0x00, 0x14}, r.Bytes(20)...)))
		}
	}
	tx.Locktime = uint32(r.Intn(3))
	return tx, uint32(pos)
}

// digest of input k of tx for the plan's template, by the implementation's own functions
func sfeDigest(tx *transaction.Transaction, k int, pl *sfePlanIn, prevs []*transaction.TxOutput, ht uint32) []byte {
	switch {
	case pl.tmpl == tP2TRKEY || pl.tmpl == tP2TRLEAF:
		var scripts, assets, values [][]byte
		for _, p := range prevs {
			scripts = append(scripts, p.Script)
			assets = append(assets, p.Asset)
			values = append(values, p.Value)
		}
		h := tx.HashForWitnessV1(k, scripts, assets, values, txscript.SigHashType(ht), sfeGenesis, pl.leafHash, nil)
		return h[:]
	case pl.witness:
		h := tx.HashForWitnessV0(k, pl.scriptCode, pl.prev.Value, txscript.SigHashType(ht))
		return h[:]
	default:
		h, err := tx.HashForSignature(k, pl.scriptCode, txscript.SigHashType(ht))
		if err != nil {
			panic(err)
		}
		return h[:]
	}
}

func sfeFmtOK(pk, sig []byte) bool {
	if _, err := btcec.ParsePubKey(pk); err != nil {
		return false
	}
	if _, err := ecdsa.ParseDERSignature(sig); err != nil {
		return false
	}
	return true
}

// every ordered choice of m out of n indices
func sfeOrderedSubsets(n, m int) [][]int {
	var res [][]int
	var rec func(cur []int)
	rec = func(cur []int) {
		if len(cur) == m {
			res = append(res, append([]int{}, cur...))
			return
		}
		for j := 0; j < n; j++ {
			used := false
			for _, c := range cur {
				used = used || c == j
			}
			if !used {
				rec(append(cur, j))
			}
		}
	}
	rec(nil)
	return res
}

func sfeGenCase(r *Rng, v2 bool, seqno int) *sfeCase {
	c := &sfeCase{v2: v2}
	nin := 1 + r.Intn(3)
	small := r.Chance(50)
	// refusal modes: 0 none, 1 too few signatures, 2 contradictory hash type, 3 one extra signature
	mode := 0
	if r.Chance(30) {
		mode = 1 + r.Intn(3)
	}
	hop := r.Chance(30)
	plain := hop // packets that go through a hop carry no issuance / peg-in / locktime extras
	ntmpl := 6
	if v2 {
		ntmpl = 8
	}
	var plans []*sfePlanIn
	for i := 0; i < nin; i++ {
		plans = append(plans, sfePlanInput(r, r.Intn(ntmpl), small))
	}
	// unsigned transaction (v0) / inputs+outputs (v2)
	tx := transaction.NewTx(2)
	tx.Locktime = uint32(r.Pick(0, 0, 1, 500000, 1700000000))
	prevs := make([]*transaction.TxOutput, nin)
	for i, pl := range plans {
		prevs[i] = pl.prev
		in := sfeIn{}
		segwitAsNonWitness := pl.witness && (pl.tmpl < tP2TRKEY && r.Chance(35) || v2 && r.Chance(12))
		var hash []byte
		var idx uint32
		if !pl.witness || segwitAsNonWitness {
			ptx, pos := sfePrevTx(r, pl.prev)
			in.utxoKind, in.nw = 1, ptx
			h := ptx.TxHash()
			hash, idx = h[:], pos
			if r.Chance(3) {
				hash = r.Bytes(32) // wrong previous transaction
			}
			if r.Chance(1) {
				idx = uint32(len(ptx.Outputs)) + uint32(r.Intn(2)) // index out of range
			}
			if v2 && pl.witness && r.Chance(45) {
				// psetv2 accepts an input that carries the previous transaction and the spent output
				in.utxoKind = 3
				in.wu = &transaction.TxOutput{Asset: pl.prev.Asset, Value: pl.prev.Value, Script: pl.prev.Script, Nonce: []byte{0}}
			}
		} else {
			in.utxoKind = 2
			in.wu = &transaction.TxOutput{Asset: pl.prev.Asset, Value: pl.prev.Value, Script: pl.prev.Script, Nonce: []byte{0}}
			hash, idx = r.Bytes(32), uint32(r.Intn(5))
		}
		if r.Chance(1) {
			in.utxoKind, in.nw, in.wu = 0, nil, nil
		}
		txin := transaction.NewTxInput(hash, idx)
		txin.Sequence = sfeSeq(r)
		if v2 && r.Chance(15) {
			txin.Sequence = 0
		}
		tx.AddInput(txin)
		in.txid, in.index, in.seq = hash, idx, txin.Sequence
		c.ins = append(c.ins, in)
	}
	nout := 1 + r.Intn(3)
	for i := 0; i < nout; i++ {
		script := append([]byte{0x00, 0x14}, r.Bytes(20)...)
		if i == nout-1 {
			script = []byte{}
		}
		o := transaction.NewTxOutput(sfeAsset(r), sfeValue(uint64(1+r.Intn(100000))), script)
		tx.AddOutput(o)
		c.outs = append(c.outs, sfeOut{value: uint64(1 + r.Intn(100000)), asset: o.Asset[1:], script: script})
	}
	var signedOver *transaction.Transaction
	if !v2 {
		c.tx = tx
		signedOver = tx
	} else {
		c.txversion = 2
		if r.Chance(30) {
			v := uint32(r.Pick(1, 400000, 1600000000))
			c.fallback = &v
		}
		for i := range c.outs {
			// make the v2 outputs reproduce the values of tx
			v, _ := elementsutil.ValueFromBytes(tx.Outputs[i].Value)
			c.outs[i].value = v
		}
		if !plain {
			for i := range c.ins {
				in := &c.ins[i]
				switch r.Intn(12) {
				case 0: // issuance as the updater writes it
					in.issValue, in.issKeys = uint64(1+r.Intn(1000)), uint64(r.Intn(2))
					in.issNonce, in.issEnt = make([]byte, 32), r.Bytes(32)
				case 1: // token-only reissuance-like: entropy set, no asset amount
					in.issKeys = uint64(1 + r.Intn(5))
					in.issNonce, in.issEnt = r.Bytes(32), r.Bytes(32)
				case 2: // amount set, entropy missing
					in.issValue = uint64(1 + r.Intn(1000))
				case 3:
					in.pegwitSet = true
					in.pegwit = [][]byte{r.Bytes(8), r.Bytes(33)}
				case 4:
					in.tlock = uint32(500000000 + r.Intn(1000))
				case 5:
					in.hlock = uint32(1 + r.Intn(1000))
				}
			}
			if r.Chance(6) {
				c.outs[0].blindpk = sfeKey(r).PubKey().SerializeCompressed()
				c.outs[0].blinder = 0
			}
		}
		for i, pl := range plans {
			if pl.tmpl == tP2TRKEY && r.Chance(50) {
				c.ins[i].tapInternal = pl.internal
			}
			if pl.tmpl == tP2TRLEAF {
				c.ins[i].tapLeafs = []sfeLeaf{pl.leaf}
				if r.Chance(50) {
					c.ins[i].tapInternal, c.ins[i].tapMerkle = pl.internal, pl.merkle
				}
			}
		}
		p := c.build2()
		var err error
		signedOver, err = p.UnsignedTx()
		if err != nil {
			panic(err)
		}
	}
	// signing operations
	var signOps []sfeOp
	for i, pl := range plans {
		in := &c.ins[i]
		ht := sfeHashTypes[r.Intn(len(sfeHashTypes))]
		if r.Chance(45) {
			ht = 1
		}
		taproot := pl.tmpl == tP2TRKEY || pl.tmpl == tP2TRLEAF
		if taproot && r.Chance(40) {
			ht = 0
		}
		in.sht = ht
		if ht == 1 && r.Chance(50) {
			in.sht = 0
		}
		// taproot: walk through declared type x type the signature is made with, both from
		// {absent/DEFAULT, ALL, NONE, SINGLE, ALL|ACP, NONE|ACP, SINGLE|ACP}; DEFAULT is a 64-byte signature
		tapSigned := -1
		if taproot && r.Chance(60) {
			types := []uint32{0, 1, 2, 3, 0x81, 0x82, 0x83}
			cell := (seqno*3 + i) % (len(types) * len(types))
			in.sht = types[cell/len(types)]
			tapSigned = int(types[cell%len(types)])
			if r.Chance(35) {
				// the usual signer output, a 64-byte DEFAULT signature, under a declared type that is not ALL
				in.sht = types[2+r.Intn(5)]
				tapSigned = 0
			}
			ht = in.sht
		}
		preload := r.Chance(50)
		if preload {
			in.rs, in.ws = pl.redeem, pl.wscript
			if in.utxoKind == 1 && pl.wscript != nil {
				// a witness script next to a non-witness utxo is not sane: pass it when signing instead
				in.ws = nil
			}
		}
		nsig := pl.m
		bad := mode != 0 && r.Chance(70)
		if bad && mode == 1 && pl.tmpl != tP2TRLEAF {
			nsig = r.Intn(pl.m) // a tapscript input instead gets its signature for some other leaf
		}
		if bad && mode == 3 && len(pl.privs) > pl.m {
			nsig = pl.m + 1
		}
		order := make([]int, len(pl.privs))
		for j := range order {
			order[j] = j
		}
		for j := len(order) - 1; j > 0; j-- {
			q := r.Intn(j + 1)
			order[j], order[q] = order[q], order[j]
		}
		order = order[:nsig]
		if pl.force != nil {
			order = append([]int{}, pl.force...)
			if r.Bool() {
				order[0], order[1] = order[1], order[0]
			}
			nsig = 2
		} else if small && len(pl.privs) <= 3 && nsig == pl.m {
			// small key sets: walk through every ordered choice of m signers as the run proceeds
			all := sfeOrderedSubsets(len(pl.privs), pl.m)
			order = all[(seqno+i)%len(all)]
		}
		wrongAt := -1
		if bad && mode == 2 && nsig > 0 {
			wrongAt = r.Intn(nsig)
		}
		for pos, ki := range order {
			sht := ht
			if tapSigned >= 0 {
				sht = uint32(tapSigned)
			} else if pos == wrongAt {
				switch r.Intn(3) {
				case 0:
					sht = ht ^ 0x80
				case 1:
					sht = ht ^ 0x40
				default:
					sht = sfeHashTypes[r.Intn(len(sfeHashTypes))]
					if sht == ht {
						sht = ht ^ 0x80
					}
				}
			}
			digest := sfeDigest(signedOver, i, pl, prevs, sht)
			invalid := r.Chance(4)
			if invalid {
				digest = r.Bytes(32)
			}
			var op sfeOp
			if taproot {
				s, err := schnorr.Sign(pl.tapSigner, digest)
				if err != nil {
					panic(err)
				}
				sig := s.Serialize()
				if sht != 0 {
					sig = append(sig, byte(sht))
				}
				pub := schnorr.SerializePubKey(pl.tapSigner.PubKey())
				if pl.tmpl == tP2TRKEY {
					op = sfeOp{kind: "TK", k: i, sig: sig}
					pub = pl.spk[2:]
				} else {
					lh := pl.leafHash[:]
					if bad && mode == 1 {
						lh = r.Bytes(32) // a signature for some other leaf
					}
					if r.Chance(3) {
						lh = r.Bytes(31) // not a leaf hash
					}
					op = sfeOp{kind: "TS", k: i, pk: pub, sig: sig, leaf: lh}
					if r.Chance(8) {
						signOps = append(signOps, op) // the same (key, leaf) twice
					}
				}
				c.orc = append(c.orc, sfeOrc{i, pub, sig, !invalid})
			} else {
				sig := append(ecdsa.Sign(pl.privs[ki], digest).Serialize(), byte(sht))
				pk := pl.pubs[ki]
				op = sfeOp{kind: "S", k: i, sig: sig, pk: pk}
				if r.Chance(2) {
					op.sig = op.sig[:len(op.sig)-3] // malformed DER
				}
				if r.Chance(2) {
					op.pk = r.Bytes(33)
				}
				op.fmtOK = sfeFmtOK(op.pk, op.sig)
				if !preload || (in.utxoKind == 1 && pl.wscript != nil) || r.Chance(15) {
					op.rs, op.ws = pl.redeem, pl.wscript
				}
				if r.Chance(2) {
					op.rs = []byte{}
				}
				if r.Chance(2) {
					op.ws = r.Bytes(10)
				}
				c.orc = append(c.orc, sfeOrc{i, op.pk, op.sig, !invalid && bytes.Equal(op.sig, sig) && bytes.Equal(op.pk, pk)})
				if r.Chance(4) {
					signOps = append(signOps, op) // duplicate key
				}
			}
			signOps = append(signOps, op)
		}
	}
	// interleave the signing operations of different inputs, keeping each input's own order
	if r.Chance(60) {
		per := map[int][]sfeOp{}
		for _, op := range signOps {
			per[op.k] = append(per[op.k], op)
		}
		var merged []sfeOp
		for len(merged) < len(signOps) {
			k := r.Intn(nin)
			if len(per[k]) > 0 {
				merged = append(merged, per[k][0])
				per[k] = per[k][1:]
			}
		}
		signOps = merged
	}
	c.ops = append(c.ops, signOps...)
	if hop {
		at := r.Intn(len(c.ops) + 1)
		ops := append([]sfeOp{}, c.ops[:at]...)
		ops = append(ops, sfeOp{kind: "H"})
		c.ops = append(ops, c.ops[at:]...)
	}
	switch r.Intn(5) {
	case 0:
		c.ops = append(c.ops, sfeOp{kind: "FA"})
	case 1:
		c.ops = append(c.ops, sfeOp{kind: "MA"})
	case 2:
		for i := range plans {
			c.ops = append(c.ops, sfeOp{kind: "M", k: i})
		}
	default:
		for i := range plans {
			c.ops = append(c.ops, sfeOp{kind: "F", k: i})
		}
		if r.Chance(10) {
			c.ops = append(c.ops, sfeOp{kind: "F", k: r.Intn(nin)}) // finalize twice
		}
	}
	if hop && r.Chance(40) {
		c.ops = append(c.ops, sfeOp{kind: "H"})
	}
	if r.Chance(6) {
		c.ops = append(c.ops, sfeOp{kind: "S", k: 0, sig: []byte{0x30, 0x06, 0x02, 0x01, 0x01, 0x02, 0x01, 0x01, 0x01}, pk: plans[0].pubs[0], fmtOK: true}) // sign after finalize
	}
	c.ops = append(c.ops, sfeOp{kind: "X"})
	return c
}

// Scenario: inputs are added to a packet that already carries signatures (psetv2 only).
// Some input is signed with an ANYONECANPAY type, then Updater.AddInputs brings one more input,
// with or without a lock-time requirement; the rest is signed over the transaction as it is
// then, everything is finalized and extracted. The operations are replayed on the real code
// while the case is generated, so that every signature is made over Pset.UnsignedTx() as it
// is at that moment (oracle bit: valid for the transaction being signed at signing time).
func sfeGenAddInput(r *Rng) *sfeCase {
	c := &sfeCase{v2: true, txversion: 2}
	tmpls := []int{tP2WPKH, tP2SHP2WPKH, tP2WSHMS, tP2SHP2WSHMS}
	nin := 2 + r.Intn(2)
	var plans []*sfePlanIn
	mk := func() *sfePlanIn { return sfePlanInput(r, tmpls[r.Intn(len(tmpls))], true) }
	for i := 0; i < nin; i++ {
		pl := mk()
		plans = append(plans, pl)
		in := sfeIn{utxoKind: 2, txid: r.Bytes(32), index: uint32(r.Intn(5)), seq: 0xfffffffe}
		in.wu = &transaction.TxOutput{Asset: pl.prev.Asset, Value: pl.prev.Value, Script: pl.prev.Script, Nonce: []byte{0}}
		in.rs, in.ws = pl.redeem, pl.wscript
		in.sht = 0x81
		c.ins = append(c.ins, in)
	}
	if r.Chance(25) {
		c.ins[r.Intn(nin)].hlock = uint32(10 + r.Intn(50))
	}
	if r.Chance(50) {
		v := uint32(r.Pick(0, 7, 400000))
		c.fallback = &v
	}
	for i := 0; i < 1+r.Intn(2); i++ {
		c.outs = append(c.outs, sfeOut{value: uint64(1 + r.Intn(100000)), asset: r.Bytes(32), script: append([]byte{0x00, 0x14}, r.Bytes(20)...)})
	}
	p := c.build2()
	signAll := func(k int, pl *sfePlanIn, rs, ws []byte, ht uint32) {
		prevs := make([]*transaction.TxOutput, len(p.Inputs))
		order := sfeOrderedSubsets(len(pl.privs), pl.m)
		chosen := order[r.Intn(len(order))]
		if pl.force != nil {
			chosen = pl.force // the key set built around a key nobody holds: only the real keys sign
		}
		for _, ki := range chosen {
			utx, err := p.UnsignedTx()
			if err != nil {
				panic(err)
			}
			sig := []byte{0x30, 0x06, 0x02, 0x01, 0x01, 0x02, 0x01, 0x01, byte(ht)}
			if k < len(utx.Inputs) {
				sig = append(ecdsa.Sign(pl.privs[ki], sfeDigest(utx, k, pl, prevs, ht)).Serialize(), byte(ht))
			}
			op := sfeOp{kind: "S", k: k, sig: sig, pk: pl.pubs[ki], fmtOK: sfeFmtOK(pl.pubs[ki], sig), rs: rs, ws: ws}
			c.orc = append(c.orc, sfeOrc{k, op.pk, op.sig, k < len(utx.Inputs)})
			c.ops = append(c.ops, op)
			_ = (&psetv2.Signer{Pset: p}).SignInput(k, op.sig, op.pk, rs, ws)
		}
	}
	// which inputs are signed before the new one arrives: none, the last one only, or an
	// earlier one while the last one stays unsigned
	signed := map[int]bool{}
	switch r.Intn(4) {
	case 0:
	case 1:
		signAll(nin-1, plans[nin-1], nil, nil, 0x81)
		signed[nin-1] = true
	default:
		k := r.Intn(nin - 1)
		signAll(k, plans[k], nil, nil, 0x81)
		signed[k] = true
	}
	npl := mk()
	ai := sfeOp{kind: "AI", txid: r.Bytes(32), index: uint32(r.Intn(5)), seq: uint32(r.Pick(0, 0xfffffffe, 5))}
	switch r.Intn(4) {
	case 0:
	case 1:
		ai.tlock = uint32(500000000 + r.Intn(1000))
	default:
		ai.hlock = uint32(100 + r.Intn(1000))
	}
	c.ops = append(c.ops, ai)
	_ = (&psetv2.Updater{Pset: p}).AddInputs([]psetv2.InputArgs{sfeInputArgs(&ai)})
	aw := sfeOp{kind: "AW", k: nin, wu: &transaction.TxOutput{Asset: npl.prev.Asset, Value: npl.prev.Value, Script: npl.prev.Script, Nonce: []byte{0}}}
	c.ops = append(c.ops, aw)
	_ = (&psetv2.Updater{Pset: p}).AddInWitnessUtxo(nin, aw.wu)
	// the new input gets its scripts when it is signed
	plans = append(plans, npl)
	for k := 0; k <= nin; k++ {
		if signed[k] {
			continue
		}
		if k == nin {
			signAll(k, plans[k], npl.redeem, npl.wscript, 1) // the added input declares no type: SIGHASH_ALL
		} else {
			signAll(k, plans[k], nil, nil, 0x81)
		}
	}
	c.ops = append(c.ops, sfeOp{kind: "FA"}, sfeOp{kind: "X"})
	return c
}

func genSfe0(r *Rng, n int, w *bufio.Writer) {
	for i := 0; i < n; i++ {
		fmt.Fprintln(w, sfeGenCase(r, false, i).line())
	}
}
func genSfe2(r *Rng, n int, w *bufio.Writer) {
	for i := 0; i < n; i++ {
		if i%7 == 3 {
			fmt.Fprintln(w, sfeGenAddInput(r).line())
			continue
		}
		fmt.Fprintln(w, sfeGenCase(r, true, i).line())
	}
}

func init() {
	gens["sfe0"] = genSfe0
	gens["sfe2"] = genSfe2
	runs["sfe0"] = runSfe0
	runs["sfe2"] = runSfe2
}
