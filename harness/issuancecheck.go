package main

import (
	"bytes"
	"crypto/sha256"
	"encoding"
	"encoding/binary"
	"encoding/json"
	"fmt"
	"strconv"
	"strings"

	"github.com/vulpemventures/go-elements/psetv2"
	"github.com/vulpemventures/go-elements/transaction"
)

// S for C13: the Elements derivation written independently of transaction/issuance.go
// (crypto/sha256 only; the mid-state is read out of the marshalled hash state after
// exactly one block), and the updater clauses stated on the real updaters.

// issSha256Midstate returns the chaining value after compressing one 64-byte block.
func issSha256Midstate(block []byte) []byte {
	if len(block) != 64 {
		panic("midstate of a non-block")
	}
	h := sha256.New()
	h.Write(block)
	st, err := h.(encoding.BinaryMarshaler).MarshalBinary()
	if err != nil {
		panic(err)
	}
	// "sha\x03" || h[0..7] big-endian || buffered block || length
	return append([]byte{}, st[4:36]...)
}
func issDsha(b []byte) []byte {
	a := sha256.Sum256(b)
	c := sha256.Sum256(a[:])
	return c[:]
}

func elEntropy(hash []byte, index uint32, chash []byte) []byte {
	op := append(append([]byte{}, hash...), 0, 0, 0, 0)
	binary.LittleEndian.PutUint32(op[32:], index)
	return issSha256Midstate(append(issDsha(op), chash...))
}
func elAsset(entropy []byte) []byte {
	return issSha256Midstate(append(append([]byte{}, entropy...), make([]byte, 32)...))
}
func elToken(entropy []byte, confidential bool) []byte {
	tag := make([]byte, 32)
	tag[0] = 1
	if confidential {
		tag[0] = 2
	}
	return issSha256Midstate(append(append([]byte{}, entropy...), tag...))
}

func elAmount(v uint64) []byte {
	if v == 0 {
		return []byte{0}
	}
	b := make([]byte, 9)
	b[0] = 1
	binary.BigEndian.PutUint64(b[1:], v)
	return b
}

func issJsonSafe(s string) bool {
	for i := 0; i < len(s); i++ {
		c := s[i]
		if c < 32 || c > 126 || c == '"' || c == '\\' || c == '<' || c == '>' || c == '&' {
			return false
		}
	}
	return true
}
func issContractInDomain(c *transaction.IssuanceContract) bool {
	return issJsonSafe(c.Name) && issJsonSafe(c.Ticker) && issJsonSafe(c.PubKey) && issJsonSafe(c.Entity.Domain) &&
		uint64(c.Version) < 1<<53 && uint64(c.Precision) < 1<<53
}

// the key-sorted JSON written by hand
func elContractJSON(c *transaction.IssuanceContract) []byte {
	return []byte(`{"entity":{"domain":"` + c.Entity.Domain + `"},"issuer_pubkey":"` + c.PubKey + `","name":"` + c.Name +
		`","precision":` + strconv.FormatUint(uint64(c.Precision), 10) + `,"ticker":"` + c.Ticker +
		`","version":` + strconv.FormatUint(uint64(c.Version), 10) + `}`)
}
// the canonical document by its definition (marshal, decode into interface{}, marshal), on a private copy of the
// contract type so that nothing of transaction/issuance.go is involved
type elContractDoc struct {
	Name      string `json:"name"`
	Ticker    string `json:"ticker"`
	Version   uint   `json:"version"`
	Precision uint   `json:"precision"`
	PubKey    string `json:"issuer_pubkey"`
	Entity    struct {
		Domain string `json:"domain"`
	} `json:"entity"`
}

func elCanonicalContractHash(c *transaction.IssuanceContract) []byte {
	if c == nil {
		return make([]byte, 32)
	}
	d := elContractDoc{Name: c.Name, Ticker: c.Ticker, Version: c.Version, Precision: c.Precision, PubKey: c.PubKey}
	d.Entity.Domain = c.Entity.Domain
	first, err := json.Marshal(d)
	if err != nil {
		panic(err)
	}
	var generic interface{}
	if err := json.Unmarshal(first, &generic); err != nil {
		panic(err)
	}
	second, err := json.Marshal(generic)
	if err != nil {
		panic(err)
	}
	h := sha256.Sum256(second)
	return h[:]
}

func elContractHash(c *transaction.IssuanceContract) []byte {
	if c == nil {
		return make([]byte, 32)
	}
	h := sha256.Sum256(elContractJSON(c))
	return h[:]
}

func checkC13IssID(t *Toks) string {
	hash := t.IssRaw()
	index := uint32(t.U64())
	chash := t.IssRaw()
	entropy := t.IssRaw()
	flag := uint(t.U64())
	t.IssRaw()
	t.IssRaw()
	verdict := "OK"
	if len(hash) == 32 {
		e, err := transaction.ComputeEntropy(append([]byte{}, hash...), index, append([]byte{}, chash...))
		if len(chash) == 32 {
			if err != nil {
				return fail("ComputeEntropy", "error-in-domain")
			}
			if !bytes.Equal(e, elEntropy(hash, index, chash)) {
				return fail("ComputeEntropy", "differs-from-elements-derivation")
			}
		} else if err == nil {
			// not an Elements contract hash (uint256): must be refused (repaired by 09b8e78)
			verdict = fail("ComputeEntropy.contract-hash-length", "accepted")
		}
	}
	if len(entropy) == 32 {
		a, err := transaction.ComputeAsset(append([]byte{}, entropy...))
		if err != nil || !bytes.Equal(a, elAsset(entropy)) {
			return fail("ComputeAsset", "differs-from-elements-derivation")
		}
		k0, err0 := transaction.ComputeReissuanceToken(append([]byte{}, entropy...), 0)
		k1, err1 := transaction.ComputeReissuanceToken(append([]byte{}, entropy...), 1)
		if err0 != nil || err1 != nil || !bytes.Equal(k0, elToken(entropy, false)) || !bytes.Equal(k1, elToken(entropy, true)) {
			return fail("ComputeReissuanceToken", "differs-from-elements-derivation")
		}
		if bytes.Equal(a, k0) || bytes.Equal(a, k1) || bytes.Equal(k0, k1) {
			return fail("ids-distinct", "collision")
		}
		if flag > 1 {
			if _, err := transaction.ComputeReissuanceToken(append([]byte{}, entropy...), flag); err == nil {
				return fail("ComputeReissuanceToken", "accepts-flag-above-1")
			}
		}
		// the Generate* methods are the same functions of the stored entropy
		ie := transaction.NewTxIssuanceFromEntropy(append([]byte{}, entropy...))
		ga, _ := ie.GenerateAsset()
		gk, _ := ie.GenerateReissuanceToken(1)
		if !bytes.Equal(ga, a) || !bytes.Equal(gk, k1) {
			return fail("GenerateAsset/GenerateReissuanceToken", "differ-from-Compute")
		}
	}
	return verdict
}

// fastsha256.MidState256 is the compression of the first block (what the ids are built on)
func checkC13IssMid(t *Toks) string {
	b := t.IssRaw()
	if len(b) != 64 {
		return "SKIP not-one-block"
	}
	if "mid="+hx(issSha256Midstate(b)) != runIssMid(&Toks{l: []string{hx(b)}, line: t.line}) {
		return fail("MidState256", "differs-from-crypto/sha256-state")
	}
	return "OK"
}

func checkC13IssCon(t *Toks) string {
	asset, token, prec := t.U64(), t.U64(), uint(t.U64())
	c := issReadContract(t)
	inDomain := c == nil || issContractInDomain(c)
	ie, err := transaction.NewTxIssuance(asset, token, prec, c)
	wantErr := prec > 8 || (c != nil && c.Precision != prec)
	if wantErr {
		if err == nil {
			return fail("NewTxIssuance", "accepts-bad-precision")
		}
		return "OK rejected"
	}
	if err != nil {
		return fail("NewTxIssuance", "error-in-domain")
	}
	// the contract hash is the SHA-256 of the canonical document: the contract's JSON decoded into a generic value and
	// encoded again (keys sorted, numbers through float64, strings re-escaped), for every contract
	if !bytes.Equal(ie.ContractHash, elCanonicalContractHash(c)) {
		d := "differs-from-canonical-document"
		if c != nil && uint64(c.Version) >= 1<<53 {
			d += "/version-above-2^53"
		} else if !inDomain {
			d += "/escaped-string"
		}
		return fail("NewTxIssuance.contract-hash", d)
	}
	// ... which on the modelled alphabet and number range is the key-sorted document written by hand
	if inDomain && !bytes.Equal(ie.ContractHash, elContractHash(c)) {
		return fail("NewTxIssuance.contract-hash", "differs-from-sorted-json-hash")
	}
	if !bytes.Equal(ie.AssetAmount, elAmount(asset)) || !bytes.Equal(ie.TokenAmount, elAmount(token)) {
		return fail("NewTxIssuance.amounts", "encoding")
	}
	if !bytes.Equal(ie.AssetBlindingNonce, make([]byte, 32)) {
		return fail("NewTxIssuance.nonce", "not-32-zero-bytes")
	}
	if c != nil && inDomain {
		// the hash does not depend on the order in which the contract's JSON lists its keys
		fields := []string{
			`"name":` + strconv.Quote(c.Name), `"ticker":` + strconv.Quote(c.Ticker),
			`"version":` + strconv.FormatUint(uint64(c.Version), 10), `"precision":` + strconv.FormatUint(uint64(c.Precision), 10),
			`"issuer_pubkey":` + strconv.Quote(c.PubKey), `"entity":{"domain":` + strconv.Quote(c.Entity.Domain) + `}`,
		}
		rot := int(asset%6) + 1
		perm := append(append([]string{}, fields[rot%6:]...), fields[:rot%6]...)
		if token%2 == 1 {
			for i, j := 0, len(perm)-1; i < j; i, j = i+1, j-1 {
				perm[i], perm[j] = perm[j], perm[i]
			}
		}
		var c2 transaction.IssuanceContract
		if err := json.Unmarshal([]byte("{"+strings.Join(perm, ",")+"}"), &c2); err != nil {
			return fail("contract-json", "unmarshal")
		}
		ie2, err := transaction.NewTxIssuance(asset, token, prec, &c2)
		if err != nil || !bytes.Equal(ie2.ContractHash, ie.ContractHash) {
			return fail("NewTxIssuance.contract-hash", "depends-on-key-order")
		}
	}
	return "OK"
}

func issRev(b []byte) []byte {
	c := make([]byte, len(b))
	for i := range b {
		c[i] = b[len(b)-1-i]
	}
	return c
}

func issArgsInDomain(a issArgs) bool {
	return a.contract == nil || issContractInDomain(a.contract)
}

// pset v0
func checkC13IssV0(t *Toks) string { return issV0StepCheck(readV0Case(t)) }

// one call on a v0 updater: makes the call and states the clauses of the property on its result
func issV0StepCheck(c *v0Case) string {
	tx := c.p.UnsignedTx
	before := len(tx.Outputs)
	target := -1
	for i, in := range tx.Inputs {
		if in.Issuance == nil {
			target = i
			break
		}
	}
	ninBefore := len(tx.Inputs)
	if c.op == "add" && !issArgsInDomain(c.args) {
		return "SKIP contract-outside-modelled-alphabet"
	}
	if err := c.call(); err != nil {
		return "OK rejected"
	}
	added := tx.Outputs[before:]
	if c.op == "add" {
		if target < 0 {
			return fail("pset.AddIssuance", "succeeds-without-free-input")
		}
		in := tx.Inputs[target]
		chash := elContractHash(c.args.contract)
		entropy := elEntropy(in.Hash, in.Index, chash)
		want := [][]byte{}
		amounts := [][]byte{}
		scripts := [][]byte{}
		if c.args.asset > 0 {
			want = append(want, append([]byte{1}, elAsset(entropy)...))
			amounts = append(amounts, elAmount(c.args.asset))
			scripts = append(scripts, c.args.aaddr.script)
		}
		if c.args.token > 0 {
			// v0 declares the issuance blinded through confidential destination addresses
			want = append(want, append([]byte{1}, elToken(entropy, c.args.taddr.conf)...))
			amounts = append(amounts, elAmount(c.args.token))
			scripts = append(scripts, c.args.taddr.script)
		}
		if len(added) != len(want) {
			return fail("pset.AddIssuance.outputs", fmt.Sprintf("added-%d-want-%d", len(added), len(want)))
		}
		for i := range want {
			if !bytes.Equal(added[i].Asset, want[i]) {
				if i == len(want)-1 && c.args.token > 0 && bytes.Equal(added[i].Asset, append([]byte{1}, elToken(entropy, !c.args.taddr.conf)...)) {
					return fail("pset.AddIssuance.token-flag", "not-the-declared-confidentiality")
				}
				return fail("pset.AddIssuance.outputs", "asset-is-not-the-derived-id")
			}
			if !bytes.Equal(added[i].Value, amounts[i]) || !bytes.Equal(added[i].Script, scripts[i]) {
				return fail("pset.AddIssuance.outputs", "amount-or-script")
			}
		}
		iss := in.Issuance
		if iss == nil {
			return fail("pset.AddIssuance.tx-fields", "no-issuance-on-the-input")
		}
		if !bytes.Equal(iss.AssetBlindingNonce, make([]byte, 32)) || !bytes.Equal(iss.AssetEntropy, chash) ||
			!bytes.Equal(iss.AssetAmount, elAmount(c.args.asset)) || !bytes.Equal(iss.TokenAmount, elAmount(c.args.token)) {
			return fail("pset.AddIssuance.tx-fields", "nonce/entropy/amounts")
		}
		// what the library itself derives from the finished input
		ie, err := transaction.NewTxIssuanceFromInput(in)
		if err != nil || !bytes.Equal(ie.AssetEntropy, entropy) {
			return fail("NewTxIssuanceFromInput", "entropy-differs")
		}
		return "OK"
	}
	// reissuance
	if len(tx.Inputs) != ninBefore+1 || len(added) != 2 {
		return fail("pset.AddReissuance", "inputs-or-outputs-count")
	}
	in := tx.Inputs[ninBefore]
	eb, _ := issHexDecode(c.re.Entropy)
	entropy := issRev(eb)
	if !bytes.Equal(added[0].Asset, append([]byte{1}, elAsset(entropy)...)) || !bytes.Equal(added[1].Asset, append([]byte{1}, elToken(entropy, true)...)) {
		return fail("pset.AddReissuance.outputs", "asset-is-not-the-derived-id")
	}
	if !bytes.Equal(added[0].Value, elAmount(c.re.AssetAmount)) || !bytes.Equal(added[1].Value, elAmount(c.re.TokenAmount)) {
		return fail("pset.AddReissuance.outputs", "amount")
	}
	iss := in.Issuance
	if iss == nil || !bytes.Equal(iss.AssetBlindingNonce, c.re.PrevOutBlinder) || !bytes.Equal(iss.AssetEntropy, entropy) ||
		!bytes.Equal(iss.AssetAmount, elAmount(c.re.AssetAmount)) || !bytes.Equal(iss.TokenAmount, []byte{0}) {
		return fail("pset.AddReissuance.tx-fields", "nonce/entropy/amounts")
	}
	hb, _ := issHexDecode(c.re.PrevOutHash)
	if !bytes.Equal(in.Hash, issRev(hb)) || in.Index != issMaskIndex(c.re.PrevOutIndex) {
		return fail("pset.AddReissuance.tx-fields", "outpoint")
	}
	return "OK"
}

func issMaskIndex(i uint32) uint32 {
	if i == 0xffffffff {
		return i
	}
	return i & 0x3fffffff
}
func issHexDecode(s string) ([]byte, error) {
	b := make([]byte, len(s)/2)
	for i := range b {
		v, err := strconv.ParseUint(s[2*i:2*i+2], 16, 8)
		if err != nil {
			return nil, err
		}
		b[i] = byte(v)
	}
	return b, nil
}

// psetv2
func checkC13IssV2(t *Toks) string { return issV2StepCheck(readV2Case(t)) }

// one call on a psetv2 updater
func issV2StepCheck(c *v2Case) string {
	if c.op == "add" && !issArgsInDomain(c.args) {
		return "SKIP contract-outside-modelled-alphabet"
	}
	before := len(c.p.Outputs)
	callErr := c.call()
	// whatever the call did, both transaction views of the packet carry, for every input, exactly
	// the issuance the packet declares (commitments included) and agree with each other
	if v := issV2Views(c.p); v != "" {
		return v
	}
	if callErr != nil {
		return "OK rejected"
	}
	p := c.p
	if c.idx < 0 || c.idx >= len(p.Inputs) {
		return fail("psetv2.updater", "succeeds-with-index-out-of-range")
	}
	in := p.Inputs[c.idx]
	added := p.Outputs[before:]
	utx, err := p.UnsignedTx()
	if err != nil {
		return fail("psetv2.UnsignedTx", "error")
	}
	var wantIss transaction.TxIssuance
	var entropy []byte
	var wantAssets [][]byte
	var wantAmounts []uint64
	var wantAddrs []issAddrTok
	site := "psetv2.AddInIssuance"
	if c.op == "add" {
		chash := elContractHash(c.args.contract)
		entropy = elEntropy(in.PreviousTxid, in.PreviousTxIndex, chash)
		wantAssets = append(wantAssets, elAsset(entropy))
		wantAmounts = append(wantAmounts, c.args.asset)
		wantAddrs = append(wantAddrs, c.args.aaddr)
		if c.args.token > 0 {
			wantAssets = append(wantAssets, elToken(entropy, c.args.blinded))
			wantAmounts = append(wantAmounts, c.args.token)
			wantAddrs = append(wantAddrs, c.args.taddr)
		}
		wantIss = transaction.TxIssuance{AssetBlindingNonce: make([]byte, 32), AssetEntropy: chash,
			AssetAmount: elAmount(c.args.asset), TokenAmount: elAmount(c.args.token)}
	} else {
		site = "psetv2.AddInReissuance"
		eb, _ := issHexDecode(c.re.Entropy)
		entropy = issRev(eb)
		wantAssets = [][]byte{elAsset(entropy), elToken(entropy, true)}
		wantAmounts = []uint64{c.re.AssetAmount, c.re.TokenAmount}
		wantAddrs = []issAddrTok{issDecodeAddr(c.re.AssetAddress), issDecodeAddr(c.re.TokenAddress)}
		wantIss = transaction.TxIssuance{AssetBlindingNonce: c.re.TokenPrevOutBlinder, AssetEntropy: entropy,
			AssetAmount: elAmount(c.re.AssetAmount), TokenAmount: []byte{0}}
	}
	// the outputs the updater added pay the derived ids
	if len(added) != len(wantAssets) {
		return fail(site+".outputs", fmt.Sprintf("added-%d-want-%d", len(added), len(wantAssets)))
	}
	for i := range wantAssets {
		if !bytes.Equal(added[i].Asset, wantAssets[i]) {
			if c.op == "add" && i == 1 && bytes.Equal(added[i].Asset, elToken(entropy, !c.args.blinded)) {
				return fail(site+".token-flag", "not-the-declared-blinded-flag")
			}
			return fail(site+".outputs", "asset-is-not-the-derived-id")
		}
		if added[i].Value != wantAmounts[i] || !bytes.Equal(added[i].Script, wantAddrs[i].script) {
			return fail(site+".outputs", "amount-or-script")
		}
		o := utx.Outputs[before+i]
		if !bytes.Equal(o.Asset, append([]byte{1}, wantAssets[i]...)) || !bytes.Equal(o.Value, elAmountExplicit(wantAmounts[i])) {
			return fail("psetv2.UnsignedTx.outputs", "asset-or-value")
		}
	}
	// the derived-id getters agree with the same derivation
	if in.HasIssuance() {
		if !bytes.Equal(in.GetIssuanceAssetHash(), wantAssets[0]) {
			return fail("psetv2.GetIssuanceAssetHash", "not-the-derived-id")
		}
		wantTok := elToken(entropy, in.BlindedIssuance == nil || *in.BlindedIssuance)
		if !bytes.Equal(in.GetIssuanceInflationKeysHash(), wantTok) {
			return fail("psetv2.GetIssuanceInflationKeysHash", "not-the-derived-id")
		}
	}
	// issuance fields of the transaction agree with the packet, for UnsignedTx and for Extract
	verdict := "OK"
	if d := issMismatch(utx.Inputs[c.idx].Issuance, &wantIss); d != "" {
		verdict = fail("psetv2.UnsignedTx.issuance", d)
		return verdict
	}
	etx, err := issExtractTx(p)
	if err != nil {
		return fail("psetv2.Extract", "error")
	}
	if d := issMismatch(etx.Inputs[c.idx].Issuance, &wantIss); d != "" {
		if d == "missing" && wantAmounts[0] == 0 {
			d = "dropped-when-asset-amount-zero"
		}
		return fail("psetv2.Extract.issuance", d)
	}
	return verdict
}

// issuance the packet declares for one input: present iff the entropy field is, each amount the
// commitment when there is one, else the explicit amount, else the null amount
func issV2Declared(in *psetv2.Input) *transaction.TxIssuance {
	if in.IssuanceAssetEntropy == nil {
		return nil
	}
	amount := elAmount(in.IssuanceValue)
	if len(in.IssuanceValueCommitment) > 0 {
		amount = in.IssuanceValueCommitment
	}
	token := elAmount(in.IssuanceInflationKeys)
	if len(in.IssuanceInflationKeysCommitment) > 0 {
		token = in.IssuanceInflationKeysCommitment
	}
	return &transaction.TxIssuance{AssetBlindingNonce: in.IssuanceBlindingNonce, AssetEntropy: in.IssuanceAssetEntropy,
		AssetAmount: amount, TokenAmount: token}
}

func issFieldsDiff(got, want *transaction.TxIssuance) string {
	switch {
	case got == nil && want == nil:
		return ""
	case got == nil:
		return "missing"
	case want == nil:
		return "unexpected-issuance"
	case !bytes.Equal(got.AssetBlindingNonce, want.AssetBlindingNonce):
		return "nonce"
	case !bytes.Equal(got.AssetEntropy, want.AssetEntropy):
		return "entropy"
	case !bytes.Equal(got.AssetAmount, want.AssetAmount):
		if len(want.AssetAmount) == 33 {
			return "asset-amount-not-the-commitment"
		}
		return "asset-amount"
	case !bytes.Equal(got.TokenAmount, want.TokenAmount):
		if len(want.TokenAmount) == 33 {
			return "token-amount-not-the-commitment"
		}
		return "token-amount"
	}
	return ""
}

func issV2Views(p *psetv2.Pset) string {
	utx, err := p.UnsignedTx()
	if err != nil {
		return fail("psetv2.UnsignedTx", "error")
	}
	etx, err := issExtractTx(p)
	if err != nil {
		return fail("psetv2.Extract", "error")
	}
	if len(utx.Inputs) != len(p.Inputs) || len(etx.Inputs) != len(p.Inputs) {
		return fail("psetv2.tx-views", "input-count")
	}
	for i := range p.Inputs {
		want := issV2Declared(&p.Inputs[i])
		if d := issFieldsDiff(utx.Inputs[i].Issuance, want); d != "" {
			return fail("psetv2.UnsignedTx.issuance-fields", d)
		}
		if d := issFieldsDiff(etx.Inputs[i].Issuance, want); d != "" {
			return fail("psetv2.Extract.issuance-fields", d)
		}
		if d := issFieldsDiff(etx.Inputs[i].Issuance, utx.Inputs[i].Issuance); d != "" {
			return fail("psetv2.Extract.issuance-fields", "differs-from-UnsignedTx/"+d)
		}
		if v := issV2Getters(&p.Inputs[i]); v != "" {
			return v
		}
	}
	return ""
}

// the derived-id getters of any input that issues return the ids of the Elements derivation: from
// the outpoint and the contract hash for a new issuance (blinding nonce absent or 32 zero bytes),
// from the stored entropy for a reissuance (non-zero nonce); the token id is the confidential one
// unless the input says BlindedIssuance = false
func issV2Getters(in *psetv2.Input) string {
	if !(in.IssuanceValue > 0 || in.IssuanceInflationKeys > 0) || len(in.IssuanceAssetEntropy) != 32 || len(in.PreviousTxid) != 32 {
		return ""
	}
	nonce := in.IssuanceBlindingNonce
	kind := "new-issuance"
	if len(nonce) == 0 {
		kind = "new-issuance-without-nonce"
	}
	entropy := in.IssuanceAssetEntropy
	if len(nonce) == 0 || bytes.Equal(nonce, make([]byte, 32)) {
		entropy = elEntropy(in.PreviousTxid, in.PreviousTxIndex, in.IssuanceAssetEntropy)
	} else {
		kind = "reissuance"
	}
	if !bytes.Equal(in.GetIssuanceAssetHash(), elAsset(entropy)) {
		return fail("psetv2.GetIssuanceAssetHash", "not-the-derived-id/"+kind)
	}
	if !bytes.Equal(in.GetIssuanceInflationKeysHash(), elToken(entropy, in.BlindedIssuance == nil || *in.BlindedIssuance)) {
		return fail("psetv2.GetIssuanceInflationKeysHash", "not-the-derived-id/"+kind)
	}
	return ""
}

func elAmountExplicit(v uint64) []byte {
	b := make([]byte, 9)
	b[0] = 1
	binary.BigEndian.PutUint64(b[1:], v)
	return b
}

func issMismatch(got, want *transaction.TxIssuance) string {
	if got == nil {
		return "missing"
	}
	if !bytes.Equal(got.AssetBlindingNonce, want.AssetBlindingNonce) {
		return "nonce"
	}
	if !bytes.Equal(got.AssetEntropy, want.AssetEntropy) {
		return "entropy"
	}
	if !bytes.Equal(got.TokenAmount, want.TokenAmount) {
		return "token-amount"
	}
	if !bytes.Equal(got.AssetAmount, want.AssetAmount) {
		if bytes.Equal(want.AssetAmount, []byte{0}) && bytes.Equal(got.AssetAmount, elAmountExplicit(0)) {
			return "explicit-zero-asset-amount"
		}
		return "asset-amount"
	}
	return ""
}

// ---------- histories: several calls on one updater ----------

// the three ids an issuing input derives (asset, token, confidential token); nil if it derives none
func issDerivedIDs(hash []byte, index uint32, nonce, entropyField []byte) [][]byte {
	var entropy []byte
	if len(nonce) > 0 && !bytes.Equal(nonce, make([]byte, 32)) { // reissuance: the field is the entropy
		entropy = entropyField
	} else if len(hash) == 32 && len(entropyField) == 32 { // new issuance: the field is the contract hash
		entropy = elEntropy(hash, index, entropyField)
	}
	if len(entropy) != 32 {
		return nil
	}
	return [][]byte{elAsset(entropy), elToken(entropy, false), elToken(entropy, true)}
}

func issStepSuffix(r string, k int) string { return fmt.Sprintf("%s/step%d", r, k+1) }

// after every step of a history: an issuance attached earlier is still there unchanged, and every
// output a successful AddIssuance/AddReissuance added is still paid by the ids some input derives
func checkC13IssH0(t *Toks) string {
	p, steps := readV0History(t)
	tx := p.UnsignedTx
	var paid []int
	for k, c := range steps {
		beforeIss := make([]string, len(tx.Inputs))
		for i, in := range tx.Inputs {
			beforeIss[i] = issDump(in.Issuance)
		}
		nout := len(tx.Outputs)
		r := issV0StepCheck(c)
		if strings.HasPrefix(r, "FAIL") {
			return issStepSuffix(r, k)
		}
		if strings.HasPrefix(r, "SKIP") {
			return r
		}
		for i := range beforeIss {
			if beforeIss[i] != "0" && (i >= len(tx.Inputs) || issDump(tx.Inputs[i].Issuance) != beforeIss[i]) {
				return issStepSuffix(fail("pset.history.issuance-overwritten", "by-"+c.op), k)
			}
		}
		if r == "OK" {
			for j := nout; j < len(tx.Outputs); j++ {
				paid = append(paid, j)
			}
		}
		for _, j := range paid {
			if j >= len(tx.Outputs) {
				return issStepSuffix(fail("pset.history.output-removed", "by-"+c.op), k)
			}
			found := false
			for _, in := range tx.Inputs {
				if in.Issuance == nil {
					continue
				}
				for _, id := range issDerivedIDs(in.Hash, in.Index, in.Issuance.AssetBlindingNonce, in.Issuance.AssetEntropy) {
					if bytes.Equal(tx.Outputs[j].Asset, append([]byte{1}, id...)) {
						found = true
					}
				}
			}
			if !found {
				return issStepSuffix(fail("pset.history.orphan-issuance-output", "no-input-derives-its-asset"), k)
			}
		}
	}
	return "OK"
}

func issV2InDump(in *psetv2.Input) string {
	if in.IssuanceAssetEntropy == nil {
		return "0"
	}
	bl := "n"
	if in.BlindedIssuance != nil {
		bl = b2s(*in.BlindedIssuance)
	}
	return fmt.Sprintf("%d/%s/%d/%s/%s/%s/%s", in.IssuanceValue, issOptTok(in.IssuanceValueCommitment), in.IssuanceInflationKeys,
		issOptTok(in.IssuanceInflationKeysCommitment), issOptTok(in.IssuanceBlindingNonce), issOptTok(in.IssuanceAssetEntropy), bl)
}

func checkC13IssH2(t *Toks) string {
	p, steps := readV2History(t)
	var paid []int
	for k, c := range steps {
		beforeIss := make([]string, len(p.Inputs))
		for i := range p.Inputs {
			beforeIss[i] = issV2InDump(&p.Inputs[i])
		}
		nout := len(p.Outputs)
		r := issV2StepCheck(c)
		if strings.HasPrefix(r, "FAIL") {
			return issStepSuffix(r, k)
		}
		if strings.HasPrefix(r, "SKIP") {
			return r
		}
		for i := range beforeIss {
			if beforeIss[i] != "0" && (i >= len(p.Inputs) || issV2InDump(&p.Inputs[i]) != beforeIss[i]) {
				return issStepSuffix(fail("psetv2.history.issuance-overwritten", "by-"+c.op), k)
			}
		}
		if r == "OK" {
			for j := nout; j < len(p.Outputs); j++ {
				paid = append(paid, j)
			}
		} else if len(p.Outputs) != nout {
			return issStepSuffix(fail("psetv2.history.outputs-changed-by-refused-call", "by-"+c.op), k)
		}
		for _, j := range paid {
			if j >= len(p.Outputs) {
				return issStepSuffix(fail("psetv2.history.output-removed", "by-"+c.op), k)
			}
			found := false
			for i := range p.Inputs {
				in := &p.Inputs[i]
				if in.IssuanceAssetEntropy == nil {
					continue
				}
				for _, id := range issDerivedIDs(in.PreviousTxid, in.PreviousTxIndex, in.IssuanceBlindingNonce, in.IssuanceAssetEntropy) {
					if bytes.Equal(p.Outputs[j].Asset, id) {
						found = true
					}
				}
			}
			if !found {
				return issStepSuffix(fail("psetv2.history.orphan-issuance-output", "no-input-derives-its-asset"), k)
			}
		}
	}
	return "OK"
}

func init() {
	checks["C13/issh0"] = checkC13IssH0
	checks["C13/issh2"] = checkC13IssH2
	checks["C13/issid"] = checkC13IssID
	checks["C13/issmid"] = checkC13IssMid
	checks["C13/isscon"] = checkC13IssCon
	checks["C13/issv0"] = checkC13IssV0
	checks["C13/issv2"] = checkC13IssV2
}
