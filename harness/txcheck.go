package main

import (
	"bytes"
	"fmt"

	"github.com/vulpemventures/go-elements/transaction"
)

// Implementation-side property oracles (S) for the transaction family.
// They state the property directly on the real code; they are used to search for
// a failing input and to write replays, never as evidence that a property holds.

func isValue(x []byte) bool {
	if len(x) == 0 {
		return false
	}
	switch x[0] {
	case 0:
		return len(x) == 1
	case 1:
		return len(x) == 9
	case 8, 9:
		return len(x) == 33
	}
	return false
}
func isAsset(x []byte) bool {
	return len(x) == 33 && (x[0] == 1 || x[0] == 10 || x[0] == 11)
}
func isNonce(x []byte) bool {
	if len(x) == 0 {
		return false
	}
	if x[0] >= 1 && x[0] <= 3 {
		return len(x) == 33
	}
	return len(x) == 1
}

// wfTx mirrors Model/Tx.v wf_tx: the values the wire format can represent.
func wfTx(tx *transaction.Transaction) bool { return wfTxOpt(tx, false) }

// wfTxHash is the domain of the hash properties (C04): additionally the values the API can hold and the
// serializer writes in full although the parser would not give them back — an issuance on an input with the
// null index 0xffffffff (the index word has every flag bit set already; the four issuance fields are written).
func wfTxHash(tx *transaction.Transaction) bool { return wfTxOpt(tx, true) }

func wfTxOpt(tx *transaction.Transaction, nullIndexIssuance bool) bool {
	for _, in := range tx.Inputs {
		if len(in.Hash) != 32 {
			return false
		}
		if in.Index == 0xffffffff {
			if in.IsPegin || (in.Issuance != nil && !nullIndexIssuance) {
				return false
			}
			if iss := in.Issuance; iss != nil {
				if len(iss.AssetBlindingNonce) != 32 || len(iss.AssetEntropy) != 32 || !isValue(iss.AssetAmount) || !isValue(iss.TokenAmount) {
					return false
				}
			}
		} else {
			if in.Index > 0x3fffffff {
				// hash domain only: a high bit that is not shadowed by the flag it doubles as on the wire
				if !nullIndexIssuance || (in.Index&0x40000000 != 0 && in.IsPegin) || (in.Index&0x80000000 != 0 && in.Issuance != nil) {
					return false
				}
			}
			if in.Index == 0x3fffffff && in.IsPegin && in.Issuance != nil {
				return false
			}
			if iss := in.Issuance; iss != nil {
				if len(iss.AssetBlindingNonce) != 32 || len(iss.AssetEntropy) != 32 || !isValue(iss.AssetAmount) || !isValue(iss.TokenAmount) {
					return false
				}
			}
		}
	}
	for _, o := range tx.Outputs {
		if !isAsset(o.Asset) || !isValue(o.Value) || !isNonce(o.Nonce) {
			return false
		}
	}
	return true
}

func normDump(tx *transaction.Transaction) string {
	c := *tx
	if tx.HasWitness() {
		c.Flag = 1
	} else {
		c.Flag = 0
	}
	return dumpTx(&c)
}

func fail(site, detail string) string { return fmt.Sprintf("FAIL site=%s detail=%s", site, detail) }

// C01 on a transaction value
func checkC01Tx(t *Toks) string {
	tx := readTx(t)
	if !wfTx(tx) {
		return "SKIP not-wf"
	}
	ser, err := tx.Serialize()
	if err != nil {
		return fail("tx.Serialize", "error")
	}
	buf := bytes.NewBuffer(append(append([]byte{}, ser...), 0xde, 0xad))
	p, err := transaction.NewTxFromBuffer(buf)
	if err != nil {
		return fail("tx.roundtrip", "parse-rejects-own-serialization")
	}
	if buf.Len() != 2 {
		return fail("tx.roundtrip", fmt.Sprintf("consumed-wrong-length/left=%d", buf.Len()))
	}
	if dumpTx(p) != normDump(tx) {
		return fail("tx.roundtrip", "fields-differ")
	}
	return "OK"
}

// C01 on accepted bytes
func checkC01Raw(t *Toks) string {
	bs := t.Hex()
	buf := bytes.NewBuffer(append([]byte{}, bs...))
	p, err := transaction.NewTxFromBuffer(buf)
	if err != nil {
		return "OK rejected"
	}
	if !canonFlag(p) {
		return "OK noncanonical-flag"
	}
	re, err := p.Serialize()
	if err != nil {
		return fail("tx.reserialize", "error")
	}
	if !bytes.Equal(re, bs[:len(bs)-buf.Len()]) {
		return fail("tx.reserialize", "bytes-differ")
	}
	return "OK"
}

func stripWitness(tx *transaction.Transaction) *transaction.Transaction {
	c := tx.Copy()
	c.Flag = 0
	for _, in := range c.Inputs {
		in.Witness, in.PeginWitness, in.IssuanceRangeProof, in.InflationRangeProof = nil, nil, nil, nil
	}
	for _, o := range c.Outputs {
		o.RangeProof, o.SurjectionProof = nil, nil
	}
	return c
}

func ceilDiv4(x int) int { return (x + 3) / 4 }

// C19 on a transaction value
func checkC19Tx(t *Toks) string {
	tx := readTx(t)
	for _, in := range tx.Inputs {
		if len(in.Hash) != 32 {
			return "SKIP hash-length"
		}
		if iss := in.Issuance; iss != nil && (len(iss.AssetBlindingNonce) != 32 || len(iss.AssetEntropy) != 32) {
			return "SKIP issuance-length"
		}
	}
	full, _ := tx.Serialize()
	base, _ := stripWitness(tx).Serialize()
	if tx.SerializeSize(true, false) != len(full) {
		return fail("SerializeSize(witness)", fmt.Sprintf("%d!=%d", tx.SerializeSize(true, false), len(full)))
	}
	if tx.SerializeSize(false, false) != len(base) {
		return fail("SerializeSize(base)", fmt.Sprintf("%d!=%d", tx.SerializeSize(false, false), len(base)))
	}
	for i, in := range tx.Inputs {
		one := &transaction.Transaction{Inputs: []*transaction.TxInput{in}}
		none := &transaction.Transaction{}
		a, _ := stripWitness(one).Serialize()
		b, _ := none.Serialize()
		if in.SerializeSize() != len(a)-len(b) {
			return fail("TxInput.SerializeSize", fmt.Sprintf("input=%d", i))
		}
	}
	for i, o := range tx.Outputs {
		one := &transaction.Transaction{Outputs: []*transaction.TxOutput{o}}
		none := &transaction.Transaction{}
		a, _ := stripWitness(one).Serialize()
		b, _ := none.Serialize()
		if o.SerializeSize() != len(a)-len(b) {
			return fail("TxOutput.SerializeSize", fmt.Sprintf("output=%d", i))
		}
	}
	w := tx.Weight()
	if w != 3*len(base)+len(full) {
		return fail("Weight", "not-3*base+total")
	}
	if tx.VirtualSize() != ceilDiv4(w) {
		return fail("VirtualSize", "not-ceil(weight/4)")
	}
	dw := tx.DiscountWeight()
	anyConf := false
	wellShaped := true
	for _, o := range tx.Outputs {
		if o.IsConfidential() {
			anyConf = true
			if len(o.Value) != 33 || len(o.Nonce) != 33 {
				wellShaped = false
			}
		}
	}
	if !anyConf && dw != w {
		return fail("DiscountWeight", "differs-without-confidential-output")
	}
	if wellShaped {
		if dw > w {
			return fail("DiscountWeight", "exceeds-weight")
		}
		if tx.DiscountVirtualSize() > tx.VirtualSize() {
			return fail("DiscountVirtualSize", "exceeds-vsize")
		}
		if tx.DiscountVirtualSize() != ceilDiv4(dw) {
			return fail("DiscountVirtualSize", "not-ceil(dweight/4)")
		}
		// discount rule: each confidential output charged like an explicit one.
		// Well defined when making the outputs explicit does not remove the witness section.
		ex := tx.Copy()
		for _, o := range ex.Outputs {
			if o.IsConfidential() {
				o.Value = append([]byte{1}, make([]byte, 8)...)
				o.Nonce = []byte{0}
				o.RangeProof, o.SurjectionProof = nil, nil
			}
		}
		if ex.HasWitness() && tx.HasWitness() {
			if dw != ex.Weight() {
				return fail("DiscountWeight", fmt.Sprintf("rule/%d!=%d", dw, ex.Weight()))
			}
		}
	}
	return "OK"
}

func init() {
	checks["C01/tx"] = checkC01Tx
	checks["C01/raw"] = checkC01Raw
	checks["C19/tx"] = checkC19Tx
}
